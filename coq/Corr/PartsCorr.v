(* Correspondence for C17: compares what gemmill/types/part_set.go and go-merkle did on a
   generated case with what Model.PartSet / Model.Merkle compute on the same inputs. *)
From Coq Require Import List NArith ZArith Bool.
From AnnVerif Require Import Base.Res Base.Bytes Base.Sx Model.Merkle Model.PartSet Corr.Oracle.
Import ListNotations.

Record pcase := mkPCase {
  c_tbl : list (bytes * bytes);
  c_data : bytes; c_psize : nat;
  c_total : Z; c_hash : bytes; c_parts : list part;         (* observed: sender side *)
  c_htotal : Z; c_hhash : bytes; c_hdr_panic : bool;         (* receiver header; observed panic *)
  c_adds : list (part * N);                                  (* observed AddPart outcome codes *)
  c_complete : bool; c_read : option bytes;                  (* observed; None = panic *)
  c_verifs : list (Z * Z * bytes * bytes * list bytes * N);  (* index,total,leaf,root,aunts -> 1/0 *)
  c_roots : list (list bytes * bytes)
}.

Definition part_eqb (a b : part) : bool :=
  Z.eqb (p_index a) (p_index b) && bytes_eqb (p_bytes a) (p_bytes b)
  && list_eqb bytes_eqb (p_aunts a) (p_aunts b).

Definition out_code (o : add_out) : N :=
  match o with Added => 0 | Dup => 1 | BadIndex => 2 | BadProof => 3 end%N.

Fixpoint run_adds (h : bytes -> bytes) (ps : partset) (l : list (part * N)) : partset * bool :=
  match l with
  | [] => (ps, true)
  | (p, code) :: t =>
    let '(ps', o) := add_part h ps p true in
    if N.eqb (out_code o) code then run_adds h ps' t else (ps', false)
  end.

Definition check_case (c : pcase) : list N :=
  let h := oracle (c_tbl c) in
  let snd_ps := from_data h (c_data c) (c_psize c) in
  let ok_sender :=
    Z.eqb (ps_total snd_ps) (c_total c) && bytes_eqb (ps_hash snd_ps) (c_hash c)
    && list_eqb (opt_eqb part_eqb) (ps_parts snd_ps) (map Some (c_parts c)) in
  let ok_recv :=
    match from_header (c_htotal c) (c_hhash c) with
    | Panic _ => c_hdr_panic c
    | Err _ => false
    | Ok ps0 =>
      negb (c_hdr_panic c) &&
      let '(ps1, ok_adds) := run_adds h ps0 (c_adds c) in
      ok_adds && Bool.eqb (is_complete ps1) (c_complete c)
      && (if is_complete ps1
          then match read_all ps1, c_read c with
               | Ok b, Some b' => bytes_eqb b b'
               | Panic _, None => true
               | _, _ => false
               end
          else true)
    end in
  let ok_verifs :=
    forallb (fun v => match v with (i, t, leaf, root, aunts, code) =>
               N.eqb (if verify h i t leaf root aunts then 1 else 0) code end) (c_verifs c) in
  let ok_roots :=
    forallb (fun r => bytes_eqb (simple_root h (fst r)) (snd r)) (c_roots c) in
  falses [ok_sender; ok_recv; ok_verifs; ok_roots].

(* ---- decoding of the harness's case line ---- *)
Definition dPart (s : sx) : option part :=
  match s with
  | SL [i; b; a] =>
    i' <-? dZ i ;; b' <-? dB b ;; a' <-? dL dB a ;; Some (mkPart i' b' a')
  | _ => None
  end.
Definition dVerif (s : sx) : option (Z * Z * bytes * bytes * list bytes * N) :=
  match s with
  | SL [i; t; leaf; root; aunts; code] =>
    i' <-? dZ i ;; t' <-? dZ t ;; l' <-? dB leaf ;; r' <-? dB root ;; a' <-? dL dB aunts ;; c' <-? dN code ;;
    Some (i', t', l', r', a', c')
  | _ => None
  end.
Definition dCase (s : sx) : option pcase :=
  match s with
  | SL [tbl; data; psize; total; hash; parts; htotal; hhash; hpanic; adds; complete; read; verifs; roots] =>
    tbl' <-? dL (dPair dB dB) tbl ;; data' <-? dB data ;; psize' <-? dNat psize ;;
    total' <-? dZ total ;; hash' <-? dB hash ;; parts' <-? dL dPart parts ;;
    htotal' <-? dZ htotal ;; hhash' <-? dB hhash ;; hpanic' <-? dBool hpanic ;;
    adds' <-? dL (dPair dPart dN) adds ;; complete' <-? dBool complete ;; read' <-? dOpt dB read ;;
    verifs' <-? dL dVerif verifs ;; roots' <-? dL (dPair (dL dB) dB) roots ;;
    Some (mkPCase tbl' data' psize' total' hash' parts' htotal' hhash' hpanic' adds' complete' read' verifs' roots')
  | _ => None
  end.

Definition check_parts (s : sx) : sx :=
  match dCase s with
  | Some c => sx_of_codes (check_case c)
  | None => sx_fail
  end.
