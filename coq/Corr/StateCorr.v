(* Correspondence for C11 (engine "statedb"): eth/core/state.StateDB versus Model.StateDB (journal
   semantics).  After every operation the harness reads existence, nonce, balance and the storage
   slots of every account; the model performs the same operation and must show the same. *)
From Coq Require Import List NArith ZArith Bool.
From AnnVerif Require Import Base.Res Base.Bytes Base.Sx Model.StateDB.
Import ListNotations.
Open Scope N_scope.

Definition dOp (s : sx) : option (option op) :=
  match s with
  | SL [SZ 0%Z; a; n] => a' <-? dN a ;; n' <-? dN n ;; Some (Some (OSetNonce a' n'))
  | SL [SZ 1%Z; a; v] => a' <-? dN a ;; v' <-? dN v ;; Some (Some (OAddBal a' v'))
  | SL [SZ 2%Z; a; k; v] => a' <-? dN a ;; k' <-? dN k ;; v' <-? dN v ;; Some (Some (OSetState a' k' v'))
  | SL [SZ 3%Z; a] => a' <-? dN a ;; Some (Some (OSuicide a'))
  | SL [SZ 4%Z; a] => a' <-? dN a ;; Some (Some (OCreate a'))
  | SL [SZ 5%Z; _] => Some (Some OSnap)
  | SL [SZ 6%Z; i] => i' <-? dNat i ;; Some (Some (ORevert i'))
  | SL [SZ 7%Z] => Some (Some (OFinalise true))
  | SL [SZ 8%Z] => Some (Some (OFinalise true))      (* Commit and reopen: see step_sdb *)
  | SL [SZ 10%Z] => Some (Some (OFinalise false))    (* Finalise(false): empty accounts stay *)
  | SL [SZ 11%Z] => Some (Some (OFinalise false))    (* Commit(false) and reopen *)
  | SL [SZ 9%Z] => Some None
  | _ => None
  end.

Definition dRead (s : sx) : option (bool * N * N * list N) :=
  match s with
  | SL [e; n; b; SL st] => e' <-? dBool e ;; n' <-? dN n ;; b' <-? dN b ;; st' <-? mapM dN st ;; Some (e', n', b', st')
  | _ => None
  end.

Fixpoint slots_eqb (w : world) (a : N) (k : N) (l : list N) : bool :=
  match l with
  | [] => true
  | v :: t => N.eqb (state_ w a k) v && slots_eqb w a (N.succ k) t
  end.
Fixpoint reads_eqb (w : world) (a : N) (l : list (bool * N * N * list N)) : bool :=
  match l with
  | [] => true
  | (e, n, b, st) :: t =>
    Bool.eqb (exists_ w a) e && N.eqb (nonce_ w a) n && N.eqb (bal_ w a) b && slots_eqb w a 0 st &&
    reads_eqb w (N.succ a) t
  end.

(* codes: 1000 + the index of every step after which a reader sees something else than the model *)
Definition step_sdb (acc : jstate * list N * N) (s : sx) : jstate * list N * N :=
  let '(st, codes, i) := acc in
  match s with
  | SL [o; SL rd] =>
    match dOp o, mapM dRead rd with
    | Some (Some op), Some rs =>
      (* a StateDB reopened at the committed root is a new object: its revision ids start again *)
      let reopen := match o with SL [SZ 8%Z] => true | SL [SZ 11%Z] => true | _ => false end in
      let st1 := j_step st op in
      let st' := if reopen then mkJ (j_w st1) [] [] 0 else st1 in
      (st', codes ++ (if reads_eqb (j_w st') 0 rs then [] else [i]), N.succ i)
    | Some None, _ => (st, codes ++ [9], N.succ i)
    | _, _ => (st, codes ++ [99], N.succ i)
    end
  | _ => (st, codes ++ [99], N.succ i)
  end.

Definition check_statedb (c : sx) : sx :=
  match c with
  | SL steps => sx_of_codes (snd (fst (fold_left step_sdb steps (j0, [], 1000))))
  | _ => sx_fail
  end.
