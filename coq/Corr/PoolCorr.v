(* Correspondence for C19: evm.ethTxPool (through the verif shim) and gemmill/mempool versus
   Model.TxPool. *)
From Coq Require Import List NArith ZArith Bool.
From AnnVerif Require Import Base.Res Base.Bytes Base.Sx Model.TxPool Corr.Oracle.
Import ListNotations.

Definition dTx (s : sx) : option tx :=
  match s with SL [f; n; i] => f' <-? dN f ;; n' <-? dN n ;; i' <-? dN i ;; Some (mkTx f' n' i') | _ => None end.
Definition dNonces := dL (dPair dN dN).
Definition dQueue := dL (dPair dN (dL (dPair dN dN))).   (* addr -> [(nonce, id)] *)

Record snap := mkSnap { sn_pending : list (N * list (N * N)); sn_waiting : list (N * list (N * N));
                        sn_all : list N; sn_ext : list N; sn_size : nat }.
Definition dSnap (s : sx) : option snap :=
  match s with
  | SL [p; w; a; e; z] => p' <-? dQueue p ;; w' <-? dQueue w ;; a' <-? dL dN a ;; e' <-? dL dN e ;; z' <-? dNat z ;;
                          Some (mkSnap p' w' a' e' z')
  | _ => None
  end.

Definition queue_of (a : amap) : list (N * list (N * N)) :=
  map (fun kv => (fst kv, map (fun t => (t_nonce t, t_id t)) (snd kv))) a.
Definition pair_eqb (a b : N * N) : bool := N.eqb (fst a) (fst b) && N.eqb (snd a) (snd b).
Definition queue_eqb (a b : list (N * list (N * N))) : bool :=
  list_eqb (fun x y => N.eqb (fst x) (fst y) && list_eqb pair_eqb (snd x) (snd y)) a b.

Fixpoint insert_sorted (x : N) (l : list N) : list N :=
  match l with [] => [x] | h :: t => if (x <=? h)%N then x :: l else h :: insert_sorted x t end.
Definition sortN (l : list N) : list N := fold_right insert_sorted [] l.

Definition snap_ok (p : pool) (s : snap) : bool :=
  queue_eqb (queue_of (p_pending p)) (sn_pending s) && queue_eqb (queue_of (p_waiting p)) (sn_waiting s)
  && list_eqb N.eqb (sortN (p_all p)) (sn_all s) && list_eqb N.eqb (p_ext p) (sn_ext s)
  && Nat.eqb (size p) (sn_size s).

Definition step (p : pool) (op : sx) : option pool :=
  match op with
  | SL [SZ 0%Z; t; ns; code; sn] =>
    t' <-? dTx t ;; ns' <-? dNonces ns ;; code' <-? dN code ;; sn' <-? dSnap sn ;;
    let '(p', c) := receive ns' p t' in
    if N.eqb c code' && snap_ok p' sn' then Some p' else None
  | SL [SZ 1%Z; i; code; sn] =>
    i' <-? dN i ;; code' <-? dN code ;; sn' <-? dSnap sn ;;
    let '(p', c) := receive_admin p i' in
    if N.eqb c code' && snap_ok p' sn' then Some p' else None
  | SL [SZ 2%Z; e; q] =>
    e' <-? dL dN e ;; q' <-? dQueue q ;;
    let '(me, mq) := reap_all p in
    if list_eqb N.eqb me e' && queue_eqb (queue_of mq) q' then Some p else None
  | SL [SZ 3%Z; ids; sn] =>
    ids' <-? dL dN ids ;; sn' <-? dSnap sn ;;
    let p' := update p ids' in if snap_ok p' sn' then Some p' else None
  | SL [SZ 4%Z; ns; sn] =>
    ns' <-? dNonces ns ;; sn' <-? dSnap sn ;;
    let p' := update_to_state ns' p in if snap_ok p' sn' then Some p' else None
  | SL [SZ 5%Z; sn] =>
    sn' <-? dSnap sn ;; let p' := flush p in if snap_ok p' sn' then Some p' else None
  | SL [SZ 6%Z; a; ns; v] =>
    a' <-? dN a ;; ns' <-? dNonces ns ;; v' <-? dN v ;;
    if N.eqb (get_pending_max_nonce ns' p a') v' then Some p else None
  | _ => None
  end.

Fixpoint run_ops (p : pool) (ops : list sx) (k : Z) : Z :=
  match ops with
  | [] => 0%Z
  | op :: t => match step p op with Some p' => run_ops p' t (k + 1) | None => k end
  end.

Definition check_pool (s : sx) : sx :=
  match s with
  | SL [pl; wl; SL ops] =>
    match dNat pl, dNat wl with
    | Some pl', Some wl' =>
      let bad := run_ops (new_pool pl' wl') ops 1 in
      if Z.eqb bad 0 then SL [] else SL [SZ bad]
    | _, _ => sx_fail
    end
  | _ => sx_fail
  end.

(* ---- gemmill/mempool: ops (0 id accepted) (1 n ids) (2 ids) ---- *)
Definition mstep (m : mempool) (op : sx) : option mempool :=
  match op with
  | SL [SZ 0%Z; i; ok] =>
    i' <-? dN i ;; ok' <-? dBool ok ;;
    let '(m', b) := mem_receive m i' in if Bool.eqb b ok' then Some m' else None
  | SL [SZ 1%Z; n; ids] =>
    n' <-? dZ n ;; ids' <-? dL dN ids ;;
    if list_eqb N.eqb (mem_reap m n') ids' then Some m else None
  | SL [SZ 2%Z; ids] => ids' <-? dL dN ids ;; Some (mem_update m ids')
  | _ => None
  end.
Fixpoint mrun_ops (m : mempool) (ops : list sx) (k : Z) : Z :=
  match ops with
  | [] => 0%Z
  | op :: t => match mstep m op with Some m' => mrun_ops m' t (k + 1) | None => k end
  end.
Definition check_mempool (s : sx) : sx :=
  match s with
  | SL ops => let bad := mrun_ops (mkMem [] []) ops 1 in if Z.eqb bad 0 then SL [] else SL [SZ bad]
  | _ => sx_fail
  end.
