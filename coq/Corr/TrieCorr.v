(* Correspondence for C11 (engine "trie"): eth/trie versus Model.Trie.  The implementation's fully
   resolved node structure is compared with the model's after every write and reopen, gets are
   compared, and the model recomputes every root from the structure through the (encoding, hash)
   pairs the harness read from the trie database. *)
From Coq Require Import List NArith ZArith Bool.
From AnnVerif Require Import Base.Res Base.Bytes Base.Sx Model.Rlp Model.Trie Corr.Oracle.
Import ListNotations.

Definition mapM2 {A B} (f : A -> option B) : list A -> option (list B) :=
  fix go (l : list A) : option (list B) :=
    match l with
    | [] => Some []
    | x :: t => match f x, go t with Some y, Some ys => Some (y :: ys) | _, _ => None end
    end.

Fixpoint dNode (s : sx) : option node :=
  match s with
  | SL [SZ 0%Z] => Some NNil
  | SL [SZ 1%Z; SB v] => Some (NVal v)
  | SL [SZ 2%Z; SB k; c] => c' <-? dNode c ;; Some (NShort k c')
  | SL [SZ 3%Z; SL cs] => cs' <-? mapM2 dNode cs ;; Some (NFull cs')
  | _ => None
  end.

Fixpoint node_eqb (a b : node) {struct a} : bool :=
  match a, b with
  | NNil, NNil => true
  | NVal x, NVal y => bytes_eqb x y
  | NShort k c, NShort k' c' => bytes_eqb k k' && node_eqb c c'
  | NFull cs, NFull cs' =>
    (fix go (x y : list node) : bool :=
       match x, y with
       | [] , [] => true
       | a :: x', b :: y' => node_eqb a b && go x' y'
       | _, _ => false
       end) cs cs'
  | _, _ => false
  end.

(* codes: 1 structure after a write, 2 get, 3 root, 4 structure after reopen *)
Definition step (H : bytes -> bytes) (acc : node * list N) (s : sx) : node * list N :=
  let '(n, codes) := acc in
  match s with
  | SL [SZ 0%Z; SB k; SB v; d] =>
    let n' := update n k v in
    (n', codes ++ match dNode d with Some m => if node_eqb n' m then [] else [1%N] | None => [99%N] end)
  | SL [SZ 1%Z; SB k; d] =>
    let n' := update n k [] in
    (n', codes ++ match dNode d with Some m => if node_eqb n' m then [] else [1%N] | None => [99%N] end)
  | SL [SZ 2%Z; SB k; r] =>
    (n, codes ++ match dOpt dB r with
                 | Some o => if opt_eqb bytes_eqb (get n k) o then [] else [2%N]
                 | None => [99%N]
                 end)
  | SL [SZ 3%Z; SB root] => (n, codes ++ if bytes_eqb (root_hash H n) root then [] else [3%N])
  | SL [SZ 4%Z; SB root; d] =>
    (n, codes ++ (if bytes_eqb (root_hash H n) root then [] else [3%N]) ++
                 match dNode d with Some m => if node_eqb n m then [] else [4%N] | None => [99%N] end)
  | SL [SZ 9%Z] => (n, codes ++ [9%N])
  | _ => (n, codes ++ [99%N])
  end.

Definition check_trie (c : sx) : sx :=
  match c with
  | SL [tbl; SL steps] =>
    match dL (dPair dB dB) tbl with
    | Some t => sx_of_codes (snd (fold_left (step (oracle t)) steps (NNil, [])))
    | None => sx_fail
    end
  | _ => sx_fail
  end.
