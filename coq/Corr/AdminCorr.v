(* Correspondence for C14: plugin.AdminOp (ExecTX, EndBlock) + state.ExecBlock's validator flow
   versus Model.AdminOp. *)
From Coq Require Import List NArith ZArith Bool.
From AnnVerif Require Import Base.Res Base.Bytes Base.Sx Model.ValSet Model.AdminOp Corr.Oracle Corr.ValSetCorr.
Import ListNotations.

Definition dCmdKind (s : sx) : option vcmd :=
  match s with SZ 0%Z => Some CAdd | SZ 1%Z => Some CUpdate | SZ 2%Z => Some CRemove | SZ 3%Z => Some COther | _ => None end.
Definition dAttr (s : sx) : option vattr :=
  match s with
  | SL [p; pa; pw; c; f; n] =>
    p' <-? dB p ;; pa' <-? dB pa ;; pw' <-? dZ pw ;; c' <-? dCmdKind c ;; f' <-? dB f ;; n' <-? dZ n ;;
    Some (mkAttr p' pa' pw' c' f' n')
  | _ => None
  end.
Definition dSig (s : sx) : option siginfo :=
  match s with SL [a; ok] => a' <-? dB a ;; ok' <-? dBool ok ;; Some (mkSig a' ok') | _ => None end.
Definition dCmd (s : sx) : option admincmd :=
  match s with
  | SL [t; p; a; ss; sg] =>
    t' <-? dBool t ;; p' <-? dBool p ;; a' <-? dAttr a ;; ss' <-? dBool ss ;; sg' <-? dL dSig sg ;;
    Some (mkCmd t' p' a' ss' sg')
  | _ => None
  end.

Definition vals_eqb (a b : list val16) : bool := list_eqb val_eqb a b.

(* ops: (0 cmd from nonce code pending)  exec;  (1 panicOrErr vals) end of block *)
Definition step (st : adminst) (op : sx) : option adminst :=
  match op with
  | SL [SZ 0%Z; c; f; n; code; pend] =>
    c' <-? dCmd c ;; f' <-? dB f ;; n' <-? dZ n ;; code' <-? dN code ;; pend' <-? dNat pend ;;
    let '(st', mc) := exec_tx st c' f' n' in
    if N.eqb mc code' && Nat.eqb (length (ad_changed st')) pend' then Some st' else None
  | SL [SZ 1%Z; err; vals] =>
    err' <-? dBool err ;; vals' <-? dL dVal vals ;;
    match end_block st with
    | Ok st' => if negb err' && vals_eqb (vl (ad_vals st')) vals' then Some st' else None
    | _ => if err' then Some (mkAdmin (ad_vals st) []) else None
    end
  | _ => None
  end.

Fixpoint run_ops (st : adminst) (ops : list sx) (k : Z) : Z :=
  match ops with
  | [] => 0%Z
  | op :: t => match step st op with Some st' => run_ops st' t (k + 1) | None => k end
  end.

Definition check_admin (s : sx) : sx :=
  match s with
  | SL [vals; tvp; SL ops] =>
    match dL dVal vals, dZ tvp with
    | Some vals', Some tvp' =>
      let bad := run_ops (mkAdmin (mkVSet vals' None tvp') []) ops 1 in
      if Z.eqb bad 0 then SL [] else SL [SZ bad]
    | _, _ => sx_fail
    end
  | _ => sx_fail
  end.
