(* Hash oracle used only by correspondence runs: the harness records every call the
   implementation made to the hash function (preimage, digest); the model is run with
   "look the preimage up in that table".  A preimage the implementation never hashed yields a
   sentinel, so that a model which hashes something else than the code shows up as a mismatch. *)
From Coq Require Import List NArith Bool.
From AnnVerif Require Import Base.Bytes.
Import ListNotations.

Fixpoint oracle (tbl : list (bytes * bytes)) (x : bytes) : bytes :=
  match tbl with
  | [] => [999%N]
  | (k, v) :: t => if bytes_eqb k x then v else oracle t x
  end.

Fixpoint list_eqb {A} (eqb : A -> A -> bool) (a b : list A) : bool :=
  match a, b with
  | [], [] => true
  | x :: a', y :: b' => eqb x y && list_eqb eqb a' b'
  | _, _ => false
  end.

Definition opt_eqb {A} (eqb : A -> A -> bool) (a b : option A) : bool :=
  match a, b with
  | Some x, Some y => eqb x y
  | None, None => true
  | _, _ => false
  end.

(* indices (from 0) of the false entries *)
Fixpoint falses_from (i : N) (l : list bool) : list N :=
  match l with
  | [] => []
  | true :: t => falses_from (i + 1) t
  | false :: t => i :: falses_from (i + 1) t
  end.
Definition falses := falses_from 0.
