(* Correspondence for block validation (engine "validate"; C02): a consensus state and a list of
   blocks - a well-formed successor block and mutants of it - each with the verdict of the real
   ConsensusState.ValidateBlock mapped to the model's error codes. *)
From Coq Require Import List NArith ZArith Bool.
From AnnVerif Require Import Base.Res Base.Bytes Base.Sx Model.VoteSet Model.Validate Corr.Oracle Corr.VoteSetCorr.
Import ListNotations.
Open Scope Z_scope.

Definition dValidator (s : sx) : option validator :=
  match s with SL [SB a; SZ p] => Some (a, p) | _ => None end.
Definition dState (s : sx) : option vstate :=
  match s with
  | SL [SB chain; SZ h; last; SB app; SB rcp; vals; SB vh; lvals] =>
    last' <-? dBid last ;; vals' <-? dL dValidator vals ;; lvals' <-? dL dValidator lvals ;;
    Some (mkVState chain h last' app rcp vals' vh lvals')
  | _ => None
  end.
Definition dHeader (s : sx) : option header :=
  match s with
  | SL [SB chain; SZ h; SZ n; last; SB lch; SB dh; SB vh; SB ah; SB rh; SB prop] =>
    last' <-? dBid last ;; Some (mkHeader chain h n last' lch dh vh ah rh prop)
  | _ => None
  end.
Definition dData (s : sx) : option (Z * bytes) := match s with SL [SZ n; SB h] => Some (n, h) | _ => None end.
Definition dLc (s : sx) : option (commit * bytes) :=
  match s with SL [c; SB h] => c' <-? dCommit c ;; Some (c', h) | _ => None end.
Definition dBlock (s : sx) : option block :=
  match s with
  | SL [hd; da; lc] => hd' <-? dOpt dHeader hd ;; da' <-? dOpt dData da ;; lc' <-? dOpt dLc lc ;; Some (mkBlock hd' da' lc')
  | _ => None
  end.

Fixpoint check_blocks (st : vstate) (l : list sx) (k : N) : list N :=
  match l with
  | [] => []
  | SL [b; SZ code] :: t =>
    match dBlock b with
    | Some b' => if N.eqb (validate st b') (Z.to_N code) then check_blocks st t (k + 1) else [(1000 + k)%N; validate st b'; Z.to_N code]
    | None => [(1000 + k)%N; 99%N]
    end
  | _ => [(1000 + k)%N; 98%N]
  end.

Definition check_validate (c : sx) : sx :=
  match c with
  | SL [st; SL blocks] =>
    match dState st with
    | Some st' => sx_of_codes (check_blocks st' blocks 0)
    | None => sx_fail
    end
  | _ => sx_fail
  end.
