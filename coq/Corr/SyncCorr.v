(* Correspondence for C13 (engine "blocksync"): a real node fast-syncing from scripted peers versus
   Model.Sync.  The run is concurrent (pool, requesters and peers are goroutines), so the model is
   used as a validator of the observed outcome: the harness gives the validator powers and, per
   height h, the last commits that the blocks on offer for h+1 carry (every vote as the fields
   VerifyCommit reads: height, round, type, whether its block id is the source block's, whether
   its signature verifies under the key of its slot) and whether the node stored block h (the
   harness has checked that a stored block is the source chain's).  A stored block must be
   justified by some commit on offer under the model's VerifyCommit (the converse - the honest
   peer's chain is eventually taken - is the harness's progress monitor). *)
From Coq Require Import List NArith ZArith Bool.
From AnnVerif Require Import Base.Res Base.Bytes Base.Sx Model.VoteSet Model.Sync.
Import ListNotations.
Open Scope Z_scope.

Definition canon_bid : block_id := mkBid [1%N] 1 [1%N].
Definition other_bid : block_id := mkBid [2%N] 1 [2%N].

Definition dSlot (s : sx) : option (option vote) :=
  match s with
  | SL [] => Some None
  | SL [h; r; t; ideq; ok] =>
    h' <-? dZ h ;; r' <-? dZ r ;; t' <-? dN t ;; e <-? dBool ideq ;; o <-? dBool ok ;;
    Some (Some (mkVote [] 0 h' r' t' (if e then canon_bid else other_bid) [] o))
  | _ => None
  end.
Definition dOffer (s : sx) : option (N * commit) :=
  match s with
  | SL [p; SL slots] => p' <-? dN p ;; sl <-? mapM dSlot slots ;; Some (p', mkCommit canon_bid sl)
  | _ => None
  end.

(* codes: 1 a stored block has no verifying commit on offer *)
Definition check_height (vals : list validator) (acc : Z * list N * bool) (s : sx) : Z * list N * bool :=
  let '(h, codes, later_missing) := acc in
  match s with
  | SL [SL offers; st] =>
    match mapM dOffer offers, dBool st with
    | Some os, Some stored =>
      let just := existsb (fun o => match verify_commit vals canon_bid h (snd o) with Ok _ => true | _ => false end) os in
      (h + 1, codes ++ (if stored && negb just then [1%N] else []), later_missing)
    | _, _ => (h + 1, codes ++ [99%N], later_missing)
    end
  | _ => (h + 1, codes ++ [99%N], later_missing)
  end.

Definition check_blocksync (c : sx) : sx :=
  match c with
  | SL [SL pw; SL hs] =>
    match mapM dZ pw with
    | Some ps =>
      let vals := map (fun p => ([] : bytes, p)) ps in
      let '(_, codes, _) := fold_left (check_height vals) hs (1, [], false) in
      sx_of_codes codes
    | None => sx_fail
    end
  | SL [SZ 9] => sx_of_codes [9%N]
  | _ => sx_fail
  end.
