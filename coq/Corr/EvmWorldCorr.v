(* Correspondence for C10 (engine "evmworld"): one message call into a world of several contracts
   that call each other, in the in-tree interpreter versus Model.EvmWorld: outcome class, return
   data, and afterwards nonce, balance and storage of every account of the case, and the logs. *)
From Coq Require Import List NArith ZArith Bool.
From AnnVerif Require Import Base.Bytes Base.Sx Corr.Oracle Model.EvmArith Model.EvmCore Model.EvmWorld Corr.EvmCoreCorr.
Import ListNotations.
Open Scope Z_scope.

Definition dAcc (s : sx) : option (Z * account) :=
  match s with
  | SL [SZ a; SZ n; SZ bal; SB code; st] => st' <-? dL dKV st ;; Some (a, mkAcc n bal (zb code) st')
  | _ => None
  end.
(* observation of an account: address, nonce, balance, sorted non-zero storage *)
Definition dObsAcc (s : sx) : option (Z * Z * Z * list Z * list (Z * Z)) :=
  match s with
  | SL [SZ a; SZ n; SZ bal; SB code; st] => st' <-? dL dKV st ;; Some (a, n, bal, zb code, st')
  | _ => None
  end.
Definition dWLog (s : sx) : option (Z * list Z * list Z) :=
  match s with SL [SZ a; t; SB d] => t' <-? dL dZ t ;; Some (a, t', zb d) | _ => None end.

Definition acc_ok (w : world) (o : Z * Z * Z * list Z * list (Z * Z)) : bool :=
  match o with
  | (a, n, bal, code, st) =>
    let x := get_acc w a in
    (a_nonce x =? n) && (a_balance x =? bal) && zl_eqb (a_code x) code && list_eqb kv_eqb (norm_store (a_store x)) st
  end.
(* every account the model's world holds something in is among the observed ones *)
Definition blank (x : account) : bool :=
  (a_nonce x =? 0) && (a_balance x =? 0) && (match a_code x with [] => true | _ => false end)
  && (match norm_store (a_store x) with [] => true | _ => false end).
Definition no_extras (w : world) (ob : list (Z * Z * Z * list Z * list (Z * Z))) : bool :=
  forallb (fun p => existsb (fun o => fst (fst (fst (fst o))) =? fst p) ob || blank (get_acc w (fst p))) w.
Definition wlog_eqb (a b : Z * list Z * list Z) : bool :=
  (fst (fst a) =? fst (fst b)) && zl_eqb (snd (fst a)) (snd (fst b)) && zl_eqb (snd a) (snd b).

Definition check_evmworld (c : sx) : sx :=
  match c with
  | SL [SL [SZ origin; SZ coinbase; SZ time; SZ number; SZ diff; SZ gaslimit]; accs; SZ callee; SZ value; SB data;
        SZ cls; SB ret; obs; logs] =>
    match dL dAcc accs, dL dObsAcc obs, dL dWLog logs with
    | Some w0, Some ob, Some lg =>
      let b := mkBenv origin 0 coinbase time number diff gaslimit harness_blockhash in
      let verdict (w : world) (l : list (Z * list Z * list Z)) (want : Z) (r : option (list Z)) :=
        if negb (cls =? want) then sx_of_codes [1%N; Z.to_N want; Z.to_N cls]
        else if negb (match r with Some r' => zl_eqb r' (zb ret) | None => true end) then sx_of_codes [2%N]
        else if negb (forallb (acc_ok w) ob) then sx_of_codes [3%N]
        else if negb (no_extras w ob) then sx_of_codes [5%N]
        else if negb (list_eqb wlog_eqb (rev l) lg) then sx_of_codes [4%N]
        else sx_of_codes [] in
      if cls =? 3 then sx_of_codes [0%N]     (* out of gas on the real side: gas is not modelled *)
      else
      match call_world (N.to_nat 400000) b w0 callee value (zb data) with
      | (_, FUnsup) => sx_of_codes [0%N]
      | (_, FOog) => sx_of_codes [1%N; 3%N; Z.to_N cls]
      | (ws, FStop r) => verdict (ws_world ws) (ws_logs ws) 0 (Some r)
      | (_, FRevert r) => verdict w0 [] 1 (Some r)
      | (_, FFail) => verdict w0 [] 2 None
      end
    | _, _, _ => sx_fail
    end
  | _ => sx_fail
  end.
