(* Correspondence for C15: types.VoteSet / ValidatorSet.VerifyCommit versus Model.VoteSet. *)
From Coq Require Import List NArith ZArith Bool.
From AnnVerif Require Import Base.Res Base.Bytes Base.Sx Model.VoteSet Corr.Oracle.
Import ListNotations.

Definition dBid (s : sx) : option block_id :=
  match s with
  | SL [h; t; p] => h' <-? dB h ;; t' <-? dZ t ;; p' <-? dB p ;; Some (mkBid h' t' p')
  | _ => None
  end.
Definition dVote (s : sx) : option vote :=
  match s with
  | SL [a; i; h; r; t; b; sg; ok] =>
    a' <-? dB a ;; i' <-? dZ i ;; h' <-? dZ h ;; r' <-? dZ r ;; t' <-? dN t ;; b' <-? dBid b ;;
    sg' <-? dB sg ;; ok' <-? dBool ok ;; Some (mkVote a' i' h' r' t' b' sg' ok')
  | _ => None
  end.

(* observed snapshot after an op *)
Record snap := mkSnap {
  s_maj : option block_id; s_any : bool; s_all : bool; s_bits : list bool;
  s_sigs : list (option bytes); s_byblock : list (option (list bool)) }.
Definition dSnap (s : sx) : option snap :=
  match s with
  | SL [m; a; l; b; sg; bb] =>
    m' <-? dOpt dBid m ;; a' <-? dBool a ;; l' <-? dBool l ;; b' <-? dL dBool b ;;
    sg' <-? dL (dOpt dB) sg ;; bb' <-? dL (dOpt (dL dBool)) bb ;;
    Some (mkSnap m' a' l' b' sg' bb')
  | _ => None
  end.

Inductive vop :=
| OpAdd (v : vote) (added : bool) (code : N) (s : snap)
| OpPeer (peer : bytes) (b : block_id) (s : snap).
Definition dOp (s : sx) : option vop :=
  match s with
  | SL [SZ 0%Z; v; a; c; sn] =>
    v' <-? dVote v ;; a' <-? dBool a ;; c' <-? dN c ;; sn' <-? dSnap sn ;; Some (OpAdd v' a' c' sn')
  | SL [SZ 1%Z; p; b; sn] =>
    p' <-? dB p ;; b' <-? dBid b ;; sn' <-? dSnap sn ;; Some (OpPeer p' b' sn')
  | _ => None
  end.

Definition dCommit (s : sx) : option commit :=
  match s with
  | SL [b; pre] => b' <-? dBid b ;; pre' <-? dL (dOpt dVote) pre ;; Some (mkCommit b' pre')
  | _ => None
  end.

Definition opt_bid_eqb := opt_eqb (fun a b : block_id => bid_eqb a b && list_eqb N.eqb (b_hash a) (b_hash b)).

Definition snap_of (vs : voteset) (pool : list block_id) : snap :=
  mkSnap (vs_maj23 vs) (has_two_thirds_any vs) (has_all vs) (bits (vs_votes vs))
         (map (fun o => match o with Some v => Some (v_sig v) | None => None end) (vs_votes vs))
         (map (bits_by_block vs) pool).
Definition snap_eqb (a b : snap) : bool :=
  opt_bid_eqb (s_maj a) (s_maj b) && Bool.eqb (s_any a) (s_any b) && Bool.eqb (s_all a) (s_all b)
  && list_eqb Bool.eqb (s_bits a) (s_bits b)
  && list_eqb (opt_eqb bytes_eqb) (s_sigs a) (s_sigs b)
  && list_eqb (opt_eqb (list_eqb Bool.eqb)) (s_byblock a) (s_byblock b).

(* run ops; returns final state and index (from 1) of first diverging op, 0 if none *)
Fixpoint run_ops (vs : voteset) (pool : list block_id) (ops : list vop) (k : N) : voteset * N :=
  match ops with
  | [] => (vs, 0%N)
  | OpAdd v added code sn :: t =>
    match add_vote vs v with
    | Ok (vs', a, c) =>
      if Bool.eqb a added && N.eqb c code && snap_eqb (snap_of vs' pool) sn
      then run_ops vs' pool t (k + 1) else (vs', k)
    | _ => if N.eqb code 9 then run_ops vs pool t (k + 1) else (vs, k)
    end
  | OpPeer p b sn :: t =>
    let vs' := set_peer_maj23 vs p b in
    if snap_eqb (snap_of vs' pool) sn then run_ops vs' pool t (k + 1) else (vs', k)
  end.

Definition vc_code (r : res unit) : N :=
  match r with Ok _ => 0 | Err e => N.of_nat e | Panic _ => 9 end%N.

Definition check_voteset (s : sx) : sx :=
  match s with
  | SL [vals; h; r; t; newpanic; pool; ops; mk; vcs] =>
    match (vals' <-? dL (dPair dB dZ) vals ;; h' <-? dZ h ;; r' <-? dZ r ;; t' <-? dN t ;;
           np <-? dBool newpanic ;; pool' <-? dL dBid pool ;; ops' <-? dL dOp ops ;;
           mk' <-? dOpt (dPair dCommit dN) mk ;;
           vcs' <-? dL (fun x => match x with
                                 | SL [b; hh; c; code] => b' <-? dBid b ;; hh' <-? dZ hh ;; c' <-? dCommit c ;; code' <-? dN code ;; Some (b', hh', c', code')
                                 | _ => None end) vcs ;;
           Some (vals', h', r', t', np, pool', ops', mk', vcs')) with
    | None => sx_fail
    | Some (vals', h', r', t', np, pool', ops', mk', vcs') =>
      let ok_vcs := forallb (fun x => match x with (b, hh, c, code) => N.eqb (vc_code (verify_commit vals' b hh c)) code end) vcs' in
      match new_voteset h' r' t' vals' with
      | Panic _ => if np then sx_of_codes (falses [ok_vcs]) else SL [SZ 1%Z]
      | Err _ => sx_fail
      | Ok vs0 =>
        if np then SL [SZ 1%Z] else
        let '(vs1, bad) := run_ops vs0 pool' ops' 1 in
        let ok_mk :=
          match mk' with
          | None => true
          | Some (c, code) =>
            match make_commit vs1 with
            | Ok c' => opt_bid_eqb (Some (c_bid c)) (Some (c_bid c'))
                       && list_eqb (opt_eqb bytes_eqb)
                            (map (fun o => match o with Some v => Some (v_sig v) | None => None end) (c_pre c))
                            (map (fun o => match o with Some v => Some (v_sig v) | None => None end) (c_pre c'))
                       && N.eqb (vc_code (verify_commit vals' (c_bid c') h' c)) code
            | _ => N.eqb code 9
            end
          end in
        if N.eqb bad 0 then sx_of_codes (map (fun n => n + 100)%N (falses [ok_mk; ok_vcs]))
        else SL [SZ (Z.of_N bad)]
      end
    end
  | _ => sx_fail
  end.
