(* Correspondence for C20: SecretConnection (byte stream over a tampering wire), Channel
   packetisation / reassembly, and the admission decision. *)
From Coq Require Import List NArith ZArith Bool.
From AnnVerif Require Import Base.Res Base.Bytes Base.Sx Model.SecretConn Model.MConn Model.Admission Model.AdmitHist Corr.Oracle.
Import ListNotations.

(* ---- secret connection ---- *)
Definition dWire (frames : list sealed) (s : sx) : option wire :=
  match s with
  | SL [SZ 0%Z; i] => i' <-? dNat i ;; match nth_error frames i' with Some f => Some (WFrame f) | None => None end
  | SL [SZ 1%Z] => Some WGarbled
  | SL [SZ 2%Z] => Some WTruncated
  | _ => None
  end.
Definition rout_eqb (o : rout) (s : sx) : bool :=
  match o, s with
  | RData b, SL [SZ 0%Z; SB b'] => bytes_eqb b b'
  | RErr, SL [SZ 1%Z] => true
  | REof, SL [SZ 2%Z] => true
  | _, _ => false
  end.
Fixpoint routs_eqb (os : list rout) (ss : list sx) : bool :=
  match os, ss with
  | [], [] => true
  | o :: ot, s :: st => rout_eqb o s && routs_eqb ot st
  | _, _ => false
  end.
Definition check_sconn (s : sx) : sx :=
  match s with
  | SL [ws; nframes; wire; sizes; SL outs] =>
    match dL dB ws, dNat nframes, dL dNat sizes with
    | Some ws', Some nf, Some sizes' =>
      let frames := fst (sc_writes 0 ws') in
      match wire with
      | SL items =>
        match mapM (dWire frames) items with
        | Some w =>
          let ok_frames := Nat.eqb (length frames) nf in
          let res := sc_reads (mkRecv 0 [] w) sizes' in
          sx_of_codes (falses [ok_frames; routs_eqb res outs])
        | None => sx_fail
        end
      | _ => sx_fail
      end
    | _, _, _ => sx_fail
    end
  | _ => sx_fail
  end.

(* ---- channels ---- *)
Definition dPacket (s : sx) : option packet :=
  match s with
  | SL [c; e; b] => c' <-? dN c ;; e' <-? dBool e ;; b' <-? dB b ;; Some (mkPacket c' e' b')
  | _ => None
  end.
Definition packet_eqb (a b : packet) : bool :=
  N.eqb (pk_ch a) (pk_ch b) && Bool.eqb (pk_eof a) (pk_eof b) && bytes_eqb (pk_bytes a) (pk_bytes b).

(* arrival: (packet, observed: (0) nothing yet | (1 bytes) delivered | (2) error) *)
Fixpoint run_recv (cap : N -> nat) (s : rstate) (l : list (packet * sx)) (k : Z) : Z :=
  match l with
  | [] => 0%Z
  | (p, o) :: t =>
    match recv_packet cap s p, o with
    | Ok (s', None), SL [SZ 0%Z] => run_recv cap s' t (k + 1)
    | Ok (s', Some (_, m)), SL [SZ 1%Z; SB m'] => if bytes_eqb m m' then run_recv cap s' t (k + 1) else k
    | Err _, SL [SZ 2%Z] => 0%Z   (* the connection ends here *)
    | _, _ => k
    end
  end.
Definition check_mconn (s : sx) : sx :=
  match s with
  | SL [caps; msgs; arrivals] =>
    match dL (dPair dN dNat) caps,
          dL (fun x => match x with SL [c; m; ps] => c' <-? dN c ;; m' <-? dB m ;; ps' <-? dL dPacket ps ;; Some (c', m', ps') | _ => None end) msgs,
          dL (fun x => match x with SL [p; o] => p' <-? dPacket p ;; Some (p', o) | _ => None end) arrivals with
    | Some caps', Some msgs', Some arr' =>
      let cap := fun c => match find (fun kv => N.eqb (fst kv) c) caps' with Some kv => snd kv | None => 0%nat end in
      let ok_packets := forallb (fun x => match x with (c, m, ps) => list_eqb packet_eqb (packetise c m) ps end) msgs' in
      let bad := run_recv cap rinit arr' 1 in
      sx_of_codes (falses [ok_packets; Z.eqb bad 0])
    | _, _, _ => sx_fail
    end
  | _ => sx_fail
  end.

(* ---- admission ---- *)
Definition dSigKind (s : sx) : option ca_sig :=
  match s with
  | SZ 0%Z => Some SigCurrentCA | SZ 1%Z => Some SigRemovedCA | SZ 2%Z => Some SigNonCA
  | SZ 3%Z => Some SigInvalid | SZ 4%Z => Some SigMalformed | _ => None
  end.
Definition check_admit (s : sx) : sx :=
  match s with
  | SL [r; ca; v; nv; sg; hc; km; sf; out] =>
    match dBool r, dBool ca, dBool v, dBool nv, dSigKind sg, dBool hc, dBool km, dBool sf, dBool out with
    | Some r', Some ca', Some v', Some nv', Some sg', Some hc', Some km', Some sf', Some out' =>
      let m := match admission (mkAdm r' ca' v' nv' sg' hc' km' sf') with PeerAdmitted => true | _ => false end in
      sx_of_codes (falses [Bool.eqb m out'])
    | _, _, _, _, _, _, _, _, _ => sx_fail
    end
  | _ => sx_fail
  end.

(* ---- admission over a history: one node, validator-set changes and handshakes in order ----
   case = ((auth_by_ca nonval_auth self (refused ...)) (event ...) (admitted ...))
   event = (0 ((key is_ca) ...)) | (1 auth announced cert),  cert = (0 signer) | (1) | (2) *)
Definition dCert (s : sx) : option cert :=
  match s with
  | SL [SZ 0%Z; SB k] => Some (CertBy k)
  | SL [SZ 1%Z] => Some CertInvalid
  | SL [SZ 2%Z] => Some CertMalformed
  | _ => None
  end.
Definition dCval (s : sx) : option cval :=
  match s with SL [SB k; c] => c' <-? dBool c ;; Some (mkCV k c') | _ => None end.
Definition dAev (s : sx) : option aev :=
  match s with
  | SL [SZ 0%Z; vs] => vs' <-? dL dCval vs ;; Some (ASetVals vs')
  | SL [SZ 1%Z; SB a; SB n; c] => c' <-? dCert c ;; Some (AHandshake (mkHs a n c'))
  | _ => None
  end.
Definition check_admithist (s : sx) : sx :=
  match s with
  | SL [SL [ca; nv; SB self; rf]; evs; outs] =>
    match dBool ca, dBool nv, dL dB rf, dL dAev evs, dL dBool outs with
    | Some ca', Some nv', Some rf', Some evs', Some outs' =>
      let m := map (fun x => match snd x with PeerAdmitted => true | _ => false end) (arun (mkACfg ca' nv' self rf') [] evs') in
      if Nat.eqb (length m) (length outs') then sx_of_codes (falses (map (fun p => Bool.eqb (fst p) (snd p)) (combine m outs')))
      else sx_fail
    | _, _, _, _, _ => sx_fail
    end
  | _ => sx_fail
  end.
