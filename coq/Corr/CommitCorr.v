(* Correspondence for C06 (engine "crash"): a real node killed inside a commit versus Model.Commit.
   The harness gives the classes of the durable writes the process completed of the interrupted
   commit (from the failpoint trace) and the heights (block store as the reactor presents it,
   consensus state, application; relative to the interrupted height) the restarted node saw before
   it started consensus.  The model checks that the writes come in the order of [commit_writes]
   and computes the three heights from the surviving prefix. *)
From Coq Require Import List NArith ZArith Bool.
From AnnVerif Require Import Base.Res Base.Bytes Base.Sx Model.Commit.
Import ListNotations.
Open Scope N_scope.

Definition class_of (w : wr) : N :=
  match w with
  | WMeta _ => 1 | WPart _ => 2 | WLastCommit _ => 3 | WSeen _ => 4 | WDesc _ => 5
  | WInter _ => 6 | WTrie _ => 7 | WLastBlock _ _ => 8 | WReceipts _ => 7 | WState _ => 9
  end.

Fixpoint collapse (l : list N) : list N :=
  match l with
  | a :: ((b :: _) as t) => if a =? b then collapse t else a :: collapse t
  | _ => l
  end.
Fixpoint is_prefix (a b : list N) : bool :=
  match a, b with
  | [], _ => true
  | x :: a', y :: b' => (x =? y) && is_prefix a' b'
  | _, [] => false
  end.

(* the interrupted height is 3 on a disk complete up to 2 *)
Definition base_disk : disk :=
  apply_writes (apply_writes (mkDisk [] [] [] 0 0 [] 0 [] [] 0) (commit_writes 1 [])) (commit_writes 2 [1]).

Definition write_of (seen_lastblock : bool) (c : N) : option wr :=
  match c with
  | 1 => Some (WMeta 3) | 2 => Some (WPart 3) | 3 => Some (WLastCommit 2) | 4 => Some (WSeen 3)
  | 5 => Some (WDesc 3) | 6 => Some (WInter 3)
  | 7 => Some (if seen_lastblock then WReceipts 3 else WTrie 3)
  | 8 => Some (WLastBlock 3 [3; 2; 1]) | 9 => Some (WState 3)
  | _ => None
  end.
Fixpoint replay (d : disk) (seen_lb : bool) (cs : list N) : option disk :=
  match cs with
  | [] => Some d
  | c :: r => match write_of seen_lb c with
              | Some w => replay (apply_write d w) (seen_lb || (c =? 8)) r
              | None => None
              end
  end.

(* codes: 1 the writes are not a prefix of the modelled commit order, 2 the heights the restarted
   node saw differ from the model's, 3 the model says this node cannot start *)
Definition check_crash (c : sx) : sx :=
  match c with
  | SL [cls; view] =>
    match dL dN cls with
    | Some cs =>
      let order := if is_prefix (collapse cs) (collapse (map class_of (commit_writes 3 [2; 1]))) then [] else [1] in
      match replay base_disk false cs, view with
      | Some d, SL [SZ s; SZ st; SZ a] =>
        let rel (x : N) : Z := (Z.of_N x - 3)%Z in
        sx_of_codes (order ++
          (if (rel (store_view d) =? s)%Z && (rel (state d) =? st)%Z && (rel (app d) =? a)%Z then [] else [2]) ++
          (if recover_ok true d then [] else [3]))
      | Some d, SL [] => sx_of_codes (order ++ (if recover_ok true d then [] else [3]))
      | _, _ => sx_fail
      end
    | None => sx_fail
    end
  | SL [SZ 9%Z] => sx_of_codes [9]
  | _ => sx_fail
  end.
