(* Correspondence for the consensus state machine (engine "consensus"; C01, C02, C04, C07, C12):
   one honest validator's sequence of inputs, each followed by an observation of the real
   ConsensusState, versus Model.Node.  Crash and restart are handled here: the model keeps the
   inputs of the current height (the write-ahead log) and a restart re-initialises the node from its
   durable parts and replays the first k of them, k being the number of intact records the harness
   counts in the real log file. *)
From Coq Require Import List NArith ZArith Bool.
From AnnVerif Require Import Base.Res Base.Bytes Base.Sx Model.VoteSet Model.ValSet Model.Node Corr.Oracle Corr.VoteSetCorr.
Import ListNotations.
Open Scope Z_scope.

Definition dBlk (s : sx) : option blk :=
  match s with
  | SL [h; t; p; v] => h' <-? dB h ;; t' <-? dZ t ;; p' <-? dB p ;; v' <-? dBool v ;; Some (mkBlk h' t' p' v')
  | _ => None
  end.
Definition dProp (s : sx) : option prop :=
  match s with
  | SL [SZ h; SZ r; SZ pr; SZ t; SB p] => Some (mkProp h r pr t p)
  | _ => None
  end.

Definition dInput (s : sx) : option input :=
  match s with
  | SL [SZ 0; p; SB signer; SB peer] => p' <-? dProp p ;; Some (IProposal p' signer peer)
  | SL [SZ 1; SZ h; SZ r; SZ idx; b; ok; SB peer] => b' <-? dBlk b ;; ok' <-? dBool ok ;; Some (IPart h r idx b' ok' peer)
  | SL [SZ 2; v; SB peer] => v' <-? dVote v ;; Some (IVote v' peer)
  | SL [SZ 3; SZ h; SZ r; SZ st] => Some (ITimeout h r st)
  | _ => None
  end.

(* observation *)
Record vrow := mkVrow { vr_round : Z; vr_pre : list bool; vr_premaj : option block_id;
                        vr_cmt : list bool; vr_cmtmaj : option block_id }.
Definition dVrow (s : sx) : option vrow :=
  match s with
  | SL [SZ r; pb; pm; cb; cm] =>
    pb' <-? dL dBool pb ;; pm' <-? dOpt dBid pm ;; cb' <-? dL dBool cb ;; cm' <-? dOpt dBid cm ;;
    Some (mkVrow r pb' pm' cb' cm')
  | _ => None
  end.

Inductive oout := QVote (t : N) (r : Z) (b : block_id) | QProp (r polr total : Z) (ph : bytes) (nparts : Z)
                | QTimeout (h r s : Z) | QCommit (h : Z) (hash : bytes).
Definition dOout (s : sx) : option oout :=
  match s with
  | SL [SZ 0; t; SZ r; b] => t' <-? dN t ;; b' <-? dBid b ;; Some (QVote t' r b')
  | SL [SZ 1; SZ r; SZ polr; SZ total; SB ph; SZ np] => Some (QProp r polr total ph np)
  | SL [SZ 3; SZ h; SZ r; SZ st] => Some (QTimeout h r st)
  | SL [SZ 4; SZ h; SB hash] => Some (QCommit h hash)
  | _ => None
  end.

Record obs := mkObs {
  o_height : Z; o_round : Z; o_step : Z; o_lround : Z;
  o_lblock : option (bytes * Z * bytes); o_prop : option prop; o_pblock : option bytes;
  o_pparts : option (Z * bytes * Z); o_commit_round : Z; o_proposer : bytes;
  o_votes : list vrow; o_last : option (list bool * option block_id); o_outs : list oout }.

Definition dTriple (s : sx) : option (bytes * Z * bytes) :=
  match s with SL [SB h; SZ t; SB p] => Some (h, t, p) | _ => None end.
Definition dPparts (s : sx) : option (Z * bytes * Z) :=
  match s with SL [SZ t; SB h; SZ c] => Some (t, h, c) | _ => None end.
Definition dOptL {A} (f : sx -> option A) (s : sx) : option (option A) :=
  match s with SL [] => Some None | _ => match f s with Some x => Some (Some x) | None => None end end.
Definition dHashOpt (s : sx) : option (option bytes) :=
  match s with SL [] => Some None | SL [SB h] => Some (Some h) | _ => None end.
Definition dLast (s : sx) : option (option (list bool * option block_id)) :=
  match s with
  | SL [] => Some None
  | SL [b; m] => b' <-? dL dBool b ;; m' <-? dOpt dBid m ;; Some (Some (b', m'))
  | _ => None
  end.

Definition dObs (s : sx) : option obs :=
  match s with
  | SL [SZ h; SZ r; SZ st; SZ lr; lb; pr; pb; pp; SZ cr; SB proposer; vs; lc; outs] =>
    lb' <-? dOptL dTriple lb ;; pr' <-? dOptL dProp pr ;; pb' <-? dHashOpt pb ;; pp' <-? dOptL dPparts pp ;;
    vs' <-? dL dVrow vs ;; lc' <-? dLast lc ;; outs' <-? dL dOout outs ;;
    Some (mkObs h r st lr lb' pr' pb' pp' cr proposer vs' lc' outs')
  | _ => None
  end.

(* ---------- comparison ---------- *)
Definition obid_eqb (a b : option block_id) : bool :=
  match a, b with
  | None, None => true
  | Some x, Some y => bid_eqb x y
  | _, _ => false
  end.
Definition bools_eqb := list_eqb Bool.eqb.

Definition vrow_ok (hv : hvs) (v : vrow) : bool :=
  match hv_prevotes hv (vr_round v), hv_precommits hv (vr_round v) with
  | Some p, Some c =>
    bools_eqb (bits (vs_votes p)) (vr_pre v) && obid_eqb (vs_maj23 p) (vr_premaj v)
    && bools_eqb (bits (vs_votes c)) (vr_cmt v) && obid_eqb (vs_maj23 c) (vr_cmtmaj v)
  | _, _ => false
  end.

Definition prop_eqb (a b : prop) : bool :=
  Z.eqb (p_height a) (p_height b) && Z.eqb (p_round a) (p_round b) && Z.eqb (p_polround a) (p_polround b)
  && Z.eqb (p_total a) (p_total b) && bytes_eqb (p_phash a) (p_phash b).

(* codes: 1 height/round/step, 2 lock, 3 proposal, 4 proposal block, 5 part set, 6 commit round,
   7 proposer, 8 votes, 9 last commit, 10 queued votes/proposals, 11 timeouts, 12 commits *)
Definition field_codes (n : node) (o : obs) : list N :=
  (if Z.eqb (height n) (o_height o) && Z.eqb (round n) (o_round o) && Z.eqb (step n) (o_step o) then [] else [1%N]) ++
  (if Z.eqb (lround n) (o_lround o) &&
      match lblock n, o_lblock o with
      | None, None => true
      | Some b, Some (h, t, p) => bytes_eqb (bk_hash b) h && Z.eqb (bk_total b) t && bytes_eqb (bk_phash b) p
      | _, _ => false
      end then [] else [2%N]) ++
  (if match proposal n, o_prop o with None, None => true | Some a, Some b => prop_eqb a b | _, _ => false end then [] else [3%N]) ++
  (if match pblock n, o_pblock o with None, None => true | Some b, Some h => bytes_eqb (bk_hash b) h | _, _ => false end then [] else [4%N]) ++
  (if match pparts n, o_pparts o with
      | None, None => true
      | Some ps, Some (t, h, c) => Z.eqb (ps_total ps) t && bytes_eqb (ps_hash ps) h && Z.eqb (Z.of_nat (length (ps_have ps))) c
      | _, _ => false
      end then [] else [5%N]) ++
  (if Z.eqb (commit_round n) (o_commit_round o) then [] else [6%N]) ++
  (if match proposer (vals n) with Ok (Some a, _) => bytes_eqb a (o_proposer o) | _ => false end then [] else [7%N]) ++
  (if forallb (vrow_ok (votes n)) (o_votes o) then [] else [8%N]) ++
  (if match last_commit n, o_last o with
      | None, None => true
      | Some lc, Some (b, m) => bools_eqb (bits (vs_votes lc)) b && obid_eqb (vs_maj23 lc) m
      | _, _ => false
      end then [] else [9%N]).

(* queued votes and proposals, in order *)
Fixpoint match_queue (m : list out) (o : list oout) : bool :=
  match m with
  | [] => match o with [] => true | _ => false end
  | OVote t r b :: mt =>
    match o with
    | QVote t' r' b' :: ot => N.eqb t t' && Z.eqb r r' && bid_eqb b b' && match_queue mt ot
    | _ => false
    end
  | OProposal r polr locked :: mt =>
    match o with
    | QProp r' polr' total ph _ :: ot =>
      Z.eqb r r' && Z.eqb polr polr'
      && match locked with Some b => Z.eqb (bk_total b) total && bytes_eqb (bk_phash b) ph | None => true end
      && match_queue mt ot
    | _ => false
    end
  | OProposalMaybe r :: mt =>
    match o with
    | QProp r' _ _ _ _ :: ot => if Z.eqb r r' then match_queue mt ot || match_queue mt o else match_queue mt o
    | _ => match_queue mt o
    end
  | _ :: mt => match_queue mt o
  end.
Definition is_queue (x : out) : bool := match x with OVote _ _ _ | OProposal _ _ _ | OProposalMaybe _ => true | _ => false end.
Definition is_qqueue (x : oout) : bool := match x with QVote _ _ _ | QProp _ _ _ _ _ => true | _ => false end.
Definition timeouts_of (m : list out) : list (Z * Z * Z) :=
  flat_map (fun x => match x with OTimeout h r s => [(h, r, s)] | _ => [] end) m.
Definition qtimeouts_of (o : list oout) : list (Z * Z * Z) :=
  flat_map (fun x => match x with QTimeout h r s => [(h, r, s)] | _ => [] end) o.
Definition commits_of (m : list out) : list (Z * bytes) :=
  flat_map (fun x => match x with OCommit h b => [(h, b)] | _ => [] end) m.
Definition qcommits_of (o : list oout) : list (Z * bytes) :=
  flat_map (fun x => match x with QCommit h b => [(h, b)] | _ => [] end) o.
Definition t3_eqb (a b : Z * Z * Z) : bool :=
  let '(x, y, z) := a in let '(x', y', z') := b in Z.eqb x x' && Z.eqb y y' && Z.eqb z z'.
Definition c2_eqb (a b : Z * bytes) : bool := Z.eqb (fst a) (fst b) && bytes_eqb (snd a) (snd b).

Definition out_codes (m : list out) (o : list oout) : list N :=
  (if match_queue (filter is_queue m) (filter is_qqueue o) then [] else [10%N]) ++
  (if list_eqb t3_eqb (timeouts_of m) (qtimeouts_of o) then [] else [11%N]) ++
  (if list_eqb c2_eqb (commits_of m) (qcommits_of o) then [] else [12%N]).

(* ---------- the run ---------- *)
Record cstate := mkCs { cs_node : node; cs_wal : list input; cs_prev : option voteset }.

(* reconstructLastCommit: every precommit of the stored commit is added again; a vote that is not
   accepted is a PanicCrisis, a set without +2/3 a PanicSanity (both: None) *)
Definition reconstruct (vs : voteset) : option voteset :=
  match make_commit vs with
  | Ok c =>
    match new_voteset (vs_height vs) (vs_round vs) 2 (vs_vals vs) with
    | Ok fresh =>
      match fold_left (fun acc ov =>
                   match acc, ov with
                   | Some a, Some v =>
                     match add_vote a v with Ok (a', true, 0%N) => Some a' | _ => None end
                   | _, _ => acc
                   end) (c_pre c) (Some fresh) with
      | Some r => match vs_maj23 r with Some _ => Some r | None => None end
      | None => None
      end
    | _ => None
    end
  | _ => None
  end.

(* replay: outputs accumulate, a Panic ends it *)
Fixpoint replay (c : cfg) (ins : list input) (n : node) (acc : list out) : res (node * list out) :=
  match ins with
  | [] => Ok (n, acc)
  | i :: t =>
    match handle c i n with
    | Ok (n', o) => if Z.eqb (height n') (height n) then replay c t n' (acc ++ o) else Ok (n', acc ++ o)
    | Err e => Err e
    | Panic w => Panic w
    end
  end.

(* the intact records of the log: the harness marks the records a crash cut *)
Fixpoint keep {A} (mask : list bool) (l : list A) : list A :=
  match mask, l with
  | true :: mt, x :: t => x :: keep mt t
  | false :: mt, _ :: t => keep mt t
  | _, _ => []
  end.

Definition codes_or_ok (l : list N) : option (list N) := match l with [] => None | _ => Some l end.

(* one trace entry: Some (new state) to go on, or the codes to report *)
Definition step_entry (c : cfg) (st : cstate) (e : sx) : cstate + list N :=
  match e with
  | SL [SL [SZ 5; _]; _] => inl st                       (* crash: nothing to compare *)
  | SL [SL [SZ 6; mask]; o] =>
    match dL dBool mask with None => inr [99%N] | Some mask' =>
    let n := cs_node st in
    let lc := match cs_prev st with Some p => reconstruct p | None => None end in
    match init_node (height n) (st_vals n) lc (priv n) (sg n) with
    | Ok n0 =>
      match replay c (keep mask' (cs_wal st)) n0 [] with
      | Ok (n1, outs) =>
        match o with
        | SL [SZ 2] => inr [20%N]
        | _ =>
          match dObs o with
          | Some ob =>
            match field_codes n1 ob ++ out_codes (outs ++ [OTimeout (height n1) 0 1]) (o_outs ob) with
            | [] => inl (mkCs n1 (cs_wal st) (cs_prev st))
            | l => inr l
            end
          | None => inr [99%N]
          end
        end
      | _ => match o with SL [SZ 2] => inr [] | _ => inr [21%N] end
      end
    | _ => inr [22%N]
    end
    end
  | SL [SL [SZ 4; SZ r; t; SB peer; b]; o] =>
    (* a peer's claim of a +2/3 majority, set by the reactor; not an input of the state machine
       and not logged *)
    match dN t, dBid b, dObs o with
    | Some t', Some b', Some ob =>
      let n := cs_node st in
      let n1 := set_votes n (hv_set_peer_maj23 (votes n) r t' peer b') in
      match field_codes n1 ob ++ out_codes [] (o_outs ob) with
      | [] => inl (mkCs n1 (cs_wal st) (cs_prev st))
      | l => inr l
      end
    | _, _, _ => inr [99%N]
    end
  | SL [i; o] =>
    match dInput i with
    | None => inr [99%N]
    | Some inp =>
      let n := cs_node st in
      match handle c inp n with
      | Ok (n1, outs) =>
        match o with
        | SL [SZ 2] => inr [20%N]       (* the implementation panicked, the model did not *)
        | _ =>
          match dObs o with
          | Some ob =>
            match field_codes n1 ob ++ out_codes outs (o_outs ob) with
            | [] =>
              if Z.eqb (height n1) (height n) then inl (mkCs n1 (cs_wal st ++ [inp]) (cs_prev st))
              else inl (mkCs n1 [] (last_commit n1))
            | l => inr l
            end
          | None => inr [99%N]
          end
        end
      | _ => match o with SL [SZ 2] => inr [] | _ => inr [21%N] end   (* both panic: the trace ends *)
      end
    end
  | _ => inr [99%N]
  end.

Definition dVal3 (s : sx) : option val16 :=
  match s with
  | SL [SB a; SB p; SZ pw] => Some (mkVal a p pw 0 false)
  | _ => None
  end.

Fixpoint run_trace (c : cfg) (st : cstate) (es : list sx) (i : N) : list N :=
  match es with
  | [] => []
  | e :: t =>
    match step_entry c st e with
    | inl st' => run_trace c st' t (i + 1)
    | inr [] => []
    | inr l => (1000 + i)%N :: l
    end
  end.

(* case = (validators me skip trace); the first entry is the boot of a fresh node *)
Definition check_consensus (c : sx) : sx :=
  match c with
  | SL [vals; SB me; skip; SL (SL [SL [SZ 7]; o0] :: rest)] =>
    match dL dVal3 vals, dBool skip, dObs o0 with
    | Some vals', Some skip', Some ob0 =>
      match new_valset vals' with
      | Ok vs =>
        match init_node 1 vs None (Some me) (mkSg 0 0 0 None) with
        | Ok n0 =>
          match field_codes n0 ob0 ++ out_codes [OTimeout 1 0 1] (o_outs ob0) with
          | [] => sx_of_codes (run_trace (mkCfg skip') (mkCs n0 [] None) rest 1)
          | l => sx_of_codes (1000%N :: l)
          end
        | _ => sx_of_codes [98%N]
        end
      | _ => sx_of_codes [98%N]
      end
    | _, _, _ => sx_fail
    end
  | _ => sx_fail
  end.
