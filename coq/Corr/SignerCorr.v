(* Correspondence for C03: types.PrivValidator (with crashes inside WriteFileAtomic, failing
   writes and reloads) versus Model.Signer. *)
From Coq Require Import List NArith ZArith Bool.
From AnnVerif Require Import Base.Res Base.Bytes Base.Sx Model.Signer Corr.Oracle.
Import ListNotations.

Definition dMode (s : sx) : option save_mode :=
  match s with
  | SZ 0%Z => Some SaveOk | SZ 1%Z => Some SaveFails
  | SZ 2%Z => Some CrashBeforeRename | SZ 3%Z => Some CrashAfterRename
  | _ => None
  end.

(* observed record: (h r step (sig)? (bytes)?) *)
Definition dHrs (s : sx) : option hrs :=
  match s with
  | SL [h; r; st; sg; b] =>
    h' <-? dZ h ;; r' <-? dZ r ;; st' <-? dZ st ;; sg' <-? dOpt dB sg ;; b' <-? dOpt dB b ;; Some (mkHRS h' r' st' sg' b')
  | _ => None
  end.
Definition hrs_eqb (a b : hrs) : bool :=
  Z.eqb (s_h a) (s_h b) && Z.eqb (s_r a) (s_r b) && Z.eqb (s_step a) (s_step b)
  && opt_eqb bytes_eqb (s_sig a) (s_sig b) && opt_eqb bytes_eqb (s_bytes a) (s_bytes b).

(* observed output: (0 sig) released, (1 code) refused, (2) crashed, (3) reloaded *)
Definition out_eqb (o : sout) (s : sx) : bool :=
  match o, s with
  | OReleased sg, SL [SZ 0%Z; SB sg'] => bytes_eqb sg sg'
  | ORefused c, SL [SZ 1%Z; SZ c'] => Z.eqb (Z.of_N c) c'
  | OCrashed, SL [SZ 2%Z] => true
  | OReloaded, SL [SZ 3%Z] => true
  | _, _ => false
  end.

Definition dOp (s : sx) : option (sop * sx * hrs * hrs) :=
  match s with
  | SL [SZ 0%Z; h; r; st; b; m; out; v; d] =>
    h' <-? dZ h ;; r' <-? dZ r ;; st' <-? dZ st ;; b' <-? dB b ;; m' <-? dMode m ;; v' <-? dHrs v ;; d' <-? dHrs d ;;
    Some (SSign h' r' st' b' m', out, v', d')
  | SL [SZ 1%Z; out; v; d] => v' <-? dHrs v ;; d' <-? dHrs d ;; Some (SReload, out, v', d')
  | _ => None
  end.

Fixpoint run_check (sign : bytes -> bytes) (st : signer) (ops : list (sop * sx * hrs * hrs)) (k : Z) : Z :=
  match ops with
  | [] => 0%Z
  | (o, out, v, d) :: t =>
    let '(st', mo) := sstep sign st o in
    if out_eqb mo out && hrs_eqb (vol st') v && hrs_eqb (dur st') d then run_check sign st' t (k + 1) else k
  end.

Definition check_signer (s : sx) : sx :=
  match s with
  | SL [tbl; ops] =>
    match dL (dPair dB dB) tbl, dL dOp ops with
    | Some tbl', Some ops' =>
      let bad := run_check (oracle tbl') signer0 ops' 1 in
      if Z.eqb bad 0 then SL [] else SL [SZ bad]
    | _, _ => sx_fail
    end
  | _ => sx_fail
  end.
