(* Correspondence for C16: types.ValidatorSet versus Model.ValSet, over handles (copies). *)
From Coq Require Import List NArith ZArith Bool.
From AnnVerif Require Import Base.Res Base.Bytes Base.Sx Model.Merkle Model.ValSet Corr.Oracle.
Import ListNotations.

Definition dVal (s : sx) : option val16 :=
  match s with
  | SL [a; p; pw; ac; ca] =>
    a' <-? dB a ;; p' <-? dB p ;; pw' <-? dZ pw ;; ac' <-? dZ ac ;; ca' <-? dBool ca ;; Some (mkVal a' p' pw' ac' ca')
  | _ => None
  end.

Fixpoint get_h (st : list (Z * valset)) (h : Z) : option valset :=
  match st with [] => None | (k, v) :: t => if Z.eqb k h then Some v else get_h t h end.
Definition set_h (st : list (Z * valset)) (h : Z) (v : valset) : list (Z * valset) :=
  (h, v) :: filter (fun kv => negb (Z.eqb (fst kv) h)) st.

Definition val_eqb (a b : val16) : bool :=
  bytes_eqb (va_addr a) (va_addr b) && bytes_eqb (va_pub a) (va_pub b) && Z.eqb (va_power a) (va_power b)
  && Z.eqb (va_accum a) (va_accum b) && Bool.eqb (va_isca a) (va_isca b).

(* one op: new store, or None when model and observation disagree *)
Definition step (hash : bytes -> bytes) (st : list (Z * valset)) (op : sx) : option (list (Z * valset)) :=
  match op with
  | SL [SZ 0%Z; h; vals; pan] =>
    h' <-? dZ h ;; vals' <-? dL dVal vals ;; pan' <-? dBool pan ;;
    match new_valset vals' with
    | Ok vs => if pan' then None else Some (set_h st h' vs)
    | _ => if pan' then Some st else None
    end
  | SL [SZ 1%Z; h; times; pan] =>
    h' <-? dZ h ;; t' <-? dZ times ;; pan' <-? dBool pan ;; vs <-? get_h st h' ;;
    match increment vs t' with
    | Ok vs' => if pan' then None else Some (set_h st h' vs')
    | _ => if pan' then Some st else None
    end
  | SL [SZ 2%Z; h; h2] =>
    h' <-? dZ h ;; h2' <-? dZ h2 ;; vs <-? get_h st h' ;; Some (set_h st h2' vs)
  | SL [SZ 3%Z; h; v; r] =>
    h' <-? dZ h ;; v' <-? dVal v ;; r' <-? dBool r ;; vs <-? get_h st h' ;;
    let '(vs', ok) := add vs v' in if Bool.eqb ok r' then Some (set_h st h' vs') else None
  | SL [SZ 4%Z; h; v; r] =>
    h' <-? dZ h ;; v' <-? dVal v ;; r' <-? dBool r ;; vs <-? get_h st h' ;;
    let '(vs', ok) := update vs v' in if Bool.eqb ok r' then Some (set_h st h' vs') else None
  | SL [SZ 5%Z; h; a; r] =>
    h' <-? dZ h ;; a' <-? dB a ;; r' <-? dBool r ;; vs <-? get_h st h' ;;
    let '(vs', ok) := remove vs a' in if Bool.eqb ok r' then Some (set_h st h' vs') else None
  | SL [SZ 6%Z; h; h2] =>
    h' <-? dZ h ;; h2' <-? dZ h2 ;; vs <-? get_h st h' ;; Some (set_h st h2' (roundtrip vs))
  | SL [SZ 7%Z; h; tot; prop; hsh; vals] =>
    h' <-? dZ h ;; tot' <-? dZ tot ;; prop' <-? dOpt dB prop ;; hsh' <-? dB hsh ;; vals' <-? dL dVal vals ;;
    vs <-? get_h st h' ;;
    let '(t, vs1) := total_vp vs in
    match proposer vs1 with
    | Ok (p, vs2) =>
      if Z.eqb t tot' && opt_eqb bytes_eqb p prop' && bytes_eqb (set_hash hash vs2) hsh'
         && list_eqb val_eqb (vl vs2) vals'
      then Some (set_h st h' vs2) else None
    | _ => None
    end
  | _ => None
  end.

Fixpoint run_ops (hash : bytes -> bytes) (st : list (Z * valset)) (ops : list sx) (k : Z) : Z :=
  match ops with
  | [] => 0%Z
  | op :: t => match step hash st op with Some st' => run_ops hash st' t (k + 1) | None => k end
  end.

Definition check_valset (s : sx) : sx :=
  match s with
  | SL [tbl; SL ops] =>
    match dL (dPair dB dB) tbl with
    | Some tbl' =>
      let bad := run_ops (oracle tbl') [] ops 1 in
      if Z.eqb bad 0 then SL [] else SL [SZ bad]
    | None => sx_fail
    end
  | _ => sx_fail
  end.
