(* Correspondence for C10 (engine "evmcore"): one call of a generated single-contract program in
   the in-tree interpreter versus Model.EvmCore: outcome class, return data, the contract's
   storage afterwards and the logs. *)
From Coq Require Import List NArith ZArith Bool.
From AnnVerif Require Import Base.Bytes Base.Sx Corr.Oracle Model.EvmArith Model.Keccak Model.EvmCore.
Import ListNotations.
Open Scope Z_scope.

Definition zb (b : bytes) : list Z := map Z.of_N b.

(* the block hashes the harness's chain reader serves: Keccak-256 of the number's decimal digits *)
Fixpoint digits (fuel : nat) (n : Z) (acc : list Z) : list Z :=
  match fuel with
  | O => acc
  | S k => if n <? 10 then (48 + n) :: acc else digits k (n / 10) ((48 + n mod 10) :: acc)
  end.
Definition harness_blockhash (n : Z) : Z := Model.Keccak.keccak_word (digits 80 n []).
Definition dKV (s : sx) : option (Z * Z) := match s with SL [SZ k; SZ v] => Some (k, v) | _ => None end.
Definition dLog (s : sx) : option (list Z * list Z) :=
  match s with SL [t; SB d] => t' <-? dL dZ t ;; Some (t', zb d) | _ => None end.

(* storage as a sorted list of the non-zero bindings *)
Fixpoint ins_kv (k v : Z) (l : list (Z * Z)) : list (Z * Z) :=
  match l with
  | [] => [(k, v)]
  | (k', v') :: t => if k <? k' then (k, v) :: l else if k =? k' then l else (k', v') :: ins_kv k v t
  end.
(* latest binding first: earlier (older) bindings of a key do not replace what is there *)
Fixpoint sort_store (s : list (Z * Z)) (acc : list (Z * Z)) : list (Z * Z) :=
  match s with [] => acc | (k, v) :: t => sort_store t (ins_kv k v acc) end.
Definition norm_store (s : list (Z * Z)) : list (Z * Z) := filter (fun kv => negb (snd kv =? 0)) (sort_store s []).

Definition zl_eqb (a b : list Z) : bool := list_eqb Z.eqb a b.
Definition kv_eqb (a b : Z * Z) : bool := (fst a =? fst b) && (snd a =? snd b).
Definition log_eqb (a b : list Z * list Z) : bool := zl_eqb (fst a) (fst b) && zl_eqb (snd a) (snd b).

Definition check_evmcore (c : sx) : sx :=
  match c with
  | SL [SL [SZ addr; SZ origin; SZ value; SZ coinbase; SZ time; SZ number; SZ diff; SZ gaslimit]; SB code; SB data; store;
        SZ cls; SB ret; store'; logs] =>
    match dL dKV store, dL dKV store', dL dLog logs with
    | Some s0, Some s1, Some lg =>
      let e := mkEnv addr origin origin value 0 coinbase time number diff gaslimit (zb data) harness_blockhash in
      match call (N.to_nat 400000) e (zb code) s0 with
      | OUnsup => sx_of_codes [0%N]   (* not covered by the model: accepted unseen, counted by the check *)
      | OOog => sx_of_codes (if cls =? 3 then [] else [1%N; 3%N; Z.to_N cls])
      | OFail =>
        if negb (cls =? 2) then sx_of_codes [1%N; 2%N; Z.to_N cls]
        else if negb (list_eqb kv_eqb (norm_store s0) s1) then sx_of_codes [3%N]
        else if negb (match lg with [] => true | _ => false end) then sx_of_codes [4%N]
        else sx_of_codes []
      | ORevert r =>
        if negb (cls =? 1) then sx_of_codes [1%N; 1%N; Z.to_N cls]
        else if negb (zl_eqb r (zb ret)) then sx_of_codes [2%N]
        else if negb (list_eqb kv_eqb (norm_store s0) s1) then sx_of_codes [3%N]
        else if negb (match lg with [] => true | _ => false end) then sx_of_codes [4%N]
        else sx_of_codes []
      | OStop r s l =>
        if negb (cls =? 0) then sx_of_codes [1%N; 0%N; Z.to_N cls]
        else if negb (zl_eqb r (zb ret)) then sx_of_codes [2%N]
        else if negb (list_eqb kv_eqb (norm_store s) s1) then sx_of_codes [3%N]
        else if negb (list_eqb log_eqb (rev l) lg) then sx_of_codes [4%N]
        else sx_of_codes []
      end
    | _, _, _ => sx_fail
    end
  | _ => sx_fail
  end.
