(* Correspondence for C18: go-wire binary codec on the real types (engine "wire"), canonical
   sign-bytes (engine "signbytes") and RLP (engine "rlp") versus Model.Wire / Model.SignBytes /
   Model.Rlp. *)
From Coq Require Import List NArith ZArith Bool.
From AnnVerif Require Import Base.Res Base.Bytes Base.Sx Model.Wire Model.SignBytes Model.Rlp.
Import ListNotations.

(* ---------- descriptors and values ---------- *)
Definition mapM' {A B} (f : A -> option B) : list A -> option (list B) :=
  fix go (l : list A) : option (list B) :=
    match l with
    | [] => Some []
    | x :: t => match f x, go t with Some y, Some ys => Some (y :: ys) | _, _ => None end
    end.
Fixpoint dTy (s : sx) : option ty :=
  match s with
  | SL [SZ 0%Z; k; sg] => k' <-? dNat k ;; sg' <-? dBool sg ;; Some (TFix k' sg')
  | SL [SZ 1%Z; sg] => sg' <-? dBool sg ;; Some (TVar sg')
  | SL [SZ 2%Z] => Some TBool
  | SL [SZ 3%Z] => Some TBytes
  | SL [SZ 4%Z] => Some TTime
  | SL [SZ 5%Z; k] => k' <-? dNat k ;; Some (TArr k')
  | SL [SZ 6%Z; t] => t' <-? dTy t ;; Some (TList t')
  | SL [SZ 7%Z; k; t] => k' <-? dNat k ;; t' <-? dTy t ;; Some (TArrOf k' t')
  | SL [SZ 8%Z; SL fs] => fs' <-? mapM' dTy fs ;; Some (TStruct fs')
  | SL [SZ 9%Z; t] => t' <-? dTy t ;; Some (TPtr t')
  | SL [SZ 10%Z; SL alts] =>
    alts' <-? mapM' (fun a => match a with
                             | SL [tag; t] => tag' <-? dN tag ;; t' <-? dTy t ;; Some (tag', t')
                             | _ => None
                             end) alts ;;
    Some (TIface alts')
  | _ => None
  end.

Fixpoint dVal (s : sx) : option val :=
  match s with
  | SL [SZ 0%Z; SZ z] => Some (VZ z)
  | SL [SZ 1%Z; b] => b' <-? dBool b ;; Some (VB b')
  | SL [SZ 2%Z; SB b] => Some (VBs b)
  | SL [SZ 3%Z; SL l] => l' <-? mapM' dVal l ;; Some (VL l')
  | SL [SZ 4%Z] => Some VNone
  | SL [SZ 5%Z; v] => v' <-? dVal v ;; Some (VSome v')
  | SL [SZ 6%Z; tag; v] => tag' <-? dN tag ;; v' <-? dVal v ;; Some (VI tag' v')
  | _ => None
  end.

Fixpoint val_eqb (a b : val) {struct a} : bool :=
  match a, b with
  | VZ x, VZ y => Z.eqb x y
  | VB x, VB y => Bool.eqb x y
  | VBs x, VBs y => bytes_eqb x y
  | VL x, VL y =>
    (fix go (x y : list val) : bool :=
       match x, y with
       | [], [] => true
       | a :: x', b :: y' => val_eqb a b && go x' y'
       | _, _ => false
       end) x y
  | VNone, VNone => true
  | VSome x, VSome y => val_eqb x y
  | VI t x, VI u y => N.eqb t u && val_eqb x y
  | _, _ => false
  end.

(* implementation's decode result: (0 val n) | (1) | (2) *)
Inductive ires := IOk (v : val) (n : Z) | IErr | IPanic.
Definition dIres (s : sx) : option ires :=
  match s with
  | SL [SZ 0%Z; v; SZ n] => v' <-? dVal v ;; Some (IOk v' n)
  | SL [SZ 1%Z] => Some IErr
  | SL [SZ 2%Z] => Some IPanic
  | _ => None
  end.

Definition res_agrees (m : res (val * Z)) (i : ires) : bool :=
  match m, i with
  | Ok (v, n), IOk v' n' => val_eqb v v' && Z.eqb n n'
  | Err _, IErr => true
  | _, _ => false
  end.

(* JSON carries every number as a float64: integers beyond 2^53 are rounded to 53 significant
   bits (ties to even), which is what the implementation's JSON reader then stores *)
Definition f53 (z : Z) : Z := (
  let a := Z.abs z in
  if a <? 9007199254740992 then z
  else
    let e := Z.log2 a - 52 in
    let q := Z.shiftr a e in
    let rem := a - Z.shiftl q e in
    let half := Z.shiftl 1 (e - 1) in
    let q' := if (half <? rem) || ((half =? rem) && Z.odd q) then q + 1 else q in
    Z.sgn z * Z.shiftl q' e)%Z.

(* float64 -> (u)int64 as the amd64 conversion instructions do it: out of range gives 0x8000000000000000 *)
Definition to_int64 (signed : bool) (r : Z) : Z :=
  if signed then (if (r <? -9223372036854775808)%Z || (9223372036854775808 <=? r)%Z then -9223372036854775808 else r)%Z
  else (if (18446744073709551616 <=? r)%Z then 9223372036854775808 else r)%Z.

Fixpoint json_image (t : ty) (v : val) {struct t} : val :=
  match t, v with
  | TFix _ sg, VZ z => VZ (to_int64 sg (f53 z))
  | TVar sg, VZ z => VZ (to_int64 sg (f53 z))
  | TList t', VL l => VL (map (json_image t') l)
  | TArrOf _ t', VL l => VL (map (json_image t') l)
  | TStruct fs, VL l =>
    VL ((fix go (fs : list ty) (l : list val) : list val :=
           match fs, l with
           | f :: fr, x :: r => json_image f x :: go fr r
           | _, _ => l
           end) fs l)
  | TPtr t', VSome x => VSome (json_image t' x)
  | TIface alts, VI tag x =>
    VI tag ((fix find (alts : list (N * ty)) : val :=
               match alts with
               | [] => x
               | kt :: r => if N.eqb (fst kt) tag then json_image (snd kt) x else find r
               end) alts)
  | _, _ => v
  end.

(* codes: 1 descriptor not well-formed, 2 encoding differs, 3 decode result differs,
   4 a well-formed value did not round-trip in the model (contradicts the theorem),
   5 JSON image differs, 6 re-encoding of the JSON image differs *)
Definition check_wire (c : sx) : sx :=
  match c with
  | SL [SZ 0%Z; t; v; SB enc; SZ lmt; r] =>
    match dTy t, dVal v, dIres r with
    | Some t', Some v', Some r' =>
      sx_of_codes
        ((if wf_ty t' then [] else [1%N]) ++
         (match encode t' v' with Some b => if bytes_eqb b enc then [] else [2%N] | None => [2%N] end) ++
         (if res_agrees (read_binary t' lmt enc) r' then [] else [3%N]) ++
         (if wf_val t' v' && ((lmt =? 0)%Z || (Z.of_nat (length enc) <=? lmt)%Z) then
            match read_binary t' lmt enc with
            | Ok (v2, n) => if val_eqb v2 v' && Z.eqb n (Z.of_nat (length enc)) then [] else [4%N]
            | _ => [4%N]
            end
          else []))
    | _, _, _ => sx_fail
    end
  | SL [SZ 1%Z; t; SB bs; SZ lmt; r] =>
    match dTy t, dIres r with
    | Some t', Some r' =>
      sx_of_codes ((if wf_ty t' then [] else [1%N]) ++
                   (if res_agrees (read_binary t' lmt bs) r' then [] else [3%N]))
    | _, _ => sx_fail
    end
  | SL [SZ 2%Z; t; v; back; SB reenc] =>
    match dTy t, dVal v, dVal back with
    | Some t', Some v', Some b' =>
      let img := json_image t' v' in
      sx_of_codes ((if val_eqb img b' then [] else [5%N]) ++
                   (match encode t' img with Some b => if bytes_eqb b reenc then [] else [6%N] | None => [6%N] end))
    | _, _, _ => sx_fail
    end
  | _ => sx_fail
  end.

(* ---------- canonical sign-bytes ---------- *)
Definition dBid (s : sx) : option cbid :=
  match s with
  | SL [SB h; SZ t; SB p] => Some (mkCbid h t p)
  | _ => None
  end.
(* (0 chain bid height round type) | (1 chain total phash height polbid polround round) *)
Inductive signable := SgVote (c : bytes) (v : cvote) | SgProp (c : bytes) (p : cproposal).
Definition dSignable (s : sx) : option signable :=
  match s with
  | SL [SZ 0%Z; SB c; b; SZ h; SZ r; SZ t] => b' <-? dBid b ;; Some (SgVote c (mkCvote b' h r t))
  | SL [SZ 1%Z; SB c; SZ tot; SB ph; SZ h; pb; SZ pr; SZ r] => pb' <-? dBid pb ;; Some (SgProp c (mkCprop tot ph h pb' pr r))
  | _ => None
  end.
Definition sb_of (x : signable) : bytes :=
  match x with SgVote c v => sign_bytes_vote c v | SgProp c p => sign_bytes_proposal c p end.
Definition chain_of (x : signable) : bytes := match x with SgVote c _ | SgProp c _ => c end.
Definition is_ascii (b : bytes) : bool := forallb (fun x => (x <? 128)%N) b.

(* codes: 1 sign-bytes differ from the model's, 2 second of a pair differs, 3 a pair outside the
   theorem's domain was expected (kind 3) but both chain ids are ASCII *)
Definition check_signbytes (c : sx) : sx :=
  match c with
  | SL [SZ 0%Z; x; SB sb] =>
    match dSignable x with
    | Some x' => sx_of_codes (if bytes_eqb (sb_of x') sb then [] else [1%N])
    | None => sx_fail
    end
  | SL [SZ 2%Z; x; SB sbx; y; SB sby] =>
    match dSignable x, dSignable y with
    | Some x', Some y' =>
      sx_of_codes ((if bytes_eqb (sb_of x') sbx then [] else [1%N]) ++ (if bytes_eqb (sb_of y') sby then [] else [2%N]))
    | _, _ => sx_fail
    end
  | SL [SZ 3%Z; SB c1; SB c2] =>
    sx_of_codes (if is_ascii c1 && is_ascii c2 then [3%N] else [])
  | _ => sx_fail
  end.

(* ---------- RLP ---------- *)
Fixpoint dItem (s : sx) : option item :=
  match s with
  | SL [SZ 0%Z; SB b] => Some (IStr b)
  | SL [SZ 1%Z; SL l] => l' <-? mapM' dItem l ;; Some (IList l')
  | _ => None
  end.
Fixpoint item_eqb (a b : item) {struct a} : bool :=
  match a, b with
  | IStr x, IStr y => bytes_eqb x y
  | IList x, IList y =>
    (fix go (x y : list item) : bool :=
       match x, y with
       | [], [] => true
       | a :: x', b :: y' => item_eqb a b && go x' y'
       | _, _ => false
       end) x y
  | _, _ => false
  end.
(* decoding into a uint64: a string of at most 8 bytes without a leading zero *)
Definition as_uint64 (it : item) : option N :=
  match it with
  | IStr b => if Nat.ltb 8 (length b) then None
              else match b with 0%N :: _ => None | _ => Some (be_val b) end
  | IList _ => None
  end.

(* codes: 1 encoding differs, 2 decode result differs, 3 uint64 decode differs,
   4 typed decode succeeded on bytes the model rejects *)
Definition check_rlp (c : sx) : sx :=
  match c with
  | SL [SZ 0%Z; it; SB b] =>
    match dItem it with
    | Some it' => sx_of_codes (if bytes_eqb (Rlp.enc it') b then [] else [1%N])
    | None => sx_fail
    end
  | SL [SZ 1%Z; SB b; r] =>
    match r with
    | SL [] => sx_of_codes (match Rlp.decode b with None => [] | Some _ => [2%N] end)
    | SL [it] =>
      match dItem it with
      | Some it' => sx_of_codes (match Rlp.decode b with Some m => if item_eqb m it' then [] else [2%N] | None => [2%N] end)
      | None => sx_fail
      end
    | _ => sx_fail
    end
  | SL [SZ 2%Z; SB b; r] =>
    let m := match Rlp.decode b with Some it => as_uint64 it | None => None end in
    match r with
    | SL [] => sx_of_codes (match m with None => [] | Some _ => [3%N] end)
    | SL [SZ z] => sx_of_codes (match m with Some n => if Z.eqb (Z.of_N n) z then [] else [3%N] | None => [3%N] end)
    | _ => sx_fail
    end
  | SL [SZ 3%Z; SB b; ok] =>
    match dBool ok with
    | Some true => sx_of_codes (match Rlp.decode b with Some _ => [] | None => [4%N] end)
    | Some false => sx_of_codes []
    | None => sx_fail
    end
  | _ => sx_fail
  end.
