(* Correspondence for C09 / C05 (engine "evmapp"): the real EVM application versus Model.TxExec.
   Per block the harness gives, for every transaction, its identity (index of the first occurrence
   of the same bytes), sender (-1: none recoverable), nonce, whether everything but the nonce is in
   order, and the verdict the application returned; and the three senders' nonces queried after
   the commit.  The model executes the same blocks from the empty state. *)
From Coq Require Import List NArith ZArith Bool.
From AnnVerif Require Import Base.Res Base.Bytes Base.Sx Model.TxExec.
Import ListNotations.

Definition dTx (s : sx) : option (tx * bool) :=
  match s with
  | SL [id; SZ from; nonce; ok; verdict] =>
    i <-? dN id ;; n <-? dN nonce ;; o <-? dBool ok ;; v <-? dBool verdict ;;
    Some (mkTx i (if (from <? 0)%Z then None else Some (Z.to_N from)) n o, v)
  | _ => None
  end.

Fixpoint bools_eqb (a b : list bool) : bool :=
  match a, b with
  | [], [] => true
  | x :: a', y :: b' => Bool.eqb x y && bools_eqb a' b'
  | _, _ => false
  end.
Fixpoint nonces_eqb (s : st) (i : N) (l : list N) : bool :=
  match l with
  | [] => true
  | n :: r => N.eqb (nonce_of (nonces s) i) n && nonces_eqb s (N.succ i) r
  end.

(* codes: 1 verdicts differ, 2 nonces after the block differ *)
Definition step_block (acc : st * list N) (b : sx) : st * list N :=
  let '(s, codes) := acc in
  match b with
  | SL [txs; ns] =>
    match dL dTx txs, dL dN ns with
    | Some tv, Some nl =>
      let '(s', vs) := exec_block s (map fst tv) in
      (s', codes ++ (if bools_eqb vs (map snd tv) then [] else [1%N])
                 ++ (if nonces_eqb s' 0 nl then [] else [2%N]))
    | _, _ => (s, codes ++ [99%N])
    end
  | SL [SZ 9%Z] => (s, codes ++ [9%N])
  | _ => (s, codes ++ [99%N])
  end.

Definition check_evmapp (c : sx) : sx :=
  match c with
  | SL blocks => sx_of_codes (snd (fold_left step_block blocks (mkSt [] [], [])))
  | _ => sx_fail
  end.
