(* Correspondence for C10 (engine "evmarith"): the in-tree interpreter's result of one pure
   instruction versus Model.EvmArith. *)
From Coq Require Import List NArith ZArith Bool.
From AnnVerif Require Import Base.Bytes Base.Sx Model.EvmArith.
Import ListNotations.

Definition check_evmarith (c : sx) : sx :=
  match c with
  | SL [SZ op; SZ a; SZ b; SZ c'; SZ r] =>
    match eval op a b c' with
    | Some m => sx_of_codes (if Z.eqb m r then [] else [1%N])
    | None => sx_of_codes [2%N]
    end
  | _ => sx_fail
  end.
