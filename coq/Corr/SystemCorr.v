(* Correspondence for the N-node system of Proofs/System.v (engine "sysrun"; C01, C04): the global,
   ordered schedule of one height of a run of real ConsensusState instances - every input and
   majority claim handled by every honest node while it is at the height - is replayed through
   the executable scheduler [exec], whose accepted scripts are exactly reachable states of the
   system the agreement theorem is about.  A rejection means the real run left the system model:
   a timeout for a round the node had not reached ([input_ok]), a valid vote of an honest validator
   that the validator's node did not emit before ([admissible]), or an input the node model cannot
   handle; a crash with an intact log followed by a restart is the system's restart step (refusal
   code 6: the model has no log for the node because a majority claim intervened).  At the end the commits of the model run are compared with the commits the real nodes
   made, and all of them must be for one block. *)
From Coq Require Import List NArith ZArith Bool Arith.
From AnnVerif Require Import Base.Res Base.Bytes Base.Sx Model.VoteSet Model.ValSet Model.Node Corr.Oracle Corr.VoteSetCorr
  Corr.NodeCorr Proofs.PowerSum Proofs.System.
Import ListNotations.
Open Scope Z_scope.

Fixpoint idx_of (a : bytes) (l : list validator) (k : nat) : option nat :=
  match l with
  | [] => None
  | (a', _) :: t => if bytes_eqb a a' then Some k else idx_of a t (S k)
  end.

Definition dEvent (VS : list validator) (s : sx) : option sevent :=
  match s with
  | SL [SB a; SL [SZ 4; SZ r; t; SB peer; b]] =>
    i <-? idx_of a VS 0 ;; t' <-? dN t ;; b' <-? dBid b ;; Some (EMaj i r t' peer b')
  | SL [SB a; SL [SZ 6]] => i <-? idx_of a VS 0 ;; Some (ERestart i)
  | SL [SB a; inp] => i <-? idx_of a VS 0 ;; inp' <-? dInput inp ;; Some (EIn i inp')
  | _ => None
  end.

Definition dCommit (VS : list validator) (s : sx) : option (nat * bytes) :=
  match s with
  | SL [SB a; SB h] => i <-? idx_of a VS 0 ;; Some (i, h)
  | _ => None
  end.

Definition pair_eqb (x y : nat * bytes) : bool := Nat.eqb (fst x) (fst y) && bytes_eqb (snd x) (snd y).
Definition sub_pairs (a b : list (nat * bytes)) : bool := forallb (fun x => existsb (pair_eqb x) b) a.
Definition one_block (l : list (nat * bytes)) : bool :=
  match l with [] => true | (_, h) :: t => forallb (fun x => bytes_eqb (snd x) h) t end.

(* why [exec_ev] refuses an event: 2 not an honest node at the height, 3 timeout for a round not
   reached, 4 honest vote not in the trace, 5 the node model fails *)
Definition refuse_code (VS : list validator) (byz : nat -> bool) (S : sys) (e : sevent) : N :=
  match e with
  | EMaj _ _ _ _ _ => 2%N
  | ERestart _ => 6%N
  | EIn i inp =>
    if negb (negb (byz i) && (height (st S i) =? 1)) then 2%N
    else if negb (input_ok_b inp (st S i)) then 3%N
    else if negb (admissible_b VS 1 byz inp (tr S)) then 4%N
    else 5%N
  end.

Fixpoint run_events (VS : list validator) (c : cfg) (byz : nat -> bool) (S : sys) (es : list sx) (k : N) : sys + list N :=
  match es with
  | [] => inl S
  | s :: t =>
    match dEvent VS s with
    | None => inr [(1000 + k)%N; 1%N]
    | Some e =>
      match exec_ev VS 1 c byz S e with
      | Some S' => run_events VS c byz S' t (k + 1)
      | None => inr [(1000 + k)%N; refuse_code VS byz S e]
      end
    end
  end.

(* case = (validators skip honest-addresses events commits) *)
Definition check_system (c : sx) : sx :=
  match c with
  | SL [vals; skip; honest; SL events; commits] =>
    match dL dVal3 vals, dBool skip, dL dB honest with
    | Some vals', Some skip', Some honest' =>
      match new_valset vals' with
      | Ok vs =>
        let VS := vals_of vs in
        let hidx := flat_map (fun a => match idx_of a VS 0 with Some i => [(i, a)] | None => [] end) honest' in
        let byz := fun i => negb (existsb (fun p => Nat.eqb (fst p) i) hidx) in
        let me := fun i => match find (fun p => Nat.eqb (fst p) i) hidx with Some p => Some (snd p) | None => None end in
        match init_node 1 vs None None (mkSg 0 0 0 None), dL (dCommit VS) commits with
        | Ok n0, Some commits' =>
          let st0 := fun i => match init_node 1 vs None (me i) (mkSg 0 0 0 None) with Ok n => n | _ => n0 end in
          if negb (Nat.eqb (length hidx) (length honest')) then sx_of_codes [97%N]
          else if negb ((pow_of VS (fun _ => true) <? 4611686018427387904) && forallb (fun v => 0 <=? snd v) VS
                        && (3 * pow_of VS byz <? pow_of VS (fun _ => true))) then sx_of_codes [40%N]
          else
            match run_events VS (mkCfg skip') byz (mkSys st0 (fun _ => []) (fun _ => []) [] [] (fun i => (vs, None, me i)) (fun _ => Some [])) events 0 with
            | inr l => sx_of_codes l
            | inl Sf =>
              if negb (sub_pairs commits' (cms Sf)) then sx_of_codes [20%N]
              else if negb (sub_pairs (cms Sf) commits') then sx_of_codes [21%N]
              else if negb (one_block (cms Sf)) then sx_of_codes [30%N]
              else sx_of_codes []
            end
        | _, _ => sx_of_codes [98%N]
        end
      | _ => sx_of_codes [98%N]
      end
    | _, _, _ => sx_fail
    end
  | _ => sx_fail
  end.
