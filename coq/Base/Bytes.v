(* Byte strings, big-endian integers, go-wire varints and length-prefixed byte slices.
   Mirrors gemmill/go-wire/int.go (WriteVarint/ReadVarint/uvarintSize) and byteslice.go. *)
From Coq Require Import List NArith ZArith Lia String Ascii Bool.
Import ListNotations.
Open Scope N_scope.

Definition bytes := list N.

Fixpoint bytes_eqb (a b : bytes) : bool :=
  match a, b with
  | [], [] => true
  | x :: a', y :: b' => N.eqb x y && bytes_eqb a' b'
  | _, _ => false
  end.

(* ---- hex literals (used by generated case files) ---- *)
Definition hexval (c : ascii) : N :=
  let n := N_of_ascii c in
  if (48 <=? n) && (n <=? 57) then n - 48
  else if (97 <=? n) && (n <=? 102) then n - 87
  else if (65 <=? n) && (n <=? 70) then n - 55
  else 0.
Fixpoint hx (s : string) : bytes :=
  match s with
  | String a (String b s') => (hexval a * 16 + hexval b) :: hx s'
  | _ => []
  end.

(* ---- big endian ---- *)
Fixpoint be_bytes (k : nat) (v : N) : bytes :=
  match k with
  | O => []
  | S k' => be_bytes k' (v / 256) ++ [v mod 256]
  end.
Fixpoint be_val_aux (acc : N) (l : bytes) : N :=
  match l with [] => acc | b :: t => be_val_aux (acc * 256 + b) t end.
Definition be_val (l : bytes) : N := be_val_aux 0 l.

(* uvarintSize, exactly as the Go code computes it (values below 2^64) *)
Definition usize_go (v : N) : nat :=
  if v =? 0 then 0%nat
  else if v <? 256 then 1%nat
  else if v <? 65536 then 2%nat
  else if v <? 16777216 then 3%nat
  else if v <? 4294967296 then 4%nat
  else if v <? 1099511627776 then 5%nat
  else if v <? 281474976710656 then 6%nat
  else if v <? 72057594037927936 then 7%nat
  else 8%nat.

(* The model extends uvarintSize beyond 2^64 (where no Go value exists) by the number of
   base-256 digits, so that the encoding is injective on all of N and the theorems need no
   size side-conditions; on every value a Go int/uint64 can hold it is the Go function. *)
Definition usize (v : N) : nat :=
  if v <? 18446744073709551616 then usize_go v else N.to_nat (N.log2 v / 8 + 1).

(* first byte of a varint: the size, plus 0xF0 for negative numbers.  For sizes above 8 (no Go
   value has one) the model uses fresh even/odd codes so that the encoding stays injective. *)
Definition marker (neg : bool) (s : nat) : N :=
  if (s <=? 8)%nat then (if neg then N.of_nat s + 240 else N.of_nat s)
  else (if neg then 2 * N.of_nat s + 1001 else 2 * N.of_nat s + 1000).

(* WriteVarint on a Go int given as Z (|i| <= 2^63) *)
Definition enc_varint (i : Z) : bytes :=
  marker (i <? 0)%Z (usize (Z.abs_N i)) :: be_bytes (usize (Z.abs_N i)) (Z.abs_N i).

(* WriteUvarint *)
Definition enc_uvarint (a : N) : bytes :=
  marker false (usize a) :: be_bytes (usize a) a.

(* WriteByteSlice *)
Definition enc_bs (b : bytes) : bytes :=
  enc_varint (Z.of_nat (List.length b)) ++ b.

(* int64 wrap-around *)
Definition wrap64 (z : Z) : Z := ((z + 9223372036854775808) mod 18446744073709551616 - 9223372036854775808)%Z.

(* ReadVarint (GetVarint): value and rest, or None on any error *)
Definition dec_varint (bs : bytes) : option (Z * bytes) :=
  match bs with
  | [] => None
  | b0 :: rest =>
    let neg := N.eqb (b0 / 16) 15 in
    let size := if neg then N.land b0 15 else b0 in
    if 8 <? size then None
    else if size =? 0 then (if neg then None else Some (0%Z, rest))
    else
      let k := N.to_nat size in
      if (List.length rest <? k)%nat then None
      else
        let v := wrap64 (Z.of_N (be_val (firstn k rest))) in
        Some ((if neg then wrap64 (- v) else v)%Z, skipn k rest)
  end.

Definition concat_bytes (l : list bytes) : bytes := List.concat l.
