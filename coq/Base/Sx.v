(* Generic case format for correspondence runs.  The Go harness writes one s-expression per
   line (integers, byte strings, lists); the extracted runner parses it into [sx], calls the
   engine's [check_*] function and prints the resulting [sx].  Decoders return [option] so that a
   malformed case is reported (code 99), never silently accepted. *)
From Coq Require Import List NArith ZArith Bool.
From AnnVerif Require Import Base.Bytes.
Import ListNotations.

Inductive sx := SZ (z : Z) | SB (b : bytes) | SL (l : list sx).

Definition dZ (s : sx) : option Z := match s with SZ z => Some z | _ => None end.
Definition dB (s : sx) : option bytes := match s with SB b => Some b | _ => None end.
Definition dN (s : sx) : option N := match s with SZ z => if (z <? 0)%Z then None else Some (Z.to_N z) | _ => None end.
Definition dNat (s : sx) : option nat := match s with SZ z => if (z <? 0)%Z then None else Some (Z.to_nat z) | _ => None end.
Definition dBool (s : sx) : option bool :=
  match s with SZ 0%Z => Some false | SZ 1%Z => Some true | _ => None end.

Fixpoint mapM {A B} (f : A -> option B) (l : list A) : option (list B) :=
  match l with
  | [] => Some []
  | x :: t => match f x, mapM f t with Some y, Some ys => Some (y :: ys) | _, _ => None end
  end.
Definition dL {A} (f : sx -> option A) (s : sx) : option (list A) :=
  match s with SL l => mapM f l | _ => None end.
Definition dPair {A B} (f : sx -> option A) (g : sx -> option B) (s : sx) : option (A * B) :=
  match s with
  | SL [a; b] => match f a, g b with Some x, Some y => Some (x, y) | _, _ => None end
  | _ => None
  end.
(* optional value: () = None, (x) = Some x *)
Definition dOpt {A} (f : sx -> option A) (s : sx) : option (option A) :=
  match s with
  | SL [] => Some None
  | SL [a] => match f a with Some x => Some (Some x) | None => None end
  | _ => None
  end.

Definition obind {A B} (o : option A) (f : A -> option B) : option B :=
  match o with Some a => f a | None => None end.
Notation "x <-? o ;; k" := (obind o (fun x => k)) (at level 61, o at next level, right associativity).

Definition sx_fail : sx := SL [SZ 99%Z].
Definition sx_of_codes (l : list N) : sx := SL (map (fun n => SZ (Z.of_N n)) l).
Definition sx_of_bool (b : bool) : sx := SZ (if b then 1 else 0)%Z.
