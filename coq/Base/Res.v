(* Three-valued results: the Go code either returns normally, returns an error, or panics. *)
From Coq Require Import List String.
Import ListNotations.

Inductive res (A : Type) : Type :=
| Ok (a : A)
| Err (e : nat)
| Panic (why : nat).
Arguments Ok {A} a.
Arguments Err {A} e.
Arguments Panic {A} why.

Definition bind {A B} (r : res A) (f : A -> res B) : res B :=
  match r with Ok a => f a | Err e => Err e | Panic w => Panic w end.

Definition is_panic {A} (r : res A) : bool :=
  match r with Panic _ => true | _ => false end.
Definition is_ok {A} (r : res A) : bool :=
  match r with Ok _ => true | _ => false end.

Notation "x <- r ;; k" := (bind r (fun x => k)) (at level 61, r at next level, right associativity).
