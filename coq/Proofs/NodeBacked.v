(* The backing invariant of Proofs/Backed.v through the consensus state machine: in every state a
   node reaches within a height, every vote set it holds is made of votes that were delivered to
   it as inputs.  Only IVote inputs add to the delivered list. *)
From Coq Require Import List NArith ZArith Lia Bool.
From AnnVerif Require Import Base.Res Base.Bytes Model.VoteSet Model.ValSet Model.Node
  Proofs.PowerSum Proofs.VoteSetProofs Proofs.NodeProofs Proofs.Backed.
Import ListNotations.
Open Scope Z_scope.

Section NodeBacked.
Variable VS : list validator.
Hypothesis Hbounded : bounded VS.
Variable h0 : Z.

(* the node is at the height under study or beyond it; while at it, its vote sets are backed *)
Definition node_ok (off : list vote) (n : node) : Prop :=
  h0 <= height n /\ (height n = h0 -> hvs_ok VS off (votes n) /\ hv_height (votes n) = h0).

Lemma node_ok_mono off off' n : incl off off' -> node_ok off n -> node_ok off' n.
Proof. intros Hi [L H]. split; [exact L|]. intro E. destruct (H E) as [A B]. split; [eapply hvs_ok_mono; eauto|exact B]. Qed.

Definition pres (off : list vote) (f : node -> M) : Prop :=
  forall n n' o, node_ok off n -> f n = Ok (n', o) -> node_ok off n'.

Lemma pres_ret off : pres off ret. Proof. intros n n' o H E. injection E as <- _. exact H. Qed.
Lemma pres_emit off x : pres off (emit x). Proof. intros n n' o H E. injection E as <- _. exact H. Qed.
Lemma pres_bind off f g : pres off f -> pres off g -> pres off (fun n => f n >>= g).
Proof.
  intros Hf Hg n n' o H E. apply bind_ok in E as (n1 & o1 & o2 & E1 & E2 & _).
  eapply Hg; [eapply Hf; [exact H|exact E1]|exact E2].
Qed.
(* a state that differs from an ok one in neither height nor votes *)
Lemma node_ok_same off n m : height m = height n -> votes m = votes n -> node_ok off n -> node_ok off m.
Proof. intros Hh Hv H. unfold node_ok. rewrite Hh, Hv. exact H. Qed.
Lemma pres_frame off f : fsat f -> pres off f.
Proof. intros Hf n n' o H E. destruct (Hf n n' o E) as (Hh & Hv & _). now apply (node_ok_same off n n'). Qed.

Lemma pres_enter_new_round off h r : pres off (enter_new_round h r).
Proof.
  intros n n' o H. unfold enter_new_round.
  destruct (negb (height n =? h) || (r <? round n) || ((round n =? r) && negb (step n =? 1))); [apply pres_ret; exact H|].
  destruct (if round n <? r then increment (vals n) (r - round n) else Ok (vals n)) as [vs| |]; try discriminate.
  cbn zeta.
  set (n2 := if r =? 0 then set_vals (set_step n r 2) vs else set_prop (set_vals (set_step n r 2) vs) None None None).
  assert (E2 : height n2 = height n /\ votes n2 = votes n) by (unfold n2; destruct (r =? 0); split; reflexivity).
  destruct E2 as [Eh Ev]. rewrite Ev.
  destruct (hv_set_round (votes n) (r + 1)) as [hv| |] eqn:Es; try discriminate.
  apply (pres_frame off _ (fsat_enter_propose h r)).
  destruct H as [L H]. split; [cbn [height set_votes]; lia|].
  intro E. cbn [height votes set_votes] in *. rewrite Eh in E. destruct (H E) as [A B].
  destruct (hv_set_round_ok VS off _ _ _ A Es) as [A' B']. split; [exact A'|congruence].
Qed.

Lemma pres_enter_new_round_open off h r : pres off (enter_new_round_open h r).
Proof.
  intros n n' o H. unfold enter_new_round_open.
  destruct (step n <? 8); [apply pres_enter_new_round; exact H|apply pres_ret; exact H].
Qed.

Lemma pres_enter_precommit off h r : pres off (enter_precommit h r).
Proof.
  intros n n' o H. unfold enter_precommit.
  destruct (negb (height n =? h) || (r <? round n) || ((round n =? r) && (6 <=? step n))); [apply pres_ret; exact H|].
  intro E. apply bind_ok in E as (n1 & o1 & o2 & E1 & E2 & _). injection E2 as <- _.
  apply (node_ok_same off n1 (set_step n1 r 6) eq_refl eq_refl).
  revert E1.
  assert (S : forall m, height m = height n -> votes m = votes n -> forall t b, sign_add_vote t b m = Ok (n1, o1) -> node_ok off n1).
  { intros m Hh Hv t b Es. destruct (fsat_sign_add_vote t b m n1 o1 Es) as (A & B & _).
    apply (node_ok_same off n n1); [congruence|congruence|exact H]. }
  destruct (maj23 (hv_prevotes (votes n) r)) as [b|]; [|apply S; reflexivity].
  destruct (pol_info (votes n)) as [[polr ?]| |]; try discriminate.
  destruct (polr <? r); [discriminate|].
  destruct (b_hash b).
  - destruct (lblock n); apply S; reflexivity.
  - destruct (hashes_to (lblock n) _); [apply S; reflexivity|].
    destruct (hashes_to (pblock n) _).
    + destruct (pblock n) as [pb|]; [|discriminate]. destruct (negb (bk_valid pb)); [discriminate|]. cbn zeta. apply S; reflexivity.
    + cbn zeta. destruct (has_header _ _ _); [apply S; reflexivity|].
      destruct (new_pset _ _) as [ps| |]; try discriminate. apply S; reflexivity.
Qed.

Lemma pres_finalize_commit off c h : pres off (finalize_commit c h).
Proof.
  intros n n' o H. unfold finalize_commit.
  destruct (negb (height n =? h) || negb (step n =? 8)) eqn:G; [apply pres_ret; exact H|].
  apply orb_false_elim in G as [G _]. apply negb_false_iff, Z.eqb_eq in G.
  destruct (maj23 _) as [b|]; [|discriminate]. destruct (negb _); [discriminate|]. destruct (negb _); [discriminate|].
  destruct (pblock n) as [pb|]; [|discriminate]. destruct (negb _); [discriminate|].
  destruct (increment (st_vals n) 1) as [nv| |]; try discriminate.
  destruct (new_hvs (h + 1) (vals_of nv)) as [hv| |]; try discriminate.
  intro E. injection E as <- _. destruct H as [L _]. split; cbn [height]; [lia|intro E0; lia].
Qed.

Lemma pres_try_finalize_commit off c h : pres off (try_finalize_commit c h).
Proof.
  intros n n' o H. unfold try_finalize_commit. destruct (negb _); [discriminate|].
  destruct (maj23 _) as [b|]; [|apply pres_ret; exact H]. destruct (b_hash b); [apply pres_ret; exact H|].
  destruct (hashes_to _ _); [apply pres_finalize_commit; exact H|apply pres_ret; exact H].
Qed.

Lemma pres_enter_commit off c h cr : pres off (enter_commit c h cr).
Proof.
  intros n n' o H. unfold enter_commit. destruct (negb _ || _); [apply pres_ret; exact H|].
  destruct (maj23 _) as [b|]; [|discriminate]. cbn zeta.
  set (n1 := if hashes_to (lblock n) (b_hash b) then set_prop n (proposal n) (lblock n) (option_map pset_of_blk (lblock n)) else n).
  assert (E1 : height n1 = height n /\ votes n1 = votes n) by (unfold n1; destruct (hashes_to _ _); split; reflexivity).
  assert (K : forall m, height m = height n -> votes m = votes n ->
              try_finalize_commit c h (set_commit_round (set_step m (round m) 8) cr) = Ok (n', o) -> node_ok off n').
  { intros m Hh Hv. apply pres_try_finalize_commit. apply (node_ok_same off n); [exact Hh|exact Hv|exact H]. }
  destruct E1 as [Eh Ev].
  destruct (hashes_to (pblock n1) (b_hash b)); [apply K; assumption|].
  destruct (has_header _ _ _); [apply K; assumption|].
  destruct (new_pset _ _) as [ps| |]; try discriminate. apply K; assumption.
Qed.

Lemma pres_add_part off c h idx b dec ver : pres off (add_part c h idx b dec ver).
Proof.
  intros n n' o H. unfold add_part. destruct (negb _); [apply pres_ret; exact H|].
  destruct (pparts n) as [ps|]; [|apply pres_ret; exact H].
  destruct (_ || _); [apply pres_emit; exact H|]. destruct (existsb _ _); [apply pres_ret; exact H|].
  destruct (ver && _); [apply pres_emit; exact H|]. cbn zeta.
  destruct (Z.eqb _ _).
  2:{ intro E. injection E as <- _. apply (node_ok_same off n); [reflexivity|reflexivity|exact H]. }
  intro E. apply bind_ok in E as (n1 & o1 & o2 & E1 & E2 & _).
  assert (H1 : node_ok off n1).
  { revert E1. set (n2 := set_prop _ _ _ _).
    assert (H2 : node_ok off n2) by (apply (node_ok_same off n); [reflexivity|reflexivity|exact H]).
    destruct (step n2 =? 3).
    - destruct (is_proposal_complete n2) as [[|]| |]; try discriminate.
      + apply (pres_frame off _ (fsat_enter_prevote h (round n2))). exact H2.
      + apply pres_ret. exact H2.
    - destruct (step n2 =? 8); [apply pres_try_finalize_commit; exact H2|apply pres_ret; exact H2]. }
  destruct dec; injection E2 as <- _; exact H1.
Qed.

(* the one place where the delivered list grows *)
Lemma pres_add_vote_cs off c v peer n n' o :
  node_ok off n -> add_vote_cs c v peer n = Ok (n', o) -> node_ok (v :: off) n'.
Proof.
  intros H. assert (Hw : node_ok (v :: off) n) by (eapply node_ok_mono; [|exact H]; intros x Hx; right; exact Hx).
  unfold add_vote_cs. destruct (v_height v + 1 =? height n).
  - destruct (negb _); [apply pres_emit; exact Hw|]. destruct (last_commit n) as [lc|]; [|apply pres_emit; exact Hw].
    destruct (add_vote lc v) as [[[lc' added] code]| |]; try discriminate. cbn zeta.
    intro E. apply bind_ok in E as (n1 & o1 & o2 & E1 & E2 & _).
    assert (H1 : node_ok (v :: off) n1).
    { revert E1. destruct (added && _ && _).
      - apply pres_enter_new_round. apply (node_ok_same _ n); [reflexivity|reflexivity|exact Hw].
      - apply pres_ret. apply (node_ok_same _ n); [reflexivity|reflexivity|exact Hw]. }
    destruct (N.eqb code 0); injection E2 as <- _; exact H1.
  - destruct (v_height v =? height n); [|apply pres_emit; exact Hw]. cbn zeta.
    destruct (hv_add_vote (votes n) v peer) as [[[hv added] code]| |] eqn:Ea; try discriminate.
    assert (H1 : node_ok (v :: off) (set_votes n hv)).
    { destruct H as [L H]. split; [exact L|]. cbn [height votes set_votes]. intro E. destruct (H E) as [A B].
      destruct (hv_add_vote_ok VS Hbounded off _ _ _ _ _ _ A Ea) as [A' B']. split; [exact A'|congruence]. }
    intro E. apply bind_ok in E as (n5 & o1 & o2 & E1 & E2 & _).
    assert (H5 : node_ok (v :: off) n5).
    { revert E1. set (n1 := set_votes n hv) in *. generalize (height n) as hh. intro hh.
      destruct (negb added); [apply pres_ret; exact H1|].
      destruct (N.eqb (v_type v) 1).
      - set (n2 := match lblock n1 with Some _ => _ | None => n1 end).
        assert (H2 : node_ok (v :: off) n2).
        { unfold n2. destruct (lblock n1); [|exact H1]. destruct (_ && _); [|exact H1].
          destruct (maj23 _); [|exact H1]. destruct (negb _); [|exact H1].
          apply (node_ok_same _ n1); [reflexivity|reflexivity|exact H1]. }
        clearbody n2.
        destruct (_ && _).
        + intro E. apply bind_ok in E as (n3 & o3 & o4 & E3 & E4 & _).
          assert (H3 : node_ok (v :: off) n3) by (eapply pres_enter_new_round; eauto).
          revert E4. destruct (maj23 _); [apply pres_enter_precommit; exact H3|].
          apply (pres_bind _ _ _ (pres_frame _ _ (fsat_enter_prevote hh (v_round v))) (pres_frame _ _ (fsat_enter_prevote_wait hh (v_round v)))). exact H3.
        + destruct (proposal n2) as [p|]; [|apply pres_ret; exact H2]. destruct (_ && _); [|apply pres_ret; exact H2].
          destruct (is_proposal_complete n2) as [[|]| |]; try discriminate;
            [apply (pres_frame _ _ (fsat_enter_prevote hh (round n2))); exact H2|apply pres_ret; exact H2].
      - destruct (N.eqb (v_type v) 2); [|discriminate]. cbn zeta.
        destruct (maj23 _) as [b|].
        + destruct (b_hash b); [apply pres_enter_new_round_open; exact H1|].
          intro E. apply bind_ok in E as (n4 & o4 & o5 & E4 & E5 & _).
          apply bind_ok in E4 as (n3 & o3 & o6 & E3 & E6 & _).
          apply bind_ok in E3 as (n2 & o2' & o7 & E2' & E7 & _).
          assert (H2 : node_ok (v :: off) n2) by (eapply pres_enter_new_round; eauto).
          assert (H3 : node_ok (v :: off) n3) by (eapply pres_enter_precommit; eauto).
          assert (H4 : node_ok (v :: off) n4) by (eapply pres_enter_commit; eauto).
          revert E5. destruct (_ && _); [apply pres_enter_new_round; exact H4|apply pres_ret; exact H4].
        + destruct (_ && _); [|apply pres_ret; exact H1].
          intro E. apply bind_ok in E as (n3 & o3 & o4 & E3 & E4 & _).
          apply bind_ok in E3 as (n2 & o2' & o5 & E2' & E5 & _).
          assert (H2 : node_ok (v :: off) n2) by (eapply pres_enter_new_round; eauto).
          assert (H3 : node_ok (v :: off) n3) by (eapply pres_enter_precommit; eauto).
          eapply (pres_frame _ _ (fsat_enter_precommit_wait hh (v_round v))); eauto. }
    destruct (N.eqb code 0); injection E2 as <- _; exact H5.
Qed.

Lemma pres_handle_timeout off h r s : pres off (handle_timeout h r s).
Proof.
  intros n n' o H. unfold handle_timeout. destruct (_ || _); [apply pres_ret; exact H|].
  destruct (s =? 1); [apply pres_enter_new_round; exact H|].
  destruct (s =? 3); [apply (pres_frame _ _ (fsat_enter_prevote h r)); exact H|].
  destruct (s =? 5); [apply pres_enter_precommit; exact H|].
  destruct (s =? 7); [apply pres_enter_new_round; exact H|discriminate].
Qed.

(* the votes delivered by a list of inputs *)
Definition delivered_of (i : input) : list vote := match i with IVote v _ => [v] | _ => [] end.
Definition delivered (ins : list input) : list vote := flat_map delivered_of ins.

Theorem handle_ok off c i n n' o : node_ok off n -> handle c i n = Ok (n', o) -> node_ok (delivered_of i ++ off) n'.
Proof.
  intros H. destruct i as [p sgn peer|h r idx b ok peer|v peer|h r s]; cbn [handle delivered_of app].
  - apply (pres_frame _ _ (fsat_set_proposal p sgn)). exact H.
  - apply pres_add_part. exact H.
  - apply pres_add_vote_cs. exact H.
  - apply pres_handle_timeout. exact H.
Qed.

Theorem run_ok c ins : forall off n n', node_ok off n -> run c ins n = Ok n' -> node_ok (delivered ins ++ off) n'.
Proof.
  induction ins as [|i t IH]; intros off n n' H; cbn [run].
  - intro E. injection E as <-. exact H.
  - destruct (handle c i n) as [[n1 o1]| |] eqn:E1; try discriminate. intro E.
    pose proof (handle_ok off c i n n1 o1 H E1) as H1.
    pose proof (IH _ _ _ H1 E) as H2.
    eapply node_ok_mono; [|exact H2]. unfold delivered. cbn [flat_map].
    intros x Hx. apply in_app_or in Hx. destruct Hx as [Hx|Hx].
    + apply in_or_app. left. apply in_or_app. right. exact Hx.
    + apply in_app_or in Hx. destruct Hx as [Hx|Hx]; apply in_or_app; [left; apply in_or_app; left; exact Hx|right; exact Hx].
Qed.

Lemma init_ok vs lc me s n0 : vals_of vs = VS -> init_node h0 vs lc me s = Ok n0 -> node_ok [] n0.
Proof.
  intros Hv. unfold init_node. rewrite Hv. destruct (new_hvs h0 VS) as [hv| |] eqn:E; try discriminate.
  intro E0. injection E0 as <-. destruct (new_hvs_ok VS h0 hv E) as [A B].
  split; cbn [height votes]; [lia|auto].
Qed.

End NodeBacked.
