(* Injectivity of the sign-bytes: the canonical JSON of a vote or proposal determines the chain
   id (ASCII) and every field.  Method: each variable field is self-delimiting given the
   character that follows it (a digit string followed by a non-digit, a hex string or an escaped
   string followed by an unescaped quote), so equal byte strings can be taken apart field by field. *)
From Coq Require Import List NArith ZArith Lia Bool String Ascii Decimal DecimalZ.
From AnnVerif Require Import Base.Bytes Model.SignBytes.
Import ListNotations.

Ltac lit_in H :=
  repeat match type of H with
  | context [str ?s] => let v := eval vm_compute in (str s) in change (str s) with v in H
  end.
Ltac lit_goal :=
  repeat match goal with
  | |- context [str ?s] => let v := eval vm_compute in (str s) in change (str s) with v
  end.

(* strip equal literal bytes from the front of both sides of an equation *)
Ltac strip E :=
  repeat match type of E with
  | (N.pos _ :: _ = N.pos _ :: _) => injection E as E
  | (N0 :: _ = N0 :: _) => injection E as E
  end.

(* ---------- decimal ---------- *)
Definition is_digit (x : N) : bool := (48 <=? x)%N && (x <=? 57)%N.

Lemma uint_bytes_digits u : Forall (fun x => is_digit x = true) (uint_bytes u).
Proof. induction u; cbn; constructor; auto. Qed.

Lemma uint_term u1 : forall u2 x1 r1 x2 r2, is_digit x1 = false -> is_digit x2 = false ->
  uint_bytes u1 ++ x1 :: r1 = uint_bytes u2 ++ x2 :: r2 -> u1 = u2 /\ x1 :: r1 = x2 :: r2.
Proof.
  induction u1; intros u2 x1 r1 x2 r2 H1 H2 E; destruct u2; cbn [uint_bytes List.app] in E.
  all: try (split; [reflexivity|exact E]).
  all: try (injection E as E0 E; first [discriminate E0 | (subst x1; cbn in H1; discriminate H1) | (subst x2; cbn in H2; discriminate H2)]).
  all: injection E as E; destruct (IHu1 _ _ _ _ _ H1 H2 E) as [-> ->]; auto.
Qed.

Definition term_ok (x : N) : Prop := is_digit x = false /\ x <> 45%N.

Lemma dec_term z1 z2 x1 r1 x2 r2 : term_ok x1 -> term_ok x2 ->
  dec z1 ++ x1 :: r1 = dec z2 ++ x2 :: r2 -> z1 = z2 /\ x1 :: r1 = x2 :: r2.
Proof.
  intros [D1 M1] [D2 M2]. unfold dec.
  destruct (Z.to_int z1) as [u1|u1] eqn:E1, (Z.to_int z2) as [u2|u2] eqn:E2; intro E.
  - destruct (uint_term _ _ _ _ _ _ D1 D2 E) as [-> Er]. split; [|exact Er]. apply to_int_inj. congruence.
  - exfalso. cbn [List.app] in E. destruct u1; cbn [uint_bytes List.app] in E; injection E as E0 _; try discriminate E0. congruence.
  - exfalso. cbn [List.app] in E. destruct u2; cbn [uint_bytes List.app] in E; injection E as E0 _; try discriminate E0. congruence.
  - cbn [List.app] in E. injection E as E. destruct (uint_term _ _ _ _ _ _ D1 D2 E) as [-> Er]. split; [|exact Er]. apply to_int_inj. congruence.
Qed.

(* ---------- hex ---------- *)
Definition wf_bytes (b : bytes) : Prop := Forall (fun x => (x < 256)%N) b.

Lemma hexdigit_not_quote n : (n < 16)%N -> hexdigit n <> 34%N.
Proof. intro H. unfold hexdigit. destruct (n <? 10)%N eqn:E; [apply N.ltb_lt in E|apply N.ltb_ge in E]; lia. Qed.

Lemma hexdigit_inj a b : (a < 16)%N -> (b < 16)%N -> hexdigit a = hexdigit b -> a = b.
Proof.
  intros Ha Hb. unfold hexdigit.
  destruct (a <? 10)%N eqn:E1, (b <? 10)%N eqn:E2; try apply N.ltb_lt in E1; try apply N.ltb_lt in E2;
    try apply N.ltb_ge in E1; try apply N.ltb_ge in E2; lia.
Qed.

Lemma hex_term b1 : forall b2 r1 r2, wf_bytes b1 -> wf_bytes b2 ->
  hex_upper b1 ++ 34%N :: r1 = hex_upper b2 ++ 34%N :: r2 -> b1 = b2 /\ r1 = r2.
Proof.
  induction b1 as [|x b1 IH]; intros [|y b2] r1 r2 W1 W2 E; cbn [hex_upper flat_map List.app] in E.
  - injection E as ->. auto.
  - exfalso. inversion W2 as [|? ? Hy _]; subst. injection E as E0 _.
    assert (y / 16 < 16)%N by (apply N.div_lt_upper_bound; lia). symmetry in E0. exact (hexdigit_not_quote _ H E0).
  - exfalso. inversion W1 as [|? ? Hx _]; subst. injection E as E0 _.
    assert (x / 16 < 16)%N by (apply N.div_lt_upper_bound; lia). exact (hexdigit_not_quote _ H E0).
  - inversion W1 as [|? ? Hx W1']; inversion W2 as [|? ? Hy W2']; subst.
    fold (hex_upper b1) in E. fold (hex_upper b2) in E. injection E as E1 E2 E.
    assert (x / 16 < 16)%N by (apply N.div_lt_upper_bound; lia).
    assert (y / 16 < 16)%N by (apply N.div_lt_upper_bound; lia).
    assert (x mod 16 < 16)%N by (apply N.mod_lt; lia). assert (y mod 16 < 16)%N by (apply N.mod_lt; lia).
    apply hexdigit_inj in E1; auto. apply hexdigit_inj in E2; auto.
    assert (x = y) by (rewrite (N.div_mod x 16), (N.div_mod y 16) by lia; congruence). subst y.
    destruct (IH b2 r1 r2 W1' W2' E) as [-> ->]. auto.
Qed.

Lemma jhex_term b1 b2 r1 r2 : wf_bytes b1 -> wf_bytes b2 ->
  jhex b1 ++ r1 = jhex b2 ++ r2 -> b1 = b2 /\ r1 = r2.
Proof.
  intros W1 W2. unfold jhex. intro E. cbn [List.app] in E. injection E as E. rewrite <- !app_assoc in E. cbn [List.app] in E.
  apply hex_term in E; auto.
Qed.

(* ---------- escaped strings (ASCII) ---------- *)
Fixpoint is_prefix (a b : bytes) : bool :=
  match a, b with
  | [], _ => true
  | x :: a', y :: b' => N.eqb x y && is_prefix a' b'
  | _ :: _, [] => false
  end.

Lemma not_prefix_neq a b r1 r2 : is_prefix a b = false -> is_prefix b a = false -> a ++ r1 <> b ++ r2.
Proof.
  revert b; induction a as [|x a IH]; intros [|y b] H1 H2 E; cbn in *; try discriminate.
  injection E as -> E. rewrite N.eqb_refl in H1, H2. cbn in H1, H2. exact (IH b H1 H2 E).
Qed.

Definition ascii_codes : list N := map N.of_nat (seq 0 128).

(* no escape token is a prefix of another one's, and none starts with an unescaped quote *)
Lemma esc1_prefix_free_check :
  forallb (fun x => forallb (fun y => N.eqb x y || (negb (is_prefix (esc1 x) (esc1 y)) && negb (is_prefix (esc1 y) (esc1 x)))) ascii_codes) ascii_codes = true.
Proof. vm_compute. reflexivity. Qed.
Lemma esc1_no_quote_check :
  forallb (fun x => match esc1 x with 34%N :: _ => false | [] => false | _ => true end) ascii_codes = true.
Proof. vm_compute. reflexivity. Qed.

Lemma in_ascii x : (x < 128)%N -> In x ascii_codes.
Proof.
  intro H. unfold ascii_codes. apply in_map_iff. exists (N.to_nat x). split; [apply N2Nat.id|]. apply in_seq. lia.
Qed.

Definition ascii_bytes (s : bytes) : Prop := Forall (fun x => (x < 128)%N) s.

Lemma esc1_inj x y r1 r2 : (x < 128)%N -> (y < 128)%N -> esc1 x ++ r1 = esc1 y ++ r2 -> x = y /\ r1 = r2.
Proof.
  intros Hx Hy E. pose proof esc1_prefix_free_check as C.
  rewrite forallb_forall in C. specialize (C x (in_ascii x Hx)). rewrite forallb_forall in C. specialize (C y (in_ascii y Hy)).
  destruct (N.eqb_spec x y) as [->|Hne].
  - split; [reflexivity|]. apply app_inv_head in E. exact E.
  - cbn [orb] in C. apply andb_true_iff in C as [C1 C2]. apply negb_true_iff in C1, C2.
    exfalso. exact (not_prefix_neq _ _ _ _ C1 C2 E).
Qed.

Lemma esc1_not_quote x r1 r2 : (x < 128)%N -> esc1 x ++ r1 <> 34%N :: r2.
Proof.
  intros Hx E. pose proof esc1_no_quote_check as C. rewrite forallb_forall in C. specialize (C x (in_ascii x Hx)).
  destruct (esc1 x) as [|c t]; [discriminate|]. cbn [List.app] in E. injection E as -> _. discriminate.
Qed.

Lemma esc_term s1 : forall s2 r1 r2, ascii_bytes s1 -> ascii_bytes s2 ->
  esc s1 ++ 34%N :: r1 = esc s2 ++ 34%N :: r2 -> s1 = s2 /\ r1 = r2.
Proof.
  induction s1 as [|x s1 IH]; intros [|y s2] r1 r2 A1 A2 E; cbn [esc flat_map List.app] in E.
  - injection E as ->. auto.
  - exfalso. inversion A2; subst. fold (esc s2) in E. rewrite <- app_assoc in E. symmetry in E. eapply esc1_not_quote; eauto.
  - exfalso. inversion A1; subst. fold (esc s1) in E. rewrite <- app_assoc in E. eapply esc1_not_quote; eauto.
  - inversion A1; inversion A2; subst. fold (esc s1) in E. fold (esc s2) in E. rewrite <- !app_assoc in E.
    apply esc1_inj in E as [-> E]; auto. destruct (IH s2 r1 r2) as [-> ->]; auto.
Qed.

Lemma jstring_term s1 s2 r1 r2 : ascii_bytes s1 -> ascii_bytes s2 ->
  jstring s1 ++ r1 = jstring s2 ++ r2 -> s1 = s2 /\ r1 = r2.
Proof.
  intros A1 A2. unfold jstring. intro E. cbn [List.app] in E. injection E as E. rewrite <- !app_assoc in E. cbn [List.app] in E.
  apply esc_term in E; auto.
Qed.

(* ---------- part-set header and block id ---------- *)
Local Opaque jhex jstring dec.
Lemma term_comma : term_ok 44%N. Proof. split; [reflexivity|discriminate]. Qed.
Lemma term_brace : term_ok 125%N. Proof. split; [reflexivity|discriminate]. Qed.

Lemma parts_term t1 p1 t2 p2 r1 r2 : wf_bytes p1 -> wf_bytes p2 ->
  parts_json t1 p1 ++ r1 = parts_json t2 p2 ++ r2 -> t1 = t2 /\ p1 = p2 /\ r1 = r2.
Proof.
  intros W1 W2. unfold parts_json. intro E. lit_in E. rewrite <- !app_assoc in E.
  apply app_inv_head in E. apply jhex_term in E as [-> E]; auto.
  apply app_inv_head in E.
  change ([125%N] ++ r1) with (125%N :: r1) in E. change ([125%N] ++ r2) with (125%N :: r2) in E.
  apply (dec_term _ _ _ _ _ _ term_brace term_brace) in E as [-> E]. injection E as ->. auto.
Qed.

Definition wf_bid (b : cbid) : Prop := wf_bytes (cb_hash b) /\ wf_bytes (cb_phash b).

(* two block ids are the same canonical id *)
Definition bid_same (a b : cbid) : Prop := cb_hash a = cb_hash b /\ cb_total a = cb_total b /\ cb_phash a = cb_phash b.

Lemma parts_empty_spec b : parts_empty b = true <-> cb_phash b = [] /\ cb_total b = 0%Z.
Proof.
  unfold parts_empty. destruct (cb_phash b); [rewrite Z.eqb_eq; tauto|]. split; [discriminate|intros [H _]; discriminate].
Qed.

Lemma bid_term b1 b2 r1 r2 : wf_bid b1 -> wf_bid b2 ->
  bid_json b1 ++ r1 = bid_json b2 ++ r2 -> bid_same b1 b2 /\ r1 = r2.
Proof.
  intros [W1 W1'] [W2 W2']. unfold bid_json, bid_same.
  destruct (cb_hash b1) as [|h1 t1] eqn:H1, (cb_hash b2) as [|h2 t2] eqn:H2;
    destruct (parts_empty b1) eqn:P1, (parts_empty b2) eqn:P2; intro E; lit_in E;
    rewrite <- ?app_assoc in E;
    try (apply parts_empty_spec in P1 as [Pa Pb]); try (apply parts_empty_spec in P2 as [Pc Pd]);
    try (cbn [List.app] in E; discriminate E).
  - apply app_inv_head in E. rewrite Pa, Pb, Pc, Pd. auto.
  - apply app_inv_head in E. apply parts_term in E as (-> & -> & E); auto. apply app_inv_head in E. auto.
  - rewrite <- H1, <- H2 in *. apply app_inv_head in E. apply jhex_term in E as [-> E]; auto.
    apply app_inv_head in E. rewrite Pa, Pb, Pc, Pd. auto.
  - exfalso. rewrite <- H1, <- H2 in *. apply app_inv_head in E. apply jhex_term in E as [Eh E]; auto.
    cbn [List.app] in E. discriminate E.
  - exfalso. rewrite <- H1, <- H2 in *. apply app_inv_head in E. apply jhex_term in E as [Eh E]; auto.
    cbn [List.app] in E. discriminate E.
  - rewrite <- H1, <- H2 in *. apply app_inv_head in E. apply jhex_term in E as [-> E]; auto.
    apply app_inv_head in E. apply parts_term in E as (-> & -> & E); auto. apply app_inv_head in E. auto.
Qed.

(* ---------- votes and proposals ---------- *)
Definition vote_same (a b : cvote) : Prop :=
  bid_same (cv_bid a) (cv_bid b) /\ cv_height a = cv_height b /\ cv_round a = cv_round b /\ cv_type a = cv_type b.

(* after a decimal field comes a literal that starts with ',' or '}' *)
Ltac dec_field E :=
  cbn [List.app] in E;
  first [ apply (dec_term _ _ _ _ _ _ term_comma term_comma) in E as [-> E]
        | apply (dec_term _ _ _ _ _ _ term_brace term_brace) in E as [-> E] ];
  try (injection E as E).

Theorem vote_injective c1 c2 v1 v2 :
  ascii_bytes c1 -> ascii_bytes c2 -> wf_bid (cv_bid v1) -> wf_bid (cv_bid v2) ->
  sign_bytes_vote c1 v1 = sign_bytes_vote c2 v2 -> c1 = c2 /\ vote_same v1 v2.
Proof.
  intros A1 A2 W1 W2. unfold sign_bytes_vote, vote_same. intro E. lit_in E. rewrite <- ?app_assoc in E.
  apply app_inv_head in E. apply jstring_term in E as [-> E]; auto.
  apply app_inv_head in E. apply bid_term in E as [Hb E]; auto.
  apply app_inv_head in E. dec_field E.
  strip E. dec_field E.
  strip E. dec_field E.
  auto.
Qed.

Definition proposal_same (a b : cproposal) : Prop :=
  cp_total a = cp_total b /\ cp_phash a = cp_phash b /\ cp_height a = cp_height b /\
  bid_same (cp_pol a) (cp_pol b) /\ cp_polround a = cp_polround b /\ cp_round a = cp_round b.

Theorem proposal_injective c1 c2 p1 p2 :
  ascii_bytes c1 -> ascii_bytes c2 -> wf_bytes (cp_phash p1) -> wf_bytes (cp_phash p2) ->
  wf_bid (cp_pol p1) -> wf_bid (cp_pol p2) ->
  sign_bytes_proposal c1 p1 = sign_bytes_proposal c2 p2 -> c1 = c2 /\ proposal_same p1 p2.
Proof.
  intros A1 A2 W1 W2 B1 B2. unfold sign_bytes_proposal, proposal_same. intro E. lit_in E. rewrite <- ?app_assoc in E.
  apply app_inv_head in E. apply jstring_term in E as [-> E]; auto.
  apply app_inv_head in E. apply parts_term in E as (-> & -> & E); auto.
  apply app_inv_head in E. dec_field E.
  strip E. apply bid_term in E as [Hb E]; auto.
  cbn [List.app] in E. strip E. dec_field E.
  strip E. dec_field E.
  auto 10.
Qed.

(* a vote and a proposal never share sign-bytes *)
Theorem vote_proposal_distinct c1 c2 v p :
  ascii_bytes c1 -> ascii_bytes c2 -> sign_bytes_vote c1 v <> sign_bytes_proposal c2 p.
Proof.
  intros A1 A2. unfold sign_bytes_vote, sign_bytes_proposal. intro E. lit_in E. rewrite <- ?app_assoc in E.
  apply app_inv_head in E. apply jstring_term in E as [-> E]; auto.
  cbn [List.app] in E. discriminate E.
Qed.
