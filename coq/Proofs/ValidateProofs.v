(* What an accepted block guarantees (C02): every header field ValidateBlock compares equals the
   state's or the hash of the part it commits to, the proposer is a validator, and - past the first
   height - the embedded last commit verifies against the previous validator set for the previous
   block id at the previous height.  Chains of accepted blocks are linear. *)
From Coq Require Import List NArith ZArith Lia Bool.
From AnnVerif Require Import Base.Res Base.Bytes Model.VoteSet Model.Validate Proofs.BytesProofs Proofs.PowerSum Proofs.VoteSetProofs.
Import ListNotations.
Open Scope Z_scope.

Record accepted (st : vstate) (b : block) (hd : header) (lc : commit) : Prop := mkAccepted {
  acc_header : bl_header b = Some hd;
  acc_data : exists dh, bl_data b = Some (hd_numtxs hd, dh) /\ hd_datahash hd = dh;
  acc_lc : exists lch, bl_lc b = Some (lc, lch) /\ hd_lchash hd = lch;
  acc_chain : hd_chain hd = s_chain st;
  acc_height : hd_height hd = s_height st + 1;
  acc_last : hd_last hd = s_last st;
  acc_app : hd_apphash hd = s_app st;
  acc_rcp : hd_rcphash hd = s_rcp st;
  acc_valhash : hd_valhash hd = s_valhash st;
  acc_proposer : exists v, In v (s_vals st) /\ fst v = hd_proposer hd;
  acc_first : hd_height hd = 1 -> c_pre lc = [];
  acc_commit : hd_height hd <> 1 -> verify_commit (s_lastvals st) (s_last st) (hd_height hd - 1) lc = Ok tt }.

Lemma negb_if_false (c : bool) (x y : N) : (if negb c then x else y) = 0%N -> x <> 0%N -> c = true /\ y = 0%N.
Proof. destruct c; cbn; auto. intros -> H. contradiction. Qed.

Theorem validate_sound st b : validate st b = 0%N -> exists hd lc, accepted st b hd lc.
Proof.
  unfold validate. destruct (bl_header b) as [hd|] eqn:Eh; [|discriminate].
  destruct (bl_data b) as [[ntx dh]|] eqn:Ed; [|discriminate]. destruct (bl_lc b) as [[lc lch]|] eqn:El; [|discriminate].
  intro H.
  apply negb_if_false in H as [H1 H]; [|discriminate]. apply negb_if_false in H as [H2 H]; [|discriminate].
  apply negb_if_false in H as [H3 H]; [|discriminate]. apply negb_if_false in H as [H4 H]; [|discriminate].
  apply negb_if_false in H as [H5 H]; [|discriminate]. apply negb_if_false in H as [H6 H]; [|discriminate].
  apply negb_if_false in H as [H7 H]; [|discriminate]. apply negb_if_false in H as [H8 H]; [|discriminate].
  cbn zeta in H.
  destruct (negb (N.eqb (if hd_height hd =? 1 then 0%N else commit_basic lc) 0)) eqn:Ecb.
  { exfalso. apply negb_true_iff in Ecb. apply N.eqb_neq in Ecb. contradiction. }
  apply negb_if_false in H as [H9 H]; [|discriminate]. apply negb_if_false in H as [H10 H]; [|discriminate].
  apply bytes_eqb_eq in H1, H5, H6, H7, H8, H9. apply bid_eqb_eq in H4. apply Z.eqb_eq in H2, H3.
  apply existsb_exists in H10 as (v & Hv & Hvp). apply bytes_eqb_eq in Hvp.
  exists hd, lc. constructor; try assumption.
  - exists dh. subst ntx. auto.
  - exists lch. auto.
  - exists v. auto.
  - intro E1. rewrite E1 in H. cbn in H. destruct (c_pre lc); [reflexivity|discriminate].
  - intro N1. destruct (Z.eqb_spec (hd_height hd) 1) as [E|_]; [contradiction|].
    apply negb_if_false in H as [_ H]; [|discriminate].
    destruct (verify_commit _ _ _ _) as [[]|e|w]; [reflexivity|exfalso; unfold vcode in H; lia..].
Qed.

(* with the soundness of VerifyCommit (C15): more than two thirds of the previous validator set's
   power signed precommits for exactly the previous block id, at the previous height, in one round *)
Theorem accepted_commit_quorum st b hd lc : bounded (s_lastvals st) -> accepted st b hd lc -> hd_height hd <> 1 ->
  length (c_pre lc) = length (s_lastvals st) /\
  two_thirds (s_lastvals st) <
    pow_of (s_lastvals st) (fun i => match nth i (c_pre lc) None with
                                     | Some v => good_full (s_last st) (hd_height hd - 1) (commit_round lc) v
                                     | None => false end).
Proof. intros Hb A N1. apply verify_commit_sound; [exact Hb|]. apply (acc_commit _ _ _ _ A N1). Qed.

(* chains of accepted blocks are linear: heights step by one, every block names the id, the
   application hash and the receipts hash the previous one produced *)
Fixpoint linked (h : Z) (last : block_id) (app rcp : bytes) (l : list applied) : Prop :=
  match l with
  | [] => True
  | a :: t => exists hd, bl_header (ap_block a) = Some hd /\ hd_height hd = h + 1 /\ hd_last hd = last /\
                         hd_apphash hd = app /\ hd_rcphash hd = rcp /\ linked (h + 1) (ap_id a) (ap_app a) (ap_rcp a) t
  end.

Theorem chain_linear l : forall st st', run_chain st l = Some st' ->
  linked (s_height st) (s_last st) (s_app st) (s_rcp st) l /\ s_height st' = s_height st + Z.of_nat (length l).
Proof.
  induction l as [|a t IH]; intros st st'; cbn [run_chain linked length].
  - intro E. injection E as <-. split; [exact I|lia].
  - destruct (N.eqb (validate st (ap_block a)) 0) eqn:Ev; [|discriminate]. apply N.eqb_eq in Ev.
    destruct (validate_sound _ _ Ev) as (hd & lc & A). rewrite (acc_header _ _ _ _ A). intro E.
    destruct (IH _ _ E) as [L Hh]. cbn [advance s_height s_last s_app s_rcp] in L, Hh.
    split.
    + exists hd. rewrite (acc_height _ _ _ _ A) in L. repeat split; try apply A. exact L.
    + rewrite Hh, (acc_height _ _ _ _ A). lia.
Qed.
