(* What an honest node's votes mean, in terms of the votes delivered to it.  For every vote a node
   emits while it handles an input at the height under study:
   - a precommit for a block: valid prevotes for that block, at that round, from validators with
     more than two thirds of the power were delivered to the node before;
   - a prevote for something else than a block the node precommitted in an earlier round: valid
     prevotes for something else than that block from more than two thirds, at a round in between,
     were delivered to the node before.
   These are the local forms of the rules R2 and R3 of Proofs/Protocol.v, stated on delivered
   votes (which only grow) rather than on the node's state. *)
From Coq Require Import List NArith ZArith Lia Bool.
From AnnVerif Require Import Base.Res Base.Bytes Model.VoteSet Model.ValSet Model.Node
  Proofs.BytesProofs Proofs.PowerSum Proofs.VoteSetProofs Proofs.NodeProofs Proofs.Backed Proofs.NodeBacked.
Import ListNotations.
Open Scope Z_scope.

Section Emit.
Variable VS : list validator.
Hypothesis Hbounded : bounded VS.
Variable h0 : Z.

Definition Qr (P : nat -> bool) : Prop := two_thirds VS < pow_of VS P.

(* own non-nil precommits of this height: the lock they took is still held, or was released by a
   later polka for something else *)
Definition Kinv (pcs : list (Z * block_id)) (n : node) : Prop :=
  forall r0 b, In (r0, b) pcs ->
    b_hash b <> [] /\ r0 <= round n /\
    ((exists B, lblock n = Some B /\ bk_hash B = b_hash b /\ r0 <= lround n) \/
     (exists r x, r0 < r <= round n /\ polka_at (votes n) r x /\ b_hash x <> b_hash b)).

Definition J (off : list vote) (pcs : list (Z * block_id)) (n : node) : Prop :=
  node_ok VS h0 off n /\ inv n /\ (height n = h0 -> Kinv pcs n).

Lemma J_mono off off' pcs n : incl off off' -> J off pcs n -> J off' pcs n.
Proof. intros Hi (A & B & C). split; [eapply node_ok_mono; eauto|auto]. Qed.

Lemma hashes_to_false_neq B x b : bk_hash B = b_hash b -> b_hash b <> [] -> hashes_to (Some B) (b_hash x) = false -> b_hash x <> b_hash b.
Proof.
  intros E Hb Hf Heq. unfold hashes_to in Hf. rewrite Heq in Hf. destruct (b_hash b) eqn:Eb; [contradiction|].
  rewrite E, bytes_eqb_refl in Hf. discriminate.
Qed.

Lemma Kinv_G pcs n n' : G n n' -> inv n -> height n' = height n -> Kinv pcs n -> Kinv pcs n'.
Proof.
  intros HG Hi Hh HK r0 b Hin. destruct (HG Hi) as (_ & _ & S). destruct (S Hh) as ((Hp & _) & HL & Hr).
  destruct (HK r0 b Hin) as (Hb & Hr0 & [ (B & El & Eh & Hlr) | (r & x & Hrr & Hpk & Hx) ]).
  - split; [exact Hb|]. split; [lia|]. unfold L in HL. rewrite El in HL.
    destruct HL as [(B' & El' & Eh' & Hlr')|(r & x & A1 & A2 & A3 & A4)].
    + left. exists B'. repeat split; [exact El'|congruence|lia].
    + right. exists r, x. split; [lia|]. split; [exact A3|]. eapply hashes_to_false_neq; eauto.
  - split; [exact Hb|]. split; [lia|]. right. exists r, x. split; [lia|]. split; [apply Hp; exact Hpk|exact Hx].
Qed.

(* ---------- what is emitted ---------- *)
Definition pc_of (x : out) : list (Z * block_id) :=
  match x with
  | OVote 2%N r b => match b_hash b with [] => [] | _ => [(r, b)] end
  | _ => []
  end.

Definition good (off : list vote) (pcs : list (Z * block_id)) (x : out) : Prop :=
  match x with
  | OVote 2%N r b => b_hash b <> [] -> Qr (voted_for VS h0 r 1%N off b)
  | OVote 1%N r y =>
    forall r0 b, In (r0, b) pcs -> r0 < r -> b_hash y <> b_hash b ->
      exists r' x', r0 < r' <= r /\ b_hash x' <> b_hash b /\ Qr (voted_for VS h0 r' 1%N off x')
  | _ => True
  end.

Fixpoint goods (off : list vote) (pcs : list (Z * block_id)) (o : list out) : Prop :=
  match o with
  | [] => True
  | x :: t => good off pcs x /\ goods off (pc_of x ++ pcs) t
  end.
Fixpoint pcs_after (o : list out) (pcs : list (Z * block_id)) : list (Z * block_id) :=
  match o with [] => pcs | x :: t => pcs_after t (pc_of x ++ pcs) end.

Lemma goods_app off pcs a b : goods off pcs a -> goods off (pcs_after a pcs) b -> goods off pcs (a ++ b).
Proof. revert pcs. induction a as [|x a IH]; intros pcs Ha Hb; cbn in *; [exact Hb|]. destruct Ha as [H1 H2]. split; [exact H1|apply IH; assumption]. Qed.
Lemma pcs_after_app a b pcs : pcs_after (a ++ b) pcs = pcs_after b (pcs_after a pcs).
Proof. revert pcs. induction a as [|x a IH]; intro pcs; cbn; [reflexivity|apply IH]. Qed.

Definition is_vote_out (x : out) : bool := match x with OVote _ _ _ => true | _ => false end.
Lemma goods_quiet off pcs o : (forall x, In x o -> is_vote_out x = false) -> goods off pcs o /\ pcs_after o pcs = pcs.
Proof.
  revert pcs. induction o as [|x t IH]; intros pcs H; cbn; [auto|].
  assert (Hx : is_vote_out x = false) by (apply H; left; reflexivity).
  assert (Hp : pc_of x = []) by (destruct x; try reflexivity; discriminate).
  rewrite Hp. cbn [app]. destruct (IH pcs (fun y Hy => H y (or_intror Hy))) as [A B].
  split; [split; [destruct x; try exact I; discriminate|exact A]|exact B].
Qed.

(* ---------- the triple ---------- *)
Definition T (f : node -> M) : Prop :=
  forall off pcs n n' o, J off pcs n -> height n = h0 -> f n = Ok (n', o) ->
    J off (pcs_after o pcs) n' /\ goods off pcs o.

Definition quiet (f : node -> M) : Prop := forall n n' o x, f n = Ok (n', o) -> In x o -> is_vote_out x = false.
Definition keeps_height (f : node -> M) : Prop := forall n n' o, f n = Ok (n', o) -> height n' = height n.

(* inv and the lock discipline through any function of the machine, the backing through [pres] *)
Lemma J_step off pcs f n n' o : sat f -> pres VS h0 off f -> J off pcs n -> f n = Ok (n', o) -> J off pcs n'.
Proof.
  intros Hs Hp (A & B & C) E. pose proof (Hs n n' o E B) as (B' & Hh & S).
  split; [eapply Hp; eauto|]. split; [exact B'|]. intro E0.
  assert (En : height n = h0) by (destruct A as [L _]; lia).
  apply (Kinv_G pcs n n'); [eapply Hs; eauto|exact B|congruence|auto].
Qed.

Lemma T_quiet f : sat f -> (forall off, pres VS h0 off f) -> quiet f -> T f.
Proof.
  intros Hs Hp Hq off pcs n n' o HJ Hh E.
  destruct (goods_quiet off pcs o (fun x Hx => Hq n n' o x E Hx)) as [A B]. rewrite B.
  split; [eapply J_step; eauto|exact A].
Qed.

Lemma T_ret : T ret. Proof. intros off pcs n n' o HJ Hh E. injection E as <- <-. cbn. auto. Qed.
Lemma T_emit x : is_vote_out x = false -> T (emit x).
Proof. intros Hx off pcs n n' o HJ Hh E. injection E as <- <-. cbn. destruct x; try discriminate; cbn; auto. Qed.

Lemma T_bind f g : T f -> keeps_height f -> T g -> T (fun n => f n >>= g).
Proof.
  intros Hf Hk Hg off pcs n n' o HJ Hh E. apply bind_ok in E as (n1 & o1 & o2 & E1 & E2 & ->).
  destruct (Hf off pcs n n1 o1 HJ Hh E1) as [J1 G1].
  destruct (Hg off (pcs_after o1 pcs) n1 n' o2 J1 ltac:(rewrite (Hk _ _ _ E1); exact Hh) E2) as [J2 G2].
  rewrite pcs_after_app. split; [exact J2|apply goods_app; assumption].
Qed.

Lemma J_of_G off pcs n m : J off pcs n -> G n m -> node_ok VS h0 off m -> J off pcs m.
Proof.
  intros (A & B & C) HG Hm. destruct (HG B) as (B' & Hh & S). split; [exact Hm|]. split; [exact B'|].
  intro E0. assert (En : height n = h0) by (destruct A as [L _]; lia).
  apply (Kinv_G pcs n m HG B); [congruence|auto].
Qed.

(* a continuation that only reports: [ret] or [emit (OErr _)] *)
Definition tail_only (g : node -> M) : Prop :=
  forall n, g n = Ok (n, []) \/ exists x, g n = Ok (n, [x]) /\ is_vote_out x = false.
Lemma T_tail (f : node -> M) g :
  (forall off pcs n n' o, J off pcs n -> height n = h0 -> f n = Ok (n', o) -> J off (pcs_after o pcs) n' /\ goods off pcs o) ->
  tail_only g ->
  forall off pcs n n' o, J off pcs n -> height n = h0 -> (f n >>= g) = Ok (n', o) -> J off (pcs_after o pcs) n' /\ goods off pcs o.
Proof.
  intros Hf Hg off pcs n n' o HJ Hh E. apply bind_ok in E as (n1 & o1 & o2 & E1 & E2 & ->).
  destruct (Hf off pcs n n1 o1 HJ Hh E1) as [J1 G1].
  destruct (Hg n1) as [Eg|(x & Eg & Hx)]; rewrite Eg in E2; injection E2 as <- <-.
  - rewrite app_nil_r. auto.
  - assert (Hp : pc_of x = []) by (destruct x; try reflexivity; discriminate).
    rewrite pcs_after_app. cbn [pcs_after]. rewrite Hp. cbn [app]. split; [exact J1|].
    apply goods_app; [exact G1|]. cbn [goods]. split; [destruct x; try exact I; discriminate|exact I].
Qed.

Lemma sign_add_vote_shape t b n n' o : sign_add_vote t b n = Ok (n', o) -> o = [] \/ o = [OVote t (round n) b].
Proof.
  unfold sign_add_vote. destruct (negb _); [intro E; injection E as _ <-; left; reflexivity|].
  destruct (sign_check _ _ _ _ _); intro E; injection E as _ <-; auto.
Qed.

(* ---------- prevotes ---------- *)
Lemma T_do_prevote : T do_prevote.
Proof.
  intros off pcs n n' o HJ Hh E.
  assert (Hshape : o = [] \/ exists y, o = [OVote 1 (round n) y]).
  { revert E. unfold do_prevote.
    assert (S : forall b m, round m = round n -> sign_add_vote 1 b m = Ok (n', o) -> o = [] \/ exists y, o = [OVote 1 (round n) y]).
    { intros b m Hr Es. destruct (sign_add_vote_shape _ _ _ _ _ Es) as [->| ->]; [left; reflexivity|right; rewrite Hr; eauto]. }
    destruct (lblock n); [apply S; reflexivity|]. destruct (pblock n) as [pb|]; [|apply S; reflexivity].
    destruct (bk_valid pb); apply S; reflexivity. }
  assert (HJ' : J off pcs n').
  { eapply J_step; [apply fsat_sat; exact fsat_do_prevote|apply pres_frame; exact fsat_do_prevote|exact HJ|exact E]. }
  destruct Hshape as [->|(y & ->)]; cbn [pcs_after goods pc_of app]; [auto|].
  split; [exact HJ'|]. split; [|exact I].
  destruct (prevote_rule n n' _ (OVote 1 (round n) y) E (or_introl eq_refl)) as (y' & Ey & Hy). injection Ey as <-.
  cbn [good]. intros r0 b Hin Hlt Hne. destruct HJ as ((_ & Hok) & Hi & HK). destruct (Hok Hh) as [Hhv Hhh].
  destruct (HK Hh r0 b Hin) as (Hb & _ & [ (B & El & Eh & _) | (r & x' & Hrr & Hpk & Hx') ]).
  - exfalso. rewrite El in Hy. subst y. apply Hne. cbn. exact Eh.
  - exists r, x'. split; [exact Hrr|]. split; [exact Hx'|].
    pose proof (polka_backed VS Hbounded off (votes n) r x' Hhv Hpk) as Hq'. rewrite Hhh in Hq'. exact Hq'.
Qed.

Lemma kh_frame f : fsat f -> keeps_height f.
Proof. intros Hf n n' o E. apply (Hf n n' o E). Qed.

Lemma J_frame off pcs n m : J off pcs n -> frame n m -> J off pcs m.
Proof.
  intros HJ F. apply (J_of_G off pcs n m HJ (frame_G n m F)).
  destruct F as (Hh & Hv & _). destruct HJ as (A & _). now apply (node_ok_same VS h0 off n m).
Qed.

Lemma do_prevote_round' : keeps_round do_prevote.
Proof.
  intros n n' o. unfold do_prevote.
  destruct (lblock n); [apply sign_add_vote_round|]. destruct (pblock n) as [pb|]; [|apply sign_add_vote_round].
  destruct (bk_valid pb); apply sign_add_vote_round.
Qed.

Lemma T_enter_prevote h r : T (enter_prevote h r).
Proof.
  intros off pcs n n' o HJ Hh. unfold enter_prevote. destruct (_ || _) eqn:Eg; [apply T_ret; assumption|].
  apply guard_round in Eg as [Hr _].
  intro E. apply bind_ok in E as (n1 & o1 & o2 & E1 & E2 & ->). injection E2 as <- <-. rewrite app_nil_r.
  destruct (T_do_prevote off pcs n n1 o1 HJ Hh E1) as [J1 G1]. split; [|exact G1].
  apply (J_frame _ _ n1); [exact J1|]. apply frame_set_step.
  rewrite (do_prevote_round' n n1 o1 E1). exact Hr.
Qed.

Lemma quiet_decide_proposal : quiet decide_proposal.
Proof.
  intros n n' o x. unfold decide_proposal. destruct (negb _); [intro E; injection E as _ <-; intros []|].
  destruct (pol_info _) as [[polr ?]| |]; try discriminate.
  destruct (sign_check _ _ _ _ _); intro E; injection E as _ <-; cbn; intuition (subst; reflexivity).
Qed.

Lemma T_decide_proposal : T decide_proposal.
Proof. apply T_quiet; [apply fsat_sat; exact fsat_decide_proposal|intro; apply pres_frame; exact fsat_decide_proposal|exact quiet_decide_proposal]. Qed.

Lemma T_enter_propose h r : T (enter_propose h r).
Proof.
  intros off pcs n n' o HJ Hh. unfold enter_propose. destruct (_ || _) eqn:Eg; [apply T_ret; assumption|].
  apply guard_round in Eg as [Hr _].
  intro E. apply bind_ok in E as (n3 & o1 & o2 & E1 & E2 & ->).
  (* first part: the timeout, then maybe our proposal *)
  assert (P1 : J off (pcs_after o1 pcs) n3 /\ goods off pcs o1 /\ height n3 = h0 /\ round n3 = round n).
  { apply bind_ok in E1 as (n1 & oa & ob & Ea & Eb & ->). injection Ea as <- <-.
    destruct (priv n) as [me|].
    2:{ injection Eb as <- <-. cbn. auto. }
    destruct (proposer (vals n)) as [[[a|] vs']| |]; try discriminate.
    assert (J2 : J off pcs (set_vals n vs')) by (apply (J_frame _ _ n); [exact HJ|apply frame_set_vals]).
    destruct (bytes_eqb a me).
    - destruct (T_decide_proposal off pcs _ _ _ J2 Hh Eb) as [Ja Ga].
      cbn [app pcs_after goods pc_of good]. split; [exact Ja|]. split; [split; [exact I|exact Ga]|].
      split; [rewrite (kh_frame _ fsat_decide_proposal _ _ _ Eb); exact Hh|rewrite (decide_proposal_round _ _ _ Eb); reflexivity].
    - injection Eb as <- <-. cbn. auto. }
  destruct P1 as (J3 & G3 & H3 & R3). rewrite pcs_after_app.
  assert (J4 : J off (pcs_after o1 pcs) (set_step n3 r 3)) by (apply (J_frame _ _ n3); [exact J3|apply frame_set_step; lia]).
  revert E2. cbn zeta. destruct (is_proposal_complete (set_step n3 r 3)) as [[|]| |]; try discriminate; intro E2.
  - destruct (T_enter_prevote h (round (set_step n3 r 3)) off _ _ _ _ J4 H3 E2) as [J5 G5].
    split; [exact J5|apply goods_app; assumption].
  - injection E2 as <- <-. cbn. split; [exact J4|]. apply goods_app; [exact G3|exact I].
Qed.

Lemma kh_enter_propose h r : keeps_height (enter_propose h r). Proof. apply kh_frame, fsat_enter_propose. Qed.

Lemma T_enter_new_round h r : T (enter_new_round h r).
Proof.
  intros off pcs n n' o HJ Hh. unfold enter_new_round. destruct (_ || _) eqn:Eg; [apply T_ret; assumption|].
  apply guard_round in Eg as [Hr _].
  destruct (if round n <? r then increment (vals n) (r - round n) else Ok (vals n)) as [vs| |]; try discriminate.
  cbn zeta.
  set (n1 := set_vals (set_step n r 2) vs).
  set (n2 := if r =? 0 then n1 else set_prop n1 None None None).
  destruct (hv_set_round (votes n2) (r + 1)) as [hv| |] eqn:Es; try discriminate.
  assert (F2 : frame n n2) by (unfold n2, n1; destruct (r =? 0); repeat split; cbn; lia).
  assert (J2 : J off pcs n2) by (apply (J_frame _ _ n); assumption).
  assert (J3 : J off pcs (set_votes n2 hv)).
  { apply (J_of_G _ _ n2); [exact J2|apply votes_G; apply (hv_set_round_le _ _ _ Es)|].
    destruct J2 as ((L & Hok) & _). split; [cbn [height set_votes]; exact L|].
    cbn [height votes set_votes]. intro E. destruct (Hok E) as [A B].
    destruct (hv_set_round_ok VS off _ _ _ A Es) as [A' B']. split; [exact A'|congruence]. }
  apply T_enter_propose; [exact J3|]. cbn [height set_votes]. destruct F2 as (Hh2 & _). congruence.
Qed.
Lemma T_enter_new_round_open h r : T (enter_new_round_open h r).
Proof.
  intros off pcs n n' o HJ Hh. unfold enter_new_round_open.
  destruct (step n <? 8); [apply T_enter_new_round; assumption|apply T_ret; assumption].
Qed.

Lemma kh_enter_new_round h r : keeps_height (enter_new_round h r).
Proof.
  intros n n' o. unfold enter_new_round. destruct (_ || _); [intro E; injection E as <- _; reflexivity|].
  destruct (if round n <? r then _ else _) as [vs| |]; try discriminate. cbn zeta.
  destruct (hv_set_round _ _) as [hv| |]; try discriminate. intro E.
  rewrite (kh_enter_propose h r _ _ _ E). destruct (r =? 0); reflexivity.
Qed.

(* after enter_new_round h r at height h the node is at round r or beyond *)
Lemma enter_new_round_reaches h r n n' o : height n = h -> enter_new_round h r n = Ok (n', o) -> r <= round n'.
Proof.
  intros Hh. unfold enter_new_round. destruct (_ || _) eqn:Eg.
  - intro E. injection E as <- _. apply orb_prop in Eg as [Eg|Eg].
    + apply orb_prop in Eg as [Eg|Eg]; [apply negb_true_iff, Z.eqb_neq in Eg; contradiction|lia].
    + apply andb_prop in Eg as [Eg _]. lia.
  - destruct (if round n <? r then _ else _) as [vs| |]; try discriminate. cbn zeta.
    destruct (hv_set_round _ _) as [hv| |]; try discriminate. intro E.
    pose proof (fsat_enter_propose h r _ _ _ E) as (_ & _ & _ & _ & Hrd). cbn [round set_votes] in Hrd.
    destruct (r =? 0); cbn in Hrd; lia.
Qed.

(* the precommit: when the node is at the round it is asked to precommit in *)
Lemma T_enter_precommit h r :
  forall off pcs n n' o, J off pcs n -> height n = h0 -> r <= round n -> enter_precommit h r n = Ok (n', o) ->
    J off (pcs_after o pcs) n' /\ goods off pcs o.
Proof.
  intros off pcs n n' o HJ Hh Hle E.
  assert (HJ' : J off pcs n').
  { apply (J_of_G _ _ n); [exact HJ|eapply sat_enter_precommit; exact E|eapply pres_enter_precommit; [apply HJ|exact E]]. }
  (* the shape of the output *)
  assert (Hshape : o = [] \/ exists b, o = [OVote 2 (round n) b]).
  { revert E. unfold enter_precommit. destruct (_ || _); [intro E; injection E as _ <-; left; reflexivity|].
    intro E. apply bind_ok in E as (n1 & o1 & o2 & E1 & E2 & ->). injection E2 as _ <-. rewrite app_nil_r. revert E1.
    assert (S : forall b m, round m = round n -> sign_add_vote 2 b m = Ok (n1, o1) -> o1 = [] \/ exists b, o1 = [OVote 2 (round n) b]).
    { intros b m Hr Es. destruct (sign_add_vote_shape _ _ _ _ _ Es) as [->| ->]; [left; reflexivity|right; rewrite Hr; eauto]. }
    destruct (maj23 _) as [b|]; [|apply S; reflexivity].
    destruct (pol_info _) as [[polr ?]| |]; try discriminate. destruct (polr <? r); [discriminate|].
    destruct (b_hash b).
    - destruct (lblock n); apply S; reflexivity.
    - destruct (hashes_to (lblock n) _); [apply S; reflexivity|]. destruct (hashes_to (pblock n) _).
      + destruct (pblock n) as [pb|]; [|discriminate]. destruct (negb _); [discriminate|]. cbn zeta. apply S; reflexivity.
      + cbn zeta. destruct (has_header _ _ _); [apply S; reflexivity|].
        destruct (new_pset _ _) as [ps| |]; try discriminate. apply S; reflexivity. }
  destruct Hshape as [->|(b & ->)]; [cbn; auto|].
  destruct (precommit_rule h r n n' _ 2%N (round n) b E (or_introl eq_refl)) as (_ & _ & Hrule).
  (* the guard passed (something was emitted), so the node is exactly at round r *)
  assert (Hr : round n = r).
  { revert E. unfold enter_precommit. destruct (_ || _) eqn:Eg; [intro E; injection E as _ E; discriminate|].
    apply guard_round in Eg as [Hr _]. intros _. lia. }
  cbn [pcs_after goods good pc_of]. destruct (b_hash b) as [|x xs] eqn:Eb.
  - cbn [app]. split; [exact HJ'|]. split; [intro H; exfalso; apply H; reflexivity|exact I].
  - cbn [app]. assert (Hne : b_hash b <> []) by (rewrite Eb; discriminate).
    destruct (Hrule ltac:(discriminate)) as (Hpk & B & El & Ebh & Elr).
    destruct HJ as ((_ & Hok) & Hi & HK). destruct (Hok Hh) as [Hhv Hhh].
    split.
    + destruct HJ' as (A' & B' & C'). split; [exact A'|]. split; [exact B'|].
      intro E0. intros r0 b0 [Heq|Hin]; [|apply (C' E0 r0 b0 Hin)].
      injection Heq as <- <-. split; [exact Hne|].
      assert (Hrr : lround n' <= round n') by (unfold inv in B'; rewrite El in B'; destruct B' as (_ & H2 & _); exact H2).
      split; [lia|]. left. exists B. repeat split; [exact El|rewrite Ebh, Eb; reflexivity|lia].
    + split; [|exact I]. intros _. rewrite Hr.
      pose proof (polka_backed VS Hbounded off (votes n) r b Hhv Hpk) as Hq. rewrite Hhh in Hq. exact Hq.
Qed.

Lemma kh_enter_precommit h r : keeps_height (enter_precommit h r).
Proof.
  intros n n' o. unfold enter_precommit. destruct (_ || _); [intro E; injection E as <- _; reflexivity|].
  intro E. apply bind_ok in E as (n1 & o1 & o2 & E1 & E2 & _). injection E2 as <- _. cbn [height set_step]. revert E1.
  assert (S : forall b m, height m = height n -> sign_add_vote 2 b m = Ok (n1, o1) -> height n1 = height n).
  { intros b m Hm Es. rewrite (kh_frame _ (fsat_sign_add_vote 2 b) _ _ _ Es). exact Hm. }
  destruct (maj23 _) as [b|]; [|apply S; reflexivity].
  destruct (pol_info _) as [[polr ?]| |]; try discriminate. destruct (polr <? r); [discriminate|].
  destruct (b_hash b).
  - destruct (lblock n); apply S; reflexivity.
  - destruct (hashes_to (lblock n) _); [apply S; reflexivity|]. destruct (hashes_to (pblock n) _).
    + destruct (pblock n) as [pb|]; [|discriminate]. destruct (negb _); [discriminate|]. cbn zeta. apply S; reflexivity.
    + cbn zeta. destruct (has_header _ _ _); [apply S; reflexivity|].
      destruct (new_pset _ _) as [ps| |]; try discriminate. apply S; reflexivity.
Qed.

(* ---------- committing emits no votes ---------- *)
Lemma quiet_finalize_commit c h : quiet (finalize_commit c h).
Proof.
  intros n n' o x. unfold finalize_commit. destruct (_ || _); [intro E; injection E as _ <-; intros []|].
  destruct (maj23 _) as [b|]; [|discriminate]. destruct (negb _); [discriminate|]. destruct (negb _); [discriminate|].
  destruct (pblock n) as [pb|]; [|discriminate]. destruct (negb _); [discriminate|].
  destruct (increment _ _) as [nv| |]; try discriminate. destruct (new_hvs _ _) as [hv| |]; try discriminate.
  intro E. injection E as _ <-. cbn. intuition (subst; reflexivity).
Qed.
Lemma quiet_try_finalize_commit c h : quiet (try_finalize_commit c h).
Proof.
  intros n n' o x. unfold try_finalize_commit. destruct (negb _); [discriminate|].
  destruct (maj23 _) as [b|]; [|intro E; injection E as _ <-; intros []]. destruct (b_hash b); [intro E; injection E as _ <-; intros []|].
  destruct (hashes_to _ _); [apply quiet_finalize_commit|intro E; injection E as _ <-; intros []].
Qed.
Lemma quiet_enter_commit c h cr : quiet (enter_commit c h cr).
Proof.
  intros n n' o x. unfold enter_commit. destruct (_ || _); [intro E; injection E as _ <-; intros []|].
  destruct (maj23 _) as [b|]; [|discriminate]. cbn zeta.
  destruct (hashes_to (pblock _) _); [apply quiet_try_finalize_commit|].
  destruct (has_header _ _ _); [apply quiet_try_finalize_commit|].
  destruct (new_pset _ _) as [ps| |]; try discriminate. apply quiet_try_finalize_commit.
Qed.
Lemma T_try_finalize_commit c h : T (try_finalize_commit c h).
Proof. apply T_quiet; [apply sat_try_finalize_commit|intro; apply pres_try_finalize_commit|apply quiet_try_finalize_commit]. Qed.
Lemma T_enter_commit c h cr : T (enter_commit c h cr).
Proof. apply T_quiet; [apply sat_enter_commit|intro; apply pres_enter_commit|apply quiet_enter_commit]. Qed.

Lemma quiet_wait1 h r : quiet (enter_prevote_wait h r).
Proof.
  intros n n' o x. unfold enter_prevote_wait. destruct (_ || _); [intro E; injection E as _ <-; intros []|].
  destruct (negb _); [discriminate|]. intro E. injection E as _ <-. cbn. intuition (subst; reflexivity).
Qed.
Lemma quiet_wait2 h r : quiet (enter_precommit_wait h r).
Proof.
  intros n n' o x. unfold enter_precommit_wait. destruct (_ || _); [intro E; injection E as _ <-; intros []|].
  destruct (negb _); [discriminate|]. intro E. injection E as _ <-. cbn. intuition (subst; reflexivity).
Qed.
Lemma T_wait1 h r : T (enter_prevote_wait h r).
Proof. apply T_quiet; [apply fsat_sat, fsat_enter_prevote_wait|intro; apply pres_frame, fsat_enter_prevote_wait|apply quiet_wait1]. Qed.
Lemma T_wait2 h r : T (enter_precommit_wait h r).
Proof. apply T_quiet; [apply fsat_sat, fsat_enter_precommit_wait|intro; apply pres_frame, fsat_enter_precommit_wait|apply quiet_wait2]. Qed.

Lemma quiet_set_proposal p sgn : quiet (set_proposal p sgn).
Proof.
  intros n n' o x. unfold set_proposal. destruct (proposal n); [intro E; injection E as _ <-; intros []|].
  destruct (_ || _); [intro E; injection E as _ <-; intros []|]. destruct (8 <=? _); [intro E; injection E as _ <-; intros []|].
  destruct (_ && _); [intro E; injection E as _ <-; cbn; intuition (subst; reflexivity)|].
  destruct (_ || _); [intro E; injection E as _ <-; cbn; intuition (subst; reflexivity)|].
  destruct (proposer _) as [[[a|] vs']| |]; try discriminate. cbn zeta.
  destruct (negb _); [intro E; injection E as _ <-; cbn; intuition (subst; reflexivity)|].
  destruct (new_pset _ _) as [ps| |]; try discriminate. intro E; injection E as _ <-; intros [].
Qed.
Lemma T_set_proposal p sgn : T (set_proposal p sgn).
Proof. apply T_quiet; [apply fsat_sat, fsat_set_proposal|intro; apply pres_frame, fsat_set_proposal|apply quiet_set_proposal]. Qed.

(* ---------- block parts ---------- *)
Lemma T_add_part c h idx b dec ver : T (add_part c h idx b dec ver).
Proof.
  intros off pcs n n' o HJ Hh. unfold add_part. destruct (negb _); [apply T_ret; assumption|].
  destruct (pparts n) as [ps|]; [|apply T_ret; assumption].
  destruct (_ || _); [apply T_emit; [reflexivity|assumption|assumption]|]. destruct (existsb _ _); [apply T_ret; assumption|].
  destruct (ver && _); [apply T_emit; [reflexivity|assumption|assumption]|]. cbn zeta.
  destruct (Z.eqb _ _).
  2:{ intro E. injection E as <- <-. cbn. split; [|exact I]. apply (J_frame _ _ n); [exact HJ|apply frame_set_prop]. }
  set (n2 := set_prop _ _ _ _).
  assert (J2 : J off pcs n2) by (apply (J_frame _ _ n); [exact HJ|unfold n2; eapply frame_trans; apply frame_set_prop]).
  assert (H2 : height n2 = h0) by exact Hh.
  apply (T_tail (fun m => if step m =? 3 then match is_proposal_complete m with
                                              | Panic w => Panic w | Err e => Err e
                                              | Ok true => enter_prevote h (round m) m | Ok false => ret m end
                          else if step m =? 8 then try_finalize_commit c h m else ret m)
                (fun n3 => if dec then ret n3 else emit (OErr 5) n3)); [| |exact J2|exact H2].
  - intros off' pcs' m m' o' Jm Hm. destruct (step m =? 3).
    + destruct (is_proposal_complete m) as [[|]| |]; try discriminate; [apply T_enter_prevote|apply T_ret]; assumption.
    + destruct (step m =? 8); [apply T_try_finalize_commit|apply T_ret]; assumption.
  - intro m. destruct dec; [left; reflexivity|right; eexists; split; reflexivity].
Qed.

(* ---------- votes: the delivered list grows by the vote ---------- *)
Lemma T_add_vote_cs c v peer : c_skip_commit c = false ->
  forall off pcs n n' o, J off pcs n -> height n = h0 -> add_vote_cs c v peer n = Ok (n', o) ->
    J (v :: off) (pcs_after o pcs) n' /\ goods (v :: off) pcs o.
Proof.
  intros Hskip off pcs n n' o HJ0 Hh.
  assert (HJ : J (v :: off) pcs n) by (eapply J_mono; [|exact HJ0]; intros x Hx; right; exact Hx).
  unfold add_vote_cs. rewrite Hskip.
  destruct (v_height v + 1 =? height n).
  - destruct (negb _); [apply T_emit; [reflexivity|assumption|assumption]|].
    destruct (last_commit n) as [lc|]; [|apply T_emit; [reflexivity|assumption|assumption]].
    destruct (add_vote lc v) as [[[lc' added] code]| |]; try discriminate. cbn zeta.
    rewrite andb_false_r. cbn [andb].
    assert (J1 : J (v :: off) pcs (set_last_commit n (Some lc'))) by (apply (J_frame _ _ n); [exact HJ|apply frame_set_last_commit]).
    apply (T_tail ret (fun n2 => if N.eqb code 0 then ret n2 else emit (OErr (20 + code)) n2)); [exact T_ret| |exact J1|exact Hh].
    intro m. destruct (N.eqb code 0); [left; reflexivity|right; eexists; split; reflexivity].
  - destruct (v_height v =? height n); [|apply T_emit; [reflexivity|assumption|assumption]]. cbn zeta.
    destruct (hv_add_vote (votes n) v peer) as [[[hv added] code]| |] eqn:Ea; try discriminate.
    set (n1 := set_votes n hv).
    assert (J1 : J (v :: off) pcs n1).
    { apply (J_of_G _ _ n); [exact HJ|apply votes_G; apply (hv_add_vote_le _ _ _ _ _ _ Ea)|].
      destruct HJ0 as ((L & Hok) & _). split; [exact L|]. cbn [height votes n1 set_votes]. intro E. destruct (Hok E) as [A B].
      destruct (hv_add_vote_ok VS Hbounded off _ _ _ _ _ _ A Ea) as [A' B']. split; [exact A'|congruence]. }
    assert (H1 : height n1 = h0) by exact Hh.
    rewrite Hh. set (hh' := h0).
    revert J1 H1. clearbody n1. intros J1 H1.
    apply (T_tail
      (fun m => if negb added then ret m
                else if N.eqb (v_type v) 1 then
                  let prevotes := hv_prevotes (votes m) (v_round v) in
                  let n2 := match lblock m with
                            | Some lb => if (lround m <? v_round v) && (v_round v <=? round m)
                                         then match maj23 prevotes with
                                              | Some b => if negb (hashes_to (lblock m) (b_hash b)) then set_lock m 0 None else m
                                              | None => m end
                                         else m
                            | None => m end in
                  if (round n2 <=? v_round v) && any23_open n2 prevotes then
                    enter_new_round hh' (v_round v) n2 >>= (fun n3 =>
                      match maj23 (hv_prevotes (votes n3) (v_round v)) with
                      | Some _ => enter_precommit hh' (v_round v) n3
                      | None => enter_prevote hh' (v_round v) n3 >>= enter_prevote_wait hh' (v_round v)
                      end)
                  else match proposal n2 with
                       | Some p => if (0 <=? p_polround p) && (p_polround p =? v_round v)
                                   then match is_proposal_complete n2 with
                                        | Panic w => Panic w | Err e => Err e
                                        | Ok true => enter_prevote hh' (round n2) n2 | Ok false => ret n2 end
                                   else ret n2
                       | None => ret n2 end
                else if N.eqb (v_type v) 2 then
                  let precommits := hv_precommits (votes m) (v_round v) in
                  match maj23 precommits with
                  | Some b => match b_hash b with
                              | [] => enter_new_round_open hh' (v_round v + 1) m
                              | _ => enter_new_round hh' (v_round v) m >>= enter_precommit hh' (v_round v) >>= enter_commit c hh' (v_round v)
                                     >>= (fun n4 => if false && (match hv_precommits (votes m) (v_round v) with Some vs => has_all vs | None => false end)
                                                    then enter_new_round (height n4) 0 n4 else ret n4)
                              end
                  | None => if (round m <=? v_round v) && any23_open m precommits
                            then enter_new_round hh' (v_round v) m >>= enter_precommit hh' (v_round v) >>= enter_precommit_wait hh' (v_round v)
                            else ret m
                  end
                else Panic 49)
      (fun n5 => if N.eqb code 0 then ret n5 else emit (OErr (20 + code)) n5)); [| |exact J1|exact H1].
    2:{ intro m. destruct (N.eqb code 0); [left; reflexivity|right; eexists; split; reflexivity]. }
    intros off' pcs' m m' o' Jm Hm.
    destruct (negb added); [apply T_ret; assumption|].
    destruct (N.eqb (v_type v) 1).
    { (* a prevote *)
      cbn zeta.
      set (n2 := match lblock m with Some _ => _ | None => m end).
      assert (J2 : J off' pcs' n2 /\ height n2 = h0).
      { split.
        - apply (J_of_G _ _ m); [exact Jm|apply (addvote_unlock_G m v)|].
          destruct Jm as (A & _). unfold n2. destruct (lblock m); [|exact A]. destruct (_ && _); [|exact A].
          destruct (maj23 _); [|exact A]. destruct (negb _); [|exact A]. apply (node_ok_same VS h0 off' m); [reflexivity|reflexivity|exact A].
        - unfold n2. destruct (lblock m); [|exact Hm]. destruct (_ && _); [|exact Hm].
          destruct (maj23 _); [|exact Hm]. destruct (negb _); exact Hm. }
      destruct J2 as [J2 H2]. 
      assert (Ev2 : votes n2 = votes m).
      { unfold n2. destruct (lblock m); [|reflexivity]. destruct (_ && _); [|reflexivity].
        destruct (maj23 _); [|reflexivity]. destruct (negb _); reflexivity. }
      clearbody n2.
      destruct (_ && _).
      + intro E. apply bind_ok in E as (n3 & oa & ob & Ea1 & Ea2 & ->).
        destruct (T_enter_new_round hh' (v_round v) off' pcs' n2 n3 oa J2 H2 Ea1) as [J3 G3].
        assert (H3 : height n3 = h0) by (rewrite (kh_enter_new_round _ _ _ _ _ Ea1); exact H2).
        assert (R3 : v_round v <= round n3) by (eapply enter_new_round_reaches; [exact H2|exact Ea1]).
        rewrite pcs_after_app. revert Ea2. destruct (maj23 _); intro Ea2.
        * destruct (T_enter_precommit hh' (v_round v) off' _ n3 m' ob J3 H3 R3 Ea2) as [J4 G4].
          split; [exact J4|apply goods_app; assumption].
        * destruct (T_bind _ _ (T_enter_prevote hh' (v_round v)) (kh_frame _ (fsat_enter_prevote hh' (v_round v))) (T_wait1 hh' (v_round v)) off' _ n3 m' ob J3 H3 Ea2) as [J4 G4].
          split; [exact J4|apply goods_app; assumption].
      + destruct (proposal n2) as [p|]; [|apply T_ret; assumption]. destruct (_ && _); [|apply T_ret; assumption].
        destruct (is_proposal_complete n2) as [[|]| |]; try discriminate; [apply T_enter_prevote|apply T_ret]; assumption. }
    { destruct (N.eqb (v_type v) 2); [|discriminate]. cbn zeta.
      destruct (maj23 _) as [b|].
      + destruct (b_hash b); [apply T_enter_new_round_open; assumption|].
        intro E. apply bind_ok in E as (n4 & oa & ob & Ea1 & Ea2 & ->).
        apply bind_ok in Ea1 as (n3 & oc & od & Eb1 & Eb2 & ->).
        apply bind_ok in Eb1 as (n2 & oe & of & Ec1 & Ec2 & ->).
        destruct (T_enter_new_round hh' (v_round v) off' pcs' m n2 oe Jm Hm Ec1) as [J2 G2].
        assert (H2 : height n2 = h0) by (rewrite (kh_enter_new_round _ _ _ _ _ Ec1); exact Hm).
        assert (R2 : v_round v <= round n2) by (eapply enter_new_round_reaches; [exact Hm|exact Ec1]).
        destruct (T_enter_precommit hh' (v_round v) off' _ n2 n3 of J2 H2 R2 Ec2) as [J3 G3].
        assert (H3 : height n3 = h0) by (rewrite (kh_enter_precommit _ _ _ _ _ Ec2); exact H2).
        destruct (T_enter_commit c hh' (v_round v) off' _ n3 n4 od J3 H3 Eb2) as [J4 G4].
        cbn [andb] in Ea2. injection Ea2 as <- <-. rewrite app_nil_r, !pcs_after_app.
        split; [exact J4|]. apply goods_app; [apply goods_app; assumption|]. rewrite pcs_after_app. exact G4.
      + destruct (_ && _); [|apply T_ret; assumption].
        intro E. apply bind_ok in E as (n3 & oa & ob & Ea1 & Ea2 & ->).
        apply bind_ok in Ea1 as (n2 & oc & od & Eb1 & Eb2 & ->).
        destruct (T_enter_new_round hh' (v_round v) off' pcs' m n2 oc Jm Hm Eb1) as [J2 G2].
        assert (H2 : height n2 = h0) by (rewrite (kh_enter_new_round _ _ _ _ _ Eb1); exact Hm).
        assert (R2 : v_round v <= round n2) by (eapply enter_new_round_reaches; [exact Hm|exact Eb1]).
        destruct (T_enter_precommit hh' (v_round v) off' _ n2 n3 od J2 H2 R2 Eb2) as [J3 G3].
        assert (H3 : height n3 = h0) by (rewrite (kh_enter_precommit _ _ _ _ _ Eb2); exact H2).
        destruct (T_wait2 hh' (v_round v) off' _ n3 m' ob J3 H3 Ea2) as [J4 G4].
        rewrite !pcs_after_app. split; [exact J4|]. apply goods_app; [apply goods_app; assumption|]. rewrite pcs_after_app. exact G4. }
Qed.

(* a timeout the node scheduled is for a round it had reached *)
Lemma T_handle_timeout h r s :
  forall off pcs n n' o, J off pcs n -> height n = h0 -> r <= round n -> handle_timeout h r s n = Ok (n', o) ->
    J off (pcs_after o pcs) n' /\ goods off pcs o.
Proof.
  intros off pcs n n' o HJ Hh Hr. unfold handle_timeout. destruct (_ || _); [apply T_ret; assumption|].
  destruct (s =? 1); [apply T_enter_new_round; assumption|].
  destruct (s =? 3); [apply T_enter_prevote; assumption|].
  destruct (s =? 5); [apply T_enter_precommit; assumption|].
  destruct (s =? 7); [apply T_enter_new_round; assumption|discriminate].
Qed.

(* inputs a node can get: timeouts are for rounds it has reached (it scheduled them itself) *)
Definition input_ok (i : input) (n : node) : Prop :=
  match i with ITimeout _ r _ => r <= round n | _ => True end.

Theorem T_handle c i : c_skip_commit c = false ->
  forall off pcs n n' o, J off pcs n -> height n = h0 -> input_ok i n -> handle c i n = Ok (n', o) ->
    J (delivered_of i ++ off) (pcs_after o pcs) n' /\ goods (delivered_of i ++ off) pcs o.
Proof.
  intros Hs off pcs n n' o HJ Hh Hi. destruct i as [p sgn peer|h r idx b ok peer|v peer|h r s]; cbn [handle delivered_of app].
  - apply T_set_proposal; assumption.
  - apply T_add_part; assumption.
  - apply T_add_vote_cs; assumption.
  - apply T_handle_timeout; assumption.
Qed.

Lemma goods_mono off off' pcs o : incl off off' -> goods off pcs o -> goods off' pcs o.
Proof.
  intro Hi. revert pcs. induction o as [|x t IH]; intros pcs; cbn; [auto|]. intros [H1 H2]. split; [|apply IH; exact H2].
  destruct x as [ty r b| | | | |]; try exact I. cbn [good] in *.
  assert (Hq : forall r' x', Qr (voted_for VS h0 r' 1%N off x') -> Qr (voted_for VS h0 r' 1%N off' x')).
  { intros r' x' Hq. unfold Qr in *. eapply Z.lt_le_trans; [exact Hq|]. apply pow_from_mono; [apply Hbounded|].
    intros i _. now apply voted_for_incl. }
  destruct ty as [|[p|[p|p|]|]]; try exact I.
  - intro Hb. apply Hq. apply H1. exact Hb.
  - intros r0 b0 Hin Hlt Hne. destruct (H1 r0 b0 Hin Hlt Hne) as (r' & x' & A & B & C). exists r', x'. auto.
Qed.

End Emit.
