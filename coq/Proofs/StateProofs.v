(* Proofs about Model/StateDB.v: the journal of undo entries and the copy semantics of snapshots
   agree, observationally, on every sequence of operations - so reverting to a snapshot restores
   exactly what every reader saw at the snapshot, however snapshots are nested and whatever was
   written, created, self-destructed or reverted in between. *)
From Coq Require Import List NArith Bool Lia Arith.
From AnnVerif Require Import Model.StateDB.
Import ListNotations.
Open Scope N_scope.

(* ---------- observational equality ---------- *)
Definition aeq (x y : acct) : Prop :=
  a_nonce x = a_nonce y /\ a_bal x = a_bal y /\ a_sui x = a_sui y /\ forall k, sget (a_store x) k = sget (a_store y) k.
Definition oeq (o1 o2 : option acct) : Prop :=
  match o1, o2 with Some x, Some y => aeq x y | None, None => True | _, _ => False end.
Definition weq (w1 w2 : world) : Prop := forall a, oeq (wget w1 a) (wget w2 a).
Definition seteq (d1 d2 : list N) : Prop := forall a, In a d1 <-> In a d2.

Lemma aeq_refl x : aeq x x. Proof. repeat split. Qed.
Lemma oeq_refl o : oeq o o. Proof. destruct o; cbn; auto using aeq_refl. Qed.
Lemma weq_refl w : weq w w. Proof. intro a. apply oeq_refl. Qed.
Lemma aeq_sym x y : aeq x y -> aeq y x.
Proof. intros (A & B & C & D). repeat split; auto. Qed.
Lemma aeq_trans x y z : aeq x y -> aeq y z -> aeq x z.
Proof. intros (A & B & C & D) (A' & B' & C' & D'). split; [congruence|]. split; [congruence|]. split; [congruence|]. intro k. now rewrite D. Qed.
Lemma oeq_sym a b : oeq a b -> oeq b a.
Proof. destruct a, b; cbn; auto using aeq_sym. Qed.
Lemma oeq_trans a b c : oeq a b -> oeq b c -> oeq a c.
Proof. destruct a, b, c; cbn; try tauto. apply aeq_trans. Qed.
Lemma weq_sym a b : weq a b -> weq b a. Proof. intros H x. apply oeq_sym, H. Qed.
Lemma weq_trans a b c : weq a b -> weq b c -> weq a c. Proof. intros H1 H2 x. eapply oeq_trans; [apply H1|apply H2]. Qed.

Lemma wget_wset w a x b : wget (wset w a x) b = if a =? b then x else wget w b.
Proof. reflexivity. Qed.
Lemma weq_wset w1 w2 a x y : weq w1 w2 -> oeq x y -> weq (wset w1 a x) (wset w2 a y).
Proof. intros H Hx b. rewrite !wget_wset. destruct (a =? b); [exact Hx|apply H]. Qed.
Lemma empty_aeq x y : aeq x y -> empty x = empty y.
Proof. intros (A & B & _). unfold empty. now rewrite A, B. Qed.

(* writing back what is already there changes nothing a reader sees *)
Lemma weq_wset_same w a x : oeq (wget w a) x -> weq (wset w a x) w.
Proof.
  intros H b. rewrite wget_wset. destruct (N.eqb_spec a b) as [->|]; [now apply oeq_sym|apply oeq_refl].
Qed.

(* ---------- undo respects and inverts ---------- *)
Lemma upd_acct_weq w1 w2 a f g : weq w1 w2 -> (forall x y, aeq x y -> aeq (f x) (g y)) ->
  weq (upd_acct w1 a f) (upd_acct w2 a g).
Proof.
  intros H Hf. unfold upd_acct. pose proof (H a) as Ha.
  destruct (wget w1 a) as [x|], (wget w2 a) as [y|]; cbn in Ha; try contradiction; [|exact H].
  apply weq_wset; [exact H|cbn; now apply Hf].
Qed.

Lemma undo_weq w1 w2 e : weq w1 w2 -> weq (undo w1 e) (undo w2 e).
Proof.
  intro H. destruct e; cbn [undo]; try (apply upd_acct_weq; [exact H|]).
  - apply weq_wset; [exact H|apply oeq_refl].
  - intros x y (A & B & C & D). repeat split; auto.
  - intros x y (A & B & C & D). repeat split; auto.
  - intros x y (A & B & C & D). repeat split; auto. intro j. cbn [a_store sget]. destruct (k =? j); [reflexivity|apply D].
  - intros x y (A & B & C & D). repeat split; auto.
  - exact H.
Qed.

Lemma revert_to_weq jl : forall w1 w2 n, weq w1 w2 ->
  weq (fst (revert_to w1 jl n)) (fst (revert_to w2 jl n)) /\ snd (revert_to w1 jl n) = snd (revert_to w2 jl n).
Proof.
  induction jl as [|e t IH]; intros w1 w2 n H; cbn [revert_to].
  - destruct (Nat.leb _ n); cbn; auto.
  - destruct (Nat.leb (length (e :: t)) n); cbn [fst snd]; [auto|]. apply IH. now apply undo_weq.
Qed.

Lemma revert_to_length jl : forall w n, (n <= length jl)%nat -> length (snd (revert_to w jl n)) = n.
Proof.
  induction jl as [|e t IH]; intros w n Hn; cbn [revert_to].
  - cbn in Hn. assert (n = 0%nat) by lia. subst. reflexivity.
  - destruct (Nat.leb_spec (length (e :: t)) n) as [Hl|Hl]; cbn [snd]; [cbn in *; lia|].
    apply IH. cbn in Hl. lia.
Qed.

(* an entry pushed on top is undone first *)
Lemma revert_to_cons w e t n : (n <= length t)%nat -> revert_to w (e :: t) n = revert_to (undo w e) t n.
Proof.
  intro Hn. cbn [revert_to]. destruct (Nat.leb_spec (length (e :: t)) n) as [Hl|Hl]; [cbn in Hl; lia|reflexivity].
Qed.
Lemma revert_to_here w jl : revert_to w jl (length jl) = (w, jl).
Proof. destruct jl; cbn [revert_to]; rewrite Nat.leb_refl; reflexivity. Qed.

Lemma revert_to_compose jl : forall w n m, (m <= n)%nat -> (n <= length jl)%nat ->
  revert_to w jl m = revert_to (fst (revert_to w jl n)) (snd (revert_to w jl n)) m.
Proof.
  induction jl as [|e t IH]; intros w n m Hm Hn.
  - cbn in Hn. assert (n = 0%nat) by lia. assert (m = 0%nat) by lia. subst. reflexivity.
  - destruct (Nat.eq_dec n (length (e :: t))) as [->|Hne].
    + rewrite revert_to_here. reflexivity.
    + cbn [length] in *. rewrite (revert_to_cons w e t n) by lia. rewrite (revert_to_cons w e t m) by lia.
      apply IH; lia.
Qed.

(* ---------- Finalise ---------- *)
Lemma finalise_get del d : forall w a,
  wget (finalise_world del w d) a =
  match wget w a with
  | Some x => if existsb (N.eqb a) d && (a_sui x || (del && empty x)) then None else Some x
  | None => None
  end.
Proof.
  unfold finalise_world. induction d as [|b d IH]; intros w a; cbn [fold_left existsb].
  - destruct (wget w a); reflexivity.
  - rewrite IH. destruct (wget w b) as [y|] eqn:Eb.
    + destruct (a_sui y || (del && empty y)) eqn:Ey.
      * rewrite wget_wset. destruct (N.eqb_spec b a) as [->|Hne].
        -- rewrite Eb, N.eqb_refl. cbn. now rewrite Ey.
        -- replace (a =? b) with false by (symmetry; apply N.eqb_neq; congruence). reflexivity.
      * destruct (N.eqb_spec a b) as [->|Hne]; [|reflexivity].
        rewrite Eb. cbn. rewrite Ey. destruct (existsb _ d); reflexivity.
    + destruct (N.eqb_spec a b) as [->|Hne]; [now rewrite Eb|reflexivity].
Qed.

Lemma existsb_seteq d1 d2 a : seteq d1 d2 -> existsb (N.eqb a) d1 = existsb (N.eqb a) d2.
Proof.
  intro H. destruct (existsb (N.eqb a) d1) eqn:E1; destruct (existsb (N.eqb a) d2) eqn:E2; try reflexivity.
  - apply existsb_exists in E1. destruct E1 as (x & Hin & Ex). apply N.eqb_eq in Ex. subst x.
    assert (existsb (N.eqb a) d2 = true) by (apply existsb_exists; exists a; split; [now apply H|apply N.eqb_refl]). congruence.
  - apply existsb_exists in E2. destruct E2 as (x & Hin & Ex). apply N.eqb_eq in Ex. subst x.
    assert (existsb (N.eqb a) d1 = true) by (apply existsb_exists; exists a; split; [now apply H|apply N.eqb_refl]). congruence.
Qed.

Lemma finalise_weq del w1 w2 d1 d2 : weq w1 w2 -> seteq d1 d2 -> weq (finalise_world del w1 d1) (finalise_world del w2 d2).
Proof.
  intros Hw Hd a. rewrite !finalise_get, (existsb_seteq d1 d2 a Hd). pose proof (Hw a) as Ha.
  destruct (wget w1 a) as [x|], (wget w2 a) as [y|]; cbn in Ha; try contradiction; [|exact I].
  rewrite (empty_aeq x y Ha). destruct Ha as (A & B & C & D). rewrite C.
  destruct (existsb _ d2 && (a_sui y || (del && empty y))); cbn; [exact I|]. repeat split; auto.
Qed.

(* ---------- snapshots: the journal lengths against the copies ---------- *)
Fixpoint srel (cs : list (nat * (world * list N))) (js : list (nat * nat)) (w : world) (jl : list jentry) (b : nat) : Prop :=
  match cs, js with
  | [], [] => True
  | (i, (wc, dc)) :: cs', (i', n) :: js' =>
    i = i' /\ (i < b)%nat /\ (n <= length jl)%nat /\
    weq (fst (revert_to w jl n)) wc /\ seteq (dirties (snd (revert_to w jl n))) dc /\
    srel cs' js' (fst (revert_to w jl n)) (snd (revert_to w jl n)) i
  | _, _ => False
  end.

Lemma srel_weq cs : forall js w1 w2 jl b, weq w1 w2 -> srel cs js w1 jl b -> srel cs js w2 jl b.
Proof.
  induction cs as [|[i [wc dc]] cs IH]; intros [|[i' n] js] w1 w2 jl b Hw H; cbn [srel] in *; auto.
  destruct H as (Ei & Hb & Hn & Hwq & Hd & Hr).
  destruct (revert_to_weq jl w1 w2 n Hw) as [Hf Hs].
  split; [exact Ei|]. split; [exact Hb|]. split; [exact Hn|].
  split; [eapply weq_trans; [apply weq_sym; exact Hf|exact Hwq]|].
  split; [rewrite <- Hs; exact Hd|].
  rewrite <- Hs. eapply IH; [exact Hf|exact Hr].
Qed.

Lemma srel_bound cs js w jl b b' : (b <= b')%nat -> srel cs js w jl b -> srel cs js w jl b'.
Proof.
  destruct cs as [|[i [wc dc]] cs], js as [|[i' n] js]; cbn [srel]; auto.
  intros Hb (Ei & Hlt & R). split; [exact Ei|]. split; [lia|exact R].
Qed.

(* entries pushed on top of the journal, whose undoing gives back what readers saw *)
Lemma revert_to_push E : forall w jl n, (n <= length jl)%nat ->
  revert_to w (E ++ jl) n = revert_to (fold_left undo E w) jl n.
Proof.
  induction E as [|e E IH]; intros w jl n Hn; [reflexivity|].
  cbn [app fold_left]. rewrite revert_to_cons by (rewrite app_length; lia). now apply IH.
Qed.

Lemma srel_push cs js w jl b w' E : srel cs js w jl b -> weq (fold_left undo E w') w -> srel cs js w' (E ++ jl) b.
Proof.
  destruct cs as [|[i [wc dc]] cs], js as [|[i' n] js]; cbn [srel]; auto.
  intros (Ei & Hb & Hn & Hwq & Hd & Hr) Hu.
  rewrite (revert_to_push E w' jl n Hn).
  destruct (revert_to_weq jl (fold_left undo E w') w n Hu) as [Hf Hs].
  split; [exact Ei|]. split; [exact Hb|]. split; [rewrite app_length; lia|].
  split; [eapply weq_trans; [exact Hf|exact Hwq]|].
  split; [rewrite Hs; exact Hd|].
  rewrite Hs. eapply srel_weq; [apply weq_sym; exact Hf|exact Hr].
Qed.

Lemma srel_find_lt cs : forall js w jl b id x, srel cs js w jl b -> find_snap cs id = Some x -> (id < b)%nat.
Proof.
  induction cs as [|[i [w0 d0]] cs IH]; intros [|[i' n0] js] w jl b id x H F; cbn [srel find_snap] in *; try discriminate; try contradiction.
  destruct H as (-> & Hb & _ & _ & _ & Hr). destruct (Nat.eqb_spec i' id) as [->|Hne]; [exact Hb|].
  specialize (IH _ _ _ _ _ _ Hr F). lia.
Qed.

(* reverting to any snapshot that is still valid *)
Lemma srel_revert cs : forall js w jl b id wc dc,
  srel cs js w jl b -> find_snap cs id = Some (wc, dc) ->
  exists n, find_snap js id = Some n /\ (n <= length jl)%nat /\
    weq (fst (revert_to w jl n)) wc /\ seteq (dirties (snd (revert_to w jl n))) dc /\
    srel (drop_snaps cs id) (drop_snaps js id) (fst (revert_to w jl n)) (snd (revert_to w jl n)) b.
Proof.
  induction cs as [|[i [w0 d0]] cs IH]; intros [|[i' n0] js] w jl b id wc dc H F; cbn [srel find_snap] in *; try discriminate; try contradiction.
  destruct H as (Ei & Hb & Hn & Hwq & Hd & Hr). subst i'.
  destruct (Nat.eqb_spec i id) as [->|Hne].
  - inversion F; subst. exists n0. split; [reflexivity|]. split; [exact Hn|]. split; [exact Hwq|]. split; [exact Hd|].
    (* everything at or above id goes: the head has id, the rest is below it *)
    cbn [drop_snaps]. rewrite Nat.leb_refl.
    assert (Hdrop : forall (A : Type) (l : list (nat * A)) (P : Prop), True) by auto. clear Hdrop.
    assert (Hc : drop_snaps cs id = cs /\ drop_snaps js id = js).
    { destruct cs as [|[i2 [w2 d2]] cs2], js as [|[i2' n2] js2]; cbn [srel] in Hr; try contradiction; [split; reflexivity|].
      destruct Hr as (-> & Hlt & _). cbn [drop_snaps].
      replace (id <=? i2')%nat with false by (symmetry; apply Nat.leb_gt; lia). split; reflexivity. }
    destruct Hc as [-> ->]. eapply srel_bound; [|exact Hr]. lia.
  - destruct (IH js _ _ i id wc dc Hr F) as (n & Fn & Hn' & Hw' & Hd' & Hr').
    assert (Hlen : length (snd (revert_to w jl n0)) = n0) by (now apply revert_to_length).
    rewrite Hlen in Hn'.
    rewrite <- (revert_to_compose jl w n0 n Hn' Hn) in Hw', Hd', Hr'.
    exists n. split; [exact Fn|]. split; [lia|]. split; [exact Hw'|]. split; [exact Hd'|].
    (* the head is above id (ids decrease down the list and id was found below) *)
    assert (Hid : (id < i)%nat) by exact (srel_find_lt cs js _ _ i id (wc, dc) Hr F).
    cbn [drop_snaps]. replace (id <=? i)%nat with true by (symmetry; apply Nat.leb_le; lia).
    eapply srel_bound; [|exact Hr']. lia.
Qed.

Lemma srel_find_none cs : forall js w jl b id, srel cs js w jl b -> find_snap cs id = None -> find_snap js id = None.
Proof.
  induction cs as [|[i [w0 d0]] cs IH]; intros [|[i' n0] js] w jl b id H F; cbn [srel find_snap] in *; try contradiction; auto.
  destruct H as (-> & _ & _ & _ & _ & Hr). destruct (Nat.eqb i' id); [discriminate|]. eapply IH; eauto.
Qed.

(* ---------- the simulation ---------- *)
Definition R (sc : cstate) (sj : jstate) : Prop :=
  weq (c_w sc) (j_w sj) /\ seteq (c_dirty sc) (dirties (j_journal sj)) /\ c_next sc = j_next sj /\
  srel (c_snaps sc) (j_revs sj) (j_w sj) (j_journal sj) (c_next sc).

Lemma fold_undo_weq E : forall w1 w2, weq w1 w2 -> weq (fold_left undo E w1) (fold_left undo E w2).
Proof. induction E as [|e E IH]; intros w1 w2 H; cbn [fold_left]; [exact H|]. apply IH. now apply undo_weq. Qed.

Lemma seteq_cons a d1 d2 : seteq d1 d2 -> seteq (a :: d1) (a :: d2).
Proof. intros H b. cbn. rewrite (H b). tauto. Qed.
Lemma seteq_refl d : seteq d d. Proof. intro; tauto. Qed.

(* undoing a field entry on the written account gives back what was there *)
Lemma undo_field w a (xj x' : acct) (f : acct -> acct) :
  wget w a = Some xj -> aeq (f x') xj ->
  weq (upd_acct (wset w a (Some x')) a f) w.
Proof.
  intros Hg Hf b. unfold upd_acct. rewrite wget_wset, N.eqb_refl. rewrite !wget_wset.
  destruct (N.eqb_spec a b) as [->|Hne]; [rewrite Hg; exact Hf|apply oeq_refl].
Qed.

(* get-or-create on both sides *)
Lemma get_or_new_rel wc wj dc jl a :
  weq wc wj -> seteq dc (dirties jl) ->
  let '(wc', dc', xc) := get_or_new wc dc a in
  let '(wj', jl', xj) := j_get_or_new wj jl a in
  weq wc' wj' /\ seteq dc' (dirties jl') /\ aeq xc xj /\ wget wj' a = Some xj /\ oeq (wget wc' a) (Some xc) /\
  exists E, jl' = E ++ jl /\ weq (fold_left undo E wj') wj.
Proof.
  intros Hw Hd. unfold get_or_new, j_get_or_new. pose proof (Hw a) as Ha.
  destruct (wget wc a) as [xc|] eqn:Ec, (wget wj a) as [xj|] eqn:Ej; cbn in Ha; try contradiction.
  - split; [exact Hw|]. split; [exact Hd|]. split; [exact Ha|]. split; [exact Ej|]. split; [rewrite Ec; apply aeq_refl|].
    exists []. split; [reflexivity|apply weq_refl].
  - split; [apply weq_wset; [exact Hw|apply aeq_refl]|]. split; [cbn [dirties flat_map jdirt jaddr app]; now apply seteq_cons|].
    split; [apply aeq_refl|]. split; [rewrite wget_wset, N.eqb_refl; reflexivity|].
    split; [rewrite wget_wset, N.eqb_refl; apply aeq_refl|].
    exists [JObject a None]. split; [reflexivity|]. cbn [fold_left undo].
    intro b. rewrite !wget_wset. destruct (N.eqb_spec a b) as [->|]; [rewrite Ej; exact I|apply oeq_refl].
Qed.

Ltac aeq_tac := unfold oeq, aeq; cbn [a_nonce a_bal a_sui a_store]; repeat split; auto.

Lemma step_R sc sj o : R sc sj -> R (c_step sc o) (j_step sj o).
Proof.
  intros (Hw & Hd & Hn & Hs). destruct o as [a n|a amt|a k v|a|a| |id|del]; cbn [c_step j_step].
  - (* SetNonce *)
    pose proof (get_or_new_rel _ _ _ _ a Hw Hd) as G.
    destruct (get_or_new (c_w sc) (c_dirty sc) a) as [[wc' dc'] xc].
    destruct (j_get_or_new (j_w sj) (j_journal sj) a) as [[wj' jl'] xj].
    destruct G as (Hw' & Hd' & Hx & Hg & _ & E & -> & Hu). destruct Hx as (A & B & C & D).
    split; [apply weq_wset; [exact Hw'|aeq_tac]|].
    split; [cbn [dirties flat_map jdirt jaddr app c_dirty j_journal]; now apply seteq_cons|]. split; [exact Hn|].
    cbn [c_snaps j_revs j_w j_journal c_next].
    change (JNonce a (a_nonce xj) :: E ++ j_journal sj) with ((JNonce a (a_nonce xj) :: E) ++ j_journal sj).
    eapply srel_push; [exact Hs|]. cbn [fold_left undo].
    eapply weq_trans; [apply fold_undo_weq; apply (undo_field wj' a xj); [exact Hg|repeat split; reflexivity]|exact Hu].
  - (* AddBalance *)
    pose proof (get_or_new_rel _ _ _ _ a Hw Hd) as G.
    destruct (get_or_new (c_w sc) (c_dirty sc) a) as [[wc' dc'] xc].
    destruct (j_get_or_new (j_w sj) (j_journal sj) a) as [[wj' jl'] xj].
    destruct G as (Hw' & Hd' & Hx & Hg & _ & E & -> & Hu). rewrite (empty_aeq xc xj Hx). destruct Hx as (A & B & C & D).
    destruct (amt =? 0).
    + split; [exact Hw'|]. split.
      * cbn [c_dirty j_journal]. destruct (empty xj); [cbn [dirties flat_map jdirt jaddr app]; now apply seteq_cons|exact Hd'].
      * split; [exact Hn|]. cbn [c_snaps j_revs j_w j_journal c_next].
        destruct (empty xj).
        -- change (JTouch a :: E ++ j_journal sj) with ((JTouch a :: E) ++ j_journal sj).
           eapply srel_push; [exact Hs|]. cbn [fold_left undo]. exact Hu.
        -- eapply srel_push; [exact Hs|exact Hu].
    + split; [apply weq_wset; [exact Hw'|aeq_tac; now rewrite B]|].
      split; [cbn [dirties flat_map jdirt jaddr app c_dirty j_journal]; now apply seteq_cons|]. split; [exact Hn|].
      cbn [c_snaps j_revs j_w j_journal c_next].
      change (JBal a (a_bal xj) :: E ++ j_journal sj) with ((JBal a (a_bal xj) :: E) ++ j_journal sj).
      eapply srel_push; [exact Hs|]. cbn [fold_left undo].
      eapply weq_trans; [apply fold_undo_weq; apply (undo_field wj' a xj); [exact Hg|repeat split; reflexivity]|exact Hu].
  - (* SetState *)
    pose proof (get_or_new_rel _ _ _ _ a Hw Hd) as G.
    destruct (get_or_new (c_w sc) (c_dirty sc) a) as [[wc' dc'] xc].
    destruct (j_get_or_new (j_w sj) (j_journal sj) a) as [[wj' jl'] xj].
    destruct G as (Hw' & Hd' & Hx & Hg & _ & E & -> & Hu). destruct Hx as (A & B & C & D).
    rewrite (D k). destruct (sget (a_store xj) k =? v) eqn:Ev.
    + split; [exact Hw'|]. split; [exact Hd'|]. split; [exact Hn|].
      cbn [c_snaps j_revs j_w j_journal c_next]. eapply srel_push; [exact Hs|exact Hu].
    + split; [apply weq_wset; [exact Hw'|aeq_tac; intro j; cbn [sget]; destruct (k =? j); [reflexivity|apply D]]|].
      split; [cbn [dirties flat_map jdirt jaddr app c_dirty j_journal]; now apply seteq_cons|]. split; [exact Hn|].
      cbn [c_snaps j_revs j_w j_journal c_next].
      change (JStore a k (sget (a_store xj) k) :: E ++ j_journal sj) with ((JStore a k (sget (a_store xj) k) :: E) ++ j_journal sj).
      eapply srel_push; [exact Hs|]. cbn [fold_left undo].
      eapply weq_trans; [apply fold_undo_weq; apply (undo_field wj' a xj); [exact Hg|]|exact Hu].
      repeat split; try reflexivity. intro j. cbn [a_store sget].
      destruct (N.eqb_spec k j) as [->|Hne]; [reflexivity|]. replace (k =? j) with false by (symmetry; now apply N.eqb_neq). reflexivity.
  - (* Suicide *)
    pose proof (Hw a) as Ha.
    destruct (wget (c_w sc) a) as [xc|] eqn:Ec, (wget (j_w sj) a) as [xj|] eqn:Ej; cbn in Ha; try contradiction.
    + destruct Ha as (A & B & C & D).
      split; [apply weq_wset; [exact Hw|aeq_tac]|].
      split; [cbn [dirties flat_map jdirt jaddr app c_dirty j_journal]; now apply seteq_cons|]. split; [exact Hn|].
      cbn [c_snaps j_revs j_w j_journal c_next].
      change (JSuicide a (a_sui xj) (a_bal xj) :: j_journal sj) with ([JSuicide a (a_sui xj) (a_bal xj)] ++ j_journal sj).
      eapply srel_push; [exact Hs|]. cbn [fold_left undo].
      apply (undo_field (j_w sj) a xj); [exact Ej|repeat split; reflexivity].
    + unfold R. auto.
  - (* CreateAccount *)
    pose proof (Hw a) as Ha.
    assert (Hb : match wget (c_w sc) a with Some x => a_bal x | None => 0 end = match wget (j_w sj) a with Some x => a_bal x | None => 0 end).
    { destruct (wget (c_w sc) a), (wget (j_w sj) a); cbn in Ha; try contradiction; [now destruct Ha as (_ & B & _)|reflexivity]. }
    rewrite Hb.
    split; [apply weq_wset; [exact Hw|apply aeq_refl]|].
    split.
    { cbn [c_dirty j_journal dirties flat_map jdirt]. fold (dirties (j_journal sj)).
      destruct (wget (c_w sc) a), (wget (j_w sj) a); cbn in Ha; try contradiction; cbn [jaddr app]; [exact Hd|now apply seteq_cons]. }
    split; [exact Hn|].
    cbn [c_snaps j_revs j_w j_journal c_next].
    change (JObject a (wget (j_w sj) a) :: j_journal sj) with ([JObject a (wget (j_w sj) a)] ++ j_journal sj).
    eapply srel_push; [exact Hs|]. cbn [fold_left undo].
    intro b. rewrite !wget_wset. destruct (N.eqb_spec a b) as [->|]; apply oeq_refl.
  - (* Snapshot *)
    split; [exact Hw|]. split; [exact Hd|]. split; [cbn; congruence|].
    cbn [c_snaps j_revs j_w j_journal c_next srel].
    rewrite revert_to_here. cbn [fst snd].
    split; [exact Hn|]. split; [lia|]. split; [lia|]. split; [apply weq_sym; exact Hw|]. split; [intro b; symmetry; apply Hd|].
    exact Hs.
  - (* RevertToSnapshot *)
    destruct (find_snap (c_snaps sc) id) as [[wc dc]|] eqn:F.
    + destruct (srel_revert _ _ _ _ _ id wc dc Hs F) as (n & Fn & Hn' & Hw' & Hd' & Hr').
      rewrite Fn. destruct (revert_to (j_w sj) (j_journal sj) n) as [w' jl'] eqn:Er. cbn [fst snd] in *.
      split; [apply weq_sym; exact Hw'|]. split; [intro b; symmetry; apply Hd'|]. split; [exact Hn|exact Hr'].
    + rewrite (srel_find_none _ _ _ _ _ id Hs F). unfold R. auto.
  - (* Finalise *)
    split; [apply finalise_weq; assumption|]. split; [apply seteq_refl|]. split; [exact Hn|exact I].
Qed.

Theorem journal_refines_copy ops : R (c_run ops) (j_run ops).
Proof.
  unfold c_run, j_run.
  assert (H0 : R c0 j0) by (split; [apply weq_refl|]; split; [apply seteq_refl|]; split; [reflexivity|exact I]).
  revert H0. generalize c0 j0. induction ops as [|o ops IH]; intros sc sj H; cbn [fold_left]; [exact H|].
  apply IH. now apply step_R.
Qed.

(* what every reader sees is the same under both semantics, after any sequence of operations *)
Corollary journal_reads_like_copy ops a k :
  exists_ (j_w (j_run ops)) a = exists_ (c_w (c_run ops)) a /\
  nonce_ (j_w (j_run ops)) a = nonce_ (c_w (c_run ops)) a /\
  bal_ (j_w (j_run ops)) a = bal_ (c_w (c_run ops)) a /\
  state_ (j_w (j_run ops)) a k = state_ (c_w (c_run ops)) a k.
Proof.
  destruct (journal_refines_copy ops) as (Hw & _). pose proof (Hw a) as Ha.
  unfold exists_, nonce_, bal_, state_.
  destruct (wget (c_w (c_run ops)) a), (wget (j_w (j_run ops)) a); cbn in Ha; try contradiction; [|repeat split].
  destruct Ha as (A & B & C & D). repeat split; auto.
Qed.

(* and in the copy semantics a revert restores exactly the state at the snapshot *)
Lemma copy_revert_restores s id w d : find_snap (c_snaps s) id = Some (w, d) ->
  c_w (c_step s (ORevert id)) = w /\ c_dirty (c_step s (ORevert id)) = d.
Proof. intro F. cbn [c_step]. rewrite F. split; reflexivity. Qed.
