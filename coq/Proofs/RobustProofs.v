(* Proofs about Model.Node for C08: what a peer's message can and cannot do to the node. *)
From Coq Require Import List NArith ZArith Bool Lia.
From AnnVerif Require Import Base.Res Base.Bytes Model.VoteSet Model.ValSet Model.Node Proofs.BytesProofs Proofs.NodeProofs.
Import ListNotations.
Open Scope Z_scope.

(* the node is unchanged except, possibly, for the proposer cached in its validator set *)
Definition same_but_cache (n n' : node) : Prop :=
  n' = n \/ exists vs', n' = set_vals n vs' /\ exists a, proposer (vals n) = Ok (a, vs').

(* (1) a proposal that is refused - wrong height or round, late, bad POL round, bad part count,
   bad signature - leaves the consensus state as it was *)
Theorem refused_proposal_changes_nothing p signer n n' o code :
  set_proposal p signer n = Ok (n', o) -> In (OErr code) o -> same_but_cache n n'.
Proof.
  unfold set_proposal. destruct (proposal n); [intro E; injection E as <- <-; intros []|].
  destruct (_ || _); [intro E; injection E as <- <-; intros []|].
  destruct (8 <=? step n); [intro E; injection E as <- <-; intros []|].
  destruct (_ && _); [intro E; injection E as <- <-; intros _; left; reflexivity|].
  destruct ((p_total p <? 0) || _); [intro E; injection E as <- <-; intros _; left; reflexivity|].
  destruct (proposer (vals n)) as [[[a|] vs']| |] eqn:Ep; try discriminate.
  destruct (negb _).
  - intro E; injection E as <- <-. intros _. right. exists vs'. split; [reflexivity|]. exists (Some a). exact Ep.
  - destruct (new_pset _ _) as [ps| |]; try discriminate. intro E. injection E as <- <-. intros [].
Qed.
Theorem ignored_proposal_changes_nothing p signer n n' o :
  set_proposal p signer n = Ok (n', o) ->
  (negb (p_height p =? height n) || negb (p_round p =? round n) = true \/ 8 <= step n \/ proposal n <> None) -> n' = n.
Proof.
  unfold set_proposal. intros E H. destruct (proposal n) as [q|]; [injection E as <- _; reflexivity|].
  destruct (_ || _) eqn:E1; [injection E as <- _; reflexivity|].
  destruct (8 <=? step n) eqn:E2; [injection E as <- _; reflexivity|].
  exfalso. destruct H as [H|[H|H]]; [congruence|lia|apply H; reflexivity].
Qed.

(* (2) a proposal never makes the node panic, provided its own validator set has a proposer *)
Theorem proposal_never_panics p signer n w :
  set_proposal p signer n = Panic w -> forall a vs', proposer (vals n) <> Ok (Some a, vs').
Proof.
  unfold set_proposal. destruct (proposal n); [discriminate|].
  destruct (_ || _); [discriminate|]. destruct (8 <=? step n); [discriminate|].
  destruct (_ && _); [discriminate|].
  destruct ((p_total p <? 0) || (22020096 <? p_total p)) eqn:Et; [discriminate|].
  destruct (proposer (vals n)) as [[[a|] vs']| |] eqn:Ep; try discriminate; intros E a0 vs0 H; try discriminate.
  destruct (negb _); [discriminate|].
  unfold new_pset in E. apply orb_false_elim in Et as [Et _]. rewrite Et in E. discriminate.
Qed.

(* (3) a part that is refused - other height, nothing being collected, index out of range, already
   there, proof for another part set - leaves the state as it was and cannot panic *)
Theorem refused_part_changes_nothing c h idx b ok verify n :
  (negb (height n =? h) = true \/ pparts n = None \/
   (exists ps, pparts n = Some ps /\ ((idx <? 0) || (ps_total ps <=? idx) = true \/ existsb (Z.eqb idx) (ps_have ps) = true \/
       verify && negb (Z.eqb (bk_total b) (ps_total ps) && bytes_eqb (bk_phash b) (ps_hash ps)) = true))) ->
  exists o, add_part c h idx b ok verify n = Ok (n, o).
Proof.
  unfold add_part. intros [H|[H|(ps & Hps & H)]].
  - rewrite H. eexists; reflexivity.
  - destruct (negb (height n =? h)); [eexists; reflexivity|]. rewrite H. eexists; reflexivity.
  - destruct (negb (height n =? h)); [eexists; reflexivity|]. rewrite Hps.
    destruct ((idx <? 0) || (ps_total ps <=? idx)); [eexists; reflexivity|].
    destruct (existsb (Z.eqb idx) (ps_have ps)); [eexists; reflexivity|].
    destruct H as [H|[H|H]]; try discriminate. rewrite H. eexists; reflexivity.
Qed.

(* (4) a vote for another height than ours and the one before is refused without any effect *)
Theorem foreign_height_vote_changes_nothing c v peer n :
  v_height v + 1 <> height n -> v_height v <> height n -> add_vote_cs c v peer n = Ok (n, [OErr 10]).
Proof.
  intros H1 H2. unfold add_vote_cs.
  destruct (Z.eqb_spec (v_height v + 1) (height n)); [contradiction|].
  destruct (Z.eqb_spec (v_height v) (height n)); [contradiction|]. reflexivity.
Qed.

(* (5) catch-up rounds: whatever votes a peer sends, the node opens at most two untracked rounds
   on that peer's behalf *)
Definition peers_bounded (h : hvs) : Prop := forall p l, VoteSet.lookup p (hv_peers h) = Some l -> (length l <= 2)%nat.

Lemma lookup_update_same {A} k (v : A) l : VoteSet.lookup k (VoteSet.update k v l) = Some v.
Proof. induction l as [|[k' v'] t IH]; cbn; [rewrite bytes_eqb_refl; reflexivity|]. destruct (bytes_eqb k' k) eqn:E; cbn; [rewrite bytes_eqb_refl; reflexivity|rewrite E; exact IH]. Qed.
Lemma lookup_update_other {A} k k2 (v : A) l : bytes_eqb k k2 = false -> VoteSet.lookup k2 (VoteSet.update k v l) = VoteSet.lookup k2 l.
Proof.
  intro Hne. induction l as [|[k' v'] t IH]; cbn; [rewrite Hne; reflexivity|].
  destruct (bytes_eqb k' k) eqn:E; cbn.
  - rewrite Hne. apply bytes_eqb_eq in E. subst k'. rewrite Hne. reflexivity.
  - destruct (bytes_eqb k' k2); [reflexivity|exact IH].
Qed.

Lemma hv_put_peers h r t vs : hv_peers (hv_put h r t vs) = hv_peers h.
Proof. unfold hv_put. destruct (zlookup r (hv_sets h)); reflexivity. Qed.
Lemma hv_add_round_peers h r h' : hv_add_round h r = Ok h' -> hv_peers h' = hv_peers h.
Proof.
  unfold hv_add_round. destruct (zlookup r (hv_sets h)); [discriminate|].
  destruct (new_voteset (hv_height h) r 1 (hv_vals h)) as [a|e1|w1]; destruct (new_voteset (hv_height h) r 2 (hv_vals h)) as [b|e2|w2]; try discriminate.
  intro E. injection E as <-. reflexivity.
Qed.

Theorem catchup_rounds_bounded h v peer h' a c : peers_bounded h -> hv_add_vote h v peer = Ok (h', a, c) -> peers_bounded h'.
Proof.
  intros Hb. unfold hv_add_vote. destruct (negb _); [intro E; injection E as <- _ _; exact Hb|].
  assert (Hgo : forall h1, peers_bounded h1 ->
            (match hv_get h1 (v_round v) (v_type v) with
             | None => Panic 34
             | Some vs => match add_vote vs v with
                          | Ok (vs', added, code) => Ok (hv_put h1 (v_round v) (v_type v) vs', added, code)
                          | Err e => Err e | Panic w => Panic w end
             end) = Ok (h', a, c) -> peers_bounded h').
  { intros h1 Hb1. destruct (hv_get h1 (v_round v) (v_type v)) as [vs|]; [|discriminate].
    destruct (add_vote vs v) as [[[vs' ad] cd]| |]; try discriminate. intro E. injection E as <- _ _.
    unfold peers_bounded. rewrite hv_put_peers. exact Hb1. }
  destruct (hv_get h (v_round v) (v_type v)) eqn:Eg.
  - intro E. apply (Hgo h Hb). rewrite Eg. exact E.
  - destruct (Nat.ltb_spec (length (match VoteSet.lookup peer (hv_peers h) with Some l => l | None => [] end)) 2) as [Hlt|Hge];
      [|intro E; injection E as <- _ _; exact Hb].
    destruct (hv_add_round h (v_round v)) as [h1| |] eqn:E1; try discriminate. intro E.
    apply Hgo in E; [exact E|]. unfold peers_bounded. cbn. rewrite (hv_add_round_peers _ _ _ E1).
    intros p l Hl. destruct (bytes_eqb peer p) eqn:Ep.
    + apply bytes_eqb_eq in Ep. subst p. rewrite lookup_update_same in Hl. injection Hl as <-.
      rewrite app_length. cbn. lia.
    + rewrite lookup_update_other in Hl by exact Ep. eapply Hb; exact Hl.
Qed.
