(* Proofs about Model.Rlp: decoding an encoding gives the item back (for every tail), and the
   encoding is the only byte string that decodes to an item (canonical uniqueness). *)
From Coq Require Import List NArith ZArith Lia Bool Arith ZifyN ZifyNat ZifyBool.
From AnnVerif Require Import Base.Bytes Model.Rlp Proofs.BytesProofs.
Import ListNotations.
Open Scope N_scope.

Lemma item_ind2 (P : item -> Prop) :
  (forall b, P (IStr b)) -> (forall l, Forall P l -> P (IList l)) -> forall it, P it.
Proof.
  intros H1 H2. fix IH 1. intros [b|l]; [apply H1|]. apply H2.
  induction l as [|x l IHl]; constructor; [apply IH|exact IHl].
Qed.

Definition wfb (b : bytes) : Prop := Forall (fun x => x < 256) b.

(* ---------- minimal big-endian numbers ---------- *)
Lemma be_bytes_wf k v : wfb (be_bytes k v).
Proof.
  revert v; induction k as [|k IH]; intro v; cbn [be_bytes]; [constructor|].
  apply Forall_app. split; [apply IH|]. constructor; [apply N.mod_lt; lia|constructor].
Qed.

Lemma usize_lower v : 0 < v -> 256 ^ N.of_nat (usize v - 1) <= v.
Proof.
  intro Hv. unfold usize. destruct (N.ltb_spec v 18446744073709551616) as [Hs|Hb].
  - unfold usize_go. destruct (N.eqb_spec v 0); [lia|].
    repeat match goal with
    | |- context [if ?a <? ?b then _ else _] => destruct (N.ltb_spec a b); [cbn; lia|]
    end. cbn. lia.
  - assert (Hx : N.of_nat (N.to_nat (N.log2 v / 8 + 1) - 1) = N.log2 v / 8) by (generalize (N.log2 v / 8); intro x; lia). rewrite Hx.
    change 256 with (2 ^ 8). rewrite <- N.pow_mul_r.
    destruct (N.log2_spec v Hv) as [Hlo _].
    eapply N.le_trans; [|exact Hlo]. apply N.pow_le_mono_r; [lia|].
    pose proof (N.div_mod (N.log2 v) 8 ltac:(lia)). lia.
Qed.

Lemma usize_pos v : 0 < v -> (0 < usize v)%nat.
Proof.
  intro Hv. pose proof (usize_bound v) as Hb. destruct (usize v); [cbn in Hb; lia|lia].
Qed.

Lemma be_bytes_head k v : be_bytes (S k) v = (v / 256 ^ N.of_nat k) mod 256 :: be_bytes k v.
Proof.
  revert v; induction k as [|k IH]; intro v.
  - cbn. rewrite N.div_1_r. reflexivity.
  - change (be_bytes (S (S k)) v) with (be_bytes (S k) (v / 256) ++ [v mod 256]). rewrite IH.
    cbn [app]. f_equal.
    rewrite Nat2N.inj_succ, N.pow_succ_r', N.div_div by (try apply N.pow_nonzero; lia). reflexivity.
Qed.

Lemma be_min_spec v : 0 < v ->
  exists b0 t, be_min v = b0 :: t /\ b0 <> 0 /\ be_val (be_min v) = v /\ wfb (be_min v) /\ length (be_min v) = usize v.
Proof.
  intro Hv. unfold be_min. pose proof (usize_pos v Hv) as Hp. pose proof (usize_bound v) as Hub. pose proof (usize_lower v Hv) as Hlo.
  destruct (usize v) as [|k] eqn:Ek; [lia|]. rewrite be_bytes_head.
  eexists. eexists. split; [reflexivity|]. replace (S k - 1)%nat with k in Hlo by lia.
  assert (Hq : v / 256 ^ N.of_nat k < 256).
  { apply N.div_lt_upper_bound; [apply N.pow_nonzero; lia|]. rewrite Nat2N.inj_succ, N.pow_succ_r' in Hub. lia. }
  split.
  - rewrite N.mod_small by exact Hq. intro E. apply N.div_small_iff in E; [lia|apply N.pow_nonzero; lia].
  - rewrite <- be_bytes_head. split; [rewrite be_val_be_bytes; apply N.mod_small; exact Hub|].
    split; [apply be_bytes_wf|apply be_bytes_length].
Qed.

Lemma usize_le8 v : v < 18446744073709551616 -> (usize v <= 8)%nat.
Proof.
  intro H. rewrite usize_is_go by exact H. unfold usize_go. destruct (v =? 0); [lia|].
  repeat match goal with
  | |- context [if ?a <? ?b then _ else _] => destruct (a <? b); [lia|]
  end. lia.
Qed.

(* ---------- well-formed items: what a Go program can hold ---------- *)
Definition small_len (n : nat) : Prop := N.of_nat n < 18446744073709551616.

Fixpoint wf_item (it : item) : Prop :=
  match it with
  | IStr b => wfb b /\ small_len (length b)
  | IList l => small_len (length (concat (map enc l))) /\ (fix all (l : list item) := match l with [] => True | x :: t => wf_item x /\ all t end) l
  end.

Lemma wf_list l : wf_item (IList l) -> Forall wf_item l.
Proof. intros [_ H]. induction l as [|x t IH]; constructor; [apply H|apply IH; apply H]. Qed.

(* ---------- headers ---------- *)
(* reading back the header written by enc_len for a payload that follows *)
Lemma read_size_enc n (rest : bytes) : (56 <= n)%nat -> small_len n -> (n <= length rest)%nat ->
  read_size (length (be_min (N.of_nat n))) (be_min (N.of_nat n) ++ rest) = Some (n, rest).
Proof.
  intros Hn Hs Hfit. destruct (be_min_spec (N.of_nat n) ltac:(lia)) as (b0 & t & Eb & Hb0 & Hval & Hwf & Hlen).
  unfold read_size. rewrite app_length.
  replace (Nat.ltb (length (be_min (N.of_nat n)) + length rest) (length (be_min (N.of_nat n)))) with false by (symmetry; apply Nat.ltb_ge; lia).
  rewrite firstn_app, Nat.sub_diag, firstn_all. cbn [firstn]. rewrite app_nil_r.
  rewrite Eb. rewrite <- Eb.
  replace (b0 =? 0) with false by (symmetry; apply N.eqb_neq; exact Hb0). rewrite andb_false_r.
  rewrite Hval. replace (N.of_nat n <? 56) with false by (symmetry; apply N.ltb_ge; lia).
  rewrite Nat2N.id. rewrite skipn_app, Nat.sub_diag, skipn_all. cbn [skipn List.app].
  replace (N.of_nat (length rest) <? N.of_nat n) with false by (symmetry; apply N.ltb_ge; lia).
  reflexivity.
Qed.

Lemma enc_len_first off n : (off = 128 \/ off = 192) -> small_len n ->
  exists h t, enc_len off n = h :: t /\
    ((n < 56)%nat /\ h = off + N.of_nat n /\ t = []) \/
    ((56 <= n)%nat /\ h = off + 55 + N.of_nat (length (be_min (N.of_nat n))) /\ t = be_min (N.of_nat n) /\
     (1 <= length (be_min (N.of_nat n)) <= 8)%nat).
Proof.
  intros Hoff Hs. unfold enc_len. destruct (Nat.ltb_spec n 56).
  - eexists. eexists. left. repeat split; auto.
  - eexists. eexists. right. repeat split; auto.
    + destruct (be_min_spec (N.of_nat n) ltac:(lia)) as (b0 & t & Eb & _). rewrite Eb. cbn. lia.
    + destruct (be_min_spec (N.of_nat n) ltac:(lia)) as (_ & _ & _ & _ & _ & _ & Hl). rewrite Hl. apply usize_le8. exact Hs.
Qed.

(* ---------- decode (encode it) = it ---------- *)
Fixpoint depth (it : item) : nat :=
  match it with
  | IStr _ => O
  | IList l => S (fold_right (fun x a => Nat.max (depth x) a) O l)
  end.

Lemma enc_len_nonempty off n : enc_len off n <> [].
Proof. unfold enc_len. destruct (Nat.ltb n 56); discriminate. Qed.

Lemma enc_nonempty it : enc it <> [].
Proof.
  destruct it as [b|l]; cbn [enc].
  - unfold enc_str. destruct b as [|x [|y t]].
    + cbn. discriminate.
    + destruct (x <? 128); discriminate.
    + intro E. apply app_eq_nil in E as [E _]. exact (enc_len_nonempty _ _ E).
  - intro E. apply app_eq_nil in E as [E _]. exact (enc_len_nonempty _ _ E).
Qed.

Lemma concat_enc_length l : (length l <= length (concat (map enc l)))%nat.
Proof.
  induction l as [|x t IH]; cbn [map concat length]; [lia|]. rewrite app_length.
  pose proof (enc_nonempty x). destruct (enc x); [congruence|cbn [length]; lia].
Qed.

Lemma dec_items_enc (decf : bytes -> option (item * bytes)) l :
  Forall (fun x => forall rest, decf (enc x ++ rest) = Some (x, rest)) l ->
  forall k, (length l <= k)%nat -> dec_items decf k (concat (map enc l)) = Some l.
Proof.
  induction 1 as [|x t Hx Ht IH]; intros k Hk; cbn [map concat]; [destruct k; reflexivity|].
  pose proof (enc_nonempty x) as Hne.
  destruct (enc x ++ concat (map enc t)) as [|c r] eqn:E; [apply app_eq_nil in E as [E _]; congruence|].
  destruct k as [|k]; [cbn in Hk; lia|]. cbn [dec_items]. rewrite <- E, Hx, IH by (cbn in Hk; lia). reflexivity.
Qed.

Lemma firstn_app_exact {A} (a b : list A) : firstn (length a) (a ++ b) = a.
Proof. rewrite firstn_app, Nat.sub_diag, firstn_all. cbn. apply app_nil_r. Qed.
Lemma skipn_app_exact {A} (a b : list A) : skipn (length a) (a ++ b) = b.
Proof. rewrite skipn_app, Nat.sub_diag, skipn_all. reflexivity. Qed.

(* the header of a string / list followed by its payload is read back *)
Lemma header_roundtrip off n (payload rest : bytes) : (off = 128 \/ off = 192) -> length payload = n -> small_len n ->
  exists h t, enc_len off n ++ payload ++ rest = h :: t /\ off <= h /\ h < off + 64 /\
    (if h <? off + 56 then Some (N.to_nat (h - off), t) else read_size (N.to_nat (h - (off + 55))) t) = Some (n, payload ++ rest).
Proof.
  intros Hoff Hl Hs. unfold enc_len. destruct (Nat.ltb_spec n 56) as [Hlt|Hge].
  - eexists. eexists. cbn [app]. split; [reflexivity|]. split; [lia|]. split; [lia|].
    replace (off + N.of_nat n <? off + 56) with true by (symmetry; apply N.ltb_lt; lia).
    f_equal. f_equal. lia.
  - destruct (be_min_spec (N.of_nat n) ltac:(lia)) as (b0 & t & Eb & Hb0 & Hval & Hwf & Hlen).
    assert (Hll : (1 <= length (be_min (N.of_nat n)) <= 8)%nat).
    { rewrite Hlen. split; [apply usize_pos; lia|apply usize_le8; exact Hs]. }
    eexists. eexists. cbn [app]. split; [reflexivity|]. split; [lia|]. split; [lia|].
    replace (off + 55 + N.of_nat (length (be_min (N.of_nat n))) <? off + 56) with false by (symmetry; apply N.ltb_ge; lia).
    replace (N.to_nat (off + 55 + N.of_nat (length (be_min (N.of_nat n))) - (off + 55))) with (length (be_min (N.of_nat n))) by lia.
    apply read_size_enc; try assumption. rewrite app_length. lia.
Qed.

Theorem dec_enc : forall it, wf_item it -> forall rest fuel, (depth it < fuel)%nat ->
  dec_f fuel (enc it ++ rest) = Some (it, rest).
Proof.
  induction it as [b|l IHl] using item_ind2; intros Hwf rest fuel Hf; (destruct fuel as [|f]; [lia|]).
  - destruct Hwf as [Hb Hs]. cbn [enc]. unfold enc_str.
    destruct b as [|x [|y t]].
    + (* empty string: 0x80 *)
      cbn. reflexivity.
    + inversion Hb as [|? ? Hx _]; subst. destruct (N.ltb_spec x 128) as [Hlt|Hge].
      * cbn [app dec_f]. replace (x <? 128) with true by (symmetry; apply N.ltb_lt; exact Hlt). reflexivity.
      * cbn [app dec_f]. change (129 <? 128) with false. change (129 <? 184) with true. cbv iota.
        change (N.to_nat (129 - 128)) with 1%nat. cbn [length Nat.ltb Nat.leb firstn skipn].
        replace (x <? 128) with false by (symmetry; apply N.ltb_ge; exact Hge). reflexivity.
    + remember (x :: y :: t) as b eqn:Eb.
      assert (Hb2 : (2 <= length b)%nat) by (subst b; cbn; lia). clear Eb x y t Hb.
      destruct (header_roundtrip 128 (length b) b rest (or_introl eq_refl) eq_refl Hs) as (h & tl & Eh & Hlo & Hhi & Hd).
      rewrite <- app_assoc, Eh. cbn [dec_f].
      replace (h <? 128) with false by (symmetry; apply N.ltb_ge; lia).
      change (128 + 56) with 184 in Hd. change (128 + 55) with 183 in Hd.
      destruct (N.ltb_spec h 184) as [Hsh|Hlg].
      * injection Hd as Hn Ht. rewrite Hn, Ht. rewrite app_length.
        replace (Nat.ltb (length b + length rest) (length b)) with false by (symmetry; apply Nat.ltb_ge; lia).
        rewrite firstn_app_exact, skipn_app_exact. destruct b as [|x0 [|y0 t0]]; cbn in Hb2; try lia; reflexivity.
      * replace (h <? 192) with true by (symmetry; apply N.ltb_lt; lia). rewrite Hd. rewrite app_length.
        replace (Nat.ltb (length b + length rest) (length b)) with false by (symmetry; apply Nat.ltb_ge; lia).
        rewrite firstn_app_exact, skipn_app_exact. reflexivity.
  - pose proof (wf_list l Hwf) as Hall. destruct Hwf as [Hs _]. cbn [enc]. set (p := concat (map enc l)) in *.
    destruct (header_roundtrip 192 (length p) p rest (or_intror eq_refl) eq_refl Hs) as (h & tl & Eh & Hlo & Hhi & Hd).
    rewrite <- app_assoc, Eh. cbn [dec_f].
    replace (h <? 128) with false by (symmetry; apply N.ltb_ge; lia).
    replace (h <? 184) with false by (symmetry; apply N.ltb_ge; lia).
    replace (h <? 192) with false by (symmetry; apply N.ltb_ge; lia).
    change (192 + 56) with 248 in Hd. change (192 + 55) with 247 in Hd. rewrite Hd. rewrite app_length.
    replace (Nat.ltb (length p + length rest) (length p)) with false by (symmetry; apply Nat.ltb_ge; lia).
    rewrite firstn_app_exact, skipn_app_exact. unfold p at 2.
    rewrite (dec_items_enc (dec_f f) l); [reflexivity| |apply concat_enc_length].
    (* every element decodes with the remaining fuel *)
    cbn [depth] in Hf. apply Forall_forall. intros x Hx rest'.
    rewrite Forall_forall in IHl, Hall. apply IHl; [exact Hx|apply Hall; exact Hx|].
    assert (Hd' : (depth x <= fold_right (fun x a => Nat.max (depth x) a) O l)%nat).
    { clear -Hx. induction l as [|y t IH]; [contradiction|]. cbn. destruct Hx as [->|Hx]; [lia|]. specialize (IH Hx). lia. }
    lia.
Qed.

Lemma depth_lt_length it : (depth it <= length (enc it))%nat.
Proof.
  induction it as [b|l IH] using item_ind2.
  - cbn [depth]. lia.
  - cbn [depth enc]. rewrite app_length.
    assert (Hh : (1 <= length (enc_len 192 (length (concat (map enc l)))))%nat).
    { pose proof (enc_len_nonempty 192 (length (concat (map enc l)))). destruct (enc_len _ _); [congruence|cbn; lia]. }
    assert (Hm : (fold_right (fun x a => Nat.max (depth x) a) O l <= length (concat (map enc l)))%nat).
    { clear Hh. induction IH as [|x t Hx Ht IHt]; cbn [fold_right map concat length]; [lia|]. rewrite app_length. apply Nat.max_lub; lia. }
    lia.
Qed.

(* DecodeBytes (EncodeToBytes it) = it *)
Theorem decode_encode it : wf_item it -> decode (enc it) = Some it.
Proof.
  intro Hwf. unfold decode. rewrite <- (app_nil_r (enc it)) at 2.
  rewrite dec_enc; [reflexivity|exact Hwf|]. pose proof (depth_lt_length it). lia.
Qed.

(* ---------- canonical uniqueness: only enc it decodes to it ---------- *)
Lemma be_val_aux_bound l : forall acc, wfb l -> be_val_aux acc l < (acc + 1) * 256 ^ N.of_nat (length l).
Proof.
  induction l as [|x l IH]; intros acc Hw; cbn [be_val_aux length]; [cbn; lia|].
  inversion Hw as [|? ? Hx Hl]; subst. specialize (IH (acc * 256 + x) Hl).
  rewrite Nat2N.inj_succ, N.pow_succ_r'. nia.
Qed.
Lemma be_val_aux_lower l : forall acc, acc * 256 ^ N.of_nat (length l) <= be_val_aux acc l.
Proof.
  induction l as [|x l IH]; intros acc; cbn [be_val_aux length]; [cbn; lia|].
  specialize (IH (acc * 256 + x)). rewrite Nat2N.inj_succ, N.pow_succ_r'. nia.
Qed.

Lemma be_bytes_be_val l : wfb l -> be_bytes (length l) (be_val l) = l.
Proof.
  unfold be_val. induction l as [|x l IH] using rev_ind; intro Hw; [reflexivity|].
  apply Forall_app in Hw as [Hl Hx]. inversion Hx as [|? ? Hx' _]; subst.
  rewrite app_length. cbn [length]. rewrite Nat.add_1_r. cbn [be_bytes].
  rewrite be_val_aux_app.
  assert (Hd : (be_val_aux 0 l * 256 + x) / 256 = be_val_aux 0 l).
  { rewrite N.div_add_l by lia. rewrite (N.div_small x 256) by exact Hx'. lia. }
  assert (Hm : (be_val_aux 0 l * 256 + x) mod 256 = x).
  { rewrite N.add_comm, N.mod_add by lia. apply N.mod_small. exact Hx'. }
  rewrite Hd, Hm.
  rewrite IH by exact Hl. reflexivity.
Qed.

Lemma usize_unique v k : 0 < v -> (0 < k)%nat -> 256 ^ N.of_nat (k - 1) <= v -> v < 256 ^ N.of_nat k -> usize v = k.
Proof.
  intros Hv Hk Hlo Hhi. pose proof (usize_bound v) as B. pose proof (usize_lower v Hv) as L. pose proof (usize_pos v Hv) as P.
  destruct (Nat.lt_trichotomy (usize v) k) as [H|[H|H]]; [exfalso|exact H|exfalso].
  - assert (256 ^ N.of_nat (usize v) <= 256 ^ N.of_nat (k - 1)) by (apply N.pow_le_mono_r; lia). lia.
  - assert (256 ^ N.of_nat k <= 256 ^ N.of_nat (usize v - 1)) by (apply N.pow_le_mono_r; lia). lia.
Qed.

(* a length field accepted by read_size is the minimal encoding of its value *)
Lemma read_size_canonical ll rest n rest' : wfb rest -> (1 <= ll)%nat ->
  read_size ll rest = Some (n, rest') ->
  exists lb, rest = lb ++ rest' /\ length lb = ll /\ be_min (N.of_nat n) = lb /\ (56 <= n)%nat.
Proof.
  intros Hw Hll. unfold read_size. destruct (Nat.ltb_spec (length rest) ll) as [|Hlen]; [discriminate|].
  destruct (firstn ll rest) as [|b0 t] eqn:Ef; [discriminate|].
  destruct ((Nat.ltb 1 ll) && (b0 =? 0)) eqn:Ez; [discriminate|].
  destruct (N.ltb_spec (be_val (b0 :: t)) 56) as [|Hv]; [discriminate|].
  destruct (N.of_nat (length (skipn ll rest)) <? be_val (b0 :: t)); [discriminate|]. intro E. injection E as <- <-.
  exists (b0 :: t). rewrite <- Ef in Hv |- *.
  assert (Hfl : length (firstn ll rest) = ll) by (rewrite firstn_length; lia).
  assert (Hwf : wfb (firstn ll rest)).
  { unfold wfb in *. apply Forall_forall. intros x Hx. eapply Forall_forall in Hw; [exact Hw|]. clear -Hx. revert ll Hx. induction rest as [|y r IH]; intros [|ll] Hx; cbn in *; try tauto. destruct Hx; eauto. }
  split; [symmetry; apply firstn_skipn|]. split; [exact Hfl|]. split; [|lia].
  rewrite N2Nat.id. unfold be_min.
  assert (Hus : usize (be_val (firstn ll rest)) = ll).
  { apply usize_unique; [lia|lia| |].
    - rewrite Ef in *. unfold be_val. cbn [be_val_aux]. cbn [length] in Hfl.
      destruct (Nat.ltb_spec 1 ll) as [Hgt|Hle].
      + cbn [andb] in Ez. apply N.eqb_neq in Ez.
        pose proof (be_val_aux_lower t (0 * 256 + b0)) as Hlow. replace (ll - 1)%nat with (length t) by lia.
        assert (1 <= 0 * 256 + b0) by lia. nia.
      + assert (Hl1 : ll = 1%nat) by lia. rewrite Hl1 in *. destruct t; [|cbn in Hfl; lia]. unfold be_val in Hv. cbn in Hv |- *. lia.
    - pose proof (be_val_aux_bound (firstn ll rest) 0 Hwf) as Hb. unfold be_val. rewrite Hfl in Hb. lia. }
  rewrite Hus. rewrite <- Hfl at 1. apply be_bytes_be_val. exact Hwf.
Qed.

Lemma wfb_firstn n l : wfb l -> wfb (firstn n l).
Proof. revert n; induction l as [|x l IH]; intros [|n] H; cbn; try (constructor; fail); inversion H; subst; constructor; auto. apply IH; assumption. Qed.
Lemma wfb_skipn n l : wfb l -> wfb (skipn n l).
Proof. revert n; induction l as [|x l IH]; intros [|n] H; cbn; auto. inversion H; subst; auto. Qed.

Lemma dec_items_canonical (decf : bytes -> option (item * bytes)) :
  (forall p it p', wfb p -> decf p = Some (it, p') -> p = enc it ++ p') ->
  forall k p l, wfb p -> dec_items decf k p = Some l -> p = concat (map enc l).
Proof.
  intros Hd. induction k as [|k IH]; intros p l Hw; cbn [dec_items].
  - destruct p; [intro E; injection E as <-; reflexivity|discriminate].
  - destruct p as [|c r]; [intro E; injection E as <-; reflexivity|].
    destruct (decf (c :: r)) as [[it p']|] eqn:E1; [|discriminate].
    destruct (dec_items decf k p') as [l'|] eqn:E2; [|discriminate]. intro E. injection E as <-.
    pose proof (Hd _ _ _ Hw E1) as Hp. rewrite Hp. cbn [map concat]. f_equal.
    apply IH; [|exact E2]. rewrite Hp in Hw. apply Forall_app in Hw. apply Hw.
Qed.

Lemma enc_str_long s : (2 <= length s)%nat -> enc_str s = enc_len 128 (length s) ++ s.
Proof. destruct s as [|x [|y t]]; cbn [length]; intro H; try lia. reflexivity. Qed.

Theorem dec_canonical : forall fuel bs it rest, wfb bs -> dec_f fuel bs = Some (it, rest) -> bs = enc it ++ rest.
Proof.
  induction fuel as [|f IH]; intros bs it rest Hw; [discriminate|]. cbn [dec_f].
  destruct bs as [|b0 r]; [discriminate|]. inversion Hw as [|? ? Hb0 Hr]; subst.
  destruct (N.ltb_spec b0 128) as [H1|H1].
  { intro E. injection E as <- <-. cbn [enc enc_str]. replace (b0 <? 128) with true by (symmetry; apply N.ltb_lt; exact H1). reflexivity. }
  destruct (N.ltb_spec b0 184) as [H2|H2].
  { remember (N.to_nat (b0 - 128)) as n eqn:En. destruct (Nat.ltb_spec (length r) n) as [|Hlen]; [discriminate|].
    assert (Hfl : length (firstn n r) = n) by (rewrite firstn_length; lia).
    assert (Hn : (n < 56)%nat) by lia.
    assert (Hb : b0 = 128 + N.of_nat n) by lia.
    assert (Hshort : enc_len 128 n = [b0]) by (unfold enc_len; replace (Nat.ltb n 56) with true by (symmetry; apply Nat.ltb_lt; exact Hn); rewrite Hb; reflexivity).
    destruct (firstn n r) as [|x [|y t]] eqn:Ef.
    - intro E. injection E as <- <-. cbn [enc enc_str length]. cbn [length] in Hfl. rewrite Hfl. rewrite Hshort. cbn [app].
      f_equal. rewrite <- (firstn_skipn n r) at 1. rewrite Ef. reflexivity.
    - destruct (N.ltb_spec x 128) as [|Hx]; [discriminate|]. intro E. injection E as <- <-.
      cbn [enc enc_str]. replace (x <? 128) with false by (symmetry; apply N.ltb_ge; exact Hx). cbn [length] in Hfl.
      cbn [app]. f_equal; [lia|]. rewrite <- (firstn_skipn n r) at 1. rewrite Ef. reflexivity.
    - intro E. injection E as <- <-. cbn [enc enc_str]. rewrite Hfl, Hshort. cbn [app]. f_equal.
      rewrite <- (firstn_skipn n r) at 1. rewrite Ef. reflexivity. }
  destruct (N.ltb_spec b0 192) as [H3|H3].
  { destruct (read_size (N.to_nat (b0 - 183)) r) as [[n rest']|] eqn:Ers; [|discriminate].
    assert (Hl1 : (1 <= N.to_nat (b0 - 183))%nat) by lia.
    destruct (read_size_canonical _ _ _ _ Hr Hl1 Ers) as (lb & Er & Hll & Hmin & Hn56).
    destruct (Nat.ltb_spec (length rest') n) as [|Hlen]; [discriminate|]. intro E. injection E as <- <-.
    assert (Hfl : length (firstn n rest') = n) by (rewrite firstn_length; lia).
    cbn [enc]. rewrite enc_str_long by lia. rewrite Hfl. unfold enc_len. replace (Nat.ltb n 56) with false by (symmetry; apply Nat.ltb_ge; exact Hn56).
    rewrite Hmin, Hll. cbn [app]. f_equal; [lia|]. rewrite Er, <- app_assoc. f_equal. symmetry. apply firstn_skipn. }
  (* lists *)
  set (hdr := if b0 <? 248 then Some (N.to_nat (b0 - 192), r) else read_size (N.to_nat (b0 - 247)) r).
  destruct hdr as [[n rest']|] eqn:Eh; [|discriminate].
  destruct (Nat.ltb_spec (length rest') n) as [|Hlen]; [discriminate|].
  destruct (dec_items (dec_f f) (length (firstn n rest')) (firstn n rest')) as [l|] eqn:Ei; [|discriminate].
  intro E. injection E as <- <-.
  assert (Hrw : wfb rest').
  { unfold hdr in Eh. destruct (b0 <? 248); [injection Eh as _ <-; exact Hr|].
    unfold read_size in Eh. destruct (Nat.ltb _ _); [discriminate|]. destruct (firstn _ r); [discriminate|].
    destruct (_ && _); [discriminate|]. destruct (_ <? 56); [discriminate|]. destruct (_ <? _); [discriminate|].
    injection Eh as _ <-. apply wfb_skipn. exact Hr. }
  pose proof (dec_items_canonical (dec_f f) (fun p it p' Hp Hd => IH p it p' Hp Hd) _ _ _ (wfb_firstn n rest' Hrw) Ei) as Hpay.
  assert (Hfl : length (firstn n rest') = n) by (rewrite firstn_length; lia).
  cbn [enc]. rewrite <- Hpay, Hfl.
  unfold hdr in Eh. destruct (N.ltb_spec b0 248) as [H4|H4].
  - injection Eh as <- <-. unfold enc_len.
    replace (Nat.ltb (N.to_nat (b0 - 192)) 56) with true by (symmetry; apply Nat.ltb_lt; lia).
    cbn [app]. f_equal; [lia|]. symmetry. apply firstn_skipn.
  - assert (Hb255 : b0 < 256) by exact Hb0.
    assert (Hl1 : (1 <= N.to_nat (b0 - 247))%nat) by lia.
    destruct (read_size_canonical _ _ _ _ Hr Hl1 Eh) as (lb & Er & Hll & Hmin & Hn56).
    unfold enc_len. replace (Nat.ltb n 56) with false by (symmetry; apply Nat.ltb_ge; exact Hn56).
    rewrite Hmin, Hll. cbn [app]. f_equal; [lia|]. rewrite Er, <- app_assoc. f_equal. symmetry. apply firstn_skipn.
Qed.

(* DecodeBytes accepts exactly the canonical encodings *)
Theorem decode_canonical bs it : wfb bs -> decode bs = Some it -> bs = enc it.
Proof.
  intros Hw. unfold decode. destruct (dec_f (S (length bs)) bs) as [[it' rest]|] eqn:E; [|discriminate].
  destruct rest; [|discriminate]. intro H. injection H as <-.
  rewrite (dec_canonical _ _ _ _ Hw E). apply app_nil_r.
Qed.
