(* Proofs about Model.Node (C04 locking discipline, used by C01/C07):
   - a +2/3 prevote majority seen by the node never disappears or changes (within a height);
   - the prevote rule, the precommit rule and the commit rule of the state functions;
   - the lock invariant: a locked node has seen +2/3 prevotes for its locked block in its lock
     round, and every step either keeps the lock on the same block (lock round not decreasing),
     or leaves a +2/3 prevote majority for something else in a later round in the node's vote
     sets, or moves to the next height. *)
From Coq Require Import List NArith ZArith Bool Lia.
From AnnVerif Require Import Base.Res Base.Bytes Model.VoteSet Model.ValSet Model.Node
  Proofs.BytesProofs Proofs.VoteSetProofs.
Import ListNotations.
Open Scope Z_scope.

(* ---------- vote sets only grow ---------- *)
Definition polka_at (h : hvs) (r : Z) (x : block_id) : Prop := maj23 (hv_prevotes h r) = Some x.
Definition commit_at (h : hvs) (r : Z) (x : block_id) : Prop := maj23 (hv_precommits h r) = Some x.
Definition hv_le (h h' : hvs) : Prop :=
  (forall r x, polka_at h r x -> polka_at h' r x) /\ (forall r x, commit_at h r x -> commit_at h' r x).

Lemma hv_le_refl h : hv_le h h. Proof. split; auto. Qed.
Lemma hv_le_trans a b c : hv_le a b -> hv_le b c -> hv_le a c.
Proof. intros [A1 A2] [B1 B2]. split; auto. Qed.

Lemma zlookup_app_some {A} k (l1 l2 : list (Z * A)) v : zlookup k l1 = Some v -> zlookup k (l1 ++ l2) = Some v.
Proof. induction l1 as [|[k' v'] t IH]; cbn; [discriminate|]. destruct (k' =? k); auto. Qed.
Lemma zlookup_zupdate_eq {A} k (v : A) l : zlookup k (zupdate k v l) = Some v.
Proof. induction l as [|[k' v'] t IH]; cbn; [rewrite Z.eqb_refl; reflexivity|]. destruct (k' =? k) eqn:E; cbn; [rewrite Z.eqb_refl; reflexivity|rewrite E; exact IH]. Qed.
Lemma zlookup_zupdate_neq {A} k k2 (v : A) l : k <> k2 -> zlookup k2 (zupdate k v l) = zlookup k2 l.
Proof.
  intro Hne. induction l as [|[k' v'] t IH]; cbn.
  - destruct (Z.eqb_spec k k2); [contradiction|reflexivity].
  - destruct (Z.eqb_spec k' k) as [->|]; cbn.
    + destruct (Z.eqb_spec k k2); [contradiction|reflexivity].
    + destruct (k' =? k2); [reflexivity|exact IH].
Qed.

Lemma hv_add_round_le h r h' : hv_add_round h r = Ok h' -> hv_le h h' /\ hv_round h' = hv_round h /\ hv_height h' = hv_height h.
Proof.
  unfold hv_add_round. destruct (zlookup r (hv_sets h)); [discriminate|].
  destruct (new_voteset (hv_height h) r 1 (hv_vals h)) as [a|e1|w1]; destruct (new_voteset (hv_height h) r 2 (hv_vals h)) as [b|e2|w2]; try discriminate.
  intro E. injection E as <-. cbn. repeat split; unfold polka_at, commit_at, hv_prevotes, hv_precommits; cbn; intros r0 x H;
    (destruct (zlookup r0 (hv_sets h)) as [rv|] eqn:El; [erewrite zlookup_app_some by exact El; exact H|discriminate]).
Qed.

Lemma hv_add_rounds_le count : forall h from h', hv_add_rounds h from count = Ok h' ->
  hv_le h h' /\ hv_round h' = hv_round h /\ hv_height h' = hv_height h.
Proof.
  induction count as [|c IH]; intros h from h'; cbn [hv_add_rounds].
  - intro E. injection E as <-. split; [apply hv_le_refl|auto].
  - destruct (zlookup from (hv_sets h)); [apply IH|].
    destruct (hv_add_round h from) as [h1| |] eqn:E1; try discriminate. intro E2.
    destruct (hv_add_round_le _ _ _ E1) as (L1 & R1 & H1). destruct (IH _ _ _ E2) as (L2 & R2 & H2).
    split; [eapply hv_le_trans; eauto|split; congruence].
Qed.

Lemma hv_set_round_le h r h' : hv_set_round h r = Ok h' -> hv_le h h' /\ hv_height h' = hv_height h.
Proof.
  unfold hv_set_round. destruct (_ && _); [discriminate|].
  destruct (hv_add_rounds _ _ _) as [h1| |] eqn:E; try discriminate. intro E2. injection E2 as <-.
  destruct (hv_add_rounds_le _ _ _ _ E) as (L & _ & Hh). split; [|exact Hh].
  destruct L as [L1 L2]. split; intros r0 x H; [apply L1 in H|apply L2 in H]; exact H.
Qed.

Lemma hv_put_get_other h r t vs r' : r <> r' ->
  hv_prevotes (hv_put h r t vs) r' = hv_prevotes h r' /\ hv_precommits (hv_put h r t vs) r' = hv_precommits h r'.
Proof.
  intro Hne. unfold hv_put, hv_prevotes, hv_precommits. destruct (zlookup r (hv_sets h)); [|auto]. cbn.
  rewrite zlookup_zupdate_neq by exact Hne. auto.
Qed.

Lemma hv_put_le h r t vs old : hv_get h r t = Some old ->
  (forall b, vs_maj23 old = Some b -> vs_maj23 vs = Some b) -> hv_le h (hv_put h r t vs).
Proof.
  intros Hget Hkeep. unfold hv_get in Hget.
  split; intros r0 x H; unfold polka_at, commit_at in *;
    (destruct (Z.eq_dec r r0) as [<-|Hne];
     [|destruct (hv_put_get_other h r t vs r0 Hne) as [E1 E2]; rewrite ?E1, ?E2; exact H]).
  - unfold hv_put, hv_prevotes, hv_precommits in *. destruct (zlookup r (hv_sets h)) as [rv|] eqn:El; [|destruct (N.eqb t 1); discriminate]. cbn in *.
    rewrite zlookup_zupdate_eq. cbn. destruct (N.eqb t 1); cbn; [|exact H]. injection Hget as <-. apply Hkeep. exact H.
  - unfold hv_put, hv_prevotes, hv_precommits in *. destruct (zlookup r (hv_sets h)) as [rv|] eqn:El; [|destruct (N.eqb t 1); discriminate]. cbn in *.
    rewrite zlookup_zupdate_eq. cbn. destruct (N.eqb t 1); cbn; [exact H|]. injection Hget as <-. apply Hkeep. exact H.
Qed.

Lemma hv_add_vote_le h v peer h' a c : hv_add_vote h v peer = Ok (h', a, c) -> hv_le h h' /\ hv_height h' = hv_height h.
Proof.
  unfold hv_add_vote. destruct (negb _); [intro E; injection E as <- _ _; split; [apply hv_le_refl|reflexivity]|].
  assert (Hgo : forall h1, (match hv_get h1 (v_round v) (v_type v) with
                            | None => Panic 34
                            | Some vs => match add_vote vs v with
                                         | Ok (vs', added, code) => Ok (hv_put h1 (v_round v) (v_type v) vs', added, code)
                                         | Err e => Err e | Panic w => Panic w end
                            end) = Ok (h', a, c) -> hv_le h1 h' /\ hv_height h' = hv_height h1).
  { intros h1. destruct (hv_get h1 (v_round v) (v_type v)) as [vs|] eqn:Eg; [|discriminate].
    destruct (add_vote vs v) as [[[vs' ad] cd]| |] eqn:Ea; try discriminate. intro E. injection E as <- _ _.
    split; [eapply hv_put_le; [exact Eg|intros b Hb; eapply add_vote_keeps_maj; eauto]|].
    unfold hv_put. destruct (zlookup _ _); reflexivity. }
  destruct (hv_get h (v_round v) (v_type v)) eqn:Eg0.
  - intro E. apply Hgo. rewrite Eg0. exact E.
  - destruct (Nat.ltb _ 2); [|intro E; injection E as <- _ _; split; [apply hv_le_refl|reflexivity]].
    destruct (hv_add_round h (v_round v)) as [h1| |] eqn:E1; try discriminate. intro E.
    destruct (hv_add_round_le _ _ _ E1) as (L1 & _ & H1).
    apply Hgo in E. cbn in E. destruct E as [L2 H2]. split; [|congruence].
    eapply hv_le_trans; [exact L1|]. destruct L2 as [A B]. split; intros r0 x Hx; [apply A|apply B]; exact Hx.
Qed.

Lemma hv_set_peer_le h r t peer b : hv_le h (hv_set_peer_maj23 h r t peer b).
Proof.
  unfold hv_set_peer_maj23. destruct (negb _); [apply hv_le_refl|].
  destruct (hv_get h r t) as [vs|] eqn:Eg; [|apply hv_le_refl].
  eapply hv_put_le; [exact Eg|]. intros b0 Hb. unfold set_peer_maj23. destruct (lookup peer (vs_peers vs)); exact Hb.
Qed.

(* ---------- the lock invariant and the step relation ---------- *)
Definition inv (n : node) : Prop :=
  match lblock n with
  | None => True
  | Some B => bk_hash B <> [] /\ lround n <= round n /\
              exists x, polka_at (votes n) (lround n) x /\ b_hash x = bk_hash B
  end.

Definition same_lock (B : blk) (n' : node) (lr : Z) : Prop :=
  exists B', lblock n' = Some B' /\ bk_hash B' = bk_hash B /\ lr <= lround n'.
Definition released (B : blk) (n' : node) (lr : Z) : Prop :=
  exists r x, lr < r /\ r <= round n' /\ polka_at (votes n') r x /\ hashes_to (Some B) (b_hash x) = false.
Definition L (n n' : node) : Prop :=
  match lblock n with
  | None => True
  | Some B => same_lock B n' (lround n) \/ released B n' (lround n)
  end.

Definition G (n n' : node) : Prop :=
  inv n -> inv n' /\ height n <= height n' /\
           (height n' = height n -> hv_le (votes n) (votes n') /\ L n n' /\ round n <= round n').

Lemma L_refl n : L n n.
Proof. unfold L. destruct (lblock n) as [B|] eqn:E; [|exact I]. left. exists B. repeat split; [exact E|lia]. Qed.
Lemma G_refl n : G n n.
Proof. intro H. split; [exact H|]. split; [lia|]. intros _. split; [apply hv_le_refl|]. split; [apply L_refl|lia]. Qed.

Lemma hashes_to_same B B' h : bk_hash B' = bk_hash B -> hashes_to (Some B') h = hashes_to (Some B) h.
Proof. intro E. unfold hashes_to. destruct h; [reflexivity|]. rewrite E. reflexivity. Qed.

Lemma G_trans a b c : G a b -> G b c -> G a c.
Proof.
  intros Gab Gbc Ia. destruct (Gab Ia) as (Ib & Hab & Sab). destruct (Gbc Ib) as (Ic & Hbc & Sbc).
  split; [exact Ic|]. split; [lia|]. intro Hh.
  assert (Hb : height b = height a) by lia. assert (Hc : height c = height b) by lia.
  destruct (Sab Hb) as (Lab1 & Lab2 & Rab). destruct (Sbc Hc) as (Lbc1 & Lbc2 & Rbc).
  split; [eapply hv_le_trans; eauto|]. split; [|lia].
  unfold L in *. destruct (lblock a) as [B|]; [|exact I].
  destruct Lab2 as [(B' & EB' & Hhash & Hlr)|(r & x & Hr & Hrr & Hp & Hh2)].
  - rewrite EB' in Lbc2. destruct Lbc2 as [(B2 & EB2 & Hhash2 & Hlr2)|(r & x & Hr & Hrr & Hp & Hh2)].
    + left. exists B2. repeat split; [exact EB2|congruence|lia].
    + right. exists r, x. repeat split; [lia|exact Hrr|exact Hp|]. rewrite <- (hashes_to_same B B') by exact Hhash. exact Hh2.
  - right. exists r, x. repeat split; [exact Hr|lia|apply Lbc1; exact Hp|exact Hh2].
Qed.

(* a computation all of whose results are related to its start *)
Definition sat (f : node -> M) : Prop := forall n n' o, f n = Ok (n', o) -> G n n'.

Lemma sat_ret : sat ret. Proof. intros n n' o E. injection E as <- _. apply G_refl. Qed.
Lemma sat_emit x : sat (emit x). Proof. intros n n' o E. injection E as <- _. apply G_refl. Qed.
Lemma bind_ok (m : M) f n' o : m >>= f = Ok (n', o) ->
  exists n1 o1 o2, m = Ok (n1, o1) /\ f n1 = Ok (n', o2) /\ o = o1 ++ o2.
Proof.
  unfold bindM. destruct m as [[n1 o1]| |]; try discriminate. destruct (f n1) as [[n2 o2]| |] eqn:E; try discriminate.
  intro H. injection H as <- <-. eauto 6.
Qed.
Lemma sat_bind f g : sat f -> sat g -> sat (fun n => f n >>= g).
Proof.
  intros Hf Hg n n' o E. apply bind_ok in E as (n1 & o1 & o2 & E1 & E2 & _).
  eapply G_trans; [eapply Hf; exact E1|eapply Hg; exact E2].
Qed.

(* field updates that touch neither the lock nor the votes nor the height, and never lower the round *)
Definition frame (n n' : node) : Prop :=
  height n' = height n /\ votes n' = votes n /\ lblock n' = lblock n /\ lround n' = lround n /\ round n <= round n'.
Lemma frame_G n n' : frame n n' -> G n n'.
Proof.
  intros (Hh & Hv & Hl & Hr & Hrd) Hi. unfold inv, L in *. rewrite Hl, Hv, Hr.
  split; [destruct (lblock n); [|exact I]; destruct Hi as (A & B & C); repeat split; [exact A|lia|exact C]|].
  split; [lia|]. intros _. split; [apply hv_le_refl|]. split; [|exact Hrd].
  destruct (lblock n) as [B|] eqn:E; [|exact I]. left. exists B. repeat split; [exact Hl|lia].
Qed.
Lemma frame_refl n : frame n n. Proof. repeat split; lia. Qed.
Lemma frame_trans a b c : frame a b -> frame b c -> frame a c.
Proof. intros (A1 & A2 & A3 & A4 & A5) (B1 & B2 & B3 & B4 & B5). repeat split; try congruence; lia. Qed.
Lemma frame_set_step n r s : round n <= r -> frame n (set_step n r s). Proof. repeat split; cbn; lia. Qed.
Lemma frame_set_vals n v : frame n (set_vals n v). Proof. repeat split; cbn; lia. Qed.
Lemma frame_set_prop n p b ps : frame n (set_prop n p b ps). Proof. repeat split; cbn; lia. Qed.
Lemma frame_set_sg n s : frame n (set_sg n s). Proof. repeat split; cbn; lia. Qed.
Lemma frame_set_commit_round n r : frame n (set_commit_round n r). Proof. repeat split; cbn; lia. Qed.
Lemma frame_set_last_commit n lc : frame n (set_last_commit n lc). Proof. repeat split; cbn; lia. Qed.
(* the round is kept exactly *)
Definition keeps_round (f : node -> M) : Prop := forall n n' o, f n = Ok (n', o) -> round n' = round n.

Definition fsat (f : node -> M) : Prop := forall n n' o, f n = Ok (n', o) -> frame n n'.
Lemma fsat_sat f : fsat f -> sat f. Proof. intros H n n' o E. apply frame_G. eapply H; eauto. Qed.

(* the guard at the top of every enter function: false means the requested round is not behind *)
Lemma guard_round n h r s : negb (height n =? h) || (r <? round n) || ((round n =? r) && s) = false -> round n <= r /\ height n = h.
Proof. intro H. apply orb_false_elim in H as [H _]. apply orb_false_elim in H as [H1 H2]. split; lia. Qed.

Lemma fsat_sign_add_vote t b : fsat (sign_add_vote t b).
Proof.
  intros n n' o. unfold sign_add_vote. destruct (negb _); [intro E; injection E as <- _; apply frame_refl|].
  destruct (sign_check _ _ _ _ _); intro E; injection E as <- _; try apply frame_refl. apply frame_set_sg.
Qed.
Lemma sign_add_vote_round t b : keeps_round (sign_add_vote t b).
Proof.
  intros n n' o. unfold sign_add_vote. destruct (negb _); [intro E; injection E as <- _; reflexivity|].
  destruct (sign_check _ _ _ _ _); intro E; injection E as <- _; reflexivity.
Qed.
Lemma fsat_do_prevote : fsat do_prevote.
Proof.
  intros n n' o. unfold do_prevote. destruct (lblock n); [apply fsat_sign_add_vote|].
  destruct (pblock n) as [b|]; [destruct (bk_valid b)|]; apply fsat_sign_add_vote.
Qed.
Lemma fsat_enter_prevote h r : fsat (enter_prevote h r).
Proof.
  intros n n' o. unfold enter_prevote. destruct (_ || _) eqn:Eg; [intro E; injection E as <- _; apply frame_refl|].
  apply guard_round in Eg as [Hr _].
  intro E. apply bind_ok in E as (n1 & o1 & o2 & E1 & E2 & _). injection E2 as <- _.
  pose proof (fsat_do_prevote _ _ _ E1) as F1.
  eapply frame_trans; [exact F1|]. apply frame_set_step. destruct F1 as (_ & _ & _ & _ & Hrd).
  assert (round n1 = round n).
  { revert E1. unfold do_prevote. destruct (lblock n); [apply sign_add_vote_round|].
    destruct (pblock n) as [b|]; [destruct (bk_valid b)|]; apply sign_add_vote_round. }
  lia.
Qed.
Lemma fsat_decide_proposal : fsat decide_proposal.
Proof.
  intros n n' o. unfold decide_proposal. destruct (negb _); [intro E; injection E as <- _; apply frame_refl|].
  destruct (pol_info (votes n)) as [[polr pb]| |]; try discriminate.
  destruct (sign_check _ _ _ _ _); intro E; injection E as <- _; try apply frame_refl. apply frame_set_sg.
Qed.
Lemma decide_proposal_round : keeps_round decide_proposal.
Proof.
  intros n n' o. unfold decide_proposal. destruct (negb _); [intro E; injection E as <- _; reflexivity|].
  destruct (pol_info (votes n)) as [[polr pb]| |]; try discriminate.
  destruct (sign_check _ _ _ _ _); intro E; injection E as <- _; reflexivity.
Qed.
Lemma fsat_enter_propose h r : fsat (enter_propose h r).
Proof.
  intros n n' o. unfold enter_propose. destruct (_ || _) eqn:Eg; [intro E; injection E as <- _; apply frame_refl|].
  apply guard_round in Eg as [Hr _].
  intro E. apply bind_ok in E as (n3 & o1 & o2 & E1 & E2 & _).
  assert (F1 : frame n n3 /\ round n3 = round n).
  { apply bind_ok in E1 as (n1 & oa & ob & Ea & Eb & _). injection Ea as <- _.
    destruct (priv n) as [me|]; [|injection Eb as <- _; split; [apply frame_refl|reflexivity]].
    destruct (proposer (vals n)) as [[[a|] vs']| |]; try discriminate.
    destruct (bytes_eqb a me).
    - split; [eapply frame_trans; [apply (frame_set_vals n vs')|]; eapply fsat_decide_proposal; exact Eb|].
      apply decide_proposal_round in Eb. exact Eb.
    - injection Eb as <- _. split; [apply frame_set_vals|reflexivity]. }
  destruct F1 as [F1 R1].
  eapply frame_trans; [exact F1|].
  destruct (is_proposal_complete (set_step n3 r 3)) as [[|]| |]; try discriminate.
  - eapply frame_trans; [apply (frame_set_step n3 r 3); lia|]. eapply fsat_enter_prevote; exact E2.
  - injection E2 as <- _. apply frame_set_step. lia.
Qed.

(* votes change, lock and height do not *)
Lemma votes_G n hv : hv_le (votes n) hv -> G n (set_votes n hv).
Proof.
  intros Hle Hi. destruct Hle as [L1 L2]. split.
  - unfold inv in *. cbn. destruct (lblock n) as [B|]; [|exact I]. destruct Hi as (Hne & Hlr & x & Hp & Hx).
    split; [exact Hne|]. split; [exact Hlr|]. exists x. split; [apply L1; exact Hp|exact Hx].
  - split; [cbn; lia|]. intros _. split; [split; assumption|]. split; [|cbn; lia]. unfold L. cbn.
    destruct (lblock n) as [B|] eqn:E; [|exact I]. left. exists B. repeat split; try reflexivity; try assumption; lia.
Qed.

Lemma sat_enter_new_round h r : sat (enter_new_round h r).
Proof.
  intros n n' o. unfold enter_new_round. destruct (_ || _) eqn:Eg; [intro E; injection E as <- _; apply G_refl|].
  apply guard_round in Eg as [Hr _].
  destruct (if round n <? r then increment (vals n) (r - round n) else Ok (vals n)) as [vs| |]; try discriminate.
  set (n1 := set_vals (set_step n r 2) vs).
  set (n2 := if r =? 0 then n1 else set_prop n1 None None None).
  destruct (hv_set_round (votes n2) (r + 1)) as [hv| |] eqn:Eh; try discriminate. intro E.
  assert (F2 : frame n n2).
  { unfold n2, n1. destruct (r =? 0); repeat split; cbn; lia. }
  eapply G_trans; [apply frame_G; exact F2|].
  eapply G_trans; [apply votes_G; apply (hv_set_round_le _ _ _ Eh)|].
  apply frame_G. eapply fsat_enter_propose; exact E.
Qed.

Lemma sat_enter_new_round_open h r : sat (enter_new_round_open h r).
Proof.
  intros n n' o. unfold enter_new_round_open. destruct (step n <? 8); [apply sat_enter_new_round|apply sat_ret].
Qed.

Lemma fsat_enter_prevote_wait h r : fsat (enter_prevote_wait h r).
Proof.
  intros n n' o. unfold enter_prevote_wait. destruct (_ || _) eqn:Eg; [intro E; injection E as <- _; apply frame_refl|].
  apply guard_round in Eg as [Hr _].
  destruct (negb _); [discriminate|]. intro E. apply bind_ok in E as (n1 & o1 & o2 & E1 & E2 & _).
  injection E1 as <- _. injection E2 as <- _. apply frame_set_step. exact Hr.
Qed.
Lemma fsat_enter_precommit_wait h r : fsat (enter_precommit_wait h r).
Proof.
  intros n n' o. unfold enter_precommit_wait. destruct (_ || _) eqn:Eg; [intro E; injection E as <- _; apply frame_refl|].
  apply guard_round in Eg as [Hr _].
  destruct (negb _); [discriminate|]. intro E. apply bind_ok in E as (n1 & o1 & o2 & E1 & E2 & _).
  injection E1 as <- _. injection E2 as <- _. apply frame_set_step. exact Hr.
Qed.

(* ---------- the precommit step: the only place where a lock is taken, and where it is dropped on
   a polka of the round being left ---------- *)
Lemma hashes_to_true B h : hashes_to (Some B) h = true -> bk_hash B = h.
Proof.
  unfold hashes_to. destruct h as [|x t]; [discriminate|]. intro H. apply bytes_eqb_eq in H. exact H.
Qed.

(* results whose lock and votes are described explicitly *)
Lemma lock_G n n' r B x :
  height n' = height n -> votes n' = votes n -> lblock n' = Some B -> lround n' = r -> round n' = r -> round n <= r ->
  polka_at (votes n) r x -> b_hash x = bk_hash B -> bk_hash B <> [] ->
  (match lblock n with Some B0 => (bk_hash B0 = bk_hash B /\ lround n <= r) \/ (lround n < r /\ hashes_to (Some B0) (b_hash x) = false) | None => True end) ->
  G n n'.
Proof.
  intros Hh Hv Hl Hlr Hrd Hr Hp Hx Hne Hold Hi. split.
  - unfold inv. rewrite Hl, Hv, Hlr, Hrd. split; [exact Hne|]. split; [lia|]. exists x. split; assumption.
  - split; [lia|]. intros _. rewrite Hv. split; [apply hv_le_refl|]. split; [|lia]. unfold L.
    destruct (lblock n) as [B0|]; [|exact I].
    destruct Hold as [[Hh0 Hr0]|[Hr0 Hh0]].
    + left. exists B. repeat split; [exact Hl|congruence|lia].
    + right. exists r, x. repeat split; [exact Hr0|lia|rewrite Hv; exact Hp|exact Hh0].
Qed.

Lemma unlock_G n n' r x :
  height n' = height n -> votes n' = votes n -> lblock n' = None -> r <= round n' -> round n <= round n' ->
  polka_at (votes n) r x ->
  (match lblock n with Some B0 => lround n < r /\ hashes_to (Some B0) (b_hash x) = false | None => True end) ->
  G n n'.
Proof.
  intros Hh Hv Hl Hr Hrd Hp Hold Hi. split; [unfold inv; rewrite Hl; exact I|]. split; [lia|]. intros _.
  rewrite Hv. split; [apply hv_le_refl|]. split; [|exact Hrd].
  unfold L. destruct (lblock n) as [B0|]; [|exact I]. right. destruct Hold as [Hr0 Hh0].
  exists r, x. repeat split; [exact Hr0|exact Hr|rewrite Hv; exact Hp|exact Hh0].
Qed.

Lemma inv_lock_round n B r x : inv n -> lblock n = Some B -> polka_at (votes n) r x -> lround n = r ->
  b_hash x = bk_hash B.
Proof.
  intros Hi El Hp Hr. unfold inv in Hi. rewrite El in Hi. destruct Hi as (_ & _ & y & Hy & Hhy).
  subst r. unfold polka_at in *. congruence.
Qed.

Lemma sat_enter_precommit h r : sat (enter_precommit h r).
Proof.
  intros n n' o. unfold enter_precommit. destruct (_ || _) eqn:Eg; [intro E; injection E as <- _; apply G_refl|].
  apply guard_round in Eg as [Hrn _].
  intro E. apply bind_ok in E as (n2 & o1 & o2 & E1 & E2 & _). injection E2 as <- _.
  destruct (maj23 (hv_prevotes (votes n) r)) as [b|] eqn:Em.
  2:{ pose proof (fsat_sign_add_vote _ _ _ _ _ E1) as F. pose proof (sign_add_vote_round _ _ _ _ _ E1) as R.
      apply frame_G. eapply frame_trans; [exact F|]. apply frame_set_step. lia. }
  destruct (pol_info (votes n)) as [[polr polb]| |]; try discriminate.
  destruct (polr <? r); [discriminate|].
  intro Hi.
  assert (Hlb : match lblock n with Some _ => lround n <= r | None => True end).
  { unfold inv in Hi. destruct (lblock n); [|exact I]. destruct Hi as (_ & H & _). lia. }
  assert (Hstrict : forall B0, lblock n = Some B0 -> hashes_to (Some B0) (b_hash b) = false -> lround n < r).
  { intros B0 El Hh. rewrite El in Hlb. destruct (Z.eq_dec (lround n) r) as [Heq|Hne]; [|lia].
    exfalso. pose proof (inv_lock_round n B0 r b Hi El Em Heq) as Hx.
    unfold inv in Hi. rewrite El in Hi. destruct Hi as (Hne0 & _).
    unfold hashes_to in Hh. rewrite Hx in Hh. destruct (bk_hash B0) as [|q t] eqn:Eb; [contradiction|].
    rewrite bytes_eqb_refl in Hh. discriminate. }
  revert Hi. change (G n (set_step n2 r 6)).
  (* what the final state looks like, given the state the vote was signed in *)
  assert (Hshape : forall m vb, sign_add_vote 2 vb m = Ok (n2, o1) ->
            height (set_step n2 r 6) = height m /\ votes (set_step n2 r 6) = votes m /\
            lblock (set_step n2 r 6) = lblock m /\ lround (set_step n2 r 6) = lround m /\ round (set_step n2 r 6) = r).
  { intros m vb Em2. destruct (fsat_sign_add_vote _ _ _ _ _ Em2) as (A & B & C & D & _). cbn. auto. }
  destruct (b_hash b) as [|hb0 hbt] eqn:Ehb.
  - (* +2/3 prevoted nil: unlock *)
    destruct (lblock n) as [B0|] eqn:El.
    + destruct (Hshape _ _ E1) as (A & B & C & D & F). cbn in A, B, C, D.
      apply (unlock_G n _ r b); try assumption; try lia.
      rewrite El. split; [apply (Hstrict B0 eq_refl); reflexivity|rewrite Ehb; reflexivity].
    + pose proof (fsat_sign_add_vote _ _ _ _ _ E1) as F. pose proof (sign_add_vote_round _ _ _ _ _ E1) as R.
      apply frame_G. eapply frame_trans; [exact F|]. apply frame_set_step. lia.
  - rewrite <- Ehb in *.
    destruct (hashes_to (lblock n) (b_hash b)) eqn:Hl.
    + (* relock *)
      destruct (lblock n) as [B0|] eqn:El; [|unfold hashes_to in Hl; rewrite Ehb in Hl; discriminate].
      destruct (Hshape _ _ E1) as (A & B & C & D & F). cbn in A, B, C, D.
      pose proof (hashes_to_true _ _ Hl) as Hh.
      apply (lock_G n _ r B0 b); try assumption; try lia; [congruence|rewrite Hh, Ehb; discriminate|].
      rewrite El. left. split; [reflexivity|exact Hlb].
    + destruct (hashes_to (pblock n) (b_hash b)) eqn:Hpb.
      * (* lock the proposal block *)
        destruct (pblock n) as [pb|] eqn:Epb; [|discriminate]. destruct (negb (bk_valid pb)); [discriminate|].
        destruct (Hshape _ _ E1) as (A & B & C & D & F). cbn in A, B, C, D.
        pose proof (hashes_to_true _ _ Hpb) as Hh.
        match type of C with _ = Some ?lb => set (LB := lb) in * end.
        assert (HLB : bk_hash LB = bk_hash pb) by (unfold LB; destruct (pparts n); reflexivity).
        apply (lock_G n _ r LB b); try assumption; try lia; [congruence|rewrite HLB, Hh, Ehb; discriminate|].
        destruct (lblock n) as [B0|] eqn:El; [|exact I]. right. split; [apply (Hstrict B0 eq_refl); exact Hl|exact Hl].
      * (* +2/3 prevoted a block we do not have: unlock *)
        assert (Hold : match lblock n with Some B0 => lround n < r /\ hashes_to (Some B0) (b_hash b) = false | None => True end).
        { destruct (lblock n) as [B0|] eqn:El; [|exact I]. split; [apply (Hstrict B0 eq_refl); exact Hl|exact Hl]. }
        destruct (has_header (pparts (set_lock n 0 None)) (b_total b) (b_phash b)).
        -- destruct (Hshape _ _ E1) as (A & B & C & D & F). cbn in A, B, C, D.
           apply (unlock_G n _ r b); try assumption; lia.
        -- destruct (new_pset (b_total b) (b_phash b)) as [ps| |]; try discriminate.
           destruct (Hshape _ _ E1) as (A & B & C & D & F). cbn in A, B, C, D.
           apply (unlock_G n _ r b); try assumption; lia.
Qed.

(* ---------- commit ---------- *)
Lemma sat_finalize_commit c h : sat (finalize_commit c h).
Proof.
  intros n n' o. unfold finalize_commit. destruct (_ || _) eqn:Eg; [intro E; injection E as <- _; apply G_refl|].
  destruct (maj23 _) as [b|]; [|discriminate].
  destruct (negb (has_header _ _ _)); [discriminate|]. destruct (negb (hashes_to _ _)); [discriminate|].
  destruct (pblock n) as [pb|]; [|discriminate]. destruct (negb (bk_valid pb)); [discriminate|].
  destruct (increment (st_vals n) 1) as [nv| |]; try discriminate.
  destruct (new_hvs (h + 1) (vals_of nv)) as [hv| |]; try discriminate.
  intro E. injection E as <- _. intro Hi. apply orb_false_elim in Eg as [Eh _].
  split; [unfold inv; cbn; exact I|]. split; [cbn; lia|]. cbn. intro Hc. lia.
Qed.
Lemma sat_try_finalize_commit c h : sat (try_finalize_commit c h).
Proof.
  intros n n' o. unfold try_finalize_commit. destruct (negb _); [discriminate|].
  destruct (maj23 _) as [b|]; [|intro E; injection E as <- _; apply G_refl].
  destruct (b_hash b); [intro E; injection E as <- _; apply G_refl|].
  destruct (hashes_to _ _); [apply sat_finalize_commit|intro E; injection E as <- _; apply G_refl].
Qed.
Lemma sat_enter_commit c h cr : sat (enter_commit c h cr).
Proof.
  intros n n' o. unfold enter_commit. destruct (_ || _); [intro E; injection E as <- _; apply G_refl|].
  destruct (maj23 _) as [b|]; [|discriminate].
  set (n1 := if hashes_to (lblock n) (b_hash b) then set_prop n (proposal n) (lblock n) (option_map pset_of_blk (lblock n)) else n).
  assert (F1 : frame n n1) by (unfold n1; destruct (hashes_to _ _); [apply frame_set_prop|apply frame_refl]).
  destruct (if hashes_to (pblock n1) (b_hash b) then Ok n1
            else if has_header (pparts n1) (b_total b) (b_phash b) then Ok n1
            else match new_pset (b_total b) (b_phash b) with
                 | Ok ps => Ok (set_prop n1 (proposal n1) None (Some ps)) | Err e => Err e | Panic w => Panic w end) as [n2| |] eqn:E2; try discriminate.
  assert (F2 : frame n1 n2).
  { destruct (hashes_to (pblock n1) (b_hash b)); [injection E2 as <-; apply frame_refl|].
    destruct (has_header _ _ _); [injection E2 as <-; apply frame_refl|].
    destruct (new_pset _ _) as [ps| |]; try discriminate. injection E2 as <-. apply frame_set_prop. }
  intro E. eapply G_trans; [apply frame_G; eapply frame_trans; [exact F1|exact F2]|].
  eapply G_trans; [apply frame_G; eapply frame_trans; [apply (frame_set_step n2 (round n2) 8); lia|apply frame_set_commit_round]|].
  eapply sat_try_finalize_commit; exact E.
Qed.

(* ---------- proposals and parts ---------- *)
Lemma fsat_set_proposal p signer : fsat (set_proposal p signer).
Proof.
  intros n n' o. unfold set_proposal. destruct (proposal n); [intro E; injection E as <- _; apply frame_refl|].
  destruct (_ || _); [intro E; injection E as <- _; apply frame_refl|].
  destruct (8 <=? step n); [intro E; injection E as <- _; apply frame_refl|].
  destruct (_ && _); [intro E; injection E as <- _; apply frame_refl|].
  destruct ((p_total p <? 0) || (22020096 <? p_total p)); [intro E; injection E as <- _; apply frame_refl|].
  destruct (proposer (vals n)) as [[[a|] vs']| |]; try discriminate.
  destruct (negb _); [intro E; injection E as <- _; apply frame_set_vals|].
  destruct (new_pset _ _) as [ps| |]; try discriminate. intro E. injection E as <- _.
  eapply frame_trans; [apply frame_set_vals|apply frame_set_prop].
Qed.

Lemma sat_add_part c h idx b ok verify : sat (add_part c h idx b ok verify).
Proof.
  intros n n' o. unfold add_part. destruct (negb _); [intro E; injection E as <- _; apply G_refl|].
  destruct (pparts n) as [ps|]; [|intro E; injection E as <- _; apply G_refl].
  destruct (_ || _); [intro E; injection E as <- _; apply G_refl|].
  destruct (existsb _ _); [intro E; injection E as <- _; apply G_refl|].
  destruct (_ && _); [intro E; injection E as <- _; apply G_refl|].
  match goal with |- context [set_prop n (proposal n) (pblock n) (Some ?p)] => set (ps' := p) end.
  set (n1 := set_prop n (proposal n) (pblock n) (Some ps')).
  destruct (_ =? _); [|intro E; injection E as <- _; apply frame_G; apply frame_set_prop].
  set (n2 := set_prop n1 (proposal n1) (Some b) (Some ps')).
  intro E. apply bind_ok in E as (n3 & o1 & o2 & E1 & E2 & _).
  assert (G23 : G n2 n3).
  { destruct (step n2 =? 3).
    - destruct (is_proposal_complete n2) as [[|]| |]; try discriminate.
      + apply frame_G. eapply fsat_enter_prevote; exact E1.
      + injection E1 as <- _. apply G_refl.
    - destruct (step n2 =? 8); [eapply sat_try_finalize_commit; exact E1|injection E1 as <- _; apply G_refl]. }
  eapply G_trans; [apply frame_G; eapply frame_trans; [apply (frame_set_prop n)|apply (frame_set_prop n1)]|].
  eapply G_trans; [exact G23|]. destruct ok; injection E2 as <- _; apply G_refl.
Qed.

(* ---------- votes ---------- *)
(* addVote's unlock on a later polka: the vote's round is after the lock round and not after ours *)
Lemma addvote_unlock_G n (v : vote) :
  let prevotes := hv_prevotes (votes n) (v_round v) in
  G n (match lblock n with
       | Some lb =>
         if (lround n <? v_round v) && (v_round v <=? round n) then
           match maj23 prevotes with
           | Some b => if negb (hashes_to (lblock n) (b_hash b)) then set_lock n 0 None else n
           | None => n
           end
         else n
       | None => n
       end).
Proof.
  cbn zeta. destruct (lblock n) as [lb|] eqn:El; [|apply G_refl].
  destruct (_ && _) eqn:Ec; [|apply G_refl].
  destruct (maj23 _) as [b|] eqn:Em; [|apply G_refl].
  destruct (negb _) eqn:Eh; [|apply G_refl].
  apply andb_prop in Ec as [E1 E2].
  apply (unlock_G n _ (v_round v) b); cbn; try reflexivity; try lia; [exact Em|].
  rewrite El. split; [lia|]. apply negb_true_iff in Eh. exact Eh.
Qed.

Lemma sat_add_vote_cs c v peer : sat (add_vote_cs c v peer).
Proof.
  intros n n' o. unfold add_vote_cs.
  destruct (v_height v + 1 =? height n).
  { destruct (negb _); [intro E; injection E as <- _; apply G_refl|].
    destruct (last_commit n) as [lc|]; [|intro E; injection E as <- _; apply G_refl].
    destruct (add_vote lc v) as [[[lc' added] code]| |]; try discriminate.
    intro E. apply bind_ok in E as (n2 & o1 & o2 & E1 & E2 & _).
    eapply G_trans; [apply frame_G; apply (frame_set_last_commit n (Some lc'))|].
    eapply G_trans; [|destruct (N.eqb code 0); injection E2 as <- _; apply G_refl].
    destruct (_ && _); [eapply sat_enter_new_round; exact E1|injection E1 as <- _; apply G_refl]. }
  destruct (v_height v =? height n); [|intro E; injection E as <- _; apply G_refl].
  destruct (hv_add_vote (votes n) v peer) as [[[hv added] code]| |] eqn:Ea; try discriminate.
  intro E. apply bind_ok in E as (n5 & o1 & o2 & E1 & E2 & _).
  eapply G_trans; [apply votes_G; apply (hv_add_vote_le _ _ _ _ _ _ Ea)|].
  eapply G_trans; [|destruct (N.eqb code 0); injection E2 as <- _; apply G_refl].
  set (n1 := set_votes n hv) in *.
  destruct (negb added); [injection E1 as <- _; apply G_refl|].
  destruct (N.eqb (v_type v) 1).
  - (* prevote *)
    eapply G_trans; [apply (addvote_unlock_G n1 v)|].
    match goal with [ H : (if _ then _ else _) = Ok _ |- G ?m _ ] => set (n2 := m) in * end.
    revert E1. destruct (_ && any23_open _ _); intro E1.
    + apply bind_ok in E1 as (n3 & oa & ob & Ea1 & Ea2 & _).
      eapply G_trans; [eapply sat_enter_new_round; exact Ea1|].
      revert Ea2. destruct (maj23 (hv_prevotes (votes n3) (v_round v))); intro Ea2.
      * eapply sat_enter_precommit; exact Ea2.
      * apply bind_ok in Ea2 as (n4 & oc & od & Eb1 & Eb2 & _).
        eapply G_trans; apply frame_G; [eapply fsat_enter_prevote; exact Eb1|eapply fsat_enter_prevote_wait; exact Eb2].
    + revert E1. destruct (proposal n2) as [p|]; [|intro E1; injection E1 as <- _; apply G_refl].
      destruct ((0 <=? p_polround p) && (p_polround p =? v_round v)); [|intro E1; injection E1 as <- _; apply G_refl].
      destruct (is_proposal_complete n2) as [[|]| |]; try discriminate; intro E1.
      * apply frame_G. eapply fsat_enter_prevote; exact E1.
      * injection E1 as <- _. apply G_refl.
  - revert E1. destruct (N.eqb (v_type v) 2); [|discriminate].
    destruct (maj23 (hv_precommits (votes n1) (v_round v))) as [b|].
    + destruct (b_hash b); intro E1.
      * eapply sat_enter_new_round_open; exact E1.
      * apply bind_ok in E1 as (n4 & oa & ob & Ea1 & Ea2 & _).
        apply bind_ok in Ea1 as (n3 & oc & od & Eb1 & Eb2 & _).
        apply bind_ok in Eb1 as (n2 & oe & of & Ec1 & Ec2 & _).
        eapply G_trans; [eapply sat_enter_new_round; exact Ec1|].
        eapply G_trans; [eapply sat_enter_precommit; exact Ec2|].
        eapply G_trans; [eapply sat_enter_commit; exact Eb2|].
        revert Ea2. destruct (c_skip_commit c && _); intro Ea2; [eapply sat_enter_new_round; exact Ea2|injection Ea2 as <- _; apply G_refl].
    + destruct (_ && any23_open _ _); intro E1; [|injection E1 as <- _; apply G_refl].
      apply bind_ok in E1 as (n3 & oa & ob & Ea1 & Ea2 & _).
      apply bind_ok in Ea1 as (n2 & oc & od & Eb1 & Eb2 & _).
      eapply G_trans; [eapply sat_enter_new_round; exact Eb1|].
      eapply G_trans; [eapply sat_enter_precommit; exact Eb2|].
      apply frame_G. eapply fsat_enter_precommit_wait; exact Ea2.
Qed.

Lemma sat_handle_timeout h r s : sat (handle_timeout h r s).
Proof.
  intros n n' o. unfold handle_timeout. destruct (_ || _); [intro E; injection E as <- _; apply G_refl|].
  destruct (s =? 1); [apply sat_enter_new_round|].
  destruct (s =? 3); [intro E; apply frame_G; eapply fsat_enter_prevote; exact E|].
  destruct (s =? 5); [apply sat_enter_precommit|].
  destruct (s =? 7); [apply sat_enter_new_round|discriminate].
Qed.

Theorem sat_handle c i : sat (handle c i).
Proof.
  destruct i as [p signer peer|h r idx b ok peer|v peer|h r s]; cbn [handle].
  - apply fsat_sat. apply fsat_set_proposal.
  - apply sat_add_part.
  - apply sat_add_vote_cs.
  - apply sat_handle_timeout.
Qed.

(* ---------- the voting rules ---------- *)
Lemma sign_add_vote_out t b n n' o x : sign_add_vote t b n = Ok (n', o) -> In x o -> x = OVote t (round n) b.
Proof.
  unfold sign_add_vote. destruct (negb _); [intro E; injection E as _ <-; intros []|].
  destruct (sign_check _ _ _ _ _); intro E; injection E as _ <-; intro Hin; cbn in Hin; intuition auto.
Qed.

(* the prevote rule: a locked node prevotes its locked block; an unlocked one prevotes the valid
   complete proposal block or nil *)
Theorem prevote_rule n n' o x : do_prevote n = Ok (n', o) -> In x o ->
  exists b, x = OVote 1 (round n) b /\
    match lblock n with
    | Some B => b = blk_bid B
    | None => b = nil_bid \/ exists pb, pblock n = Some pb /\ bk_valid pb = true /\ b = pparts_bid n pb
    end.
Proof.
  unfold do_prevote. destruct (lblock n) as [B|].
  - intros E Hin. exists (blk_bid B). split; [eapply sign_add_vote_out; eauto|reflexivity].
  - destruct (pblock n) as [pb|] eqn:Ep.
    + destruct (bk_valid pb) eqn:Ev; intros E Hin.
      * exists (pparts_bid n pb). split; [eapply sign_add_vote_out; eauto|]. right. exists pb. auto.
      * exists nil_bid. split; [eapply sign_add_vote_out; eauto|]. left. reflexivity.
    + intros E Hin. exists nil_bid. split; [eapply sign_add_vote_out; eauto|]. left. reflexivity.
Qed.

(* the precommit rule: a precommit for a block is signed only in a round in which the node itself
   holds +2/3 prevotes for exactly that block id, and it leaves the node locked on that block in
   that round *)
Theorem precommit_rule h r n n' o t r' b : enter_precommit h r n = Ok (n', o) -> In (OVote t r' b) o ->
  t = 2%N /\ r' = round n /\
  (b_hash b <> [] -> polka_at (votes n) r b /\ exists B, lblock n' = Some B /\ bk_hash B = b_hash b /\ lround n' = r).
Proof.
  unfold enter_precommit. destruct (_ || _); [intro E; injection E as _ <-; intros []|].
  intro E. apply bind_ok in E as (n2 & o1 & o2 & E1 & E2 & ->). injection E2 as <- <-. rewrite app_nil_r.
  intro Hin.
  assert (Hout : forall vb m, sign_add_vote 2 vb m = Ok (n2, o1) -> round m = round n ->
                  OVote t r' b = OVote 2 (round n) vb /\ frame m n2).
  { intros vb m Es Hr. split; [rewrite <- Hr; eapply sign_add_vote_out; eauto|eapply fsat_sign_add_vote; eauto]. }
  destruct (maj23 (hv_prevotes (votes n) r)) as [pb|] eqn:Em.
  2:{ destruct (Hout _ _ E1 eq_refl) as [Ev _]. injection Ev as -> -> ->. (split; [reflexivity|]; split; [reflexivity|]; intro H; exfalso; apply H; reflexivity). }
  destruct (pol_info (votes n)) as [[polr polb]| |]; try discriminate.
  destruct (polr <? r); [discriminate|].
  destruct (b_hash pb) as [|q qt] eqn:Eh.
  - assert (Hr : round (match lblock n with Some _ => set_lock n 0 None | None => n end) = round n) by (destruct (lblock n); reflexivity).
    destruct (Hout _ _ E1 Hr) as [Ev _]. injection Ev as -> -> ->. (split; [reflexivity|]; split; [reflexivity|]; intro H; exfalso; apply H; reflexivity).
  - rewrite <- Eh in *.
    destruct (hashes_to (lblock n) (b_hash pb)) eqn:Hl.
    + destruct (Hout _ _ E1 eq_refl) as [Ev F]. injection Ev as -> -> ->. split; [reflexivity|]. split; [reflexivity|]. intros _. split; [exact Em|].
      destruct (lblock n) as [B0|] eqn:El; [|unfold hashes_to in Hl; rewrite Eh in Hl; discriminate].
      destruct F as (_ & _ & Fl & Fr & _). cbn in Fl, Fr. exists B0. cbn. repeat split; [congruence|apply hashes_to_true; exact Hl|exact Fr].
    + destruct (hashes_to (pblock n) (b_hash pb)) eqn:Hp.
      * destruct (pblock n) as [blk0|] eqn:Epb; [|discriminate]. destruct (negb (bk_valid blk0)); [discriminate|].
        destruct (Hout _ _ E1 eq_refl) as [Ev F]. injection Ev as -> -> ->. split; [reflexivity|]. split; [reflexivity|]. intros _. split; [exact Em|].
        destruct F as (_ & _ & Fl & Fr & _). cbn in Fl, Fr. eexists. cbn. repeat split; [exact Fl| |exact Fr].
        pose proof (hashes_to_true _ _ Hp) as Hh. destruct (pparts n); cbn; exact Hh.
      * assert (Hnil : OVote t r' b = OVote 2 (round n) nil_bid).
        { destruct (has_header _ _ _); [apply (Hout _ _ E1 eq_refl)|].
          destruct (new_pset _ _) as [ps| |]; try discriminate. apply (Hout _ _ E1 eq_refl). }
        injection Hnil as -> -> ->. (split; [reflexivity|]; split; [reflexivity|]; intro H; exfalso; apply H; reflexivity).
Qed.

(* the commit rule: a block is committed only on +2/3 precommits for it in one single round, with
   the block at hand, complete and valid *)
Theorem commit_rule c h n n' o hc hash : finalize_commit c h n = Ok (n', o) -> In (OCommit hc hash) o ->
  hc = height n /\ exists b pb, commit_at (votes n) (commit_round n) b /\ b_hash b = hash /\
     pblock n = Some pb /\ bk_hash pb = hash /\ bk_valid pb = true /\ has_header (pparts n) (b_total b) (b_phash b) = true
     /\ height n' = height n + 1.
Proof.
  unfold finalize_commit. destruct (_ || _) eqn:Eg; [intro E; injection E as _ <-; intros []|].
  apply orb_false_elim in Eg as [Eh _].
  destruct (maj23 _) as [b|] eqn:Em; [|discriminate].
  destruct (negb (has_header _ _ _)) eqn:Ehh; [discriminate|]. destruct (negb (hashes_to _ _)) eqn:Eht; [discriminate|].
  destruct (pblock n) as [pb|] eqn:Ep; [|discriminate]. destruct (negb (bk_valid pb)) eqn:Ev; [discriminate|].
  destruct (increment (st_vals n) 1) as [nv| |]; try discriminate.
  destruct (new_hvs (h + 1) (vals_of nv)) as [hv| |]; try discriminate.
  intro E. injection E as <- <-. intros [Hin|[Hin|[]]]; [|discriminate]. injection Hin as <- <-.
  split; [lia|]. exists b, pb. apply negb_false_iff in Ehh, Eht, Ev.
  pose proof (hashes_to_true _ _ Eht) as Hh.
  repeat split; try assumption; try congruence. cbn. lia.
Qed.

(* ---------- runs ---------- *)
Fixpoint run (c : cfg) (ins : list input) (n : node) : res node :=
  match ins with
  | [] => Ok n
  | i :: t => match handle c i n with
              | Ok (n', _) => run c t n'
              | Err e => Err e
              | Panic w => Panic w
              end
  end.

Lemma init_inv h vs lc me s n : init_node h vs lc me s = Ok n -> inv n.
Proof.
  unfold init_node. destruct (new_hvs _ _) as [hv| |]; try discriminate. intro E. injection E as <-. exact I.
Qed.

Theorem run_G c ins : forall n n', run c ins n = Ok n' -> G n n'.
Proof.
  induction ins as [|i t IH]; intros n n'; cbn [run].
  - intro E. injection E as <-. apply G_refl.
  - destruct (handle c i n) as [[n1 o]| |] eqn:E1; try discriminate. intro E2.
    eapply G_trans; [eapply sat_handle; exact E1|apply IH; exact E2].
Qed.

(* every state a node reaches from the start of a height satisfies the lock invariant; while it
   stays in the height, a lock it held is either still held on the same block (lock round not
   lower) or a +2/3 prevote majority for something else lies in a later round of its vote sets *)
Theorem reachable_lock_discipline c h vs lc me s ins n0 n :
  init_node h vs lc me s = Ok n0 -> run c ins n0 = Ok n -> inv n.
Proof. intros Hi Hr. apply (run_G c ins n0 n Hr). eapply init_inv; eauto. Qed.

Theorem lock_kept_or_released c ins n n' B : inv n -> run c ins n = Ok n' -> height n' = height n ->
  lblock n = Some B ->
  (exists B', lblock n' = Some B' /\ bk_hash B' = bk_hash B /\ lround n <= lround n') \/
  (exists r x, lround n < r <= round n' /\ polka_at (votes n') r x /\ hashes_to (Some B) (b_hash x) = false).
Proof.
  intros Hi Hr Hh El. destruct (run_G c ins n n' Hr Hi) as (_ & _ & S). destruct (S Hh) as (_ & HL & _).
  unfold L in HL. rewrite El in HL. destruct HL as [H|(r & x & A & B0 & C & D)]; [left; exact H|right].
  exists r, x. repeat split; assumption.
Qed.

(* ---------- the signer inside the node (C07: nothing contradictory is signed during replay) ---------- *)
Definition hrs_le (h1 r1 s1 h2 r2 s2 : Z) : Prop := hrs_lt h2 r2 s2 h1 r1 s1 = false.

Theorem sign_add_vote_signer t b n n' o :
  sign_add_vote t b n = Ok (n', o) ->
  let st := if N.eqb t 1 then 2 else 3 in
  (* the signer's height/round/step never goes back *)
  hrs_le (sg_h (sg n)) (sg_r (sg n)) (sg_s (sg n)) (sg_h (sg n')) (sg_r (sg n')) (sg_s (sg n')) /\
  (* a vote is emitted only if it is the first signature for its height/round/step or repeats the
     recorded one exactly *)
  (forall x, In x o -> x = OVote t (round n) b /\
     (hrs_lt (sg_h (sg n)) (sg_r (sg n)) (sg_s (sg n)) (height n) (round n) st = true \/
      (sg_h (sg n) = height n /\ sg_r (sg n) = round n /\ sg_s (sg n) = st /\ exists w, sg_what (sg n) = Some w /\ what_eqb (t, b) w = true))).
Proof.
  unfold sign_add_vote. cbn zeta. unfold hrs_le.
  assert (Hrefl : forall a b0 c0, hrs_lt a b0 c0 a b0 c0 = false) by (intros; unfold hrs_lt; lia).
  destruct (negb _); [intro E; injection E as <- <-; split; [apply Hrefl|intros x []]|].
  unfold sign_check.
  destruct (hrs_lt (height n) (round n) _ (sg_h (sg n)) (sg_r (sg n)) (sg_s (sg n))) eqn:Elt.
  { intro E; injection E as <- <-; split; [apply Hrefl|intros x []]. }
  destruct ((height n =? sg_h (sg n)) && (round n =? sg_r (sg n)) && (_ =? sg_s (sg n))) eqn:Eeq.
  - destruct (sg_what (sg n)) as [w|] eqn:Ew.
    + destruct (what_eqb (t, b) w) eqn:Ewe; intro E; injection E as <- <-; (split; [apply Hrefl|]); [|intros x []].
      intros x [<-|[]]. split; [reflexivity|]. right.
      apply andb_prop in Eeq as [Eeq E3]. apply andb_prop in Eeq as [E1 E2].
      repeat split; try lia. exists w. auto.
    + intro E; injection E as <- <-; split; [apply Hrefl|intros x []].
  - intro E. injection E as <- <-. cbn. split; [exact Elt|].
    intros x [<-|[]]. split; [reflexivity|]. left.
    unfold hrs_lt in *. lia.
Qed.

(* ---------- timeouts (C12: a waiting step always has its timeout scheduled) ---------- *)
Theorem enter_propose_schedules h r n n' o : enter_propose h r n = Ok (n', o) ->
  negb (height n =? h) || (r <? round n) || ((round n =? r) && (3 <=? step n)) = false ->
  In (OTimeout h r 3) o /\ 3 <= step n' /\ round n' = r.
Proof.
  unfold enter_propose. intros E Eg. rewrite Eg in E.
  apply bind_ok in E as (n3 & o1 & o2 & E1 & E2 & ->).
  apply bind_ok in E1 as (n1 & oa & ob & Ea & Eb & ->). injection Ea as <- <-.
  split; [apply in_or_app; left; cbn; auto|].
  destruct (is_proposal_complete (set_step n3 r 3)) as [[|]| |]; try discriminate.
  - unfold enter_prevote in E2. cbn [height round step set_step] in E2.
    destruct (_ || _) eqn:Eg2; [injection E2 as <- _; cbn; lia|].
    apply bind_ok in E2 as (n4 & oc & od & Ec & Ed & _). injection Ed as <- _. cbn. lia.
  - injection E2 as <- _. cbn. lia.
Qed.
Theorem enter_prevote_wait_schedules h r n n' o : enter_prevote_wait h r n = Ok (n', o) ->
  negb (height n =? h) || (r <? round n) || ((round n =? r) && (5 <=? step n)) = false ->
  In (OTimeout h r 5) o /\ step n' = 5 /\ round n' = r.
Proof.
  unfold enter_prevote_wait. intros E Eg. rewrite Eg in E. destruct (negb _); [discriminate|].
  apply bind_ok in E as (n1 & o1 & o2 & E1 & E2 & ->). injection E1 as <- <-. injection E2 as <- <-. cbn. auto.
Qed.
Theorem enter_precommit_wait_schedules h r n n' o : enter_precommit_wait h r n = Ok (n', o) ->
  negb (height n =? h) || (r <? round n) || ((round n =? r) && (7 <=? step n)) = false ->
  In (OTimeout h r 7) o /\ step n' = 7 /\ round n' = r.
Proof.
  unfold enter_precommit_wait. intros E Eg. rewrite Eg in E. destruct (negb _); [discriminate|].
  apply bind_ok in E as (n1 & o1 & o2 & E1 & E2 & ->). injection E1 as <- <-. injection E2 as <- <-. cbn. auto.
Qed.
Theorem commit_schedules_next_height c h n n' o : finalize_commit c h n = Ok (n', o) -> height n' <> height n ->
  In (OTimeout (height n') 0 1) o /\ step n' = 1 /\ round n' = 0.
Proof.
  unfold finalize_commit. destruct (_ || _) eqn:Eg; [intro E; injection E as <- _; intro H; exfalso; apply H; reflexivity|].
  destruct (maj23 _) as [b|]; [|discriminate].
  destruct (negb (has_header _ _ _)); [discriminate|]. destruct (negb (hashes_to _ _)); [discriminate|].
  destruct (pblock n) as [pb|]; [|discriminate]. destruct (negb (bk_valid pb)); [discriminate|].
  destruct (increment (st_vals n) 1) as [nv| |]; try discriminate.
  destruct (new_hvs (h + 1) (vals_of nv)) as [hv| |]; try discriminate.
  intro E. injection E as <- <-. intros _. cbn. auto.
Qed.

Lemma run_app c a : forall b n, run c (a ++ b) n = match run c a n with Ok n1 => run c b n1 | Err e => Err e | Panic w => Panic w end.
Proof.
  induction a as [|i t IH]; intros b n; cbn [run app]; [reflexivity|].
  destruct (handle c i n) as [[n1 o]| |]; [apply IH|reflexivity|reflexivity].
Qed.

Theorem run_monotone c ins n n' : inv n -> run c ins n = Ok n' ->
  height n <= height n' /\ (height n' = height n -> round n <= round n' /\ hv_le (votes n) (votes n')).
Proof.
  intros Hi Hr. destruct (run_G c ins n n' Hr Hi) as (_ & Hh & S). split; [exact Hh|].
  intro E. destruct (S E) as (A & _ & B). split; assumption.
Qed.

(* the proposal rule: a proposer that holds a lock proposes the locked block (None stands for a
   freshly created block), for its current round, with the proof-of-lock round its vote sets give *)
Theorem proposal_rule n n' o r polr lb : decide_proposal n = Ok (n', o) -> In (OProposal r polr lb) o ->
  r = round n /\ lb = lblock n /\ (exists b, pol_info (votes n) = Ok (polr, b)).
Proof.
  unfold decide_proposal. destruct (negb _); [intro E; injection E as _ <-; intros []|].
  destruct (pol_info (votes n)) as [[p b]| |] eqn:Ep; try discriminate.
  destruct (sign_check _ _ _ _ _); intro E; injection E as _ <-; cbn; intro Hin;
    repeat (destruct Hin as [Hin|Hin]); try discriminate; try contradiction.
  injection Hin as <- <- <-. split; [reflexivity|]. split; [reflexivity|]. exists b. reflexivity.
Qed.
