(* Where commits come from: an OCommit output of one handled input is for the node's height, for a
   non-nil block hash, and rests on valid precommits for one block id with that hash, in one
   round, from more than two thirds of the power - all of them votes delivered to the node. *)
From Coq Require Import List NArith ZArith Lia Bool.
From AnnVerif Require Import Base.Res Base.Bytes Model.VoteSet Model.ValSet Model.Node
  Proofs.BytesProofs Proofs.PowerSum Proofs.VoteSetProofs Proofs.NodeProofs Proofs.Backed Proofs.NodeBacked Proofs.Emit.
Import ListNotations.
Open Scope Z_scope.

Definition is_commit_out (x : out) : bool := match x with OCommit _ _ => true | _ => false end.
Definition nc (f : node -> M) : Prop := forall n n' o x, f n = Ok (n', o) -> In x o -> is_commit_out x = false.

Lemma nc_ret : nc ret. Proof. intros n n' o x E. injection E as _ <-. intros []. Qed.
Lemma nc_emit y : is_commit_out y = false -> nc (emit y).
Proof. intros Hy n n' o x E. injection E as _ <-. intros [<-|[]]. exact Hy. Qed.
Lemma nc_bind f g : nc f -> nc g -> nc (fun n => f n >>= g).
Proof.
  intros Hf Hg n n' o x E Hin. apply bind_ok in E as (n1 & o1 & o2 & E1 & E2 & ->).
  apply in_app_or in Hin as [Hin|Hin]; [eapply Hf; eauto|eapply Hg; eauto].
Qed.
Lemma nc_sign t b : nc (sign_add_vote t b).
Proof. intros n n' o x E Hin. rewrite (sign_add_vote_out _ _ _ _ _ _ E Hin). reflexivity. Qed.
Lemma nc_do_prevote : nc do_prevote.
Proof.
  intros n n' o x. unfold do_prevote. destruct (lblock n); [apply nc_sign|]. destruct (pblock n) as [pb|]; [|apply nc_sign].
  destruct (bk_valid pb); apply nc_sign.
Qed.
Lemma nc_enter_prevote h r : nc (enter_prevote h r).
Proof.
  intros n n' o x. unfold enter_prevote. destruct (_ || _); [apply nc_ret|].
  apply (nc_bind do_prevote (fun n1 => ret (set_step n1 r 4))); [apply nc_do_prevote|]. intros m m' o' y E. injection E as _ <-. intros [].
Qed.
Lemma nc_decide_proposal : nc decide_proposal.
Proof.
  intros n n' o x. unfold decide_proposal. destruct (negb _); [apply nc_ret|].
  destruct (pol_info _) as [[polr ?]| |]; try discriminate.
  destruct (sign_check _ _ _ _ _); intro E; injection E as _ <-; cbn; intuition (subst; reflexivity).
Qed.
Lemma nc_enter_propose h r : nc (enter_propose h r).
Proof.
  intros n n' o x. unfold enter_propose. destruct (_ || _); [apply nc_ret|].
  intros E Hin. apply bind_ok in E as (n3 & o1 & o2 & E1 & E2 & ->). apply in_app_or in Hin as [Hin|Hin].
  - apply bind_ok in E1 as (n1 & oa & ob & Ea & Eb & ->). injection Ea as <- <-.
    destruct Hin as [<-|Hin]; [reflexivity|]. revert Eb Hin.
    destruct (priv n) as [me|]; [|apply nc_ret].
    destruct (proposer (vals n)) as [[[a|] vs']| |]; try discriminate. cbn zeta.
    destruct (bytes_eqb a me); [apply nc_decide_proposal|apply nc_ret].
  - revert E2 Hin. cbn zeta. destruct (is_proposal_complete _) as [[|]| |]; try discriminate; [apply nc_enter_prevote|apply nc_ret].
Qed.
Lemma nc_enter_new_round h r : nc (enter_new_round h r).
Proof.
  intros n n' o x. unfold enter_new_round. destruct (_ || _); [apply nc_ret|].
  destruct (if round n <? r then _ else _) as [vs| |]; try discriminate. cbn zeta.
  destruct (hv_set_round _ _) as [hv| |]; try discriminate. apply nc_enter_propose.
Qed.
Lemma nc_enter_new_round_open h r : nc (enter_new_round_open h r).
Proof.
  intros n n' o x. unfold enter_new_round_open. destruct (step n <? 8); [apply nc_enter_new_round|apply nc_ret].
Qed.
Lemma nc_wait1 h r : nc (enter_prevote_wait h r).
Proof.
  intros n n' o x. unfold enter_prevote_wait. destruct (_ || _); [apply nc_ret|].
  destruct (negb _); [discriminate|]. intro E. injection E as _ <-. cbn. intuition (subst; reflexivity).
Qed.
Lemma nc_wait2 h r : nc (enter_precommit_wait h r).
Proof.
  intros n n' o x. unfold enter_precommit_wait. destruct (_ || _); [apply nc_ret|].
  destruct (negb _); [discriminate|]. intro E. injection E as _ <-. cbn. intuition (subst; reflexivity).
Qed.
Lemma nc_enter_precommit h r : nc (enter_precommit h r).
Proof.
  intros n n' o x. unfold enter_precommit. destruct (_ || _); [apply nc_ret|].
  intros E Hin. apply bind_ok in E as (n1 & o1 & o2 & E1 & E2 & ->). injection E2 as _ <-. rewrite app_nil_r in Hin.
  revert E1 Hin.
  destruct (maj23 _) as [b|]; [|apply nc_sign].
  destruct (pol_info _) as [[polr ?]| |]; try discriminate. destruct (polr <? r); [discriminate|].
  destruct (b_hash b); [apply nc_sign|].
  destruct (hashes_to (lblock n) _); [apply nc_sign|]. destruct (hashes_to (pblock n) _).
  - destruct (pblock n) as [pb|]; [|discriminate]. destruct (negb _); [discriminate|]. apply nc_sign.
  - cbn zeta. destruct (has_header _ _ _); [apply nc_sign|]. destruct (new_pset _ _) as [ps| |]; try discriminate. apply nc_sign.
Qed.
Lemma nc_set_proposal p sgn : nc (set_proposal p sgn).
Proof.
  intros n n' o x. unfold set_proposal. destruct (proposal n); [apply nc_ret|].
  destruct (_ || _); [apply nc_ret|]. destruct (8 <=? _); [apply nc_ret|].
  destruct (_ && _); [apply nc_emit; reflexivity|]. destruct (_ || _); [apply nc_emit; reflexivity|].
  destruct (proposer _) as [[[a|] vs']| |]; try discriminate. cbn zeta.
  destruct (negb _); [apply nc_emit; reflexivity|]. destruct (new_pset _ _) as [ps| |]; try discriminate. apply nc_ret.
Qed.

Lemma nc_absurd f (P : Prop) n n' o hc hash : nc f -> f n = Ok (n', o) -> In (OCommit hc hash) o -> P.
Proof. intros Hf E Hin. specialize (Hf _ _ _ _ E Hin). discriminate. Qed.

Section CommitWalk.
Variable VS : list validator.
Hypothesis Hbounded : bounded VS.
Variable h0 : Z.

Definition CW (f : node -> M) : Prop :=
  forall off n n' o hc hash, node_ok VS h0 off n -> height n = h0 -> f n = Ok (n', o) -> In (OCommit hc hash) o ->
    hc = h0 /\ hash <> [] /\ exists r b, b_hash b = hash /\ Qr VS (voted_for VS h0 r 2%N off b).

Lemma CW_nc f : nc f -> CW f.
Proof. intros Hf off n n' o hc hash _ _ E Hin. specialize (Hf _ _ _ _ E Hin). discriminate. Qed.

Lemma CW_bind f g : CW f -> CW g -> (forall off, pres VS h0 off f) -> keeps_height f -> CW (fun n => f n >>= g).
Proof.
  intros Hf Hg Pf Kf off n n' o hc hash Hok Hh E Hin. apply bind_ok in E as (n1 & o1 & o2 & E1 & E2 & ->).
  apply in_app_or in Hin as [Hin|Hin]; [eapply Hf; eauto|].
  eapply (Hg off n1); [eapply Pf; eauto|rewrite (Kf _ _ _ E1); exact Hh|exact E2|exact Hin].
Qed.

Definition tail_err (g : node -> M) : Prop := forall n, g n = Ok (n, []) \/ exists e, g n = Ok (n, [OErr e]).
Lemma CW_tail f g : CW f -> tail_err g -> CW (fun n => f n >>= g).
Proof.
  intros Hf Hg off n n' o hc hash Hok Hh E Hin. apply bind_ok in E as (n1 & o1 & o2 & E1 & E2 & ->).
  apply in_app_or in Hin as [Hin|Hin]; [eapply Hf; eauto|].
  destruct (Hg n1) as [Eg|(e & Eg)]; rewrite Eg in E2; injection E2 as _ <-; [destruct Hin|].
  destruct Hin as [Hx|[]]. discriminate.
Qed.

Lemma CW_try_finalize_commit c h : CW (try_finalize_commit c h).
Proof.
  intros off n n' o hc hash Hok Hh. unfold try_finalize_commit. destruct (negb _); [discriminate|].
  destruct (maj23 _) as [b|] eqn:Em; [|intro E; injection E as _ <-; intros []].
  destruct (b_hash b) as [|x0 t0] eqn:Eb; [intro E; injection E as _ <-; intros []|].
  destruct (hashes_to _ _); [|intro E; injection E as _ <-; intros []].
  intros E Hin. destruct (commit_rule _ _ _ _ _ _ _ E Hin) as (Hc & b' & pb & Hca & Hb' & _).
  unfold commit_at in Hca. rewrite Em in Hca. injection Hca as <-.
  split; [congruence|]. split; [rewrite <- Hb', Eb; discriminate|].
  destruct Hok as [_ Hok]. destruct (Hok Hh) as [A B].
  exists (commit_round n), b. split; [exact Hb'|]. unfold Qr. rewrite <- B.
  apply (commit_backed VS Hbounded off (votes n) (commit_round n) b A Em).
Qed.

Lemma CW_at (f : node -> M) off n m n' o hc hash :
  CW f -> height m = height n -> votes m = votes n -> node_ok VS h0 off n -> height n = h0 -> f m = Ok (n', o) -> In (OCommit hc hash) o ->
  hc = h0 /\ hash <> [] /\ exists r b, b_hash b = hash /\ Qr VS (voted_for VS h0 r 2%N off b).
Proof.
  intros Hf Eh Ev Hok Hh E Hin. apply (Hf off m n' o hc hash); [apply (node_ok_same VS h0 off n m Eh Ev Hok)|congruence|exact E|exact Hin].
Qed.

Lemma CW_enter_commit c h cr : CW (enter_commit c h cr).
Proof.
  intros off n n' o hc hash Hok Hh. unfold enter_commit. destruct (_ || _); [intro E; injection E as _ <-; intros []|].
  destruct (maj23 _) as [b|]; [|discriminate]. cbn zeta.
  assert (S : forall m, height m = height n -> votes m = votes n -> try_finalize_commit c h m = Ok (n', o) -> In (OCommit hc hash) o ->
              hc = h0 /\ hash <> [] /\ exists r b, b_hash b = hash /\ Qr VS (voted_for VS h0 r 2%N off b)).
  { intros m Eh Ev. apply (CW_at _ off n m); auto using CW_try_finalize_commit. }
  destruct (hashes_to (lblock n) _).
  - destruct (hashes_to (pblock _) _); [apply S; reflexivity|].
    destruct (has_header _ _ _); [apply S; reflexivity|].
    destruct (new_pset _ _) as [ps| |]; try discriminate. apply S; reflexivity.
  - destruct (hashes_to (pblock _) _); [apply S; reflexivity|].
    destruct (has_header _ _ _); [apply S; reflexivity|].
    destruct (new_pset _ _) as [ps| |]; try discriminate. apply S; reflexivity.
Qed.

Lemma CW_add_part c h idx b dec ver : CW (add_part c h idx b dec ver).
Proof.
  intros off n n' o hc hash Hok Hh. unfold add_part. destruct (negb _); [apply nc_absurd, nc_ret|].
  destruct (pparts n) as [ps|]; [|apply nc_absurd, nc_ret].
  destruct (_ || _); [apply nc_absurd, nc_emit; reflexivity|]. destruct (existsb _ _); [apply nc_absurd, nc_ret|].
  destruct (ver && _); [apply nc_absurd, nc_emit; reflexivity|]. cbn zeta.
  destruct (Z.eqb _ _); [|intro E; injection E as _ <-; intros []].
  set (n2 := set_prop _ _ _ _).
  apply (CW_at (fun m => (if step m =? 3 then match is_proposal_complete m with
                                              | Panic w => Panic w | Err e => Err e
                                              | Ok true => enter_prevote h (round m) m | Ok false => ret m end
                          else if step m =? 8 then try_finalize_commit c h m else ret m)
                         >>= (fun n3 => if dec then ret n3 else emit (OErr 5) n3)) off n n2); [|reflexivity|reflexivity|exact Hok|exact Hh].
  apply CW_tail.
  - intros off' m m' o' hc' hash' Hm Hhm. destruct (step m =? 3).
    + destruct (is_proposal_complete m) as [[|]| |]; try discriminate; [apply nc_absurd, nc_enter_prevote|apply nc_absurd, nc_ret].
    + destruct (step m =? 8); [apply CW_try_finalize_commit; assumption|apply nc_absurd, nc_ret].
  - intro m. destruct dec; [left; reflexivity|right; eexists; reflexivity].
Qed.

Lemma CW_handle_timeout h r s : CW (handle_timeout h r s).
Proof.
  apply CW_nc. intros n n' o x. unfold handle_timeout. destruct (_ || _); [apply nc_ret|].
  destruct (s =? 1); [apply nc_enter_new_round|].
  destruct (s =? 3); [apply nc_enter_prevote|].
  destruct (s =? 5); [apply nc_enter_precommit|].
  destruct (s =? 7); [apply nc_enter_new_round|discriminate].
Qed.

Lemma kh_bind' f g : keeps_height f -> keeps_height g -> keeps_height (fun n => f n >>= g).
Proof. intros Hf Hg n n' o E. apply bind_ok in E as (n1 & o1 & o2 & E1 & E2 & ->). rewrite (Hg _ _ _ E2). apply (Hf _ _ _ E1). Qed.

Lemma CW_add_vote_cs c v peer : c_skip_commit c = false ->
  forall off n n' o hc hash, node_ok VS h0 off n -> height n = h0 -> add_vote_cs c v peer n = Ok (n', o) -> In (OCommit hc hash) o ->
    hc = h0 /\ hash <> [] /\ exists r b, b_hash b = hash /\ Qr VS (voted_for VS h0 r 2%N (v :: off) b).
Proof.
  intros Hskip off n n' o hc hash H Hh. unfold add_vote_cs. rewrite Hskip.
  destruct (v_height v + 1 =? height n).
  - destruct (negb _); [apply nc_absurd, nc_emit; reflexivity|]. destruct (last_commit n) as [lc|]; [|apply nc_absurd, nc_emit; reflexivity].
    destruct (add_vote lc v) as [[[lc' added] code]| |]; try discriminate. cbn zeta. rewrite andb_false_r. cbn [andb].
    apply (nc_absurd (fun m => ret m >>= (fun n2 => if N.eqb code 0 then ret n2 else emit (OErr (20 + code)) n2)) _ (set_last_commit n (Some lc'))).
    apply nc_bind; [apply nc_ret|]. intros m m' o' x. destruct (N.eqb code 0); [apply nc_ret|apply nc_emit; reflexivity].
  - destruct (v_height v =? height n); [|apply nc_absurd, nc_emit; reflexivity]. cbn zeta.
    destruct (hv_add_vote (votes n) v peer) as [[[hv added] code]| |] eqn:Ea; try discriminate.
    assert (H1 : node_ok VS h0 (v :: off) (set_votes n hv)).
    { destruct H as [L H]. split; [exact L|]. cbn [height votes set_votes]. intro E. destruct (H E) as [A B].
      destruct (hv_add_vote_ok VS Hbounded off _ _ _ _ _ _ A Ea) as [A' B']. split; [exact A'|congruence]. }
    assert (Hh1 : height (set_votes n hv) = h0) by exact Hh.
    intros E Hin. apply bind_ok in E as (n5 & o1 & o2 & E1 & E2 & ->).
    assert (Hin1 : In (OCommit hc hash) o1).
    { apply in_app_or in Hin as [Hin|Hin]; [exact Hin|]. destruct (N.eqb code 0); injection E2 as _ <-; [destruct Hin|]. destruct Hin as [Hx|[]]. discriminate. }
    clear Hin E2. revert E1 Hin1. set (n1 := set_votes n hv) in *. generalize (height n) as hh. intro hh. clearbody n1.
    destruct (negb added); [apply nc_absurd, nc_ret|].
    destruct (N.eqb (v_type v) 1).
    { cbn zeta. set (n2 := match lblock n1 with Some _ => _ | None => n1 end). clearbody n2.
      destruct (_ && any23_open _ _).
      - apply (nc_absurd (fun k => enter_new_round hh (v_round v) k >>= (fun n3 =>
                 match maj23 (hv_prevotes (votes n3) (v_round v)) with
                 | Some _ => enter_precommit hh (v_round v) n3
                 | None => enter_prevote hh (v_round v) n3 >>= enter_prevote_wait hh (v_round v) end)) _ n2).
        apply nc_bind; [apply nc_enter_new_round|]. intros k k' ok x. destruct (maj23 _); [apply nc_enter_precommit|].
        apply (nc_bind (enter_prevote hh (v_round v)) (enter_prevote_wait hh (v_round v))); [apply nc_enter_prevote|apply nc_wait1].
      - destruct (proposal n2) as [p|]; [|apply nc_absurd, nc_ret]. destruct (_ && _); [|apply nc_absurd, nc_ret].
        destruct (is_proposal_complete n2) as [[|]| |]; try discriminate; [apply nc_absurd, nc_enter_prevote|apply nc_absurd, nc_ret]. }
    destruct (N.eqb (v_type v) 2); [|discriminate]. cbn zeta.
    destruct (maj23 _) as [b|].
    + destruct (b_hash b); [apply nc_absurd, nc_enter_new_round_open|]. cbn [andb].
      apply (CW_tail (fun k => enter_new_round hh (v_round v) k >>= enter_precommit hh (v_round v) >>= enter_commit c hh (v_round v)) (fun n4 => ret n4));
        [| |exact H1|exact Hh1].
      * apply (CW_bind (fun k => enter_new_round hh (v_round v) k >>= enter_precommit hh (v_round v)) (enter_commit c hh (v_round v))).
        -- apply CW_nc. apply nc_bind; [apply nc_enter_new_round|apply nc_enter_precommit].
        -- apply CW_enter_commit.
        -- intro off'. apply pres_bind; [apply pres_enter_new_round|apply pres_enter_precommit].
        -- apply kh_bind'; [apply kh_enter_new_round|apply kh_enter_precommit].
      * intro k. left. reflexivity.
    + destruct (_ && any23_open _ _); [|apply nc_absurd, nc_ret].
      apply (nc_absurd (fun k => enter_new_round hh (v_round v) k >>= enter_precommit hh (v_round v) >>= enter_precommit_wait hh (v_round v)) _ n1).
      apply (nc_bind (fun k => enter_new_round hh (v_round v) k >>= enter_precommit hh (v_round v)) (enter_precommit_wait hh (v_round v))); [|apply nc_wait2].
      apply nc_bind; [apply nc_enter_new_round|apply nc_enter_precommit].
Qed.

Theorem CW_handle c i : c_skip_commit c = false ->
  forall off n n' o hc hash, node_ok VS h0 off n -> height n = h0 -> handle c i n = Ok (n', o) -> In (OCommit hc hash) o ->
    hc = h0 /\ hash <> [] /\ exists r b, b_hash b = hash /\ Qr VS (voted_for VS h0 r 2%N (delivered_of i ++ off) b).
Proof.
  intros Hs off n n' o hc hash Hok Hh. destruct i as [p sgn peer|h r idx b ok peer|v peer|h r s]; cbn [handle delivered_of app].
  - apply nc_absurd, nc_set_proposal.
  - apply CW_add_part; assumption.
  - apply CW_add_vote_cs; assumption.
  - apply CW_handle_timeout; assumption.
Qed.
End CommitWalk.
