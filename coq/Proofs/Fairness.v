(* Exact proportionality of the accumulate-and-subtract proposer rotation, on plain integer
   lists: powers [ps] (non-negative, total T > 0) and accumulators [acs].  One step adds each power
   to its accumulator, selects the first index holding the maximum, and subtracts T there.
   Starting from all-zero accumulators, in every window of T consecutive steps index i is
   selected exactly [nth i ps] times. *)
From Coq Require Import List ZArith Lia Arith Bool.
Import ListNotations.
Open Scope Z_scope.

Fixpoint sumZ (l : list Z) : Z := match l with [] => 0 | x :: t => x + sumZ t end.

Fixpoint zadd (a b : list Z) : list Z :=
  match a, b with x :: a', y :: b' => (x + y) :: zadd a' b' | _, _ => [] end.

Fixpoint upd (l : list Z) (i : nat) (d : Z) : list Z :=
  match l, i with
  | [], _ => []
  | x :: t, O => (x + d) :: t
  | x :: t, S i' => x :: upd t i' d
  end.

Fixpoint amax_from (l : list Z) (i best : nat) (bestv : Z) : nat :=
  match l with
  | [] => best
  | x :: t => if bestv <? x then amax_from t (S i) i x else amax_from t (S i) best bestv
  end.
Definition amax (l : list Z) : nat := match l with [] => O | x :: t => amax_from t 1 0 x end.

Lemma nth_zadd a b i : length a = length b -> nth i (zadd a b) 0 = nth i a 0 + nth i b 0.
Proof.
  revert b i; induction a as [|x a IH]; intros [|y b] i H; simpl in *; try lia; [destruct i; reflexivity|].
  destruct i; [reflexivity|]. apply IH. lia.
Qed.
Lemma zadd_length a b : length a = length b -> length (zadd a b) = length a.
Proof. revert b; induction a as [|x a IH]; intros [|y b] H; simpl in *; try lia. rewrite IH; lia. Qed.
Lemma sumZ_zadd a b : length a = length b -> sumZ (zadd a b) = sumZ a + sumZ b.
Proof. revert b; induction a as [|x a IH]; intros [|y b] H; simpl in *; try lia. rewrite IH; lia. Qed.

Lemma upd_length l i d : length (upd l i d) = length l.
Proof. revert i; induction l as [|x t IH]; intros [|i]; simpl; auto. Qed.
Lemma nth_upd_eq l i d : (i < length l)%nat -> nth i (upd l i d) 0 = nth i l 0 + d.
Proof. revert i; induction l as [|x t IH]; intros [|i] H; simpl in *; try lia. apply IH. lia. Qed.
Lemma nth_upd_neq l i j d : i <> j -> nth j (upd l i d) 0 = nth j l 0.
Proof. revert i j; induction l as [|x t IH]; intros [|i] [|j] H; simpl; auto; try lia. Qed.
Lemma sumZ_upd l i d : (i < length l)%nat -> sumZ (upd l i d) = sumZ l + d.
Proof. revert i; induction l as [|x t IH]; intros [|i] H; simpl in *; try lia. rewrite IH; lia. Qed.

(* the selected index holds a maximum *)
Lemma amax_from_spec l : forall i best bestv,
  (best < i)%nat ->
  let r := amax_from l i best bestv in
  (r = best \/ (i <= r < i + length l)%nat) /\
  (r = best -> bestv >= 0 -> True) /\
  (forall v, (r = best /\ v = bestv) \/ ((i <= r)%nat /\ v = nth (r - i) l 0) ->
     bestv <= v /\ forall j, (j < length l)%nat -> nth j l 0 <= v).
Proof.
  induction l as [|x t IH]; intros i best bestv Hb; simpl.
  - split; [left; reflexivity|]. split; [auto|]. intros v [[_ ->]|[Hi _]]; [split; [lia|intros; lia]|lia].
  - destruct (Z.ltb_spec bestv x) as [Hlt|Hge].
    + destruct (IH (S i) i x ltac:(lia)) as (A & _ & C).
      split; [destruct A as [-> | A]; right; simpl; lia|]. split; [auto|].
      intros v Hv. set (r := amax_from t (S i) i x) in *.
      assert (Hc : (r = i /\ v = x) \/ ((S i <= r)%nat /\ v = nth (r - S i) t 0)).
      { destruct Hv as [[Hr ->]|[Hi ->]].
        - destruct A as [A|A]; lia.
        - destruct A as [A|A]; [left; split; [exact A|]; rewrite A, Nat.sub_diag; reflexivity|].
          right. split; [lia|]. replace (r - i)%nat with (S (r - S i)) by lia. reflexivity. }
      destruct (C v Hc) as [C1 C2]. split; [lia|]. intros [|j] Hj; [lia|]. apply C2. simpl in Hj. lia.
    + destruct (IH (S i) best bestv ltac:(lia)) as (A & _ & C).
      split; [destruct A as [-> | A]; [left; reflexivity|right; simpl; lia]|]. split; [auto|].
      intros v Hv. set (r := amax_from t (S i) best bestv) in *.
      assert (Hc : (r = best /\ v = bestv) \/ ((S i <= r)%nat /\ v = nth (r - S i) t 0)).
      { destruct Hv as [[Hr ->]|[Hi ->]]; [left; auto|].
        destruct A as [A|A]; [lia|]. right. split; [lia|]. replace (r - i)%nat with (S (r - S i)) by lia. reflexivity. }
      destruct (C v Hc) as [C1 C2]. split; [lia|]. intros [|j] Hj; [lia|]. apply C2. simpl in Hj. lia.
Qed.

Lemma amax_spec l : l <> [] ->
  (amax l < length l)%nat /\ forall j, (j < length l)%nat -> nth j l 0 <= nth (amax l) l 0.
Proof.
  destruct l as [|x t]; [congruence|]. intros _. unfold amax.
  destruct (amax_from_spec t 1 0 x ltac:(lia)) as (A & _ & C).
  set (r := amax_from t 1 0 x) in *.
  split; [destruct A as [->|A]; simpl; lia|].
  assert (Hc : (r = 0%nat /\ nth r (x :: t) 0 = x) \/ ((1 <= r)%nat /\ nth r (x :: t) 0 = nth (r - 1) t 0)).
  { destruct A as [A|A]; [left; rewrite A; auto|right]. split; [lia|]. destruct r; [lia|]. simpl. rewrite Nat.sub_0_r. reflexivity. }
  destruct (C _ Hc) as [C1 C2]. intros [|j] Hj; [exact C1|]. simpl. apply C2. simpl in Hj. lia.
Qed.

Lemma sum_pos_max_pos l : 0 < sumZ l -> l <> [] /\ 0 < nth (amax l) l 0.
Proof.
  intro Hs. assert (Hne : l <> []) by (intro E; subst; simpl in Hs; lia). split; [exact Hne|].
  destruct (amax_spec l Hne) as [_ Hmax].
  destruct (Z_lt_le_dec 0 (nth (amax l) l 0)) as [Hp|Hn]; [exact Hp|exfalso].
  assert (Hall : forall j, (j < length l)%nat -> nth j l 0 <= 0) by (intros j Hj; specialize (Hmax j Hj); lia).
  clear -Hs Hall. induction l as [|x t IH]; simpl in *; [lia|].
  assert (x <= 0) by (apply (Hall 0%nat); lia).
  assert (sumZ t <= 0); [|lia].
  destruct (Z_lt_le_dec 0 (sumZ t)) as [Hp|Hn]; [|exact Hn]. exfalso. apply IH; [exact Hp|]. intros j Hj. apply (Hall (S j)). lia.
Qed.

(* linear relation pointwise => relation between sums *)
Lemma sumZ_linear k T : forall acs ps cs, length acs = length ps -> length cs = length ps ->
  (forall i, nth i acs 0 = k * nth i ps 0 - T * nth i cs 0) -> sumZ acs = k * sumZ ps - T * sumZ cs.
Proof.
  induction acs as [|a acs IH]; intros [|p ps] [|c cs] H1 H2 Hp; simpl in *; try lia.
  rewrite (IH ps cs); try lia.
  - specialize (Hp 0%nat). simpl in Hp. lia.
  - intro i. exact (Hp (S i)).
Qed.

Lemma pointwise_le_sum_eq : forall cs ps, length cs = length ps ->
  (forall i, nth i cs 0 <= nth i ps 0) -> sumZ cs = sumZ ps -> forall i, nth i cs 0 = nth i ps 0.
Proof.
  induction cs as [|c cs IH]; intros [|p ps] Hl Hle Hs i.
  { destruct i; reflexivity. }
  { simpl in Hl; lia. }
  { simpl in Hl; lia. }
  cbn [sumZ length] in *.
  assert (c <= p) by exact (Hle 0%nat).
  assert (Hle' : forall j, nth j cs 0 <= nth j ps 0) by (intro j; exact (Hle (S j))).
  assert (Hsl : sumZ cs <= sumZ ps).
  { clear -Hle' Hl. revert ps Hl Hle'. induction cs as [|c cs IH]; intros [|p ps] Hl Hle; simpl in *; try lia.
    specialize (IH ps ltac:(lia) (fun j => Hle (S j))). specialize (Hle 0%nat). simpl in Hle. lia. }
  destruct i as [|i]; [cbn; lia|]. cbn [nth]. apply IH; auto; lia.
Qed.

Section Rotation.
Variable ps : list Z.
Hypothesis ps_nonneg : forall i, 0 <= nth i ps 0.
Let T := sumZ ps.
Hypothesis T_pos : 0 < T.

(* one step: selected index and new accumulators *)
Definition pstep (acs : list Z) : nat * list Z :=
  let l1 := zadd acs ps in (amax l1, upd l1 (amax l1) (- T)).

Fixpoint prun (acs : list Z) (n : nat) : list nat * list Z :=
  match n with
  | O => ([], acs)
  | S n' => let '(i, acs1) := pstep acs in let '(tr, acs2) := prun acs1 n' in (i :: tr, acs2)
  end.

Lemma prun_app acs n m :
  prun acs (n + m) = let '(t1, a1) := prun acs n in let '(t2, a2) := prun a1 m in (t1 ++ t2, a2).
Proof.
  revert acs; induction n as [|n IH]; intro acs; cbn [prun Nat.add].
  - destruct (prun acs m); reflexivity.
  - destruct (pstep acs) as [i a1]. rewrite IH. destruct (prun a1 n) as [t1 a2]. destruct (prun a2 m) as [t2 a3]. reflexivity.
Qed.

Lemma prun_S acs n :
  prun acs (S n) = (fst (pstep acs) :: fst (prun (snd (pstep acs)) n), snd (prun (snd (pstep acs)) n)).
Proof. cbn [prun]. destruct (pstep acs) as [i a1]. cbn [fst snd]. destruct (prun a1 n); reflexivity. Qed.

Lemma prun_snoc_snd acs m : snd (prun acs (S m)) = snd (pstep (snd (prun acs m))).
Proof.
  replace (S m) with (m + 1)%nat by lia. rewrite prun_app.
  destruct (prun acs m) as [t1 a1]. cbn [snd]. rewrite prun_S. cbn [prun snd]. reflexivity.
Qed.

Definition cnt (tr : list nat) (i : nat) : Z := Z.of_nat (count_occ Nat.eq_dec tr i).

(* invariant after k steps from zero *)
Definition PInv (k : Z) (acs : list Z) (cs : list Z) : Prop :=
  length acs = length ps /\ length cs = length ps /\
  (forall i, nth i acs 0 = k * nth i ps 0 - T * nth i cs 0) /\
  (forall i, 0 <= nth i cs 0 <= nth i ps 0) /\ sumZ cs = k.

Lemma pstep_inv k acs cs : PInv k acs cs -> 0 <= k < T ->
  let '(i, acs') := pstep acs in
  (i < length ps)%nat /\ PInv (k + 1) acs' (upd cs i 1).
Proof.
  intros (L1 & L2 & Hrel & Hb & Hs) Hk. unfold pstep.
  set (l1 := zadd acs ps). set (i := amax l1).
  assert (Hl1 : length l1 = length ps) by (unfold l1; rewrite zadd_length; lia).
  assert (Hn1 : forall j, nth j l1 0 = (k + 1) * nth j ps 0 - T * nth j cs 0).
  { intro j. unfold l1. rewrite nth_zadd by lia. rewrite Hrel. lia. }
  assert (Hsum1 : sumZ l1 = T).
  { unfold l1. rewrite sumZ_zadd by lia. rewrite (sumZ_linear k T acs ps cs) by auto. fold T. lia. }
  destruct (sum_pos_max_pos l1 ltac:(lia)) as [Hne Hpos]. fold i in Hpos.
  destruct (amax_spec l1 Hne) as [Hi _]. fold i in Hi.
  split; [lia|].
  assert (Hci : nth i cs 0 < nth i ps 0).
  { rewrite Hn1 in Hpos. destruct (Z_lt_le_dec (nth i cs 0) (nth i ps 0)) as [Hlt|Hge]; [exact Hlt|exfalso].
    assert (T * nth i cs 0 >= T * nth i ps 0) by (apply Z.le_ge; apply Z.mul_le_mono_nonneg_l; lia).
    assert ((k + 1) * nth i ps 0 <= T * nth i ps 0) by (apply Z.mul_le_mono_nonneg_r; [apply ps_nonneg|lia]).
    lia. }
  repeat split.
  - rewrite upd_length. lia.
  - rewrite upd_length. lia.
  - intro j. destruct (Nat.eq_dec i j) as [<-|Hne'].
    + rewrite !nth_upd_eq by lia. rewrite Hn1. lia.
    + rewrite !nth_upd_neq by assumption. apply Hn1.
  - destruct (Nat.eq_dec i i0) as [<-|Hne']; [rewrite nth_upd_eq by lia; specialize (Hb i); lia|rewrite nth_upd_neq by assumption; apply Hb].
  - destruct (Nat.eq_dec i i0) as [<-|Hne']; [rewrite nth_upd_eq by lia; lia|rewrite nth_upd_neq by assumption; apply Hb].
  - rewrite sumZ_upd by lia. lia.
Qed.

Lemma cnt_cons_eq i tr : cnt (i :: tr) i = cnt tr i + 1.
Proof. unfold cnt. simpl. destruct (Nat.eq_dec i i); [lia|congruence]. Qed.
Lemma cnt_cons_neq i j tr : i <> j -> cnt (i :: tr) j = cnt tr j.
Proof. unfold cnt. simpl. intro H. destruct (Nat.eq_dec i j); [congruence|reflexivity]. Qed.
Lemma cnt_app t1 t2 i : cnt (t1 ++ t2) i = cnt t1 i + cnt t2 i.
Proof. unfold cnt. rewrite count_occ_app. lia. Qed.

Lemma prun_inv n : forall k acs cs, PInv k acs cs -> 0 <= k -> k + Z.of_nat n <= T ->
  let '(tr, acs') := prun acs n in
  exists cs', PInv (k + Z.of_nat n) acs' cs' /\ (forall i, nth i cs' 0 = nth i cs 0 + cnt tr i) /\
              Forall (fun i => (i < length ps)%nat) tr.
Proof.
  induction n as [|n IH]; intros k acs cs HI Hk Hn.
  - cbn [prun]. exists cs. rewrite Z.add_0_r. split; [exact HI|]. split; [intro i; unfold cnt; simpl; lia|constructor].
  - cbn [prun]. pose proof (pstep_inv k acs cs HI ltac:(lia)) as Hst. destruct (pstep acs) as [i acs1].
    destruct Hst as [Hi HI1].
    specialize (IH (k + 1) acs1 (upd cs i 1) HI1 ltac:(lia) ltac:(lia)).
    destruct (prun acs1 n) as [tr acs2]. destruct IH as (cs' & HI2 & Hc & Hf).
    exists cs'. split; [replace (k + Z.of_nat (S n)) with (k + 1 + Z.of_nat n) by lia; exact HI2|].
    split; [|constructor; assumption].
    intro j. rewrite Hc. destruct HI as (_ & L2 & _). destruct (Nat.eq_dec i j) as [<-|Hne].
    + rewrite nth_upd_eq by lia. rewrite cnt_cons_eq. lia.
    + rewrite nth_upd_neq by assumption. rewrite cnt_cons_neq by assumption. lia.
Qed.

Definition zeros : list Z := repeat 0 (length ps).

Lemma nth_zeros i : nth i zeros 0 = 0.
Proof. unfold zeros. generalize (length ps). intro n. revert i; induction n; intros [|i]; simpl; auto. Qed.

Lemma PInv_zero : PInv 0 zeros zeros.
Proof.
  unfold PInv, zeros. rewrite !repeat_length. repeat split; auto.
  - intro i. fold zeros. rewrite nth_zeros. lia.
  - fold zeros. rewrite nth_zeros. lia.
  - fold zeros. rewrite nth_zeros. apply ps_nonneg.
  - generalize (length ps). induction n; simpl; lia.
Qed.

(* a full period: every index selected exactly its power, accumulators back to zero *)
Theorem full_period :
  let '(tr, acs) := prun zeros (Z.to_nat T) in
  (forall i, cnt tr i = nth i ps 0) /\ acs = zeros /\ length tr = Z.to_nat T.
Proof.
  pose proof (prun_inv (Z.to_nat T) 0 zeros zeros PInv_zero ltac:(lia) ltac:(lia)) as H.
  assert (Hlen : forall acs n, length (fst (prun acs n)) = n).
  { intros acs n; revert acs; induction n as [|n IH]; intro acs; cbn [prun]; [reflexivity|].
    destruct (pstep acs) as [i a1]. specialize (IH a1). destruct (prun a1 n). simpl in *. lia. }
  specialize (Hlen zeros (Z.to_nat T)).
  destruct (prun zeros (Z.to_nat T)) as [tr acs]. destruct H as (cs' & (L1 & L2 & Hrel & Hb & Hs) & Hc & _).
  rewrite Z2Nat.id in * by lia. simpl in Hlen.
  assert (Heq : forall i, nth i cs' 0 = nth i ps 0).
  { apply pointwise_le_sum_eq; [lia|intro i; apply Hb|]. fold T. lia. }
  split; [intro i; rewrite <- Heq, Hc, nth_zeros; lia|]. split; [|exact Hlen].
  apply (nth_ext _ _ 0 0); [unfold zeros; rewrite repeat_length; lia|].
  intros i _. rewrite Hrel, Heq, nth_zeros. lia.
Qed.

(* every window of T consecutive selections *)
Theorem every_window s :
  let tr := fst (prun zeros (s + Z.to_nat T)) in
  forall i, cnt (skipn s tr) i = nth i ps 0.
Proof.
  intros tr i. unfold tr.
  (* split s + T as s then T, and also as T then s *)
  pose proof full_period as Hfp. destruct (prun zeros (Z.to_nat T)) as [trT aT] eqn:ET. destruct Hfp as (HcT & HaT & HlT). subst aT.
  assert (Hlen : forall acs n, length (fst (prun acs n)) = n).
  { intros acs n; revert acs; induction n as [|n IH]; intro acs; cbn [prun]; [reflexivity|].
    destruct (pstep acs) as [j a1]. specialize (IH a1). destruct (prun a1 n). simpl in *. lia. }
  (* first decomposition *)
  rewrite prun_app. destruct (prun zeros s) as [ts as_] eqn:Es.
  destruct (prun as_ (Z.to_nat T)) as [tw aw] eqn:Ew. cbn [fst].
  assert (Hls : length ts = s) by (pose proof (Hlen zeros s) as Hx; rewrite Es in Hx; exact Hx).
  rewrite skipn_app, Hls, Nat.sub_diag. cbn [skipn]. rewrite <- Hls, skipn_all, app_nil_l.
  (* second decomposition of the same run: T then s *)
  pose proof (prun_app zeros (Z.to_nat T) s) as H2. rewrite ET, Es in H2.
  pose proof (prun_app zeros s (Z.to_nat T)) as H1. rewrite Es, Ew in H1.
  rewrite Nat.add_comm in H2. rewrite H1 in H2. injection H2 as Htr _.
  assert (Hc : cnt (ts ++ tw) i = cnt (trT ++ ts) i) by (rewrite Htr; reflexivity).
  rewrite !cnt_app in Hc. rewrite HcT in Hc. lia.
Qed.

End Rotation.

(* ---------- bounds along arbitrary runs from zero ---------- *)
Section Bounds.
Variable ps : list Z.
Hypothesis ps_nonneg : forall i, 0 <= nth i ps 0.
Let T := sumZ ps.
Hypothesis T_pos : 0 < T.

Lemma prun_length acs n : length acs = length ps -> length (snd (prun ps acs n)) = length ps.
Proof.
  revert acs; induction n as [|n IH]; intros acs Hl; cbn [prun]; [exact Hl|].
  unfold pstep. cbn zeta.
  specialize (IH (upd (zadd acs ps) (amax (zadd acs ps)) (- sumZ ps))).
  destruct (prun ps (upd (zadd acs ps) (amax (zadd acs ps)) (- sumZ ps)) n) as [tr a2]. cbn [snd] in *.
  apply IH. rewrite upd_length, zadd_length; auto.
Qed.

Lemma prun_periods q : snd (prun ps (zeros ps) (q * Z.to_nat T)) = zeros ps.
Proof.
  induction q as [|q IH]; [reflexivity|].
  cbn [Nat.mul]. rewrite Nat.add_comm, prun_app.
  destruct (prun ps (zeros ps) (q * Z.to_nat T)) as [t1 a1]. cbn [snd] in IH. subst a1.
  pose proof (full_period ps ps_nonneg T_pos) as Hfp. fold T in Hfp.
  destruct (prun ps (zeros ps) (Z.to_nat T)) as [t2 a2]. destruct Hfp as (_ & -> & _). reflexivity.
Qed.

Lemma pnth_le_T i : nth i ps 0 <= T.
Proof.
  unfold T. clear T_pos. revert i. induction ps as [|p t IH]; intro i; [destruct i; simpl; lia|].
  assert (Hn : forall j, 0 <= nth j t 0) by (intro j; exact (ps_nonneg (S j))).
  assert (0 <= p) by exact (ps_nonneg 0%nat).
  assert (Hs : 0 <= sumZ t).
  { clear -Hn. induction t as [|x t IH]; simpl; [lia|]. assert (0 <= x) by exact (Hn 0%nat).
    assert (0 <= sumZ t) by (apply IH; intro j; exact (Hn (S j))). lia. }
  simpl. destruct i as [|i]; [lia|]. specialize (IH Hn i). lia.
Qed.

Theorem prun_bounded n i : - (T * T) <= nth i (snd (prun ps (zeros ps) n)) 0 <= T * T.
Proof.
  set (t := Z.to_nat T). assert (Ht : (0 < t)%nat) by (unfold t; lia).
  rewrite (Nat.div_mod n t) by lia. rewrite (Nat.mul_comm t), prun_app.
  pose proof (prun_periods (n / t)) as Hp. fold t in Hp.
  destruct (prun ps (zeros ps) (n / t * t)) as [t1 a1]. cbn [snd] in Hp. subst a1.
  pose proof (Nat.mod_upper_bound n t ltac:(lia)) as Hr.
  pose proof (prun_inv ps ps_nonneg T_pos (n mod t) 0 (zeros ps) (zeros ps) (PInv_zero ps ps_nonneg) ltac:(lia)) as Hinv.
  fold T in Hinv. assert (Hrz : 0 + Z.of_nat (n mod t) <= T) by (unfold t in *; lia). specialize (Hinv Hrz).
  destruct (prun ps (zeros ps) (n mod t)) as [t2 a2]. cbn [snd].
  destruct Hinv as (cs & (_ & _ & Hrel & Hb & _) & _ & _).
  rewrite Hrel. specialize (Hb i). pose proof (pnth_le_T i). pose proof (ps_nonneg i).
  assert (0 <= Z.of_nat (n mod t) <= T) by lia.
  assert (0 <= (0 + Z.of_nat (n mod t)) * nth i ps 0 <= T * T) by (split; [apply Z.mul_nonneg_nonneg; lia|apply Z.mul_le_mono_nonneg; lia]).
  assert (0 <= T * nth i cs 0 <= T * T) by (split; [apply Z.mul_nonneg_nonneg; lia|apply Z.mul_le_mono_nonneg_l; lia]).
  lia.
Qed.

End Bounds.
