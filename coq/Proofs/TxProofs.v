(* Proofs about Model/TxExec.v: atomicity of a transaction, the nonce rule and replay protection
   over any sequence of blocks, independence of the verifier schedule, and determinism of the
   application's outputs across process lifetimes. *)
From Coq Require Import List NArith Bool Lia Arith.
From AnnVerif Require Import Model.TxExec.
Import ListNotations.
Open Scope N_scope.

(* ---------- nonces ---------- *)
Lemma nonce_set_same l a n : nonce_of (set_nonce l a n) a = n.
Proof.
  induction l as [|[b m] t IH]; cbn [set_nonce nonce_of].
  - now rewrite N.eqb_refl.
  - destruct (b =? a) eqn:E; cbn [nonce_of]; [now rewrite N.eqb_refl | now rewrite E].
Qed.
Lemma nonce_set_other l a b n : a <> b -> nonce_of (set_nonce l a n) b = nonce_of l b.
Proof.
  intros Hab. induction l as [|[c m] t IH]; cbn [set_nonce nonce_of].
  - destruct (a =? b) eqn:E; [apply N.eqb_eq in E; contradiction | reflexivity].
  - destruct (c =? a) eqn:E; cbn [nonce_of].
    + apply N.eqb_eq in E; subst c.
      destruct (a =? b) eqn:E2; [apply N.eqb_eq in E2; contradiction | reflexivity].
    + destruct (c =? b); [reflexivity | exact IH].
Qed.

(* ---------- one transaction ---------- *)
Lemma exec_invalid_unchanged s t s' : exec_checked s t = (s', false) -> s' = s.
Proof.
  unfold exec_checked. destruct (t_sender t) as [a|]; [|now inversion 1].
  destruct (run_tx s a t) as [s1 ok]. destruct ok; inversion 1; reflexivity.
Qed.

Lemma exec_valid_inv s t s' :
  exec_checked s t = (s', true) ->
  exists a, t_sender t = Some a /\ nonce_of (nonces s) a = t_nonce t /\ t_ok t = true /\
            s' = mkSt (set_nonce (nonces s) a (t_nonce t + 1)) (effects s ++ [t_id t]).
Proof.
  unfold exec_checked. destruct (t_sender t) as [a|]; [|now inversion 1].
  unfold run_tx. destruct (nonce_of (nonces s) a =? t_nonce t) eqn:E; cbn [negb].
  - destruct (t_ok t) eqn:Ok; cbn; inversion 1. exists a. apply N.eqb_eq in E. repeat split; auto.
  - inversion 1.
Qed.

Lemma exec_valid_iff s t :
  snd (exec_checked s t) = true <->
  exists a, t_sender t = Some a /\ nonce_of (nonces s) a = t_nonce t /\ t_ok t = true.
Proof.
  split.
  - destruct (exec_checked s t) as [s' v] eqn:E. cbn. intros ->.
    destruct (exec_valid_inv _ _ _ E) as (a & H1 & H2 & H3 & _). eauto.
  - intros (a & H1 & H2 & H3). unfold exec_checked, run_tx. rewrite H1, H2, N.eqb_refl, H3. reflexivity.
Qed.

Lemma exec_valid_nonce s t s' a :
  exec_checked s t = (s', true) -> t_sender t = Some a ->
  nonce_of (nonces s') a = nonce_of (nonces s) a + 1 /\
  (forall b, b <> a -> nonce_of (nonces s') b = nonce_of (nonces s) b).
Proof.
  intros H Ha. destruct (exec_valid_inv _ _ _ H) as (a' & H1 & H2 & _ & ->).
  rewrite Ha in H1. inversion H1; subst a'. cbn [nonces]. split.
  - now rewrite nonce_set_same, H2.
  - intros b Hb. apply nonce_set_other. congruence.
Qed.

(* ---------- blocks ---------- *)
Lemma exec_block_length s txs : length (snd (exec_block s txs)) = length txs.
Proof.
  revert s. induction txs as [|t r IH]; intros s; cbn [exec_block]; [reflexivity|].
  destruct (exec_checked s t) as [s1 v]. specialize (IH s1). destruct (exec_block s1 r). cbn in *. lia.
Qed.

Lemma exec_block_app s a b :
  exec_block s (a ++ b) =
  let '(s1, va) := exec_block s a in let '(s2, vb) := exec_block s1 b in (s2, va ++ vb).
Proof.
  revert s. induction a as [|t r IH]; intros s; cbn [exec_block List.app].
  - destruct (exec_block s b); reflexivity.
  - destruct (exec_checked s t) as [s1 v]. rewrite IH.
    destruct (exec_block s1 r) as [s2 va]. destruct (exec_block s2 b). reflexivity.
Qed.

(* an invalid transaction leaves the state exactly as if it had not been in the block: executing
   only the applied transactions gives the same state, and all of them apply *)
Lemma exec_block_filter s txs :
  let '(s', vs) := exec_block s txs in
  exec_block s (applied txs vs) = (s', map (fun _ => true) (applied txs vs)).
Proof.
  revert s. induction txs as [|t r IH]; intros s; cbn [exec_block]; [reflexivity|].
  destruct (exec_checked s t) as [s1 v] eqn:E. specialize (IH s1).
  destruct (exec_block s1 r) as [s2 vs]. cbn [applied]. destruct v.
  - cbn [exec_block map]. rewrite E, IH. reflexivity.
  - apply exec_invalid_unchanged in E. subst s1. exact IH.
Qed.

Lemma exec_block_drop_invalid s a t b :
  snd (exec_checked (fst (exec_block s a)) t) = false ->
  fst (exec_block s (a ++ t :: b)) = fst (exec_block s (a ++ b)).
Proof.
  intros H. rewrite !exec_block_app. destruct (exec_block s a) as [s1 va]. cbn [fst] in H.
  cbn [exec_block]. destruct (exec_checked s1 t) as [s1' v] eqn:E. cbn in H. subst v.
  apply exec_invalid_unchanged in E. subst s1'.
  destruct (exec_block s1 b). reflexivity.
Qed.

(* ---------- replay protection ---------- *)
Definition is_an (a n : N) (t : tx) : bool :=
  match t_sender t with Some b => (b =? a) && (t_nonce t =? n) | None => false end.
Definition count_applied (a n : N) (txs : list tx) (vs : list bool) : nat :=
  length (filter (is_an a n) (applied txs vs)).

Lemma nonce_mono s txs a : nonce_of (nonces s) a <= nonce_of (nonces (fst (exec_block s txs))) a.
Proof.
  revert s. induction txs as [|t r IH]; intros s; cbn [exec_block]; [cbn; lia|].
  destruct (exec_checked s t) as [s1 v] eqn:E. specialize (IH s1).
  destruct (exec_block s1 r) as [s2 vs]. cbn [fst] in *.
  destruct v.
  - destruct (exec_valid_inv _ _ _ E) as (b & Hb & _).
    destruct (exec_valid_nonce _ _ _ _ E Hb) as [H1 H2].
    destruct (N.eq_dec a b) as [->|Hne]; [lia | rewrite H2 in IH by exact Hne; exact IH].
  - apply exec_invalid_unchanged in E. now subst.
Qed.

Lemma at_most_once_gen s txs a n :
  (count_applied a n txs (snd (exec_block s txs)) <= if (nonce_of (nonces s) a <=? n)%N then 1 else 0)%nat.
Proof.
  revert s. induction txs as [|t r IH]; intros s; cbn [exec_block].
  - cbn. destruct (_ <=? _); lia.
  - destruct (exec_checked s t) as [s1 v] eqn:E. specialize (IH s1).
    destruct (exec_block s1 r) as [s2 vs]. cbn [snd] in *. unfold count_applied in *. cbn [applied].
    destruct v.
    + destruct (exec_valid_inv _ _ _ E) as (b & Hb & Hn & _).
      destruct (exec_valid_nonce _ _ _ _ E Hb) as [H1 H2].
      cbn [filter]. unfold is_an at 1. rewrite Hb.
      destruct (N.eq_dec b a) as [->|Hne].
      * rewrite N.eqb_refl. cbn [andb]. rewrite H1 in IH.
        destruct (t_nonce t =? n) eqn:En.
        -- apply N.eqb_eq in En. cbn [length].
           destruct (nonce_of (nonces s) a + 1 <=? n) eqn:C1; [apply N.leb_le in C1; lia|].
           destruct (nonce_of (nonces s) a <=? n) eqn:C2; [lia | apply N.leb_gt in C2; lia].
        -- apply N.eqb_neq in En.
           destruct (nonce_of (nonces s) a + 1 <=? n) eqn:C1;
             destruct (nonce_of (nonces s) a <=? n) eqn:C2; try lia.
           apply N.leb_le in C1. apply N.leb_gt in C2. lia.
      * assert (b =? a = false) as -> by (apply N.eqb_neq; exact Hne). cbn [andb].
        rewrite H2 in IH by congruence. exact IH.
    + apply exec_invalid_unchanged in E. subst s1. exact IH.
Qed.

(* a signed transaction takes effect at most once in any sequence of transactions *)
Lemma at_most_once s txs a n : (count_applied a n txs (snd (exec_block s txs)) <= 1)%nat.
Proof. pose proof (at_most_once_gen s txs a n). destruct (_ <=? _); lia. Qed.

(* the same bytes again: every later occurrence of an applied transaction is invalid *)
Lemma replayed_is_invalid s a t b :
  snd (exec_checked (fst (exec_block s a)) t) = true ->
  forall c, snd (exec_checked (fst (exec_block s (a ++ t :: b ++ c))) t) = false.
Proof.
  intros H c. destruct (snd (exec_checked (fst (exec_block s (a ++ t :: b ++ c))) t)) eqn:E; [|reflexivity].
  exfalso. apply exec_valid_iff in H. destruct H as (x & Hx & Hn & Hok).
  apply exec_valid_iff in E. destruct E as (x' & Hx' & Hn' & _).
  rewrite Hx in Hx'. inversion Hx'; subst x'.
  (* after t applied, the nonce of x is above t's nonce and never comes back *)
  assert (Hstep : nonce_of (nonces (fst (exec_block s (a ++ [t])))) x = t_nonce t + 1).
  { rewrite exec_block_app. destruct (exec_block s a) as [s1 va]. cbn [fst] in *.
    cbn [exec_block]. destruct (exec_checked s1 t) as [s1' v] eqn:E1.
    assert (v = true) as ->.
    { assert (snd (exec_checked s1 t) = true) by (apply exec_valid_iff; exists x; auto). rewrite E1 in H. exact H. }
    destruct (exec_valid_nonce _ _ _ _ E1 Hx) as [H1 _]. cbn. lia. }
  assert (Hm := nonce_mono (fst (exec_block s (a ++ [t]))) (b ++ c) x).
  replace (a ++ t :: b ++ c) with ((a ++ [t]) ++ (b ++ c)) in Hn' by (rewrite <- app_assoc; reflexivity).
  rewrite exec_block_app in Hn'.
  destruct (exec_block s (a ++ [t])) as [s1 va]. cbn [fst] in *.
  destruct (exec_block s1 (b ++ c)) as [s2 vb]. cbn [fst] in *. lia.
Qed.

(* ---------- the parallel verifier ---------- *)
Definition settle (x : tx * status) : tx * status :=
  match x with (t, StInit) => (t, verify t) | _ => x end.
Lemma verify_not_init t : verify t <> StInit.
Proof. unfold verify. destruct (t_sender t); discriminate. Qed.
Lemma settle_idem x : settle (settle x) = settle x.
Proof.
  destruct x as [t st]. destruct st; cbn; try reflexivity.
  pose proof (verify_not_init t). destruct (verify t); [contradiction | reflexivity | reflexivity].
Qed.

Lemma claim_nth slots i j :
  nth_error (claim slots i) j =
  if Nat.eqb j i then option_map settle (nth_error slots j) else nth_error slots j.
Proof.
  revert i j. induction slots as [|[t st] r IH]; intros i j.
  - destruct i, j; cbn; try reflexivity; destruct (Nat.eqb _ _); reflexivity.
  - destruct i as [|i'].
    + destruct j as [|j']; destruct st; cbn; reflexivity.
    + destruct j as [|j']; cbn [claim nth_error Nat.eqb]; [destruct st; reflexivity|].
      destruct st; apply IH.
Qed.

Lemma sched_nth sched : forall slots j x,
  nth_error slots j = Some x ->
  nth_error (fold_left claim sched slots) j = Some (if existsb (Nat.eqb j) sched then settle x else x).
Proof.
  induction sched as [|i r IH]; intros slots j x H; cbn [fold_left existsb]; [exact H|].
  destruct (Nat.eqb j i) eqn:E; cbn [orb].
  - rewrite (IH (claim slots i) j (settle x)).
    + rewrite settle_idem. destruct (existsb _ r); reflexivity.
    + rewrite claim_nth, E, H. reflexivity.
  - apply IH. rewrite claim_nth, E. exact H.
Qed.

Lemma claim_length slots i : length (claim slots i) = length slots.
Proof.
  revert i. induction slots as [|[t st] r IH]; intros i; [destruct i; reflexivity|].
  destruct i; destruct st; cbn; try reflexivity; now rewrite IH.
Qed.
Lemma sched_length sched : forall slots, length (fold_left claim sched slots) = length slots.
Proof.
  induction sched as [|i r IH]; intros slots; cbn [fold_left]; [reflexivity|].
  now rewrite IH, claim_length.
Qed.

Lemma nth_error_ext' {A} (l l' : list A) : (forall j, nth_error l j = nth_error l' j) -> l = l'.
Proof.
  revert l'. induction l as [|x t IH]; intros l' H.
  - destruct l'; [reflexivity | specialize (H O); discriminate].
  - destruct l' as [|y t']; [specialize (H O); discriminate|].
    pose proof (H O) as H0. cbn in H0. inversion H0; subst. f_equal.
    apply IH. intros j. exact (H (S j)).
Qed.

Lemma fair_all_settled txs sched :
  fair_sched (length txs) sched = true ->
  run_sched sched txs = map (fun t => (t, verify t)) txs.
Proof.
  intros Hf. unfold run_sched. apply nth_error_ext'. intros j.
  destruct (nth_error (map (fun t => (t, StInit)) txs) j) as [x|] eqn:E.
  - rewrite (sched_nth sched _ j x E).
    rewrite nth_error_map in E. destruct (nth_error txs j) as [t|] eqn:Et; [|discriminate].
    cbn in E. inversion E; subst x. rewrite nth_error_map, Et. cbn [option_map].
    assert (Hj : (j < length txs)%nat) by (apply nth_error_Some; congruence).
    unfold fair_sched in Hf. rewrite forallb_forall in Hf.
    rewrite (Hf j) by (apply in_seq; lia). reflexivity.
  - apply nth_error_None in E. rewrite map_length in E.
    assert (H1 : nth_error (fold_left claim sched (map (fun t => (t, StInit)) txs)) j = None).
    { apply nth_error_None. now rewrite sched_length, map_length. }
    assert (H2 : nth_error (map (fun t => (t, verify t)) txs) j = None).
    { apply nth_error_None. now rewrite map_length. }
    now rewrite H1, H2.
Qed.

Lemma exec_slots_settled s txs :
  exec_slots s (map (fun t => (t, verify t)) txs) = Some (exec_block s txs).
Proof.
  revert s. induction txs as [|t r IH]; intros s; cbn [map exec_slots exec_block]; [reflexivity|].
  unfold verify at 1. destruct (t_sender t) as [a|] eqn:Ha.
  - destruct (exec_checked s t) as [s1 v]. rewrite IH. destruct (exec_block s1 r). reflexivity.
  - rewrite IH. unfold exec_checked. rewrite Ha. destruct (exec_block s r). reflexivity.
Qed.

(* whatever routine settles whichever slot in whatever order, the block executes as the fold *)
Lemma parallel_is_sequential s txs sched :
  fair_sched (length txs) sched = true -> exec_block_par sched s txs = Some (exec_block s txs).
Proof. intros H. unfold exec_block_par. rewrite (fair_all_settled _ _ H). apply exec_slots_settled. Qed.

(* a slot nobody settled never yields a wrong result: the executor waits *)
Lemma parallel_prefix_safe s txs sched r :
  exec_block_par sched s txs = Some r -> r = exec_block s txs.
Proof.
  unfold exec_block_par, run_sched.
  assert (G : forall slots s r, Forall (fun x => snd x = StInit \/ snd x = verify (fst x)) slots ->
              exec_slots s slots = Some r -> r = exec_block s (map fst slots)).
  { induction slots as [|[t st] q IH]; intros s0 r0 Hwf; cbn [exec_slots map exec_block fst].
    - now inversion 1.
    - inversion Hwf as [|? ? Hx Hq]; subst. cbn [fst snd] in Hx.
      destruct st.
      + discriminate.
      + destruct Hx as [Hx|Hx]; [discriminate|].
        destruct (exec_checked s0 t) as [s1 v]. destruct (exec_slots s1 q) as [[s' vs]|] eqn:E; [|discriminate].
        inversion 1; subst. rewrite <- (IH s1 _ Hq E). reflexivity.
      + destruct Hx as [Hx|Hx]; [discriminate|].
        unfold verify in Hx. destruct (t_sender t) eqn:Ha; [discriminate|].
        destruct (exec_slots s0 q) as [[s' vs]|] eqn:E; [|discriminate].
        inversion 1; subst. unfold exec_checked. rewrite Ha. rewrite <- (IH s0 _ Hq E). reflexivity. }
  intros H.
  assert (Hwf : forall sched slots, Forall (fun x => snd x = StInit \/ snd x = verify (fst x)) slots ->
                Forall (fun x => snd x = StInit \/ snd x = verify (fst x)) (fold_left claim sched slots)).
  { induction sched0 as [|i q IH]; intros slots Hs; cbn [fold_left]; [exact Hs|]. apply IH.
    clear IH. revert i. induction Hs as [|[t st] l Hx Hl IHl]; intros i; [destruct i; constructor|].
    destruct i; destruct st; cbn [claim]; constructor; auto; cbn; auto. }
  assert (Hfst : forall sched slots, map fst (fold_left claim sched slots) = map fst slots).
  { induction sched0 as [|i q IH]; intros slots; cbn [fold_left]; [reflexivity|]. rewrite IH.
    revert i. induction slots as [|[t st] l IHl]; intros i; [destruct i; reflexivity|].
    destruct i; destruct st; cbn [claim map fst]; try reflexivity; now rewrite IHl. }
  apply G in H.
  - rewrite Hfst, map_map, map_id in H. exact H.
  - apply Hwf. apply Forall_forall. intros x Hx. apply in_map_iff in Hx. destruct Hx as (t & <- & _). now left.
Qed.

(* ---------- the application across lifetimes ---------- *)
Lemma run_app_chain h : forall a,
  acc a = [] -> fair h = true ->
  exists a', run_app a h = Some (a', run_chain (committed a) (blocks_of h)) /\ acc a' = [].
Proof.
  induction h as [|e r IH]; intros a Hacc Hf; cbn [run_app blocks_of run_chain].
  - eauto.
  - destruct e as [txs sched|].
    + cbn [fair] in Hf. apply andb_true_iff in Hf. destruct Hf as [Hs Hr].
      unfold on_execute. rewrite (parallel_is_sequential _ _ _ Hs).
      destruct (exec_block (committed a) txs) as [s' vs] eqn:E. cbn [on_commit current acc].
      destruct (IH (mkApp s' s' []) eq_refl Hr) as (a' & H1 & H2). cbn [committed] in H1.
      rewrite H1, Hacc. cbn [List.app run_chain]. rewrite E. eauto.
    + cbn [fair] in Hf. destruct (IH (restart a) eq_refl Hf) as (a' & H1 & H2).
      cbn [restart committed] in H1. eauto.
Qed.

(* two replicas fed the same blocks - whatever their restarts and verifier schedules - report the
   same verdicts, the same application state and the same receipts for every block *)
Lemma replicas_agree h1 h2 :
  blocks_of h1 = blocks_of h2 -> fair h1 = true -> fair h2 = true ->
  exists a1 a2 outs, run_app app0 h1 = Some (a1, outs) /\ run_app app0 h2 = Some (a2, outs).
Proof.
  intros Hb F1 F2.
  destruct (run_app_chain h1 app0 eq_refl F1) as (a1 & H1 & _).
  destruct (run_app_chain h2 app0 eq_refl F2) as (a2 & H2 & _).
  rewrite Hb in H1. eauto.
Qed.

(* without the reset of the accumulators at commit the receipts would depend on the lifetime: the
   invariant the proof rests on is exactly acc = [] between blocks *)
Lemma acc_reset_needed :
  let t := mkTx 1 (Some 0) 0 true in
  let a := mkApp (mkSt [] []) (mkSt [] []) [7] in
  exists o1 o2 x y, run_app a [EBlock [t] [O]] = Some (x, o1) /\
                    run_app a [ERestart; EBlock [t] [O]] = Some (y, o2) /\ o1 <> o2.
Proof. cbv zeta. do 4 eexists. split; [vm_compute; reflexivity|]. split; [vm_compute; reflexivity|]. discriminate. Qed.
