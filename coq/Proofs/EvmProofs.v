(* Proofs about Model.EvmArith (C10): the word-level definitions the interpreter is compared with
   compute the mathematical operations of the specification - modular arithmetic, signed
   division and remainder on two's-complement readings, exponentiation, arithmetic shift - and
   stay within the word range. *)
From Coq Require Import ZArith Bool Lia List.
From AnnVerif Require Import Model.EvmArith.
Open Scope Z_scope.

Definition word (x : Z) : Prop := 0 <= x < W.

Lemma W_pos : 0 < W. Proof. unfold W. apply Z.pow_pos_nonneg; lia. Qed.
Lemma W_val : W = 2 * 2 ^ 255. Proof. unfold W. change 256 with (Z.succ 255). rewrite Z.pow_succ_r by lia. reflexivity. Qed.
Lemma wrap_word x : word (wrap x).
Proof. unfold word, wrap. apply Z.mod_pos_bound. exact W_pos. Qed.
Lemma wrap_id x : word x -> wrap x = x.
Proof. intro H. unfold wrap. apply Z.mod_small. exact H. Qed.

(* the two's-complement reading *)
Lemma sgn_range x : word x -> - 2 ^ 255 <= sgn x < 2 ^ 255.
Proof. unfold word, sgn. rewrite W_val. intro H. destruct (Z.ltb_spec x (2 ^ 255)); lia. Qed.
Lemma sgn_mod x : word x -> sgn x mod W = x.
Proof.
  intro H. unfold sgn. destruct (Z.ltb_spec x (2 ^ 255)); [apply Z.mod_small; exact H|].
  replace (x - W) with (x + (-1) * W) by lia. rewrite Z_mod_plus_full. apply Z.mod_small. exact H.
Qed.
Lemma wrap_sgn_inv s : - 2 ^ 255 <= s < 2 ^ 255 -> sgn (wrap s) = s.
Proof.
  intro H. unfold wrap, sgn. pose proof W_val as HW. pose proof W_pos as Hp.
  destruct (Z.lt_ge_cases s 0) as [Hn|Hn].
  - replace (s mod W) with (s + W).
    + destruct (Z.ltb_spec (s + W) (2 ^ 255)); lia.
    + symmetry. replace s with ((s + W) + (-1) * W) at 1 by lia. rewrite Z_mod_plus_full. apply Z.mod_small. lia.
  - rewrite Z.mod_small by lia. destruct (Z.ltb_spec s (2 ^ 255)); lia.
Qed.

(* ---- ring operations ---- *)
Theorem add_spec a b : op_add a b = (a + b) mod 2 ^ 256. Proof. reflexivity. Qed.
Theorem sub_spec a b : op_sub a b = (a - b) mod 2 ^ 256. Proof. reflexivity. Qed.
Theorem mul_spec a b : op_mul a b = (a * b) mod 2 ^ 256. Proof. reflexivity. Qed.
Theorem sub_add_inverse a b : word a -> op_add (op_sub a b) b = a.
Proof.
  intro H. unfold op_add, op_sub, wrap. rewrite Zplus_mod_idemp_l. replace (a - b + b) with a by lia. apply Z.mod_small. exact H.
Qed.

(* ---- exponentiation by squaring is exponentiation ---- *)
Lemma exp_pos_spec base p : exp_pos base p = (base ^ Zpos p) mod W.
Proof.
  pose proof W_pos as Hp.
  induction p as [p IH|p IH|]; cbn [exp_pos].
  - rewrite IH. unfold wrap. rewrite <- Z.mul_mod by lia. rewrite Z.mul_mod_idemp_l by lia.
    rewrite Pos2Z.inj_xI. replace (2 * Zpos p + 1) with (Zpos p + Zpos p + 1) by lia.
    rewrite !Z.pow_add_r by lia. rewrite Z.pow_1_r. reflexivity.
  - rewrite IH. unfold wrap. rewrite <- Z.mul_mod by lia. rewrite Pos2Z.inj_xO.
    replace (2 * Zpos p) with (Zpos p + Zpos p) by lia. rewrite Z.pow_add_r by lia. reflexivity.
  - unfold wrap. rewrite Z.pow_1_r. reflexivity.
Qed.
Theorem exp_spec base e : 0 <= e -> op_exp base e = (base ^ e) mod 2 ^ 256.
Proof.
  intro He. destruct e as [|p|p]; [reflexivity|apply exp_pos_spec|lia].
Qed.

(* ---- signed division and remainder ---- *)
Theorem sdiv_spec a b : word a -> word b -> b <> 0 ->
  op_sdiv a b = (Z.quot (sgn a) (sgn b)) mod 2 ^ 256.
Proof. intros _ _ Hb. unfold op_sdiv. destruct (Z.eqb_spec b 0); [contradiction|reflexivity]. Qed.
(* except for the one overflowing quotient, the result reads back as the truncated quotient *)
Theorem sdiv_signed a b : word a -> word b -> b <> 0 -> ~ (sgn a = - 2 ^ 255 /\ sgn b = -1) ->
  sgn (op_sdiv a b) = Z.quot (sgn a) (sgn b).
Proof.
  intros Ha Hb Hb0 Hov. rewrite sdiv_spec by assumption. change (2 ^ 256) with W.
  apply (wrap_sgn_inv (Z.quot (sgn a) (sgn b))).
  pose proof (sgn_range a Ha) as Ra. pose proof (sgn_range b Hb) as Rb.
  assert (Hsb : sgn b <> 0).
  { intro E. apply Hb0. rewrite <- (sgn_mod b Hb), E. apply Z.mod_0_l. pose proof W_pos; lia. }
  set (sa := sgn a) in *. set (sb := sgn b) in *.
  pose proof (Z.quot_rem' sa sb) as Hqr. pose proof (Z.rem_bound_abs sa sb Hsb) as Hrb.
  pose proof (Z.rem_sign_mul sa sb Hsb) as Hrs.
  set (q := Z.quot sa sb) in *. set (r := Z.rem sa sb) in *.
  destruct (Z.lt_ge_cases sa 0) as [Han|Hap]; destruct (Z.lt_ge_cases sb 0) as [Hbn|Hbp].
  - (* both negative: the quotient is non-negative and only -2^255 / -1 reaches 2^255 *)
    assert (0 <= q) by nia.
    destruct (Z.eq_dec sb (-1)) as [E1|E1].
    + assert (sa <> - 2 ^ 255) by (intro E; apply Hov; split; assumption). nia.
    + assert (sb <= -2) by lia. nia.
  - assert (sb > 0) by lia. nia.
  - nia.
  - assert (sb > 0) by lia. nia.
Qed.
Theorem smod_signed a b : word a -> word b -> b <> 0 -> sgn (op_smod a b) = Z.rem (sgn a) (sgn b).
Proof.
  intros Ha Hb Hb0. unfold op_smod. destruct (Z.eqb_spec b 0); [contradiction|].
  apply wrap_sgn_inv. pose proof (sgn_range a Ha) as Ra. pose proof (sgn_range b Hb) as Rb.
  assert (Hsb : sgn b <> 0).
  { intro E. apply Hb0. rewrite <- (sgn_mod b Hb), E. apply Z.mod_0_l. pose proof W_pos; lia. }
  pose proof (Z.rem_bound_abs (sgn a) (sgn b) Hsb). lia.
Qed.

(* ---- comparisons read the operands as stated ---- *)
Theorem slt_spec a b : op_slt a b = if sgn a <? sgn b then 1 else 0. Proof. reflexivity. Qed.
Theorem lt_spec a b : op_lt a b = if a <? b then 1 else 0. Proof. reflexivity. Qed.

(* ---- shifts ---- *)
Theorem shl_spec s v : 0 <= s < 256 -> op_shl s v = (v * 2 ^ s) mod 2 ^ 256.
Proof. intro H. unfold op_shl. destruct (Z.ltb_spec s 256); [reflexivity|lia]. Qed.
Theorem shr_spec s v : 0 <= s < 256 -> op_shr s v = v / 2 ^ s.
Proof. intro H. unfold op_shr. destruct (Z.ltb_spec s 256); [reflexivity|lia]. Qed.
(* the arithmetic shift is the floor division of the signed reading *)
Theorem sar_signed s v : word v -> 0 <= s < 256 -> sgn (op_sar s v) = sgn v / 2 ^ s.
Proof.
  intros Hv Hs. unfold op_sar. destruct (Z.ltb_spec s 256); [|lia].
  apply wrap_sgn_inv. pose proof (sgn_range v Hv) as R.
  assert (Hp : 0 < 2 ^ s) by (apply Z.pow_pos_nonneg; lia).
  split.
  - apply Z.div_le_lower_bound; [exact Hp|]. assert (1 <= 2 ^ s) by lia. nia.
  - apply Z.div_lt_upper_bound; [exact Hp|]. assert (1 <= 2 ^ s) by lia. nia.
Qed.
Theorem sar_saturates s v : word v -> 256 <= s -> op_sar s v = if sgn v <? 0 then 2 ^ 256 - 1 else 0.
Proof. intros _ Hs. unfold op_sar. destruct (Z.ltb_spec s 256); [lia|reflexivity]. Qed.

(* ---- results are words ---- *)
Theorem div_word a b : word a -> word b -> word (op_div a b).
Proof.
  intros Ha Hb. unfold op_div, word in *. destruct (Z.eqb_spec b 0); [pose proof W_pos; lia|].
  split; [apply Z.div_pos; lia|]. apply Z.le_lt_trans with a; [|lia]. apply Z.div_le_upper_bound; [lia|nia].
Qed.
Theorem mod_word a b : word a -> word b -> word (op_mod a b).
Proof.
  intros Ha Hb. unfold op_mod, word in *. destruct (Z.eqb_spec b 0); [pose proof W_pos; lia|].
  pose proof (Z.mod_pos_bound a b ltac:(lia)). lia.
Qed.
Theorem addmod_word a b n : word n -> word (op_addmod a b n).
Proof.
  intros Hn. unfold op_addmod, word in *. destruct (Z.eqb_spec n 0); [pose proof W_pos; lia|].
  pose proof (Z.mod_pos_bound (a + b) n ltac:(lia)). lia.
Qed.
Theorem mulmod_word a b n : word n -> word (op_mulmod a b n).
Proof.
  intros Hn. unfold op_mulmod, word in *. destruct (Z.eqb_spec n 0); [pose proof W_pos; lia|].
  pose proof (Z.mod_pos_bound (a * b) n ltac:(lia)). lia.
Qed.
(* ADDMOD and MULMOD work on the unreduced sum and product (no wrap at 2^256 in between) *)
Theorem addmod_spec a b n : n <> 0 -> op_addmod a b n = (a + b) mod n.
Proof. intro H. unfold op_addmod. destruct (Z.eqb_spec n 0); [contradiction|reflexivity]. Qed.
Theorem mulmod_spec a b n : n <> 0 -> op_mulmod a b n = (a * b) mod n.
Proof. intro H. unfold op_mulmod. destruct (Z.eqb_spec n 0); [contradiction|reflexivity]. Qed.
(* BYTE picks the byte counted from the most significant end *)
Theorem byte_spec th v : 0 <= th < 32 -> op_byte th v = (v / 256 ^ (31 - th)) mod 256.
Proof.
  intro H. unfold op_byte. destruct (Z.ltb_spec th 32); [|lia]. f_equal. f_equal.
  change 256 with (2 ^ 8). rewrite <- Z.pow_mul_r by lia. reflexivity.
Qed.
