(* Proofs about Model.ValSet: the validator list stays sorted by address and duplicate-free under
   Add/Update/Remove/IncrementAccum; batched increments equal single increments; copies are
   independent; exact proportional proposer selection from a fresh set in every window. *)
From Coq Require Import List NArith ZArith Lia Bool Arith Sorted.
From AnnVerif Require Import Base.Res Base.Bytes Model.Merkle Model.ValSet Proofs.BytesProofs Proofs.PowerSum.
Import ListNotations.
Open Scope Z_scope.

(* ---------- bytes.Compare is a strict total order ---------- *)
Lemma bytes_cmp_eq a b : bytes_cmp a b = Eq <-> a = b.
Proof.
  revert b; induction a as [|x a IH]; intros [|y b]; simpl; split; intro H; try congruence; auto.
  - destruct (N.compare x y) eqn:E; try discriminate. apply N.compare_eq in E. apply IH in H. congruence.
  - inversion H; subst. rewrite N.compare_refl. apply IH. reflexivity.
Qed.

Lemma bytes_cmp_antisym a b : bytes_cmp a b = CompOpp (bytes_cmp b a).
Proof.
  revert b; induction a as [|x a IH]; intros [|y b]; simpl; auto.
  rewrite (N.compare_antisym y x). destruct (N.compare y x); simpl; auto.
Qed.

Lemma bytes_cmp_lt_trans a b c : bytes_cmp a b = Lt -> bytes_cmp b c = Lt -> bytes_cmp a c = Lt.
Proof.
  revert b c; induction a as [|x a IH]; intros [|y b] [|z c]; simpl; try congruence; auto.
  destruct (N.compare x y) eqn:E1; destruct (N.compare y z) eqn:E2; try discriminate; intros H1 H2.
  - apply N.compare_eq in E1, E2. subst. rewrite N.compare_refl. eapply IH; eauto.
  - apply N.compare_eq in E1. subst. rewrite E2. reflexivity.
  - apply N.compare_eq in E2. subst. rewrite E1. reflexivity.
  - rewrite N.compare_lt_iff in *. assert (x < z)%N by lia. apply N.compare_lt_iff in H. rewrite H. reflexivity.
Qed.

Definition blt (a b : bytes) : Prop := bytes_cmp a b = Lt.
Definition sortedA (la : list bytes) : Prop := StronglySorted blt la.
(* sorted by address, strictly: hence duplicate-free *)
Definition sorted (l : list val16) : Prop := sortedA (map va_addr l).

Lemma bytes_leb_false a b : bytes_leb a b = false -> bytes_cmp b a = Lt.
Proof. unfold bytes_leb. rewrite (bytes_cmp_antisym b a). destruct (bytes_cmp a b); simpl; congruence. Qed.
Lemma bytes_leb_true a b : bytes_leb a b = true -> a = b \/ bytes_cmp a b = Lt.
Proof. unfold bytes_leb. destruct (bytes_cmp a b) eqn:E; try discriminate; [left; apply bytes_cmp_eq; exact E|right; reflexivity]. Qed.
Lemma blt_irrefl a : ~ blt a a.
Proof. unfold blt. assert (bytes_cmp a a = Eq) by (apply bytes_cmp_eq; reflexivity). congruence. Qed.

Lemma sortedA_nodup la : sortedA la -> NoDup la.
Proof.
  induction 1 as [|a l Hs IH Hall]; constructor; auto.
  intro Hin. eapply Forall_forall in Hall; [|exact Hin]. exact (blt_irrefl a Hall).
Qed.
Lemma sorted_nodup l : sorted l -> NoDup (map va_addr l).
Proof. apply sortedA_nodup. Qed.

(* ---------- search / insert / remove: recursive characterisations ---------- *)
Lemma search_shift l a k : search l a k = (k + search l a 0)%nat.
Proof.
  revert k; induction l as [|v t IH]; intro k; simpl; [lia|].
  destruct (bytes_leb a (va_addr v)); [lia|]. rewrite (IH (S k)), (IH 1%nat). lia.
Qed.

Lemma search_cons v t a :
  search (v :: t) a 0 = if bytes_leb a (va_addr v) then 0%nat else S (search t a 0).
Proof. simpl. destruct (bytes_leb a (va_addr v)); [reflexivity|]. rewrite search_shift. reflexivity. Qed.

Fixpoint add_rec (l : list val16) (x : val16) : list val16 * bool :=
  match l with
  | [] => ([x], true)
  | v :: t =>
    if bytes_leb (va_addr x) (va_addr v) then
      if bytes_eqb (va_addr v) (va_addr x) then (l, false) else (x :: l, true)
    else let '(t', b) := add_rec t x in (v :: t', b)
  end.

Lemma add_spec vs x : vl (fst (add vs x)) = fst (add_rec (vl vs) x) /\ snd (add vs x) = snd (add_rec (vl vs) x).
Proof.
  unfold add. destruct vs as [l pr tv]. cbn [vl].
  assert (H : forall m pre,
     (match nth_error m (search m (va_addr x) 0) with
      | Some v => if bytes_eqb (va_addr v) (va_addr x) then (pre ++ m, false) else (pre ++ insert_at m (search m (va_addr x) 0) x, true)
      | None => (pre ++ m ++ [x], true) end) =
     (pre ++ fst (add_rec m x), snd (add_rec m x))).
  { induction m as [|v t IH]; intro pre; [reflexivity|].
    rewrite search_cons. cbn [add_rec]. destruct (bytes_leb (va_addr x) (va_addr v)) eqn:E.
    - cbn [nth_error insert_at]. destruct (bytes_eqb (va_addr v) (va_addr x)); reflexivity.
    - cbn [nth_error insert_at]. specialize (IH (pre ++ [v])). rewrite <- !app_assoc in IH. cbn [app] in IH.
      destruct (add_rec t x) as [t' b]. cbn [fst snd] in *.
      destruct (nth_error t (search t (va_addr x) 0)) as [w|].
      + destruct (bytes_eqb (va_addr w) (va_addr x)); exact IH.
      + exact IH. }
  specialize (H l []). cbn [app] in H.
  destruct (nth_error l (search l (va_addr x) 0)) as [w|]; [destruct (bytes_eqb (va_addr w) (va_addr x))|];
    cbn [fst snd vl]; (split; [apply (f_equal fst) in H; exact H | apply (f_equal snd) in H; exact H]).
Qed.

Lemma add_rec_addrs l x : sorted l ->
  sorted (fst (add_rec l x)) /\
  (forall a, In a (map va_addr (fst (add_rec l x))) <-> a = va_addr x \/ In a (map va_addr l)) /\
  (snd (add_rec l x) = false -> fst (add_rec l x) = l /\ In (va_addr x) (map va_addr l)).
Proof.
  unfold sorted. induction l as [|v t IH]; intro Hs.
  - cbn. split; [constructor; constructor|]. split; [intro a; intuition congruence|discriminate].
  - cbn [add_rec]. inversion Hs as [|? ? Hst Hall]; subst.
    destruct (bytes_leb (va_addr x) (va_addr v)) eqn:E.
    + destruct (bytes_eqb (va_addr v) (va_addr x)) eqn:E2; cbn [fst snd].
      * apply bytes_eqb_eq in E2. split; [exact Hs|]. split; [intro a; cbn; rewrite E2; intuition congruence|]. intros _. split; [reflexivity|]. cbn. auto.
      * split; [|split; [intro a; cbn; intuition congruence|discriminate]].
        cbn [map]. constructor; [exact Hs|].
        destruct (bytes_leb_true _ _ E) as [Heq|Hlt]; [rewrite Heq, bytes_eqb_refl in E2; discriminate|].
        constructor; [exact Hlt|]. eapply Forall_impl; [|exact Hall]. intros b Hb. eapply bytes_cmp_lt_trans; eauto.
    + destruct (add_rec t x) as [t' b] eqn:Et. cbn [fst snd] in *. destruct (IH Hst) as (I1 & I2 & I3).
      split; [|split].
      * cbn [map]. constructor; [exact I1|]. apply Forall_forall. intros a Ha. apply I2 in Ha as [->|Ha].
        -- apply bytes_leb_false. exact E.
        -- eapply Forall_forall in Hall; eauto.
      * intro a. cbn [map In]. rewrite I2. tauto.
      * intro Hb. destruct (I3 Hb) as [-> Hin]. split; [reflexivity|]. cbn. auto.
Qed.

Theorem add_sorted vs x : sorted (vl vs) -> sorted (vl (fst (add vs x))).
Proof. intro Hs. destruct (add_spec vs x) as [-> _]. apply add_rec_addrs. exact Hs. Qed.

(* ---- update ---- *)
Fixpoint update_rec (l : list val16) (x : val16) : list val16 * bool :=
  match l with
  | [] => ([], false)
  | v :: t =>
    if bytes_leb (va_addr x) (va_addr v) then
      if bytes_eqb (va_addr v) (va_addr x) then (x :: t, true) else (l, false)
    else let '(t', b) := update_rec t x in (v :: t', b)
  end.

Lemma update_spec vs x : vl (fst (update vs x)) = fst (update_rec (vl vs) x) /\ snd (update vs x) = snd (update_rec (vl vs) x).
Proof.
  unfold update. destruct vs as [l pr tv]. cbn [vl].
  assert (H : forall m pre,
     (match nth_error m (search m (va_addr x) 0) with
      | Some v => if bytes_eqb (va_addr v) (va_addr x) then (pre ++ map_nth m (search m (va_addr x) 0) (fun _ => x), true) else (pre ++ m, false)
      | None => (pre ++ m, false) end) =
     (pre ++ fst (update_rec m x), snd (update_rec m x))).
  { induction m as [|v t IH]; intro pre; [reflexivity|].
    rewrite search_cons. cbn [update_rec]. destruct (bytes_leb (va_addr x) (va_addr v)) eqn:E.
    - cbn [nth_error map_nth]. destruct (bytes_eqb (va_addr v) (va_addr x)); reflexivity.
    - cbn [nth_error map_nth]. specialize (IH (pre ++ [v])). rewrite <- !app_assoc in IH. cbn [app] in IH.
      destruct (update_rec t x) as [t' b]. cbn [fst snd] in *.
      destruct (nth_error t (search t (va_addr x) 0)) as [w|].
      + destruct (bytes_eqb (va_addr w) (va_addr x)); exact IH.
      + exact IH. }
  specialize (H l []). cbn [app] in H.
  destruct (nth_error l (search l (va_addr x) 0)) as [w|]; [destruct (bytes_eqb (va_addr w) (va_addr x))|];
    cbn [fst snd vl]; (split; [apply (f_equal fst) in H; exact H | apply (f_equal snd) in H; exact H]).
Qed.

Lemma update_rec_addrs l x : map va_addr (fst (update_rec l x)) = map va_addr l.
Proof.
  induction l as [|v t IH]; [reflexivity|]. cbn [update_rec].
  destruct (bytes_leb (va_addr x) (va_addr v)).
  - destruct (bytes_eqb (va_addr v) (va_addr x)) eqn:E; cbn [fst]; [|reflexivity].
    apply bytes_eqb_eq in E. cbn. congruence.
  - destruct (update_rec t x) as [t' b]. cbn [fst] in *. cbn. congruence.
Qed.

Theorem update_sorted vs x : sorted (vl vs) -> sorted (vl (fst (update vs x))).
Proof. intro Hs. destruct (update_spec vs x) as [-> _]. unfold sorted. rewrite update_rec_addrs. exact Hs. Qed.

(* ---- remove ---- *)
Fixpoint remove_rec (l : list val16) (a : bytes) : list val16 * bool :=
  match l with
  | [] => ([], false)
  | v :: t =>
    if bytes_leb a (va_addr v) then
      if bytes_eqb (va_addr v) a then (t, true) else (l, false)
    else let '(t', b) := remove_rec t a in (v :: t', b)
  end.

Lemma remove_spec vs a : vl (fst (remove vs a)) = fst (remove_rec (vl vs) a) /\ snd (remove vs a) = snd (remove_rec (vl vs) a).
Proof.
  unfold remove. destruct vs as [l pr tv]. cbn [vl].
  assert (H : forall m pre,
     (match nth_error m (search m a 0) with
      | Some v => if bytes_eqb (va_addr v) a then (pre ++ remove_at m (search m a 0), true) else (pre ++ m, false)
      | None => (pre ++ m, false) end) =
     (pre ++ fst (remove_rec m a), snd (remove_rec m a))).
  { induction m as [|v t IH]; intro pre; [reflexivity|].
    rewrite search_cons. cbn [remove_rec]. destruct (bytes_leb a (va_addr v)) eqn:E.
    - cbn [nth_error remove_at]. destruct (bytes_eqb (va_addr v) a); reflexivity.
    - cbn [nth_error remove_at]. specialize (IH (pre ++ [v])). rewrite <- !app_assoc in IH. cbn [app] in IH.
      destruct (remove_rec t a) as [t' b]. cbn [fst snd] in *.
      destruct (nth_error t (search t a 0)) as [w|].
      + destruct (bytes_eqb (va_addr w) a); exact IH.
      + exact IH. }
  specialize (H l []). cbn [app] in H.
  destruct (nth_error l (search l a 0)) as [w|]; [destruct (bytes_eqb (va_addr w) a)|];
    cbn [fst snd vl]; (split; [apply (f_equal fst) in H; exact H | apply (f_equal snd) in H; exact H]).
Qed.

Lemma remove_rec_sorted l a : sorted l ->
  sorted (fst (remove_rec l a)) /\ (forall b, In b (map va_addr (fst (remove_rec l a))) -> In b (map va_addr l)).
Proof.
  unfold sorted. induction l as [|v t IH]; intro Hs; [cbn; split; [constructor|tauto]|].
  inversion Hs as [|? ? Hst Hall]; subst. cbn [remove_rec].
  destruct (bytes_leb a (va_addr v)).
  - destruct (bytes_eqb (va_addr v) a); cbn [fst]; [split; [exact Hst|cbn; tauto]|split; [exact Hs|tauto]].
  - destruct (remove_rec t a) as [t' b]. cbn [fst] in *. destruct (IH Hst) as [I1 I2].
    split.
    + cbn [map]. constructor; [exact I1|]. apply Forall_forall. intros c Hc. apply I2 in Hc. eapply Forall_forall in Hall; eauto.
    + intros c. cbn [map In]. intros [->|Hc]; auto.
Qed.

Theorem remove_sorted vs a : sorted (vl vs) -> sorted (vl (fst (remove vs a))).
Proof. intro Hs. destruct (remove_spec vs a) as [-> _]. apply remove_rec_sorted. exact Hs. Qed.

(* ---- increments only touch accumulators ---- *)
Lemma map_nth_addrs l i f : (forall v, va_addr (f v) = va_addr v) -> map va_addr (map_nth l i f) = map va_addr l.
Proof. intro Hf. revert i; induction l as [|v t IH]; intros [|i]; cbn; auto; rewrite ?Hf, ?IH; reflexivity. Qed.

Lemma incr_once_addrs vs vs' : incr_once vs = Ok vs' -> map va_addr (vl vs') = map va_addr (vl vs).
Proof.
  unfold incr_once. destruct (vl vs) as [|v0 t0] eqn:El; [discriminate|]. rewrite <- El.
  destruct (total_vp _) as [t vs1]. intro E.
  assert (Hvl : vl vs' = map_nth (map (fun v => set_accum v (wrap64 (va_accum v + wrap64 (va_power v * 1)))) (vl vs))
                  (argmax_first (map (fun v => set_accum v (wrap64 (va_accum v + wrap64 (va_power v * 1)))) (vl vs)))
                  (fun v => set_accum v (wrap64 (va_accum v - t)))).
  { injection E as E. rewrite <- E. reflexivity. }
  rewrite Hvl, map_nth_addrs by reflexivity. rewrite map_map. reflexivity.
Qed.

Lemma incr_n_addrs n : forall vs vs', incr_n vs n = Ok vs' -> map va_addr (vl vs') = map va_addr (vl vs).
Proof.
  induction n as [|n IH]; intros vs vs'; cbn; [intro E; injection E as <-; reflexivity|].
  destruct (incr_once vs) as [vs1|e|w] eqn:E1; try discriminate. intro E.
  rewrite (IH _ _ E). eapply incr_once_addrs; eauto.
Qed.

Theorem increment_sorted vs t vs' : increment vs t = Ok vs' -> sorted (vl vs) -> sorted (vl vs').
Proof. unfold increment, sorted. intros E Hs. rewrite (incr_n_addrs _ _ _ E). exact Hs. Qed.

(* batched increments are the same as single increments *)
Lemma incr_n_add a b : forall vs, incr_n vs (a + b) = match incr_n vs a with Ok vs' => incr_n vs' b | e => e end.
Proof.
  induction a as [|a IH]; intro vs; cbn; [reflexivity|].
  destruct (incr_once vs) as [vs1|e|w]; [apply IH|reflexivity|reflexivity].
Qed.

Theorem batched_eq_singles vs a b : 0 <= a -> 0 <= b ->
  increment vs (a + b) = match increment vs a with Ok vs' => increment vs' b | e => e end.
Proof. intros Ha Hb. unfold increment. rewrite Z2Nat.inj_add by assumption. apply incr_n_add. Qed.

(* NewValidatorSet sorts *)
Lemma insert_sorted_addrs x l : sorted l -> ~ In (va_addr x) (map va_addr l) ->
  sorted (insert_sorted x l) /\ (forall a, In a (map va_addr (insert_sorted x l)) <-> a = va_addr x \/ In a (map va_addr l)).
Proof.
  unfold sorted. induction l as [|v t IH]; intros Hs Hn.
  - cbn. split; [constructor; constructor|intro a; intuition congruence].
  - inversion Hs as [|? ? Hst Hall]; subst. cbn [insert_sorted].
    destruct (bytes_ltb (va_addr x) (va_addr v)) eqn:E.
    + unfold bytes_ltb in E. destruct (bytes_cmp (va_addr x) (va_addr v)) eqn:Ec; try discriminate.
      split; [|intro a; cbn; intuition congruence]. cbn [map]. constructor; [exact Hs|].
      constructor; [exact Ec|]. eapply Forall_impl; [|exact Hall]. intros b Hb. eapply bytes_cmp_lt_trans; eauto.
    + assert (Hlt : blt (va_addr v) (va_addr x)).
      { unfold blt. unfold bytes_ltb in E. rewrite (bytes_cmp_antisym (va_addr v) (va_addr x)).
        destruct (bytes_cmp (va_addr x) (va_addr v)) eqn:Ec; try discriminate; [|reflexivity].
        apply bytes_cmp_eq in Ec. exfalso. apply Hn. cbn. auto. }
      destruct (IH Hst) as [I1 I2]; [intro Hin; apply Hn; cbn; auto|].
      split.
      * cbn [map]. constructor; [exact I1|]. apply Forall_forall. intros a Ha. apply I2 in Ha as [->|Ha]; [exact Hlt|].
        eapply Forall_forall in Hall; eauto.
      * intro a. cbn [map In]. rewrite I2. tauto.
Qed.

Lemma sort_vals_sorted l : NoDup (map va_addr l) ->
  sorted (sort_vals l) /\ (forall a, In a (map va_addr (sort_vals l)) <-> In a (map va_addr l)).
Proof.
  induction l as [|x t IH]; intro Hn; [cbn; split; [constructor|intro; tauto]|].
  cbn [map] in Hn. inversion Hn as [|? ? Hx Ht]; subst. destruct (IH Ht) as [I1 I2].
  cbn [sort_vals fold_right]. fold (sort_vals t).
  destruct (insert_sorted_addrs x (sort_vals t) I1) as [J1 J2]; [rewrite I2; exact Hx|].
  split; [exact J1|]. intro a. rewrite J2, I2. cbn. intuition congruence.
Qed.

Theorem new_valset_sorted vals vs : NoDup (map va_addr vals) -> new_valset vals = Ok vs -> sorted (vl vs).
Proof.
  intros Hn E. unfold new_valset in E. eapply increment_sorted; [exact E|]. cbn [vl]. apply sort_vals_sorted. exact Hn.
Qed.

(* ---------- proportional selection: link Model.ValSet to the integer-list development ---------- *)
From AnnVerif Require Import Proofs.Fairness.

Lemma T_le_sq_aux T : 0 < T -> T <= T * T.
Proof. intro H. nia. Qed.

Definition powers (l : list val16) : list Z := map va_power l.
Definition accums (l : list val16) : list Z := map va_accum l.

Lemma argmax_from_amax l : forall i best bestv,
  argmax_from l i best bestv = amax_from (accums l) i best bestv.
Proof. induction l as [|v t IH]; intros; simpl; [reflexivity|]. destruct (bestv <? va_accum v); apply IH. Qed.
Lemma argmax_first_amax l : argmax_first l = amax (accums l).
Proof. destruct l as [|v t]; [reflexivity|]. simpl. apply argmax_from_amax. Qed.

Lemma sum_power_fold l acc : (forall v, In v l -> 0 <= va_power v) -> 0 <= acc ->
  acc + sumZ (powers l) < 9223372036854775808 ->
  fold_left (fun a v => wrap64 (a + va_power v)) l acc = acc + sumZ (powers l).
Proof.
  revert acc; induction l as [|v t IH]; intros acc Hn Ha Hb; simpl in *; [lia|].
  assert (0 <= va_power v) by (apply Hn; auto).
  assert (0 <= sumZ (powers t)).
  { clear -Hn. induction t as [|w t IH]; simpl; [lia|]. assert (0 <= va_power w) by (apply Hn; simpl; auto).
    assert (0 <= sumZ (powers t)) by (apply IH; intros x Hx; apply Hn; simpl in *; tauto). lia. }
  rewrite wrap64_id by lia. rewrite IH; [lia| intros x Hx; apply Hn; auto | lia | lia].
Qed.

Lemma accums_map_add (f : val16 -> val16) l :
  (forall v, In v l -> f v = set_accum v (va_accum v + va_power v)) ->
  accums (map f l) = zadd (accums l) (powers l).
Proof.
  induction l as [|v t IH]; intro Hf; [reflexivity|].
  cbn [map accums powers zadd]. rewrite Hf by (left; reflexivity). cbn [set_accum va_accum]. f_equal.
  apply IH. intros w Hw. apply Hf. right. exact Hw.
Qed.

Lemma powers_map_nth l : forall i f, (forall v, va_power (f v) = va_power v) -> powers (map_nth l i f) = powers l.
Proof. induction l as [|v t IH]; intros [|i] f Hf; cbn; auto; rewrite ?Hf, ?IH; auto. Qed.

Lemma accums_map_nth_sub T l : forall j, (forall v, In v l -> - (T * T) - T <= va_accum v <= T * T + T) ->
  T * T < 1152921504606846976 -> 0 < T ->
  accums (map_nth l j (fun v => set_accum v (wrap64 (va_accum v - T)))) = upd (accums l) j (- T).
Proof.
  induction l as [|v t IH]; intros [|j] Hb Hsq Hpos; cbn [map_nth accums map upd]; auto.
  - cbn [set_accum va_accum]. pose proof (T_le_sq_aux T Hpos). rewrite wrap64_id by (specialize (Hb v (or_introl eq_refl)); lia). reflexivity.
  - f_equal. apply IH; auto. intros w Hw. apply Hb. right. exact Hw.
Qed.

Lemma addr_nth_map (f : val16 -> val16) : (forall v, va_addr (f v) = va_addr v) ->
  forall l j d, va_addr (nth j (map f l) d) = nth j (map va_addr l) (va_addr d).
Proof. intros Hf. induction l as [|v t IH]; intros [|j] d; cbn; auto. Qed.

(* a validator set whose cache (if any) is right and whose numbers are far from the int64 range *)
Definition tame (T : Z) (vs : valset) : Prop :=
  vl vs <> [] /\ (forall v, In v (vl vs) -> 0 <= va_power v) /\ sumZ (powers (vl vs)) = T /\ 0 < T /\
  T * T < 1152921504606846976 /\ (v_tvp vs = 0 \/ v_tvp vs = T) /\
  (forall v, In v (vl vs) -> - (T * T) <= va_accum v <= T * T).

Lemma T_le_sq T : 0 < T -> T <= T * T.
Proof. intro H. nia. Qed.

Lemma incr_once_pstep T vs : tame T vs ->
  exists vs', incr_once vs = Ok vs' /\
    powers (vl vs') = powers (vl vs) /\ map va_addr (vl vs') = map va_addr (vl vs) /\
    accums (vl vs') = snd (pstep (powers (vl vs)) (accums (vl vs))) /\
    v_prop vs' = Some (nth (fst (pstep (powers (vl vs)) (accums (vl vs)))) (map va_addr (vl vs)) []) /\
    v_tvp vs' = T.
Proof.
  intros (Hne & Hnn & HT & Hpos & Hsq & Hc & Hacc).
  pose proof (T_le_sq T Hpos) as HTsq.
  assert (Hpw : forall v, In v (vl vs) -> va_power v <= T).
  { intros v Hv. rewrite <- HT. clear -Hnn Hv. induction (vl vs) as [|w t IH]; [contradiction|]. simpl.
    assert (0 <= sumZ (powers t)).
    { clear -Hnn. induction t as [|x t IH]; simpl; [lia|]. assert (0 <= va_power x) by (apply Hnn; simpl; auto).
      assert (0 <= sumZ (powers t)) by (apply IH; intros y Hy; apply Hnn; simpl in *; tauto). lia. }
    destruct Hv as [->|Hv]; [lia|]. assert (0 <= va_power w) by (apply Hnn; simpl; auto).
    specialize (IH ltac:(intros y Hy; apply Hnn; simpl; auto) Hv). lia. }
  unfold incr_once. destruct (vl vs) as [|v0 t0] eqn:El; [congruence|]. rewrite <- El in *.
  set (f := fun v => set_accum v (wrap64 (va_accum v + wrap64 (va_power v * 1)))).
  assert (Hf : forall v, In v (vl vs) -> f v = set_accum v (va_accum v + va_power v)).
  { intros v Hv. unfold f. specialize (Hnn v Hv). specialize (Hpw v Hv). specialize (Hacc v Hv).
    rewrite (wrap64_id (va_power v * 1)) by lia. rewrite wrap64_id by lia. f_equal. lia. }
  assert (Hl1acc : accums (map f (vl vs)) = zadd (accums (vl vs)) (powers (vl vs))) by (apply accums_map_add; exact Hf).
  assert (Htot : total_vp (mkVSet (map f (vl vs)) (v_prop vs) (v_tvp vs)) = (T, mkVSet (map f (vl vs)) (v_prop vs) T)).
  { unfold total_vp. cbn [v_tvp vl v_prop]. destruct Hc as [Hc|Hc]; rewrite Hc.
    - cbn [Z.eqb]. unfold sum_power. rewrite sum_power_fold.
      + assert (Hp : powers (map f (vl vs)) = powers (vl vs)) by (unfold powers; rewrite map_map; reflexivity).
        rewrite Hp, HT. reflexivity.
      + intros v Hv. apply in_map_iff in Hv as (w & <- & Hw). simpl. apply Hnn. exact Hw.
      + lia.
      + assert (Hp : powers (map f (vl vs)) = powers (vl vs)) by (unfold powers; rewrite map_map; reflexivity).
        rewrite Hp, HT. lia.
    - replace (T =? 0) with false by (symmetry; apply Z.eqb_neq; lia). reflexivity. }
  rewrite Htot. eexists. split; [reflexivity|]. cbn [vl v_prop v_tvp].
  set (i := argmax_first (map f (vl vs))).
  assert (Hi : i = amax (zadd (accums (vl vs)) (powers (vl vs)))) by (unfold i; rewrite argmax_first_amax, Hl1acc; reflexivity).
  split; [|split; [|split; [|split]]].
  - rewrite powers_map_nth by reflexivity. unfold powers. rewrite map_map. reflexivity.
  - rewrite map_nth_addrs by reflexivity. rewrite map_map. reflexivity.
  - unfold pstep. cbn [snd]. rewrite <- Hi. rewrite <- Hl1acc. rewrite HT.
    apply accums_map_nth_sub; auto. intros v Hv. apply in_map_iff in Hv as (w & <- & Hw). rewrite Hf by exact Hw. cbn [set_accum va_accum].
    specialize (Hnn w Hw). specialize (Hpw w Hw). specialize (Hacc w Hw). lia.
  - f_equal. unfold pstep. cbn [fst]. rewrite <- Hi. apply (addr_nth_map f). reflexivity.
  - reflexivity.
Qed.

(* proposers named after each of n single increments *)
Fixpoint mrun (vs : valset) (n : nat) : res (list (option bytes) * valset) :=
  match n with
  | O => Ok ([], vs)
  | S n' =>
    match incr_once vs with
    | Ok vs1 => match mrun vs1 n' with
                | Ok (tr, vs2) => Ok (v_prop vs1 :: tr, vs2)
                | Err e => Err e | Panic w => Panic w
                end
    | Err e => Err e | Panic w => Panic w
    end
  end.

Lemma mrun_incr_n n : forall vs tr vs', mrun vs n = Ok (tr, vs') -> incr_n vs n = Ok vs'.
Proof.
  induction n as [|n IH]; intros vs tr vs'; cbn; [intro E; injection E as _ <-; reflexivity|].
  destruct (incr_once vs) as [vs1|e|w]; try discriminate.
  destruct (mrun vs1 n) as [[tr1 vs2]|e|w] eqn:Em; try discriminate.
  intro E. injection E as _ <-. eapply IH; eauto.
Qed.

Section FairModel.
Variable ps : list Z.
Variable addrs : list bytes.
Hypothesis ps_nonneg : forall i, 0 <= nth i ps 0.
Let T := sumZ ps.
Hypothesis T_pos : 0 < T.
Hypothesis T_small : T * T < 1152921504606846976.

(* the set's powers/addresses are the given ones and its accumulators are those reached after m
   single steps from all-zero accumulators *)
Definition at_step (m : nat) (vs : valset) : Prop :=
  powers (vl vs) = ps /\ map va_addr (vl vs) = addrs /\
  accums (vl vs) = snd (prun ps (zeros ps) m) /\ (v_tvp vs = 0 \/ v_tvp vs = T).

Lemma at_step_tame m vs : at_step m vs -> tame T vs.
Proof.
  intros (Hp & Ha & Hacc & Hc). unfold tame.
  assert (Hne : vl vs <> []).
  { intro E. rewrite E in Hp. cbn in Hp. subst ps. unfold T in T_pos. cbn in T_pos. lia. }
  split; [exact Hne|]. split.
  { intros v Hv. apply In_nth with (d := v) in Hv as (i & Hi & <-).
    replace (va_power (nth i (vl vs) v)) with (nth i ps 0); [apply ps_nonneg|].
    rewrite <- Hp. unfold powers. rewrite (nth_indep _ 0 (va_power v)) by (rewrite map_length; exact Hi). apply List.map_nth. }
  split; [rewrite Hp; reflexivity|]. split; [exact T_pos|]. split; [exact T_small|]. split; [exact Hc|].
  intros v Hv. apply In_nth with (d := v) in Hv as (i & Hi & <-).
  replace (va_accum (nth i (vl vs) v)) with (nth i (accums (vl vs)) 0).
  - rewrite Hacc. apply prun_bounded; assumption.
  - unfold accums. rewrite (nth_indep _ 0 (va_accum v)) by (rewrite map_length; exact Hi). apply List.map_nth.
Qed.

Lemma at_step_next m vs : at_step m vs ->
  exists vs', incr_once vs = Ok vs' /\ at_step (S m) vs' /\
    v_prop vs' = Some (nth (fst (pstep ps (snd (prun ps (zeros ps) m)))) addrs []).
Proof.
  intro Hat. pose proof Hat as (Hp & Ha & Hacc & Hc).
  destruct (incr_once_pstep T vs (at_step_tame m vs Hat)) as (vs' & E & P1 & P2 & P3 & P4 & P5).
  exists vs'. split; [exact E|]. rewrite Hp, Hacc, Ha in *. split.
  - unfold at_step. split; [congruence|]. split; [congruence|]. split; [|right; exact P5].
    rewrite P3. rewrite prun_snoc_snd. reflexivity.
  - exact P4.
Qed.

Lemma mrun_prun n : forall m vs, at_step m vs ->
  exists vs', at_step (m + n) vs' /\
    mrun vs n = Ok (map (fun i => Some (nth i addrs [])) (fst (prun ps (snd (prun ps (zeros ps) m)) n)), vs').
Proof.
  induction n as [|n IH]; intros m vs Hat.
  - exists vs. rewrite Nat.add_0_r. split; [exact Hat|reflexivity].
  - destruct (at_step_next m vs Hat) as (vs1 & E & Hat1 & Hprop).
    destruct (IH (S m) vs1 Hat1) as (vs2 & Hat2 & Hrun).
    exists vs2. split; [replace (m + S n)%nat with (S m + n)%nat by lia; exact Hat2|].
    rewrite prun_snoc_snd in Hrun.
    cbn [mrun]. rewrite E, Hrun, Hprop. rewrite prun_S. cbn [fst map]. reflexivity.
Qed.

(* Proportional selection: from a fresh set (all accumulators zero), for every offset s, the run
   of s + T single increments does not fail, names proposers by index list [sel], and in the last
   T selections - any window of T consecutive selections - index i occurs exactly ps[i] times. *)
Theorem fair_every_window vs s : at_step 0 vs ->
  exists sel vs',
    mrun vs (s + Z.to_nat T) = Ok (map (fun i => Some (nth i addrs [])) sel, vs') /\
    length sel = (s + Z.to_nat T)%nat /\
    forall i, cnt (skipn s sel) i = nth i ps 0.
Proof.
  intro Hat. destruct (mrun_prun (s + Z.to_nat T) 0 vs Hat) as (vs' & _ & Hrun).
  cbn [prun snd] in Hrun.
  exists (fst (prun ps (zeros ps) (s + Z.to_nat T))), vs'. split; [exact Hrun|]. split.
  - clear. generalize (zeros ps) as acs. generalize (s + Z.to_nat T)%nat as n.
    induction n as [|n IH]; intro acs; cbn [prun]; [reflexivity|].
    destruct (pstep ps acs) as [i a1]. specialize (IH a1). destruct (prun ps a1 n). cbn [fst] in *. simpl. lia.
  - apply (every_window ps ps_nonneg T_pos s).
Qed.

End FairModel.

(* NewValidatorSet on validators with zero accumulators is one step into the rotation *)
Theorem new_valset_at_step vals vs :
  (forall v, In v vals -> va_accum v = 0) ->
  let ps := powers (sort_vals vals) in
  (forall i, 0 <= nth i ps 0) -> 0 < sumZ ps -> sumZ ps * sumZ ps < 1152921504606846976 ->
  new_valset vals = Ok vs -> at_step ps (map va_addr (sort_vals vals)) 1 vs.
Proof.
  intros Hz ps Hnn Hpos Hsm Hnew.
  assert (Hin : forall l x v, In v (insert_sorted x l) -> v = x \/ In v l).
  { induction l as [|w t IH]; intros x v; cbn [insert_sorted].
    - cbn. intuition congruence.
    - destruct (bytes_ltb (va_addr x) (va_addr w)); cbn [In].
      + intuition congruence.
      + intros [Hv|Hv]; [right; left; exact Hv|]. destruct (IH x v Hv); auto. }
  assert (Hzs : forall v, In v (sort_vals vals) -> va_accum v = 0).
  { clear Hnew Hnn Hpos Hsm. clear ps. induction vals as [|x t IH]; [contradiction|]. cbn [sort_vals fold_right]. fold (sort_vals t).
    intros v Hv. destruct (Hin _ _ _ Hv) as [->|Hv']; [apply Hz; left; reflexivity|].
    apply IH; [intros w Hw; apply Hz; right; exact Hw|exact Hv']. }
  assert (Hat0 : at_step ps (map va_addr (sort_vals vals)) 0 (mkVSet (sort_vals vals) None 0)).
  { unfold at_step. cbn [vl v_tvp prun snd]. split; [reflexivity|]. split; [reflexivity|]. split; [|left; reflexivity].
    unfold accums, zeros, ps, powers. rewrite map_length. clear -Hzs.
    induction (sort_vals vals) as [|v t IH]; [reflexivity|]. cbn. rewrite Hzs by (left; reflexivity). f_equal.
    apply IH. intros w Hw. apply Hzs. right. exact Hw. }
  destruct (at_step_next ps _ Hnn Hpos Hsm 0 _ Hat0) as (vs' & E & Hat1 & _).
  unfold new_valset, increment in Hnew. cbn [Z.to_nat Pos.to_nat Pos.iter_op incr_n] in Hnew.
  change (Pos.to_nat 1) with 1%nat in Hnew. cbn [incr_n] in Hnew. rewrite E in Hnew. injection Hnew as <-. exact Hat1.
Qed.
