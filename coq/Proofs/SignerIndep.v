(* The consensus state machine's state does not depend on the signer file: running the same inputs
   with another signer state gives the same state except for the signer record itself (and other
   outputs).  Hence replaying an intact log after a crash - when the signer file already holds
   everything that was signed - rebuilds exactly the state before the crash (C07). *)
From Coq Require Import List NArith ZArith Lia Bool.
From AnnVerif Require Import Base.Res Base.Bytes Model.VoteSet Model.ValSet Model.Node Proofs.NodeProofs.
Import ListNotations.
Open Scope Z_scope.

(* [f] is oblivious of the signer: with another signer record it takes the same path, fails the
   same way, and ends in the same state up to the signer record *)
Definition obl (f : node -> M) : Prop :=
  forall n s,
  match f n with
  | Ok (n', o) => exists s' o', f (set_sg n s) = Ok (set_sg n' s', o')
  | Err e => f (set_sg n s) = Err e
  | Panic w => f (set_sg n s) = Panic w
  end.

Lemma set_sg_idem n s s' : set_sg (set_sg n s) s' = set_sg n s'. Proof. reflexivity. Qed.

Lemma obl_ret : obl ret. Proof. intros n s. cbn. exists s, []. reflexivity. Qed.
Lemma obl_emit x : obl (emit x). Proof. intros n s. cbn. exists s, [x]. reflexivity. Qed.
Lemma obl_bind f g : obl f -> obl g -> obl (fun n => f n >>= g).
Proof.
  intros Hf Hg n s. specialize (Hf n s). unfold bindM. destruct (f n) as [[n1 o1]|e|w].
  - destruct Hf as (s1 & o1' & ->). specialize (Hg n1 s1). destruct (g n1) as [[n2 o2]|e|w].
    + destruct Hg as (s2 & o2' & ->). eexists _, _. reflexivity.
    + now rewrite Hg.
    + now rewrite Hg.
  - now rewrite Hf.
  - now rewrite Hf.
Qed.

(* the two places where the signer is consulted *)
Lemma obl_sign_add_vote t b : obl (sign_add_vote t b).
Proof.
  intros n s. unfold sign_add_vote, is_validator. cbn [priv vals set_sg height round sg].
  destruct (negb _); [cbn; exists s, []; reflexivity|].
  destruct (sign_check (sg n) _ _ _ _); destruct (sign_check s _ _ _ _); cbn; eexists _, _; reflexivity.
Qed.

(* leaves of a case analysis: the same result on both sides, up to the signer record *)
Ltac obl_leaf :=
  cbn [ret emit];
  first [ reflexivity
        | eexists _, _; reflexivity
        | match goal with
          | H : obl ?g |- context [?g (set_sg ?m ?s)] => exact (H m s)
          end ].

(* one step: expose the same scrutinee on both sides and split on it *)
Ltac obl_split :=
  match goal with
  | |- context [if ?c then _ else _] => destruct c eqn:?
  | |- context [match ?x with _ => _ end] => destruct x eqn:?
  end.

Lemma obl_do_prevote : obl do_prevote.
Proof.
  intros n s. unfold do_prevote. cbn [lblock pblock pparts set_sg].
  destruct (lblock n); [apply obl_sign_add_vote|].
  destruct (pblock n) as [b|]; [|apply obl_sign_add_vote].
  unfold pparts_bid. cbn [pparts set_sg]. destruct (bk_valid b); apply obl_sign_add_vote.
Qed.

Lemma obl_enter_prevote h r : obl (enter_prevote h r).
Proof.
  intros n s. unfold enter_prevote. cbn [height round step set_sg].
  destruct (negb (height n =? h) || (r <? round n) || ((round n =? r) && (4 <=? step n))); [cbn; exists s, []; reflexivity|].
  apply (obl_bind do_prevote (fun n1 => ret (set_step n1 r 4)) obl_do_prevote).
  intros m t. cbn. exists t, []. reflexivity.
Qed.

Lemma obl_decide_proposal : obl decide_proposal.
Proof.
  intros n s. unfold decide_proposal. cbn [lblock height last_commit votes round sg set_sg].
  destruct (negb _); [cbn; exists s, []; reflexivity|].
  destruct (pol_info (votes n)) as [[polr ?]|e|w]; [|reflexivity|reflexivity].
  destruct (sign_check (sg n) _ _ _ _); destruct (sign_check s _ _ _ _); cbn; eexists _, _; reflexivity.
Qed.

(* a call of an oblivious function at a leaf: the argument on the right is the left one with the
   other signer, up to computation *)
Ltac obl_call L s :=
  match goal with
  | |- match ?F ?x with Ok _ => _ | Err _ => _ | Panic _ => _ end => exact (L x s)
  end.
Ltac obl_done s := cbn [ret emit]; first [reflexivity | eexists _, _; reflexivity].

Lemma obl_enter_propose h r : obl (enter_propose h r).
Proof.
  intros n s. unfold enter_propose. cbn [height round step set_sg].
  destruct (negb (height n =? h) || (r <? round n) || ((round n =? r) && (3 <=? step n))); [obl_done s|].
  revert n s. apply obl_bind.
  - apply obl_bind; [apply obl_emit|]. intros n s. cbn [priv vals set_sg].
    destruct (priv n) as [me|]; [|obl_done s].
    destruct (proposer (vals n)) as [[[a|] vs']|e|w]; try reflexivity.
    destruct (bytes_eqb a me); [obl_call obl_decide_proposal s|obl_done s].
  - intros n s. cbn zeta. unfold is_proposal_complete. cbn [proposal pblock votes set_step set_sg round].
    destruct (proposal n) as [p|]; [|obl_done s]. destruct (pblock n); [|obl_done s].
    destruct (p_polround p <? 0); [obl_call (obl_enter_prevote h r) s|].
    destruct (hv_prevotes (votes n) (p_polround p)) as [vs|]; [|reflexivity].
    destruct (vs_maj23 vs); [obl_call (obl_enter_prevote h r) s|obl_done s].
Qed.

Lemma obl_enter_new_round h r : obl (enter_new_round h r).
Proof.
  intros n s. unfold enter_new_round. cbn [height round step vals votes set_sg].
  destruct (negb (height n =? h) || (r <? round n) || ((round n =? r) && negb (step n =? 1))); [obl_done s|].
  destruct (if round n <? r then increment (vals n) (r - round n) else Ok (vals n)) as [vs|e|w]; try reflexivity.
  cbn zeta. destruct (r =? 0); cbn [votes set_vals set_step set_prop set_sg].
  - destruct (hv_set_round (votes n) (r + 1)) as [hv|e|w]; try reflexivity. obl_call (obl_enter_propose h r) s.
  - destruct (hv_set_round (votes n) (r + 1)) as [hv|e|w]; try reflexivity. obl_call (obl_enter_propose h r) s.
Qed.

Lemma obl_enter_prevote_wait h r : obl (enter_prevote_wait h r).
Proof.
  intros n s. unfold enter_prevote_wait. cbn [height round step votes set_sg].
  destruct (negb (height n =? h) || (r <? round n) || ((round n =? r) && (5 <=? step n))); [obl_done s|].
  destruct (negb (any23 (hv_prevotes (votes n) r))); [reflexivity|]. cbn. eexists _, _. reflexivity.
Qed.

Lemma obl_enter_precommit_wait h r : obl (enter_precommit_wait h r).
Proof.
  intros n s. unfold enter_precommit_wait. cbn [height round step votes set_sg].
  destruct (negb (height n =? h) || (r <? round n) || ((round n =? r) && (7 <=? step n))); [obl_done s|].
  destruct (negb (any23 (hv_precommits (votes n) r))); [reflexivity|]. cbn. eexists _, _. reflexivity.
Qed.

Lemma obl_enter_precommit h r : obl (enter_precommit h r).
Proof.
  intros n s. unfold enter_precommit. cbn [height round step set_sg].
  destruct (negb (height n =? h) || (r <? round n) || ((round n =? r) && (6 <=? step n))); [obl_done s|].
  revert n s. apply obl_bind; [|intros n s; obl_done s].
  intros n s. cbn [votes lblock pblock pparts proposal set_sg set_lock].
  destruct (maj23 (hv_prevotes (votes n) r)) as [b|]; [|obl_call (obl_sign_add_vote 2 nil_bid) s].
  destruct (pol_info (votes n)) as [[polr ?]|e|w]; try reflexivity.
  destruct (polr <? r); [reflexivity|].
  destruct (b_hash b) as [|x xs] eqn:Eh.
  - destruct (lblock n); obl_call (obl_sign_add_vote 2 nil_bid) s.
  - destruct (hashes_to (lblock n) (x :: xs)); [obl_call (obl_sign_add_vote 2 b) s|].
    destruct (hashes_to (pblock n) (x :: xs)).
    + destruct (pblock n) as [pb|]; [|reflexivity]. destruct (negb (bk_valid pb)); [reflexivity|].
      cbn zeta. destruct (pparts n); obl_call (obl_sign_add_vote 2 b) s.
    + cbn zeta. cbn [pparts set_lock proposal].
      destruct (has_header (pparts n) (b_total b) (b_phash b)); [obl_call (obl_sign_add_vote 2 nil_bid) s|].
      destruct (new_pset (b_total b) (b_phash b)) as [ps|e|w]; try reflexivity.
      obl_call (obl_sign_add_vote 2 nil_bid) s.
Qed.

Lemma obl_finalize_commit c h : obl (finalize_commit c h).
Proof.
  intros n s. unfold finalize_commit. cbn [height step votes commit_round pparts pblock st_vals priv sg set_sg].
  destruct (negb (height n =? h) || negb (step n =? 8)); [obl_done s|].
  destruct (maj23 _) as [b|]; [|reflexivity].
  destruct (negb (has_header _ _ _)); [reflexivity|]. destruct (negb (hashes_to _ _)); [reflexivity|].
  destruct (pblock n) as [pb|]; [|reflexivity]. destruct (negb (bk_valid pb)); [reflexivity|].
  destruct (increment (st_vals n) 1) as [nv|e|w]; try reflexivity.
  destruct (new_hvs (h + 1) (vals_of nv)) as [hv|e|w]; try reflexivity.
  eexists s, _. reflexivity.
Qed.

Lemma obl_try_finalize_commit c h : obl (try_finalize_commit c h).
Proof.
  intros n s. unfold try_finalize_commit. cbn [height votes commit_round pblock set_sg].
  destruct (negb (height n =? h)); [reflexivity|].
  destruct (maj23 _) as [b|]; [|obl_done s]. destruct (b_hash b); [obl_done s|].
  destruct (hashes_to _ _); [obl_call (obl_finalize_commit c h) s|obl_done s].
Qed.

Lemma obl_enter_commit c h cr : obl (enter_commit c h cr).
Proof.
  intros n s. unfold enter_commit. cbn [height step votes lblock set_sg].
  destruct (negb (height n =? h) || (8 <=? step n)); [obl_done s|].
  destruct (maj23 _) as [b|]; [|reflexivity]. cbn zeta.
  destruct (hashes_to (lblock n) (b_hash b)); cbn [pblock pparts proposal set_prop set_sg lblock].
  - destruct (hashes_to (lblock n) (b_hash b)); [obl_call (obl_try_finalize_commit c h) s|].
    destruct (has_header _ _ _); [obl_call (obl_try_finalize_commit c h) s|].
    destruct (new_pset _ _) as [ps|e|w]; try reflexivity. obl_call (obl_try_finalize_commit c h) s.
  - destruct (hashes_to (pblock n) (b_hash b)); [obl_call (obl_try_finalize_commit c h) s|].
    destruct (has_header _ _ _); [obl_call (obl_try_finalize_commit c h) s|].
    destruct (new_pset _ _) as [ps|e|w]; try reflexivity. obl_call (obl_try_finalize_commit c h) s.
Qed.

Lemma obl_set_proposal p sgn : obl (set_proposal p sgn).
Proof.
  intros n s. unfold set_proposal. cbn [proposal height round step vals pblock set_sg].
  destruct (proposal n); [obl_done s|].
  destruct (negb (p_height p =? height n) || negb (p_round p =? round n)); [obl_done s|].
  destruct (8 <=? step n); [obl_done s|]. destruct (negb _ && _); [obl_done s|]. destruct (_ || _); [obl_done s|].
  destruct (proposer (vals n)) as [[[a|] vs']|e|w]; try reflexivity. cbn zeta.
  destruct (negb (bytes_eqb a sgn)); [obl_done s|].
  destruct (new_pset _ _) as [ps|e|w]; try reflexivity. obl_done s.
Qed.

Lemma obl_add_part c h idx b dec ver : obl (add_part c h idx b dec ver).
Proof.
  intros n s. unfold add_part. cbn [height pparts proposal pblock set_sg].
  destruct (negb (height n =? h)); [obl_done s|]. destruct (pparts n) as [ps|]; [|obl_done s].
  destruct (_ || _); [obl_done s|]. destruct (existsb _ _); [obl_done s|]. destruct (ver && _); [obl_done s|].
  cbn zeta. destruct (Z.eqb _ _); [|obl_done s].
  revert n s. apply obl_bind; [|intros n s; destruct dec; obl_done s].
  intros n s. cbn [step set_prop set_sg round proposal pblock votes].
  destruct (step n =? 3).
  - unfold is_proposal_complete. cbn [proposal pblock votes set_prop set_sg].
    destruct (proposal n) as [p|]; [|obl_done s].
    destruct (p_polround p <? 0); [obl_call (obl_enter_prevote h (round n)) s|].
    destruct (hv_prevotes (votes n) (p_polround p)) as [vs|]; [|reflexivity].
    destruct (vs_maj23 vs); [obl_call (obl_enter_prevote h (round n)) s|obl_done s].
  - destruct (step n =? 8); [obl_call (obl_try_finalize_commit c h) s|obl_done s].
Qed.

Lemma obl_fun (f : node -> M) : obl f -> obl (fun n => f n). Proof. exact (fun H => H). Qed.
Lemma obl_enter_new_round_open h r : obl (enter_new_round_open h r).
Proof.
  intros n s. unfold enter_new_round_open. cbn [step set_sg].
  destruct (step n <? 8); [exact (obl_enter_new_round h r n s)|obl_done s].
Qed.

Lemma obl_add_vote_cs c v peer : obl (add_vote_cs c v peer).
Proof.
  intros n s. unfold add_vote_cs. cbn [height step last_commit votes set_sg].
  destruct (v_height v + 1 =? height n).
  - destruct (negb _); [obl_done s|]. destruct (last_commit n) as [lc|]; [|obl_done s].
    destruct (add_vote lc v) as [[[lc' added] code]|e|w]; try reflexivity. cbn zeta.
    revert n s. apply obl_bind; [|intros n s; destruct (N.eqb code 0); obl_done s].
    intros n s. cbn [height set_last_commit set_sg].
    destruct (added && c_skip_commit c && has_all lc'); [obl_call (obl_enter_new_round (height n) 0) s|obl_done s].
  - destruct (v_height v =? height n); [|obl_done s]. cbn zeta.
    destruct (hv_add_vote (votes n) v peer) as [[[hv added] code]|e|w]; try reflexivity.
    revert n s. apply obl_bind; [|intros n s; destruct (N.eqb code 0); obl_done s].
    intros n s. cbn [height votes lblock lround round proposal set_votes set_sg].
    destruct (negb added); [obl_done s|].
    destruct (N.eqb (v_type v) 1).
    + (* prevote *)
      set (n2 := match lblock n with
                 | Some _ => if (lround n <? v_round v) && (v_round v <=? round n)
                             then match maj23 (hv_prevotes hv (v_round v)) with
                                  | Some b => if negb (hashes_to (lblock n) (b_hash b)) then set_lock (set_votes n hv) 0 None else set_votes n hv
                                  | None => set_votes n hv end
                             else set_votes n hv
                 | None => set_votes n hv end).
      set (n2s := match lblock n with
                  | Some _ => if (lround n <? v_round v) && (v_round v <=? round n)
                              then match maj23 (hv_prevotes hv (v_round v)) with
                                   | Some b => if negb (hashes_to (lblock n) (b_hash b)) then set_lock (set_votes (set_sg n s) hv) 0 None else set_votes (set_sg n s) hv
                                   | None => set_votes (set_sg n s) hv end
                              else set_votes (set_sg n s) hv
                  | None => set_votes (set_sg n s) hv end).
      assert (E2 : n2s = set_sg n2 s).
      { unfold n2s, n2. destruct (lblock n); [|reflexivity]. destruct (_ && _); [|reflexivity].
        destruct (maj23 _); [|reflexivity]. destruct (negb _); reflexivity. }
      rewrite E2. clearbody n2. clear n2s E2.
      generalize (height n) as hh. intro hh.
      cbn [round proposal votes set_sg].
      unfold any23_open. cbn [step set_sg].
      destruct ((round n2 <=? v_round v) && ((step n2 <? 8) && any23 (hv_prevotes hv (v_round v)))).
      * revert n2 s. apply obl_bind; [apply obl_enter_new_round|].
        intros m t. cbn [votes set_sg]. destruct (maj23 _); [obl_call (obl_enter_precommit hh (v_round v)) t|].
        revert m t. apply obl_bind; [apply obl_enter_prevote|apply obl_enter_prevote_wait].
      * destruct (proposal n2) as [p|]; [|obl_done s]. destruct (_ && _); [|obl_done s].
        unfold is_proposal_complete. cbn [proposal pblock votes set_sg]. rewrite ?E2.
        destruct (proposal n2) as [p'|]; [|obl_done s]. destruct (pblock n2); [|obl_done s].
        destruct (p_polround p' <? 0); [obl_call (obl_enter_prevote hh (round n2)) s|].
        destruct (hv_prevotes (votes n2) (p_polround p')) as [vs|]; [|reflexivity].
        destruct (vs_maj23 vs); [obl_call (obl_enter_prevote hh (round n2)) s|obl_done s].
    + destruct (N.eqb (v_type v) 2); [|reflexivity]. cbn zeta.
      generalize (height n) as hh. intro hh.
      destruct (maj23 (hv_precommits hv (v_round v))) as [b|].
      * destruct (b_hash b); [obl_call (obl_enter_new_round_open hh (v_round v + 1)) s|].
        revert n s. apply obl_bind; [apply obl_bind; [apply obl_bind|]|].
        -- apply obl_fun. intros m t. obl_call (obl_enter_new_round hh (v_round v)) t.
        -- apply obl_enter_precommit.
        -- apply obl_enter_commit.
        -- intros m t. cbn [height set_sg]. destruct (c_skip_commit c && _); [obl_call (obl_enter_new_round (height m) 0) t|obl_done t].
      * unfold any23_open. cbn [step set_sg set_votes].
        destruct ((round n <=? v_round v) && ((step n <? 8) && any23 (hv_precommits hv (v_round v)))); [|obl_done s].
        revert n s. apply obl_bind; [apply obl_bind|].
        -- apply obl_fun. intros m t. obl_call (obl_enter_new_round hh (v_round v)) t.
        -- apply obl_enter_precommit.
        -- apply obl_enter_precommit_wait.
Qed.

Lemma obl_handle_timeout h r st : obl (handle_timeout h r st).
Proof.
  intros n s. unfold handle_timeout. cbn [height round step set_sg].
  destruct (_ || _); [obl_done s|].
  destruct (st =? 1); [obl_call (obl_enter_new_round h 0) s|].
  destruct (st =? 3); [obl_call (obl_enter_prevote h r) s|].
  destruct (st =? 5); [obl_call (obl_enter_precommit h r) s|].
  destruct (st =? 7); [obl_call (obl_enter_new_round h (r + 1)) s|reflexivity].
Qed.

Theorem obl_handle c i : obl (handle c i).
Proof.
  destruct i; cbn [handle]; [apply obl_set_proposal|apply obl_add_part|apply obl_add_vote_cs|apply obl_handle_timeout].
Qed.

(* a whole run: same inputs, another signer, same state up to the signer record *)
Theorem run_signer_independent c ins : forall n s,
  match run c ins n with
  | Ok n' => exists s', run c ins (set_sg n s) = Ok (set_sg n' s')
  | Err e => run c ins (set_sg n s) = Err e
  | Panic w => run c ins (set_sg n s) = Panic w
  end.
Proof.
  induction ins as [|i t IH]; intros n s; cbn [run]; [exists s; reflexivity|].
  pose proof (obl_handle c i n s) as H. destruct (handle c i n) as [[n1 o1]|e|w].
  - destruct H as (s1 & o1' & ->). exact (IH n1 s1).
  - now rewrite H.
  - now rewrite H.
Qed.

(* C07: the node started at a height with signer file [s0], handled the inputs [ins] (all of them
   logged) and reached [n]; it dies; restarted from the same durable parts but with the signer
   file as the crash left it ([s1]: whatever was signed meanwhile), replaying the intact log
   reaches [n] again - every field except the signer record, which comes from the file *)
Theorem replay_restores c h vs lc me s0 s1 ins n0 n :
  init_node h vs lc me s0 = Ok n0 -> run c ins n0 = Ok n ->
  exists n0' n' s', init_node h vs lc me s1 = Ok n0' /\ run c ins n0' = Ok n' /\ n' = set_sg n s'.
Proof.
  unfold init_node. destruct (new_hvs h (vals_of vs)) as [hv|e|w]; try discriminate.
  intros E0 Hr. injection E0 as <-.
  pose proof (run_signer_independent c ins (mkNode h 0 1 vs vs None None None 0 None hv (-1) lc me s0) s1) as H.
  rewrite Hr in H. destruct H as (s' & H). cbn [set_sg height round step vals st_vals proposal pblock pparts lround lblock votes commit_round last_commit priv] in H.
  eexists _, _, s'. split; [reflexivity|]. split; [exact H|reflexivity].
Qed.
