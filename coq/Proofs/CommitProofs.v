(* Proofs about Model/Commit.v: whatever prefix of a commit's writes survives, and however often
   the recovering node dies again inside its re-commit, the node starts (no sanity panic) and ends
   with block store, consensus state and application agreeing on the new height, every record of
   every height on disk, and the application state holding every block exactly once. *)
From Coq Require Import List NArith Bool Lia Arith.
From AnnVerif Require Import Model.Commit.
Import ListNotations.
Open Scope N_scope.

(* ---------- everything up to h ---------- *)
Definition has_all (d : disk) (i : N) : Prop :=
  mem i (metas d) = true /\ mem i (parts d) = true /\ mem i (seens d) = true /\
  mem i (tries d) = true /\ mem i (receipts d) = true.
Definition Complete (d : disk) (h : N) : Prop :=
  desc d = h /\ state d = h /\ app d = h /\ approot d = chain h /\ forall i, 1 <= i <= h -> has_all d i.

(* a commit of h caught anywhere: below h everything is there; the three records are at h-1 or h and
   became h only in the order descriptor, application, state; what each record promises is there *)
Definition Mid (d : disk) (h : N) : Prop :=
  (forall i, 1 <= i < h -> has_all d i) /\
  (desc d = h - 1 \/ desc d = h) /\ (app d = h - 1 \/ app d = h) /\ (state d = h - 1 \/ state d = h) /\
  (desc d = h -> mem h (metas d) = true /\ mem h (parts d) = true /\ mem h (seens d) = true) /\
  (app d = h -> desc d = h /\ mem h (tries d) = true /\ approot d = chain h) /\
  (app d = h - 1 -> approot d = chain (h - 1)) /\
  (state d = h -> app d = h /\ mem h (receipts d) = true).

Lemma mem_cons_same x l : mem x (x :: l) = true.
Proof. unfold mem. cbn. now rewrite N.eqb_refl. Qed.
Lemma mem_cons_keep x y l : mem x l = true -> mem x (y :: l) = true.
Proof. unfold mem. cbn. intros ->. now rewrite orb_true_r. Qed.

Lemma chain_step h : 1 <= h -> chain h = h :: chain (h - 1).
Proof.
  intros Hh. unfold chain.
  replace (N.to_nat h) with (S (N.to_nat (h - 1))) by lia.
  cbn [chain_nat]. f_equal. lia.
Qed.

Lemma complete_mid d h : 1 <= h -> Complete d (h - 1) -> Mid d h.
Proof.
  intros Hh (Hd & Hs & Ha & Hr & Hall). unfold Mid. repeat split; auto; try lia.
  all: try (apply Hall; lia).
  all: try (intros E; exfalso; lia).
Qed.

Lemma mid_complete d h : 1 <= h -> Mid d h -> state d = h -> Complete d h.
Proof.
  intros Hh (Hlow & Hd & Ha & Hs & Pd & Pa & Pa' & Ps) E.
  destruct (Ps E) as [Ea Hr]. destruct (Pa Ea) as (Ed & Ht & Hroot). destruct (Pd Ed) as (Hm & Hp & Hsn).
  unfold Complete. repeat split; auto.
  all: destruct (N.eq_dec i h) as [->|Hne]; auto; apply Hlow; lia.
Qed.

(* ---------- one write at a time ---------- *)
Ltac has_all_keep H :=
  let a := fresh in let b := fresh in let c := fresh in let e := fresh in let f := fresh in
  destruct H as (a & b & c & e & f); unfold has_all; cbn [metas parts seens desc inter tries app approot receipts state];
  repeat split; auto using mem_cons_keep.

Lemma low_preserved d w h :
  (forall i, 1 <= i < h -> has_all d i) -> forall i, 1 <= i < h -> has_all (apply_write d w) i.
Proof.
  intros H i Hi. specialize (H i Hi). destruct w; cbn [apply_write]; try exact H; has_all_keep H.
Qed.


(* one conjunct of Mid after some writes *)
Ltac fin Hh Hlow Pd Pa Pa' Ps :=
  solve [ auto
        | intros ? ?; match goal with Hi : 1 <= ?i < _ |- _ => let H := fresh in pose proof (Hlow i Hi) as H; has_all_keep H end
        | intros ?; exfalso; lia
        | let E := fresh in intros E; destruct (Pd E) as (? & ? & ?); repeat split; auto using mem_cons_same, mem_cons_keep
        | let E := fresh in intros E; destruct (Pa E) as (? & ? & ?); repeat split; auto using mem_cons_same, mem_cons_keep
        | let E := fresh in intros E; destruct (Ps E) as (? & ?); repeat split; auto using mem_cons_same, mem_cons_keep
        | intros _; repeat split; auto using mem_cons_same, mem_cons_keep, (eq_sym (chain_step _ Hh))
        | let E := fresh in intros E; apply Pa'; exact E ].

(* the writes of a commit of h applied in order from a Mid state: an explicit stage counter *)
Definition after_stage (h : N) (base : list N) (n : nat) : list wr := firstn n (commit_writes h base).

Lemma mid_store_prefix d h n :
  1 <= h -> Mid d h -> (n <= 5)%nat -> Mid (apply_writes d (firstn n (store_writes h))) h /\
  (n = 5%nat -> desc (apply_writes d (firstn n (store_writes h))) = h).
Proof.
  intros Hh M Hn.
  destruct M as (Hlow & Hd & Ha & Hs & Pd & Pa & Pa' & Ps).
  assert (Hk : forall x l, mem x l = true -> forall y, mem x (y :: l) = true) by (intros; now apply mem_cons_keep).
  assert (Hc : (n = 0 \/ n = 1 \/ n = 2 \/ n = 3 \/ n = 4 \/ n = 5)%nat) by lia.
  destruct Hc as [->|[->|[->|[->|[->| ->]]]]]; unfold apply_writes, store_writes; cbn [firstn fold_left apply_write].
  all: split; [|intros; try discriminate; try reflexivity].
  all: unfold Mid; cbn [metas parts seens desc inter tries app approot receipts state].
  all: repeat match goal with |- _ /\ _ => split end.
  all: fin Hh Hlow Pd Pa Pa' Ps.
Qed.

Lemma mid_exec_prefix d h n :
  1 <= h -> Mid d h -> desc d = h -> (n <= 5)%nat ->
  Mid (apply_writes d (firstn n (exec_writes h (chain (h - 1))))) h /\
  (n = 5%nat -> state (apply_writes d (firstn n (exec_writes h (chain (h - 1))))) = h).
Proof.
  intros Hh M Ed Hn.
  destruct M as (Hlow & Hd & Ha & Hs & Pd & Pa & Pa' & Ps).
  destruct (Pd Ed) as (Hm & Hp & Hsn).
  assert (Hc : (n = 0 \/ n = 1 \/ n = 2 \/ n = 3 \/ n = 4 \/ n = 5)%nat) by lia.
  destruct Hc as [->|[->|[->|[->|[->| ->]]]]]; unfold apply_writes, exec_writes; cbn [firstn fold_left apply_write].
  all: split; [|intros; try discriminate; try reflexivity].
  all: unfold Mid; cbn [metas parts seens desc inter tries app approot receipts state].
  all: repeat match goal with |- _ /\ _ => split end.
  all: fin Hh Hlow Pd Pa Pa' Ps.
Qed.

Lemma apply_writes_app d a b : apply_writes d (a ++ b) = apply_writes (apply_writes d a) b.
Proof. unfold apply_writes. apply fold_left_app. Qed.

(* every prefix of a (re-)commit of h keeps the invariant; the whole of it completes the height *)
Lemma mid_commit_prefix d h k :
  1 <= h -> Mid d h ->
  Mid (lifetime d (commit_writes h (chain (h - 1))) k) h /\
  ((10 <= k)%nat -> state (lifetime d (commit_writes h (chain (h - 1))) k) = h).
Proof.
  intros Hh M. unfold lifetime, commit_writes. rewrite firstn_app, apply_writes_app.
  change (length (store_writes h)) with 5%nat.
  destruct (Nat.le_gt_cases 5 k) as [Hk|Hk].
  - rewrite (firstn_all2 (store_writes h)) by (cbn; lia).
    destruct (mid_store_prefix d h 5 Hh M (le_n _)) as [M1 E1].
    change (firstn 5 (store_writes h)) with (store_writes h) in *.
    specialize (E1 eq_refl).
    destruct (Nat.le_gt_cases 5 (k - 5)) as [Hk2|Hk2].
    + rewrite (firstn_all2 (exec_writes h (chain (h - 1)))) by (cbn; lia).
      destruct (mid_exec_prefix _ h 5 Hh M1 E1 (le_n _)) as [M2 E2].
      change (firstn 5 (exec_writes h (chain (h - 1)))) with (exec_writes h (chain (h - 1))) in *.
      split; [exact M2 | intros _; exact (E2 eq_refl)].
    + destruct (mid_exec_prefix _ h (k - 5) Hh M1 E1 ltac:(lia)) as [M2 _].
      split; [exact M2 | intros; lia].
  - replace (k - 5)%nat with 0%nat by lia. cbn [firstn]. unfold apply_writes at 1. cbn [fold_left].
    destruct (mid_store_prefix d h k Hh M ltac:(lia)) as [M1 _].
    split; [exact M1 | intros; lia].
Qed.

(* ---------- the start of a node on any such disk ---------- *)
Lemma start_on_mid d h :
  1 <= h -> Mid d h ->
  start_node true d h =
  Ready (if state d =? h then [] else commit_writes h (chain (h - 1))).
Proof.
  intros Hh (Hlow & Hd & Ha & Hs & Pd & Pa & Pa' & Ps).
  unfold start_node, recover_ok, store_view.
  destruct Hs as [Es|Es].
  - (* the state is still at h-1 *)
    assert (Hsh : state d + 1 = h) by lia.
    assert (state d =? h = false) as -> by (apply N.eqb_neq; lia).
    destruct Hd as [Ed|Ed].
    + (* descriptor not yet written: nothing of h is visible *)
      assert (state d + 1 =? desc d = false) as -> by (apply N.eqb_neq; lia).
      assert (desc d =? state d = true) as -> by (apply N.eqb_eq; lia). cbn [negb].
      assert (Eap : app d = h - 1) by (destruct Ha as [E|E]; [exact E | destruct (Pa E) as (E2 & _); lia]).
      destruct (desc d =? 0) eqn:Z.
      * assert (state d + 1 =? h = true) as -> by (apply N.eqb_eq; lia).
        assert (desc d <? h = true) as -> by (apply N.ltb_lt; lia). reflexivity.
      * assert (desc d <? app d = false) as -> by (apply N.ltb_ge; lia).
        assert (desc d =? app d = true) as -> by (apply N.eqb_eq; lia).
        assert (state d + 1 =? h = true) as -> by (apply N.eqb_eq; lia).
        assert (desc d <? h = true) as -> by (apply N.ltb_lt; lia). reflexivity.
    + (* descriptor at h: the store is stepped back to the state *)
      assert (state d + 1 =? desc d = true) as -> by (apply N.eqb_eq; lia).
      rewrite N.eqb_refl. cbn [negb].
      destruct (Pd Ed) as (Hm & _).
      assert (state d + 1 =? h = true) as -> by (apply N.eqb_eq; lia).
      assert (state d <? h = true) as -> by (apply N.ltb_lt; lia).
      destruct (state d =? 0) eqn:Z; [reflexivity|].
      destruct Ha as [Ea|Ea].
      * assert (state d <? app d = false) as -> by (apply N.ltb_ge; lia).
        assert (state d =? app d = true) as -> by (apply N.eqb_eq; lia). reflexivity.
      * (* the application has committed h: the window repaired by 4b0525d *)
        assert (state d <? app d = true) as -> by (apply N.ltb_lt; lia).
        assert (app d =? state d + 1 = true) as -> by (apply N.eqb_eq; lia).
        rewrite Ea, Hm. reflexivity.
  - (* everything saved *)
    destruct (Ps Es) as (Ea & _). destruct (Pa Ea) as (Ed & _).
    assert (state d + 1 =? desc d = false) as -> by (apply N.eqb_neq; lia).
    assert (desc d =? state d = true) as -> by (apply N.eqb_eq; lia). cbn [negb].
    assert (state d =? h = true) as -> by (apply N.eqb_eq; lia).
    assert (state d + 1 =? h = false) as -> by (apply N.eqb_neq; lia).
    destruct (desc d =? 0); [reflexivity|].
    assert (desc d <? app d = false) as -> by (apply N.ltb_ge; lia).
    assert (desc d =? app d = true) as -> by (apply N.eqb_eq; lia). reflexivity.
Qed.

(* ---------- any number of crashes ---------- *)
Lemma recoveries_complete h ks : 1 <= h -> forall d, Mid d h ->
  exists d', recoveries true d h ks = Some d' /\ Complete d' h.
Proof.
  intros Hh. induction ks as [|k ks IH]; intros d M; cbn [recoveries]; rewrite (start_on_mid d h Hh M).
  - destruct (state d =? h) eqn:E.
    + apply N.eqb_eq in E. exists d. split; [reflexivity | now apply mid_complete].
    + eexists. split; [reflexivity|].
      destruct (mid_commit_prefix d h 10 Hh M) as [M' E'].
      unfold lifetime in *. change (firstn 10 (commit_writes h (chain (h - 1)))) with (commit_writes h (chain (h - 1))) in *.
      apply mid_complete; auto.
  - destruct (state d =? h) eqn:E.
    + apply IH. unfold lifetime. now destruct k.
    + apply IH. apply mid_commit_prefix; auto.
Qed.

Theorem crash_recovery d h k0 ks :
  1 <= h -> Complete d (h - 1) ->
  exists d', crash_history true d h k0 ks = Some d' /\ Complete d' h.
Proof.
  intros Hh C. unfold crash_history.
  assert (Hr : approot d = chain (h - 1)) by (destruct C as (_ & _ & _ & Hr & _); exact Hr).
  rewrite Hr. apply recoveries_complete; auto.
  apply mid_commit_prefix; auto. now apply complete_mid.
Qed.

(* an uncrashed commit is the special case *)
Corollary commit_complete d h :
  1 <= h -> Complete d (h - 1) -> Complete (apply_writes d (commit_writes h (approot d))) h.
Proof.
  intros Hh C.
  assert (Hr : approot d = chain (h - 1)) by (destruct C as (_ & _ & _ & Hr & _); exact Hr).
  rewrite Hr. destruct (mid_commit_prefix d h 10 Hh (complete_mid d h Hh C)) as [M E].
  unfold lifetime in *. change (firstn 10 (commit_writes h (chain (h - 1)))) with (commit_writes h (chain (h - 1))) in *.
  apply mid_complete; auto.
Qed.

(* before the repair: the node that died between the application's commit and its own never starts *)
Definition disk0 : disk := mkDisk [] [] [] 0 0 [] 0 [] [] 0.
Definition disk2 : disk := apply_writes (apply_writes disk0 (commit_writes 1 [])) (commit_writes 2 [1]).
Lemma unrepaired_node_does_not_restart :
  Complete disk2 2 /\ crash_history false disk2 3 8 [] = None /\ crash_history false disk2 3 9 [] = None /\
  exists d', crash_history true disk2 3 8 [] = Some d' /\ complete_upto d' 3 = true.
Proof.
  split; [|split; [vm_compute; reflexivity | split; [vm_compute; reflexivity | eexists; split; vm_compute; reflexivity]]].
  unfold Complete. repeat split; try reflexivity.
  all: assert (i = 1 \/ i = 2) as [-> | ->] by lia; reflexivity.
Qed.
