(* Proofs about Model.Signer: no two different sign-bytes are ever released for one
   height/round/step, released signatures never go back in (height, round, step), and a fresh
   signature is released only after the record forbidding its contradiction is durable -
   for every sequence of requests, failing writes, crashes at any failpoint and restarts. *)
From Coq Require Import List NArith ZArith Lia Bool.
From AnnVerif Require Import Base.Bytes Model.Signer Proofs.BytesProofs.
Import ListNotations.
Open Scope Z_scope.

(* lexicographic order on (height, round, step) *)
Definition hrs_lt (h1 r1 s1 h2 r2 s2 : Z) : Prop :=
  h1 < h2 \/ (h1 = h2 /\ (r1 < r2 \/ (r1 = r2 /\ s1 < s2))).
Definition hrs_le (h1 r1 s1 h2 r2 s2 : Z) : Prop :=
  hrs_lt h1 r1 s1 h2 r2 s2 \/ (h1 = h2 /\ r1 = r2 /\ s1 = s2).

Section SignerProofs.
Variable sign : bytes -> bytes.

(* what one released signature says *)
Record rel := mkRel { rl_h : Z; rl_r : Z; rl_s : Z; rl_b : bytes; rl_sig : bytes }.

Definition released_of (o : sop) (out : sout) : option rel :=
  match o, out with
  | SSign h r s b _, OReleased sg => Some (mkRel h r s b sg)
  | _, _ => None
  end.
Fixpoint releases (l : list (sop * sout)) : list rel :=
  match l with
  | [] => []
  | (o, out) :: t => match released_of o out with Some x => x :: releases t | None => releases t end
  end.

(* a state [covers] a release: the durable record is at or past it, and if at it, it stores
   exactly those sign-bytes and that signature *)
Definition covers (d : hrs) (x : rel) : Prop :=
  hrs_lt (rl_h x) (rl_r x) (rl_s x) (s_h d) (s_r d) (s_step d) \/
  (rl_h x = s_h d /\ rl_r x = s_r d /\ rl_s x = s_step d /\ s_bytes d = Some (rl_b x) /\ s_sig d = Some (rl_sig x)).

Definition SInv (st : signer) : Prop := vol st = dur st.

Lemma sstep_inv st o : SInv st -> SInv (fst (sstep sign st o)).
Proof.
  unfold SInv. intro Hv. destruct o as [h r s b m|]; cbn [sstep]; [|reflexivity].
  unfold sign_step.
  destruct (h <? s_h (vol st)); [exact Hv|].
  destruct ((s_h (vol st) =? h) && (r <? s_r (vol st))); [exact Hv|].
  destruct ((s_h (vol st) =? h) && (s_r (vol st) =? r) && (s <? s_step (vol st))); [exact Hv|].
  destruct ((s_h (vol st) =? h) && (s_r (vol st) =? r) && (s_step (vol st) =? s)).
  - destruct (s_bytes (vol st)), (s_sig (vol st)); try exact Hv. destruct (bytes_eqb _ _); exact Hv.
  - destruct m; cbn [fst vol dur]; auto.
Qed.

(* the durable record never goes back *)
Lemma sstep_dur_mono st o : SInv st ->
  hrs_le (s_h (dur st)) (s_r (dur st)) (s_step (dur st))
         (s_h (dur (fst (sstep sign st o)))) (s_r (dur (fst (sstep sign st o)))) (s_step (dur (fst (sstep sign st o)))).
Proof.
  unfold SInv. intro Hv. destruct o as [h r s b m|]; cbn [sstep]; [|(cbn [fst dur]; right; repeat split; reflexivity)].
  unfold sign_step. rewrite Hv.
  destruct (Z.ltb_spec h (s_h (dur st))); [(cbn [fst dur]; right; repeat split; reflexivity)|].
  destruct ((s_h (dur st) =? h) && (r <? s_r (dur st))) eqn:E2; [(cbn [fst dur]; right; repeat split; reflexivity)|].
  destruct ((s_h (dur st) =? h) && (s_r (dur st) =? r) && (s <? s_step (dur st))) eqn:E3; [(cbn [fst dur]; right; repeat split; reflexivity)|].
  destruct ((s_h (dur st) =? h) && (s_r (dur st) =? r) && (s_step (dur st) =? s)) eqn:E4.
  - destruct (s_bytes (dur st)), (s_sig (dur st)); try ((cbn [fst dur]; right; repeat split; reflexivity)). destruct (bytes_eqb _ _); (cbn [fst dur]; right; repeat split; reflexivity).
  - assert (Hlt : hrs_lt (s_h (dur st)) (s_r (dur st)) (s_step (dur st)) h r s).
    { unfold hrs_lt. destruct (Z.eqb_spec (s_h (dur st)) h) as [Eh|Eh]; [|left; lia]. right. split; [exact Eh|].
      cbn [andb] in E2, E3, E4. apply Z.ltb_ge in E2.
      destruct (Z.eqb_spec (s_r (dur st)) r) as [Er|Er]; [|left; lia]. right. split; [exact Er|].
      cbn [andb] in E3, E4. apply Z.ltb_ge in E3. apply Z.eqb_neq in E4. lia. }
    destruct m; cbn [fst dur s_h s_r s_step]; [left; exact Hlt|(cbn [fst dur]; right; repeat split; reflexivity)|(cbn [fst dur]; right; repeat split; reflexivity)|left; exact Hlt].
Qed.

Lemma hrs_lt_le_trans a b c d e f g h i : hrs_lt a b c d e f -> hrs_le d e f g h i -> hrs_lt a b c g h i.
Proof. unfold hrs_lt, hrs_le. intros H1 [H2|(-> & -> & ->)]; [|exact H1]. unfold hrs_lt in H2. lia. Qed.

(* a step that leaves the durable height/round/step alone leaves the whole durable record alone *)
Lemma sstep_same_hrs st o : SInv st ->
  s_h (dur st) = s_h (dur (fst (sstep sign st o))) ->
  s_r (dur st) = s_r (dur (fst (sstep sign st o))) ->
  s_step (dur st) = s_step (dur (fst (sstep sign st o))) ->
  dur (fst (sstep sign st o)) = dur st.
Proof.
  unfold SInv. intro Hv. destruct o as [h r s b m|]; cbn [sstep]; [|reflexivity].
  unfold sign_step. rewrite Hv.
  destruct (h <? s_h (dur st)); [reflexivity|].
  destruct ((s_h (dur st) =? h) && (r <? s_r (dur st))); [reflexivity|].
  destruct ((s_h (dur st) =? h) && (s_r (dur st) =? r) && (s <? s_step (dur st))); [reflexivity|].
  destruct ((s_h (dur st) =? h) && (s_r (dur st) =? r) && (s_step (dur st) =? s)) eqn:E.
  - destruct (s_bytes (dur st)), (s_sig (dur st)); try reflexivity. destruct (bytes_eqb _ _); reflexivity.
  - destruct m; cbn [fst dur s_h s_r s_step]; try reflexivity;
      (intros F1 F2 F3; exfalso; rewrite F1, F2, F3, !Z.eqb_refl in E; discriminate).
Qed.

(* coverage is kept by later steps and established by every release *)
Lemma covers_step st o x : SInv st -> covers (dur st) x -> covers (dur (fst (sstep sign st o))) x.
Proof.
  intros Hv Hc. pose proof (sstep_dur_mono st o Hv) as Hm.
  destruct Hc as [Hlt|(E1 & E2 & E3 & E4 & E5)].
  - left. eapply hrs_lt_le_trans; eauto.
  - destruct Hm as [Hlt|(F1 & F2 & F3)].
    + left. rewrite E1, E2, E3. exact Hlt.
    + right. rewrite (sstep_same_hrs st o Hv F1 F2 F3). auto.
Qed.

Lemma release_covered st o x : SInv st -> released_of o (snd (sstep sign st o)) = Some x ->
  covers (dur (fst (sstep sign st o))) x.
Proof.
  unfold SInv. intros Hv. destruct o as [h r s b m|]; cbn [sstep]; [|discriminate].
  unfold sign_step. rewrite Hv.
  destruct (h <? s_h (dur st)); [discriminate|].
  destruct ((s_h (dur st) =? h) && (r <? s_r (dur st))); [discriminate|].
  destruct ((s_h (dur st) =? h) && (s_r (dur st) =? r) && (s <? s_step (dur st))); [discriminate|].
  destruct ((s_h (dur st) =? h) && (s_r (dur st) =? r) && (s_step (dur st) =? s)) eqn:E.
  - apply andb_true_iff in E as [E E3]. apply andb_true_iff in E as [E1 E2].
    apply Z.eqb_eq in E1, E2, E3.
    destruct (s_bytes (dur st)) as [lb|] eqn:Eb, (s_sig (dur st)) as [ls|] eqn:Es; try discriminate.
    destruct (bytes_eqb lb b) eqn:Eq; [|discriminate]. apply bytes_eqb_eq in Eq. subst lb.
    cbn [snd fst released_of]. intro Hx. injection Hx as <-. right. cbn [rl_h rl_r rl_s rl_b rl_sig]. auto.
  - destruct m; cbn [snd fst released_of]; try discriminate.
    intro Hx. injection Hx as <-. right. cbn. auto.
Qed.

(* every release of a run stays covered by the final durable record *)
Lemma srun_covers ops : forall st, SInv st ->
  let '(st', outs) := srun sign st ops in
  SInv st' /\ Forall (covers (dur st')) (releases outs) /\
  (forall x, covers (dur st) x -> covers (dur st') x).
Proof.
  induction ops as [|o t IH]; intros st Hv; cbn [srun].
  - split; [exact Hv|]. split; [constructor|auto].
  - destruct (sstep sign st o) as [st1 out] eqn:Es.
    assert (Hv1 : SInv st1) by (pose proof (sstep_inv st o Hv) as Hx; rewrite Es in Hx; exact Hx).
    specialize (IH st1 Hv1). destruct (srun sign st1 t) as [st2 outs]. destruct IH as (I1 & I2 & I3).
    split; [exact I1|]. split.
    + cbn [releases]. destruct (released_of o out) as [x|] eqn:Er; [|exact I2].
      constructor; [|exact I2]. apply I3.
      pose proof (release_covered st o x Hv) as Hc. rewrite Es in Hc. cbn [fst snd] in Hc. apply Hc. exact Er.
    + intros x Hc. apply I3. pose proof (covers_step st o x Hv Hc) as Hx. rewrite Es in Hx. exact Hx.
Qed.

(* y before-or-equal x: strictly earlier height/round/step, or the very same signed bytes *)
Definition rel_le (y x : rel) : Prop :=
  hrs_lt (rl_h y) (rl_r y) (rl_s y) (rl_h x) (rl_r x) (rl_s x) \/
  (rl_h y = rl_h x /\ rl_r y = rl_r x /\ rl_s y = rl_s x /\ rl_b y = rl_b x /\ rl_sig y = rl_sig x).

(* anything the durable record already covers is before-or-equal whatever is released next *)
Lemma release_after_covered st o z x : SInv st -> covers (dur st) z ->
  released_of o (snd (sstep sign st o)) = Some x -> rel_le z x.
Proof.
  unfold SInv. intros Hv Hc. destruct o as [h r s b m|]; cbn [sstep]; [|discriminate].
  unfold sign_step. rewrite Hv.
  destruct (Z.ltb_spec h (s_h (dur st))); [discriminate|].
  destruct ((s_h (dur st) =? h) && (r <? s_r (dur st))) eqn:E2; [discriminate|].
  destruct ((s_h (dur st) =? h) && (s_r (dur st) =? r) && (s <? s_step (dur st))) eqn:E3; [discriminate|].
  destruct ((s_h (dur st) =? h) && (s_r (dur st) =? r) && (s_step (dur st) =? s)) eqn:E4.
  - apply andb_true_iff in E4 as [E4 E43]. apply andb_true_iff in E4 as [E41 E42].
    apply Z.eqb_eq in E41, E42, E43.
    destruct (s_bytes (dur st)) as [lb|] eqn:Eb, (s_sig (dur st)) as [ls|] eqn:Es; try discriminate.
    destruct (bytes_eqb lb b) eqn:Eq; [|discriminate]. apply bytes_eqb_eq in Eq. subst lb.
    cbn [snd released_of]. intro Hx. injection Hx as <-. unfold rel_le. cbn [rl_h rl_r rl_s rl_b rl_sig].
    destruct Hc as [Hlt|(C1 & C2 & C3 & C4 & C5)].
    + left. rewrite <- E41, <- E42, <- E43. exact Hlt.
    + right. rewrite Eb in C4. rewrite Es in C5. injection C4 as C4. injection C5 as C5. repeat split; congruence.
  - assert (Hlt : hrs_lt (s_h (dur st)) (s_r (dur st)) (s_step (dur st)) h r s).
    { unfold hrs_lt. destruct (Z.eqb_spec (s_h (dur st)) h) as [Eh|Eh]; [|left; lia]. right. split; [exact Eh|].
      cbn [andb] in E2, E3, E4. apply Z.ltb_ge in E2.
      destruct (Z.eqb_spec (s_r (dur st)) r) as [Er|Er]; [|left; lia]. right. split; [exact Er|].
      cbn [andb] in E3, E4. apply Z.ltb_ge in E3. apply Z.eqb_neq in E4. lia. }
    destruct m; cbn [snd released_of]; try discriminate.
    intro Hx. injection Hx as <-. left. cbn [rl_h rl_r rl_s].
    destruct Hc as [Hc|(C1 & C2 & C3 & _)]; [|rewrite C1, C2, C3; exact Hlt].
    unfold hrs_lt in *. lia.
Qed.

Lemma srun_after_covered ops : forall st z, SInv st -> covers (dur st) z ->
  Forall (rel_le z) (releases (snd (srun sign st ops))).
Proof.
  induction ops as [|o t IH]; intros st z Hv Hc; cbn [srun]; [constructor|].
  destruct (sstep sign st o) as [st1 out] eqn:Es.
  assert (Hv1 : SInv st1) by (pose proof (sstep_inv st o Hv) as Hx; rewrite Es in Hx; exact Hx).
  assert (Hc1 : covers (dur st1) z) by (pose proof (covers_step st o z Hv Hc) as Hx; rewrite Es in Hx; exact Hx).
  specialize (IH st1 z Hv1 Hc1). destruct (srun sign st1 t) as [st2 outs]. cbn [snd releases] in *.
  destruct (released_of o out) as [x|] eqn:Er; [|exact IH].
  constructor; [|exact IH].
  pose proof (release_after_covered st o z x Hv Hc) as Hx. rewrite Es in Hx. cbn [snd] in Hx. apply Hx. exact Er.
Qed.

(* the released signatures, in order of release: each is before-or-equal every later one *)
Theorem srun_ordered ops : forall st, SInv st ->
  forall pre x post, releases (snd (srun sign st ops)) = pre ++ x :: post ->
  forall y, In y pre -> rel_le y x.
Proof.
  induction ops as [|o t IH]; intros st Hv pre x post; cbn [srun].
  - cbn. intro E. destruct pre; discriminate.
  - destruct (sstep sign st o) as [st1 out] eqn:Es.
    assert (Hv1 : SInv st1) by (pose proof (sstep_inv st o Hv) as Hx; rewrite Es in Hx; exact Hx).
    specialize (IH st1 Hv1).
    destruct (released_of o out) as [z|] eqn:Er.
    + pose proof (release_covered st o z Hv) as Hc. rewrite Es in Hc. cbn [fst snd] in Hc. specialize (Hc Er).
      pose proof (srun_after_covered t st1 z Hv1 Hc) as Hall.
      destruct (srun sign st1 t) as [st2 outs]. cbn [snd releases] in *. rewrite Er.
      intros E y Hy. destruct pre as [|p pre']; [contradiction|].
      cbn in E. injection E as <- E. destruct Hy as [<-|Hy]; [|eapply IH; eauto].
      rewrite E in Hall. apply Forall_forall with (x := x) in Hall; [exact Hall|]. apply in_or_app. right. left. reflexivity.
    + destruct (srun sign st1 t) as [st2 outs]. cbn [snd releases] in *. rewrite Er. apply IH.
Qed.

(* no equivocation: two released signatures for one height/round/step carry the same sign-bytes *)
Theorem no_double_sign ops x y :
  In x (releases (snd (srun sign signer0 ops))) -> In y (releases (snd (srun sign signer0 ops))) ->
  rl_h x = rl_h y -> rl_r x = rl_r y -> rl_s x = rl_s y -> rl_b x = rl_b y /\ rl_sig x = rl_sig y.
Proof.
  intros Hx Hy E1 E2 E3.
  assert (Hv : SInv signer0) by reflexivity.
  assert (Hcase : forall a b, In a (releases (snd (srun sign signer0 ops))) -> In b (releases (snd (srun sign signer0 ops))) ->
            a = b \/ rel_le a b \/ rel_le b a).
  { intros a b Ha Hb. apply in_split in Ha as (l1 & l2 & Ea).
    rewrite Ea in Hb. apply in_app_or in Hb as [Hb|[Hb|Hb]].
    - right. right. eapply (srun_ordered ops signer0 Hv l1 a l2 Ea). exact Hb.
    - left. auto.
    - apply in_split in Hb as (m1 & m2 & Eb). right. left.
      eapply (srun_ordered ops signer0 Hv (l1 ++ a :: m1) b m2).
      + rewrite Ea, Eb, <- app_assoc. reflexivity.
      + apply in_or_app. right. left. reflexivity. }
  destruct (Hcase x y Hx Hy) as [->|[H|H]]; [auto| |];
    (destruct H as [Hlt|(_ & _ & _ & Hb & Hs)]; [unfold hrs_lt in Hlt; lia|auto]).
Qed.

(* a fresh signature is released only with its record durable *)
Theorem durable_before_release st o x : SInv st ->
  released_of o (snd (sstep sign st o)) = Some x -> covers (dur (fst (sstep sign st o))) x.
Proof. exact (release_covered st o x). Qed.

End SignerProofs.
