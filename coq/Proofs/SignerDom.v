(* A signer record that already dominates everything a run signed is inert: running the same
   inputs again from a state whose signer record is at or beyond the signer the first run ended
   with takes the same path, ends in the same state, and leaves that signer record untouched - no
   fresh signature.  This is the replay of an intact log after a crash (C07), with the signer file
   as the crash left it; it makes a restart an identity step of the N-node system (C01). *)
From Coq Require Import List NArith ZArith Lia Bool ZifyBool.
From AnnVerif Require Import Base.Res Base.Bytes Model.VoteSet Model.ValSet Model.Node Proofs.NodeProofs Proofs.SgWalk.
Import ListNotations.
Open Scope Z_scope.

(* a <= b on signer positions *)
Definition sg_le (a b : signer) : Prop := hrs_lt (sg_h b) (sg_r b) (sg_s b) (sg_h a) (sg_r a) (sg_s a) = false.
Lemma sg_le_refl a : sg_le a a. Proof. unfold sg_le, hrs_lt. lia. Qed.
Lemma sg_le_trans a b c : sg_le a b -> sg_le b c -> sg_le a c. Proof. unfold sg_le, hrs_lt. lia. Qed.

Lemma sgrel_le h s o s' : sgrel h s o s' -> sg_le s s'.
Proof.
  induction 1 as [s|s x o s' Hx H IH|s r o s' Hlt H IH|s t r b o s' Hlt H IH|s t r b o s' Hh Hr Hs Hw H IH];
    try assumption; try apply sg_le_refl.
  - eapply sg_le_trans; [|exact IH]. unfold sg_le, hrs_lt in *. cbn in *. lia.
  - eapply sg_le_trans; [|exact IH]. unfold sg_le, hrs_lt in *. cbn in *. lia.
Qed.
Lemma SG_mono f : SG f -> forall n n' o, f n = Ok (n', o) -> sg_le (sg n) (sg n').
Proof. intros Hf n n' o E. eapply sgrel_le. apply (Hf _ _ _ E). Qed.

Definition dom (f : node -> M) : Prop :=
  forall n s n' o, f n = Ok (n', o) -> sg_le (sg n') s -> exists o', f (set_sg n s) = Ok (set_sg n' s, o').

Lemma dom_ret : dom ret. Proof. intros n s n' o E _. injection E as <- <-. eexists. reflexivity. Qed.
Lemma dom_emit x : dom (emit x). Proof. intros n s n' o E _. injection E as <- <-. eexists. reflexivity. Qed.
Lemma dom_bind f g : dom f -> dom g -> SG g -> dom (fun n => f n >>= g).
Proof.
  intros Hf Hg Sg n s n' o E Hle. apply bind_ok in E as (n1 & o1 & o2 & E1 & E2 & ->).
  assert (H1 : sg_le (sg n1) s) by (eapply sg_le_trans; [apply (SG_mono g Sg _ _ _ E2)|exact Hle]).
  destruct (Hf n s n1 o1 E1 H1) as (o1' & F1). destruct (Hg n1 s n' o2 E2 Hle) as (o2' & F2).
  exists (o1' ++ o2'). cbn beta. rewrite F1. cbn [bindM]. rewrite F2. reflexivity.
Qed.

(* with a signer at or beyond the position, nothing is signed afresh *)
Lemma not_fresh s h r st w : hrs_lt (sg_h s) (sg_r s) (sg_s s) h r st = false -> sign_check s h r st w <> SFresh.
Proof.
  unfold sign_check. intro H. destruct (hrs_lt h r st _ _ _) eqn:E1; [discriminate|].
  destruct (_ && _ && _) eqn:E2; [destruct w, (sg_what s); try discriminate; destruct (what_eqb _ _); discriminate|].
  exfalso. unfold hrs_lt in *. lia.
Qed.

Lemma dom_sign_add_vote t b : dom (sign_add_vote t b).
Proof.
  intros n s n' o. unfold sign_add_vote, is_validator. cbn [priv vals set_sg height round sg].
  destruct (negb _); [intros E _; injection E as <- <-; eexists; reflexivity|].
  set (st := if N.eqb t 1 then 2 else 3). intros E Hle.
  assert (Hp : hrs_lt (sg_h s) (sg_r s) (sg_s s) (height n) (round n) st = false).
  { unfold sg_le in Hle. revert E Hle. unfold sign_check.
    destruct (hrs_lt (height n) (round n) st _ _ _) eqn:E1.
    - intros E Hle. injection E as <- _. unfold hrs_lt in *. lia.
    - destruct (_ && _ && _) eqn:E2.
      + intros E Hle. assert (n' = n) by (destruct (sg_what (sg n)); [destruct (what_eqb _ _)|]; injection E as <- _; reflexivity).
        subst n'. unfold hrs_lt in *. lia.
      + intros E Hle. injection E as <- _. cbn [sg set_sg sg_h sg_r sg_s] in Hle. unfold hrs_lt in *. lia. }
  assert (En : set_sg n' s = set_sg n s).
  { revert E. destruct (sign_check (sg n) _ _ _ _); intro E; injection E as <- _; reflexivity. }
  rewrite En. pose proof (not_fresh s (height n) (round n) st (Some (t, b)) Hp) as Hnf.
  destruct (sign_check s _ _ _ _); try contradiction; eexists; reflexivity.
Qed.

Lemma dom_decide_proposal : dom decide_proposal.
Proof.
  intros n s n' o. unfold decide_proposal. cbn [lblock height last_commit votes round sg set_sg].
  destruct (negb _); [intros E _; injection E as <- <-; eexists; reflexivity|].
  destruct (pol_info (votes n)) as [[polr ?]|e|w]; try discriminate. intros E Hle.
  assert (Hp : hrs_lt (sg_h s) (sg_r s) (sg_s s) (height n) (round n) 1 = false).
  { unfold sg_le in Hle. revert E Hle. unfold sign_check.
    destruct (hrs_lt (height n) (round n) 1 _ _ _) eqn:E1.
    - intros E Hle. injection E as <- _. unfold hrs_lt in *. lia.
    - destruct (_ && _ && _) eqn:E2.
      + intros E Hle. assert (n' = n) by (destruct (sg_what (sg n)); injection E as <- _; reflexivity).
        subst n'. unfold hrs_lt in *. lia.
      + intros E Hle. injection E as <- _. cbn [sg set_sg sg_h sg_r sg_s] in Hle. unfold hrs_lt in *. lia. }
  assert (En : set_sg n' s = set_sg n s).
  { revert E. destruct (sign_check (sg n) _ _ _ _); intro E; injection E as <- _; reflexivity. }
  rewrite En. pose proof (not_fresh s (height n) (round n) 1 None Hp) as Hnf.
  destruct (sign_check s _ _ _ _); try contradiction; eexists; reflexivity.
Qed.

Ltac dom_leaf := let E := fresh "E" in let Hle := fresh "Hle" in
  intros E Hle; first [discriminate E | injection E as <- <-; eexists; reflexivity].
Ltac dom_call L := let E := fresh "E" in let Hle := fresh "Hle" in intros E Hle; exact (L _ _ _ _ E Hle).

Lemma SG_pure (k : node -> node) : (forall n, sg (k n) = sg n) -> SG (fun n => ret (k n)).
Proof. intros Hk n n' o E. injection E as <- <-. rewrite Hk. constructor. Qed.
Lemma SG_errtail (c : bool) e : SG (fun n => if c then ret n else emit (OErr e) n).
Proof. destruct c; [apply SG_ret|apply SG_emit; discriminate]. Qed.

Lemma dom_do_prevote : dom do_prevote.
Proof.
  intros n s n' o. unfold do_prevote. cbn [lblock pblock pparts set_sg].
  destruct (lblock n); [dom_call (dom_sign_add_vote 1 (blk_bid b))|].
  destruct (pblock n) as [b|]; [|dom_call (dom_sign_add_vote 1 nil_bid)].
  unfold pparts_bid. cbn [pparts set_sg].
  destruct (bk_valid b); [|dom_call (dom_sign_add_vote 1 nil_bid)].
  destruct (pparts n); intros E Hle; eapply dom_sign_add_vote; eauto.
Qed.

Lemma dom_enter_prevote h r : dom (enter_prevote h r).
Proof.
  intros n s n' o. unfold enter_prevote. cbn [height round step set_sg].
  destruct (negb (height n =? h) || (r <? round n) || ((round n =? r) && (4 <=? step n))); [dom_leaf|].
  revert n s n' o. apply (dom_bind do_prevote (fun n1 => ret (set_step n1 r 4))); [apply dom_do_prevote| |apply SG_pure; reflexivity].
  intros m t m' o. dom_leaf.
Qed.

Lemma dom_enter_propose h r : dom (enter_propose h r).
Proof.
  intros n s n' o. unfold enter_propose. cbn [height round step set_sg].
  destruct (negb (height n =? h) || (r <? round n) || ((round n =? r) && (3 <=? step n))); [dom_leaf|].
  revert n s n' o.
  apply (dom_bind (fun n => emit (OTimeout h r 3) n >>= (fun n1 =>
            match priv n1 with
            | None => ret n1
            | Some me => match proposer (vals n1) with
                         | Panic w => Panic w | Err e => Err e | Ok (None, _) => Panic 36
                         | Ok (Some a, vs') => let n2 := set_vals n1 vs' in if bytes_eqb a me then decide_proposal n2 else ret n2
                         end
            end))
          (fun n3 => let n4 := set_step n3 r 3 in
                     match is_proposal_complete n4 with
                     | Panic w => Panic w | Err e => Err e
                     | Ok true => enter_prevote h (round n4) n4 | Ok false => ret n4 end)).
  - apply dom_bind; [apply dom_emit| |].
    + intros n s n' o. cbn [priv vals set_sg].
      destruct (priv n) as [me|]; [|dom_leaf].
      destruct (proposer (vals n)) as [[[a|] vs']|e|w]; try (intros E; discriminate E).
      cbn zeta. destruct (bytes_eqb a me); [dom_call dom_decide_proposal|dom_leaf].
    + intros n n' o. destruct (priv n) as [me|]; [|apply SG_ret].
      destruct (proposer (vals n)) as [[[a|] vs']|e|w]; try discriminate. cbn zeta.
      destruct (bytes_eqb a me); [|apply (SG_pure (fun m => set_vals m vs')); reflexivity].
      intro E. apply (SG_at decide_proposal n (set_vals n vs')); [apply SG_decide_proposal|reflexivity|reflexivity|exact E].
  - intros n s n' o. cbn zeta. unfold is_proposal_complete. cbn [proposal pblock votes set_step set_sg round].
    destruct (proposal n) as [p|]; [|dom_leaf]. destruct (pblock n); [|dom_leaf].
    destruct (p_polround p <? 0); [dom_call (dom_enter_prevote h r)|].
    destruct (hv_prevotes (votes n) (p_polround p)) as [vs|]; [|intro E; discriminate E].
    destruct (vs_maj23 vs); [dom_call (dom_enter_prevote h r)|dom_leaf].
  - intros n n' o. cbn zeta. destruct (is_proposal_complete _) as [[|]| |]; try discriminate.
    + intro E. apply (SG_at (enter_prevote h (round (set_step n r 3))) n (set_step n r 3)); [apply SG_enter_prevote|reflexivity|reflexivity|exact E].
    + apply (SG_pure (fun m => set_step m r 3)). reflexivity.
Qed.

Lemma dom_enter_new_round h r : dom (enter_new_round h r).
Proof.
  intros n s n' o. unfold enter_new_round. cbn [height round step vals votes set_sg].
  destruct (negb (height n =? h) || (r <? round n) || ((round n =? r) && negb (step n =? 1))); [dom_leaf|].
  destruct (if round n <? r then increment (vals n) (r - round n) else Ok (vals n)) as [vs|e|w]; try (intro E; discriminate E).
  cbn zeta. destruct (r =? 0); cbn [votes set_vals set_step set_prop set_sg].
  - destruct (hv_set_round (votes n) (r + 1)) as [hv|e|w]; try (intro E; discriminate E). dom_call (dom_enter_propose h r).
  - destruct (hv_set_round (votes n) (r + 1)) as [hv|e|w]; try (intro E; discriminate E). dom_call (dom_enter_propose h r).
Qed.
Lemma dom_enter_new_round_open h r : dom (enter_new_round_open h r).
Proof.
  intros n s n' o. unfold enter_new_round_open. cbn [step set_sg].
  destruct (step n <? 8); [dom_call (dom_enter_new_round h r)|dom_leaf].
Qed.

Lemma dom_enter_prevote_wait h r : dom (enter_prevote_wait h r).
Proof.
  intros n s n' o. unfold enter_prevote_wait. cbn [height round step votes set_sg].
  destruct (negb (height n =? h) || (r <? round n) || ((round n =? r) && (5 <=? step n))); [dom_leaf|].
  destruct (negb (any23 (hv_prevotes (votes n) r))); [intro E; discriminate E|]. dom_leaf.
Qed.
Lemma dom_enter_precommit_wait h r : dom (enter_precommit_wait h r).
Proof.
  intros n s n' o. unfold enter_precommit_wait. cbn [height round step votes set_sg].
  destruct (negb (height n =? h) || (r <? round n) || ((round n =? r) && (7 <=? step n))); [dom_leaf|].
  destruct (negb (any23 (hv_precommits (votes n) r))); [intro E; discriminate E|]. dom_leaf.
Qed.

Lemma dom_enter_precommit h r : dom (enter_precommit h r).
Proof.
  intros n s n' o. unfold enter_precommit. cbn [height round step set_sg].
  destruct (negb (height n =? h) || (r <? round n) || ((round n =? r) && (6 <=? step n))); [dom_leaf|].
  revert n s n' o. apply dom_bind; [|intros m t m' o; dom_leaf|apply (SG_pure (fun m => set_step m r 6)); reflexivity].
  intros n s n' o. cbn [votes lblock pblock pparts proposal set_sg set_lock].
  destruct (maj23 (hv_prevotes (votes n) r)) as [b|]; [|dom_call (dom_sign_add_vote 2 nil_bid)].
  destruct (pol_info (votes n)) as [[polr ?]|e|w]; try (intro E; discriminate E).
  destruct (polr <? r); [intro E; discriminate E|].
  destruct (b_hash b) as [|x xs] eqn:Eh.
  - destruct (lblock n); dom_call (dom_sign_add_vote 2 nil_bid).
  - destruct (hashes_to (lblock n) (x :: xs)); [dom_call (dom_sign_add_vote 2 b)|].
    destruct (hashes_to (pblock n) (x :: xs)).
    + destruct (pblock n) as [pb|]; [|intro E; discriminate E]. destruct (negb (bk_valid pb)); [intro E; discriminate E|].
      cbn zeta. destruct (pparts n); dom_call (dom_sign_add_vote 2 b).
    + cbn zeta. cbn [pparts set_lock proposal].
      destruct (has_header (pparts n) (b_total b) (b_phash b)); [dom_call (dom_sign_add_vote 2 nil_bid)|].
      destruct (new_pset (b_total b) (b_phash b)) as [ps|e|w]; try (intro E; discriminate E).
      dom_call (dom_sign_add_vote 2 nil_bid).
Qed.

Lemma dom_finalize_commit c h : dom (finalize_commit c h).
Proof.
  intros n s n' o. unfold finalize_commit. cbn [height step votes commit_round pparts pblock st_vals priv sg set_sg].
  destruct (negb (height n =? h) || negb (step n =? 8)); [dom_leaf|].
  destruct (maj23 _) as [b|]; [|intro E; discriminate E].
  destruct (negb (has_header _ _ _)); [intro E; discriminate E|]. destruct (negb (hashes_to _ _)); [intro E; discriminate E|].
  destruct (pblock n) as [pb|]; [|intro E; discriminate E]. destruct (negb (bk_valid pb)); [intro E; discriminate E|].
  destruct (increment (st_vals n) 1) as [nv|e|w]; try (intro E; discriminate E).
  destruct (new_hvs (h + 1) (vals_of nv)) as [hv|e|w]; try (intro E; discriminate E).
  dom_leaf.
Qed.

Lemma dom_try_finalize_commit c h : dom (try_finalize_commit c h).
Proof.
  intros n s n' o. unfold try_finalize_commit. cbn [height votes commit_round pblock set_sg].
  destruct (negb (height n =? h)); [intro E; discriminate E|].
  destruct (maj23 _) as [b|]; [|dom_leaf]. destruct (b_hash b); [dom_leaf|].
  destruct (hashes_to _ _); [dom_call (dom_finalize_commit c h)|dom_leaf].
Qed.

Lemma dom_enter_commit c h cr : dom (enter_commit c h cr).
Proof.
  intros n s n' o. unfold enter_commit. cbn [height step votes lblock set_sg].
  destruct (negb (height n =? h) || (8 <=? step n)); [dom_leaf|].
  destruct (maj23 _) as [b|]; [|intro E; discriminate E]. cbn zeta.
  destruct (hashes_to (lblock n) (b_hash b)); cbn [pblock pparts proposal set_prop set_sg lblock].
  - destruct (hashes_to (lblock n) (b_hash b)); [dom_call (dom_try_finalize_commit c h)|].
    destruct (has_header _ _ _); [dom_call (dom_try_finalize_commit c h)|].
    destruct (new_pset _ _) as [ps|e|w]; try (intro E; discriminate E). dom_call (dom_try_finalize_commit c h).
  - destruct (hashes_to (pblock n) (b_hash b)); [dom_call (dom_try_finalize_commit c h)|].
    destruct (has_header _ _ _); [dom_call (dom_try_finalize_commit c h)|].
    destruct (new_pset _ _) as [ps|e|w]; try (intro E; discriminate E). dom_call (dom_try_finalize_commit c h).
Qed.

Lemma dom_set_proposal p sgn : dom (set_proposal p sgn).
Proof.
  intros n s n' o. unfold set_proposal. cbn [proposal height round step vals pblock set_sg].
  destruct (proposal n); [dom_leaf|].
  destruct (negb (p_height p =? height n) || negb (p_round p =? round n)); [dom_leaf|].
  destruct (8 <=? step n); [dom_leaf|]. destruct (negb _ && _); [dom_leaf|]. destruct (_ || _); [dom_leaf|].
  destruct (proposer (vals n)) as [[[a|] vs']|e|w]; try (intro E; discriminate E). cbn zeta.
  destruct (negb (bytes_eqb a sgn)); [dom_leaf|].
  destruct (new_pset _ _) as [ps|e|w]; try (intro E; discriminate E). dom_leaf.
Qed.

Lemma dom_add_part c h idx b dec ver : dom (add_part c h idx b dec ver).
Proof.
  intros n s n' o. unfold add_part. cbn [height pparts proposal pblock set_sg].
  destruct (negb (height n =? h)); [dom_leaf|]. destruct (pparts n) as [ps|]; [|dom_leaf].
  destruct (_ || _); [dom_leaf|]. destruct (existsb _ _); [dom_leaf|]. destruct (ver && _); [dom_leaf|].
  cbn zeta. destruct (Z.eqb _ _); [|dom_leaf].
  revert n s n' o. apply dom_bind; [|intros m t m' o; destruct dec; dom_leaf|apply SG_errtail].
  intros n s n' o. cbn [step set_prop set_sg round proposal pblock votes].
  destruct (step n =? 3).
  - unfold is_proposal_complete. cbn [proposal pblock votes set_prop set_sg].
    destruct (proposal n) as [p|]; [|dom_leaf].
    destruct (p_polround p <? 0); [dom_call (dom_enter_prevote h (round n))|].
    destruct (hv_prevotes (votes n) (p_polround p)) as [vs|]; [|intro E; discriminate E].
    destruct (vs_maj23 vs); [dom_call (dom_enter_prevote h (round n))|dom_leaf].
  - destruct (step n =? 8); [dom_call (dom_try_finalize_commit c h)|dom_leaf].
Qed.

Lemma dom_fun (f : node -> M) : dom f -> dom (fun n => f n). Proof. exact (fun H => H). Qed.

Lemma dom_add_vote_cs c v peer : c_skip_commit c = false -> dom (add_vote_cs c v peer).
Proof.
  intros Hskip n s n' o. unfold add_vote_cs. rewrite Hskip. cbn [height step last_commit votes set_sg].
  destruct (v_height v + 1 =? height n).
  - destruct (negb _); [dom_leaf|]. destruct (last_commit n) as [lc|]; [|dom_leaf].
    destruct (add_vote lc v) as [[[lc' added] code]|e|w]; try (intro E; discriminate E). cbn zeta.
    rewrite andb_false_r. cbn [andb].
    revert n s n' o. apply dom_bind; [|intros m t m' o; destruct (N.eqb code 0); dom_leaf|apply (SG_errtail (N.eqb code 0))].
    intros m t m' o. dom_leaf.
  - destruct (v_height v =? height n); [|dom_leaf]. cbn zeta.
    destruct (hv_add_vote (votes n) v peer) as [[[hv added] code]|e|w]; try (intro E; discriminate E).
    revert n s n' o. apply dom_bind; [|intros m t m' o; destruct (N.eqb code 0); dom_leaf|apply (SG_errtail (N.eqb code 0))].
    intros n s n' o. cbn [height votes lblock lround round proposal set_votes set_sg].
    destruct (negb added); [dom_leaf|].
    destruct (N.eqb (v_type v) 1).
    + (* prevote *)
      set (n2 := match lblock n with
                 | Some _ => if (lround n <? v_round v) && (v_round v <=? round n)
                             then match maj23 (hv_prevotes hv (v_round v)) with
                                  | Some b => if negb (hashes_to (lblock n) (b_hash b)) then set_lock (set_votes n hv) 0 None else set_votes n hv
                                  | None => set_votes n hv end
                             else set_votes n hv
                 | None => set_votes n hv end).
      set (n2s := match lblock n with
                  | Some _ => if (lround n <? v_round v) && (v_round v <=? round n)
                              then match maj23 (hv_prevotes hv (v_round v)) with
                                   | Some b => if negb (hashes_to (lblock n) (b_hash b)) then set_lock (set_votes (set_sg n s) hv) 0 None else set_votes (set_sg n s) hv
                                   | None => set_votes (set_sg n s) hv end
                              else set_votes (set_sg n s) hv
                  | None => set_votes (set_sg n s) hv end).
      assert (E2 : n2s = set_sg n2 s).
      { unfold n2s, n2. destruct (lblock n); [|reflexivity]. destruct (_ && _); [|reflexivity].
        destruct (maj23 _); [|reflexivity]. destruct (negb _); reflexivity. }
      rewrite E2. clearbody n2. clear n2s E2.
      generalize (height n) as hh. intro hh.
      cbn [round proposal votes set_sg].
      unfold any23_open. cbn [step set_sg].
      destruct ((round n2 <=? v_round v) && ((step n2 <? 8) && any23 (hv_prevotes hv (v_round v)))).
      * revert n2 s n' o. apply dom_bind; [apply dom_enter_new_round| |].
        -- intros m t m' o. cbn [votes set_sg]. destruct (maj23 _); [dom_call (dom_enter_precommit hh (v_round v))|].
           revert m t m' o. apply dom_bind; [apply dom_enter_prevote|apply dom_enter_prevote_wait|apply SG_wait1].
        -- intros m m' o. destruct (maj23 _); [apply SG_enter_precommit|].
           apply (SG_bind (enter_prevote hh (v_round v)) (enter_prevote_wait hh (v_round v))); [apply SG_enter_prevote|apply SG_wait1|apply keeps_frame, fsat_enter_prevote].
      * destruct (proposal n2) as [p|]; [|dom_leaf]. destruct (_ && _); [|dom_leaf].
        unfold is_proposal_complete. cbn [proposal pblock votes set_sg].
        destruct (proposal n2) as [p'|]; [|dom_leaf]. destruct (pblock n2); [|dom_leaf].
        destruct (p_polround p' <? 0); [dom_call (dom_enter_prevote hh (round n2))|].
        destruct (hv_prevotes (votes n2) (p_polround p')) as [vs|]; [|intro E; discriminate E].
        destruct (vs_maj23 vs); [dom_call (dom_enter_prevote hh (round n2))|dom_leaf].
    + destruct (N.eqb (v_type v) 2); [|intro E; discriminate E]. cbn zeta.
      generalize (height n) as hh. intro hh.
      destruct (maj23 (hv_precommits hv (v_round v))) as [b|].
      * destruct (b_hash b); [dom_call (dom_enter_new_round_open hh (v_round v + 1))|]. cbn [andb].
        revert n s n' o.
        apply (dom_bind (fun k => enter_new_round hh (v_round v) (set_votes k hv) >>= enter_precommit hh (v_round v) >>= enter_commit c hh (v_round v)) (fun n4 => ret n4));
          [|apply dom_ret|apply SG_ret].
        apply (dom_bind (fun k => enter_new_round hh (v_round v) (set_votes k hv) >>= enter_precommit hh (v_round v)) (enter_commit c hh (v_round v)));
          [|apply dom_enter_commit|apply SG_enter_commit].
        apply (dom_bind (fun k => enter_new_round hh (v_round v) (set_votes k hv)) (enter_precommit hh (v_round v)));
          [|apply dom_enter_precommit|apply SG_enter_precommit].
        intros m t m' o. dom_call (dom_enter_new_round hh (v_round v)).
      * unfold any23_open. cbn [step set_sg set_votes].
        destruct ((round n <=? v_round v) && ((step n <? 8) && any23 (hv_precommits hv (v_round v)))); [|dom_leaf].
        revert n s n' o.
        apply (dom_bind (fun k => enter_new_round hh (v_round v) (set_votes k hv) >>= enter_precommit hh (v_round v)) (enter_precommit_wait hh (v_round v)));
          [|apply dom_enter_precommit_wait|apply SG_wait2].
        apply (dom_bind (fun k => enter_new_round hh (v_round v) (set_votes k hv)) (enter_precommit hh (v_round v)));
          [|apply dom_enter_precommit|apply SG_enter_precommit].
        intros m t m' o. dom_call (dom_enter_new_round hh (v_round v)).
Qed.

Lemma dom_handle_timeout h r st : dom (handle_timeout h r st).
Proof.
  intros n s n' o. unfold handle_timeout. cbn [height round step set_sg].
  destruct (_ || _); [dom_leaf|].
  destruct (st =? 1); [dom_call (dom_enter_new_round h 0)|].
  destruct (st =? 3); [dom_call (dom_enter_prevote h r)|].
  destruct (st =? 5); [dom_call (dom_enter_precommit h r)|].
  destruct (st =? 7); [dom_call (dom_enter_new_round h (r + 1))|intro E; discriminate E].
Qed.

Theorem dom_handle c i : c_skip_commit c = false -> dom (handle c i).
Proof.
  intro Hs. destruct i; cbn [handle]; [apply dom_set_proposal|apply dom_add_part|apply dom_add_vote_cs; exact Hs|apply dom_handle_timeout].
Qed.

(* ---------- runs ---------- *)
Lemma run_sg_mono c (Hs : c_skip_commit c = false) ins : forall n n', run c ins n = Ok n' -> sg_le (sg n) (sg n').
Proof.
  induction ins as [|i t IH]; intros n n'; cbn [run]; [intro E; injection E as <-; apply sg_le_refl|].
  destruct (handle c i n) as [[n1 o1]| |] eqn:E1; try discriminate. intro E.
  eapply sg_le_trans; [apply (SG_mono _ (SG_handle c i Hs) _ _ _ E1)|apply IH; exact E].
Qed.

Theorem replay_inert c (Hs : c_skip_commit c = false) ins : forall n n' s,
  run c ins n = Ok n' -> sg_le (sg n') s -> run c ins (set_sg n s) = Ok (set_sg n' s).
Proof.
  induction ins as [|i t IH]; intros n n' s; cbn [run]; [intros E _; injection E as <-; reflexivity|].
  destruct (handle c i n) as [[n1 o1]| |] eqn:E1; try discriminate. intros E Hle.
  assert (H1 : sg_le (sg n1) s) by (eapply sg_le_trans; [apply (run_sg_mono c Hs t _ _ E)|exact Hle]).
  destruct (dom_handle c i Hs n s n1 o1 E1 H1) as (o' & ->). apply IH; assumption.
Qed.

Lemma set_sg_self n : set_sg n (sg n) = n. Proof. destruct n; reflexivity. Qed.

(* the node started the height with signer file s0, handled [ins] (all logged) and reached [n];
   it dies; restarted from the same durable parts with the signer file as the crash left it - the
   signer record of [n] - the replay of the log reaches exactly [n], signer record included *)
Theorem restart_is_identity c (Hs : c_skip_commit c = false) h vs lc me s0 ins n0 n :
  init_node h vs lc me s0 = Ok n0 -> run c ins n0 = Ok n ->
  exists n0', init_node h vs lc me (sg n) = Ok n0' /\ run c ins n0' = Ok n.
Proof.
  unfold init_node. destruct (new_hvs h (vals_of vs)) as [hv| |]; try discriminate.
  intros E0 Hr. injection E0 as <-. eexists. split; [reflexivity|].
  pose proof (replay_inert c Hs ins _ n (sg n) Hr (sg_le_refl _)) as H. rewrite set_sg_self in H. exact H.
Qed.
