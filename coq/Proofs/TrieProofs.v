(* Proofs about Model.Trie (C11): the trie is a function of its content.
   - well-formed tries (the shape invariant of the code: no empty short keys, no short node under
     a short node, full nodes with at least two children, values only behind a terminator);
   - insert and delete keep tries well-formed and change exactly the binding of their key;
   - two well-formed tries with the same bindings are the same tree (canonical form), hence any
     two operation histories that end in the same content give the same tree and the same root,
     whatever the hash function. *)
From Coq Require Import List NArith ZArith Bool Lia Arith.
From AnnVerif Require Import Base.Bytes Model.Rlp Model.Trie.
Import ListNotations.
Open Scope N_scope.

(* ---------- keys ---------- *)
Definition lt16 (x : N) : Prop := x < 16.
(* the tail of a key below some node: nibbles, then the terminator *)
Definition vkey (k : list N) : Prop := exists p, k = p ++ [16] /\ Forall lt16 p.

Lemma vkey_nonempty k : vkey k -> k <> [].
Proof. intros (p & -> & _). destruct p; discriminate. Qed.
Lemma vkey_cons x k : vkey (x :: k) -> (x = 16 /\ k = []) \/ (x < 16 /\ vkey k).
Proof.
  intros (p & E & Hp). destruct p as [|y p]; cbn in E.
  - injection E as -> ->. left. auto.
  - injection E as -> ->. inversion Hp; subst. right. split; [assumption|]. exists p. auto.
Qed.
Lemma vkey_cons_lt x k : x < 16 -> vkey k -> vkey (x :: k).
Proof. intros Hx (p & -> & Hp). exists (x :: p). split; [reflexivity|constructor; assumption]. Qed.
Lemma vkey_term : vkey [16].
Proof. exists []. split; [reflexivity|constructor]. Qed.
Lemma vkey_le16 k x : vkey k -> In x k -> x <= 16.
Proof.
  intros (p & -> & Hp) Hin. apply in_app_or in Hin as [Hin|[<-|[]]]; [|lia].
  rewrite Forall_forall in Hp. specialize (Hp x Hin). unfold lt16 in Hp. lia.
Qed.
Lemma vkey_skipn n k : vkey k -> (n < length k)%nat -> vkey (skipn n k).
Proof.
  revert k. induction n as [|n IH]; intros k Hk Hn; [exact Hk|].
  destruct k as [|x k]; [cbn in Hn; lia|]. cbn [skipn]. cbn in Hn.
  apply vkey_cons in Hk as [[-> ->]|[_ Hk]]; [cbn in Hn; lia|]. apply IH; [exact Hk|lia].
Qed.
(* the terminator occurs only at the end *)
Lemma vkey_term_last k n : vkey k -> (n < length k)%nat -> nth n k 0 = 16 -> S n = length k.
Proof.
  revert k. induction n as [|n IH]; intros k Hk Hn Hx; destruct k as [|x k]; try (cbn in Hn; lia); cbn in Hx.
  - subst x. apply vkey_cons in Hk as [[_ ->]|[Hlt _]]; [reflexivity|lia].
  - apply vkey_cons in Hk as [[_ ->]|[_ Hk]]; [cbn in Hn; lia|]. cbn in Hn. cbn [length]. f_equal. apply IH; [exact Hk|lia|exact Hx].
Qed.

(* ---------- well-formed tries ---------- *)
Inductive wf : node -> Prop :=
| wf_leaf p v : Forall lt16 p -> v <> [] -> wf (NShort (p ++ [16]) (NVal v))
| wf_ext k cs : k <> [] -> Forall lt16 k -> wf (NFull cs) -> wf (NShort k (NFull cs))
| wf_full cs : length cs = 17%nat -> (2 <= count_children cs)%nat ->
    (forall i c, nth_error cs i = Some c -> c <> NNil -> (i < 16)%nat -> wf c) ->
    (get_child cs 16 = NNil \/ exists v, get_child cs 16 = NVal v /\ v <> []) ->
    wf (NFull cs).
Definition wfr (n : node) : Prop := n = NNil \/ wf n.

(* ---------- children lists ---------- *)
Lemma set_child_length cs i c : length (set_child cs i c) = length cs.
Proof. revert i. induction cs as [|h t IH]; intros [|i]; cbn; auto. Qed.
Lemma get_set_same cs i c : (i < length cs)%nat -> get_child (set_child cs i c) i = c.
Proof. revert i. induction cs as [|h t IH]; intros [|i] H; cbn in *; try lia; [reflexivity|]. apply IH. lia. Qed.
Lemma get_set_other cs i j c : i <> j -> get_child (set_child cs i c) j = get_child cs j.
Proof.
  revert i j. induction cs as [|h t IH]; intros [|i] [|j] H; cbn; try reflexivity; try lia.
  apply IH. lia.
Qed.
Lemma nth_error_get cs i c : nth_error cs i = Some c -> get_child cs i = c.
Proof. revert i. induction cs as [|h t IH]; intros [|i]; cbn; try discriminate; [intro E; injection E; auto|apply IH]. Qed.
Lemma get_nth_error cs i : (i < length cs)%nat -> nth_error cs i = Some (get_child cs i).
Proof. revert i. induction cs as [|h t IH]; intros [|i] H; cbn in *; try lia; [reflexivity|]. apply IH. lia. Qed.

(* the nested loops of the model are child updates / child lookups *)
Lemma insert_full cs k0 kr v : (N.to_nat k0 < length cs)%nat ->
  insert (NFull cs) (k0 :: kr) v = NFull (set_child cs (N.to_nat k0) (insert (get_child cs (N.to_nat k0)) kr v)).
Proof.
  intro H. cbn [insert]. f_equal. generalize (N.to_nat k0) H. clear H.
  induction cs as [|c t IH]; intros i H; [cbn in H; lia|]. destruct i as [|i]; [reflexivity|].
  cbn [set_child get_child nth]. f_equal. apply IH. cbn in H. lia.
Qed.
Lemma lookup_full cs k0 kr : lookup (NFull cs) (k0 :: kr) = lookup (get_child cs (N.to_nat k0)) kr.
Proof.
  cbn [lookup]. generalize (N.to_nat k0).
  induction cs as [|c t IH]; intros i; [destruct i; reflexivity|]. destruct i as [|i]; [reflexivity|]. apply IH.
Qed.
Lemma delete_full cs k0 kr : (N.to_nat k0 < length cs)%nat ->
  delete (NFull cs) (k0 :: kr) = reduce_full (set_child cs (N.to_nat k0) (delete (get_child cs (N.to_nat k0)) kr)).
Proof.
  intro H. cbn [delete]. f_equal. generalize (N.to_nat k0) H. clear H.
  induction cs as [|c t IH]; intros i H; [cbn in H; lia|]. destruct i as [|i]; [reflexivity|].
  cbn [set_child get_child nth]. f_equal. apply IH. cbn in H. lia.
Qed.

(* ---------- prefixes ---------- *)
Lemma prefix_len_le_l a b : (prefix_len a b <= length a)%nat.
Proof. revert b. induction a as [|x a IH]; intros [|y b]; cbn; try lia. destruct (x =? y); [specialize (IH b)|]; lia. Qed.
Lemma prefix_len_le_r a b : (prefix_len a b <= length b)%nat.
Proof. revert b. induction a as [|x a IH]; intros [|y b]; cbn; try lia. destruct (x =? y); [specialize (IH b)|]; lia. Qed.
Lemma prefix_len_firstn a b : firstn (prefix_len a b) a = firstn (prefix_len a b) b.
Proof.
  revert b. induction a as [|x a IH]; intros [|y b]; cbn; try reflexivity.
  destruct (N.eqb_spec x y) as [->|]; [cbn; f_equal; apply IH|reflexivity].
Qed.
Lemma prefix_len_full a b : prefix_len a b = length b -> a = b ++ skipn (length b) a.
Proof.
  revert b. induction a as [|x a IH]; intros [|y b]; cbn; try reflexivity; try discriminate.
  destruct (N.eqb_spec x y) as [->|]; [|discriminate]. intro H. injection H as H. f_equal. apply IH. exact H.
Qed.
Lemma prefix_len_app b r : prefix_len (b ++ r) b = length b.
Proof. induction b as [|x b IH]; cbn; [destruct r; reflexivity|]. rewrite N.eqb_refl. f_equal. exact IH. Qed.
Lemma prefix_len_nth_neq a b : (prefix_len a b < length a)%nat -> (prefix_len a b < length b)%nat ->
  nth (prefix_len a b) a 0 <> nth (prefix_len a b) b 0.
Proof.
  revert b. induction a as [|x a IH]; intros [|y b]; cbn; try lia.
  destruct (N.eqb_spec x y) as [->|Hne]; cbn; [intros; apply IH; lia|intros _ _; exact Hne].
Qed.
Lemma prefix_len_sym a b : prefix_len a b = prefix_len b a.
Proof. revert b. induction a as [|x a IH]; intros [|y b]; cbn; try reflexivity. rewrite (N.eqb_sym y x). destruct (x =? y); [f_equal; apply IH|reflexivity]. Qed.

(* ---------- lookup after insert ---------- *)
Lemma lookup_short nk c key : lookup (NShort nk c) key =
  if Nat.ltb (length key) (length nk) then None
  else if Nat.eqb (prefix_len key nk) (length nk) then lookup c (skipn (length nk) key) else None.
Proof. reflexivity. Qed.

Lemma lookup_mk_short k v key : lookup (mk_short k v) key =
  match k with
  | [] => lookup v key
  | _ => lookup (NShort k v) key
  end.
Proof. destruct k; reflexivity. Qed.

Lemma skipn_all2 {A} (l : list A) n : (length l <= n)%nat -> skipn n l = [].
Proof. revert n. induction l as [|x l IH]; intros [|n] H; cbn in *; try reflexivity; try lia. apply IH. lia. Qed.

Lemma lookup_nils17 i key : lookup (get_child nils17 i) key = None.
Proof. unfold nils17, get_child. do 18 (destruct i as [|i]; [reflexivity|]). destruct i; reflexivity. Qed.

(* a key is found under a short node exactly when it extends the short key *)
Lemma lookup_short_app nk c r : lookup (NShort nk c) (nk ++ r) = lookup c r.
Proof.
  rewrite lookup_short. rewrite app_length.
  replace (length nk + length r <? length nk)%nat with false by (symmetry; apply Nat.ltb_ge; lia).
  rewrite prefix_len_app, Nat.eqb_refl. rewrite skipn_app, Nat.sub_diag, skipn_all. reflexivity.
Qed.

(* ---------- two-child branches (what insert builds when keys diverge) ---------- *)
Definition branch2 (i1 : N) (c1 : node) (i2 : N) (c2 : node) : list node :=
  set_child (set_child nils17 (N.to_nat i1) c1) (N.to_nat i2) c2.

Lemma nils17_length : length nils17 = 17%nat. Proof. reflexivity. Qed.
Lemma branch2_length i1 c1 i2 c2 : length (branch2 i1 c1 i2 c2) = 17%nat.
Proof. unfold branch2. rewrite !set_child_length. reflexivity. Qed.

Lemma get_nils17 i : get_child nils17 i = NNil.
Proof. unfold nils17, get_child. do 18 (destruct i as [|i]; [reflexivity|]). destruct i; reflexivity. Qed.

Lemma branch2_get i1 c1 i2 c2 j : i1 <= 16 -> i2 <= 16 -> i1 <> i2 ->
  get_child (branch2 i1 c1 i2 c2) j =
  if Nat.eqb j (N.to_nat i2) then c2 else if Nat.eqb j (N.to_nat i1) then c1 else NNil.
Proof.
  intros H1 H2 Hne. unfold branch2.
  destruct (Nat.eqb_spec j (N.to_nat i2)) as [->|Hj2].
  - apply get_set_same. rewrite set_child_length, nils17_length. lia.
  - rewrite get_set_other by lia. destruct (Nat.eqb_spec j (N.to_nat i1)) as [->|Hj1].
    + apply get_set_same. rewrite nils17_length. lia.
    + rewrite get_set_other by lia. apply get_nils17.
Qed.

Lemma count_set_nil_to cs i c : (i < length cs)%nat -> get_child cs i = NNil -> c <> NNil ->
  count_children (set_child cs i c) = S (count_children cs).
Proof.
  unfold count_children. revert i. induction cs as [|h t IH]; intros [|i] Hl Hg Hc; cbn in *; try lia.
  - subst h. destruct c; try contradiction; reflexivity.
  - destruct h; cbn; rewrite IH; auto; lia.
Qed.
Lemma count_set_keep cs i c : (i < length cs)%nat -> get_child cs i <> NNil -> c <> NNil ->
  count_children (set_child cs i c) = count_children cs.
Proof.
  unfold count_children. revert i. induction cs as [|h t IH]; intros [|i] Hl Hg Hc; cbn in *; try lia.
  - destruct h; try contradiction; destruct c; try contradiction; reflexivity.
  - destruct h; cbn; rewrite IH; auto; lia.
Qed.
Lemma count_nils17 : count_children nils17 = 0%nat. Proof. reflexivity. Qed.

Lemma branch2_count i1 c1 i2 c2 : i1 <= 16 -> i2 <= 16 -> i1 <> i2 -> c1 <> NNil -> c2 <> NNil ->
  count_children (branch2 i1 c1 i2 c2) = 2%nat.
Proof.
  intros H1 H2 Hne Hc1 Hc2. unfold branch2.
  rewrite count_set_nil_to; [| rewrite set_child_length, nils17_length; lia | rewrite get_set_other by lia; apply get_nils17 | exact Hc2].
  rewrite count_set_nil_to; [reflexivity | rewrite nils17_length; lia | apply get_nils17 | exact Hc1].
Qed.

(* what sits below a diverging nibble: the rest of the key and its subtree *)
Definition tail_ok (x : N) (c : node) : Prop :=
  c <> NNil /\ ((x = 16 /\ exists v, c = NVal v /\ v <> []) \/ (x < 16 /\ wf c)).

Lemma branch2_wf i1 c1 i2 c2 : i1 <> i2 -> tail_ok i1 c1 -> tail_ok i2 c2 -> wf (NFull (branch2 i1 c1 i2 c2)).
Proof.
  intros Hne (Hn1 & T1) (Hn2 & T2).
  assert (H1 : i1 <= 16) by (destruct T1 as [[-> _]|[H _]]; lia).
  assert (H2 : i2 <= 16) by (destruct T2 as [[-> _]|[H _]]; lia).
  apply wf_full.
  - apply branch2_length.
  - rewrite branch2_count by assumption. lia.
  - intros i c Hnth Hc Hi. apply nth_error_get in Hnth. rewrite branch2_get in Hnth by assumption.
    destruct (Nat.eqb_spec i (N.to_nat i2)) as [E|_].
    + subst c. destruct T2 as [[-> _]|[_ W]]; [lia|exact W].
    + destruct (Nat.eqb_spec i (N.to_nat i1)) as [E|_]; [|subst c; contradiction].
      subst c. destruct T1 as [[-> _]|[_ W]]; [lia|exact W].
  - rewrite branch2_get by assumption.
    destruct (Nat.eqb_spec 16 (N.to_nat i2)) as [E|_].
    + destruct T2 as [[_ (v & -> & Hv)]|[Hlt _]]; [right; eauto|lia].
    + destruct (Nat.eqb_spec 16 (N.to_nat i1)) as [E|_]; [|left; reflexivity].
      destruct T1 as [[_ (v & -> & Hv)]|[Hlt _]]; [right; eauto|lia].
Qed.

(* the subtree hung below a diverging nibble by insert: mk_short of the rest *)
Lemma tail_leaf x rest v : vkey (x :: rest) -> v <> [] -> tail_ok x (mk_short rest (NVal v)).
Proof.
  intros Hk Hv. apply vkey_cons in Hk as [[-> ->]|[Hx (p & -> & Hp)]].
  - split; [discriminate|]. left. split; [reflexivity|]. exists v. auto.
  - assert (Hne : p ++ [16] <> []) by (destruct p; discriminate).
    unfold mk_short. destruct (p ++ [16]) eqn:E; [contradiction|]. rewrite <- E.
    split; [discriminate|]. right. split; [exact Hx|]. apply wf_leaf; assumption.
Qed.

(* ---------- insert keeps tries well-formed ---------- *)
Lemma insert_short nk c k v : k <> [] ->
  insert (NShort nk c) k v =
  let m := prefix_len k nk in
  if Nat.eqb m (length nk) then NShort nk (insert c (skipn m k) v)
  else
    let b2 := branch2 (nth m nk 0) (mk_short (skipn (S m) nk) c) (nth m k 0) (mk_short (skipn (S m) k) v) in
    if Nat.eqb m 0 then NFull b2 else NShort (firstn m k) (NFull b2).
Proof. destruct k; [contradiction|reflexivity]. Qed.
Lemma insert_nil k v : k <> [] -> insert NNil k v = NShort k v.
Proof. destruct k; [contradiction|reflexivity]. Qed.
Lemma insert_empty n v : insert n [] v = v.
Proof. destruct n; reflexivity. Qed.

Lemma vkey_firstn_lt16 k m : vkey k -> (m < length k)%nat -> Forall lt16 (firstn m k).
Proof.
  revert k. induction m as [|m IH]; intros k Hk Hm; [constructor|].
  destruct k as [|x k]; [cbn in Hm; lia|]. cbn [firstn]. cbn in Hm.
  apply vkey_cons in Hk as [[_ ->]|[Hx Hk]]; [cbn in Hm; lia|]. constructor; [exact Hx|]. apply IH; [exact Hk|lia].
Qed.
Lemma skipn_nth_cons {A} (l : list A) m d : (m < length l)%nat -> skipn m l = nth m l d :: skipn (S m) l.
Proof. revert m. induction l as [|x l IH]; intros [|m] H; cbn in *; try lia; [reflexivity|]. apply IH. lia. Qed.
Lemma lt16_no_term k : Forall lt16 k -> ~ In 16 k.
Proof. intros H Hin. rewrite Forall_forall in H. specialize (H 16 Hin). unfold lt16 in H. lia. Qed.
Lemma vkey_has_term k : vkey k -> In 16 k.
Proof. intros (p & -> & _). apply in_or_app. right. left. reflexivity. Qed.
Lemma firstn_in {A} (l : list A) m x : In x (firstn m l) -> In x l.
Proof. revert m. induction l as [|y l IH]; intros [|m]; cbn; try tauto. intros [->|H]; [left; reflexivity|right; eapply IH; eauto]. Qed.
Lemma Forall_skipn {A} (P : A -> Prop) l m : Forall P l -> Forall P (skipn m l).
Proof. revert m. induction l as [|x l IH]; intros [|m] H; cbn; auto. inversion H; subst. apply IH. assumption. Qed.
Lemma Forall_nth_lt {A} (P : A -> Prop) l m d : Forall P l -> (m < length l)%nat -> P (nth m l d).
Proof. intros H Hm. rewrite Forall_forall in H. apply H. apply nth_In. exact Hm. Qed.

(* a valid key that runs along a short key either parts from it strictly inside both, or covers it *)
Lemma diverge_inside k nk : vkey k -> (vkey nk \/ (nk <> [] /\ Forall lt16 nk)) ->
  prefix_len k nk <> length nk -> (prefix_len k nk < length nk)%nat /\ (prefix_len k nk < length k)%nat.
Proof.
  intros Hk Hnk Hne. pose proof (prefix_len_le_r k nk) as Hr. pose proof (prefix_len_le_l k nk) as Hl.
  split; [lia|]. destruct (Nat.eq_dec (prefix_len k nk) (length k)) as [E|]; [exfalso|lia].
  (* k would be a proper prefix of nk *)
  rewrite prefix_len_sym in E. pose proof (prefix_len_full nk k E) as Hpre.
  pose proof (vkey_has_term k Hk) as Hin.
  destruct Hnk as [Hv|[_ Hlt]].
  - (* the terminator of k sits inside nk, so it ends nk *)
    destruct Hk as (p & -> & Hp). rewrite app_length in *. cbn [length] in *.
    assert (Hn : nth (length p) nk 0 = 16).
    { rewrite Hpre. rewrite app_nth1 by (rewrite app_length; cbn; lia). rewrite app_nth2 by lia. rewrite Nat.sub_diag. reflexivity. }
    assert (Hlen : (length p < length nk)%nat).
    { rewrite Hpre, app_length, app_length. cbn. lia. }
    pose proof (vkey_term_last nk (length p) Hv Hlen Hn) as Hs.
    apply Hne. rewrite prefix_len_sym. rewrite E. lia.
  - apply (lt16_no_term nk Hlt). rewrite Hpre. apply in_or_app. left. exact Hin.
Qed.

Definition keeps_full (n n' : node) : Prop := forall cs, n = NFull cs -> exists cs', n' = NFull cs'.

Theorem insert_wf : forall n, wf n -> forall k v, vkey k -> v <> [] ->
  wf (insert n k (NVal v)) /\ keeps_full n (insert n k (NVal v)).
Proof.
  induction 1 as [p u Hp Hu|nk cs Hne Hlt Hfull IHfull|cs Hlen Hcnt Hch IHch H16]; intros k v Hk Hv.
  - (* leaf *)
    split; [|intros cs E; discriminate].
    pose proof (vkey_nonempty k Hk) as Hkne. rewrite (insert_short _ _ _ _ Hkne). cbn zeta.
    set (nk := p ++ [16]) in *. assert (Hnk : vkey nk) by (exists p; auto).
    destruct (Nat.eqb_spec (prefix_len k nk) (length nk)) as [E|E].
    + (* same key: the value is replaced *)
      pose proof (prefix_len_full k nk E) as Hpre.
      assert (Hlenk : length k = length nk).
      { assert (Hn : nth (length p) k 0 = 16).
        { rewrite Hpre. unfold nk. rewrite app_nth1 by (rewrite app_length; cbn; lia). rewrite app_nth2 by lia. rewrite Nat.sub_diag. reflexivity. }
        assert (Hl : (length p < length k)%nat) by (rewrite Hpre, app_length; unfold nk; rewrite app_length; cbn; lia).
        pose proof (vkey_term_last k (length p) Hk Hl Hn). unfold nk. rewrite app_length. cbn. lia. }
      rewrite E. rewrite skipn_all2 by lia. rewrite insert_empty. apply wf_leaf; assumption.
    + destruct (diverge_inside k nk Hk (or_introl Hnk) E) as [Hm1 Hm2].
      set (m := prefix_len k nk) in *.
      assert (Hneq : nth m nk 0 <> nth m k 0).
      { intro Heq. apply (prefix_len_nth_neq k nk Hm2 Hm1). symmetry. exact Heq. }
      assert (T1 : tail_ok (nth m nk 0) (mk_short (skipn (S m) nk) (NVal u))).
      { apply tail_leaf; [|exact Hu]. rewrite <- skipn_nth_cons by exact Hm1. apply vkey_skipn; assumption. }
      assert (T2 : tail_ok (nth m k 0) (mk_short (skipn (S m) k) (NVal v))).
      { apply tail_leaf; [|exact Hv]. rewrite <- skipn_nth_cons by exact Hm2. apply vkey_skipn; assumption. }
      pose proof (branch2_wf _ _ _ _ Hneq T1 T2) as Wb.
      destruct (Nat.eqb_spec m 0) as [E0|E0]; [exact Wb|].
      apply wf_ext; [destruct k; [contradiction|]; destruct m; [contradiction|discriminate]|apply vkey_firstn_lt16; assumption|exact Wb].
  - (* extension *)
    split; [|intros cs0 E; discriminate].
    pose proof (vkey_nonempty k Hk) as Hkne. rewrite (insert_short _ _ _ _ Hkne). cbn zeta.
    destruct (Nat.eqb_spec (prefix_len k nk) (length nk)) as [E|E].
    + pose proof (prefix_len_full k nk E) as Hpre.
      assert (Hlk : (length nk < length k)%nat).
      { destruct (Nat.lt_ge_cases (length nk) (length k)) as [|Hge]; [assumption|exfalso].
        rewrite skipn_all2 in Hpre by lia. rewrite app_nil_r in Hpre. subst k.
        apply (lt16_no_term nk Hlt). apply vkey_has_term. exact Hk. }
      rewrite E. pose proof (vkey_skipn (length nk) k Hk Hlk) as Hr.
      destruct (IHfull (skipn (length nk) k) v Hr Hv) as [W Kf]. destruct (Kf cs eq_refl) as (cs' & Ecs').
      rewrite Ecs' in *. apply wf_ext; assumption.
    + destruct (diverge_inside k nk Hk (or_intror (conj Hne Hlt)) E) as [Hm1 Hm2].
      set (m := prefix_len k nk) in *.
      assert (Hneq : nth m nk 0 <> nth m k 0).
      { intro Heq. apply (prefix_len_nth_neq k nk Hm2 Hm1). symmetry. exact Heq. }
      assert (T1 : tail_ok (nth m nk 0) (mk_short (skipn (S m) nk) (NFull cs))).
      { assert (Hx : nth m nk 0 < 16) by (apply (Forall_nth_lt lt16); assumption).
        unfold mk_short. destruct (skipn (S m) nk) as [|y r] eqn:Er.
        - split; [discriminate|]. right. split; assumption.
        - split; [discriminate|]. right. split; [exact Hx|]. apply wf_ext; [discriminate| |exact Hfull].
          rewrite <- Er. apply Forall_skipn. exact Hlt. }
      assert (T2 : tail_ok (nth m k 0) (mk_short (skipn (S m) k) (NVal v))).
      { apply tail_leaf; [|exact Hv]. rewrite <- skipn_nth_cons by exact Hm2. apply vkey_skipn; assumption. }
      pose proof (branch2_wf _ _ _ _ Hneq T1 T2) as Wb.
      destruct (Nat.eqb_spec m 0) as [E0|E0]; [exact Wb|].
      apply wf_ext; [destruct k; [contradiction|]; destruct m; [contradiction|discriminate]|apply vkey_firstn_lt16; assumption|exact Wb].
  - (* full node *)
    destruct k as [|k0 kr]; [exfalso; exact (vkey_nonempty _ Hk eq_refl)|].
    assert (Hk0 : k0 <= 16) by (apply (vkey_le16 _ _ Hk); left; reflexivity).
    assert (Hi : (N.to_nat k0 < length cs)%nat) by lia.
    rewrite (insert_full cs k0 kr (NVal v) Hi).
    split; [|intros cs0 _; eexists; reflexivity].
    set (i := N.to_nat k0) in *. set (c' := insert (get_child cs i) kr (NVal v)).
    assert (Hc' : c' <> NNil /\ ((k0 = 16 /\ c' = NVal v) \/ (k0 < 16 /\ wf c'))).
    { apply vkey_cons in Hk as [[-> ->]|[Hlt Hkr]].
      - unfold c'. rewrite insert_empty. split; [discriminate|left; auto].
      - assert (Hi16 : (i < 16)%nat) by (unfold i; lia).
        destruct (get_child cs i) as [|w|nk c|cs1] eqn:Eg.
        + unfold c'. rewrite insert_nil by (apply vkey_nonempty; exact Hkr).
          split; [discriminate|right]. split; [exact Hlt|]. destruct Hkr as (p & -> & Hp). apply wf_leaf; assumption.
        + exfalso. pose proof (Hch i (NVal w) ltac:(rewrite get_nth_error by exact Hi; rewrite Eg; reflexivity) ltac:(discriminate) Hi16) as W. inversion W.
        + assert (Hn : nth_error cs i = Some (NShort nk c)) by (rewrite get_nth_error by exact Hi; rewrite Eg; reflexivity).
          destruct (IHch i _ Hn ltac:(discriminate) Hi16 kr v Hkr Hv) as [W _].
          split; [|right; split; [exact Hlt|exact W]]. unfold c'. intro Ec. rewrite Ec in W. inversion W.
        + assert (Hn : nth_error cs i = Some (NFull cs1)) by (rewrite get_nth_error by exact Hi; rewrite Eg; reflexivity).
          destruct (IHch i _ Hn ltac:(discriminate) Hi16 kr v Hkr Hv) as [W _].
          split; [|right; split; [exact Hlt|exact W]]. unfold c'. intro Ec. rewrite Ec in W. inversion W. }
    destruct Hc' as [Hcn Hc'].
    apply wf_full.
    + rewrite set_child_length. exact Hlen.
    + destruct (get_child cs i) eqn:Eg0.
      * rewrite count_set_nil_to; [lia|exact Hi|exact Eg0|exact Hcn].
      * rewrite count_set_keep; [exact Hcnt|exact Hi|rewrite Eg0; discriminate|exact Hcn].
      * rewrite count_set_keep; [exact Hcnt|exact Hi|rewrite Eg0; discriminate|exact Hcn].
      * rewrite count_set_keep; [exact Hcnt|exact Hi|rewrite Eg0; discriminate|exact Hcn].
    + intros j c Hn Hc Hj. apply nth_error_get in Hn. destruct (Nat.eq_dec i j) as [<-|Hij].
      * rewrite get_set_same in Hn by exact Hi. subst c. destruct Hc' as [[-> _]|[_ W]]; [unfold i in Hj; lia|exact W].
      * rewrite get_set_other in Hn by exact Hij. apply (Hch j c); [|exact Hc|exact Hj].
        rewrite get_nth_error by lia. rewrite Hn. reflexivity.
    + destruct (Nat.eq_dec i 16) as [Ei|Ei].
      * rewrite Ei. rewrite get_set_same by lia. destruct Hc' as [[_ ->]|[Hlt _]]; [right; eauto|unfold i in Ei; lia].
      * rewrite get_set_other by exact Ei. exact H16.
Qed.

(* ================= lookup after insert: insert changes exactly the binding of its key ================= *)

Lemma prefix_len_app_l a q b : prefix_len (a ++ q) (a ++ b) = (length a + prefix_len q b)%nat.
Proof. induction a as [|x a IH]; cbn; [reflexivity|]. rewrite N.eqb_refl. f_equal. exact IH. Qed.

(* a short node whose key is split in two: looking up below the first part *)
Lemma lookup_short_split a b c q : a ++ b <> [] ->
  lookup (NShort (a ++ b) c) (a ++ q) = lookup (mk_short b c) q.
Proof.
  intros Hne. destruct b as [|y b].
  - rewrite app_nil_r. cbn [mk_short]. apply lookup_short_app.
  - rewrite lookup_short, !app_length, prefix_len_app_l. cbn [mk_short]. rewrite lookup_short.
    replace (length a + length q <? length a + length (y :: b))%nat with (length q <? length (y :: b))%nat
      by (destruct (Nat.ltb_spec (length q) (length (y :: b))); symmetry; [apply Nat.ltb_lt|apply Nat.ltb_ge]; lia).
    destruct (length q <? length (y :: b))%nat; [reflexivity|].
    replace (length a + prefix_len q (y :: b) =? length a + length (y :: b))%nat with (prefix_len q (y :: b) =? length (y :: b))%nat
      by (destruct (Nat.eqb_spec (prefix_len q (y :: b)) (length (y :: b))); symmetry; [apply Nat.eqb_eq|apply Nat.eqb_neq]; lia).
    destruct (prefix_len q (y :: b) =? length (y :: b))%nat; [|reflexivity].
    f_equal. rewrite skipn_app. rewrite (skipn_all2 a) by lia. cbn [app]. f_equal. lia.
Qed.

(* a key that does not run along the whole short key is not below it *)
Lemma lookup_short_miss nk c q : prefix_len q nk <> length nk -> lookup (NShort nk c) q = None.
Proof.
  intro H. rewrite lookup_short. destruct (length q <? length nk)%nat; [reflexivity|].
  destruct (Nat.eqb_spec (prefix_len q nk) (length nk)); [contradiction|reflexivity].
Qed.

(* two valid keys, one running along the whole of the other, are equal *)
Lemma vkey_prefix_eq q r : vkey q -> vkey r -> prefix_len q r = length r -> q = r.
Proof.
  intros Hq Hr E. pose proof (prefix_len_full q r E) as Hpre.
  destruct Hr as (p & -> & Hp). rewrite app_length in *. cbn [length] in *.
  assert (Hn : nth (length p) q 0 = 16).
  { rewrite Hpre. rewrite app_nth1 by (rewrite app_length; cbn; lia). rewrite app_nth2 by lia. rewrite Nat.sub_diag. reflexivity. }
  assert (Hl : (length p < length q)%nat) by (rewrite Hpre, !app_length; cbn; lia).
  pose proof (vkey_term_last q (length p) Hq Hl Hn) as Hs.
  rewrite Hpre. rewrite skipn_all2 by lia. now rewrite app_nil_r.
Qed.

(* what a leaf hung below a diverging nibble answers *)
Lemma lookup_tail_leaf x rest v q : vkey (x :: rest) -> vkey (x :: q) ->
  lookup (mk_short rest (NVal v)) q = if list_eq_dec N.eq_dec q rest then Some v else None.
Proof.
  intros Hk Hq. destruct (list_eq_dec N.eq_dec q rest) as [->|Hne].
  - destruct rest as [|y r]; [reflexivity|]. cbn [mk_short].
    replace (y :: r) with ((y :: r) ++ []) at 2 by apply app_nil_r. now rewrite lookup_short_app.
  - apply vkey_cons in Hk as [[-> ->]|[Hx Hr]].
    + (* the key ended at the branch: so does q *)
      apply vkey_cons in Hq as [[_ ->]|[Hlt _]]; [contradiction|lia].
    + apply vkey_cons in Hq as [[-> _]|[_ Hq']]; [lia|].
      destruct rest as [|y r]; [exfalso; exact (vkey_nonempty _ Hr eq_refl)|]. cbn [mk_short].
      apply lookup_short_miss. intro E. apply Hne. now apply vkey_prefix_eq.
Qed.

Lemma firstn_skipn_nth {A} (l : list A) m d : (m < length l)%nat ->
  l = firstn m l ++ nth m l d :: skipn (S m) l.
Proof. intro H. rewrite <- (skipn_nth_cons l m d H). symmetry. apply firstn_skipn. Qed.

Lemma prefix_len_lt_split q nk m : prefix_len q nk = m -> (m < length nk)%nat -> (m < length q)%nat ->
  q = firstn m nk ++ nth m q 0 :: skipn (S m) q /\ nth m q 0 <> nth m nk 0.
Proof.
  intros E Hm Hq. split.
  - rewrite <- E at 1. rewrite <- prefix_len_firstn. rewrite E. now apply firstn_skipn_nth.
  - subst m. now apply prefix_len_nth_neq.
Qed.

(* a valid key is never a proper prefix of, nor shorter than the common part with, anything it
   diverges from before its end: the position of divergence is inside it *)
Lemma vkey_diverge_pos q pre : vkey q -> Forall lt16 pre -> (prefix_len q pre < length q)%nat.
Proof.
  intros Hq Hp. pose proof (prefix_len_le_l q pre). pose proof (prefix_len_le_r q pre).
  destruct (Nat.eq_dec (prefix_len q pre) (length q)) as [E|]; [exfalso|lia].
  rewrite prefix_len_sym in E. pose proof (prefix_len_full pre q E) as Hpre.
  apply (lt16_no_term pre Hp). rewrite Hpre. apply in_or_app. left. now apply vkey_has_term.
Qed.

(* the result of a divergence, looked up *)
Lemma lookup_branch_point pre i1 c1 i2 c2 q :
  Forall lt16 pre -> i1 <= 16 -> i2 <= 16 -> i1 <> i2 -> vkey q ->
  lookup (if Nat.eqb (length pre) 0 then NFull (branch2 i1 c1 i2 c2) else NShort pre (NFull (branch2 i1 c1 i2 c2))) q =
  if Nat.eqb (prefix_len q pre) (length pre) then
    let x := nth (length pre) q 0 in
    let r := skipn (S (length pre)) q in
    if x =? i2 then lookup c2 r else if x =? i1 then lookup c1 r else None
  else None.
Proof.
  intros Hp H1 H2 Hne Hq.
  pose proof (vkey_diverge_pos q pre Hq Hp) as Hpos.
  destruct (Nat.eqb_spec (prefix_len q pre) (length pre)) as [E|E].
  - pose proof (prefix_len_full q pre E) as Hpre. rewrite E in Hpos.
    rewrite (skipn_nth_cons q (length pre) 0 Hpos) in Hpre.
    set (x := nth (length pre) q 0) in *. set (r := skipn (S (length pre)) q) in *. cbn zeta.
    assert (Hx : x <= 16) by (apply (vkey_le16 q x Hq); unfold x; apply nth_In; exact Hpos).
    assert (Hl : lookup (NFull (branch2 i1 c1 i2 c2)) (x :: r) =
                 if x =? i2 then lookup c2 r else if x =? i1 then lookup c1 r else None).
    { rewrite lookup_full, branch2_get by assumption.
      destruct (N.eqb_spec x i2) as [->|Hn2]; [now rewrite Nat.eqb_refl|].
      replace (N.to_nat x =? N.to_nat i2)%nat with false by (symmetry; apply Nat.eqb_neq; lia).
      destruct (N.eqb_spec x i1) as [->|Hn1]; [now rewrite Nat.eqb_refl|].
      replace (N.to_nat x =? N.to_nat i1)%nat with false by (symmetry; apply Nat.eqb_neq; lia).
      reflexivity. }
    destruct (Nat.eqb_spec (length pre) 0) as [E0|E0].
    + destruct pre; [|discriminate]. cbn [app] in Hpre. rewrite Hpre. exact Hl.
    + rewrite Hpre. rewrite lookup_short_app. exact Hl.
  - destruct (Nat.eqb_spec (length pre) 0) as [E0|E0].
    + destruct pre; [|discriminate]. exfalso. apply E. destruct q; reflexivity.
    + now apply lookup_short_miss.
Qed.

Lemma prefix_len_app_full q a b : prefix_len q (a ++ b) = length (a ++ b) -> prefix_len q a = length a.
Proof.
  intro E. pose proof (prefix_len_full q (a ++ b) E) as Hpre. rewrite Hpre, <- app_assoc. apply prefix_len_app.
Qed.

Lemma lookup_nil_insert k v q : vkey k -> vkey q ->
  lookup (NShort k (NVal v)) q = if list_eq_dec N.eq_dec q k then Some v else None.
Proof.
  intros Hk Hq. destruct (list_eq_dec N.eq_dec q k) as [->|Hne].
  - replace k with (k ++ []) at 2 by apply app_nil_r. now rewrite lookup_short_app.
  - apply lookup_short_miss. intro E. apply Hne. now apply vkey_prefix_eq.
Qed.

(* insert where the key leaves the short key strictly inside it *)
Lemma lookup_insert_diverge nk c k v q :
  vkey k -> vkey q ->
  let m := prefix_len k nk in
  (m < length nk)%nat -> (m < length k)%nat -> nth m nk 0 <= 16 ->
  lookup (let b2 := branch2 (nth m nk 0) (mk_short (skipn (S m) nk) c) (nth m k 0) (mk_short (skipn (S m) k) (NVal v)) in
          if Nat.eqb m 0 then NFull b2 else NShort (firstn m k) (NFull b2)) q =
  if list_eq_dec N.eq_dec q k then Some v else lookup (NShort nk c) q.
Proof.
  intros Hk Hq m Hm1 Hm2 Hi1. cbn zeta.
  set (pre := firstn m k).
  assert (Hlp : length pre = m) by (unfold pre; rewrite firstn_length; lia).
  assert (Hpre_lt : Forall lt16 pre) by (apply vkey_firstn_lt16; assumption).
  assert (Hpre_nk : pre = firstn m nk) by (unfold pre, m; apply prefix_len_firstn).
  assert (Hneq : nth m nk 0 <> nth m k 0).
  { intro Heq. apply (prefix_len_nth_neq k nk Hm2 Hm1). symmetry. exact Heq. }
  assert (Hi2 : nth m k 0 <= 16) by (apply (vkey_le16 k _ Hk); apply nth_In; exact Hm2).
  assert (Hk_split : k = pre ++ nth m k 0 :: skipn (S m) k) by (apply firstn_skipn_nth; exact Hm2).
  assert (Hnk_split : nk = pre ++ nth m nk 0 :: skipn (S m) nk) by (rewrite Hpre_nk; apply firstn_skipn_nth; exact Hm1).
  rewrite <- Hlp at 1.
  rewrite (lookup_branch_point pre _ _ _ _ q Hpre_lt Hi1 Hi2 Hneq Hq). cbn zeta. rewrite Hlp.
  destruct (Nat.eqb_spec (prefix_len q pre) m) as [E|E].
  - pose proof (vkey_diverge_pos q pre Hq Hpre_lt) as Hpos. rewrite E in Hpos.
    assert (Hq_split : q = pre ++ nth m q 0 :: skipn (S m) q).
    { rewrite <- Hlp in E. pose proof (prefix_len_full q pre E) as Hp. rewrite Hlp in Hp.
      rewrite (skipn_nth_cons q m 0 Hpos) in Hp. exact Hp. }
    set (x := nth m q 0) in *. set (r := skipn (S m) q) in *.
    assert (Hvq : vkey (x :: r)).
    { unfold x, r. rewrite <- skipn_nth_cons by exact Hpos. apply vkey_skipn; assumption. }
    assert (Hvk : vkey (nth m k 0 :: skipn (S m) k)).
    { rewrite <- skipn_nth_cons by exact Hm2. apply vkey_skipn; assumption. }
    destruct (N.eqb_spec x (nth m k 0)) as [Ex|Ex].
    + rewrite Ex in Hvq. rewrite (lookup_tail_leaf _ _ v r Hvk Hvq).
      destruct (list_eq_dec N.eq_dec r (skipn (S m) k)) as [Er|Er].
      * destruct (list_eq_dec N.eq_dec q k) as [_|Hne]; [reflexivity|].
        exfalso. apply Hne. rewrite Hq_split, Hk_split at 1. rewrite Ex, Er. reflexivity.
      * destruct (list_eq_dec N.eq_dec q k) as [Heq|_].
        -- exfalso. apply Er. unfold r. now rewrite Heq.
        -- symmetry. apply lookup_short_miss. rewrite Hq_split, Hnk_split, prefix_len_app_l, Hlp.
           cbn [prefix_len]. rewrite Ex. replace (nth m k 0 =? nth m nk 0) with false by (symmetry; apply N.eqb_neq; congruence).
           rewrite app_length. cbn [length]. lia.
    + destruct (list_eq_dec N.eq_dec q k) as [Heq|_]; [exfalso; apply Ex; unfold x; now rewrite Heq|].
      destruct (N.eqb_spec x (nth m nk 0)) as [Ex1|Ex1].
      * assert (H := lookup_short_split (pre ++ [nth m nk 0]) (skipn (S m) nk) c r ltac:(destruct pre; discriminate)).
        rewrite <- !app_assoc in H. cbn [app] in H. rewrite <- Hnk_split in H.
        rewrite Hq_split at 1. rewrite Ex1. symmetry. exact H.
      * symmetry. apply lookup_short_miss. rewrite Hq_split, Hnk_split, prefix_len_app_l, Hlp.
        cbn [prefix_len]. replace (x =? nth m nk 0) with false by (symmetry; apply N.eqb_neq; exact Ex1).
        rewrite app_length. cbn [length]. lia.
  - destruct (list_eq_dec N.eq_dec q k) as [Heq|_].
    + exfalso. apply E. rewrite Heq, Hk_split. fold pre. rewrite <- (app_nil_r pre) at 2.
      rewrite prefix_len_app_l. replace (prefix_len _ []) with 0%nat by (destruct (skipn (S m) k); reflexivity). lia.
    + symmetry. apply lookup_short_miss. intro Ef. apply E. rewrite Hnk_split in Ef.
      apply prefix_len_app_full in Ef. rewrite Ef. exact Hlp.
Qed.

(* lookup of a key that runs along the short key *)
Lemma lookup_short_along nk c q : vkey q -> nk <> [] -> Forall lt16 nk -> prefix_len q nk = length nk ->
  exists q', q = nk ++ q' /\ vkey q' /\ lookup (NShort nk c) q = lookup c q'.
Proof.
  intros Hq Hne Hlt E. pose proof (prefix_len_full q nk E) as Hpre.
  assert (Hl : (length nk < length q)%nat).
  { destruct (Nat.lt_ge_cases (length nk) (length q)) as [|Hge]; [assumption|exfalso].
    rewrite skipn_all2 in Hpre by lia. rewrite app_nil_r in Hpre. subst q.
    apply (lt16_no_term nk Hlt). now apply vkey_has_term. }
  exists (skipn (length nk) q). split; [exact Hpre|]. split; [now apply vkey_skipn|].
  rewrite Hpre at 1. apply lookup_short_app.
Qed.

(* insert changes exactly the binding of its key *)
Theorem lookup_insert : forall n, wf n -> forall k v q, vkey k -> v <> [] -> vkey q ->
  lookup (insert n k (NVal v)) q = if list_eq_dec N.eq_dec q k then Some v else lookup n q.
Proof.
  induction 1 as [p u Hp Hu|nk cs Hne Hlt Hfull IHfull|cs Hlen Hcnt Hch IHch H16]; intros k v q Hk Hv Hq.
  - (* leaf *)
    pose proof (vkey_nonempty k Hk) as Hkne. rewrite (insert_short _ _ _ _ Hkne). cbn zeta.
    set (nk := p ++ [16]) in *. assert (Hnk : vkey nk) by (exists p; auto).
    destruct (Nat.eqb_spec (prefix_len k nk) (length nk)) as [E|E].
    + assert (Ek : k = nk) by (now apply vkey_prefix_eq). subst k.
      rewrite E, skipn_all2 by lia. rewrite insert_empty.
      rewrite (lookup_nil_insert nk v q Hnk Hq), (lookup_nil_insert nk u q Hnk Hq).
      destruct (list_eq_dec N.eq_dec q nk); reflexivity.
    + destruct (diverge_inside k nk Hk (or_introl Hnk) E) as [Hm1 Hm2].
      apply lookup_insert_diverge; auto.
      apply (vkey_le16 nk _ Hnk). apply nth_In. exact Hm1.
  - (* extension *)
    pose proof (vkey_nonempty k Hk) as Hkne. rewrite (insert_short _ _ _ _ Hkne). cbn zeta.
    destruct (Nat.eqb_spec (prefix_len k nk) (length nk)) as [E|E].
    + rewrite E.
      destruct (lookup_short_along nk (NFull cs) k Hk Hne Hlt E) as (k' & Ek & Hk' & _).
      assert (Esk : skipn (length nk) k = k') by (rewrite Ek, skipn_app, Nat.sub_diag, skipn_all; reflexivity).
      rewrite Esk.
      destruct (Nat.eq_dec (prefix_len q nk) (length nk)) as [Eq|Eq].
      * destruct (lookup_short_along nk (insert (NFull cs) k' (NVal v)) q Hq Hne Hlt Eq) as (q' & Eqq & Hq' & L1).
        destruct (lookup_short_along nk (NFull cs) q Hq Hne Hlt Eq) as (q'' & Eqq' & _ & L2).
        assert (q'' = q') by (rewrite Eqq in Eqq'; now apply app_inv_head in Eqq'). subst q''.
        rewrite L1, L2, (IHfull k' v q' Hk' Hv Hq').
        destruct (list_eq_dec N.eq_dec q' k') as [Eqk|Hn]; destruct (list_eq_dec N.eq_dec q k) as [Hqk|Hqk]; try reflexivity.
        -- exfalso. apply Hqk. now rewrite Eqq, Ek, Eqk.
        -- exfalso. apply Hn. rewrite Eqq, Ek in Hqk. now apply app_inv_head in Hqk.
      * rewrite !lookup_short_miss by exact Eq.
        destruct (list_eq_dec N.eq_dec q k) as [->|_]; [contradiction|reflexivity].
    + destruct (diverge_inside k nk Hk (or_intror (conj Hne Hlt)) E) as [Hm1 Hm2].
      apply lookup_insert_diverge; auto.
      assert (nth (prefix_len k nk) nk 0 < 16) by (apply (Forall_nth_lt lt16); assumption). lia.
  - (* full node *)
    destruct k as [|k0 kr]; [exfalso; exact (vkey_nonempty _ Hk eq_refl)|].
    destruct q as [|q0 qr]; [exfalso; exact (vkey_nonempty _ Hq eq_refl)|].
    assert (Hk0 : k0 <= 16) by (apply (vkey_le16 _ _ Hk); left; reflexivity).
    assert (Hq0 : q0 <= 16) by (apply (vkey_le16 _ _ Hq); left; reflexivity).
    assert (Hi : (N.to_nat k0 < length cs)%nat) by lia.
    rewrite (insert_full cs k0 kr (NVal v) Hi), !lookup_full.
    destruct (N.eq_dec q0 k0) as [->|Hne0].
    + rewrite get_set_same by exact Hi.
      set (i := N.to_nat k0) in *.
      assert (Hc : lookup (insert (get_child cs i) kr (NVal v)) qr =
                   if list_eq_dec N.eq_dec qr kr then Some v else lookup (get_child cs i) qr).
      { apply vkey_cons in Hk as [[-> ->]|[Hlt Hkr]].
        - apply vkey_cons in Hq as [[_ ->]|[Hl _]]; [|lia]. rewrite insert_empty. reflexivity.
        - apply vkey_cons in Hq as [[E _]|[_ Hqr]]; [lia|].
          assert (Hi16 : (i < 16)%nat) by (unfold i; lia).
          destruct (get_child cs i) as [|w|nk c|cs1] eqn:Eg.
          + rewrite insert_nil by (apply vkey_nonempty; exact Hkr). rewrite lookup_nil_insert by assumption.
            destruct (list_eq_dec N.eq_dec qr kr); reflexivity.
          + exfalso. pose proof (Hch i (NVal w) ltac:(rewrite get_nth_error by exact Hi; rewrite Eg; reflexivity) ltac:(discriminate) Hi16) as W. inversion W.
          + apply (IHch i); auto; [rewrite get_nth_error by exact Hi; rewrite Eg; reflexivity | discriminate].
          + apply (IHch i); auto; [rewrite get_nth_error by exact Hi; rewrite Eg; reflexivity | discriminate]. }
      rewrite Hc.
      destruct (list_eq_dec N.eq_dec qr kr) as [Er|Hn]; destruct (list_eq_dec N.eq_dec (k0 :: qr) (k0 :: kr)) as [He|He]; try reflexivity.
      * exfalso. apply He. now rewrite Er.
      * exfalso. apply Hn. now inversion He.
    + rewrite get_set_other by lia.
      destruct (list_eq_dec N.eq_dec (q0 :: qr) (k0 :: kr)) as [He|_]; [inversion He; contradiction|reflexivity].
Qed.

(* on the empty trie *)
Lemma lookup_insert_nil k v q : vkey k -> vkey q ->
  lookup (insert NNil k (NVal v)) q = if list_eq_dec N.eq_dec q k then Some v else lookup NNil q.
Proof. intros Hk Hq. rewrite insert_nil by (now apply vkey_nonempty). now apply lookup_nil_insert. Qed.

(* any sequence of insertions: the trie answers like the association list *)
Fixpoint alist_get (l : list (list N * bytes)) (q : list N) : option bytes :=
  match l with
  | [] => None
  | (k, v) :: t => if list_eq_dec N.eq_dec q k then Some v else alist_get t q
  end.
Definition insert_all (l : list (list N * bytes)) : node :=
  fold_right (fun kv n => insert n (fst kv) (NVal (snd kv))) NNil l.

Theorem lookup_insert_all l q :
  Forall (fun kv => vkey (fst kv) /\ snd kv <> []) l -> vkey q ->
  wfr (insert_all l) /\ lookup (insert_all l) q = alist_get l q.
Proof.
  intros Hl Hq. induction l as [|[k v] t IH]; cbn [insert_all fold_right alist_get fst snd].
  - split; [left; reflexivity|reflexivity].
  - inversion Hl as [|? ? [Hk Hv] Ht]; subst. cbn [fst snd] in *. destruct (IH Ht) as [[En|W] L].
    + fold (insert_all t). rewrite En in *. split.
      * right. rewrite insert_nil by (now apply vkey_nonempty). destruct Hk as (p & -> & Hp). now apply wf_leaf.
      * rewrite lookup_insert_nil by assumption. rewrite <- L. reflexivity.
    + fold (insert_all t). split.
      * right. now apply insert_wf.
      * rewrite lookup_insert by assumption. now rewrite L.
Qed.

(* ---------- byte keys ---------- *)
Definition is_byte (x : N) : Prop := x < 256.

Lemma key_of_bytes_vkey b : Forall is_byte b -> vkey (key_of_bytes b).
Proof.
  intros Hb. unfold key_of_bytes. exists (flat_map (fun x => [x / 16; x mod 16]) b). split; [reflexivity|].
  induction Hb as [|x t Hx Ht IH]; cbn [flat_map app]; [constructor|].
  unfold is_byte in Hx. constructor; [unfold lt16; apply N.div_lt_upper_bound; lia|].
  constructor; [unfold lt16; apply N.mod_lt; lia | exact IH].
Qed.

Lemma key_of_bytes_inj a b : key_of_bytes a = key_of_bytes b -> a = b.
Proof.
  unfold key_of_bytes. intro H. apply app_inj_tail in H. destruct H as [H _].
  revert b H. induction a as [|x a IH]; intros [|y b] H; cbn [flat_map app] in H; try discriminate; [reflexivity|].
  injection H as Hd Hm Ht. f_equal; [|now apply IH].
  rewrite (N.div_mod x 16), (N.div_mod y 16) by lia. now rewrite Hd, Hm.
Qed.

(* Trie.Update followed by Trie.Get, on byte strings *)
Theorem get_update n k v q : wfr n -> Forall is_byte k -> Forall is_byte q -> v <> [] ->
  get (update n k v) q = if list_eq_dec N.eq_dec q k then Some v else get n q.
Proof.
  intros Hn Hk Hq Hv. unfold get, update. destruct v as [|v0 vt]; [contradiction|].
  pose proof (key_of_bytes_vkey k Hk) as Vk. pose proof (key_of_bytes_vkey q Hq) as Vq.
  assert (L : lookup (insert n (key_of_bytes k) (NVal (v0 :: vt))) (key_of_bytes q) =
              if list_eq_dec N.eq_dec (key_of_bytes q) (key_of_bytes k) then Some (v0 :: vt) else lookup n (key_of_bytes q)).
  { destruct Hn as [->|W]; [now apply lookup_insert_nil | now apply lookup_insert]. }
  rewrite L.
  destruct (list_eq_dec N.eq_dec (key_of_bytes q) (key_of_bytes k)) as [E|E]; destruct (list_eq_dec N.eq_dec q k) as [E'|E']; try reflexivity.
  - exfalso. apply E'. now apply key_of_bytes_inj.
  - exfalso. apply E. now rewrite E'.
Qed.

(* ================= canonical form: equal content, equal tree ================= *)

Definition has_key (n : node) (q : list N) : Prop := vkey q /\ lookup n q <> None.

Lemma count_two cs : (2 <= count_children cs)%nat ->
  exists i j, (i < j)%nat /\ (j < length cs)%nat /\ get_child cs i <> NNil /\ get_child cs j <> NNil.
Proof.
  unfold count_children.
  assert (One : forall l, (1 <= length (filter (fun c => match c with NNil => false | _ => true end) l))%nat ->
                exists j, (j < length l)%nat /\ get_child l j <> NNil).
  { induction l as [|c t IH]; cbn; [lia|]. destruct c; cbn; intros H.
    - destruct (IH H) as (j & Hj & Hg). exists (S j). split; [lia|exact Hg].
    - exists 0%nat. split; [lia|discriminate].
    - exists 0%nat. split; [lia|discriminate].
    - exists 0%nat. split; [lia|discriminate]. }
  induction cs as [|c t IH]; cbn; [lia|]. destruct c; cbn; intros H.
  - destruct (IH H) as (i & j & Hij & Hj & Hi' & Hj'). exists (S i), (S j). repeat split; auto; lia.
  - destruct (One t ltac:(lia)) as (j & Hj & Hg). exists 0%nat, (S j). repeat split; auto; try lia; discriminate.
  - destruct (One t ltac:(lia)) as (j & Hj & Hg). exists 0%nat, (S j). repeat split; auto; try lia; discriminate.
  - destruct (One t ltac:(lia)) as (j & Hj & Hg). exists 0%nat, (S j). repeat split; auto; try lia; discriminate.
Qed.

(* a child slot of a well-formed full node that is not empty holds a key starting with its nibble *)
Lemma full_child_key cs i : wf (NFull cs) -> (i < 17)%nat -> get_child cs i <> NNil ->
  (forall j c, nth_error cs j = Some c -> c <> NNil -> (j < 16)%nat -> exists q, has_key c q) ->
  exists q, has_key (NFull cs) (N.of_nat i :: q).
Proof.
  intros W Hi Hg IH. inversion W as [| |cs0 Hlen Hcnt Hch H16]; subst.
  destruct (Nat.eq_dec i 16) as [->|Hne].
  - destruct H16 as [E|(v & E & Hv)]; [contradiction|].
    exists []. split; [apply vkey_term|]. rewrite lookup_full. change (N.to_nat (N.of_nat 16)) with 16%nat. rewrite E. discriminate.
  - assert (Hi16 : (i < 16)%nat) by lia.
    destruct (IH i (get_child cs i) ltac:(apply get_nth_error; lia) Hg Hi16) as (q & Vq & Lq).
    exists q. split; [apply vkey_cons_lt; [lia|exact Vq]|]. rewrite lookup_full, Nat2N.id. exact Lq.
Qed.

Lemma wf_has_key n : wf n -> exists q, has_key n q.
Proof.
  induction 1 as [p u Hp Hu|nk cs Hne Hlt Hfull IHfull|cs Hlen Hcnt Hch IHch H16].
  - exists (p ++ [16]). split; [exists p; auto|].
    replace (p ++ [16]) with ((p ++ [16]) ++ []) at 2 by apply app_nil_r. rewrite lookup_short_app. discriminate.
  - destruct IHfull as (q & Vq & Lq). exists (nk ++ q). split.
    + destruct Vq as (p & -> & Hp). exists (nk ++ p). split; [now rewrite app_assoc|]. apply Forall_app. auto.
    + now rewrite lookup_short_app.
  - destruct (count_two cs Hcnt) as (i & j & Hij & Hj & Hi' & Hj').
    destruct (full_child_key cs i (wf_full cs Hlen Hcnt Hch H16) ltac:(lia) Hi' IHch) as (q & Hq).
    eexists. exact Hq.
Qed.

(* a well-formed full node holds two keys with different first nibbles *)
Lemma full_two_keys cs : wf (NFull cs) ->
  exists x y qx qy, x <> y /\ has_key (NFull cs) (x :: qx) /\ has_key (NFull cs) (y :: qy).
Proof.
  intros W. inversion W as [| |cs0 Hlen Hcnt Hch H16]; subst.
  destruct (count_two cs Hcnt) as (i & j & Hij & Hj & Hi' & Hj').
  assert (IH : forall j c, nth_error cs j = Some c -> c <> NNil -> (j < 16)%nat -> exists q, has_key c q).
  { intros k c Hn Hc Hk. apply wf_has_key. now apply (Hch k c). }
  destruct (full_child_key cs i W ltac:(lia) Hi' IH) as (qi & Hqi).
  destruct (full_child_key cs j W ltac:(lia) Hj' IH) as (qj & Hqj).
  exists (N.of_nat i), (N.of_nat j), qi, qj. split; [lia|]. auto.
Qed.

(* keys below a short node run along its key *)
Lemma short_key_prefix nk c q : lookup (NShort nk c) q <> None -> exists q', q = nk ++ q' /\ lookup c q' <> None.
Proof.
  intro H. destruct (Nat.eq_dec (prefix_len q nk) (length nk)) as [E|E].
  - pose proof (prefix_len_full q nk E) as Hpre. exists (skipn (length nk) q). split; [exact Hpre|].
    rewrite Hpre, lookup_short_app in H. exact H.
  - now rewrite lookup_short_miss in H.
Qed.

Definition same (a b : node) : Prop := forall q, vkey q -> lookup a q = lookup b q.

Lemma leaf_one_key p u q : Forall lt16 p -> has_key (NShort (p ++ [16]) (NVal u)) q -> q = p ++ [16].
Proof.
  intros Hp [Vq Lq]. rewrite lookup_nil_insert in Lq; [|exists p; auto|exact Vq].
  destruct (list_eq_dec N.eq_dec q (p ++ [16])); [assumption|contradiction].
Qed.

Lemma node_nil_dec (c : node) : {c = NNil} + {c <> NNil}.
Proof. destruct c; [left; reflexivity|right; discriminate..]. Qed.

Lemma vkey_app_lt pre q : Forall lt16 pre -> vkey q -> vkey (pre ++ q).
Proof. intros Hp (p & -> & Hq). exists (pre ++ p). split; [now rewrite app_assoc|]. apply Forall_app. auto. Qed.

Lemma ext_two_keys nk cs : Forall lt16 nk -> wf (NFull cs) ->
  exists x y qx qy, x <> y /\ has_key (NShort nk (NFull cs)) (nk ++ x :: qx) /\ has_key (NShort nk (NFull cs)) (nk ++ y :: qy).
Proof.
  intros Hlt W. destruct (full_two_keys cs W) as (x & y & qx & qy & Hne & [Vx Lx] & [Vy Ly]).
  exists x, y, qx, qy. split; [exact Hne|]. split; (split; [now apply vkey_app_lt | now rewrite lookup_short_app]).
Qed.

(* a common prefix of two lists that part right after [a] is a prefix of [a] *)
Lemma common_prefix_of_fork {A} (a : list A) x y ta tb b ra rb :
  x <> y -> a ++ x :: ta = b ++ ra -> a ++ y :: tb = b ++ rb -> exists r, a = b ++ r.
Proof.
  intros Hne. revert a. induction b as [|z b IH]; intros a H1 H2; [exists a; reflexivity|].
  destruct a as [|w a]; cbn in H1, H2.
  - injection H1 as E1 _. injection H2 as E2 _. congruence.
  - injection H1 as E1 H1. injection H2 as _ H2. subst w. destruct (IH a H1 H2) as (r & ->). exists r. reflexivity.
Qed.

Lemma list_eq_get (a b : list node) : length a = length b ->
  (forall i, (i < length a)%nat -> get_child a i = get_child b i) -> a = b.
Proof.
  revert b. induction a as [|x a IH]; intros [|y b] Hl H; cbn in Hl; try lia; [reflexivity|].
  f_equal; [exact (H 0%nat ltac:(cbn; lia))|]. apply IH; [lia|]. intros i Hi. exact (H (S i) ltac:(cbn; lia)).
Qed.

Lemma same_sym a b : same a b -> same b a.
Proof. intros H q Vq. symmetry. now apply H. Qed.

Lemma leaf_vs_many p u n : Forall lt16 p -> same (NShort (p ++ [16]) (NVal u)) n ->
  forall q1 q2, has_key n q1 -> has_key n q2 -> q1 = q2.
Proof.
  intros Hp S q1 q2 [V1 L1] [V2 L2].
  rewrite <- (S q1 V1) in L1. rewrite <- (S q2 V2) in L2.
  rewrite (leaf_one_key p u q1 Hp (conj V1 L1)), (leaf_one_key p u q2 Hp (conj V2 L2)). reflexivity.
Qed.

Theorem canonical : forall n1, wf n1 -> forall n2, wf n2 -> same n1 n2 -> n1 = n2.
Proof.
  induction 1 as [p1 u1 Hp1 Hu1|nk1 cs1 Hne1 Hlt1 Hf1 IHf1|cs1 Hlen1 Hcnt1 Hch1 IHch1 H161];
    intros n2 W2 S.
  - (* leaf on the left *)
    inversion W2 as [p2 u2 Hp2 Hu2|nk2 cs2 Hne2 Hlt2 Hf2|cs2 Hlen2 Hcnt2 Hch2 H162]; subst.
    + assert (K : has_key (NShort (p2 ++ [16]) (NVal u2)) (p1 ++ [16])).
      { split; [exists p1; auto|]. rewrite <- S by (exists p1; auto).
        replace (p1 ++ [16]) with ((p1 ++ [16]) ++ []) at 2 by apply app_nil_r. rewrite lookup_short_app. discriminate. }
      pose proof (leaf_one_key p2 u2 _ Hp2 K) as E. apply app_inj_tail in E. destruct E as [-> _].
      assert (V : vkey (p2 ++ [16])) by (exists p2; auto).
      pose proof (S _ V) as L. rewrite !lookup_nil_insert in L by assumption.
      destruct (list_eq_dec N.eq_dec (p2 ++ [16]) (p2 ++ [16])); [|contradiction]. now inversion L.
    + exfalso. destruct (ext_two_keys nk2 cs2 Hlt2 Hf2) as (x & y & qx & qy & Hne & K1 & K2).
      pose proof (leaf_vs_many p1 u1 _ Hp1 S _ _ K1 K2) as E. apply app_inv_head in E. inversion E. contradiction.
    + exfalso. destruct (full_two_keys cs2 W2) as (x & y & qx & qy & Hne & K1 & K2).
      pose proof (leaf_vs_many p1 u1 _ Hp1 S _ _ K1 K2) as E. inversion E. contradiction.
  - (* extension on the left *)
    pose proof (wf_ext nk1 cs1 Hne1 Hlt1 Hf1) as W1.
    inversion W2 as [p2 u2 Hp2 Hu2|nk2 cs2 Hne2 Hlt2 Hf2|cs2 Hlen2 Hcnt2 Hch2 H162]; subst.
    + exfalso. destruct (ext_two_keys nk1 cs1 Hlt1 Hf1) as (x & y & qx & qy & Hne & K1 & K2).
      pose proof (leaf_vs_many p2 u2 _ Hp2 (same_sym _ _ S) _ _ K1 K2) as E. apply app_inv_head in E. inversion E. contradiction.
    + (* both extensions: the short keys coincide, then the full nodes *)
      assert (P12 : exists r, nk1 = nk2 ++ r).
      { destruct (ext_two_keys nk1 cs1 Hlt1 Hf1) as (x & y & qx & qy & Hne & [V1 L1] & [V2 L2]).
        rewrite (S _ V1) in L1. rewrite (S _ V2) in L2.
        destruct (short_key_prefix _ _ _ L1) as (r1 & E1 & _). destruct (short_key_prefix _ _ _ L2) as (r2 & E2 & _).
        exact (common_prefix_of_fork nk1 x y qx qy nk2 r1 r2 Hne E1 E2). }
      assert (P21 : exists r, nk2 = nk1 ++ r).
      { destruct (ext_two_keys nk2 cs2 Hlt2 Hf2) as (x & y & qx & qy & Hne & [V1 L1] & [V2 L2]).
        rewrite <- (S _ V1) in L1. rewrite <- (S _ V2) in L2.
        destruct (short_key_prefix _ _ _ L1) as (r1 & E1 & _). destruct (short_key_prefix _ _ _ L2) as (r2 & E2 & _).
        exact (common_prefix_of_fork nk2 x y qx qy nk1 r1 r2 Hne E1 E2). }
      assert (Enk : nk1 = nk2).
      { destruct P12 as (r & E1). destruct P21 as (r' & E2).
        assert (length r = 0%nat) by (apply (f_equal (@length N)) in E1; apply (f_equal (@length N)) in E2; rewrite app_length in *; lia).
        destruct r; [|discriminate]. now rewrite app_nil_r in E1. }
      subst nk2. f_equal. apply IHf1; [exact Hf2|].
      intros q Vq. pose proof (S (nk1 ++ q) (vkey_app_lt nk1 q Hlt1 Vq)) as L. now rewrite !lookup_short_app in L.
    + exfalso. destruct (full_two_keys cs2 W2) as (x & y & qx & qy & Hne & [V1 L1] & [V2 L2]).
      rewrite <- (S _ V1) in L1. rewrite <- (S _ V2) in L2.
      destruct (short_key_prefix _ _ _ L1) as (r1 & E1 & _). destruct (short_key_prefix _ _ _ L2) as (r2 & E2 & _).
      destruct nk1 as [|z nk1]; [contradiction|]. cbn in E1, E2. inversion E1. inversion E2. congruence.
  - (* full node on the left *)
    pose proof (wf_full cs1 Hlen1 Hcnt1 Hch1 H161) as W1.
    inversion W2 as [p2 u2 Hp2 Hu2|nk2 cs2 Hne2 Hlt2 Hf2|cs2 Hlen2 Hcnt2 Hch2 H162]; subst.
    + exfalso. destruct (full_two_keys cs1 W1) as (x & y & qx & qy & Hne & K1 & K2).
      pose proof (leaf_vs_many p2 u2 _ Hp2 (same_sym _ _ S) _ _ K1 K2) as E. inversion E. contradiction.
    + exfalso. destruct (full_two_keys cs1 W1) as (x & y & qx & qy & Hne & [V1 L1] & [V2 L2]).
      rewrite (S _ V1) in L1. rewrite (S _ V2) in L2.
      destruct (short_key_prefix _ _ _ L1) as (r1 & E1 & _). destruct (short_key_prefix _ _ _ L2) as (r2 & E2 & _).
      destruct nk2 as [|z nk2]; [contradiction|]. cbn in E1, E2. inversion E1. inversion E2. congruence.
    + f_equal. apply list_eq_get; [congruence|]. intros i Hi. rewrite Hlen1 in Hi.
      destruct (Nat.eq_dec i 16) as [->|Hne].
      * (* the value slot *)
        pose proof (S [16] vkey_term) as L. rewrite !lookup_full in L. change (N.to_nat 16) with 16%nat in L.
        destruct H161 as [E1|(v1 & E1 & _)]; destruct H162 as [E2|(v2 & E2 & _)]; rewrite E1, E2 in *; cbn in L; congruence.
      * assert (Hi16 : (i < 16)%nat) by lia.
        set (c1 := get_child cs1 i). set (c2 := get_child cs2 i).
        assert (Sc : same c1 c2).
        { assert (Hilt : N.of_nat i < 16) by lia.
          intros q Vq. pose proof (S (N.of_nat i :: q) (vkey_cons_lt _ _ Hilt Vq)) as L.
          now rewrite !lookup_full, Nat2N.id in L. }
        assert (N1 : nth_error cs1 i = Some c1) by (apply get_nth_error; lia).
        assert (N2 : nth_error cs2 i = Some c2) by (apply get_nth_error; lia).
        destruct (node_nil_dec c1) as [E1|E1]; destruct (node_nil_dec c2) as [E2|E2].
        -- congruence.
        -- exfalso. destruct (wf_has_key c2 (Hch2 i c2 N2 E2 Hi16)) as (q & Vq & Lq).
           rewrite <- (Sc q Vq), E1 in Lq. now apply Lq.
        -- exfalso. destruct (wf_has_key c1 (Hch1 i c1 N1 E1 Hi16)) as (q & Vq & Lq).
           rewrite (Sc q Vq), E2 in Lq. now apply Lq.
        -- apply (IHch1 i c1 N1 E1 Hi16 c2 (Hch2 i c2 N2 E2 Hi16) Sc).
Qed.

Theorem canonical_root n1 n2 : wfr n1 -> wfr n2 -> same n1 n2 -> n1 = n2.
Proof.
  intros [->|W1] [->|W2] S; [reflexivity| | |now apply canonical].
  - exfalso. destruct (wf_has_key n2 W2) as (q & Vq & Lq). rewrite <- (S q Vq) in Lq. now apply Lq.
  - exfalso. destruct (wf_has_key n1 W1) as (q & Vq & Lq). rewrite (S q Vq) in Lq. now apply Lq.
Qed.

(* history independence: two histories of insertions that bind the same keys to the same values
   build the same tree - and so the same root under any hash function *)
Theorem insert_history_independent l1 l2 :
  Forall (fun kv => vkey (fst kv) /\ snd kv <> []) l1 ->
  Forall (fun kv => vkey (fst kv) /\ snd kv <> []) l2 ->
  (forall q, vkey q -> alist_get l1 q = alist_get l2 q) ->
  insert_all l1 = insert_all l2 /\ forall H, root_hash H (insert_all l1) = root_hash H (insert_all l2).
Proof.
  intros H1 H2 E.
  assert (Eq : insert_all l1 = insert_all l2).
  { apply canonical_root.
    - destruct (lookup_insert_all l1 [16] H1 vkey_term) as [W _]. exact W.
    - destruct (lookup_insert_all l2 [16] H2 vkey_term) as [W _]. exact W.
    - intros q Vq. destruct (lookup_insert_all l1 q H1 Vq) as [_ L1]. destruct (lookup_insert_all l2 q H2 Vq) as [_ L2].
      rewrite L1, L2. now apply E. }
  split; [exact Eq|]. intro H. now rewrite Eq.
Qed.

(* ================= deletion ================= *)

Lemma first_child_spec cs : forall base, (1 <= count_children cs)%nat ->
  let pos := first_child cs base in
  (base <= pos)%nat /\ (pos - base < length cs)%nat /\ get_child cs (pos - base) <> NNil /\
  forall j, (j < pos - base)%nat -> get_child cs j = NNil.
Proof.
  unfold count_children. induction cs as [|c t IH]; intros base H; cbn in H; [lia|].
  assert (Here : c <> NNil -> first_child (c :: t) base = base) by (destruct c; [contradiction|reflexivity..]).
  destruct (node_nil_dec c) as [->|Hc].
  - cbn [first_child]. cbn in H. destruct (IH (S base) H) as (H1 & H2 & H3 & H4). cbv zeta in *.
    set (pos := first_child t (S base)) in *.
    replace (pos - base)%nat with (S (pos - S base)) by lia.
    split; [lia|]. split; [cbn; lia|]. split; [exact H3|].
    intros j Hj. destruct j as [|j]; [reflexivity|]. cbn [get_child nth]. apply H4. lia.
  - cbv zeta. rewrite (Here Hc), Nat.sub_diag.
    split; [lia|]. split; [cbn; lia|]. split; [exact Hc|]. intros j Hj. lia.
Qed.

Lemma count_one_unique cs i j : count_children cs = 1%nat ->
  get_child cs i <> NNil -> get_child cs j <> NNil -> (i < length cs)%nat -> (j < length cs)%nat -> i = j.
Proof.
  intros Hc Hi Hj Li Lj. destruct (Nat.eq_dec i j) as [|Hne]; [assumption|exfalso].
  assert (T : (2 <= count_children cs)%nat).
  { clear Hc. unfold count_children. revert i j Hi Hj Li Lj Hne.
    induction cs as [|c t IH]; intros i j Hi Hj Li Lj Hne; [cbn in Li; lia|].
    assert (One : forall l k, (k < length l)%nat -> get_child l k <> NNil ->
                  (1 <= length (filter (fun c => match c with NNil => false | _ => true end) l))%nat).
    { induction l as [|x l IHl]; intros k Hk Hg; [cbn in Hk; lia|]. destruct k as [|k].
      - cbn in Hg. destruct x; try contradiction; cbn; lia.
      - cbn in Hg, Hk. specialize (IHl k ltac:(lia) Hg). destruct x; cbn; lia. }
    destruct i as [|i]; destruct j as [|j]; try lia.
    - cbn in Hi, Hj, Lj. pose proof (One t j ltac:(lia) Hj). destruct c; try contradiction; cbn; lia.
    - cbn in Hi, Hj, Li. pose proof (One t i ltac:(lia) Hi). destruct c; try contradiction; cbn; lia.
    - cbn in Hi, Hj, Li, Lj. specialize (IH i j Hi Hj ltac:(lia) ltac:(lia) ltac:(lia)). destruct c; cbn; lia. }
  lia.
Qed.

(* the children of a full node after one of them was replaced: what reduce_full needs *)
Definition kids_ok (cs : list node) : Prop :=
  length cs = 17%nat /\
  (forall i c, nth_error cs i = Some c -> c <> NNil -> (i < 16)%nat -> wf c) /\
  (get_child cs 16 = NNil \/ exists v, get_child cs 16 = NVal v /\ v <> []).

Lemma reduce_full_wf cs : kids_ok cs -> (1 <= count_children cs)%nat -> wf (reduce_full cs).
Proof.
  intros (Hlen & Hch & H16) Hc. unfold reduce_full.
  destruct (Nat.eqb_spec (count_children cs) 1) as [E1|E1]; [|apply wf_full; auto; lia].
  destruct (first_child_spec cs 0 Hc) as (_ & Hp & Hg & _). cbv zeta in *. rewrite Nat.sub_0_r in *.
  set (pos := first_child cs 0) in *.
  assert (Wp : (pos < 16)%nat -> wf (get_child cs pos))
    by (intro; apply (Hch pos); [apply get_nth_error; exact Hp | exact Hg | assumption]).
  destruct (get_child cs pos) as [|w|ck cv|cs2] eqn:Eg; [contradiction| | |].
  - (* a value: only in the last slot *)
    destruct (Nat.eq_dec pos 16) as [E16|E16].
    + rewrite E16 in *. destruct H16 as [E|(v & E & Hv)]; rewrite E in Eg; [discriminate|]. inversion Eg; subst.
      change [N.of_nat 16] with ([] ++ [16]). apply wf_leaf; [constructor|exact Hv].
    + exfalso. pose proof (Wp ltac:(lia)) as W. inversion W.
  - destruct (Nat.eqb_spec pos 16) as [E16|E16].
    + exfalso. rewrite E16 in Eg. destruct H16 as [E|(v & E & _)]; rewrite E in Eg; discriminate.
    + assert (Hlt : N.of_nat pos < 16) by lia.
      pose proof (Wp ltac:(lia)) as W.
      inversion W as [p u Hpp Hu|k2 cs3 Hne Hl2 Hf2|]; subst.
      * change (N.of_nat pos :: p ++ [16]) with ((N.of_nat pos :: p) ++ [16]). apply wf_leaf; [constructor; assumption|exact Hu].
      * apply wf_ext; [discriminate|constructor; assumption|exact Hf2].
  - destruct (Nat.eq_dec pos 16) as [E16|E16].
    + exfalso. rewrite E16 in Eg. destruct H16 as [E|(v & E & _)]; rewrite E in Eg; discriminate.
    + pose proof (Wp ltac:(lia)) as W.
      apply wf_ext; [discriminate|constructor; [unfold lt16; lia|constructor]|exact W].
Qed.

Lemma reduce_full_lookup cs q : kids_ok cs -> (1 <= count_children cs)%nat -> vkey q ->
  lookup (reduce_full cs) q = lookup (NFull cs) q.
Proof.
  intros (Hlen & Hch & H16) Hc Vq. unfold reduce_full.
  destruct (Nat.eqb_spec (count_children cs) 1) as [E1|E1]; [|reflexivity].
  destruct (first_child_spec cs 0 Hc) as (_ & Hp & Hg & _). cbv zeta in *. rewrite Nat.sub_0_r in *.
  set (pos := first_child cs 0) in *.
  destruct q as [|q0 qr]; [exfalso; exact (vkey_nonempty _ Vq eq_refl)|].
  assert (Hq0 : q0 <= 16) by (apply (vkey_le16 _ _ Vq); left; reflexivity).
  rewrite lookup_full.
  assert (Other : N.to_nat q0 <> pos -> get_child cs (N.to_nat q0) = NNil).
  { intro Hne. destruct (node_nil_dec (get_child cs (N.to_nat q0))) as [E|E]; [exact E|exfalso].
    apply Hne. apply (count_one_unique cs _ _ E1 E Hg); lia. }
  assert (Single : forall key c, key <> [] -> hd 0 key = N.of_nat pos ->
            lookup (NShort key c) (q0 :: qr) =
            if q0 =? N.of_nat pos then lookup (mk_short (tl key) c) qr else None).
  { intros key c Hk Hh. destruct key as [|z key]; [contradiction|]. cbn in Hh. subst z. cbn [tl].
    destruct (N.eqb_spec q0 (N.of_nat pos)) as [->|Hne].
    - change (N.of_nat pos :: key) with ([N.of_nat pos] ++ key). change (N.of_nat pos :: qr) with ([N.of_nat pos] ++ qr).
      apply lookup_short_split. discriminate.
    - apply lookup_short_miss. cbn [prefix_len]. replace (q0 =? N.of_nat pos) with false by (symmetry; now apply N.eqb_neq). cbn; lia. }
  assert (Fin : forall key c, key <> [] -> hd 0 key = N.of_nat pos -> lookup (mk_short (tl key) c) qr = lookup (get_child cs pos) qr ->
            lookup (NShort key c) (q0 :: qr) = lookup (get_child cs (N.to_nat q0)) qr).
  { intros key c Hk Hh Hl. rewrite (Single key c Hk Hh).
    destruct (N.eqb_spec q0 (N.of_nat pos)) as [->|Hne].
    - rewrite Nat2N.id. exact Hl.
    - rewrite Other by lia. reflexivity. }
  assert (Wp : (pos < 16)%nat -> wf (get_child cs pos))
    by (intro; apply (Hch pos); [apply get_nth_error; exact Hp | exact Hg | assumption]).
  destruct (get_child cs pos) as [|w|ck cv|cs2] eqn:Eg.
  - contradiction.
  - apply Fin; [discriminate|reflexivity|]. reflexivity.
  - destruct (Nat.eqb_spec pos 16) as [E16|E16].
    + exfalso. rewrite E16 in Eg. destruct H16 as [E|(v & E & _)]; rewrite E in Eg; discriminate.
    + apply Fin; [discriminate|reflexivity|]. cbn [tl].
      pose proof (Wp ltac:(lia)) as W.
      inversion W; subst; [destruct p; reflexivity | destruct ck; [contradiction|reflexivity]].
  - apply Fin; [discriminate|reflexivity|]. reflexivity.
Qed.

Lemma count_ge_one cs j : (j < length cs)%nat -> get_child cs j <> NNil -> (1 <= count_children cs)%nat.
Proof.
  unfold count_children. revert j. induction cs as [|x l IHl]; intros k Hk Hg; [cbn in Hk; lia|]. destruct k as [|k].
  - cbn in Hg. destruct x; try contradiction; cbn; lia.
  - cbn in Hg, Hk. specialize (IHl k ltac:(lia) Hg). destruct x; cbn; lia.
Qed.

Lemma delete_short nk c key : delete (NShort nk c) key =
  let m := prefix_len key nk in
  if Nat.ltb m (length nk) then NShort nk c
  else if Nat.eqb m (length key) then NNil
  else match delete c (skipn (length nk) key) with
       | NShort ck cv => NShort (nk ++ ck) cv
       | child => NShort nk child
       end.
Proof. reflexivity. Qed.

Lemma lookup_NNil q : lookup NNil q = None. Proof. reflexivity. Qed.

Theorem delete_spec : forall n, wf n -> forall k, vkey k ->
  wfr (delete n k) /\
  forall q, vkey q -> lookup (delete n k) q = if list_eq_dec N.eq_dec q k then None else lookup n q.
Proof.
  induction 1 as [p u Hp Hu|nk cs Hne Hlt Hfull IHfull|cs Hlen Hcnt Hch IHch H16]; intros k Hk.
  - (* leaf *)
    set (nk := p ++ [16]). assert (Hnk : vkey nk) by (exists p; auto).
    rewrite delete_short. cbn zeta. pose proof (prefix_len_le_r k nk) as Hr.
    destruct (Nat.ltb_spec (prefix_len k nk) (length nk)) as [Hm|Hm].
    + split; [right; apply wf_leaf; assumption|]. intros q Vq.
      destruct (list_eq_dec N.eq_dec q k) as [->|_]; [|reflexivity]. apply lookup_short_miss. lia.
    + assert (Ek : k = nk) by (apply vkey_prefix_eq; auto; lia). subst k.
      replace (prefix_len nk nk) with (length nk) by lia. rewrite Nat.eqb_refl.
      split; [left; reflexivity|]. intros q Vq. rewrite lookup_NNil.
      destruct (list_eq_dec N.eq_dec q nk) as [_|Hn]; [reflexivity|].
      rewrite lookup_nil_insert by assumption. destruct (list_eq_dec N.eq_dec q nk); [contradiction|reflexivity].
  - (* extension *)
    rewrite delete_short. cbn zeta. pose proof (prefix_len_le_r k nk) as Hr.
    destruct (Nat.ltb_spec (prefix_len k nk) (length nk)) as [Hm|Hm].
    + split; [right; apply wf_ext; assumption|]. intros q Vq.
      destruct (list_eq_dec N.eq_dec q k) as [->|_]; [|reflexivity]. apply lookup_short_miss. lia.
    + assert (E : prefix_len k nk = length nk) by lia.
      destruct (lookup_short_along nk (NFull cs) k Hk Hne Hlt E) as (k' & Ek & Hk' & _).
      assert (Esk : skipn (length nk) k = k') by (rewrite Ek, skipn_app, Nat.sub_diag, skipn_all; reflexivity).
      assert (Hlen : (length nk < length k)%nat).
      { rewrite Ek, app_length. destruct k'; [exfalso; exact (vkey_nonempty _ Hk' eq_refl)|cbn; lia]. }
      replace (prefix_len k nk =? length k)%nat with false by (symmetry; apply Nat.eqb_neq; lia).
      rewrite Esk. destruct (IHfull k' Hk') as [Wc Lc].
      (* the full node keeps a key: the child is not empty *)
      assert (Hnn : delete (NFull cs) k' <> NNil).
      { destruct (full_two_keys cs Hfull) as (x & y & qx & qy & Hxy & [Vx Lx] & [Vy Ly]).
        intro En. rewrite En in Lc.
        destruct (list_eq_dec N.eq_dec (x :: qx) k') as [Ex|Ex].
        - pose proof (Lc (y :: qy) Vy) as L. rewrite lookup_NNil in L.
          destruct (list_eq_dec N.eq_dec (y :: qy) k') as [Ey|_]; [rewrite <- Ex in Ey; inversion Ey; congruence|]. now apply Ly.
        - pose proof (Lc (x :: qx) Vx) as L. rewrite lookup_NNil in L.
          destruct (list_eq_dec N.eq_dec (x :: qx) k'); [contradiction|]. now apply Lx. }
      destruct Wc as [En|Wc]; [contradiction|].
      assert (Along : forall R, (forall q', vkey q' -> lookup R (nk ++ q') = lookup (delete (NFull cs) k') q') ->
                (forall q, prefix_len q nk <> length nk -> lookup R q = None) ->
                forall q, vkey q -> lookup R q = if list_eq_dec N.eq_dec q k then None else lookup (NShort nk (NFull cs)) q).
      { intros R HR Hmiss q Vq. destruct (Nat.eq_dec (prefix_len q nk) (length nk)) as [Eq|Eq].
        - destruct (lookup_short_along nk (NFull cs) q Vq Hne Hlt Eq) as (q' & Eqq & Vq' & L2).
          rewrite L2. rewrite Eqq at 1. rewrite (HR q' Vq'), (Lc q' Vq').
          destruct (list_eq_dec N.eq_dec q' k') as [E1|E1]; destruct (list_eq_dec N.eq_dec q k) as [E2|E2]; try reflexivity.
          + exfalso. apply E2. now rewrite Eqq, Ek, E1.
          + exfalso. apply E1. rewrite Eqq, Ek in E2. now apply app_inv_head in E2.
        - rewrite (Hmiss q Eq), lookup_short_miss by exact Eq.
          destruct (list_eq_dec N.eq_dec q k) as [->|_]; [contradiction|reflexivity]. }
      destruct (delete (NFull cs) k') as [|w|ck cv|cs2] eqn:Ed; [contradiction|inversion Wc| |].
      * inversion Wc as [p u Hpp Hu|k2 cs3 Hne2 Hl2 Hf2|]; subst.
        -- (* the child collapsed into a leaf *)
           split.
           ++ right. rewrite app_assoc. apply wf_leaf; [apply Forall_app; auto|exact Hu].
           ++ apply Along.
              ** intros q' Vq'. rewrite lookup_short_split by (destruct nk; [contradiction|discriminate]).
                 destruct p; reflexivity.
              ** intros q Hq. apply lookup_short_miss. intro Ef. apply Hq. now apply prefix_len_app_full in Ef.
        -- split.
           ++ right. apply wf_ext; [destruct nk; [contradiction|discriminate] | apply Forall_app; auto | exact Hf2].
           ++ apply Along.
              ** intros q' Vq'. rewrite lookup_short_split by (destruct nk; [contradiction|discriminate]).
                 destruct ck; [contradiction|reflexivity].
              ** intros q Hq. apply lookup_short_miss. intro Ef. apply Hq. now apply prefix_len_app_full in Ef.
      * split.
        -- right. apply wf_ext; [exact Hne|exact Hlt|exact Wc].
        -- apply Along.
           ++ intros q' Vq'. apply lookup_short_app.
           ++ intros q Hq. now apply lookup_short_miss.
  - (* full node *)
    destruct k as [|k0 kr]; [exfalso; exact (vkey_nonempty _ Hk eq_refl)|].
    assert (Hk0 : k0 <= 16) by (apply (vkey_le16 _ _ Hk); left; reflexivity).
    assert (Hi : (N.to_nat k0 < length cs)%nat) by lia.
    rewrite (delete_full cs k0 kr Hi). set (i := N.to_nat k0) in *.
    set (child := get_child cs i). set (child' := delete child kr).
    (* the replaced child *)
    assert (Hc' : (child' = NNil \/ ((i < 16)%nat /\ wf child')) /\
                  forall qr, vkey (k0 :: qr) -> lookup child' qr = if list_eq_dec N.eq_dec qr kr then None else lookup child qr).
    { apply vkey_cons in Hk as [[-> ->]|[Hlt Hkr]].
      - unfold child', child. change (N.to_nat 16) with 16%nat in *. subst i.
        destruct H16 as [E|(v & E & _)]; rewrite E; cbn [delete]; (split; [left; reflexivity|]);
          intros qr Vq; apply vkey_cons in Vq as [[_ ->]|[Hl _]]; try lia; reflexivity.
      - assert (Hi16 : (i < 16)%nat) by (unfold i; lia).
        destruct (node_nil_dec child) as [En|Hn].
        + unfold child'. rewrite En. cbn [delete]. split; [left; reflexivity|]. intros qr _. destruct (list_eq_dec N.eq_dec qr kr); reflexivity.
        + assert (Hnth : nth_error cs i = Some child) by (apply get_nth_error; exact Hi).
          destruct (IHch i child Hnth Hn Hi16 kr Hkr) as [Wc Lc]. split.
          * destruct Wc as [E|W]; [left; exact E|right; split; assumption].
          * intros qr Vq. apply vkey_cons in Vq as [[E _]|[_ Vqr]]; [lia|]. now apply Lc. }
    destruct Hc' as [Wc' Lc'].
    set (cs' := set_child cs i child').
    assert (Kids : kids_ok cs').
    { unfold kids_ok, cs'. rewrite set_child_length. split; [exact Hlen|]. split.
      - intros j c Hn Hc Hj. apply nth_error_get in Hn. destruct (Nat.eq_dec i j) as [<-|Hij].
        + rewrite get_set_same in Hn by exact Hi. subst c. destruct Wc' as [E|[_ W]]; [contradiction|exact W].
        + rewrite get_set_other in Hn by exact Hij. apply (Hch j c); [rewrite get_nth_error by lia; now rewrite Hn|exact Hc|exact Hj].
      - destruct (Nat.eq_dec i 16) as [Ei|Ei].
        + rewrite Ei. rewrite get_set_same by lia. destruct Wc' as [E|[Hl _]]; [left; exact E|lia].
        + rewrite get_set_other by exact Ei. exact H16. }
    assert (Cnt : (1 <= count_children cs')%nat).
    { destruct (count_two cs Hcnt) as (a & b & Hab & Hb & Ha' & Hb').
      destruct (Nat.eq_dec a i) as [Ea|Ea].
      - apply (count_ge_one cs' b); [unfold cs'; rewrite set_child_length; exact Hb|].
        unfold cs'. rewrite get_set_other by lia. exact Hb'.
      - apply (count_ge_one cs' a); [unfold cs'; rewrite set_child_length; lia|].
        unfold cs'. rewrite get_set_other by lia. exact Ha'. }
    split; [right; now apply reduce_full_wf|].
    intros q Vq. rewrite (reduce_full_lookup cs' q Kids Cnt Vq).
    destruct q as [|q0 qr]; [exfalso; exact (vkey_nonempty _ Vq eq_refl)|].
    rewrite !lookup_full. unfold cs'.
    destruct (N.eq_dec q0 k0) as [->|Hne0].
    + fold i. rewrite get_set_same by exact Hi. rewrite (Lc' qr Vq). fold child.
      destruct (list_eq_dec N.eq_dec qr kr) as [Er|Er]; destruct (list_eq_dec N.eq_dec (k0 :: qr) (k0 :: kr)) as [He|He]; try reflexivity.
      * exfalso. apply He. now rewrite Er.
      * exfalso. apply Er. now inversion He.
    + rewrite get_set_other by (unfold i; lia).
      destruct (list_eq_dec N.eq_dec (q0 :: qr) (k0 :: kr)) as [He|_]; [inversion He; contradiction|reflexivity].
Qed.

(* ================= any history of updates and deletions ================= *)
(* Trie.TryUpdate on nibble keys: an empty value deletes *)
Definition upd (n : node) (k : list N) (v : bytes) : node :=
  match v with [] => delete n k | _ => insert n k (NVal v) end.
(* the latest operation is at the head *)
Definition run_ops (ops : list (list N * bytes)) : node :=
  fold_right (fun kv n => upd n (fst kv) (snd kv)) NNil ops.
Fixpoint map_get (ops : list (list N * bytes)) (q : list N) : option bytes :=
  match ops with
  | [] => None
  | (k, v) :: t => if list_eq_dec N.eq_dec q k then (match v with [] => None | _ => Some v end) else map_get t q
  end.

Theorem run_ops_spec ops q : Forall (fun kv => vkey (fst kv)) ops -> vkey q ->
  wfr (run_ops ops) /\ lookup (run_ops ops) q = map_get ops q.
Proof.
  intros Ho Vq. revert q Vq. induction ops as [|[k v] t IH]; intros q Vq; cbn [run_ops fold_right map_get fst snd].
  - split; [left; reflexivity|reflexivity].
  - inversion Ho as [|? ? Hk Ht]; subst. cbn [fst] in Hk. fold (run_ops t).
    destruct (IH Ht q Vq) as [W L]. unfold upd. destruct v as [|v0 vt].
    + (* deletion *)
      destruct W as [En|W].
      * rewrite En in *. cbn [delete]. split; [left; reflexivity|]. rewrite lookup_NNil.
        destruct (list_eq_dec N.eq_dec q k); [reflexivity|]. rewrite <- L. reflexivity.
      * destruct (delete_spec _ W k Hk) as [Wd Ld]. split; [exact Wd|]. rewrite (Ld q Vq).
        destruct (list_eq_dec N.eq_dec q k); [reflexivity|exact L].
    + destruct W as [En|W].
      * rewrite En in *. split.
        -- right. rewrite insert_nil by (now apply vkey_nonempty). destruct Hk as (p & -> & Hp). apply wf_leaf; [exact Hp|discriminate].
        -- rewrite lookup_insert_nil by assumption. destruct (list_eq_dec N.eq_dec q k); [reflexivity|]. rewrite <- L. reflexivity.
      * split; [right; apply insert_wf; [exact W|exact Hk|discriminate]|].
        rewrite lookup_insert by (try assumption; discriminate).
        destruct (list_eq_dec N.eq_dec q k); [reflexivity|exact L].
Qed.

(* the state root is a function of the content: two histories of updates and deletions that end in
   the same content give the same tree, hence the same root under every hash function *)
Theorem history_independent ops1 ops2 :
  Forall (fun kv => vkey (fst kv)) ops1 -> Forall (fun kv => vkey (fst kv)) ops2 ->
  (forall q, vkey q -> map_get ops1 q = map_get ops2 q) ->
  run_ops ops1 = run_ops ops2 /\ forall H, root_hash H (run_ops ops1) = root_hash H (run_ops ops2).
Proof.
  intros H1 H2 E.
  assert (Eq : run_ops ops1 = run_ops ops2).
  { apply canonical_root.
    - exact (proj1 (run_ops_spec ops1 [16] H1 vkey_term)).
    - exact (proj1 (run_ops_spec ops2 [16] H2 vkey_term)).
    - intros q Vq. rewrite (proj2 (run_ops_spec ops1 q H1 Vq)), (proj2 (run_ops_spec ops2 q H2 Vq)). now apply E. }
  split; [exact Eq|]. intro H. now rewrite Eq.
Qed.
