(* Proofs about Model.Trie (C11): the trie is a function of its content.
   - well-formed tries (the shape invariant of the code: no empty short keys, no short node under
     a short node, full nodes with at least two children, values only behind a terminator);
   - insert and delete keep tries well-formed and change exactly the binding of their key;
   - two well-formed tries with the same bindings are the same tree (canonical form), hence any
     two operation histories that end in the same content give the same tree and the same root,
     whatever the hash function. *)
From Coq Require Import List NArith ZArith Bool Lia Arith.
From AnnVerif Require Import Base.Bytes Model.Rlp Model.Trie.
Import ListNotations.
Open Scope N_scope.

(* ---------- keys ---------- *)
Definition lt16 (x : N) : Prop := x < 16.
(* the tail of a key below some node: nibbles, then the terminator *)
Definition vkey (k : list N) : Prop := exists p, k = p ++ [16] /\ Forall lt16 p.

Lemma vkey_nonempty k : vkey k -> k <> [].
Proof. intros (p & -> & _). destruct p; discriminate. Qed.
Lemma vkey_cons x k : vkey (x :: k) -> (x = 16 /\ k = []) \/ (x < 16 /\ vkey k).
Proof.
  intros (p & E & Hp). destruct p as [|y p]; cbn in E.
  - injection E as -> ->. left. auto.
  - injection E as -> ->. inversion Hp; subst. right. split; [assumption|]. exists p. auto.
Qed.
Lemma vkey_cons_lt x k : x < 16 -> vkey k -> vkey (x :: k).
Proof. intros Hx (p & -> & Hp). exists (x :: p). split; [reflexivity|constructor; assumption]. Qed.
Lemma vkey_term : vkey [16].
Proof. exists []. split; [reflexivity|constructor]. Qed.
Lemma vkey_le16 k x : vkey k -> In x k -> x <= 16.
Proof.
  intros (p & -> & Hp) Hin. apply in_app_or in Hin as [Hin|[<-|[]]]; [|lia].
  rewrite Forall_forall in Hp. specialize (Hp x Hin). unfold lt16 in Hp. lia.
Qed.
Lemma vkey_skipn n k : vkey k -> (n < length k)%nat -> vkey (skipn n k).
Proof.
  revert k. induction n as [|n IH]; intros k Hk Hn; [exact Hk|].
  destruct k as [|x k]; [cbn in Hn; lia|]. cbn [skipn]. cbn in Hn.
  apply vkey_cons in Hk as [[-> ->]|[_ Hk]]; [cbn in Hn; lia|]. apply IH; [exact Hk|lia].
Qed.
(* the terminator occurs only at the end *)
Lemma vkey_term_last k n : vkey k -> (n < length k)%nat -> nth n k 0 = 16 -> S n = length k.
Proof.
  revert k. induction n as [|n IH]; intros k Hk Hn Hx; destruct k as [|x k]; try (cbn in Hn; lia); cbn in Hx.
  - subst x. apply vkey_cons in Hk as [[_ ->]|[Hlt _]]; [reflexivity|lia].
  - apply vkey_cons in Hk as [[_ ->]|[_ Hk]]; [cbn in Hn; lia|]. cbn in Hn. cbn [length]. f_equal. apply IH; [exact Hk|lia|exact Hx].
Qed.

(* ---------- well-formed tries ---------- *)
Inductive wf : node -> Prop :=
| wf_leaf p v : Forall lt16 p -> v <> [] -> wf (NShort (p ++ [16]) (NVal v))
| wf_ext k cs : k <> [] -> Forall lt16 k -> wf (NFull cs) -> wf (NShort k (NFull cs))
| wf_full cs : length cs = 17%nat -> (2 <= count_children cs)%nat ->
    (forall i c, nth_error cs i = Some c -> c <> NNil -> (i < 16)%nat -> wf c) ->
    (get_child cs 16 = NNil \/ exists v, get_child cs 16 = NVal v /\ v <> []) ->
    wf (NFull cs).
Definition wfr (n : node) : Prop := n = NNil \/ wf n.

(* ---------- children lists ---------- *)
Lemma set_child_length cs i c : length (set_child cs i c) = length cs.
Proof. revert i. induction cs as [|h t IH]; intros [|i]; cbn; auto. Qed.
Lemma get_set_same cs i c : (i < length cs)%nat -> get_child (set_child cs i c) i = c.
Proof. revert i. induction cs as [|h t IH]; intros [|i] H; cbn in *; try lia; [reflexivity|]. apply IH. lia. Qed.
Lemma get_set_other cs i j c : i <> j -> get_child (set_child cs i c) j = get_child cs j.
Proof.
  revert i j. induction cs as [|h t IH]; intros [|i] [|j] H; cbn; try reflexivity; try lia.
  apply IH. lia.
Qed.
Lemma nth_error_get cs i c : nth_error cs i = Some c -> get_child cs i = c.
Proof. revert i. induction cs as [|h t IH]; intros [|i]; cbn; try discriminate; [intro E; injection E; auto|apply IH]. Qed.
Lemma get_nth_error cs i : (i < length cs)%nat -> nth_error cs i = Some (get_child cs i).
Proof. revert i. induction cs as [|h t IH]; intros [|i] H; cbn in *; try lia; [reflexivity|]. apply IH. lia. Qed.

(* the nested loops of the model are child updates / child lookups *)
Lemma insert_full cs k0 kr v : (N.to_nat k0 < length cs)%nat ->
  insert (NFull cs) (k0 :: kr) v = NFull (set_child cs (N.to_nat k0) (insert (get_child cs (N.to_nat k0)) kr v)).
Proof.
  intro H. cbn [insert]. f_equal. generalize (N.to_nat k0) H. clear H.
  induction cs as [|c t IH]; intros i H; [cbn in H; lia|]. destruct i as [|i]; [reflexivity|].
  cbn [set_child get_child nth]. f_equal. apply IH. cbn in H. lia.
Qed.
Lemma lookup_full cs k0 kr : lookup (NFull cs) (k0 :: kr) = lookup (get_child cs (N.to_nat k0)) kr.
Proof.
  cbn [lookup]. generalize (N.to_nat k0).
  induction cs as [|c t IH]; intros i; [destruct i; reflexivity|]. destruct i as [|i]; [reflexivity|]. apply IH.
Qed.
Lemma delete_full cs k0 kr : (N.to_nat k0 < length cs)%nat ->
  delete (NFull cs) (k0 :: kr) = reduce_full (set_child cs (N.to_nat k0) (delete (get_child cs (N.to_nat k0)) kr)).
Proof.
  intro H. cbn [delete]. f_equal. generalize (N.to_nat k0) H. clear H.
  induction cs as [|c t IH]; intros i H; [cbn in H; lia|]. destruct i as [|i]; [reflexivity|].
  cbn [set_child get_child nth]. f_equal. apply IH. cbn in H. lia.
Qed.

(* ---------- prefixes ---------- *)
Lemma prefix_len_le_l a b : (prefix_len a b <= length a)%nat.
Proof. revert b. induction a as [|x a IH]; intros [|y b]; cbn; try lia. destruct (x =? y); [specialize (IH b)|]; lia. Qed.
Lemma prefix_len_le_r a b : (prefix_len a b <= length b)%nat.
Proof. revert b. induction a as [|x a IH]; intros [|y b]; cbn; try lia. destruct (x =? y); [specialize (IH b)|]; lia. Qed.
Lemma prefix_len_firstn a b : firstn (prefix_len a b) a = firstn (prefix_len a b) b.
Proof.
  revert b. induction a as [|x a IH]; intros [|y b]; cbn; try reflexivity.
  destruct (N.eqb_spec x y) as [->|]; [cbn; f_equal; apply IH|reflexivity].
Qed.
Lemma prefix_len_full a b : prefix_len a b = length b -> a = b ++ skipn (length b) a.
Proof.
  revert b. induction a as [|x a IH]; intros [|y b]; cbn; try reflexivity; try discriminate.
  destruct (N.eqb_spec x y) as [->|]; [|discriminate]. intro H. injection H as H. f_equal. apply IH. exact H.
Qed.
Lemma prefix_len_app b r : prefix_len (b ++ r) b = length b.
Proof. induction b as [|x b IH]; cbn; [destruct r; reflexivity|]. rewrite N.eqb_refl. f_equal. exact IH. Qed.
Lemma prefix_len_nth_neq a b : (prefix_len a b < length a)%nat -> (prefix_len a b < length b)%nat ->
  nth (prefix_len a b) a 0 <> nth (prefix_len a b) b 0.
Proof.
  revert b. induction a as [|x a IH]; intros [|y b]; cbn; try lia.
  destruct (N.eqb_spec x y) as [->|Hne]; cbn; [intros; apply IH; lia|intros _ _; exact Hne].
Qed.
Lemma prefix_len_sym a b : prefix_len a b = prefix_len b a.
Proof. revert b. induction a as [|x a IH]; intros [|y b]; cbn; try reflexivity. rewrite (N.eqb_sym y x). destruct (x =? y); [f_equal; apply IH|reflexivity]. Qed.

(* ---------- lookup after insert ---------- *)
Lemma lookup_short nk c key : lookup (NShort nk c) key =
  if Nat.ltb (length key) (length nk) then None
  else if Nat.eqb (prefix_len key nk) (length nk) then lookup c (skipn (length nk) key) else None.
Proof. reflexivity. Qed.

Lemma lookup_mk_short k v key : lookup (mk_short k v) key =
  match k with
  | [] => lookup v key
  | _ => lookup (NShort k v) key
  end.
Proof. destruct k; reflexivity. Qed.

Lemma skipn_all2 {A} (l : list A) n : (length l <= n)%nat -> skipn n l = [].
Proof. revert n. induction l as [|x l IH]; intros [|n] H; cbn in *; try reflexivity; try lia. apply IH. lia. Qed.

Lemma lookup_nils17 i key : lookup (get_child nils17 i) key = None.
Proof. unfold nils17, get_child. do 18 (destruct i as [|i]; [reflexivity|]). destruct i; reflexivity. Qed.

(* a key is found under a short node exactly when it extends the short key *)
Lemma lookup_short_app nk c r : lookup (NShort nk c) (nk ++ r) = lookup c r.
Proof.
  rewrite lookup_short. rewrite app_length.
  replace (length nk + length r <? length nk)%nat with false by (symmetry; apply Nat.ltb_ge; lia).
  rewrite prefix_len_app, Nat.eqb_refl. rewrite skipn_app, Nat.sub_diag, skipn_all. reflexivity.
Qed.

(* ---------- two-child branches (what insert builds when keys diverge) ---------- *)
Definition branch2 (i1 : N) (c1 : node) (i2 : N) (c2 : node) : list node :=
  set_child (set_child nils17 (N.to_nat i1) c1) (N.to_nat i2) c2.

Lemma nils17_length : length nils17 = 17%nat. Proof. reflexivity. Qed.
Lemma branch2_length i1 c1 i2 c2 : length (branch2 i1 c1 i2 c2) = 17%nat.
Proof. unfold branch2. rewrite !set_child_length. reflexivity. Qed.

Lemma get_nils17 i : get_child nils17 i = NNil.
Proof. unfold nils17, get_child. do 18 (destruct i as [|i]; [reflexivity|]). destruct i; reflexivity. Qed.

Lemma branch2_get i1 c1 i2 c2 j : i1 <= 16 -> i2 <= 16 -> i1 <> i2 ->
  get_child (branch2 i1 c1 i2 c2) j =
  if Nat.eqb j (N.to_nat i2) then c2 else if Nat.eqb j (N.to_nat i1) then c1 else NNil.
Proof.
  intros H1 H2 Hne. unfold branch2.
  destruct (Nat.eqb_spec j (N.to_nat i2)) as [->|Hj2].
  - apply get_set_same. rewrite set_child_length, nils17_length. lia.
  - rewrite get_set_other by lia. destruct (Nat.eqb_spec j (N.to_nat i1)) as [->|Hj1].
    + apply get_set_same. rewrite nils17_length. lia.
    + rewrite get_set_other by lia. apply get_nils17.
Qed.

Lemma count_set_nil_to cs i c : (i < length cs)%nat -> get_child cs i = NNil -> c <> NNil ->
  count_children (set_child cs i c) = S (count_children cs).
Proof.
  unfold count_children. revert i. induction cs as [|h t IH]; intros [|i] Hl Hg Hc; cbn in *; try lia.
  - subst h. destruct c; try contradiction; reflexivity.
  - destruct h; cbn; rewrite IH; auto; lia.
Qed.
Lemma count_set_keep cs i c : (i < length cs)%nat -> get_child cs i <> NNil -> c <> NNil ->
  count_children (set_child cs i c) = count_children cs.
Proof.
  unfold count_children. revert i. induction cs as [|h t IH]; intros [|i] Hl Hg Hc; cbn in *; try lia.
  - destruct h; try contradiction; destruct c; try contradiction; reflexivity.
  - destruct h; cbn; rewrite IH; auto; lia.
Qed.
Lemma count_nils17 : count_children nils17 = 0%nat. Proof. reflexivity. Qed.

Lemma branch2_count i1 c1 i2 c2 : i1 <= 16 -> i2 <= 16 -> i1 <> i2 -> c1 <> NNil -> c2 <> NNil ->
  count_children (branch2 i1 c1 i2 c2) = 2%nat.
Proof.
  intros H1 H2 Hne Hc1 Hc2. unfold branch2.
  rewrite count_set_nil_to; [| rewrite set_child_length, nils17_length; lia | rewrite get_set_other by lia; apply get_nils17 | exact Hc2].
  rewrite count_set_nil_to; [reflexivity | rewrite nils17_length; lia | apply get_nils17 | exact Hc1].
Qed.

(* what sits below a diverging nibble: the rest of the key and its subtree *)
Definition tail_ok (x : N) (c : node) : Prop :=
  c <> NNil /\ ((x = 16 /\ exists v, c = NVal v /\ v <> []) \/ (x < 16 /\ wf c)).

Lemma branch2_wf i1 c1 i2 c2 : i1 <> i2 -> tail_ok i1 c1 -> tail_ok i2 c2 -> wf (NFull (branch2 i1 c1 i2 c2)).
Proof.
  intros Hne (Hn1 & T1) (Hn2 & T2).
  assert (H1 : i1 <= 16) by (destruct T1 as [[-> _]|[H _]]; lia).
  assert (H2 : i2 <= 16) by (destruct T2 as [[-> _]|[H _]]; lia).
  apply wf_full.
  - apply branch2_length.
  - rewrite branch2_count by assumption. lia.
  - intros i c Hnth Hc Hi. apply nth_error_get in Hnth. rewrite branch2_get in Hnth by assumption.
    destruct (Nat.eqb_spec i (N.to_nat i2)) as [E|_].
    + subst c. destruct T2 as [[-> _]|[_ W]]; [lia|exact W].
    + destruct (Nat.eqb_spec i (N.to_nat i1)) as [E|_]; [|subst c; contradiction].
      subst c. destruct T1 as [[-> _]|[_ W]]; [lia|exact W].
  - rewrite branch2_get by assumption.
    destruct (Nat.eqb_spec 16 (N.to_nat i2)) as [E|_].
    + destruct T2 as [[_ (v & -> & Hv)]|[Hlt _]]; [right; eauto|lia].
    + destruct (Nat.eqb_spec 16 (N.to_nat i1)) as [E|_]; [|left; reflexivity].
      destruct T1 as [[_ (v & -> & Hv)]|[Hlt _]]; [right; eauto|lia].
Qed.

(* the subtree hung below a diverging nibble by insert: mk_short of the rest *)
Lemma tail_leaf x rest v : vkey (x :: rest) -> v <> [] -> tail_ok x (mk_short rest (NVal v)).
Proof.
  intros Hk Hv. apply vkey_cons in Hk as [[-> ->]|[Hx (p & -> & Hp)]].
  - split; [discriminate|]. left. split; [reflexivity|]. exists v. auto.
  - assert (Hne : p ++ [16] <> []) by (destruct p; discriminate).
    unfold mk_short. destruct (p ++ [16]) eqn:E; [contradiction|]. rewrite <- E.
    split; [discriminate|]. right. split; [exact Hx|]. apply wf_leaf; assumption.
Qed.

(* ---------- insert keeps tries well-formed ---------- *)
Lemma insert_short nk c k v : k <> [] ->
  insert (NShort nk c) k v =
  let m := prefix_len k nk in
  if Nat.eqb m (length nk) then NShort nk (insert c (skipn m k) v)
  else
    let b2 := branch2 (nth m nk 0) (mk_short (skipn (S m) nk) c) (nth m k 0) (mk_short (skipn (S m) k) v) in
    if Nat.eqb m 0 then NFull b2 else NShort (firstn m k) (NFull b2).
Proof. destruct k; [contradiction|reflexivity]. Qed.
Lemma insert_nil k v : k <> [] -> insert NNil k v = NShort k v.
Proof. destruct k; [contradiction|reflexivity]. Qed.
Lemma insert_empty n v : insert n [] v = v.
Proof. destruct n; reflexivity. Qed.

Lemma vkey_firstn_lt16 k m : vkey k -> (m < length k)%nat -> Forall lt16 (firstn m k).
Proof.
  revert k. induction m as [|m IH]; intros k Hk Hm; [constructor|].
  destruct k as [|x k]; [cbn in Hm; lia|]. cbn [firstn]. cbn in Hm.
  apply vkey_cons in Hk as [[_ ->]|[Hx Hk]]; [cbn in Hm; lia|]. constructor; [exact Hx|]. apply IH; [exact Hk|lia].
Qed.
Lemma skipn_nth_cons {A} (l : list A) m d : (m < length l)%nat -> skipn m l = nth m l d :: skipn (S m) l.
Proof. revert m. induction l as [|x l IH]; intros [|m] H; cbn in *; try lia; [reflexivity|]. apply IH. lia. Qed.
Lemma lt16_no_term k : Forall lt16 k -> ~ In 16 k.
Proof. intros H Hin. rewrite Forall_forall in H. specialize (H 16 Hin). unfold lt16 in H. lia. Qed.
Lemma vkey_has_term k : vkey k -> In 16 k.
Proof. intros (p & -> & _). apply in_or_app. right. left. reflexivity. Qed.
Lemma firstn_in {A} (l : list A) m x : In x (firstn m l) -> In x l.
Proof. revert m. induction l as [|y l IH]; intros [|m]; cbn; try tauto. intros [->|H]; [left; reflexivity|right; eapply IH; eauto]. Qed.
Lemma Forall_skipn {A} (P : A -> Prop) l m : Forall P l -> Forall P (skipn m l).
Proof. revert m. induction l as [|x l IH]; intros [|m] H; cbn; auto. inversion H; subst. apply IH. assumption. Qed.
Lemma Forall_nth_lt {A} (P : A -> Prop) l m d : Forall P l -> (m < length l)%nat -> P (nth m l d).
Proof. intros H Hm. rewrite Forall_forall in H. apply H. apply nth_In. exact Hm. Qed.

(* a valid key that runs along a short key either parts from it strictly inside both, or covers it *)
Lemma diverge_inside k nk : vkey k -> (vkey nk \/ (nk <> [] /\ Forall lt16 nk)) ->
  prefix_len k nk <> length nk -> (prefix_len k nk < length nk)%nat /\ (prefix_len k nk < length k)%nat.
Proof.
  intros Hk Hnk Hne. pose proof (prefix_len_le_r k nk) as Hr. pose proof (prefix_len_le_l k nk) as Hl.
  split; [lia|]. destruct (Nat.eq_dec (prefix_len k nk) (length k)) as [E|]; [exfalso|lia].
  (* k would be a proper prefix of nk *)
  rewrite prefix_len_sym in E. pose proof (prefix_len_full nk k E) as Hpre.
  pose proof (vkey_has_term k Hk) as Hin.
  destruct Hnk as [Hv|[_ Hlt]].
  - (* the terminator of k sits inside nk, so it ends nk *)
    destruct Hk as (p & -> & Hp). rewrite app_length in *. cbn [length] in *.
    assert (Hn : nth (length p) nk 0 = 16).
    { rewrite Hpre. rewrite app_nth1 by (rewrite app_length; cbn; lia). rewrite app_nth2 by lia. rewrite Nat.sub_diag. reflexivity. }
    assert (Hlen : (length p < length nk)%nat).
    { rewrite Hpre, app_length, app_length. cbn. lia. }
    pose proof (vkey_term_last nk (length p) Hv Hlen Hn) as Hs.
    apply Hne. rewrite prefix_len_sym. rewrite E. lia.
  - apply (lt16_no_term nk Hlt). rewrite Hpre. apply in_or_app. left. exact Hin.
Qed.

Definition keeps_full (n n' : node) : Prop := forall cs, n = NFull cs -> exists cs', n' = NFull cs'.

Theorem insert_wf : forall n, wf n -> forall k v, vkey k -> v <> [] ->
  wf (insert n k (NVal v)) /\ keeps_full n (insert n k (NVal v)).
Proof.
  induction 1 as [p u Hp Hu|nk cs Hne Hlt Hfull IHfull|cs Hlen Hcnt Hch IHch H16]; intros k v Hk Hv.
  - (* leaf *)
    split; [|intros cs E; discriminate].
    pose proof (vkey_nonempty k Hk) as Hkne. rewrite (insert_short _ _ _ _ Hkne). cbn zeta.
    set (nk := p ++ [16]) in *. assert (Hnk : vkey nk) by (exists p; auto).
    destruct (Nat.eqb_spec (prefix_len k nk) (length nk)) as [E|E].
    + (* same key: the value is replaced *)
      pose proof (prefix_len_full k nk E) as Hpre.
      assert (Hlenk : length k = length nk).
      { assert (Hn : nth (length p) k 0 = 16).
        { rewrite Hpre. unfold nk. rewrite app_nth1 by (rewrite app_length; cbn; lia). rewrite app_nth2 by lia. rewrite Nat.sub_diag. reflexivity. }
        assert (Hl : (length p < length k)%nat) by (rewrite Hpre, app_length; unfold nk; rewrite app_length; cbn; lia).
        pose proof (vkey_term_last k (length p) Hk Hl Hn). unfold nk. rewrite app_length. cbn. lia. }
      rewrite E. rewrite skipn_all2 by lia. rewrite insert_empty. apply wf_leaf; assumption.
    + destruct (diverge_inside k nk Hk (or_introl Hnk) E) as [Hm1 Hm2].
      set (m := prefix_len k nk) in *.
      assert (Hneq : nth m nk 0 <> nth m k 0).
      { intro Heq. apply (prefix_len_nth_neq k nk Hm2 Hm1). symmetry. exact Heq. }
      assert (T1 : tail_ok (nth m nk 0) (mk_short (skipn (S m) nk) (NVal u))).
      { apply tail_leaf; [|exact Hu]. rewrite <- skipn_nth_cons by exact Hm1. apply vkey_skipn; assumption. }
      assert (T2 : tail_ok (nth m k 0) (mk_short (skipn (S m) k) (NVal v))).
      { apply tail_leaf; [|exact Hv]. rewrite <- skipn_nth_cons by exact Hm2. apply vkey_skipn; assumption. }
      pose proof (branch2_wf _ _ _ _ Hneq T1 T2) as Wb.
      destruct (Nat.eqb_spec m 0) as [E0|E0]; [exact Wb|].
      apply wf_ext; [destruct k; [contradiction|]; destruct m; [contradiction|discriminate]|apply vkey_firstn_lt16; assumption|exact Wb].
  - (* extension *)
    split; [|intros cs0 E; discriminate].
    pose proof (vkey_nonempty k Hk) as Hkne. rewrite (insert_short _ _ _ _ Hkne). cbn zeta.
    destruct (Nat.eqb_spec (prefix_len k nk) (length nk)) as [E|E].
    + pose proof (prefix_len_full k nk E) as Hpre.
      assert (Hlk : (length nk < length k)%nat).
      { destruct (Nat.lt_ge_cases (length nk) (length k)) as [|Hge]; [assumption|exfalso].
        rewrite skipn_all2 in Hpre by lia. rewrite app_nil_r in Hpre. subst k.
        apply (lt16_no_term nk Hlt). apply vkey_has_term. exact Hk. }
      rewrite E. pose proof (vkey_skipn (length nk) k Hk Hlk) as Hr.
      destruct (IHfull (skipn (length nk) k) v Hr Hv) as [W Kf]. destruct (Kf cs eq_refl) as (cs' & Ecs').
      rewrite Ecs' in *. apply wf_ext; assumption.
    + destruct (diverge_inside k nk Hk (or_intror (conj Hne Hlt)) E) as [Hm1 Hm2].
      set (m := prefix_len k nk) in *.
      assert (Hneq : nth m nk 0 <> nth m k 0).
      { intro Heq. apply (prefix_len_nth_neq k nk Hm2 Hm1). symmetry. exact Heq. }
      assert (T1 : tail_ok (nth m nk 0) (mk_short (skipn (S m) nk) (NFull cs))).
      { assert (Hx : nth m nk 0 < 16) by (apply (Forall_nth_lt lt16); assumption).
        unfold mk_short. destruct (skipn (S m) nk) as [|y r] eqn:Er.
        - split; [discriminate|]. right. split; assumption.
        - split; [discriminate|]. right. split; [exact Hx|]. apply wf_ext; [discriminate| |exact Hfull].
          rewrite <- Er. apply Forall_skipn. exact Hlt. }
      assert (T2 : tail_ok (nth m k 0) (mk_short (skipn (S m) k) (NVal v))).
      { apply tail_leaf; [|exact Hv]. rewrite <- skipn_nth_cons by exact Hm2. apply vkey_skipn; assumption. }
      pose proof (branch2_wf _ _ _ _ Hneq T1 T2) as Wb.
      destruct (Nat.eqb_spec m 0) as [E0|E0]; [exact Wb|].
      apply wf_ext; [destruct k; [contradiction|]; destruct m; [contradiction|discriminate]|apply vkey_firstn_lt16; assumption|exact Wb].
  - (* full node *)
    destruct k as [|k0 kr]; [exfalso; exact (vkey_nonempty _ Hk eq_refl)|].
    assert (Hk0 : k0 <= 16) by (apply (vkey_le16 _ _ Hk); left; reflexivity).
    assert (Hi : (N.to_nat k0 < length cs)%nat) by lia.
    rewrite (insert_full cs k0 kr (NVal v) Hi).
    split; [|intros cs0 _; eexists; reflexivity].
    set (i := N.to_nat k0) in *. set (c' := insert (get_child cs i) kr (NVal v)).
    assert (Hc' : c' <> NNil /\ ((k0 = 16 /\ c' = NVal v) \/ (k0 < 16 /\ wf c'))).
    { apply vkey_cons in Hk as [[-> ->]|[Hlt Hkr]].
      - unfold c'. rewrite insert_empty. split; [discriminate|left; auto].
      - assert (Hi16 : (i < 16)%nat) by (unfold i; lia).
        destruct (get_child cs i) as [|w|nk c|cs1] eqn:Eg.
        + unfold c'. rewrite insert_nil by (apply vkey_nonempty; exact Hkr).
          split; [discriminate|right]. split; [exact Hlt|]. destruct Hkr as (p & -> & Hp). apply wf_leaf; assumption.
        + exfalso. pose proof (Hch i (NVal w) ltac:(rewrite get_nth_error by exact Hi; rewrite Eg; reflexivity) ltac:(discriminate) Hi16) as W. inversion W.
        + assert (Hn : nth_error cs i = Some (NShort nk c)) by (rewrite get_nth_error by exact Hi; rewrite Eg; reflexivity).
          destruct (IHch i _ Hn ltac:(discriminate) Hi16 kr v Hkr Hv) as [W _].
          split; [|right; split; [exact Hlt|exact W]]. unfold c'. intro Ec. rewrite Ec in W. inversion W.
        + assert (Hn : nth_error cs i = Some (NFull cs1)) by (rewrite get_nth_error by exact Hi; rewrite Eg; reflexivity).
          destruct (IHch i _ Hn ltac:(discriminate) Hi16 kr v Hkr Hv) as [W _].
          split; [|right; split; [exact Hlt|exact W]]. unfold c'. intro Ec. rewrite Ec in W. inversion W. }
    destruct Hc' as [Hcn Hc'].
    apply wf_full.
    + rewrite set_child_length. exact Hlen.
    + destruct (get_child cs i) eqn:Eg0.
      * rewrite count_set_nil_to; [lia|exact Hi|exact Eg0|exact Hcn].
      * rewrite count_set_keep; [exact Hcnt|exact Hi|rewrite Eg0; discriminate|exact Hcn].
      * rewrite count_set_keep; [exact Hcnt|exact Hi|rewrite Eg0; discriminate|exact Hcn].
      * rewrite count_set_keep; [exact Hcnt|exact Hi|rewrite Eg0; discriminate|exact Hcn].
    + intros j c Hn Hc Hj. apply nth_error_get in Hn. destruct (Nat.eq_dec i j) as [<-|Hij].
      * rewrite get_set_same in Hn by exact Hi. subst c. destruct Hc' as [[-> _]|[_ W]]; [unfold i in Hj; lia|exact W].
      * rewrite get_set_other in Hn by exact Hij. apply (Hch j c); [|exact Hc|exact Hj].
        rewrite get_nth_error by lia. rewrite Hn. reflexivity.
    + destruct (Nat.eq_dec i 16) as [Ei|Ei].
      * rewrite Ei. rewrite get_set_same by lia. destruct Hc' as [[_ ->]|[Hlt _]]; [right; eauto|unfold i in Ei; lia].
      * rewrite get_set_other by exact Ei. exact H16.
Qed.
