(* gemmill/mempool under every schedule of concurrent submitters (Model/TxPool.v, [mev]): the pool
   invariant survives any interleaving of lookups, pushes and updates, and between two updates a
   transaction is accepted at most once however many goroutines hand it in at the same moment. *)
From Coq Require Import List NArith ZArith Bool Lia.
From AnnVerif Require Import Model.TxPool Proofs.PoolProofs.
Import ListNotations.

Theorem mem_inv_any_schedule evs : forall m, mem_inv m -> mem_inv (mev_run evs m).
Proof.
  unfold mev_run. induction evs as [|e t IH]; intros m H; cbn [fold_left]; [exact H|].
  apply IH. destruct e as [x|x|ids]; cbn [mev_step]; [exact H|apply mem_receive_inv; exact H|apply mem_update_inv; exact H].
Qed.

Lemma accepted_cached x evs : forall m, forallb (fun e => negb (is_update e)) evs = true ->
  In x (m_cache m) -> accepted x evs m = O.
Proof.
  induction evs as [|e t IH]; intros m Hn Hin; cbn [accepted]; [reflexivity|].
  cbn [forallb] in Hn. apply andb_true_iff in Hn as [He Hn].
  destruct e as [y|y|ids]; cbn [mev_step]; [apply IH; auto| |discriminate].
  unfold mem_receive. destruct (existsb (N.eqb y) (m_cache m)) eqn:Ey; cbn [fst snd].
  - rewrite andb_false_r. cbn. apply IH; auto.
  - destruct (N.eqb_spec y x) as [->|Hne].
    + exfalso. apply (existsb_in x (m_cache m)) in Hin. congruence.
    + cbn. apply IH; [exact Hn|]. cbn. apply in_or_app. left. exact Hin.
Qed.

Theorem accepted_at_most_once x evs : forall m, forallb (fun e => negb (is_update e)) evs = true ->
  (accepted x evs m <= 1)%nat.
Proof.
  induction evs as [|e t IH]; intros m Hn; cbn [accepted]; [lia|].
  cbn [forallb] in Hn. apply andb_true_iff in Hn as [He Hn].
  destruct e as [y|y|ids]; cbn [mev_step]; [apply IH; auto| |discriminate].
  destruct (N.eqb y x && snd (mem_receive m y)) eqn:Eacc; [|cbn; apply IH; exact Hn].
  apply andb_true_iff in Eacc as [Eyx Eok]. apply N.eqb_eq in Eyx. subst y.
  rewrite accepted_cached; [lia|exact Hn|].
  unfold mem_receive in *. destruct (existsb (N.eqb x) (m_cache m)); [discriminate|].
  cbn. apply in_or_app. right. left. reflexivity.
Qed.
