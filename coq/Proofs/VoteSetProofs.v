(* Proofs about Model.VoteSet: the accounting invariant of addVote/SetPeerMaj23 for every
   operation sequence, and its consequences (soundness, stability, completeness at tally level,
   counted-once, rejected votes are no-ops, MakeCommit verifies, VerifyCommit sound). *)
From Coq Require Import List NArith ZArith Lia Bool Arith.
From AnnVerif Require Import Base.Res Base.Bytes Model.VoteSet Proofs.BytesProofs Proofs.PowerSum.
Import ListNotations.
Open Scope Z_scope.

(* ---------- generic list facts ---------- *)
Lemma set_nth_length {A} (l : list A) i x : length (set_nth l i x) = length l.
Proof. revert i; induction l as [|h t IH]; intros [|i]; simpl; auto. Qed.
Lemma nth_set_nth_eq {A} (l : list A) i x d : (i < length l)%nat -> nth i (set_nth l i x) d = x.
Proof. revert i; induction l as [|h t IH]; intros [|i] H; simpl in *; try lia; auto. apply IH; lia. Qed.
Lemma nth_set_nth_neq {A} (l : list A) i j x d : i <> j -> nth j (set_nth l i x) d = nth j l d.
Proof. revert i j; induction l as [|h t IH]; intros [|i] [|j] H; simpl; auto; try lia. Qed.

Lemma overlay_length base over : length (overlay base over) = length base.
Proof. revert over; induction base as [|b bt IH]; intros [|o ot]; simpl; auto. Qed.
Lemma nth_overlay base over j : length over = length base ->
  nth j (overlay base over) None = match nth j over None with Some v => Some v | None => nth j base None end.
Proof.
  revert over j; induction base as [|b bt IH]; intros [|o ot] j H; simpl in *; try lia.
  - destruct j; reflexivity.
  - destruct j as [|j]; [destruct o; reflexivity|]. apply IH. lia.
Qed.

Lemma lookup_update_eq {A} k (v : A) l : lookup k (update k v l) = Some v.
Proof.
  induction l as [|[k' v'] t IH]; simpl.
  - rewrite bytes_eqb_refl. reflexivity.
  - destruct (bytes_eqb k' k) eqn:E; simpl; [rewrite bytes_eqb_refl; reflexivity|]. rewrite E. exact IH.
Qed.
Lemma lookup_update_neq {A} k k2 (v : A) l : k <> k2 -> lookup k2 (update k v l) = lookup k2 l.
Proof.
  intro Hne. induction l as [|[k' v'] t IH]; simpl.
  - destruct (bytes_eqb k k2) eqn:E; [apply bytes_eqb_eq in E; contradiction|reflexivity].
  - destruct (bytes_eqb k' k) eqn:E; simpl.
    + apply bytes_eqb_eq in E. subst k'.
      destruct (bytes_eqb k k2) eqn:E2; [apply bytes_eqb_eq in E2; contradiction|reflexivity].
    + destruct (bytes_eqb k' k2); [reflexivity|exact IH].
Qed.

Lemma nth_repeat_none {A} n j : nth j (repeat (@None A) n) None = None.
Proof. revert j; induction n; intros [|j]; simpl; auto. Qed.

Definition is_some {A} (o : option A) : bool := match o with Some _ => true | None => false end.

(* ---------- block ids: the key is injective ---------- *)
Lemma bid_key_inj a b : bid_key a = bid_key b -> a = b.
Proof.
  unfold bid_key. intro H.
  apply enc_bs_inj in H as [Hh H].
  destruct a as [ah at_ ap], b as [bh bt bp]; cbn [b_hash b_total b_phash] in *. subst bh.
  apply enc_varint_inj in H as [Ht Hp]. subst bt. f_equal.
  rewrite <- (app_nil_r (enc_bs ap)), <- (app_nil_r (enc_bs bp)) in Hp. apply enc_bs_inj in Hp as [-> _]. reflexivity.
Qed.

Lemma bid_eqb_eq a b : bid_eqb a b = true <-> a = b.
Proof.
  unfold bid_eqb. split.
  - intro H. apply andb_true_iff in H as [H H3]. apply andb_true_iff in H as [H1 H2].
    apply bytes_eqb_eq in H1, H3. apply Z.eqb_eq in H2. destruct a, b; simpl in *; congruence.
  - intros ->. rewrite !bytes_eqb_refl, Z.eqb_refl. reflexivity.
Qed.

(* ---------- the accounting invariant ---------- *)
Section VoteSetInv.
Variable vals : list validator.
Variables (H R : Z) (T : N).
Hypothesis Hbounded : bounded vals.
Let n := length vals.

Definition valid (v : vote) : Prop :=
  0 <= v_index v /\ (exists pw, nth_error vals (Z.to_nat (v_index v)) = Some (v_addr v, pw)) /\
  v_addr v <> [] /\ v_height v = H /\ v_round v = R /\ v_type v = T /\ v_sigok v = true.

Definition slot_ok (offered : list vote) (key : option bytes) (i : nat) (o : option vote) : Prop :=
  match o with
  | None => True
  | Some v => valid v /\ Z.to_nat (v_index v) = i /\ In v offered /\
              match key with Some k => bid_key (v_bid v) = k | None => True end
  end.

Definition psum (l : list (option vote)) : Z := pow_of vals (fun i => is_some (nth i l None)).

Record Inv (offered : list vote) (vs : voteset) : Prop := {
  i_vals : vs_vals vs = vals;
  i_h : vs_height vs = H; i_r : vs_round vs = R; i_t : vs_type vs = T;
  i_len : length (vs_votes vs) = n;
  i_votes : forall i, slot_ok offered None i (nth i (vs_votes vs) None);
  i_sum : vs_sum vs = psum (vs_votes vs);
  i_bv : forall key bv, lookup key (vs_byblock vs) = Some bv ->
      length (bv_votes bv) = n /\
      (forall i, slot_ok offered (Some key) i (nth i (bv_votes bv) None)) /\
      bv_sum bv = psum (bv_votes bv) /\
      (forall i, nth i (bv_votes bv) None <> None -> nth i (vs_votes vs) None <> None);
  i_maj : forall b, vs_maj23 vs = Some b ->
      exists bv, lookup (bid_key b) (vs_byblock vs) = Some bv /\ quorum vals <= bv_sum bv /\
        (forall i, nth i (bv_votes bv) None <> None ->
           exists v', nth i (vs_votes vs) None = Some v' /\ v_bid v' = b);
  i_cross : forall key bv, lookup key (vs_byblock vs) = Some bv -> quorum vals <= bv_sum bv -> vs_maj23 vs <> None;
  (* while no majority is known, every primary vote is also in the tally of its own block *)
  i_prim : vs_maj23 vs = None -> forall i w, nth i (vs_votes vs) None = Some w ->
      exists bv, lookup (bid_key (v_bid w)) (vs_byblock vs) = Some bv /\ nth i (bv_votes bv) None <> None
}.

Lemma slot_ok_weaken offered v0 key i o : slot_ok offered key i o -> slot_ok (v0 :: offered) key i o.
Proof. destruct o as [v|]; simpl; [|auto]. intros (A & B & C & D). split; [exact A|]. split; [exact B|]. split; [right; exact C|exact D]. Qed.

Lemma Inv_weaken offered v0 vs : Inv offered vs -> Inv (v0 :: offered) vs.
Proof.
  intros [A B C D E F G I J K L]. constructor; auto.
  - intro i. apply slot_ok_weaken. apply F.
  - intros key bv Hl. destruct (I key bv Hl) as (I1 & I2 & I3 & I4). repeat split; auto.
    intro i. apply slot_ok_weaken. apply I2.
Qed.

Lemma psum_repeat_none k : psum (repeat None k) = 0.
Proof.
  unfold psum, pow_of.
  assert (Hz : forall vs j, pow_from j vs (fun i => is_some (nth i (repeat (@None vote) k) None)) = 0).
  { induction vs as [|[a p] t IH]; intro j; simpl; [reflexivity|]. rewrite nth_repeat_none. simpl. apply IH. }
  apply Hz.
Qed.

Lemma quorum_pos : 0 < quorum vals.
Proof.
  rewrite quorum_spec, two_thirds_spec by assumption. destruct Hbounded as [Hn Hb].
  assert (H0 := pow_from_nonneg 0 vals (fun _ => true) Hn). unfold pow_of.
  assert (0 <= pow_from 0 vals (fun _ => true) * 2 / 3) by (apply Z.div_pos; lia). lia.
Qed.

Lemma psum_le_total l : psum l <= pow_of vals (fun _ => true).
Proof. apply pow_from_le_total. apply Hbounded. Qed.
Lemma psum_nonneg l : 0 <= psum l.
Proof. apply pow_from_nonneg. apply Hbounded. Qed.

Lemma psum_ext l1 l2 : (forall i, is_some (nth i l1 None) = is_some (nth i l2 None)) -> psum l1 = psum l2.
Proof. intro Hx. apply pow_from_ext. intros i _. apply Hx. Qed.

Lemma psum_set l i v a pw : nth i l None = None -> (i < length l)%nat -> nth_error vals i = Some (a, pw) ->
  psum (set_nth l i (Some v)) = psum l + pw.
Proof.
  intros Hn Hl He. unfold psum, pow_of.
  rewrite <- (pow_from_set 0 vals (fun j => is_some (nth j l None)) i pw a); [| lia | rewrite Nat.sub_0_r; exact He | rewrite Hn; reflexivity].
  apply pow_from_ext. intros j _. destruct (Nat.eqb_spec j i) as [->|Hne].
  - rewrite nth_set_nth_eq by assumption. reflexivity.
  - rewrite nth_set_nth_neq by auto. reflexivity.
Qed.

Lemma Inv_new vs : new_voteset H R T vals = Ok vs -> Inv [] vs.
Proof.
  unfold new_voteset. destruct (H =? 0); [discriminate|]. intro E; injection E as <-.
  constructor; cbn [vs_vals vs_height vs_round vs_type vs_votes vs_sum vs_maj23 vs_byblock]; auto.
  - apply repeat_length.
  - intro i. rewrite nth_repeat_none. exact I.
  - rewrite psum_repeat_none. reflexivity.
  - intros key bv Hl. discriminate.
  - intros b Hm. discriminate.
  - intros key bv Hl. discriminate.
  - intros _ i w Hw. rewrite nth_repeat_none in Hw. discriminate.
Qed.

(* SetPeerMaj23 *)
Lemma Inv_set_peer offered vs peer b : Inv offered vs -> Inv offered (set_peer_maj23 vs peer b).
Proof.
  intros HI. unfold set_peer_maj23. destruct (lookup peer (vs_peers vs)); [exact HI|].
  destruct HI as [A B C D E F G I J K L].
  destruct (lookup (bid_key b) (vs_byblock vs)) as [bv|] eqn:El.
  - destruct (bv_peer bv) eqn:Ep.
    + constructor; cbn [vs_vals vs_height vs_round vs_type vs_votes vs_sum vs_maj23 vs_byblock]; auto.
    + assert (Hlk : forall key bv', lookup key (update (bid_key b) (mkBV true (bv_votes bv) (bv_sum bv)) (vs_byblock vs)) = Some bv' ->
                exists bv0, lookup key (vs_byblock vs) = Some bv0 /\ bv_votes bv' = bv_votes bv0 /\ bv_sum bv' = bv_sum bv0).
      { intros key bv' Hl. destruct (list_eq_dec N.eq_dec (bid_key b) key) as [<-|Hne].
        - rewrite lookup_update_eq in Hl. injection Hl as <-. eauto.
        - rewrite lookup_update_neq in Hl by assumption. eauto. }
      constructor; cbn [vs_vals vs_height vs_round vs_type vs_votes vs_sum vs_maj23 vs_byblock]; auto.
      * intros key bv' Hl. destruct (Hlk key bv' Hl) as (bv0 & H0 & -> & ->). exact (I key bv0 H0).
      * intros b0 Hm. destruct (J b0 Hm) as (bv0 & H0 & Hq & Hc).
        destruct (list_eq_dec N.eq_dec (bid_key b) (bid_key b0)) as [Heq|Hne].
        -- rewrite <- Heq in *. rewrite El in H0. injection H0 as <-.
           eexists. rewrite lookup_update_eq. split; [reflexivity|]. cbn [bv_votes bv_sum]. auto.
        -- exists bv0. rewrite lookup_update_neq by assumption. auto.
      * intros key bv' Hl Hq. destruct (Hlk key bv' Hl) as (bv0 & H0 & _ & Hs). rewrite Hs in Hq. exact (K key bv0 H0 Hq).
      * intros Hm i w Hw. destruct (L Hm i w Hw) as (bvw & Hlw & Hnw).
        destruct (list_eq_dec N.eq_dec (bid_key b) (bid_key (v_bid w))) as [Heq|Hne].
        -- rewrite <- Heq in *. rewrite El in Hlw. injection Hlw as <-.
           eexists. rewrite lookup_update_eq. split; [reflexivity|]. cbn [bv_votes]. exact Hnw.
        -- exists bvw. rewrite lookup_update_neq by assumption. auto.
  - assert (Hlk : forall key bv', lookup key (update (bid_key b) (mkBV true (repeat None (length (vs_vals vs))) 0) (vs_byblock vs)) = Some bv' ->
                lookup key (vs_byblock vs) = Some bv' \/ (key = bid_key b /\ bv' = mkBV true (repeat None n) 0)).
    { intros key bv' Hl. destruct (list_eq_dec N.eq_dec (bid_key b) key) as [<-|Hne].
      - rewrite lookup_update_eq in Hl. injection Hl as <-. right. rewrite A. auto.
      - rewrite lookup_update_neq in Hl by assumption. auto. }
    constructor; cbn [vs_vals vs_height vs_round vs_type vs_votes vs_sum vs_maj23 vs_byblock]; auto.
    + intros key bv' Hl. destruct (Hlk key bv' Hl) as [H0|[-> ->]]; [exact (I key bv' H0)|].
      cbn [bv_votes bv_sum]. split; [apply repeat_length|]. split; [intro i; rewrite nth_repeat_none; exact Logic.I|].
      split; [rewrite psum_repeat_none; reflexivity|]. intros i Hx. rewrite nth_repeat_none in Hx. congruence.
    + intros b0 Hm. destruct (J b0 Hm) as (bv0 & H0 & Hq & Hc).
      exists bv0. rewrite lookup_update_neq; [auto|]. intro Heq. rewrite Heq in El. congruence.
    + intros key bv' Hl Hq. destruct (Hlk key bv' Hl) as [H0|[-> ->]]; [exact (K key bv' H0 Hq)|].
      cbn [bv_sum] in Hq. pose proof quorum_pos. lia.
    + intros Hm i w Hw. destruct (L Hm i w Hw) as (bvw & Hlw & Hnw).
      exists bvw. rewrite lookup_update_neq; [auto|]. intro Heq. rewrite Heq in El. congruence.
Qed.

(* ---- the tail of addVerifiedVote, once the block's tally [bv] has been chosen ---- *)
Definition finish_state (vs : voteset) (votes1 : list (option vote)) (sum1 : Z) (key : bytes)
           (bv : blockvotes) (i : nat) (v : vote) (pow : Z) : voteset :=
  let bv' := bv_add bv i v pow in
  let crossed := (bv_sum bv <? quorum (vs_vals vs)) && (quorum (vs_vals vs) <=? bv_sum bv') in
  let mv := if crossed then
              match vs_maj23 vs with
              | None => (Some (v_bid v), overlay votes1 (bv_votes bv'))
              | Some m => (Some m, votes1)
              end
            else (vs_maj23 vs, votes1) in
  mkVS (vs_height vs) (vs_round vs) (vs_type vs) (vs_vals vs) (snd mv) sum1 (fst mv)
       (update key bv' (vs_byblock vs)) (vs_peers vs).

Lemma finish_Inv offered vs votes1 sum1 key bv i v pow :
  Inv offered vs -> valid v -> In v offered -> i = Z.to_nat (v_index v) -> key = bid_key (v_bid v) ->
  nth_error vals i = Some (v_addr v, pow) ->
  length votes1 = n ->
  (forall j, slot_ok offered None j (nth j votes1 None)) ->
  sum1 = psum votes1 ->
  (forall j, j <> i -> nth j votes1 None = nth j (vs_votes vs) None) ->
  nth i votes1 None <> None ->
  (forall b bvb, vs_maj23 vs = Some b -> lookup (bid_key b) (vs_byblock vs) = Some bvb ->
      nth i (bv_votes bvb) None <> None -> exists v', nth i votes1 None = Some v' /\ v_bid v' = b) ->
  (forall b, vs_maj23 vs = Some b -> bid_key b = key -> nth i votes1 None = Some v) ->
  (vs_maj23 vs = None -> nth i votes1 None = Some v \/
     (exists ex, nth i votes1 None = Some ex /\ nth i (vs_votes vs) None = Some ex /\ bid_key (v_bid ex) <> key)) ->
  (lookup key (vs_byblock vs) = Some bv \/
   (lookup key (vs_byblock vs) = None /\ bv_votes bv = repeat None n /\ bv_sum bv = 0)) ->
  nth i (bv_votes bv) None = None ->
  Inv offered (finish_state vs votes1 sum1 key bv i v pow).
Proof.
  intros HI Hvalid Hin Hi Hkey Hnth V1 V2 V3 V4 V5 V7 V8 V9 Hbv Hslot.
  destruct HI as [A B C D E F G I J K L].
  (* facts about bv and bv' *)
  assert (Hbvfacts : length (bv_votes bv) = n /\ (forall j, slot_ok offered (Some key) j (nth j (bv_votes bv) None)) /\
                     bv_sum bv = psum (bv_votes bv) /\
                     (forall j, nth j (bv_votes bv) None <> None -> nth j (vs_votes vs) None <> None)).
  { destruct Hbv as [Hl|(Hl & Hv & Hs)]; [exact (I key bv Hl)|].
    rewrite Hv, Hs. split; [apply repeat_length|]. split; [intro j; rewrite nth_repeat_none; exact Logic.I|].
    split; [rewrite psum_repeat_none; reflexivity|]. intros j Hx. rewrite nth_repeat_none in Hx. congruence. }
  destruct Hbvfacts as (B1 & B2 & B3 & B4).
  assert (Hilt : (i < n)%nat).
  { unfold n. apply nth_error_Some. rewrite Hnth. discriminate. }
  assert (Hpow : 0 <= pow).
  { destruct Hbounded as [Hnn _]. apply nth_error_In in Hnth. eapply Forall_forall in Hnn; [|exact Hnth]. exact Hnn. }
  set (bv' := bv_add bv i v pow).
  assert (Ebv' : bv' = mkBV (bv_peer bv) (set_nth (bv_votes bv) i (Some v)) (wrap64 (bv_sum bv + pow))).
  { unfold bv', bv_add, nth_vote. rewrite Hslot. reflexivity. }
  assert (Hsum' : bv_sum bv' = psum (bv_votes bv')).
  { rewrite Ebv'. cbn [bv_sum bv_votes]. rewrite (psum_set _ i v (v_addr v) pow) by (auto; lia).
    rewrite B3. apply wrap64_id.
    pose proof (psum_set (bv_votes bv) i v (v_addr v) pow Hslot ltac:(lia) Hnth) as Hs.
    pose proof (psum_le_total (set_nth (bv_votes bv) i (Some v))). pose proof (psum_nonneg (bv_votes bv)).
    destruct Hbounded as [_ Hb]. lia. }
  assert (Hlen' : length (bv_votes bv') = n) by (rewrite Ebv'; cbn [bv_votes]; rewrite set_nth_length; exact B1).
  assert (Hslots' : forall j, slot_ok offered (Some key) j (nth j (bv_votes bv') None)).
  { intro j. rewrite Ebv'. cbn [bv_votes]. destruct (Nat.eq_dec i j) as [<-|Hne].
    - rewrite nth_set_nth_eq by lia. simpl. auto.
    - rewrite nth_set_nth_neq by assumption. apply B2. }
  assert (Hmono : bv_sum bv <= bv_sum bv').
  { rewrite Hsum', B3. rewrite Ebv'. cbn [bv_votes]. rewrite (psum_set _ i v (v_addr v) pow) by (auto; lia). lia. }
  assert (Hsome' : forall j, nth j (bv_votes bv') None <> None -> nth j votes1 None <> None).
  { intros j Hj. rewrite Ebv' in Hj. cbn [bv_votes] in Hj. destruct (Nat.eq_dec i j) as [<-|Hne]; [exact V5|].
    rewrite nth_set_nth_neq in Hj by assumption. rewrite V4 by auto. apply B4. exact Hj. }
  (* lookups in the updated map *)
  assert (Hlk : forall k bvx, lookup k (update key bv' (vs_byblock vs)) = Some bvx ->
                (k = key /\ bvx = bv') \/ (k <> key /\ lookup k (vs_byblock vs) = Some bvx)).
  { intros k bvx Hl. destruct (list_eq_dec N.eq_dec key k) as [<-|Hne].
    - rewrite lookup_update_eq in Hl. injection Hl as <-. auto.
    - rewrite lookup_update_neq in Hl by assumption. right. split; [congruence|exact Hl]. }
  unfold finish_state. fold bv'. rewrite A.
  destruct ((bv_sum bv <? quorum vals) && (quorum vals <=? bv_sum bv')) eqn:Ecross.
  - apply andb_true_iff in Ecross as [Eo Eq]. apply Z.ltb_lt in Eo. apply Z.leb_le in Eq.
    destruct (vs_maj23 vs) as [m|] eqn:Em.
    + (* majority already known: the old tally for m had quorum; here another block crossed or m itself cannot (orig<q) *)
      cbn [fst snd].
      constructor; cbn [vs_vals vs_height vs_round vs_type vs_votes vs_sum vs_maj23 vs_byblock]; auto.
      * intros k bvx Hl. destruct (Hlk k bvx Hl) as [[-> ->]|[Hne Hl0]].
        -- repeat split; auto.
        -- destruct (I k bvx Hl0) as (I1 & I2 & I3 & I4). repeat split; auto.
           intros j Hj. destruct (Nat.eq_dec j i) as [->|Hji]; [exact V5|]. rewrite V4 by assumption. apply I4. exact Hj.
      * intros b Hb. injection Hb as <-. destruct (J m eq_refl) as (bvm & Hlm & Hqm & Hcm).
        destruct (list_eq_dec N.eq_dec (bid_key m) key) as [Heq|Hne].
        -- exfalso. destruct Hbv as [Hl|(Hl & _)]; rewrite Heq in Hlm; rewrite Hlm in Hl; [injection Hl as <-; lia|discriminate].
        -- exists bvm. rewrite lookup_update_neq by congruence. split; [exact Hlm|]. split; [exact Hqm|].
           intros j Hj. destruct (Nat.eq_dec j i) as [->|Hji].
           ++ exact (V7 m bvm eq_refl Hlm Hj).
           ++ rewrite V4 by assumption. apply Hcm. exact Hj.
      * intros k bvx Hl Hq. discriminate.
      * intro Hx. discriminate.
    + (* first majority *)
      cbn [fst snd].
      assert (Hov : forall j, nth j (overlay votes1 (bv_votes bv')) None =
                              match nth j (bv_votes bv') None with Some w => Some w | None => nth j votes1 None end).
      { intro j. apply nth_overlay. lia. }
      constructor; cbn [vs_vals vs_height vs_round vs_type vs_votes vs_sum vs_maj23 vs_byblock]; auto.
      * rewrite overlay_length. exact V1.
      * intro j. rewrite Hov. specialize (Hslots' j). destruct (nth j (bv_votes bv') None) as [w|]; [|apply V2].
        simpl in Hslots' |- *. tauto.
      * rewrite V3. apply psum_ext. intro j. rewrite Hov.
        destruct (nth j (bv_votes bv') None) as [w|] eqn:Ew; [|reflexivity].
        assert (Hx : nth j votes1 None <> None) by (apply Hsome'; rewrite Ew; discriminate).
        destruct (nth j votes1 None); [reflexivity|congruence].
      * intros k bvx Hl. destruct (Hlk k bvx Hl) as [[-> ->]|[Hne Hl0]].
        -- repeat split; auto. intros j Hj. rewrite Hov. destruct (nth j (bv_votes bv') None); [discriminate|congruence].
        -- destruct (I k bvx Hl0) as (I1 & I2 & I3 & I4). repeat split; auto.
           intros j Hj. rewrite Hov. destruct (nth j (bv_votes bv') None); [discriminate|].
           destruct (Nat.eq_dec j i) as [->|Hji]; [exact V5|]. rewrite V4 by assumption. apply I4. exact Hj.
      * intros b Hb. injection Hb as <-. exists bv'. rewrite Hkey, lookup_update_eq. split; [reflexivity|]. split; [exact Eq|].
        intros j Hj. rewrite Hov. specialize (Hslots' j). destruct (nth j (bv_votes bv') None) as [w|]; [|congruence].
        exists w. split; [reflexivity|]. simpl in Hslots'. destruct Hslots' as (_ & _ & _ & Hk). rewrite Hkey in Hk. apply bid_key_inj. exact Hk.
      * intros k bvx Hl Hq. discriminate.
      * intro Hx. discriminate.
  - (* no crossing *)
    cbn [fst snd].
    constructor; cbn [vs_vals vs_height vs_round vs_type vs_votes vs_sum vs_maj23 vs_byblock]; auto.
    + intros k bvx Hl. destruct (Hlk k bvx Hl) as [[-> ->]|[Hne Hl0]].
      * repeat split; auto.
      * destruct (I k bvx Hl0) as (I1 & I2 & I3 & I4). repeat split; auto.
        intros j Hj. destruct (Nat.eq_dec j i) as [->|Hji]; [exact V5|]. rewrite V4 by assumption. apply I4. exact Hj.
    + intros b Hb. destruct (J b Hb) as (bvm & Hlm & Hqm & Hcm).
      destruct (list_eq_dec N.eq_dec (bid_key b) key) as [Heq|Hne].
      * exists bv'. rewrite Heq, lookup_update_eq. split; [reflexivity|].
        assert (bvm = bv) by (destruct Hbv as [Hl|(Hl & _)]; rewrite Heq in Hlm; rewrite Hlm in Hl; [injection Hl as <-; reflexivity|discriminate]).
        subst bvm. split; [lia|].
        intros j Hj. destruct (Nat.eq_dec j i) as [->|Hji].
        -- exists v. split; [exact (V8 b Hb Heq)|]. apply bid_key_inj. congruence.
        -- rewrite V4 by assumption. apply Hcm. rewrite Ebv' in Hj. cbn [bv_votes] in Hj. rewrite nth_set_nth_neq in Hj by auto. exact Hj.
      * exists bvm. rewrite lookup_update_neq by congruence. split; [exact Hlm|]. split; [exact Hqm|].
        intros j Hj. destruct (Nat.eq_dec j i) as [->|Hji].
        -- exact (V7 b bvm Hb Hlm Hj).
        -- rewrite V4 by assumption. apply Hcm. exact Hj.
    + intros k bvx Hl Hq. destruct (Hlk k bvx Hl) as [[-> ->]|[Hne Hl0]].
      * apply andb_false_iff in Ecross. destruct Ecross as [Eo|Eq].
        -- apply Z.ltb_ge in Eo. destruct Hbv as [Hl0|(_ & _ & Hs)]; [exact (K key bv Hl0 Eo)|]. pose proof quorum_pos. lia.
        -- apply Z.leb_gt in Eq. lia.
      * exact (K k bvx Hl0 Hq).
    + intros Hm j w Hw. destruct (Nat.eq_dec j i) as [->|Hji].
      * destruct (V9 Hm) as [Hv|(ex & Hex1 & Hex0 & Hkne)].
        -- rewrite Hv in Hw. injection Hw as <-. exists bv'. rewrite <- Hkey, lookup_update_eq. split; [reflexivity|].
           rewrite Ebv'. cbn [bv_votes]. rewrite nth_set_nth_eq by lia. discriminate.
        -- rewrite Hex1 in Hw. injection Hw as <-. destruct (L Hm i ex Hex0) as (bvw & Hlw & Hnw).
           exists bvw. rewrite lookup_update_neq by congruence. auto.
      * rewrite V4 in Hw by assumption. destruct (L Hm j w Hw) as (bvw & Hlw & Hnw).
        destruct (list_eq_dec N.eq_dec (bid_key (v_bid w)) key) as [Heq|Hne].
        -- exists bv'. rewrite Heq, lookup_update_eq. split; [reflexivity|].
           assert (bvw = bv) by (destruct Hbv as [Hl|(Hl & _)]; rewrite Heq in Hlw; rewrite Hlw in Hl; [injection Hl as <-; reflexivity|discriminate]).
           subst bvw. rewrite Ebv'. cbn [bv_votes]. rewrite nth_set_nth_neq by auto. exact Hnw.
        -- exists bvw. rewrite lookup_update_neq by congruence. auto.
Qed.

(* early return of addVerifiedVote: only the primary list may have changed *)
Lemma early_Inv offered vs votes1 sum1 i :
  Inv offered vs ->
  length votes1 = n ->
  (forall j, slot_ok offered None j (nth j votes1 None)) ->
  sum1 = psum votes1 ->
  (forall j, j <> i -> nth j votes1 None = nth j (vs_votes vs) None) ->
  nth i votes1 None <> None ->
  (forall b bvb, vs_maj23 vs = Some b -> lookup (bid_key b) (vs_byblock vs) = Some bvb ->
      nth i (bv_votes bvb) None <> None -> exists v', nth i votes1 None = Some v' /\ v_bid v' = b) ->
  (vs_maj23 vs = None -> nth i votes1 None = nth i (vs_votes vs) None) ->
  Inv offered (mkVS (vs_height vs) (vs_round vs) (vs_type vs) (vs_vals vs) votes1 sum1
                    (vs_maj23 vs) (vs_byblock vs) (vs_peers vs)).
Proof.
  intros [A B C D E F G I J K L] V1 V2 V3 V4 V5 V7 V9.
  constructor; cbn [vs_vals vs_height vs_round vs_type vs_votes vs_sum vs_maj23 vs_byblock]; auto.
  - intros k bvx Hl. destruct (I k bvx Hl) as (I1 & I2 & I3 & I4). repeat split; auto.
    intros j Hj. destruct (Nat.eq_dec j i) as [->|Hji]; [exact V5|]. rewrite V4 by assumption. apply I4. exact Hj.
  - intros b Hb. destruct (J b Hb) as (bvm & Hlm & Hqm & Hcm). exists bvm. split; [exact Hlm|]. split; [exact Hqm|].
    intros j Hj. destruct (Nat.eq_dec j i) as [->|Hji]; [exact (V7 b bvm Hb Hlm Hj)|]. rewrite V4 by assumption. apply Hcm. exact Hj.
  - intros Hm j w Hw. apply (L Hm j w). destruct (Nat.eq_dec j i) as [->|Hji]; [rewrite <- V9 by assumption; exact Hw|].
    rewrite <- V4 by assumption. exact Hw.
Qed.

Lemma get_vote_none vs i key : get_vote vs i key = None ->
  (forall ex, nth i (vs_votes vs) None = Some ex -> bid_key (v_bid ex) <> key) /\
  (forall bv, lookup key (vs_byblock vs) = Some bv -> nth i (bv_votes bv) None = None).
Proof.
  unfold get_vote, nth_vote. intro Hg. split.
  - intros ex Hex Hk. rewrite Hex in Hg. rewrite Hk, bytes_eqb_refl in Hg. discriminate.
  - intros bv Hl. rewrite Hl in Hg. destruct (nth i (vs_votes vs) None) as [ex|]; [|exact Hg].
    destruct (bytes_eqb (bid_key (v_bid ex)) key); [discriminate|exact Hg].
Qed.

Ltac to_finish vs votes1 sum1 key bv i v pow c :=
  match goal with
  | |- ?L = _ -> _ =>
    replace L with (@Ok (voteset * bool * option vote) (finish_state vs votes1 sum1 key bv i v pow, true, c));
    [| unfold finish_state;
       destruct ((bv_sum bv <? quorum (vs_vals vs)) && (quorum (vs_vals vs) <=? bv_sum (bv_add bv i v pow)));
       [destruct (vs_maj23 vs)|]; reflexivity]
  end.

Lemma add_verified_Inv offered vs v i key pow vs' added conf :
  Inv offered vs -> valid v -> In v offered -> i = Z.to_nat (v_index v) -> key = bid_key (v_bid v) ->
  nth_error vals i = Some (v_addr v, pow) -> get_vote vs i key = None ->
  add_verified vs v i key pow = Ok (vs', added, conf) ->
  Inv offered vs' /\ (conf = None -> added = true).
Proof.
  intros HI Hvalid Hin Hi Hkey Hnth Hget.
  destruct (get_vote_none _ _ _ Hget) as [G1 G2].
  assert (Hilt : (i < n)%nat) by (unfold n; apply nth_error_Some; rewrite Hnth; discriminate).
  assert (Hpow : 0 <= pow).
  { destruct Hbounded as [Hnn _]. apply nth_error_In in Hnth. eapply Forall_forall in Hnn; [|exact Hnth]. exact Hnn. }
  pose proof HI as [A B C D E F G I J K L].
  unfold add_verified, nth_vote.
  destruct (nth i (vs_votes vs) None) as [ex|] eqn:Eex.
  - (* the validator already has a primary vote, for another block *)
    destruct (bid_eqb (v_bid ex) (v_bid v)) eqn:Ebid.
    { apply bid_eqb_eq in Ebid. exfalso. apply (G1 ex eq_refl). rewrite Ebid. auto. }
    set (votes1 := match vs_maj23 vs with
                   | Some m => if bytes_eqb (bid_key m) key then set_nth (vs_votes vs) i (Some v) else vs_votes vs
                   | None => vs_votes vs end).
    assert (Hv1 : votes1 = vs_votes vs \/ (votes1 = set_nth (vs_votes vs) i (Some v) /\ exists m, vs_maj23 vs = Some m /\ bid_key m = key)).
    { unfold votes1. destruct (vs_maj23 vs) as [m|]; [|auto]. destruct (bytes_eqb (bid_key m) key) eqn:Ek; [|auto].
      apply bytes_eqb_eq in Ek. right. eauto. }
    assert (V1 : length votes1 = n) by (destruct Hv1 as [->|[-> _]]; [|rewrite set_nth_length]; exact E).
    assert (V4 : forall j, j <> i -> nth j votes1 None = nth j (vs_votes vs) None).
    { intros j Hj. destruct Hv1 as [->|[-> _]]; [reflexivity|]. apply nth_set_nth_neq. auto. }
    assert (V5i : nth i votes1 None = Some ex \/ nth i votes1 None = Some v).
    { destruct Hv1 as [->|[-> _]]; [left; exact Eex|right; apply nth_set_nth_eq; lia]. }
    assert (V5 : nth i votes1 None <> None) by (destruct V5i as [-> | ->]; discriminate).
    assert (V2 : forall j, slot_ok offered None j (nth j votes1 None)).
    { intro j. destruct (Nat.eq_dec j i) as [->|Hji]; [|rewrite V4 by assumption; apply F].
      destruct V5i as [-> | ->]; [rewrite <- Eex; apply F|]. simpl. auto. }
    assert (V3 : vs_sum vs = psum votes1).
    { rewrite G. apply psum_ext. intro j. destruct (Nat.eq_dec j i) as [->|Hji]; [|rewrite V4 by assumption; reflexivity].
      rewrite Eex. destruct V5i as [-> | ->]; reflexivity. }
    assert (V7 : forall b bvb, vs_maj23 vs = Some b -> lookup (bid_key b) (vs_byblock vs) = Some bvb ->
                 nth i (bv_votes bvb) None <> None -> exists v', nth i votes1 None = Some v' /\ v_bid v' = b).
    { intros b bvb Hb Hl Hs. destruct (J b Hb) as (bvm & Hlm & _ & Hcm). rewrite Hl in Hlm. injection Hlm as <-.
      destruct (Hcm i Hs) as (v' & Hv' & Hbid). rewrite Eex in Hv'. injection Hv' as <-.
      assert (Hne : bid_key b <> key) by (rewrite <- Hbid; apply G1; reflexivity).
      exists ex. split; [|exact Hbid]. unfold votes1. rewrite Hb.
      destruct (bytes_eqb (bid_key b) key) eqn:Ek; [apply bytes_eqb_eq in Ek; contradiction|exact Eex]. }
    assert (V8 : forall b, vs_maj23 vs = Some b -> bid_key b = key -> nth i votes1 None = Some v).
    { intros b Hb Hk. unfold votes1. rewrite Hb, Hk, bytes_eqb_refl. apply nth_set_nth_eq. lia. }
    assert (V9e : vs_maj23 vs = None -> nth i votes1 None = nth i (vs_votes vs) None).
    { intro Hm. unfold votes1. rewrite Hm. reflexivity. }
    assert (V9 : vs_maj23 vs = None -> nth i votes1 None = Some v \/
               (exists ex0, nth i votes1 None = Some ex0 /\ nth i (vs_votes vs) None = Some ex0 /\ bid_key (v_bid ex0) <> key)).
    { intro Hm. right. exists ex. rewrite (V9e Hm). split; [exact Eex|]. split; [exact Eex|]. apply G1. reflexivity. }
    fold votes1.
    destruct (lookup key (vs_byblock vs)) as [bv|] eqn:Elk.
    + destruct (bv_peer bv) eqn:Epeer.
      * to_finish vs votes1 (vs_sum vs) key bv i v pow (Some ex).
        intro Hr. injection Hr as <- <- <-. split; [|discriminate].
        apply (finish_Inv offered vs votes1 (vs_sum vs) key bv i v pow); auto.
      * intro Hr. injection Hr as <- <- <-. split; [|discriminate].
        apply (early_Inv offered vs votes1 (vs_sum vs) i); auto.
    + intro Hr. injection Hr as <- <- <-. split; [|discriminate].
      apply (early_Inv offered vs votes1 (vs_sum vs) i); auto.
  - (* first vote of this validator *)
    set (votes1 := set_nth (vs_votes vs) i (Some v)).
    assert (V1 : length votes1 = n) by (unfold votes1; rewrite set_nth_length; exact E).
    assert (V4 : forall j, j <> i -> nth j votes1 None = nth j (vs_votes vs) None).
    { intros j Hj. apply nth_set_nth_neq. auto. }
    assert (V5i : nth i votes1 None = Some v) by (apply nth_set_nth_eq; lia).
    assert (V5 : nth i votes1 None <> None) by (rewrite V5i; discriminate).
    assert (V2 : forall j, slot_ok offered None j (nth j votes1 None)).
    { intro j. destruct (Nat.eq_dec j i) as [->|Hji]; [|rewrite V4 by assumption; apply F]. rewrite V5i. simpl. auto. }
    assert (V3 : wrap64 (vs_sum vs + pow) = psum votes1).
    { unfold votes1. rewrite (psum_set _ i v (v_addr v) pow) by (auto; lia). rewrite G. apply wrap64_id.
      pose proof (psum_set (vs_votes vs) i v (v_addr v) pow Eex ltac:(lia) Hnth) as Hs.
      pose proof (psum_le_total (set_nth (vs_votes vs) i (Some v))). pose proof (psum_nonneg (vs_votes vs)).
      destruct Hbounded as [_ Hb]. lia. }
    assert (V7 : forall b bvb, vs_maj23 vs = Some b -> lookup (bid_key b) (vs_byblock vs) = Some bvb ->
                 nth i (bv_votes bvb) None <> None -> exists v', nth i votes1 None = Some v' /\ v_bid v' = b).
    { intros b bvb Hb Hl Hs. destruct (I _ _ Hl) as (_ & _ & _ & I4). apply I4 in Hs. congruence. }
    assert (V8 : forall b, vs_maj23 vs = Some b -> bid_key b = key -> nth i votes1 None = Some v) by (intros; exact V5i).
    assert (V9 : vs_maj23 vs = None -> nth i votes1 None = Some v \/
               (exists ex0, nth i votes1 None = Some ex0 /\ nth i (vs_votes vs) None = Some ex0 /\ bid_key (v_bid ex0) <> key)) by (intro; left; exact V5i).
    fold votes1.
    destruct (lookup key (vs_byblock vs)) as [bv|] eqn:Elk.
    + to_finish vs votes1 (wrap64 (vs_sum vs + pow)) key bv i v pow (@None vote).
      intro Hr. injection Hr as <- <- <-. split; [|reflexivity].
      apply (finish_Inv offered vs votes1 (wrap64 (vs_sum vs + pow)) key bv i v pow); auto.
    + to_finish vs votes1 (wrap64 (vs_sum vs + pow)) key (mkBV false (repeat None (length (vs_vals vs))) 0) i v pow (@None vote).
      intro Hr. injection Hr as <- <- <-. split; [|reflexivity].
      apply (finish_Inv offered vs votes1 (wrap64 (vs_sum vs + pow)) key
                        (mkBV false (repeat None (length (vs_vals vs))) 0) i v pow); auto.
      * right. rewrite A. auto.
      * cbn [bv_votes]. apply nth_repeat_none.
Qed.

(* ---------- AddVote ---------- *)
Ltac rej_with H :=
  apply H; [first [left; reflexivity | right; left; reflexivity | right; right; left; reflexivity
                  | right; right; right; left; reflexivity | right; right; right; right; split; reflexivity] | reflexivity].

Lemma add_vote_Inv offered vs v :
  Inv offered vs ->
  exists vs' a c, add_vote vs v = Ok (vs', a, c) /\ Inv (v :: offered) vs' /\
    ((c = 1 \/ c = 2 \/ c = 3 \/ c = 4 \/ (c = 0 /\ a = false))%N -> vs' = vs) /\
    (a = true -> valid v).
Proof.
  intros HI. pose proof HI as [A B C D E F G I J K L].
  assert (Hw := Inv_weaken offered v vs HI).
  assert (Hrej : forall c a, ((c = 1 \/ c = 2 \/ c = 3 \/ c = 4 \/ (c = 0 /\ a = false))%N) ->
            a = false ->
            exists vs' a' c', Ok (vs, a, c) = Ok (vs', a', c') /\ Inv (v :: offered) vs' /\
              ((c' = 1 \/ c' = 2 \/ c' = 3 \/ c' = 4 \/ (c' = 0 /\ a' = false))%N -> vs' = vs) /\ (a' = true -> valid v)).
  { intros c a Hc Ha. exists vs, a, c. split; [reflexivity|]. split; [exact Hw|]. split; [auto|]. subst a. discriminate. }
  unfold add_vote.
  destruct (v_index v <? 0) eqn:E1; [rej_with Hrej|]. apply Z.ltb_ge in E1.
  destruct (v_addr v) as [|a0 arest] eqn:E2; [rej_with Hrej|].
  destruct ((v_height v =? vs_height vs) && (v_round v =? vs_round vs) && N.eqb (v_type v) (vs_type vs)) eqn:E3;
    cbn [negb]; [|rej_with Hrej].
  apply andb_true_iff in E3 as [E3 E3t]. apply andb_true_iff in E3 as [E3h E3r].
  apply Z.eqb_eq in E3h, E3r. apply N.eqb_eq in E3t.
  destruct (Z.of_nat (length (vs_vals vs)) <=? v_index v) eqn:E4b; [rej_with Hrej|].
  destruct (nth_error (vs_vals vs) (Z.to_nat (v_index v))) as [[addr pow]|] eqn:E4; [|rej_with Hrej].
  rewrite <- E2.
  destruct (bytes_eqb (v_addr v) addr) eqn:E5; cbn [negb]; [|rej_with Hrej].
  apply bytes_eqb_eq in E5. subst addr.
  destruct (get_vote vs (Z.to_nat (v_index v)) (bid_key (v_bid v))) as [ex|] eqn:E6.
  { destruct (bytes_eqb (v_sig ex) (v_sig v)); rej_with Hrej. }
  destruct (v_sigok v) eqn:E7; cbn [negb]; [|rej_with Hrej].
  assert (Hvalid : valid v).
  { unfold valid. rewrite A in E4. split; [exact E1|]. split; [eauto|]. split; [rewrite E2; discriminate|].
    split; [congruence|]. split; [congruence|]. split; [congruence|exact E7]. }
  rewrite A in E4.
  destruct (add_verified vs v (Z.to_nat (v_index v)) (bid_key (v_bid v)) pow) as [[[vs' added] conf]|e|w] eqn:Eav.
  - destruct (add_verified_Inv (v :: offered) vs v _ _ pow vs' added conf Hw Hvalid (or_introl eq_refl) eq_refl eq_refl E4 E6 Eav) as [HI' Hadd].
    destruct conf as [cv|].
    + exists vs', added, 5%N. split; [reflexivity|]. split; [exact HI'|]. split; [|auto].
      intros [Hc|[Hc|[Hc|[Hc|[Hc _]]]]]; discriminate.
    + rewrite (Hadd eq_refl). exists vs', true, 0%N. split; [reflexivity|]. split; [exact HI'|]. split; [|auto].
      intros [Hc|[Hc|[Hc|[Hc|[_ Hc]]]]]; discriminate.
  - exfalso. unfold add_verified in Eav.
    destruct (nth_vote (vs_votes vs) (Z.to_nat (v_index v))) as [ex|]; [destruct (bid_eqb (v_bid ex) (v_bid v)); [discriminate|]|].
    + destruct (lookup (bid_key (v_bid v)) (vs_byblock vs)) as [bv|]; [destruct (bv_peer bv)|]; try discriminate.
      destruct ((bv_sum bv <? _) && _); [destruct (vs_maj23 vs)|]; discriminate.
    + destruct (lookup (bid_key (v_bid v)) (vs_byblock vs)) as [bv|];
        (destruct ((_ <? _) && _); [destruct (vs_maj23 vs)|]; discriminate).
  - exfalso. unfold add_verified in Eav.
    destruct (get_vote_none _ _ _ E6) as [G1 _].
    destruct (nth_vote (vs_votes vs) (Z.to_nat (v_index v))) as [ex|] eqn:Eex.
    + destruct (bid_eqb (v_bid ex) (v_bid v)) eqn:Eb.
      * apply bid_eqb_eq in Eb. apply (G1 ex Eex). rewrite Eb. reflexivity.
      * destruct (lookup (bid_key (v_bid v)) (vs_byblock vs)) as [bv|]; [destruct (bv_peer bv)|]; try discriminate.
        destruct ((bv_sum bv <? _) && _); [destruct (vs_maj23 vs)|]; discriminate.
    + destruct (lookup (bid_key (v_bid v)) (vs_byblock vs)) as [bv|];
        (destruct ((_ <? _) && _); [destruct (vs_maj23 vs)|]; discriminate).
Qed.

End VoteSetInv.

(* ---------- every operation sequence ---------- *)
Inductive vsop := OAdd (v : vote) | OPeer (p : bytes) (b : block_id).

Definition vs_step (vs : voteset) (o : vsop) : voteset :=
  match o with
  | OAdd v => match add_vote vs v with Ok (vs', _, _) => vs' | _ => vs end
  | OPeer p b => set_peer_maj23 vs p b
  end.
Definition vs_run (vs0 : voteset) (ops : list vsop) : voteset := fold_left vs_step ops vs0.
Fixpoint offered_of (ops : list vsop) : list vote :=
  match ops with [] => [] | OAdd v :: t => v :: offered_of t | OPeer _ _ :: t => offered_of t end.

Definition valid_b (vals : list validator) (H R : Z) (T : N) (v : vote) : bool :=
  (0 <=? v_index v) &&
  match nth_error vals (Z.to_nat (v_index v)) with
  | Some (a, _) => bytes_eqb (v_addr v) a
  | None => false
  end &&
  match v_addr v with [] => false | _ => true end &&
  (v_height v =? H) && (v_round v =? R) && N.eqb (v_type v) T && v_sigok v.

Lemma valid_b_of_valid vals H R T v : valid vals H R T v -> valid_b vals H R T v = true.
Proof.
  intros (A & (pw & B) & C & D & E & F & G). unfold valid_b.
  rewrite B, bytes_eqb_refl, D, E, F, G, !Z.eqb_refl, N.eqb_refl.
  replace (0 <=? v_index v) with true by (symmetry; apply Z.leb_le; exact A).
  destruct (v_addr v); [contradiction|reflexivity].
Qed.

(* validator i offered a valid vote for block b *)
Definition voted_for (vals : list validator) (H R : Z) (T : N) (offered : list vote) (b : block_id) (i : nat) : bool :=
  existsb (fun v => valid_b vals H R T v && Nat.eqb (Z.to_nat (v_index v)) i && bid_eqb (v_bid v) b) offered.

Section VoteSetTheorems.
Variable vals : list validator.
Variables (H R : Z) (T : N).
Hypothesis Hbounded : bounded vals.
Variable vs0 : voteset.
Hypothesis Hnew : new_voteset H R T vals = Ok vs0.

Lemma run_Inv ops : forall vs offered, Inv vals H R T offered vs ->
  Inv vals H R T (rev (offered_of ops) ++ offered) (vs_run vs ops).
Proof.
  induction ops as [|o ops IH]; intros vs offered HI; [exact HI|].
  cbn [vs_run fold_left]. change (fold_left vs_step ops (vs_step vs o)) with (vs_run (vs_step vs o) ops).
  destruct o as [v|p b]; cbn [offered_of rev vs_step].
  - destruct (add_vote_Inv vals H R T Hbounded offered vs v HI) as (vs' & a & c & Hav & HI' & _).
    rewrite Hav. rewrite <- app_assoc. cbn [app]. apply IH. exact HI'.
  - apply IH. apply Inv_set_peer; assumption.
Qed.

Theorem reachable_Inv ops : Inv vals H R T (rev (offered_of ops)) (vs_run vs0 ops).
Proof.
  rewrite <- (app_nil_r (rev (offered_of ops))). apply run_Inv. apply Inv_new; assumption.
Qed.

(* AddVote never panics in a reachable state *)
Theorem add_vote_total ops v : exists vs' a c, add_vote (vs_run vs0 ops) v = Ok (vs', a, c).
Proof.
  destruct (add_vote_Inv vals H R T Hbounded _ _ v (reachable_Inv ops)) as (vs' & a & c & Hav & _). eauto.
Qed.

(* soundness: a reported majority is backed by valid votes of distinct validators with > 2/3 *)
Theorem maj23_sound ops b :
  vs_maj23 (vs_run vs0 ops) = Some b ->
  two_thirds vals < pow_of vals (voted_for vals H R T (offered_of ops) b).
Proof.
  intro Hm. destruct (reachable_Inv ops) as [A B C D E F G I J K L].
  destruct (J b Hm) as (bv & Hl & Hq & _).
  destruct (I _ _ Hl) as (I1 & I2 & I3 & _).
  rewrite quorum_spec in Hq by assumption.
  assert (Hle : bv_sum bv <= pow_of vals (voted_for vals H R T (offered_of ops) b)).
  { rewrite I3. unfold psum. apply pow_from_mono; [apply Hbounded|].
    intros i _ Hs. specialize (I2 i). destruct (nth i (bv_votes bv) None) as [v|]; [|discriminate].
    simpl in I2. destruct I2 as (Hv & Hi & Hin & Hk).
    unfold voted_for. apply existsb_exists. exists v. split; [apply in_rev; exact Hin|].
    rewrite (valid_b_of_valid _ _ _ _ _ Hv). rewrite Hi, Nat.eqb_refl. cbn [andb].
    apply bid_eqb_eq. apply bid_key_inj. exact Hk. }
  lia.
Qed.

(* stability: a reported majority never changes or disappears *)
Lemma add_verified_keeps_maj vs v i key pow vs1 ad cf b :
  add_verified vs v i key pow = Ok (vs1, ad, cf) -> vs_maj23 vs = Some b -> vs_maj23 vs1 = Some b.
Proof.
  unfold add_verified. intros Eav Hm. rewrite Hm in Eav.
  destruct (nth_vote (vs_votes vs) i) as [ex|].
  - destruct (bid_eqb (v_bid ex) (v_bid v)); [discriminate|].
    destruct (lookup key (vs_byblock vs)) as [bv|].
    + destruct (bv_peer bv).
      * destruct ((bv_sum bv <? _) && _); injection Eav as E _ _; rewrite <- E; reflexivity.
      * injection Eav as E _ _; rewrite <- E; reflexivity.
    + injection Eav as E _ _; rewrite <- E; reflexivity.
  - destruct (lookup key (vs_byblock vs)) as [bv|];
      (destruct ((_ <? _) && _); injection Eav as E _ _; rewrite <- E; reflexivity).
Qed.

Lemma add_vote_keeps_maj vs v vs' a c b :
  add_vote vs v = Ok (vs', a, c) -> vs_maj23 vs = Some b -> vs_maj23 vs' = Some b.
Proof.
  unfold add_vote. intros Hav Hm.
  destruct (v_index v <? 0); [injection Hav as E _ _; rewrite <- E; exact Hm|].
  destruct (v_addr v); [injection Hav as E _ _; rewrite <- E; exact Hm|].
  destruct (negb _); [injection Hav as E _ _; rewrite <- E; exact Hm|].
  destruct (_ <=? v_index v); [injection Hav as E _ _; rewrite <- E; exact Hm|].
  destruct (nth_error _ _) as [[addr pow]|]; [|injection Hav as E _ _; rewrite <- E; exact Hm].
  destruct (negb _); [injection Hav as E _ _; rewrite <- E; exact Hm|].
  destruct (get_vote _ _ _); [destruct (bytes_eqb _ _); injection Hav as E _ _; rewrite <- E; exact Hm|].
  destruct (negb _); [injection Hav as E _ _; rewrite <- E; exact Hm|].
  destruct (add_verified _ _ _ _ _) as [[[vs1 ad] cf]|e|w] eqn:Eav; try discriminate.
  pose proof (add_verified_keeps_maj _ _ _ _ _ _ _ _ _ Eav Hm) as Hm1.
  destruct cf; [injection Hav as E _ _; rewrite <- E; exact Hm1|].
  destruct ad; [injection Hav as E _ _; rewrite <- E; exact Hm1|discriminate].
Qed.

Theorem maj23_stable ops more b :
  vs_maj23 (vs_run vs0 ops) = Some b -> vs_maj23 (vs_run vs0 (ops ++ more)) = Some b.
Proof.
  unfold vs_run. rewrite fold_left_app. generalize (fold_left vs_step ops vs0). clear.
  induction more as [|o more IH]; intros vs Hm; [exact Hm|].
  cbn [fold_left]. apply IH. destruct o as [v|p bb]; cbn [vs_step].
  - destruct (add_vote vs v) as [[[vs' a] c]|e|w] eqn:Eav; try exact Hm.
    eapply add_vote_keeps_maj; eauto.
  - unfold set_peer_maj23. destruct (lookup p (vs_peers vs)); [exact Hm|]. exact Hm.
Qed.

(* each validator's power is counted at most once: the running sum is the weighted count of the
   validators that hold a primary vote; likewise every per-block tally *)
Theorem counted_once ops :
  let vs := vs_run vs0 ops in
  vs_sum vs = pow_of vals (fun i => is_some (nth i (vs_votes vs) None)) /\
  (forall key bv, lookup key (vs_byblock vs) = Some bv ->
     bv_sum bv = pow_of vals (fun i => is_some (nth i (bv_votes bv) None))) /\
  (has_two_thirds_any vs = true <-> two_thirds vals < pow_of vals (fun i => is_some (nth i (vs_votes vs) None))) /\
  (has_all vs = true <-> pow_of vals (fun i => is_some (nth i (vs_votes vs) None)) = pow_of vals (fun _ => true)).
Proof.
  intro vs. destruct (reachable_Inv ops) as [A B C D E F G I J K L]. fold vs in A, G, I.
  split; [exact G|]. split; [intros key bv Hl; destruct (I _ _ Hl) as (_ & _ & I3 & _); exact I3|].
  unfold has_two_thirds_any, has_all. rewrite A, G. unfold psum.
  rewrite total_power_spec by (destruct Hbounded as [Hn Hb]; auto; lia).
  split; [apply Z.ltb_lt|apply Z.eqb_eq].
Qed.

(* completeness at tally level: as soon as the valid votes tracked for one block id reach the
   quorum, a majority is reported *)
Theorem maj23_complete_tally ops key bv :
  lookup key (vs_byblock (vs_run vs0 ops)) = Some bv -> two_thirds vals < bv_sum bv ->
  vs_maj23 (vs_run vs0 ops) <> None.
Proof.
  intros Hl Hq. destruct (reachable_Inv ops) as [A B C D E F G I J K L].
  apply (K key bv Hl). rewrite quorum_spec by assumption. lia.
Qed.

(* completeness: if the validators whose primary (first valid) vote is for b hold more than two
   thirds, a majority is reported *)
Theorem maj23_complete ops b :
  let vs := vs_run vs0 ops in
  two_thirds vals < pow_of vals (fun i => match nth i (vs_votes vs) None with
                                          | Some w => bid_eqb (v_bid w) b | None => false end) ->
  vs_maj23 vs <> None.
Proof.
  intros vs Hp Hnone. destruct (reachable_Inv ops) as [A B C D E F G I J K L]. fold vs in I, K, L.
  assert (Hpos : 0 < pow_of vals (fun i => match nth i (vs_votes vs) None with Some w => bid_eqb (v_bid w) b | None => false end)).
  { rewrite two_thirds_spec in Hp by assumption. destruct Hbounded as [Hn Hb].
    assert (0 <= pow_of vals (fun _ => true) * 2 / 3) by (apply Z.div_pos; [pose proof (pow_from_nonneg 0 vals (fun _ => true) Hn); unfold pow_of; lia|lia]). lia. }
  destruct (pow_from_pos_exists _ _ _ Hpos) as (i0 & _ & Hi0).
  destruct (nth i0 (vs_votes vs) None) as [w0|] eqn:Ew0; [|discriminate]. apply bid_eqb_eq in Hi0.
  destruct (L Hnone i0 w0 Ew0) as (bv & Hl & _). rewrite Hi0 in Hl.
  apply (K _ bv Hl); [|exact Hnone].
  destruct (I _ _ Hl) as (_ & _ & I3 & _). rewrite quorum_spec by assumption.
  assert (Hle : pow_of vals (fun i => match nth i (vs_votes vs) None with Some w => bid_eqb (v_bid w) b | None => false end) <= bv_sum bv).
  { rewrite I3. unfold psum. apply pow_from_mono; [apply Hbounded|]. intros i _ Hi.
    destruct (nth i (vs_votes vs) None) as [w|] eqn:Ew; [|discriminate]. apply bid_eqb_eq in Hi.
    destruct (L Hnone i w Ew) as (bv2 & Hl2 & Hn2). rewrite Hi, Hl in Hl2. injection Hl2 as <-.
    destruct (nth i (bv_votes bv) None); [reflexivity|congruence]. }
  lia.
Qed.

(* votes that fail validation, and duplicates, leave the vote set exactly as it was *)
Theorem rejected_vote_noop ops v vs' a c :
  add_vote (vs_run vs0 ops) v = Ok (vs', a, c) ->
  (c = 1 \/ c = 2 \/ c = 3 \/ c = 4 \/ (c = 0 /\ a = false))%N -> vs' = vs_run vs0 ops.
Proof.
  intros Hav Hc.
  destruct (add_vote_Inv vals H R T Hbounded _ _ v (reachable_Inv ops)) as (vs1 & a1 & c1 & Hav1 & _ & Hrej & _).
  rewrite Hav in Hav1. injection Hav1 as -> -> ->. auto.
Qed.

(* only valid votes are ever added *)
Theorem added_vote_valid ops v vs' c :
  add_vote (vs_run vs0 ops) v = Ok (vs', true, c) -> valid vals H R T v.
Proof.
  intros Hav.
  destruct (add_vote_Inv vals H R T Hbounded _ _ v (reachable_Inv ops)) as (vs1 & a1 & c1 & Hav1 & _ & _ & Hv).
  rewrite Hav in Hav1. injection Hav1 as E1 E2 E3. apply Hv. symmetry. exact E2.
Qed.

End VoteSetTheorems.

(* ---------- commits ---------- *)
Fixpoint gsum (good : vote -> bool) (vals : list validator) (pre : list (option vote)) : Z :=
  match vals, pre with
  | (_, p) :: vt, o :: pt => (match o with Some v => if good v then p else 0 | None => 0 end) + gsum good vt pt
  | _, _ => 0
  end.

Lemma gsum_pow good : forall vals pre k,
  gsum good vals pre = pow_from k vals (fun i => match nth (i - k) pre None with Some v => good v | None => false end).
Proof.
  induction vals as [|[a p] vt IH]; intros pre k; [destruct pre; reflexivity|].
  destruct pre as [|o pt].
  - cbn [gsum]. rewrite (pow_from_ext k _ _ (fun _ => false)); [rewrite pow_from_false; reflexivity|].
    intros i _. destruct (i - k)%nat; reflexivity.
  - cbn [gsum pow_from]. rewrite Nat.sub_diag. cbn [nth]. f_equal; [destruct o as [v|]; [destruct (good v)|]; reflexivity|].
    rewrite (IH pt (S k)). apply pow_from_ext. intros i Hi.
    replace (i - k)%nat with (S (i - S k)) by lia. reflexivity.
Qed.

Lemma gsum_bounds good vals pre : nonneg vals -> 0 <= gsum good vals pre <= pow_from 0 vals (fun _ => true).
Proof.
  intro Hn. rewrite (gsum_pow good vals pre 0). split; [apply pow_from_nonneg; assumption|apply pow_from_le_total; assumption].
Qed.

Definition good_full (b : block_id) (h r : Z) (v : vote) : bool :=
  (v_height v =? h) && (v_round v =? r) && N.eqb (v_type v) 2 && v_sigok v && bid_eqb b (v_bid v).

Lemma tally_sound b h r : forall vals pre acc p, nonneg vals -> 0 <= acc ->
  acc + pow_from 0 vals (fun _ => true) < 9223372036854775808 ->
  tally vals pre b h r acc = Ok p -> p = acc + gsum (good_full b h r) vals pre.
Proof.
  induction vals as [|[a pw] vt IH]; intros pre acc p Hn Hacc Hb; [destruct pre; simpl; intro E; injection E as <-; lia|].
  destruct pre as [|o pt]; [simpl; intro E; injection E as <-; lia|].
  inversion Hn as [|? ? Hp Ht]; subst. simpl in Hp. cbn [pow_from] in Hb. rewrite pow_from_true_shift in Hb.
  pose proof (pow_from_nonneg 0 vt (fun _ => true) Ht) as H0.
  cbn [tally gsum]. destruct o as [v|]; [|intro E; apply IH in E; [lia|exact Ht|lia|lia]].
  specialize (IH pt). remember (gsum (good_full b h r) vt pt) as G eqn:EG.
  unfold good_full.
  destruct (v_height v =? h); cbn [negb andb]; [|discriminate].
  destruct (v_round v =? r); cbn [negb andb]; [|discriminate].
  destruct (N.eqb (v_type v) 2); cbn [negb andb]; [|discriminate].
  destruct (v_sigok v); cbn [negb andb]; [|discriminate].
  destruct (bid_eqb b (v_bid v)); cbn [negb]; intro E.
  - rewrite wrap64_id in E by lia. apply IH in E; [lia|exact Ht|lia|lia].
  - apply IH in E; [lia|exact Ht|lia|lia].
Qed.

Lemma tally_ok b h r : forall vals pre acc, nonneg vals -> 0 <= acc ->
  acc + pow_from 0 vals (fun _ => true) < 9223372036854775808 ->
  (forall v, In (Some v) pre -> v_height v = h /\ v_round v = r /\ v_type v = 2%N /\ v_sigok v = true) ->
  tally vals pre b h r acc = Ok (acc + gsum (fun v => bid_eqb b (v_bid v)) vals pre).
Proof.
  induction vals as [|[a pw] vt IH]; intros pre acc Hn Hacc Hb Hall; [destruct pre; simpl; f_equal; lia|].
  destruct pre as [|o pt]; [simpl; f_equal; lia|].
  inversion Hn as [|? ? Hp Ht]; subst. simpl in Hp. cbn [pow_from] in Hb. rewrite pow_from_true_shift in Hb.
  pose proof (pow_from_nonneg 0 vt (fun _ => true) Ht) as H0.
  cbn [tally gsum]. destruct o as [v|].
  - destruct (Hall v (or_introl eq_refl)) as (E1 & E2 & E3 & E4).
    rewrite E1, E2, E3, E4, !Z.eqb_refl. cbn [negb N.eqb Pos.eqb].
    destruct (bid_eqb b (v_bid v)); cbn [negb].
    + rewrite wrap64_id by lia. rewrite IH; [f_equal; lia|exact Ht|lia|lia|]. intros v' Hv'. apply Hall. right. exact Hv'.
    + rewrite IH; [f_equal; lia|exact Ht|lia|lia|]. intros v' Hv'. apply Hall. right. exact Hv'.
  - rewrite IH; [f_equal; lia|exact Ht|lia|lia|]. intros v' Hv'. apply Hall. right. exact Hv'.
Qed.

(* VerifyCommit accepts only if validly signed precommits of that height, one single round and
   exactly that block id, from distinct validators, hold more than two thirds *)
Theorem verify_commit_sound vals b h c : bounded vals ->
  verify_commit vals b h c = Ok tt ->
  length (c_pre c) = length vals /\
  two_thirds vals <
    pow_of vals (fun i => match nth i (c_pre c) None with
                          | Some v => good_full b h (commit_round c) v
                          | None => false end).
Proof.
  intros [Hn Hb]. unfold verify_commit.
  destruct (Nat.eqb (length vals) (length (c_pre c))) eqn:El; cbn [negb]; [|discriminate].
  apply Nat.eqb_eq in El.
  destruct (h =? commit_height c); cbn [negb]; [|discriminate].
  destruct (tally vals (c_pre c) b h (commit_round c) 0) as [p|e|w] eqn:Et; try discriminate.
  destruct (two_thirds vals <? p) eqn:Ep; [|discriminate]. intros _. apply Z.ltb_lt in Ep.
  apply tally_sound in Et; auto; [|lia| unfold pow_of in Hb; lia].
  split; [auto|]. unfold pow_of. rewrite (gsum_pow _ vals (c_pre c) 0) in Et.
  rewrite (pow_from_ext 0 vals _ (fun i => match nth (i - 0) (c_pre c) None with Some v => good_full b h (commit_round c) v | None => false end)).
  - lia.
  - intros i _. rewrite Nat.sub_0_r. reflexivity.
Qed.

Lemma classic_some (l : list (option vote)) (n : nat) :
  (exists i, nth i l None <> None) \/ (forall i, (i < n)%nat -> nth i l None = None).
Proof.
  induction l as [|o l IH]; [right; intros i _; destruct i; reflexivity|].
  destruct o as [v|]; [left; exists 0%nat; discriminate|].
  destruct IH as [[i Hi]|Hn]; [left; exists (S i); exact Hi|].
  right. intros [|i] Hi; [reflexivity|]. simpl.
  destruct (Nat.lt_ge_cases i n) as [Hlt|Hge]; [apply Hn; exact Hlt|lia].
Qed.

Section MakeCommit.
Variable vals : list validator.
Variables (H R : Z).
Hypothesis Hbounded : bounded vals.
Variable vs0 : voteset.
Hypothesis Hnew : new_voteset H R 2%N vals = Ok vs0.

Lemma first_precommit_some l : (exists i, nth i l None <> None) -> exists v, first_precommit l = Some v /\ In (Some v) l.
Proof.
  induction l as [|o l IH]; intros [i Hi]; [destruct i; simpl in Hi; congruence|].
  destruct o as [v|]; [exists v; split; [reflexivity|left; reflexivity]|].
  destruct i as [|i]; [simpl in Hi; congruence|].
  destruct (IH (ex_intro _ i Hi)) as (v & Hf & Hin). exists v. split; [exact Hf|right; exact Hin].
Qed.

(* the commit assembled from a majority passes commit verification for that validator set *)
Theorem make_commit_verifies ops b :
  vs_maj23 (vs_run vs0 ops) = Some b ->
  exists c, make_commit (vs_run vs0 ops) = Ok c /\ c_bid c = b /\ verify_commit vals b H c = Ok tt.
Proof.
  intro Hm. set (vs := vs_run vs0 ops) in *.
  destruct (reachable_Inv vals H R 2%N Hbounded vs0 Hnew ops) as [A B C D E F G I J K L]. fold vs in A, B, C, D, E, F, G, I, J, K.
  unfold make_commit. rewrite D, Hm. cbn [N.eqb Pos.eqb negb].
  eexists. split; [reflexivity|]. split; [reflexivity|].
  destruct (J b Hm) as (bv & Hl & Hq & Hc).
  destruct (I _ _ Hl) as (I1 & I2 & I3 & I4).
  destruct Hbounded as [Hn Hb].
  (* every primary vote is a valid precommit of this height and round *)
  assert (Hall : forall v, In (Some v) (vs_votes vs) -> v_height v = H /\ v_round v = R /\ v_type v = 2%N /\ v_sigok v = true).
  { intros v Hin. apply In_nth with (d := None) in Hin. destruct Hin as (j & _ & Hj).
    specialize (F j). rewrite Hj in F. simpl in F. destruct F as ((_ & _ & _ & F1 & F2 & F3 & F4) & _). auto. }
  (* some validator voted *)
  assert (Hex : exists i, nth i (vs_votes vs) None <> None).
  { rewrite quorum_spec in Hq by (split; assumption).
    assert (Hpos : 0 < bv_sum bv).
    { rewrite two_thirds_spec in Hq by (split; assumption).
      assert (0 <= pow_of vals (fun _ => true) * 2 / 3) by (apply Z.div_pos; [pose proof (pow_from_nonneg 0 vals (fun _ => true) Hn); unfold pow_of; lia|lia]). lia. }
    rewrite I3 in Hpos. unfold psum, pow_of in Hpos.
    destruct (classic_some (bv_votes bv) (length vals)) as [[i Hi]|Hnone].
    - exists i. apply I4. exact Hi.
    - exfalso. rewrite (pow_from_ext 0 vals _ (fun _ => false)) in Hpos; [rewrite pow_from_false in Hpos; lia|].
      intros i Hi. rewrite Hnone by lia. reflexivity. }
  destruct (first_precommit_some _ Hex) as (v1 & Hf1 & Hin1).
  destruct (Hall v1 Hin1) as (H1 & H2 & _ & _).
  unfold verify_commit, commit_height, commit_round. cbn [c_pre c_bid]. rewrite Hf1, H1, H2.
  rewrite E, Nat.eqb_refl, Z.eqb_refl. cbn [negb].
  rewrite (tally_ok b H R vals (vs_votes vs) 0); auto; [|lia|unfold pow_of in Hb; lia].
  replace (two_thirds vals <? 0 + gsum (fun v => bid_eqb b (v_bid v)) vals (vs_votes vs)) with true; [reflexivity|].
  symmetry. apply Z.ltb_lt.
  rewrite quorum_spec in Hq by (split; assumption).
  assert (Hle : bv_sum bv <= gsum (fun v => bid_eqb b (v_bid v)) vals (vs_votes vs)).
  { rewrite I3, (gsum_pow _ vals (vs_votes vs) 0). unfold psum, pow_of. apply pow_from_mono; [assumption|].
    intros i _ Hs. rewrite Nat.sub_0_r.
    destruct (Hc i) as (v' & Hv' & Hb'); [destruct (nth i (bv_votes bv) None); [discriminate|discriminate]|].
    rewrite Hv'. apply bid_eqb_eq. auto. }
  lia.
Qed.

End MakeCommit.

(* conflicting votes are reported as such *)
Section Conflict.
Variable vals : list validator.
Variables (H R : Z) (T : N).
Hypothesis Hbounded : bounded vals.
Variable vs0 : voteset.
Hypothesis Hnew : new_voteset H R T vals = Ok vs0.

Theorem conflict_reported ops v ex :
  let vs := vs_run vs0 ops in
  valid vals H R T v ->
  nth (Z.to_nat (v_index v)) (vs_votes vs) None = Some ex -> v_bid ex <> v_bid v ->
  get_vote vs (Z.to_nat (v_index v)) (bid_key (v_bid v)) = None ->
  exists vs' a, add_vote vs v = Ok (vs', a, 5%N).
Proof.
  intros vs (V1 & (pw & V2) & V3 & V4 & V5 & V6 & V7) Hex Hne Hget.
  destruct (reachable_Inv vals H R T Hbounded vs0 Hnew ops) as [A B C D E F G I J K L]. fold vs in A, B, C, D.
  destruct (add_vote_Inv vals H R T Hbounded _ _ v (reachable_Inv vals H R T Hbounded vs0 Hnew ops)) as (vs' & a & c & Hav & _).
  fold vs in Hav. exists vs', a. rewrite Hav. f_equal. f_equal.
  unfold add_vote in Hav.
  replace (v_index v <? 0) with false in Hav by (symmetry; apply Z.ltb_ge; exact V1).
  destruct (v_addr v) as [|a0 ar] eqn:Ea; [contradiction|]. rewrite <- Ea in *.
  assert (Hlt : (Z.of_nat (length vals) <=? v_index v) = false).
  { apply Z.leb_gt. assert (Z.to_nat (v_index v) < length vals)%nat by (apply nth_error_Some; rewrite V2; discriminate). lia. }
  rewrite A, B, C, D, Hlt, V2, V4, V5, V6, !Z.eqb_refl, N.eqb_refl, bytes_eqb_refl, Hget, V7 in Hav. cbn [negb andb] in Hav.
  unfold add_verified, nth_vote in Hav. rewrite Hex in Hav.
  destruct (bid_eqb (v_bid ex) (v_bid v)) eqn:Eb; [apply bid_eqb_eq in Eb; contradiction|].
  destruct (lookup (bid_key (v_bid v)) (vs_byblock vs)) as [bv|]; [destruct (bv_peer bv)|].
  - destruct ((bv_sum bv <? _) && _); [destruct (vs_maj23 vs)|]; injection Hav as _ _ <-; reflexivity.
  - injection Hav as _ _ <-; reflexivity.
  - injection Hav as _ _ <-; reflexivity.
Qed.
End Conflict.
