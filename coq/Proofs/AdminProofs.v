(* Proofs about Model.AdminOp. *)
From Coq Require Import List NArith ZArith Lia Bool Arith Sorted.
From AnnVerif Require Import Base.Res Base.Bytes Model.ValSet Model.AdminOp
  Proofs.BytesProofs Proofs.PowerSum Proofs.ValSetProofs.
Import ListNotations.
Open Scope Z_scope.

(* ---------- lookups in a sorted validator list ---------- *)
Fixpoint find_addr (l : list val16) (a : bytes) : option val16 :=
  match l with
  | [] => None
  | v :: t => if bytes_leb a (va_addr v) then (if bytes_eqb (va_addr v) a then Some v else None) else find_addr t a
  end.

Lemma get_by_address_find vs a : get_by_address vs a = find_addr (vl vs) a.
Proof.
  unfold get_by_address. generalize (vl vs) as l. induction l as [|v t IH]; [reflexivity|].
  rewrite search_cons. cbn [find_addr]. destruct (bytes_leb a (va_addr v)); [reflexivity|]. cbn [nth_error]. exact IH.
Qed.

Lemma find_addr_some l a v : find_addr l a = Some v -> In v l /\ va_addr v = a.
Proof.
  induction l as [|w t IH]; [discriminate|]. cbn [find_addr].
  destruct (bytes_leb a (va_addr w)).
  - destruct (bytes_eqb (va_addr w) a) eqn:E; [|discriminate]. intro H; injection H as <-. apply bytes_eqb_eq in E. split; [left; reflexivity|exact E].
  - intro H. destruct (IH H). split; [right; assumption|assumption].
Qed.

Lemma find_addr_in l v : sorted l -> In v l -> find_addr l (va_addr v) = Some v.
Proof.
  unfold sorted. induction l as [|w t IH]; intros Hs Hin; [contradiction|].
  inversion Hs as [|? ? Hst Hall]; subst. cbn [find_addr]. destruct Hin as [->|Hin].
  - assert (E : bytes_leb (va_addr v) (va_addr v) = true).
    { unfold bytes_leb. replace (bytes_cmp (va_addr v) (va_addr v)) with Eq by (symmetry; apply bytes_cmp_eq; reflexivity). reflexivity. }
    rewrite E, bytes_eqb_refl. reflexivity.
  - assert (Hlt : blt (va_addr w) (va_addr v)).
    { eapply Forall_forall in Hall; [exact Hall|]. apply in_map. exact Hin. }
    assert (E : bytes_leb (va_addr v) (va_addr w) = false).
    { unfold bytes_leb. rewrite (bytes_cmp_antisym (va_addr v) (va_addr w)). unfold blt in Hlt. rewrite Hlt. reflexivity. }
    rewrite E. apply IH; assumption.
Qed.

(* ---------- weighted sums over validators ---------- *)
Fixpoint wsum (P : val16 -> bool) (l : list val16) : Z :=
  match l with [] => 0 | v :: t => (if P v then va_power v else 0) + wsum P t end.

Definition nonneg16 (l : list val16) : Prop := forall v, In v l -> 0 <= va_power v.

Lemma wsum_nonneg P l : nonneg16 l -> 0 <= wsum P l.
Proof.
  induction l as [|v t IH]; intro Hn; simpl; [lia|].
  assert (0 <= va_power v) by (apply Hn; left; reflexivity).
  assert (0 <= wsum P t) by (apply IH; intros w Hw; apply Hn; right; exact Hw). destruct (P v); lia.
Qed.

Lemma wsum_mono P Q l : nonneg16 l -> (forall v, In v l -> P v = true -> Q v = true) -> wsum P l <= wsum Q l.
Proof.
  induction l as [|v t IH]; intros Hn H; simpl; [lia|].
  assert (0 <= va_power v) by (apply Hn; left; reflexivity).
  assert (wsum P t <= wsum Q t) by (apply IH; [intros w Hw; apply Hn; right; exact Hw|intros w Hw; apply H; right; exact Hw]).
  destruct (P v) eqn:EP; [rewrite (H v (or_introl eq_refl) EP); lia|destruct (Q v); lia].
Qed.

Lemma wsum_le_total P l : nonneg16 l -> wsum P l <= wsum (fun _ => true) l.
Proof. intro Hn. apply wsum_mono; auto. Qed.

(* taking one validator (identified by its address) out of a sum *)
Lemma wsum_split P l v : NoDup (map va_addr l) -> In v l ->
  wsum P l = (if P v then va_power v else 0) + wsum (fun w => P w && negb (bytes_eqb (va_addr w) (va_addr v))) l.
Proof.
  induction l as [|w t IH]; intros Hn Hin; [contradiction|].
  cbn [map] in Hn. inversion Hn as [|? ? Hw Ht]; subst. cbn [wsum]. destruct Hin as [->|Hin].
  - rewrite bytes_eqb_refl, andb_false_r.
    assert (Hrest : wsum P t = wsum (fun w => P w && negb (bytes_eqb (va_addr w) (va_addr v))) t).
    { clear IH Hn Ht. induction t as [|x t IHt]; [reflexivity|]. cbn [wsum].
      assert (Hx : bytes_eqb (va_addr x) (va_addr v) = false).
      { destruct (bytes_eqb (va_addr x) (va_addr v)) eqn:E; [|reflexivity]. apply bytes_eqb_eq in E. exfalso. apply Hw. cbn. left. exact E. }
      rewrite Hx, andb_true_r. f_equal. apply IHt. intro Hin. apply Hw. cbn. right. exact Hin. }
    lia.
  - assert (Hx : bytes_eqb (va_addr w) (va_addr v) = false).
    { destruct (bytes_eqb (va_addr w) (va_addr v)) eqn:E; [|reflexivity]. apply bytes_eqb_eq in E. exfalso. apply Hw. rewrite E. apply in_map. exact Hin. }
    rewrite Hx, andb_true_r. rewrite (IH Ht Hin). lia.
Qed.

(* ---------- CheckMajor23 ---------- *)
(* validator v has positive power and a valid signature in the list *)
Definition signed_by (sigs : list siginfo) (v : val16) : bool :=
  (0 <? va_power v) && existsb (fun s => bytes_eqb (si_addr s) (va_addr v) && si_ok s) sigs.

Definition uncounted (counted : list bytes) (v : val16) : bool := negb (mem_addr (va_addr v) counted).

Lemma tally_sigs_bound vs : sorted (vl vs) -> nonneg16 (vl vs) -> wsum (fun _ => true) (vl vs) < 4611686018427387904 ->
  forall sigs counted acc, 0 <= acc ->
  acc + wsum (fun v => uncounted counted v) (vl vs) <= wsum (fun _ => true) (vl vs) ->
  acc <= tally_sigs vs sigs counted acc <=
    acc + wsum (fun v => signed_by sigs v && uncounted counted v) (vl vs).
Proof.
  intros Hs Hn Hb. induction sigs as [|s t IH]; intros counted acc Hacc Hroom.
  - cbn [tally_sigs]. pose proof (wsum_nonneg (fun v => signed_by [] v && uncounted counted v) (vl vs) Hn). lia.
  - cbn [tally_sigs]. rewrite get_by_address_find.
    assert (Hmono : wsum (fun v => signed_by t v && uncounted counted v) (vl vs) <=
                    wsum (fun v => signed_by (s :: t) v && uncounted counted v) (vl vs)).
    { apply wsum_mono; [exact Hn|]. intros v _ Hv. apply andb_true_iff in Hv as [H1 H2]. apply andb_true_iff. split; [|exact H2].
      unfold signed_by in *. apply andb_true_iff in H1 as [Hp He]. apply andb_true_iff. split; [exact Hp|]. cbn [existsb]. rewrite He. apply orb_true_r. }
    destruct (find_addr (vl vs) (si_addr s)) as [v|] eqn:Ef.
    + destruct (find_addr_some _ _ _ Ef) as [Hin Haddr].
      destruct (0 <? va_power v) eqn:Ep.
      * destruct (mem_addr (va_addr v) counted) eqn:Em.
        -- specialize (IH counted acc Hacc Hroom). lia.
        -- destruct (si_ok s) eqn:Eok.
           ++ (* counted now *)
              apply Z.ltb_lt in Ep.
              assert (Hsplit := wsum_split (fun w => uncounted counted w) (vl vs) v (sorted_nodup _ Hs) Hin).
              assert (Hu : uncounted counted v = true) by (unfold uncounted; rewrite Em; reflexivity).
              cbv beta in Hsplit. rewrite Hu in Hsplit.
              assert (Hext : wsum (fun w => uncounted counted w && negb (bytes_eqb (va_addr w) (va_addr v))) (vl vs) =
                             wsum (fun w => uncounted (va_addr v :: counted) w) (vl vs)).
              { apply Z.le_antisymm; (apply wsum_mono; [exact Hn|]); intros w _ Hw; unfold uncounted in *; cbn [mem_addr] in *.
                - apply andb_true_iff in Hw as [H1 H2]. rewrite negb_orb. apply andb_true_iff. split; [|exact H1].
                  destruct (bytes_eqb (va_addr v) (va_addr w)) eqn:E; [|reflexivity]. apply bytes_eqb_eq in E. rewrite E, bytes_eqb_refl in H2. discriminate.
                - rewrite negb_orb in Hw. apply andb_true_iff in Hw as [H1 H2]. apply andb_true_iff. split; [exact H2|].
                  destruct (bytes_eqb (va_addr w) (va_addr v)) eqn:E; [|reflexivity]. apply bytes_eqb_eq in E. rewrite E, bytes_eqb_refl in H1. discriminate. }
              pose proof (wsum_nonneg (fun w => uncounted (va_addr v :: counted) w) (vl vs) Hn) as Hnn.
              rewrite wrap64_id by lia.
              assert (Hroom' : acc + va_power v + wsum (fun w => uncounted (va_addr v :: counted) w) (vl vs) <= wsum (fun _ => true) (vl vs)) by lia.
              specialize (IH (va_addr v :: counted) (acc + va_power v) ltac:(lia) Hroom').
              (* the bound for s :: t: v itself is signed and uncounted, plus the others *)
              assert (Hsplit2 := wsum_split (fun w => signed_by (s :: t) w && uncounted counted w) (vl vs) v (sorted_nodup _ Hs) Hin).
              assert (Hv : signed_by (s :: t) v && uncounted counted v = true).
              { unfold signed_by, uncounted. rewrite Em. cbn [negb existsb]. rewrite Haddr, bytes_eqb_refl, Eok.
                replace (0 <? va_power v) with true by (symmetry; apply Z.ltb_lt; exact Ep). reflexivity. }
              cbv beta in Hsplit2. rewrite Hv in Hsplit2.
              assert (Hle : wsum (fun w => signed_by t w && uncounted (va_addr v :: counted) w) (vl vs) <=
                            wsum (fun w => signed_by (s :: t) w && uncounted counted w && negb (bytes_eqb (va_addr w) (va_addr v))) (vl vs)).
              { apply wsum_mono; [exact Hn|]. intros w _ Hw. apply andb_true_iff in Hw as [H1 H2].
                unfold uncounted in *. cbn [mem_addr] in H2. rewrite negb_orb in H2. apply andb_true_iff in H2 as [H2 H3].
                apply andb_true_iff. split.
                - apply andb_true_iff. split; [|exact H3]. unfold signed_by in *. apply andb_true_iff in H1 as [Hp He]. apply andb_true_iff. split; [exact Hp|].
                  cbn [existsb]. rewrite He. apply orb_true_r.
                - destruct (bytes_eqb (va_addr w) (va_addr v)) eqn:E; [|reflexivity]. apply bytes_eqb_eq in E. rewrite E, bytes_eqb_refl in H2. discriminate. }
              lia.
           ++ specialize (IH counted acc Hacc Hroom). lia.
      * specialize (IH counted acc Hacc Hroom). lia.
    + specialize (IH counted acc Hacc Hroom). lia.
Qed.

Lemma sum_power_wsum l : nonneg16 l -> wsum (fun _ => true) l < 9223372036854775808 -> sum_power l = wsum (fun _ => true) l.
Proof.
  intros Hn Hb. unfold sum_power.
  assert (H : forall l acc, nonneg16 l -> 0 <= acc -> acc + wsum (fun _ => true) l < 9223372036854775808 ->
             fold_left (fun a v => wrap64 (a + va_power v)) l acc = acc + wsum (fun _ => true) l).
  { clear. induction l as [|v t IH]; intros acc Hn Ha Hb; simpl in *; [lia|].
    assert (0 <= va_power v) by (apply Hn; left; reflexivity).
    assert (0 <= wsum (fun _ => true) t) by (apply wsum_nonneg; intros w Hw; apply Hn; right; exact Hw).
    rewrite wrap64_id by lia. rewrite IH; [lia| intros w Hw; apply Hn; right; exact Hw | lia | lia]. }
  rewrite H; auto; lia.
Qed.

(* the validator set of the plugin is well formed: sorted, non-negative powers below the int64
   boundary, and a total-power cache that is either empty or right *)
Definition wf_vals (vs : valset) : Prop :=
  sorted (vl vs) /\ nonneg16 (vl vs) /\ wsum (fun _ => true) (vl vs) < 4611686018427387904 /\
  (v_tvp vs = 0 \/ v_tvp vs = wsum (fun _ => true) (vl vs)).

(* soundness of the 2/3 check: distinct current validators with positive power and a valid
   signature over the request hold more than two thirds of the total power *)
Theorem check_major23_sound vs sigs : wf_vals vs ->
  fst (check_major23 vs sigs) = true ->
  wsum (fun _ => true) (vl vs) * 2 / 3 < wsum (signed_by sigs) (vl vs).
Proof.
  intros (Hs & Hn & Hb & Hc). unfold check_major23.
  assert (Ht : total_vp vs = (wsum (fun _ => true) (vl vs), snd (total_vp vs))).
  { unfold total_vp. destruct (v_tvp vs =? 0) eqn:E; cbn [fst snd].
    - rewrite sum_power_wsum by (auto; lia). reflexivity.
    - destruct Hc as [Hc|Hc]; [rewrite Hc in E; discriminate|]. rewrite Hc. reflexivity. }
  rewrite Ht. cbn [fst]. intro Hlt. apply Z.ltb_lt in Hlt.
  pose proof (wsum_nonneg (fun _ => true) (vl vs) Hn) as H0.
  rewrite wrap64_id in Hlt by lia. rewrite Z.quot_div_nonneg in Hlt by lia.
  pose proof (tally_sigs_bound vs Hs Hn Hb sigs [] 0 ltac:(lia)) as Hbound.
  assert (Hroom : 0 + wsum (fun v => uncounted [] v) (vl vs) <= wsum (fun _ => true) (vl vs)) by (apply wsum_le_total; exact Hn).
  specialize (Hbound Hroom).
  assert (Hle : wsum (fun v => signed_by sigs v && uncounted [] v) (vl vs) <= wsum (signed_by sigs) (vl vs)).
  { apply wsum_mono; [exact Hn|]. intros v _ Hv. apply andb_true_iff in Hv as [H1 _]. exact H1. }
  lia.
Qed.

(* ---------- ExecTX ---------- *)
(* a request is accepted (the pending list grows, or nil is returned) only with a 2/3 majority of
   distinct validators, the right sender and nonce and a supported, well-formed command *)
Theorem exec_tx_accept st c from nonce st' :
  wf_vals (ad_vals st) ->
  exec_tx st c from nonce = (st', 0%N) ->
  wsum (fun _ => true) (vl (ad_vals st)) * 2 / 3 < wsum (signed_by (ac_sigs c)) (vl (ad_vals st)) /\
  ac_type_ok c = true /\ ac_parse_ok c = true /\ from = at_from (ac_attr c) /\
  u64 (at_nonce (ac_attr c) + 1) = nonce.
Proof.
  intros Hwf. unfold exec_tx.
  destruct (check_major23 (ad_vals st) (ac_sigs c)) as [ok vs1] eqn:Ec.
  destruct ok; cbn [negb]; [|intro E; injection E as _ E; discriminate].
  pose proof (check_major23_sound (ad_vals st) (ac_sigs c) Hwf) as Hs. rewrite Ec in Hs. specialize (Hs eq_refl).
  destruct (ac_type_ok c); cbn [negb]; [|intro E; injection E as _ E; discriminate].
  destruct (ac_parse_ok c); cbn [negb]; [|intro E; injection E as _ E; discriminate].
  destruct (bytes_eqb from (at_from (ac_attr c))) eqn:Ef; cbn [negb]; [|intro E; injection E as _ E; discriminate].
  destruct (u64 (at_nonce (ac_attr c) + 1) =? nonce) eqn:En; cbn [negb]; [|intro E; injection E as _ E; discriminate].
  intros _. apply bytes_eqb_eq in Ef. apply Z.eqb_eq in En. auto.
Qed.

(* whatever is rejected changes nothing but the cache *)
Theorem exec_tx_reject st c from nonce st' code :
  exec_tx st c from nonce = (st', code) -> code <> 0%N ->
  ad_changed st' = ad_changed st /\ vl (ad_vals st') = vl (ad_vals st).
Proof.
  unfold exec_tx. destruct (check_major23 (ad_vals st) (ac_sigs c)) as [ok vs1] eqn:Ec.
  assert (Hvl : vl vs1 = vl (ad_vals st)).
  { unfold check_major23 in Ec. destruct (total_vp (ad_vals st)) as [t vs'] eqn:Et. injection Ec as _ <-.
    unfold total_vp in Et. destruct (v_tvp (ad_vals st) =? 0); injection Et as _ <-; reflexivity. }
  intros E Hc.
  repeat match type of E with
  | (if ?b then _ else _) = _ => destruct b
  | (match ?x with _ => _ end) = _ => destruct x
  end; injection E as <- Hcode; cbn [ad_changed ad_vals]; try (split; [reflexivity|exact Hvl]); congruence.
Qed.

(* the pending list only ever grows by the request's own attribute *)
Theorem exec_tx_pending st c from nonce st' code :
  exec_tx st c from nonce = (st', code) ->
  ad_changed st' = ad_changed st \/ ad_changed st' = ad_changed st ++ [ac_attr c].
Proof.
  unfold exec_tx. destruct (check_major23 (ad_vals st) (ac_sigs c)) as [ok vs1].
  intros E.
  repeat match type of E with
  | (if ?b then _ else _) = _ => destruct b
  | (match ?x with _ => _ end) = _ => destruct x
  end; injection E as <- _; cbn [ad_changed]; auto.
Qed.

(* ---------- EndBlock ---------- *)
Lemma update_validators_sorted changed : forall next next', sorted (vl next) ->
  update_validators next changed = Ok next' -> sorted (vl next').
Proof.
  induction changed as [|a t IH]; intros next next' Hs; cbn [update_validators]; [intro E; injection E as <-; exact Hs|].
  destruct (at_cmd a).
  - destruct (get_by_address next (at_paddr a)) as [v|].
    + destruct (negb (va_power v =? at_power a)).
      * destruct (update next _) as [n1 upd] eqn:Eu. destruct upd; [|discriminate].
        apply IH. match type of Eu with update next ?x = _ => pose proof (update_sorted next x Hs) as Hx end. rewrite Eu in Hx. exact Hx.
      * apply IH. exact Hs.
    + destruct (add next _) as [n1 added] eqn:Ea. destruct added; [|discriminate].
      apply IH. match type of Ea with add next ?x = _ => pose proof (add_sorted next x Hs) as Hx end. rewrite Ea in Hx. exact Hx.
  - destruct (get_by_address next (at_paddr a)) as [v|].
    + destruct (negb (va_power v =? at_power a)).
      * destruct (update next _) as [n1 upd] eqn:Eu. destruct upd; [|discriminate].
        apply IH. match type of Eu with update next ?x = _ => pose proof (update_sorted next x Hs) as Hx end. rewrite Eu in Hx. exact Hx.
      * apply IH. exact Hs.
    + destruct (add next _) as [n1 added] eqn:Ea. destruct added; [|discriminate].
      apply IH. match type of Ea with add next ?x = _ => pose proof (add_sorted next x Hs) as Hx end. rewrite Ea in Hx. exact Hx.
  - destruct (remove next (at_paddr a)) as [n1 r] eqn:Er. apply IH.
    pose proof (remove_sorted next (at_paddr a) Hs) as Hx. rewrite Er in Hx. exact Hx.
  - apply IH. exact Hs.
Qed.

(* an accepted change yields a sorted, duplicate-free set - the same function of the current set
   and the pending list on every replica *)
Theorem end_block_sorted st st' : sorted (vl (ad_vals st)) -> end_block st = Ok st' ->
  sorted (vl (ad_vals st')) /\ ad_changed st' = [].
Proof.
  unfold end_block. intro Hs.
  destruct (update_validators (ad_vals st) (ad_changed st)) as [next|e|w] eqn:Eu; try discriminate.
  destruct (increment next 1) as [next'|e|w] eqn:Ei; try discriminate.
  intro E. injection E as <-. cbn [ad_vals ad_changed]. split; [|reflexivity].
  eapply increment_sorted; [exact Ei|]. eapply update_validators_sorted; eauto.
Qed.

(* applying the pending list never fails (in particular: removing a validator twice in one block
   is a no-op - F-14c) *)
Theorem update_validators_total changed : forall next, exists next', update_validators next changed = Ok next'.
Proof.
  induction changed as [|a t IH]; intro next; cbn [update_validators]; [eauto|].
  destruct (at_cmd a).
  - rewrite get_by_address_find. destruct (find_addr (vl next) (at_paddr a)) as [v|] eqn:Ef.
    + destruct (negb (va_power v =? at_power a)); [|apply IH].
      destruct (update_spec next (mkVal (va_addr v) (va_pub v) (at_power a) (va_accum v) (0 <? at_power a))) as [_ Hb].
      destruct (update next _) as [n1 upd]. cbn [snd] in Hb.
      assert (upd = true).
      { rewrite Hb. cbn [va_addr]. destruct (find_addr_some _ _ _ Ef) as [_ Ha]. clear -Ef.
        induction (vl next) as [|w l IHl]; [discriminate|]. cbn [find_addr update_rec va_addr] in *.
        destruct (bytes_leb (at_paddr a) (va_addr w)) eqn:E1.
        - destruct (bytes_eqb (va_addr w) (at_paddr a)) eqn:E2; [|discriminate]. injection Ef as <-.
          apply bytes_eqb_eq in E2. rewrite E2 in *. rewrite E1, bytes_eqb_refl. reflexivity.
        - destruct (find_addr_some _ _ _ Ef) as [_ Hv]. rewrite Hv, E1. specialize (IHl Ef). rewrite Hv in IHl.
          destruct (update_rec l _) as [t' b]. exact IHl. }
      clear Hb. subst upd. apply IH.
    + destruct (add_spec next (mkVal (at_paddr a) (at_pub a) (at_power a) 0 (0 <? at_power a))) as [_ Hb].
      destruct (add next _) as [n1 added]. cbn [snd] in Hb.
      assert (added = true).
      { rewrite Hb. cbn [va_addr]. clear -Ef. induction (vl next) as [|w l IHl]; [reflexivity|]. cbn [find_addr add_rec va_addr] in *.
        destruct (bytes_leb (at_paddr a) (va_addr w)).
        - destruct (bytes_eqb (va_addr w) (at_paddr a)); [discriminate|reflexivity].
        - specialize (IHl Ef). destruct (add_rec l _) as [t' b]. exact IHl. }
      clear Hb. subst added. apply IH.
  - rewrite get_by_address_find. destruct (find_addr (vl next) (at_paddr a)) as [v|] eqn:Ef.
    + destruct (negb (va_power v =? at_power a)); [|apply IH].
      destruct (update_spec next (mkVal (va_addr v) (va_pub v) (at_power a) (va_accum v) (0 <? at_power a))) as [_ Hb].
      destruct (update next _) as [n1 upd]. cbn [snd] in Hb.
      assert (upd = true).
      { rewrite Hb. cbn [va_addr]. clear -Ef.
        induction (vl next) as [|w l IHl]; [discriminate|]. cbn [find_addr update_rec va_addr] in *.
        destruct (bytes_leb (at_paddr a) (va_addr w)) eqn:E1.
        - destruct (bytes_eqb (va_addr w) (at_paddr a)) eqn:E2; [|discriminate]. injection Ef as <-.
          apply bytes_eqb_eq in E2. rewrite E2 in *. rewrite E1, bytes_eqb_refl. reflexivity.
        - destruct (find_addr_some _ _ _ Ef) as [_ Hv]. rewrite Hv, E1. specialize (IHl Ef). rewrite Hv in IHl.
          destruct (update_rec l _) as [t' b]. exact IHl. }
      clear Hb. subst upd. apply IH.
    + destruct (add_spec next (mkVal (at_paddr a) (at_pub a) (at_power a) 0 (0 <? at_power a))) as [_ Hb].
      destruct (add next _) as [n1 added]. cbn [snd] in Hb.
      assert (added = true).
      { rewrite Hb. cbn [va_addr]. clear -Ef. induction (vl next) as [|w l IHl]; [reflexivity|]. cbn [find_addr add_rec va_addr] in *.
        destruct (bytes_leb (at_paddr a) (va_addr w)).
        - destruct (bytes_eqb (va_addr w) (at_paddr a)); [discriminate|reflexivity].
        - specialize (IHl Ef). destruct (add_rec l _) as [t' b]. exact IHl. }
      clear Hb. subst added. apply IH.
  - destruct (remove next (at_paddr a)) as [n1 r]. apply IH.
  - apply IH.
Qed.

(* ---------- replays ---------- *)
(* the current set already reflects the request *)
Definition settled (vs : valset) (a : vattr) : Prop :=
  match at_cmd a with
  | CAdd => find_addr (vl vs) (at_paddr a) <> None
  | CUpdate => exists v, find_addr (vl vs) (at_paddr a) = Some v /\ va_power v = at_power a
  | CRemove => find_addr (vl vs) (at_paddr a) = None
  | COther => True
  end.

(* a request whose effect is already in place changes nothing, whatever else it passes or fails *)
Theorem replay_noop st c from nonce st' code :
  settled (ad_vals st) (ac_attr c) -> exec_tx st c from nonce = (st', code) ->
  ad_changed st' = ad_changed st /\ vl (ad_vals st') = vl (ad_vals st).
Proof.
  intro Hset. unfold exec_tx. destruct (check_major23 (ad_vals st) (ac_sigs c)) as [ok vs1] eqn:Ec.
  assert (Hvl : vl vs1 = vl (ad_vals st)).
  { unfold check_major23 in Ec. destruct (total_vp (ad_vals st)) as [t vs'] eqn:Et. injection Ec as _ <-.
    unfold total_vp in Et. destruct (v_tvp (ad_vals st) =? 0); injection Et as _ <-; reflexivity. }
  unfold settled in Hset. rewrite get_by_address_find, Hvl.
  destruct (negb ok); [intro E; injection E as <- _; auto|].
  destruct (negb (ac_type_ok c)); [intro E; injection E as <- _; auto|].
  destruct (negb (ac_parse_ok c)); [intro E; injection E as <- _; auto|].
  destruct (negb (bytes_eqb from (at_from (ac_attr c)))); [intro E; injection E as <- _; auto|].
  destruct (negb (u64 (at_nonce (ac_attr c) + 1) =? nonce)); [intro E; injection E as <- _; auto|].
  destruct (at_cmd (ac_attr c)).
  - destruct (negb (ac_selfsign_ok c)); [intro E; injection E as <- _; auto|].
    destruct (find_addr (vl (ad_vals st)) (at_paddr (ac_attr c))); [intro E; injection E as <- _; auto|congruence].
  - destruct Hset as (v & -> & Hp). rewrite Hp, Z.eqb_refl. intro E; injection E as <- _; auto.
  - rewrite Hset. intro E; injection E as <- _; auto.
  - intro E; injection E as <- _; auto.
Qed.

Lemma find_addr_add_rec l x : sorted l -> find_addr (fst (add_rec l x)) (va_addr x) <> None.
Proof.
  unfold sorted. induction l as [|w t IH]; intro Hs.
  - cbn. assert (E : bytes_leb (va_addr x) (va_addr x) = true) by (unfold bytes_leb; replace (bytes_cmp (va_addr x) (va_addr x)) with Eq by (symmetry; apply bytes_cmp_eq; reflexivity); reflexivity).
    rewrite E, bytes_eqb_refl. discriminate.
  - inversion Hs as [|? ? Hst Hall]; subst. cbn [add_rec].
    destruct (bytes_leb (va_addr x) (va_addr w)) eqn:E1.
    + destruct (bytes_eqb (va_addr w) (va_addr x)) eqn:E2; cbn [fst find_addr].
      * rewrite E1, E2. discriminate.
      * assert (E : bytes_leb (va_addr x) (va_addr x) = true) by (unfold bytes_leb; replace (bytes_cmp (va_addr x) (va_addr x)) with Eq by (symmetry; apply bytes_cmp_eq; reflexivity); reflexivity).
        rewrite E, bytes_eqb_refl. discriminate.
    + destruct (add_rec t x) as [t' b] eqn:Et. cbn [fst find_addr] in *. rewrite E1. apply IH. exact Hst.
Qed.

Lemma find_addr_update_rec l x : snd (update_rec l x) = true -> find_addr (fst (update_rec l x)) (va_addr x) = Some x.
Proof.
  induction l as [|w t IH]; [discriminate|]. cbn [update_rec].
  destruct (bytes_leb (va_addr x) (va_addr w)) eqn:E1.
  - destruct (bytes_eqb (va_addr w) (va_addr x)) eqn:E2; [|discriminate]. intros _. cbn [fst find_addr].
    assert (E : bytes_leb (va_addr x) (va_addr x) = true) by (unfold bytes_leb; replace (bytes_cmp (va_addr x) (va_addr x)) with Eq by (symmetry; apply bytes_cmp_eq; reflexivity); reflexivity).
    rewrite E, bytes_eqb_refl. reflexivity.
  - destruct (update_rec t x) as [t' b]. cbn [fst snd find_addr] in *. rewrite E1. exact IH.
Qed.

Lemma find_addr_remove_rec l a : sorted l -> find_addr (fst (remove_rec l a)) a = None.
Proof.
  unfold sorted. induction l as [|w t IH]; intro Hs; [reflexivity|].
  inversion Hs as [|? ? Hst Hall]; subst. cbn [remove_rec].
  destruct (bytes_leb a (va_addr w)) eqn:E1.
  - destruct (bytes_eqb (va_addr w) a) eqn:E2; cbn [fst].
    + (* w removed; the rest is above a *)
      apply bytes_eqb_eq in E2. subst a. clear -Hall. induction t as [|x t IHt]; [reflexivity|].
      cbn [find_addr]. inversion Hall as [|? ? Hx Ht]; subst. unfold blt in Hx.
      assert (E : bytes_leb (va_addr w) (va_addr x) = true) by (unfold bytes_leb; rewrite Hx; reflexivity).
      rewrite E. destruct (bytes_eqb (va_addr x) (va_addr w)) eqn:E3; [|reflexivity].
      apply bytes_eqb_eq in E3. rewrite E3 in Hx. exfalso. exact (blt_irrefl _ Hx).
    + cbn [find_addr]. rewrite E1, E2. reflexivity.
  - destruct (remove_rec t a) as [t' b] eqn:Et. cbn [fst find_addr] in *. rewrite E1. apply IH. exact Hst.
Qed.

(* find_addr only looks at addresses and returns the stored record: increments keep the answer's
   power *)
Lemma find_addr_incr_once vs vs' a : incr_once vs = Ok vs' ->
  (find_addr (vl vs') a = None <-> find_addr (vl vs) a = None) /\
  (forall v', find_addr (vl vs') a = Some v' -> exists v, find_addr (vl vs) a = Some v /\ va_power v' = va_power v).
Proof.
  intro E. pose proof (incr_once_addrs vs vs' E) as Ha.
  assert (Hp : map va_power (vl vs') = map va_power (vl vs)).
  { unfold incr_once in E. destruct (vl vs) as [|v0 t0] eqn:El; [discriminate|]. rewrite <- El in *.
    destruct (total_vp _) as [t vs1]. injection E as <-. cbn [vl].
    change (map va_power ?l) with (powers l). rewrite powers_map_nth by reflexivity. unfold powers. rewrite map_map. reflexivity. }
  revert Ha Hp. generalize (vl vs') as l'. generalize (vl vs) as l. clear.
  induction l as [|v t IH]; intros [|v' t'] Ha Hp; cbn in Ha, Hp; try discriminate.
  - split; [tauto|]. cbn. discriminate.
  - injection Ha as Ha1 Ha2. injection Hp as Hp1 Hp2. cbn [find_addr]. rewrite Ha1.
    destruct (bytes_leb a (va_addr v)).
    + destruct (bytes_eqb (va_addr v) a); [|split; [tauto|discriminate]].
      split; [split; discriminate|]. intros v'' Hv. injection Hv as <-. eauto.
    + apply IH; assumption.
Qed.

(* after the block in which a request was the only pending change, the request is settled *)
Theorem applied_settles vs a vs' :
  sorted (vl vs) -> end_block (mkAdmin vs [a]) = Ok vs' -> settled (ad_vals vs') a.
Proof.
  intros Hs. unfold end_block. cbn [ad_vals ad_changed update_validators].
  unfold settled. unfold increment. change (Z.to_nat 1) with 1%nat. cbn [incr_n].
  destruct (at_cmd a) eqn:Ecmd.
  - rewrite get_by_address_find. destruct (find_addr (vl vs) (at_paddr a)) as [v|] eqn:Ef.
    + destruct (negb (va_power v =? at_power a)).
      * destruct (update_spec vs (mkVal (va_addr v) (va_pub v) (at_power a) (va_accum v) (0 <? at_power a))) as [Hl Hb].
        destruct (update vs _) as [n1 upd]. cbn [fst snd] in *. destruct upd; [|discriminate].
        destruct (incr_once n1) as [n2|e|w] eqn:Ei; try discriminate. intro E; injection E as <-. cbn [ad_vals].
        destruct (find_addr_incr_once n1 n2 (at_paddr a) Ei) as [Hnone _]. rewrite Hnone, Hl.
        destruct (find_addr_some _ _ _ Ef) as [_ Hva].
        pose proof (find_addr_update_rec (vl vs) (mkVal (va_addr v) (va_pub v) (at_power a) (va_accum v) (0 <? at_power a)) (eq_sym Hb)) as Hf.
        cbn [va_addr] in Hf. rewrite <- Hva. rewrite Hf. discriminate.
      * destruct (incr_once vs) as [n2|e|w] eqn:Ei; try discriminate. intro E; injection E as <-. cbn [ad_vals].
        destruct (find_addr_incr_once vs n2 (at_paddr a) Ei) as [Hnone _]. rewrite Hnone, Ef. discriminate.
    + destruct (add_spec vs (mkVal (at_paddr a) (at_pub a) (at_power a) 0 (0 <? at_power a))) as [Hl Hb].
      destruct (add vs _) as [n1 added]. cbn [fst snd] in *. destruct added; [|discriminate].
      destruct (incr_once n1) as [n2|e|w] eqn:Ei; try discriminate. intro E; injection E as <-. cbn [ad_vals].
      destruct (find_addr_incr_once n1 n2 (at_paddr a) Ei) as [Hnone _]. rewrite Hnone, Hl.
      apply (find_addr_add_rec (vl vs) (mkVal (at_paddr a) (at_pub a) (at_power a) 0 (0 <? at_power a))). exact Hs.
  - rewrite get_by_address_find. destruct (find_addr (vl vs) (at_paddr a)) as [v|] eqn:Ef.
    + destruct (va_power v =? at_power a) eqn:Ep; cbn [negb].
      * destruct (incr_once vs) as [n2|e|w] eqn:Ei; try discriminate. intro E; injection E as <-. cbn [ad_vals].
        destruct (find_addr_incr_once vs n2 (at_paddr a) Ei) as [Hnone Hsome].
        destruct (find_addr (vl n2) (at_paddr a)) as [v2|] eqn:E2; [|exfalso; destruct Hnone as [Hn _]; specialize (Hn eq_refl); congruence].
        destruct (Hsome v2 eq_refl) as (v1 & Hv1 & Hpw). rewrite Ef in Hv1. injection Hv1 as <-.
        exists v2. split; [reflexivity|]. apply Z.eqb_eq in Ep. lia.
      * destruct (update_spec vs (mkVal (va_addr v) (va_pub v) (at_power a) (va_accum v) (0 <? at_power a))) as [Hl Hb].
        destruct (update vs _) as [n1 upd]. cbn [fst snd] in *. destruct upd; [|discriminate].
        destruct (incr_once n1) as [n2|e|w] eqn:Ei; try discriminate. intro E; injection E as <-. cbn [ad_vals].
        destruct (find_addr_incr_once n1 n2 (at_paddr a) Ei) as [Hnone Hsome].
        destruct (find_addr_some _ _ _ Ef) as [_ Hva].
        pose proof (find_addr_update_rec (vl vs) (mkVal (va_addr v) (va_pub v) (at_power a) (va_accum v) (0 <? at_power a)) (eq_sym Hb)) as Hf.
        cbn [va_addr] in Hf. rewrite <- Hl in Hf. rewrite <- Hva in *.
        destruct (find_addr (vl n2) (va_addr v)) as [v2|] eqn:E2; [|exfalso; destruct Hnone as [Hn _]; specialize (Hn eq_refl); congruence].
        destruct (Hsome v2 eq_refl) as (v1 & Hv1 & Hpw). rewrite Hf in Hv1. injection Hv1 as <-.
        exists v2. split; [reflexivity|]. exact Hpw.
    + destruct (add_spec vs (mkVal (at_paddr a) (at_pub a) (at_power a) 0 (0 <? at_power a))) as [Hl Hb].
      destruct (add vs _) as [n1 added]. cbn [fst snd] in *. destruct added; [|discriminate].
      destruct (incr_once n1) as [n2|e|w] eqn:Ei; try discriminate. intro E; injection E as <-. cbn [ad_vals].
      destruct (find_addr_incr_once n1 n2 (at_paddr a) Ei) as [Hnone Hsome].
      (* the added validator is found with the requested power *)
      assert (Hf : find_addr (vl n1) (at_paddr a) = Some (mkVal (at_paddr a) (at_pub a) (at_power a) 0 (0 <? at_power a))).
      { rewrite Hl. clear -Ef Hb. revert Hb. induction (vl vs) as [|w l IHl]; intro Hb.
        - cbn. assert (E : bytes_leb (at_paddr a) (at_paddr a) = true) by (unfold bytes_leb; replace (bytes_cmp (at_paddr a) (at_paddr a)) with Eq by (symmetry; apply bytes_cmp_eq; reflexivity); reflexivity).
          rewrite E, bytes_eqb_refl. reflexivity.
        - cbn [find_addr add_rec va_addr] in *. destruct (bytes_leb (at_paddr a) (va_addr w)) eqn:E1.
          + destruct (bytes_eqb (va_addr w) (at_paddr a)) eqn:E2; [discriminate|]. cbn [fst find_addr va_addr].
            assert (E : bytes_leb (at_paddr a) (at_paddr a) = true) by (unfold bytes_leb; replace (bytes_cmp (at_paddr a) (at_paddr a)) with Eq by (symmetry; apply bytes_cmp_eq; reflexivity); reflexivity).
            rewrite E, bytes_eqb_refl. reflexivity.
          + destruct (add_rec l _) as [t' b] eqn:Et. cbn [fst snd find_addr] in *. rewrite E1. apply IHl; assumption. }
      destruct (find_addr (vl n2) (at_paddr a)) as [v2|] eqn:E2; [|exfalso; destruct Hnone as [Hn _]; specialize (Hn eq_refl); congruence].
      destruct (Hsome v2 eq_refl) as (v1 & Hv1 & Hpw). rewrite Hf in Hv1. injection Hv1 as <-.
      exists v2. split; [reflexivity|]. exact Hpw.
  - destruct (remove_spec vs (at_paddr a)) as [Hl _]. destruct (remove vs (at_paddr a)) as [n1 r]. cbn [fst] in Hl.
    destruct (incr_once n1) as [n2|e|w] eqn:Ei; try discriminate. intro E; injection E as <-. cbn [ad_vals].
    destruct (find_addr_incr_once n1 n2 (at_paddr a) Ei) as [Hnone _]. apply Hnone. rewrite Hl.
    apply find_addr_remove_rec. exact Hs.
  - intros _. exact I.
Qed.
