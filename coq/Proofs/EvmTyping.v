(* Type safety of the interpreter model: every value the machine holds is of its kind - stack
   entries and storage keys and values are 256-bit words, memory cells are bytes, memory never
   exceeds what the model sizes - in every state of every run, for every program. *)
From Coq Require Import ZArith Bool List Lia Arith.
From AnnVerif Require Import Model.EvmArith Model.Keccak Model.EvmCore Proofs.EvmProofs Proofs.EvmCoreProofs.
Import ListNotations.
Open Scope Z_scope.

Definition byte (x : Z) : Prop := 0 <= x < 256.

(* ---------- words under the bitwise instructions ---------- *)
Lemma word_mod x : word x <-> x mod W = x /\ True.
Proof.
  split; [intros [A B]; split; [apply Z.mod_small; lia|exact I]|].
  intros [E _]. rewrite <- E. apply Z.mod_pos_bound. apply W_pos.
Qed.
Lemma word_bits x : 0 <= x -> (forall m, 256 <= m -> Z.testbit x m = false) -> word x.
Proof.
  intros Hx H. apply word_mod. split; [|exact I]. apply Z.bits_inj'. intros k Hk. unfold W.
  destruct (Z.lt_ge_cases k 256) as [L|G]; [apply Z.mod_pow2_bits_low; exact L|].
  rewrite Z.mod_pow2_bits_high by lia. symmetry. apply H. exact G.
Qed.
Lemma bits_word x m : word x -> 256 <= m -> Z.testbit x m = false.
Proof.
  intros Hx Hm. replace x with (x mod 2 ^ 256) by (apply Z.mod_small; exact Hx). apply Z.mod_pow2_bits_high. lia.
Qed.
Lemma land_word a b : word a -> word b -> word (Z.land a b).
Proof.
  intros Ha Hb. apply word_bits; [apply Z.land_nonneg; left; apply Ha|].
  intros m Hm. rewrite Z.land_spec, (bits_word a m Ha Hm). reflexivity.
Qed.
Lemma lor_word a b : word a -> word b -> word (Z.lor a b).
Proof.
  intros Ha Hb. apply word_bits; [apply Z.lor_nonneg; split; [apply Ha|apply Hb]|].
  intros m Hm. rewrite Z.lor_spec, (bits_word a m Ha Hm), (bits_word b m Hb Hm). reflexivity.
Qed.
Lemma lxor_word a b : word a -> word b -> word (Z.lxor a b).
Proof.
  intros Ha Hb. apply word_bits; [apply Z.lxor_nonneg; split; intros _; [apply Hb|apply Ha]|].
  intros m Hm. rewrite Z.lxor_spec, (bits_word a m Ha Hm), (bits_word b m Hb Hm). reflexivity.
Qed.
Lemma b2w_word c : word (b2w c). Proof. unfold word, b2w. pose proof W_pos. unfold W in *. destruct c; lia. Qed.
Lemma pow2_lt_W k : 0 <= k < 256 -> 0 < 2 ^ k < W.
Proof. intros Hk. unfold W. split; [apply Z.pow_pos_nonneg; lia|apply Z.pow_lt_mono_r; lia]. Qed.

Lemma signextend_word a b : word a -> word b -> word (op_signextend a b).
Proof.
  intros Ha Hb. unfold op_signextend. destruct (a <? 31) eqn:E; [|exact Hb]. apply Z.ltb_lt in E.
  assert (Hk : 0 <= a * 8 + 7 < 256) by (destruct Ha; lia).
  pose proof (pow2_lt_W _ Hk) as Hp.
  assert (Hm : word (2 ^ (a * 8 + 7) - 1)) by (unfold word; lia).
  destruct (Z.testbit b (a * 8 + 7)); [apply lor_word; [exact Hb|unfold word; lia]|apply land_word; assumption].
Qed.
Lemma shr_word s v : word s -> word v -> word (op_shr s v).
Proof.
  intros Hs Hv. unfold op_shr. destruct (s <? 256); [|pose proof W_pos; unfold word; lia].
  destruct Hs as [Hs _]. destruct Hv as [Hv0 Hv1].
  assert (Hp : 0 < 2 ^ s) by (apply Z.pow_pos_nonneg; lia).
  split; [apply Z.div_pos; lia|].
  apply Z.le_lt_trans with v; [|exact Hv1].
  apply Z.div_le_upper_bound; [exact Hp|]. assert (1 <= 2 ^ s) by lia. nia.
Qed.
Lemma exp_word a b : word b -> word (op_exp a b).
Proof.
  intros Hb. unfold op_exp. destruct b as [|p|p]; [pose proof W_pos; unfold word, W in *; lia| |destruct Hb; lia].
  rewrite exp_pos_spec. apply Z.mod_pos_bound. apply W_pos.
Qed.

Lemma eval_word op a b c r : eval op a b c = Some r -> word a -> word b -> word c -> word r.
Proof.
  intros E Ha Hb Hc. unfold eval in E.
  repeat match type of E with
         | match ?x with _ => _ end = _ => destruct x; try discriminate
         end;
    injection E as <-;
    try apply wrap_word; try apply b2w_word;
    try (apply div_word; assumption); try (apply mod_word; assumption);
    try (apply addmod_word; assumption); try (apply mulmod_word; assumption);
    try (apply land_word; assumption); try (apply lor_word; assumption); try (apply lxor_word; assumption);
    try (apply signextend_word; assumption); try (apply shr_word; assumption); try (apply exp_word; assumption).
  all: match goal with
       | |- word (op_sdiv _ _) => unfold op_sdiv; destruct (b =? 0); [pose proof W_pos; unfold word; lia|apply wrap_word]
       | |- word (op_smod _ _) => unfold op_smod; destruct (b =? 0); [pose proof W_pos; unfold word; lia|apply wrap_word]
       | |- word (op_not _) => unfold op_not, word in *; lia
       | |- word (op_byte _ _) =>
         unfold op_byte; destruct (a <? 32); [|pose proof W_pos; unfold word; lia];
         pose proof (Z.mod_pos_bound (b / 2 ^ (8 * (31 - a))) 256 ltac:(lia)); pose proof (pow2_lt_W 8 ltac:(lia));
         unfold word; change (2 ^ 8) with 256 in *; lia
       | |- word (op_shl _ _) => unfold op_shl; destruct (a <? 256); [apply wrap_word|pose proof W_pos; unfold word; lia]
       | |- word (op_sar _ _) => unfold op_sar; destruct (a <? 256); [apply wrap_word|]; destruct (sgn b <? 0); pose proof W_pos; unfold word; lia
       end.
Qed.

(* ---------- bytes ---------- *)
Lemma acc_bytes_bound l : forall acc, Forall byte l -> 0 <= acc -> 0 <= word_of_bytes_acc l acc < (acc + 1) * 256 ^ Z.of_nat (length l).
Proof.
  induction l as [|x t IH]; intros acc Hl Ha; cbn [word_of_bytes_acc length]; [cbn; lia|].
  inversion Hl as [|? ? Hx Ht]; subst. unfold byte in Hx.
  specialize (IH (acc * 256 + x) Ht ltac:(nia)). rewrite Nat2Z.inj_succ, Z.pow_succ_r by lia.
  assert (0 < 256 ^ Z.of_nat (length t)) by (apply Z.pow_pos_nonneg; lia). nia.
Qed.
Lemma word_of_bytes_word l : Forall byte l -> (length l <= 32)%nat -> word (word_of_bytes l).
Proof.
  intros Hl Hn. unfold word_of_bytes. pose proof (acc_bytes_bound l 0 Hl ltac:(lia)) as [A B]. split; [exact A|].
  eapply Z.lt_le_trans; [exact B|]. unfold W. change (2 ^ 256) with (256 ^ 32). rewrite Z.mul_1_l.
  apply Z.pow_le_mono_r; lia.
Qed.
Lemma bytes_of_word_bytes n w : Forall byte (bytes_of_word n w).
Proof.
  revert w. induction n as [|k IH]; intro w; cbn [bytes_of_word]; [constructor|].
  apply Forall_app. split; [apply IH|]. constructor; [|constructor]. apply Z.mod_pos_bound. lia.
Qed.
Lemma repeat0_bytes n : Forall byte (repeat 0 n).
Proof. induction n; cbn; constructor; [unfold byte; lia|assumption]. Qed.
Lemma firstn_bytes n : forall l, Forall byte l -> Forall byte (firstn n l).
Proof. induction n as [|k IH]; intros l H; cbn [firstn]; [constructor|]. destruct l; [constructor|]. inversion H; subst. constructor; auto. Qed.
Lemma skipn_bytes n : forall l, Forall byte l -> Forall byte (skipn n l).
Proof. induction n as [|k IH]; intros l H; cbn [skipn]; [exact H|]. destruct l; [constructor|]. inversion H; subst. auto. Qed.
Lemma slice_bytes l off len : Forall byte l -> Forall byte (slice l off len).
Proof. intro H. unfold slice. apply firstn_bytes. apply Forall_app. split; [apply skipn_bytes; exact H|apply repeat0_bytes]. Qed.
Lemma slice_length l off len : length (slice l off len) = len.
Proof. unfold slice. rewrite firstn_length, app_length, repeat_length. lia. Qed.
Lemma get_data_bytes d off len : Forall byte d -> Forall byte (get_data d off len).
Proof. intro H. unfold get_data. destruct (_ <=? _); [apply repeat0_bytes|apply slice_bytes; exact H]. Qed.
Lemma get_data_length d off len : length (get_data d off len) = len.
Proof. unfold get_data. destruct (_ <=? _); [apply repeat_length|apply slice_length]. Qed.
Lemma mem_resize_bytes m n : Forall byte m -> Forall byte (mem_resize m n).
Proof. intro H. unfold mem_resize. destruct (Nat.ltb _ _); [apply Forall_app; split; [exact H|apply repeat0_bytes]|exact H]. Qed.
Lemma mem_write_bytes m off bs : Forall byte m -> Forall byte bs -> Forall byte (mem_write m off bs).
Proof. intros Hm Hb. unfold mem_write. apply Forall_app. split; [apply firstn_bytes; exact Hm|apply Forall_app; split; [exact Hb|apply skipn_bytes; exact Hm]]. Qed.
Lemma mslice_bytes m off len : Forall byte m -> Forall byte (mslice m off len).
Proof. intro H. unfold mslice. destruct (len =? 0); [constructor|apply slice_bytes; exact H]. Qed.

(* ---------- the hash is a word ---------- *)
Lemma keccak_round_length s rc : length (keccak_round s rc) = 25%nat.
Proof.
  unfold keccak_round. cbv zeta.
  match goal with |- length (match ?c with [] => [] | h :: t => _ end) = _ => assert (Hc : length c = 25%nat) by (rewrite map_length; reflexivity); destruct c as [|h t]; [discriminate|exact Hc] end.
Qed.
Lemma keccak_f_length s : length (keccak_f s) = 25%nat.
Proof.
  unfold keccak_f, round_consts.
  repeat match goal with |- context [fold_left _ (?x :: ?t) _] => cbn [fold_left] end.
  apply keccak_round_length.
Qed.
Lemma absorb_length s blk : length (absorb s blk) = 25%nat.
Proof. unfold absorb. apply keccak_f_length. Qed.
Lemma absorb_all_length fuel : forall s l, length s = 25%nat -> length (absorb_all fuel s l) = 25%nat.
Proof.
  induction fuel as [|k IH]; intros s l Hs; cbn [absorb_all]; [exact Hs|].
  destruct l; [exact Hs|]. apply IH. apply absorb_length.
Qed.
Lemma bytes_of_lane_bytes n w : Forall byte (bytes_of_lane n w).
Proof. revert w. induction n as [|k IH]; intro w; cbn [bytes_of_lane]; constructor; [apply Z.mod_pos_bound; lia|apply IH]. Qed.
Lemma bytes_of_lane_length n w : length (bytes_of_lane n w) = n.
Proof. revert w. induction n as [|k IH]; intro w; cbn [bytes_of_lane length]; [reflexivity|now rewrite IH]. Qed.
Lemma keccak256_bytes msg : Forall byte (keccak256 msg) /\ (length (keccak256 msg) <= 32)%nat.
Proof.
  unfold keccak256. cbv zeta. set (s := absorb_all _ _ _).
  assert (Hs : length s = 25%nat) by (apply absorb_all_length; apply repeat_length).
  destruct s as [|a [|b [|c [|d t]]]]; try discriminate. cbn [firstn flat_map].
  split.
  - repeat (apply Forall_app; split); try apply bytes_of_lane_bytes. constructor.
  - rewrite !app_length, !bytes_of_lane_length. cbn. lia.
Qed.
Lemma be_word_eq l acc : be_word l acc = word_of_bytes_acc l acc.
Proof. revert acc. induction l as [|x t IH]; intro acc; cbn; [reflexivity|apply IH]. Qed.
Lemma keccak_word_word msg : word (keccak_word msg).
Proof.
  unfold keccak_word. rewrite be_word_eq. destruct (keccak256_bytes msg) as [A B]. apply (word_of_bytes_word _ A B).
Qed.

(* ---------- the machine ---------- *)
Record wf_env (e : env) (code : list Z) : Prop := mkWfEnv {
  wf_address : word (e_address e); wf_origin : word (e_origin e); wf_caller : word (e_caller e);
  wf_value : word (e_value e); wf_gasprice : word (e_gasprice e); wf_coinbase : word (e_coinbase e);
  wf_time : word (e_time e); wf_number : word (e_number e); wf_difficulty : word (e_difficulty e);
  wf_gaslimit : word (e_gaslimit e);
  wf_data : Forall byte (e_data e); wf_datalen : Z.of_nat (length (e_data e)) < 2 ^ 64;
  wf_code : Forall byte code; wf_codelen : Z.of_nat (length code) < 2 ^ 64;
  wf_blockhash : forall n, word (e_blockhash e n) }.

Definition kvs_typed (s : list (Z * Z)) : Prop := Forall (fun kv => word (fst kv) /\ word (snd kv)) s.
Definition typed (code : list Z) (m : mstate) : Prop :=
  Forall word (m_stack m) /\ Forall byte (m_mem m) /\ Z.of_nat (length (m_mem m)) <= 65536 /\ kvs_typed (m_store m) /\
  (m_pc m <= length code + 33)%nat.

Lemma word0 : word 0. Proof. pose proof W_pos. unfold word. lia. Qed.
Lemma st_word s k : Forall word s -> word (st s k).
Proof.
  intro H. unfold st. destruct (nth_in_or_default k s 0) as [Hin| ->]; [|apply word0]. rewrite Forall_forall in H. apply H. exact Hin.
Qed.
Lemma small_word x : 0 <= x < 2 ^ 64 + 100000 -> word x.
Proof. intros [A B]. split; [exact A|]. unfold W. assert (2 ^ 64 + 100000 < 2 ^ 256) by (vm_compute; reflexivity). lia. Qed.
Lemma sload_word s k : kvs_typed s -> word (sload s k).
Proof.
  induction s as [|[k' v] t IH]; intro H; cbn [sload]; [apply word0|]. inversion H as [|? ? Hx Ht]; subst.
  destruct (k' =? k); [apply Hx|apply IH; exact Ht].
Qed.

Lemma mem_need_size off len n : mem_need off len = MSize n -> 0 <= off -> 0 <= len ->
  0 < len /\ off + len <= Z.of_nat n /\ Z.of_nat n <= 65536.
Proof.
  unfold mem_need. destruct (Z.eqb_spec len 0) as [|Hl]; [discriminate|].
  destruct (_ <=? _); [discriminate|]. destruct (_ <? _); [discriminate|].
  destruct (1099511627744 <? _); [discriminate|]. destruct (Z.ltb_spec 65536 ((off + len + 31) / 32 * 32)) as [|Hs]; [discriminate|].
  intros E Ho Hlen. injection E as <-.
  pose proof (Z.div_mod (off + len + 31) 32 ltac:(lia)) as D. pose proof (Z.mod_pos_bound (off + len + 31) 32 ltac:(lia)) as M.
  rewrite Z2Nat.id by lia. lia.
Qed.
Lemma mem_need_never_none off len : 0 < len -> mem_need off len <> MNone.
Proof. intro H. unfold mem_need. destruct (Z.eqb_spec len 0); [lia|]. repeat destruct (_ <=? _); repeat destruct (_ <? _); discriminate. Qed.

Lemma mem_write_length m off bs : (off + length bs <= length m)%nat -> length (mem_write m off bs) = length m.
Proof. intro H. unfold mem_write. rewrite !app_length, firstn_length, skipn_length. lia. Qed.
Lemma mem_resize_length m n : length (mem_resize m n) = Nat.max (length m) n.
Proof. unfold mem_resize. destruct (Nat.ltb_spec (length m) n); [rewrite app_length, repeat_length|]; lia. Qed.
Lemma bytes_of_word_length n w : length (bytes_of_word n w) = n.
Proof. revert w. induction n as [|k IH]; intro w; cbn [bytes_of_word]; [reflexivity|]. rewrite app_length, IH. cbn. lia. Qed.
Lemma firstn_words n : forall l, Forall word l -> Forall word (firstn n l).
Proof. induction n as [|k IH]; intros l H; cbn [firstn]; [constructor|]. destruct l; [constructor|]. inversion H; subst. constructor; auto. Qed.
Lemma skipn_words n : forall l, Forall word l -> Forall word (skipn n l).
Proof. induction n as [|k IH]; intros l H; cbn [skipn]; [exact H|]. destruct l; [constructor|]. inversion H; subst. auto. Qed.

Definition push_ok (i : instr) : Prop := match i with IPush n => (n <= 32)%nat | _ => True end.
Lemma decode_push_ok b : push_ok (decode b).
Proof.
  destruct (decode b) eqn:E; cbn; try exact I. pose proof (decode_push b n E) as H. rewrite <- H.
  unfold push_len. destruct ((96 <=? b) && (b <=? 127)) eqn:Eb; lia.
Qed.

Arguments bytes_of_word : simpl never.
Arguments word_of_bytes : simpl never.
Arguments slice : simpl never.
Arguments get_data : simpl never.
Arguments mem_write : simpl never.
Arguments keccak_word : simpl never.

(* what one instruction produces, given that the memory has been sized for it *)
Lemma exec_typed e code i m f : wf_env e code -> typed code m -> push_ok i ->
  (forall n, instr_mem i (m_stack m) = MSize n -> (n <= length (m_mem m))%nat) ->
  instr_mem i (m_stack m) <> MFail -> instr_mem i (m_stack m) <> MOog -> instr_mem i (m_stack m) <> MUnsup ->
  exec e code i m = inl f ->
  Forall word (f_outs f) /\ Forall byte (f_mem f) /\ length (f_mem f) = length (m_mem m) /\ kvs_typed (f_store f).
Proof.
  intros [A1 A2 A3 A4 A5 A6 A7 A8 A9 A10 Ad Adl Ac Acl Abh] (Hs & Hm & Hl & Hk & Hp) Hpush Hsz NF NO NU E.
  assert (W0 := st_word (m_stack m) 0 Hs). assert (W1 := st_word (m_stack m) 1 Hs).
  assert (W2 := st_word (m_stack m) 2 Hs).
  assert (Wr : forall off len bs, instr_mem i (m_stack m) = mem_need off len -> 0 <= off -> 0 < len -> length bs = Z.to_nat len ->
               length (mem_write (m_mem m) (Z.to_nat off) bs) = length (m_mem m)).
  { intros off len bs Ei Ho Hlen Hb. apply mem_write_length.
    destruct (mem_need off len) eqn:En; try congruence.
    - exfalso. eapply mem_need_never_none; eauto.
    - destruct (mem_need_size _ _ _ En Ho ltac:(lia)) as (_ & B & _). specialize (Hsz n Ei). rewrite Hb. lia. }
  assert (Same : Forall word [] /\ Forall byte (m_mem m) /\ length (m_mem m) = length (m_mem m) /\ kvs_typed (m_store m))
    by (split; [constructor|]; split; [exact Hm|]; split; [reflexivity|exact Hk]).
  assert (One : forall v, word v -> Forall word [v] /\ Forall byte (m_mem m) /\ length (m_mem m) = length (m_mem m) /\ kvs_typed (m_store m))
    by (intros v Hv; split; [constructor; [exact Hv|constructor]|]; split; [exact Hm|]; split; [reflexivity|exact Hk]).
  destruct i; cbn [exec] in E; try discriminate.
  - (* JUMPDEST *) injection E as <-. exact Same.
  - (* pure *) destruct (eval _ _ _ _) eqn:Ev; [|discriminate]. injection E as <-. apply One. eapply eval_word; eauto.
  - (* environment *) injection E as <-. apply One.
    destruct k; cbn [env_val]; try assumption; try apply word0; apply small_word; lia.
  - (* SHA3 *) injection E as <-. apply One. apply keccak_word_word.
  - (* BLOCKHASH *) injection E as <-. apply One. destruct (_ && _); [apply Abh|apply word0].
  - (* CALLDATALOAD *) injection E as <-. apply One.
    apply word_of_bytes_word; [apply get_data_bytes; exact Ad|rewrite get_data_length; lia].
  - (* CALLDATACOPY *) injection E as <-. cbn [f_outs f_mem f_store]. split; [constructor|].
    destruct (Z.eqb_spec (st (m_stack m) 2) 0) as [|Hn]; [repeat split; assumption|].
    split; [apply mem_write_bytes; [exact Hm|apply get_data_bytes; exact Ad]|]. split; [|exact Hk].
    apply (Wr _ (st (m_stack m) 2)); [reflexivity|apply W0|destruct W2; lia|apply get_data_length].
  - (* CODECOPY *) injection E as <-. cbn [f_outs f_mem f_store]. split; [constructor|].
    destruct (Z.eqb_spec (st (m_stack m) 2) 0) as [|Hn]; [repeat split; assumption|].
    split; [apply mem_write_bytes; [exact Hm|apply get_data_bytes; exact Ac]|]. split; [|exact Hk].
    apply (Wr _ (st (m_stack m) 2)); [reflexivity|apply W0|destruct W2; lia|apply get_data_length].
  - (* RETURNDATACOPY *) destruct (_ =? 0); [|discriminate]. injection E as <-. exact Same.
  - (* POP *) injection E as <-. exact Same.
  - (* MLOAD *) injection E as <-. apply One.
    apply word_of_bytes_word; [apply slice_bytes; exact Hm|rewrite slice_length; lia].
  - (* MSTORE *) injection E as <-. cbn [f_outs f_mem f_store]. split; [constructor|].
    split; [apply mem_write_bytes; [exact Hm|apply bytes_of_word_bytes]|]. split; [|exact Hk].
    apply (Wr _ 32); [reflexivity|apply W0|lia|apply bytes_of_word_length].
  - (* MSTORE8 *) injection E as <-. cbn [f_outs f_mem f_store]. split; [constructor|].
    split; [apply mem_write_bytes; [exact Hm|constructor; [apply Z.mod_pos_bound; lia|constructor]]|]. split; [|exact Hk].
    apply (Wr _ 1); [reflexivity|apply W0|lia|reflexivity].
  - (* SLOAD *) injection E as <-. apply One. apply sload_word; exact Hk.
  - (* SSTORE *) injection E as <-. cbn. repeat split; try assumption; try reflexivity; [constructor|]. constructor; [split; assumption|exact Hk].
  - (* JUMP *) injection E as <-. exact Same.
  - (* JUMPI *) injection E as <-. exact Same.
  - (* PUSH *) injection E as <-. apply One. cbn in Hpush.
    apply word_of_bytes_word; [apply slice_bytes; exact Ac|rewrite slice_length; exact Hpush].
  - (* DUP *) injection E as <-. cbn. repeat split; try assumption; try reflexivity.
    constructor; [apply st_word; exact Hs|apply firstn_words; exact Hs].
  - (* SWAP *) injection E as <-. cbn. repeat split; try assumption; try reflexivity. constructor; [apply st_word; exact Hs|].
    apply Forall_app. split; [apply firstn_words; change (Forall word (skipn 1 (m_stack m))); apply skipn_words; exact Hs|constructor; [apply st_word; exact Hs|constructor]].
  - (* LOG *) injection E as <-. exact Same.
Qed.

Lemma instr_mem_size i s n : Forall word s -> instr_mem i s = MSize n -> Z.of_nat n <= 65536.
Proof.
  intros Hs. assert (W0 := st_word s 0 Hs). assert (W1 := st_word s 1 Hs). assert (W2 := st_word s 2 Hs).
  destruct i; cbn [instr_mem]; try discriminate; intro E;
    (eapply mem_need_size in E; [apply E| |]); try apply W0; try apply W1; try apply W2; lia.
Qed.

(* the program counter of a step that goes on is inside the code: beyond it every byte reads as STOP *)
Lemma step_pc_in e code m m' : step e code m = inl m' -> (m_pc m < length code)%nat.
Proof.
  intro E. destruct (Nat.lt_ge_cases (m_pc m) (length code)) as [L|G]; [exact L|]. exfalso.
  unfold step in E. replace (nth (m_pc m) code 0) with 0 in E by (symmetry; apply nth_overflow; exact G).
  change (decode 0) with IStop in E. cbn [kind fst snd sized instr_mem exec] in E.
  destruct (Nat.ltb (length (m_stack m)) 0); [discriminate|]. destruct (Nat.ltb 1024 _); discriminate.
Qed.

Theorem step_typed e code m m' : wf_env e code -> typed code m -> step e code m = inl m' -> typed code m'.
Proof.
  intros We Ht E0. pose proof (step_pc_in _ _ _ _ E0) as Hlt. revert E0.
  pose proof Ht as (Hs & Hm & Hl & Hk & Hp). unfold step.
  set (b := nth (m_pc m) code 0). set (i := decode b).
  destruct (Nat.ltb_spec (length (m_stack m)) (fst (kind i))) as [|Hpops]; [discriminate|].
  destruct (Nat.ltb _ _); [discriminate|].
  unfold sized. destruct (instr_mem i (m_stack m)) as [|n| | |] eqn:Em; try discriminate.
  - (* no memory needed *)
    destruct (exec e code i m) as [f|] eqn:Ex; [|discriminate].
    assert (Hsz : forall n, instr_mem i (m_stack m) = MSize n -> (n <= length (m_mem m))%nat) by (intros n En; congruence).
    destruct (exec_typed e code i m f We Ht (decode_push_ok b) Hsz ltac:(congruence) ltac:(congruence) ltac:(congruence) Ex) as (Ho & Hfm & Hfl & Hfk).
    assert (Hst : Forall word (f_outs f ++ skipn (fst (kind i)) (m_stack m))) by (apply Forall_app; split; [exact Ho|apply skipn_words; exact Hs]).
    pose proof (exec_pc _ _ _ _ _ Ex) as Hpc.
    destruct (f_pc f) as [|k|d].
    + intro E. injection E as <-. repeat split; cbn; try assumption; [rewrite Hfl; exact Hl|lia].
    + intro E. injection E as <-. repeat split; cbn; try assumption; [rewrite Hfl; exact Hl|].
      pose proof (decode_push_ok b) as Hk2. fold i in Hk2. rewrite Hpc in Hk2. cbn in Hk2. lia.
    + destruct (valid_dest code d) eqn:Ev; [|discriminate]. intro E. injection E as <-.
      repeat split; cbn; try assumption; [rewrite Hfl; exact Hl|].
      unfold valid_dest in Ev. destruct (Z.ltb_spec d (Z.of_nat (length code))); [|discriminate]. lia.
  - (* memory resized first *)
    set (m1 := mkM (m_pc m) (m_stack m) (mem_resize (m_mem m) n) (m_store m) (m_logs m)).
    assert (Hn : Z.of_nat n <= 65536) by (eapply instr_mem_size; eauto).
    assert (Ht1 : typed code m1).
    { repeat split; cbn; try assumption; [apply mem_resize_bytes; exact Hm|rewrite mem_resize_length; lia]. }
    destruct (exec e code i m1) as [f|] eqn:Ex; [|discriminate].
    assert (Hsz : forall n', instr_mem i (m_stack m1) = MSize n' -> (n' <= length (m_mem m1))%nat).
    { intros n' En. cbn [m_stack m_mem m1] in *. rewrite mem_resize_length. assert (n' = n) by congruence. lia. }
    destruct (exec_typed e code i m1 f We Ht1 (decode_push_ok b) Hsz) as (Ho & Hfm & Hfl & Hfk); cbn [m_stack m1]; try congruence.
    destruct Ht1 as (_ & _ & Hl1 & _).
    assert (Hst : Forall word (f_outs f ++ skipn (fst (kind i)) (m_stack m))) by (apply Forall_app; split; [exact Ho|apply skipn_words; exact Hs]).
    pose proof (exec_pc _ _ _ _ _ Ex) as Hpc.
    destruct (f_pc f) as [|k|d].
    + intro E. injection E as <-. repeat split; cbn; try assumption; [rewrite Hfl; exact Hl1|lia].
    + intro E. injection E as <-. repeat split; cbn; try assumption; [rewrite Hfl; exact Hl1|].
      pose proof (decode_push_ok b) as Hk2. fold i in Hk2. rewrite Hpc in Hk2. cbn in Hk2. lia.
    + destruct (valid_dest code d) eqn:Ev; [|discriminate]. intro E. injection E as <-.
      repeat split; cbn; try assumption; [rewrite Hfl; exact Hl1|].
      unfold valid_dest in Ev. destruct (Z.ltb_spec d (Z.of_nat (length code))); [|discriminate]. lia.
Qed.

Lemma init_typed code store : kvs_typed store -> typed code (init_state store).
Proof. intro H. repeat split; cbn; try constructor; try assumption; lia. Qed.

Theorem run_typed fuel e code : wf_env e code -> forall m, typed code m -> Forall (typed code) (states fuel e code m).
Proof.
  intro We. induction fuel as [|k IH]; intros m Hm; cbn [states]; constructor; auto.
  destruct (step e code m) as [m'|] eqn:Es; [|constructor]. apply IH. eapply step_typed; eauto.
Qed.
