(* Weighted sums over validator indices, int64 wrap-around, and quorum arithmetic. *)
From Coq Require Import List NArith ZArith Lia Bool Arith.
From AnnVerif Require Import Base.Bytes Model.VoteSet.
Import ListNotations.
Open Scope Z_scope.

Lemma wrap64_id z : -9223372036854775808 <= z < 9223372036854775808 -> wrap64 z = z.
Proof. intro H. unfold wrap64. rewrite Z.mod_small by lia. lia. Qed.

(* sum of the powers of the validators whose index satisfies P, starting at index k *)
Fixpoint pow_from (k : nat) (vals : list validator) (P : nat -> bool) : Z :=
  match vals with
  | [] => 0
  | (_, p) :: t => (if P k then p else 0) + pow_from (S k) t P
  end.
Definition pow_of (vals : list validator) (P : nat -> bool) : Z := pow_from 0 vals P.

Definition nonneg (vals : list validator) : Prop := Forall (fun v => 0 <= snd v) vals.

Lemma pow_from_ext k vals P Q :
  (forall i, (k <= i < k + length vals)%nat -> P i = Q i) -> pow_from k vals P = pow_from k vals Q.
Proof.
  revert k; induction vals as [|[a p] t IH]; intros k H; simpl; [reflexivity|].
  rewrite (H k) by (simpl; lia). f_equal. apply IH. intros i Hi. apply H. simpl. lia.
Qed.

Lemma pow_from_mono k vals P Q : nonneg vals ->
  (forall i, (k <= i < k + length vals)%nat -> P i = true -> Q i = true) -> pow_from k vals P <= pow_from k vals Q.
Proof.
  intros Hn. revert k; induction vals as [|[a p] t IH]; intros k H; simpl; [lia|].
  inversion Hn as [|? ? Hp Ht]; subst. simpl in Hp.
  assert (IH' := IH Ht (S k) ltac:(intros i Hi; apply H; simpl; lia)).
  destruct (P k) eqn:EP.
  - rewrite (H k) by (auto; simpl; lia). lia.
  - destruct (Q k); lia.
Qed.

Lemma pow_from_nonneg k vals P : nonneg vals -> 0 <= pow_from k vals P.
Proof.
  intros Hn. revert k; induction vals as [|[a p] t IH]; intros k; simpl; [lia|].
  inversion Hn as [|? ? Hp Ht]; subst. simpl in Hp. specialize (IH Ht (S k)). destruct (P k); lia.
Qed.

Lemma pow_from_le_total k vals P : nonneg vals -> pow_from k vals P <= pow_from k vals (fun _ => true).
Proof. intro Hn. apply pow_from_mono; auto. Qed.

(* switching one index on *)
Lemma pow_from_set k vals P i pw a :
  (k <= i)%nat -> nth_error vals (i - k) = Some (a, pw) -> P i = false ->
  pow_from k vals (fun j => if Nat.eqb j i then true else P j) = pow_from k vals P + pw.
Proof.
  revert k; induction vals as [|[a' p] t IH]; intros k Hk Hn HP; simpl.
  - destruct (i - k)%nat; discriminate.
  - destruct (Nat.eq_dec k i) as [->|Hne].
    + rewrite Nat.sub_diag in Hn. simpl in Hn. injection Hn as -> ->.
      rewrite Nat.eqb_refl, HP.
      rewrite (pow_from_ext (S i) t _ P); [lia|].
      intros j Hj. destruct (Nat.eqb_spec j i); [lia|reflexivity].
    + destruct (Nat.eqb_spec k i); [contradiction|].
      rewrite IH; [lia|lia| |assumption].
      replace (i - k)%nat with (S (i - S k)) in Hn by lia. exact Hn.
Qed.

Lemma pow_from_true_shift t k : pow_from k t (fun _ => true) = pow_from 0 t (fun _ => true).
Proof.
  revert k. induction t as [|[a p] t IH]; intros k; simpl; [reflexivity|].
  f_equal. etransitivity; [apply IH | symmetry; apply IH].
Qed.

Lemma pow_from_false k vals : pow_from k vals (fun _ => false) = 0.
Proof. revert k; induction vals as [|[a p] t IH]; intro k; simpl; [reflexivity|]. apply IH. Qed.

Lemma pow_from_pos_exists k vals P : 0 < pow_from k vals P -> exists i, (k <= i < k + length vals)%nat /\ P i = true.
Proof.
  revert k; induction vals as [|[a p] t IH]; intros k Hp; simpl in Hp; [lia|].
  destruct (P k) eqn:EP.
  - exists k. simpl. split; [lia|exact EP].
  - destruct (IH (S k)) as (i & Hi & HP); [lia|]. exists i. simpl. split; [lia|exact HP].
Qed.

Lemma total_power_fold vals acc : nonneg vals -> 0 <= acc ->
  acc + pow_from 0 vals (fun _ => true) < 9223372036854775808 ->
  fold_left (fun a v => wrap64 (a + snd v)) vals acc = acc + pow_from 0 vals (fun _ => true).
Proof.
  intros Hn. revert acc. 
  assert (Hshift : forall t k, pow_from k t (fun _ => true) = pow_from 0 t (fun _ => true)).
  { induction t as [|[a p] t IH]; intros k; simpl; [reflexivity|]. f_equal. etransitivity; [apply IH | symmetry; apply IH]. }
  induction vals as [|[a p] t IH]; intros acc Hacc Hb; simpl; [lia|].
  inversion Hn as [|? ? Hp Ht]; subst. simpl in Hp, Hb. rewrite (Hshift t 1%nat) in Hb.
  assert (H0 := pow_from_nonneg 0 t (fun _ => true) Ht).
  rewrite wrap64_id by lia. rewrite IH by (auto; lia). rewrite (Hshift t 1%nat). lia.
Qed.

Lemma total_power_spec vals : nonneg vals -> pow_of vals (fun _ => true) < 9223372036854775808 ->
  total_power vals = pow_of vals (fun _ => true).
Proof.
  intros Hn Hb. unfold total_power. rewrite total_power_fold; auto; unfold pow_of in *; lia.
Qed.

(* quorum arithmetic below the overflow boundary *)
Definition bounded (vals : list validator) : Prop :=
  nonneg vals /\ pow_of vals (fun _ => true) < 4611686018427387904.

Lemma two_thirds_spec vals : bounded vals ->
  two_thirds vals = pow_of vals (fun _ => true) * 2 / 3.
Proof.
  intros [Hn Hb]. unfold two_thirds. rewrite total_power_spec by (auto; lia).
  assert (H0 := pow_from_nonneg 0 vals (fun _ => true) Hn). unfold pow_of in *.
  rewrite wrap64_id by lia. apply Z.quot_div_nonneg; lia.
Qed.

Lemma quorum_spec vals : bounded vals -> quorum vals = two_thirds vals + 1.
Proof.
  intros Hb. unfold quorum. rewrite two_thirds_spec by assumption. destruct Hb as [Hn Hb].
  assert (H0 := pow_from_nonneg 0 vals (fun _ => true) Hn). unfold pow_of in *.
  apply wrap64_id. 
  assert (pow_from 0 vals (fun _ => true) * 2 / 3 <= pow_from 0 vals (fun _ => true) * 2) by (apply Z.div_le_upper_bound; lia).
  assert (0 <= pow_from 0 vals (fun _ => true) * 2 / 3) by (apply Z.div_pos; lia).
  lia.
Qed.

(* two sets each holding more than 2/3 of the power share more than 1/3 *)
Lemma quorum_intersection vals P Q : bounded vals ->
  two_thirds vals < pow_of vals P -> two_thirds vals < pow_of vals Q ->
  pow_of vals (fun _ => true) < 3 * pow_of vals (fun i => P i && Q i).
Proof.
  intros Hb HP HQ. rewrite two_thirds_spec in * by assumption. destruct Hb as [Hn Hb].
  assert (Hunion : forall k vs, pow_from k vs P + pow_from k vs Q = pow_from k vs (fun i => P i && Q i) + pow_from k vs (fun i => P i || Q i)).
  { intros k vs; revert k; induction vs as [|[a p] t IH]; intros k; simpl; [reflexivity|].
    specialize (IH (S k)). destruct (P k), (Q k); simpl; lia. }
  unfold pow_of in *. specialize (Hunion 0%nat vals).
  assert (Hle : pow_from 0 vals (fun i => P i || Q i) <= pow_from 0 vals (fun _ => true)) by (apply pow_from_le_total; assumption).
  set (T := pow_from 0 vals (fun _ => true)) in *.
  assert (HT : T * 2 / 3 * 3 > T * 2 - 3) by (pose proof (Z.div_mod (T * 2) 3 ltac:(lia)); pose proof (Z.mod_pos_bound (T * 2) 3 ltac:(lia)); lia).
  lia.
Qed.
