(* The signer through one input: the votes a node emits while handling an input are, in order, the
   results of successive signer decisions - each vote either fresh (its height/round/step is
   strictly after everything signed before, and becomes the signer's new position) or the
   repetition of exactly the vote last signed.  Local form of the rules R0 and R1. *)
From Coq Require Import List NArith ZArith Lia Bool.
From AnnVerif Require Import Base.Res Base.Bytes Model.VoteSet Model.ValSet Model.Node Proofs.NodeProofs.
Import ListNotations.
Open Scope Z_scope.

Definition st_of (t : N) : Z := if N.eqb t 1 then 2 else 3.

(* the signer record moves only forward, through proposals (no output constraint) and votes *)
Inductive sgrel (h : Z) : signer -> list out -> signer -> Prop :=
| sg_done s : sgrel h s [] s
| sg_other s x o s' : (forall t r b, x <> OVote t r b) -> sgrel h s o s' -> sgrel h s (x :: o) s'
| sg_prop s r o s' : hrs_lt (sg_h s) (sg_r s) (sg_s s) h r 1 = true -> sgrel h (mkSg h r 1 None) o s' -> sgrel h s o s'
| sg_fresh s t r b o s' : hrs_lt (sg_h s) (sg_r s) (sg_s s) h r (st_of t) = true ->
    sgrel h (mkSg h r (st_of t) (Some (t, b))) o s' -> sgrel h s (OVote t r b :: o) s'
| sg_same s t r b o s' : sg_h s = h -> sg_r s = r -> sg_s s = st_of t -> (exists w, sg_what s = Some w /\ what_eqb (t, b) w = true) ->
    sgrel h s o s' -> sgrel h s (OVote t r b :: o) s'.

Lemma sgrel_app h s1 o1 s2 o2 s3 : sgrel h s1 o1 s2 -> sgrel h s2 o2 s3 -> sgrel h s1 (o1 ++ o2) s3.
Proof.
  intros H1 H2. induction H1; cbn [app]; [exact H2| | | |].
  - apply sg_other; auto.
  - eapply sg_prop; eauto.
  - apply sg_fresh; auto.
  - apply sg_same; auto.
Qed.

Definition SG (f : node -> M) : Prop :=
  forall n n' o, f n = Ok (n', o) -> sgrel (height n) (sg n) o (sg n').

Lemma SG_ret : SG ret. Proof. intros n n' o E. injection E as <- <-. constructor. Qed.
Lemma SG_emit x : (forall t r b, x <> OVote t r b) -> SG (emit x).
Proof. intros Hx n n' o E. injection E as <- <-. apply sg_other; [exact Hx|constructor]. Qed.

Lemma SG_sign t b : SG (sign_add_vote t b).
Proof.
  intros n n' o E. unfold sign_add_vote in E. destruct (negb _); [injection E as <- <-; constructor|].
  fold (st_of t) in E. unfold sign_check in E.
  destruct (hrs_lt (height n) (round n) (st_of t) (sg_h (sg n)) (sg_r (sg n)) (sg_s (sg n))) eqn:E1; [injection E as <- <-; constructor|].
  destruct ((height n =? sg_h (sg n)) && (round n =? sg_r (sg n)) && (st_of t =? sg_s (sg n))) eqn:E2.
  - destruct (sg_what (sg n)) as [w|] eqn:Ew; [|injection E as <- <-; constructor].
    destruct (what_eqb (t, b) w) eqn:Eq; [|injection E as <- <-; constructor].
    injection E as <- <-. apply andb_prop in E2 as [E2 E3]. apply andb_prop in E2 as [E2 E4].
    apply sg_same; try lia; [eauto|constructor].
  - injection E as <- <-. cbn [sg set_sg]. apply sg_fresh; [|constructor].
    (* neither behind nor at the signer's position: strictly after *)
    unfold hrs_lt in *. apply orb_false_elim in E1 as [A B].
    destruct (Z.ltb_spec (sg_h (sg n)) (height n)); [reflexivity|]. cbn [orb].
    assert (Hh : sg_h (sg n) = height n) by lia. rewrite Hh, Z.eqb_refl in *. cbn [andb] in *.
    apply orb_false_elim in B as [B1 B2].
    destruct (Z.ltb_spec (sg_r (sg n)) (round n)); [reflexivity|]. cbn [orb].
    assert (Hr : sg_r (sg n) = round n) by lia. rewrite Hr, Z.eqb_refl in *. cbn [andb] in *.
    destruct (Z.ltb_spec (sg_s (sg n)) (st_of t)); [reflexivity|]. exfalso.
    assert (Hs : sg_s (sg n) = st_of t) by lia. rewrite Hs, Z.eqb_refl in E2. discriminate.
Qed.

Definition keeps_h (f : node -> M) : Prop := forall n n' o, f n = Ok (n', o) -> height n' = height n.
Definition mono_h (f : node -> M) : Prop := forall n n' o, f n = Ok (n', o) -> height n <= height n'.

Lemma SG_bind f g : SG f -> SG g -> keeps_h f -> SG (fun n => f n >>= g).
Proof.
  intros Hf Hg Kf n n' o E. apply bind_ok in E as (n1 & o1 & o2 & E1 & E2 & ->).
  eapply sgrel_app; [apply Hf; exact E1|]. rewrite <- (Kf _ _ _ E1). apply Hg. exact E2.
Qed.

Lemma mono_keeps f : keeps_h f -> mono_h f.
Proof. intros H n n' o E. rewrite (H _ _ _ E). lia. Qed.
Lemma keeps_frame f : fsat f -> keeps_h f.
Proof. intros Hf n n' o E. apply (Hf n n' o E). Qed.

(* functions that neither sign nor emit votes *)
Definition inert (f : node -> M) : Prop :=
  forall n n' o, f n = Ok (n', o) -> sg n' = sg n /\ forall x t r b, In x o -> x <> OVote t r b.
Lemma sgrel_others h s o : (forall x t r b, In x o -> x <> OVote t r b) -> sgrel h s o s.
Proof.
  induction o as [|x o IH]; intro H; [constructor|]. apply sg_other; [intros t r b; apply (H x); left; reflexivity|].
  apply IH. intros y t r b Hy. apply (H y). right. exact Hy.
Qed.
Lemma SG_inert f : inert f -> SG f.
Proof. intros Hi n n' o E. destruct (Hi n n' o E) as [-> Ho]. now apply sgrel_others. Qed.

Lemma SG_do_prevote : SG do_prevote.
Proof.
  intros n n' o. unfold do_prevote.
  destruct (lblock n); [apply SG_sign|]. destruct (pblock n) as [pb|]; [|apply SG_sign]. destruct (bk_valid pb); apply SG_sign.
Qed.

Lemma SG_enter_prevote h r : SG (enter_prevote h r).
Proof.
  intros n n' o. unfold enter_prevote. destruct (_ || _); [apply SG_ret|].
  intros E. apply bind_ok in E as (n1 & o1 & o2 & E1 & E2 & ->). injection E2 as <- <-. rewrite app_nil_r.
  cbn [sg set_step]. apply SG_do_prevote. exact E1.
Qed.

Lemma SG_decide_proposal : SG decide_proposal.
Proof.
  intros n n' o E. unfold decide_proposal in E. destruct (negb _); [injection E as <- <-; constructor|].
  destruct (pol_info _) as [[polr ?]| |]; try discriminate. unfold sign_check in E.
  destruct (hrs_lt (height n) (round n) 1 (sg_h (sg n)) (sg_r (sg n)) (sg_s (sg n))) eqn:E1; [injection E as <- <-; constructor|].
  destruct ((height n =? sg_h (sg n)) && (round n =? sg_r (sg n)) && (1 =? sg_s (sg n))) eqn:E2.
  - assert (Ho : o = [OProposalMaybe (round n)] /\ n' = n).
    { destruct (sg_what (sg n)); injection E as <- <-; auto. }
    destruct Ho as [-> ->]. apply sg_other; [discriminate|constructor].
  - injection E as <- <-. cbn [sg set_sg]. eapply (sg_prop _ _ (round n)).
    + unfold hrs_lt in *. apply orb_false_elim in E1 as [A B].
      destruct (Z.ltb_spec (sg_h (sg n)) (height n)); [reflexivity|]. cbn [orb].
      assert (Hh : sg_h (sg n) = height n) by lia. rewrite Hh, Z.eqb_refl in *. cbn [andb] in *.
      apply orb_false_elim in B as [B1 B2].
      destruct (Z.ltb_spec (sg_r (sg n)) (round n)); [reflexivity|]. cbn [orb].
      assert (Hr : sg_r (sg n) = round n) by lia. rewrite Hr, Z.eqb_refl in *. cbn [andb] in *.
      destruct (Z.ltb_spec (sg_s (sg n)) 1); [reflexivity|]. exfalso.
      assert (Hs : sg_s (sg n) = 1) by lia. rewrite Hs in E2. discriminate.
    + apply sg_other; [discriminate|constructor].
Qed.

Lemma SG_enter_propose h r : SG (enter_propose h r).
Proof.
  intros n n' o. unfold enter_propose. destruct (_ || _); [apply SG_ret|].
  intros E. apply bind_ok in E as (n3 & o1 & o2 & E1 & E2 & ->).
  assert (P1 : sgrel (height n) (sg n) o1 (sg n3) /\ height n3 = height n).
  { apply bind_ok in E1 as (n1 & oa & ob & Ea & Eb & ->). injection Ea as <- <-.
    cbn [app]. destruct (priv n) as [me|].
    2:{ injection Eb as <- <-. split; [apply sg_other; [discriminate|constructor]|reflexivity]. }
    destruct (proposer (vals n)) as [[[a|] vs']| |]; try discriminate.
    destruct (bytes_eqb a me).
    - pose proof (keeps_frame _ fsat_decide_proposal _ _ _ Eb) as Hk. cbn [height set_vals] in Hk.
      split; [|exact Hk]. apply sg_other; [discriminate|]. apply (SG_decide_proposal _ _ _ Eb).
    - injection Eb as <- <-. split; [apply sg_other; [discriminate|constructor]|reflexivity]. }
  destruct P1 as [S1 H1]. eapply sgrel_app; [exact S1|].
  revert E2. cbn zeta. destruct (is_proposal_complete _) as [[|]| |]; try discriminate; intro E2.
  - rewrite <- H1. apply (SG_enter_prevote _ _ (set_step n3 r 3) n' o2 E2).
  - injection E2 as <- <-. constructor.
Qed.

Lemma SG_enter_new_round h r : SG (enter_new_round h r).
Proof.
  intros n n' o. unfold enter_new_round. destruct (_ || _); [apply SG_ret|].
  destruct (if round n <? r then _ else _) as [vs| |]; try discriminate. cbn zeta.
  destruct (hv_set_round _ _) as [hv| |]; try discriminate. intros E.
  assert (E0 : forall m, sg m = sg n -> height m = height n -> enter_propose h r m = Ok (n', o) -> sgrel (height n) (sg n) o (sg n')).
  { intros m Es Em Ep. rewrite <- Es, <- Em. apply (SG_enter_propose h r m n' o Ep). }
  destruct (r =? 0); (eapply E0; [| |exact E]; reflexivity).
Qed.
Lemma SG_enter_new_round_open h r : SG (enter_new_round_open h r).
Proof.
  intros n n' o. unfold enter_new_round_open. destruct (step n <? 8); [apply SG_enter_new_round|apply SG_ret].
Qed.

Lemma SG_enter_precommit h r : SG (enter_precommit h r).
Proof.
  intros n n' o. unfold enter_precommit. destruct (_ || _); [apply SG_ret|].
  intros E. apply bind_ok in E as (n1 & o1 & o2 & E1 & E2 & ->). injection E2 as <- <-. rewrite app_nil_r. cbn [sg set_step].
  revert E1.
  assert (S : forall b m, sg m = sg n -> height m = height n -> sign_add_vote 2 b m = Ok (n1, o1) -> sgrel (height n) (sg n) o1 (sg n1)).
  { intros b m Es Em E1. rewrite <- Es, <- Em. apply (SG_sign 2 b m n1 o1 E1). }
  destruct (maj23 _) as [b|]; [|apply S; reflexivity].
  destruct (pol_info _) as [[polr ?]| |]; try discriminate. destruct (polr <? r); [discriminate|].
  destruct (b_hash b).
  - destruct (lblock n); apply S; reflexivity.
  - destruct (hashes_to (lblock n) _); [apply S; reflexivity|]. destruct (hashes_to (pblock n) _).
    + destruct (pblock n) as [pb|]; [|discriminate]. destruct (negb _); [discriminate|]. cbn zeta. apply S; reflexivity.
    + cbn zeta. destruct (has_header _ _ _); [apply S; reflexivity|].
      destruct (new_pset _ _) as [ps| |]; try discriminate. apply S; reflexivity.
Qed.

(* ---------- the functions that neither sign nor emit votes ---------- *)
From AnnVerif Require Import Proofs.Emit.

Definition sgk (f : node -> M) : Prop := forall n n' o, f n = Ok (n', o) -> sg n' = sg n.
Lemma inert_of f : quiet f -> sgk f -> inert f.
Proof.
  intros Q K n n' o E. split; [apply (K _ _ _ E)|]. intros x t r b Hx ->. specialize (Q _ _ _ _ E Hx). discriminate.
Qed.

Lemma sgk_wait1 h r : sgk (enter_prevote_wait h r).
Proof.
  intros n n' o. unfold enter_prevote_wait. destruct (_ || _); [intro E; injection E as <- _; reflexivity|].
  destruct (negb _); [discriminate|]. intro E. injection E as <- _. reflexivity.
Qed.
Lemma sgk_wait2 h r : sgk (enter_precommit_wait h r).
Proof.
  intros n n' o. unfold enter_precommit_wait. destruct (_ || _); [intro E; injection E as <- _; reflexivity|].
  destruct (negb _); [discriminate|]. intro E. injection E as <- _. reflexivity.
Qed.
Lemma sgk_finalize_commit c h : sgk (finalize_commit c h).
Proof.
  intros n n' o. unfold finalize_commit. destruct (_ || _); [intro E; injection E as <- _; reflexivity|].
  destruct (maj23 _) as [b|]; [|discriminate]. destruct (negb _); [discriminate|]. destruct (negb _); [discriminate|].
  destruct (pblock n) as [pb|]; [|discriminate]. destruct (negb _); [discriminate|].
  destruct (increment _ _) as [nv| |]; try discriminate. destruct (new_hvs _ _) as [hv| |]; try discriminate.
  intro E. injection E as <- _. reflexivity.
Qed.
Lemma sgk_try_finalize_commit c h : sgk (try_finalize_commit c h).
Proof.
  intros n n' o. unfold try_finalize_commit. destruct (negb _); [discriminate|].
  destruct (maj23 _) as [b|]; [|intro E; injection E as <- _; reflexivity]. destruct (b_hash b); [intro E; injection E as <- _; reflexivity|].
  destruct (hashes_to _ _); [apply sgk_finalize_commit|intro E; injection E as <- _; reflexivity].
Qed.
Lemma sgk_enter_commit c h cr : sgk (enter_commit c h cr).
Proof.
  intros n n' o. unfold enter_commit. destruct (_ || _); [intro E; injection E as <- _; reflexivity|].
  destruct (maj23 _) as [b|]; [|discriminate]. cbn zeta.
  assert (S : forall m, sg m = sg n -> try_finalize_commit c h m = Ok (n', o) -> sg n' = sg n).
  { intros m Em E. rewrite <- Em. apply (sgk_try_finalize_commit _ _ _ _ _ E). }
  destruct (hashes_to (lblock n) _).
  - destruct (hashes_to (pblock _) _); [apply S; reflexivity|].
    destruct (has_header _ _ _); [apply S; reflexivity|].
    destruct (new_pset _ _) as [ps| |]; try discriminate. apply S; reflexivity.
  - destruct (hashes_to (pblock _) _); [apply S; reflexivity|].
    destruct (has_header _ _ _); [apply S; reflexivity|].
    destruct (new_pset _ _) as [ps| |]; try discriminate. apply S; reflexivity.
Qed.
Lemma sgk_set_proposal p sgn : sgk (set_proposal p sgn).
Proof.
  intros n n' o. unfold set_proposal. destruct (proposal n); [intro E; injection E as <- _; reflexivity|].
  destruct (_ || _); [intro E; injection E as <- _; reflexivity|]. destruct (8 <=? _); [intro E; injection E as <- _; reflexivity|].
  destruct (_ && _); [intro E; injection E as <- _; reflexivity|].
  destruct (_ || _); [intro E; injection E as <- _; reflexivity|].
  destruct (proposer _) as [[[a|] vs']| |]; try discriminate. cbn zeta.
  destruct (negb _); [intro E; injection E as <- _; reflexivity|].
  destruct (new_pset _ _) as [ps| |]; try discriminate. intro E; injection E as <- _; reflexivity.
Qed.

Lemma SG_wait1 h r : SG (enter_prevote_wait h r). Proof. apply SG_inert, inert_of; [apply quiet_wait1|apply sgk_wait1]. Qed.
Lemma SG_wait2 h r : SG (enter_precommit_wait h r). Proof. apply SG_inert, inert_of; [apply quiet_wait2|apply sgk_wait2]. Qed.
Lemma SG_try_finalize_commit c h : SG (try_finalize_commit c h).
Proof. apply SG_inert, inert_of; [apply quiet_try_finalize_commit|apply sgk_try_finalize_commit]. Qed.
Lemma SG_enter_commit c h cr : SG (enter_commit c h cr).
Proof. apply SG_inert, inert_of; [apply quiet_enter_commit|apply sgk_enter_commit]. Qed.
Lemma SG_set_proposal p sgn : SG (set_proposal p sgn).
Proof. apply SG_inert, inert_of; [apply quiet_set_proposal|apply sgk_set_proposal]. Qed.

Lemma SG_tail (f g : node -> M) : SG f -> tail_only g -> SG (fun n => f n >>= g).
Proof.
  intros Hf Hg n n' o E. apply bind_ok in E as (n1 & o1 & o2 & E1 & E2 & ->).
  eapply sgrel_app; [apply Hf; exact E1|].
  destruct (Hg n1) as [Eg|(x & Eg & Hx)]; rewrite Eg in E2; injection E2 as <- <-; [constructor|].
  apply sg_other; [|constructor]. intros t r b ->. discriminate.
Qed.

(* change the node under an SG function to one with the same signer and height *)
Lemma SG_at (f : node -> M) n m n' o : SG f -> sg m = sg n -> height m = height n -> f m = Ok (n', o) -> sgrel (height n) (sg n) o (sg n').
Proof. intros Hf Es Eh E. rewrite <- Es, <- Eh. apply Hf. exact E. Qed.

Lemma SG_add_part c h idx b dec ver : SG (add_part c h idx b dec ver).
Proof.
  intros n n' o. unfold add_part. destruct (negb _); [apply SG_ret|].
  destruct (pparts n) as [ps|]; [|apply SG_ret].
  destruct (_ || _); [apply SG_emit; discriminate|]. destruct (existsb _ _); [apply SG_ret|].
  destruct (ver && _); [apply SG_emit; discriminate|]. cbn zeta.
  destruct (Z.eqb _ _); [|intro E; injection E as <- <-; constructor].
  set (n2 := set_prop _ _ _ _).
  apply (SG_at (fun m => (if step m =? 3 then match is_proposal_complete m with
                                              | Panic w => Panic w | Err e => Err e
                                              | Ok true => enter_prevote h (round m) m | Ok false => ret m end
                          else if step m =? 8 then try_finalize_commit c h m else ret m)
                         >>= (fun n3 => if dec then ret n3 else emit (OErr 5) n3)) n n2); [|reflexivity|reflexivity].
  apply SG_tail.
  - intros m m' o'. destruct (step m =? 3).
    + destruct (is_proposal_complete m) as [[|]| |]; try discriminate; [apply SG_enter_prevote|apply SG_ret].
    + destruct (step m =? 8); [apply SG_try_finalize_commit|apply SG_ret].
  - intro m. destruct dec; [left; reflexivity|right; eexists; split; reflexivity].
Qed.

Lemma SG_handle_timeout h r s : SG (handle_timeout h r s).
Proof.
  intros n n' o. unfold handle_timeout. destruct (_ || _); [apply SG_ret|].
  destruct (s =? 1); [apply SG_enter_new_round|].
  destruct (s =? 3); [apply SG_enter_prevote|].
  destruct (s =? 5); [apply SG_enter_precommit|].
  destruct (s =? 7); [apply SG_enter_new_round|discriminate].
Qed.

Lemma kh_bind f g : keeps_h f -> keeps_h g -> keeps_h (fun n => f n >>= g).
Proof. intros Hf Hg n n' o E. apply bind_ok in E as (n1 & o1 & o2 & E1 & E2 & ->). rewrite (Hg _ _ _ E2). apply (Hf _ _ _ E1). Qed.

Lemma SG_add_vote_cs c v peer : c_skip_commit c = false -> SG (add_vote_cs c v peer).
Proof.
  intros Hskip n n' o. unfold add_vote_cs. rewrite Hskip.
  destruct (v_height v + 1 =? height n).
  - destruct (negb _); [apply SG_emit; discriminate|].
    destruct (last_commit n) as [lc|]; [|apply SG_emit; discriminate].
    destruct (add_vote lc v) as [[[lc' added] code]| |]; try discriminate. cbn zeta.
    rewrite andb_false_r. cbn [andb].
    apply (SG_at (fun m => ret m >>= (fun n2 => if N.eqb code 0 then ret n2 else emit (OErr (20 + code)) n2)) n (set_last_commit n (Some lc'))); [|reflexivity|reflexivity].
    apply SG_tail; [apply SG_ret|]. intro m. destruct (N.eqb code 0); [left; reflexivity|right; eexists; split; reflexivity].
  - destruct (v_height v =? height n); [|apply SG_emit; discriminate]. cbn zeta.
    destruct (hv_add_vote (votes n) v peer) as [[[hv added] code]| |]; try discriminate.
    set (n1 := set_votes n hv).
    intro E. apply bind_ok in E as (n5 & o1 & o2 & E1 & E2 & ->).
    assert (S1 : sgrel (height n1) (sg n1) o1 (sg n5)).
    2:{ eapply sgrel_app; [exact S1|]. destruct (N.eqb code 0); injection E2 as <- <-; [constructor|]. apply sg_other; [discriminate|constructor]. }
    clear E2. revert E1. remember (height n) as hh eqn:Hhh. clear Hhh. clearbody n1. generalize n1 n5 o1. clear. intros m m' o'.
    destruct (negb added); [apply SG_ret|].
    destruct (N.eqb (v_type v) 1).
    { cbn zeta. set (PV := hv_prevotes (votes m) (v_round v)).
      set (n2 := match lblock m with Some _ => _ | None => m end).
      assert (E2 : sg n2 = sg m /\ height n2 = height m).
      { unfold n2. destruct (lblock m); [|auto]. destruct (_ && _); [|auto]. destruct (maj23 _); [|auto]. destruct (negb _); auto. }
      destruct E2 as [Es Eh]. clearbody n2 PV.
      destruct (_ && any23_open _ PV).
      - apply (SG_at (fun k => enter_new_round hh (v_round v) k >>= (fun n3 =>
                 match maj23 (hv_prevotes (votes n3) (v_round v)) with
                 | Some _ => enter_precommit hh (v_round v) n3
                 | None => enter_prevote hh (v_round v) n3 >>= enter_prevote_wait hh (v_round v) end)) m n2); [|exact Es|exact Eh].
        apply SG_bind; [apply SG_enter_new_round| |apply kh_enter_new_round].
        intros k k' ok. destruct (maj23 _); [apply SG_enter_precommit|].
        apply (SG_bind (enter_prevote hh (v_round v)) (enter_prevote_wait hh (v_round v))); [apply SG_enter_prevote|apply SG_wait1|apply kh_frame, fsat_enter_prevote].
      - destruct (proposal n2) as [p|]; [|apply (SG_at ret m n2); auto using SG_ret].
        destruct (_ && _); [|apply (SG_at ret m n2); auto using SG_ret].
        destruct (is_proposal_complete n2) as [[|]| |]; try discriminate; [|apply (SG_at ret m n2); auto using SG_ret].
        apply (SG_at (enter_prevote hh (round n2)) m n2); auto using SG_enter_prevote. }
    destruct (N.eqb (v_type v) 2); [|discriminate]. cbn zeta.
    destruct (maj23 _) as [b|].
    + destruct (b_hash b); [apply SG_enter_new_round_open|]. cbn [andb].
      apply (SG_tail (fun k => enter_new_round hh (v_round v) k >>= enter_precommit hh (v_round v) >>= enter_commit c hh (v_round v)) (fun n4 => ret n4)).
      * apply (SG_bind (fun k => enter_new_round hh (v_round v) k >>= enter_precommit hh (v_round v)) (enter_commit c hh (v_round v))).
        -- apply SG_bind; [apply SG_enter_new_round|apply SG_enter_precommit|apply kh_enter_new_round].
        -- apply SG_enter_commit.
        -- apply kh_bind; [apply kh_enter_new_round|apply kh_enter_precommit].
      * intro k. left. reflexivity.
    + destruct (_ && any23_open _ _); [|apply SG_ret].
      apply (SG_bind (fun k => enter_new_round hh (v_round v) k >>= enter_precommit hh (v_round v)) (enter_precommit_wait hh (v_round v))).
      * apply SG_bind; [apply SG_enter_new_round|apply SG_enter_precommit|apply kh_enter_new_round].
      * apply SG_wait2.
      * apply kh_bind; [apply kh_enter_new_round|apply kh_enter_precommit].
Qed.

Theorem SG_handle c i : c_skip_commit c = false -> SG (handle c i).
Proof.
  intros Hs n n' o. destruct i as [p sgn peer|h r idx b ok peer|v peer|h r s]; cbn [handle].
  - apply SG_set_proposal.
  - apply SG_add_part.
  - apply SG_add_vote_cs. exact Hs.
  - apply SG_handle_timeout.
Qed.
