(* Proofs about Model.MConn and Model.Admission. *)
From Coq Require Import List NArith ZArith Lia Bool Arith.
From AnnVerif Require Import Base.Res Base.Bytes Model.MConn Model.Admission.
Import ListNotations.

(* ---------- one channel ---------- *)
Lemma packetise_f_concat fuel c : forall msg, (length msg <= fuel)%nat ->
  concat (map pk_bytes (packetise_f fuel c msg)) = msg /\
  Forall (fun p => pk_ch p = c /\ (length (pk_bytes p) <= payload_max)%nat) (packetise_f fuel c msg).
Proof.
  induction fuel as [|f IH]; intros msg Hl.
  - destruct msg; [|simpl in Hl; lia]. cbn. split; [reflexivity|]. constructor; [|constructor]. cbn. unfold payload_max. split; [reflexivity|lia].
  - cbn [packetise_f]. destruct (Nat.leb_spec (length msg) payload_max) as [Hle|Hgt].
    + cbn [map concat pk_bytes]. rewrite app_nil_r. split; [reflexivity|]. constructor; [|constructor]. cbn [pk_ch pk_bytes]. auto.
    + destruct (IH (skipn payload_max msg)) as [I1 I2].
      { rewrite skipn_length. unfold payload_max in *. lia. }
      split.
      * cbn [map concat pk_bytes]. rewrite I1. apply firstn_skipn.
      * constructor; [|exact I2]. cbn [pk_ch pk_bytes]. split; [reflexivity|]. rewrite firstn_length. lia.
Qed.

(* the reassembly only looks at the buffers pointwise *)
Lemma recv_all_ext cap l : forall s1 s2, (forall c, s1 c = s2 c) -> recv_all cap s1 l = recv_all cap s2 l.
Proof.
  induction l as [|p t IH]; intros s1 s2 He; [reflexivity|].
  cbn [recv_all]. unfold recv_packet. rewrite (He (pk_ch p)).
  destruct (Nat.ltb (cap (pk_ch p)) (length (s2 (pk_ch p)) + length (pk_bytes p))); [reflexivity|].
  destruct (pk_eof p).
  - rewrite (IH (rupd s1 (pk_ch p) []) (rupd s2 (pk_ch p) [])); [reflexivity|].
    intro c. unfold rupd. destruct (N.eqb c (pk_ch p)); auto.
  - apply IH. intro c. unfold rupd. destruct (N.eqb c (pk_ch p)); auto.
Qed.

(* receiving the packets of one message on a channel whose partial buffer is empty delivers
   exactly that message, if it fits the capacity; other channels' buffers are untouched *)
Lemma recv_one_message cap fuel c : forall msg s acc0, (length msg <= fuel)%nat ->
  s c = acc0 -> (length acc0 + length msg <= cap c)%nat ->
  forall rest, recv_all cap s (packetise_f fuel c msg ++ rest) =
    (let '(ms, e) := recv_all cap (rupd s c []) rest in ((c, acc0 ++ msg) :: ms, e)).
Proof.
  induction fuel as [|f IH]; intros msg s acc0 Hl Hs Hcap rest.
  - destruct msg; [|simpl in Hl; lia]. cbn [packetise_f app recv_all]. unfold recv_packet. cbn [pk_ch pk_bytes pk_eof].
    rewrite Hs. cbn [length] in *. replace (Nat.ltb (cap c) (length acc0 + 0)) with false by (symmetry; apply Nat.ltb_ge; lia).
    reflexivity.
  - cbn [packetise_f]. destruct (Nat.leb_spec (length msg) payload_max) as [Hle|Hgt].
    + cbn [app recv_all]. unfold recv_packet. cbn [pk_ch pk_bytes pk_eof]. rewrite Hs.
      replace (Nat.ltb (cap c) (length acc0 + length msg)) with false by (symmetry; apply Nat.ltb_ge; lia). reflexivity.
    + cbn [app recv_all]. unfold recv_packet at 1. cbn [pk_ch pk_bytes pk_eof]. rewrite Hs.
      assert (Hf : length (firstn payload_max msg) = payload_max) by (rewrite firstn_length; unfold payload_max in *; lia).
      replace (Nat.ltb (cap c) (length acc0 + length (firstn payload_max msg))) with false by (symmetry; apply Nat.ltb_ge; lia).
      rewrite (IH (skipn payload_max msg) (rupd s c (acc0 ++ firstn payload_max msg)) (acc0 ++ firstn payload_max msg)).
      * rewrite <- app_assoc, firstn_skipn.
        rewrite (recv_all_ext cap rest (rupd (rupd s c (acc0 ++ firstn payload_max msg)) c []) (rupd s c [])); [reflexivity|].
        intro x. unfold rupd. destruct (N.eqb x c); reflexivity.
      * rewrite skipn_length. unfold payload_max in *. lia.
      * unfold rupd. rewrite N.eqb_refl. reflexivity.
      * rewrite app_length, Hf, skipn_length. unfold payload_max in *. lia.
Qed.

(* ---------- a whole message list on one channel ---------- *)
Lemma recv_messages cap c msgs : forall s rest, s c = [] ->
  Forall (fun m => (length m <= cap c)%nat) msgs ->
  recv_all cap s (concat (map (packetise c) msgs) ++ rest) =
    (let '(ms, e) := recv_all cap (rupd s c []) rest in (map (fun m => (c, m)) msgs ++ ms, e)).
Proof.
  induction msgs as [|m t IH]; intros s rest Hs Hfit.
  - cbn [map concat app]. rewrite (recv_all_ext cap rest s (rupd s c [])); [destruct (recv_all cap (rupd s c []) rest); reflexivity|].
    intro x. unfold rupd. destruct (N.eqb_spec x c); [subst; exact Hs|reflexivity].
  - inversion Hfit as [|? ? Hm Ht]; subst. cbn [map concat]. rewrite <- app_assoc. unfold packetise at 1.
    rewrite (recv_one_message cap (length m) c m s [] ltac:(lia) Hs ltac:(simpl; lia)).
    rewrite (IH (rupd s c []) rest); [|unfold rupd; rewrite N.eqb_refl; reflexivity|exact Ht].
    rewrite (recv_all_ext cap rest (rupd (rupd s c []) c []) (rupd s c [])); [|intro x; unfold rupd; destruct (N.eqb x c); reflexivity].
    destruct (recv_all cap (rupd s c []) rest) as [ms e]. reflexivity.
Qed.

(* ---------- channels are independent ---------- *)
Definition proj (c : N) (l : list packet) : list packet := filter (fun p => N.eqb (pk_ch p) c) l.
Definition on_ch (c : N) (ms : list (N * bytes)) : list (N * bytes) := filter (fun x => N.eqb (fst x) c) ms.

Lemma recv_all_agree cap l : forall s1 s2, (forall p, In p l -> s1 (pk_ch p) = s2 (pk_ch p)) ->
  recv_all cap s1 l = recv_all cap s2 l.
Proof.
  induction l as [|p t IH]; intros s1 s2 He; [reflexivity|].
  cbn [recv_all]. unfold recv_packet. rewrite (He p (or_introl eq_refl)).
  destruct (Nat.ltb (cap (pk_ch p)) (length (s2 (pk_ch p)) + length (pk_bytes p))); [reflexivity|].
  destruct (pk_eof p).
  - rewrite (IH (rupd s1 (pk_ch p) []) (rupd s2 (pk_ch p) [])); [reflexivity|].
    intros q Hq. unfold rupd. destruct (N.eqb (pk_ch q) (pk_ch p)); [reflexivity|apply He; right; exact Hq].
  - apply IH. intros q Hq. unfold rupd. destruct (N.eqb (pk_ch q) (pk_ch p)); [reflexivity|apply He; right; exact Hq].
Qed.

Lemma delivered_on_own_channel cap c l : forall s,
  Forall (fun x => fst x = c) (fst (recv_all cap s (proj c l))).
Proof.
  induction l as [|p t IH]; intro s; [constructor|].
  cbn [proj filter]. destruct (N.eqb_spec (pk_ch p) c) as [E|E]; [|apply IH].
  fold (proj c t). cbn [recv_all]. unfold recv_packet. rewrite E.
  destruct (Nat.ltb (cap c) (length (s c) + length (pk_bytes p))); [constructor|].
  destruct (pk_eof p).
  - specialize (IH (rupd s c [])). destruct (recv_all cap (rupd s c []) (proj c t)) as [ms e]. cbn [fst] in *. constructor; [reflexivity|exact IH].
  - apply IH.
Qed.

(* if no channel's own packet sequence overflows, the interleaved sequence does not either, and
   each channel receives exactly what its own sequence delivers *)
Lemma interleaving_independent cap l : forall s,
  (forall c, snd (recv_all cap s (proj c l)) = false) ->
  snd (recv_all cap s l) = false /\
  forall c, on_ch c (fst (recv_all cap s l)) = fst (recv_all cap s (proj c l)).
Proof.
  induction l as [|p t IH]; intros s Hok.
  - cbn. split; [reflexivity|intro c; reflexivity].
  - set (c0 := pk_ch p).
    (* the first packet behaves as in its own channel's sequence *)
    pose proof (Hok c0) as H0. cbn [proj filter] in H0. unfold c0 in H0. rewrite N.eqb_refl in H0. fold (proj (pk_ch p) t) in H0.
    cbn [recv_all] in H0 |- *. unfold recv_packet in H0 |- *.
    destruct (Nat.ltb (cap (pk_ch p)) (length (s (pk_ch p)) + length (pk_bytes p))) eqn:Ecap; [cbn in H0; discriminate|].
    set (s' := if pk_eof p then rupd s (pk_ch p) [] else rupd s (pk_ch p) (s (pk_ch p) ++ pk_bytes p)).
    assert (Hok' : forall c, snd (recv_all cap s' (proj c t)) = false).
    { intro c. destruct (N.eqb_spec (pk_ch p) c) as [E|E].
      - subst c. unfold s'. destruct (pk_eof p).
        + destruct (recv_all cap (rupd s (pk_ch p) []) (proj (pk_ch p) t)) as [ms e]. exact H0.
        + exact H0.
      - specialize (Hok c). cbn [proj filter] in Hok. replace (N.eqb (pk_ch p) c) with false in Hok by (symmetry; apply N.eqb_neq; exact E).
        fold (proj c t) in Hok. rewrite <- Hok. f_equal. apply recv_all_agree.
        intros q Hq. unfold proj in Hq. apply filter_In in Hq as [_ Hq]. apply N.eqb_eq in Hq.
        unfold s'. destruct (pk_eof p); unfold rupd; rewrite Hq; replace (N.eqb c (pk_ch p)) with false by (symmetry; apply N.eqb_neq; congruence); reflexivity. }
    destruct (IH s' Hok') as [I1 I2].
    assert (Hproj : forall c, c <> pk_ch p -> fst (recv_all cap s (proj c (p :: t))) = fst (recv_all cap s' (proj c t))).
    { intros c Hc. cbn [proj filter]. replace (N.eqb (pk_ch p) c) with false by (symmetry; apply N.eqb_neq; congruence).
      fold (proj c t). f_equal. apply recv_all_agree.
      intros q Hq. unfold proj in Hq. apply filter_In in Hq as [_ Hq]. apply N.eqb_eq in Hq.
      unfold s'. destruct (pk_eof p); unfold rupd; rewrite Hq; replace (N.eqb c (pk_ch p)) with false by (symmetry; apply N.eqb_neq; congruence); reflexivity. }
    destruct (pk_eof p) eqn:Eeof.
    + fold s'. destruct (recv_all cap s' t) as [ms e] eqn:Et. cbn [fst snd] in *. split; [exact I1|].
      intro c. cbn [on_ch filter fst]. destruct (N.eqb_spec (pk_ch p) c) as [E|E].
      * subst c. fold (on_ch (pk_ch p) ms). rewrite I2.
        cbn [proj filter]. rewrite N.eqb_refl. fold (proj (pk_ch p) t). cbn [recv_all]. unfold recv_packet. rewrite Ecap, Eeof.
        fold s'. destruct (recv_all cap s' (proj (pk_ch p) t)); reflexivity.
      * fold (on_ch c ms). rewrite I2. symmetry. apply Hproj. congruence.
    + fold s'. split; [exact I1|]. intro c. rewrite I2. destruct (N.eqb_spec (pk_ch p) c) as [E|E].
      * subst c. cbn [proj filter]. rewrite N.eqb_refl. fold (proj (pk_ch p) t). cbn [recv_all]. unfold recv_packet. rewrite Ecap, Eeof. reflexivity.
      * symmetry. apply Hproj. congruence.
Qed.

(* Per-channel order and completeness: for every interleaving [l] of the channels' packet
   sequences (per-channel order kept - that is what filter says), if every message fits its
   channel's capacity then nothing fails and each channel delivers exactly its messages, complete
   and in order. *)
Theorem channel_order cap (msgs : N -> list bytes) (l : list packet) :
  (forall c, proj c l = concat (map (packetise c) (msgs c))) ->
  (forall c, Forall (fun m => (length m <= cap c)%nat) (msgs c)) ->
  snd (recv_all cap rinit l) = false /\
  forall c, on_ch c (fst (recv_all cap rinit l)) = map (fun m => (c, m)) (msgs c).
Proof.
  intros Hproj Hfit.
  assert (Hone : forall c, recv_all cap rinit (proj c l) = (map (fun m => (c, m)) (msgs c), false)).
  { intro c. rewrite Hproj. rewrite <- (app_nil_r (concat _)).
    rewrite (recv_messages cap c (msgs c) rinit [] eq_refl (Hfit c)). cbn. rewrite app_nil_r. reflexivity. }
  destruct (interleaving_independent cap l rinit) as [H1 H2]; [intro c; rewrite Hone; reflexivity|].
  split; [exact H1|]. intro c. rewrite H2, Hone. reflexivity.
Qed.

(* a message above the capacity is never delivered: the connection errors first *)
Theorem over_capacity_rejected cap c msg : (cap c < length msg)%nat ->
  recv_all cap rinit (packetise c msg) = ([], true).
Proof.
  intro Hbig. unfold packetise.
  assert (H : forall fuel m acc s, (length m <= fuel)%nat -> s c = acc -> (cap c < length acc + length m)%nat ->
              recv_all cap s (packetise_f fuel c m) = ([], true)).
  { induction fuel as [|f IH]; intros m acc s Hl Hs Hc.
    - destruct m; [|simpl in Hl; lia]. cbn [packetise_f recv_all]. unfold recv_packet. cbn [pk_ch pk_bytes]. rewrite Hs.
      replace (Nat.ltb (cap c) (length acc + length [])) with true by (symmetry; apply Nat.ltb_lt; exact Hc). reflexivity.
    - cbn [packetise_f]. destruct (Nat.leb_spec (length m) payload_max) as [Hle|Hgt].
      + cbn [recv_all]. unfold recv_packet. cbn [pk_ch pk_bytes]. rewrite Hs.
        replace (Nat.ltb (cap c) (length acc + length m)) with true by (symmetry; apply Nat.ltb_lt; exact Hc). reflexivity.
      + cbn [recv_all]. unfold recv_packet at 1. cbn [pk_ch pk_bytes pk_eof]. rewrite Hs.
        destruct (Nat.ltb (cap c) (length acc + length (firstn payload_max m))) eqn:E; [reflexivity|].
        apply (IH (skipn payload_max m) (acc ++ firstn payload_max m)).
        * rewrite skipn_length. unfold payload_max in *. lia.
        * unfold rupd. rewrite N.eqb_refl. reflexivity.
        * rewrite app_length, firstn_length, skipn_length. unfold payload_max in *. lia. }
  apply (H (length msg) msg [] rinit); [lia|reflexivity|simpl; lia].
Qed.

(* ---------- admission ---------- *)
Theorem admission_sound i : admission i = PeerAdmitted ->
  a_refused i = false /\ a_key_match i = true /\ a_self i = false /\
  (a_auth_by_ca i = true ->
     (a_is_validator i = true /\ a_nonval_auth i = false) \/ (a_has_ca i = true /\ a_sig i = SigCurrentCA)).
Proof.
  unfold admission, ca_ok.
  destruct (a_refused i); [discriminate|].
  destruct (a_auth_by_ca i) eqn:Ea; cbn [andb].
  - destruct (a_is_validator i && negb (a_nonval_auth i)) eqn:Ev.
    + cbn [negb]. destruct (a_key_match i); cbn [negb]; [|discriminate]. destruct (a_self i); [discriminate|].
      intros _. apply andb_true_iff in Ev as [E1 E2]. apply negb_true_iff in E2. auto 10.
    + destruct (a_has_ca i); cbn [negb]; [|discriminate].
      destruct (a_sig i); cbn [negb]; try discriminate.
      destruct (a_key_match i); cbn [negb]; [|discriminate]. destruct (a_self i); [discriminate|]. auto 10.
  - destruct (a_key_match i); cbn [negb]; [|discriminate]. destruct (a_self i); [discriminate|].
    intros _. repeat split; auto. discriminate.
Qed.

(* the finite configuration matrix, exhaustively: the decision is exactly the stated rule *)
Definition all_bools := [true; false].
Definition all_sigs := [SigCurrentCA; SigRemovedCA; SigNonCA; SigInvalid; SigMalformed].
Definition all_inputs : list adm_in :=
  flat_map (fun r => flat_map (fun ca => flat_map (fun v => flat_map (fun nv => flat_map (fun sg =>
  flat_map (fun hc => flat_map (fun km => map (fun sf => mkAdm r ca v nv sg hc km sf) all_bools) all_bools) all_bools)
  all_sigs) all_bools) all_bools) all_bools) all_bools.
Definition rule (i : adm_in) : bool :=
  negb (a_refused i) && a_key_match i && negb (a_self i) &&
  (negb (a_auth_by_ca i) || (a_is_validator i && negb (a_nonval_auth i)) ||
   (a_has_ca i && match a_sig i with SigCurrentCA => true | _ => false end)).
Theorem admission_matrix :
  forallb (fun i => Bool.eqb (match admission i with PeerAdmitted => true | _ => false end) (rule i)) all_inputs = true.
Proof. vm_compute. reflexivity. Qed.
