(* The world-level machine (Model/EvmWorld.v): a frame running in static mode - the callee of a
   STATICCALL and everything it calls in turn - leaves every account and the logs exactly as they
   were, whatever its code does, for every run length.  ("Exactly" up to the representation of the
   world as an association list: every account reads the same.) *)
From Coq Require Import ZArith Bool List Lia.
From AnnVerif Require Import Model.EvmArith Model.EvmCore Model.EvmWorld.
Import ListNotations.
Open Scope Z_scope.

Definition wsame (a b : wstate) : Prop :=
  (forall x, get_acc (ws_world a) x = get_acc (ws_world b) x) /\ ws_logs a = ws_logs b /\ ws_dead a = ws_dead b.
Lemma wsame_refl a : wsame a a. Proof. split; auto. Qed.
Lemma wsame_trans a b c : wsame a b -> wsame b c -> wsame a c.
Proof. intros (A1 & A2 & A3) (B1 & B2 & B3). split; [intro x; rewrite A1; apply B1|split; congruence]. Qed.

Lemma get_add_balance_0 w a x : get_acc (add_balance w a 0) x = get_acc w x.
Proof.
  unfold add_balance, set_acc. cbn [get_acc]. destruct (Z.eqb_spec a x) as [->|]; [|reflexivity].
  destruct (get_acc w x) as [n bal c s]. cbn. rewrite Z.add_0_r. reflexivity.
Qed.

Section Static.
Variable b : benv.

Theorem static_frame_changes_nothing : forall fuel ws fr l ws' o,
  f_static fr = true -> run_frame b fuel ws fr l = (ws', o) -> wsame ws' ws.
Proof.
  induction fuel as [|k IH]; intros ws fr l ws' o Hs H; cbn [run_frame] in H.
  - injection H as <- _. apply wsame_refl.
  - rewrite Hs in H. cbn [andb] in H.
    destruct (wdecode (nth (l_pc l) (f_code fr) 0)) as [i|].
    2:{ destruct (is_write _) eqn:Ew; [injection H as <- _; apply wsame_refl|].
        destruct (step _ _ _) as [m'|[ret st lg|ret| | |]]; try (injection H as <- _; apply wsame_refl).
        eapply IH; eauto. }
    destruct (Nat.ltb _ _); [injection H as <- _; apply wsame_refl|].
    destruct (Nat.ltb _ _); [injection H as <- _; apply wsame_refl|].
    destruct (match i with WCall => negb (st (l_stack l) 2 =? 0) | WCreate | WCreate2 | WSelfdestruct => true | _ => false end) eqn:Ev; [injection H as <- _; apply wsame_refl|].
    assert (Hnext : forall stack mem ret, run_frame b k ws fr (mkL (S (l_pc l)) stack mem ret) = (ws', o) -> wsame ws' ws)
      by (intros; eapply IH; eauto).
    assert (Hcall : forall (kindv : bool) w1 callee (rest : list Z) mem roff rsize,
              (forall x, get_acc w1 x = get_acc (ws_world ws) x) -> f_static callee = true ->
              match f_code callee with
              | [] => run_frame b k (mkWs w1 (ws_logs ws) (ws_dead ws)) fr (mkL (S (l_pc l)) (1 :: rest) mem [])
              | _ => match run_frame b k (mkWs w1 (ws_logs ws) (ws_dead ws)) callee (mkL 0 [] [] []) with
                     | (ws2, FStop ret) => run_frame b k ws2 fr (mkL (S (l_pc l)) (1 :: rest) (mem_set mem roff rsize ret) ret)
                     | (_, FRevert ret) => run_frame b k ws fr (mkL (S (l_pc l)) (0 :: rest) (mem_set mem roff rsize ret) ret)
                     | (_, FFail) | (_, FOog) => run_frame b k ws fr (mkL (S (l_pc l)) (0 :: rest) mem [])
                     | (_, FUnsup) => (ws, FUnsup)
                     end
              end = (ws', o) -> wsame ws' ws).
    { intros _ w1 callee rest mem roff rsize Hw Hc Hr.
      assert (S1 : wsame (mkWs w1 (ws_logs ws) (ws_dead ws)) ws) by (split; [exact Hw|split; reflexivity]).
      destruct (f_code callee) eqn:Ec.
      - eapply wsame_trans; [eapply IH; [exact Hs|exact Hr]|exact S1].
      - destruct (run_frame b k (mkWs w1 (ws_logs ws) (ws_dead ws)) callee (mkL 0 [] [] [])) as [ws2 out] eqn:Er.
        pose proof (IH _ _ _ _ _ Hc Er) as S2.
        destruct out as [ret|ret| | |].
        + eapply wsame_trans; [eapply IH; [exact Hs|exact Hr]|]. eapply wsame_trans; [exact S2|exact S1].
        + eapply IH; [exact Hs|exact Hr].
        + eapply IH; [exact Hs|exact Hr].
        + eapply IH; [exact Hs|exact Hr].
        + injection Hr as <- _. apply wsame_refl. }
    destruct i; cbn [wmem wkind fst snd] in H.
    + (* BALANCE *) cbn in H. eapply Hnext; exact H.
    + cbn in H. eapply Hnext; exact H.
    + destruct (mem_need _ _); try (injection H as <- _; apply wsame_refl); eapply Hnext; exact H.
    + (* EXTCODEHASH: no cbn, the hash is not to be unfolded *) eapply Hnext; exact H.
    + cbn in H. eapply Hnext; exact H.
    + destruct (mem_need _ _); try (injection H as <- _; apply wsame_refl);
        (destruct (_ || _); [injection H as <- _; apply wsame_refl|eapply Hnext; exact H]).
    + (* CALL: in static mode the value is zero *)
      apply negb_false_iff in Ev. apply Z.eqb_eq in Ev.
      destruct (mmax _ _) eqn:Em; try (injection H as <- _; apply wsame_refl);
        (destruct (is_precompile _); [injection H as <- _; apply wsame_refl|];
         destruct (Nat.ltb 1024 _); [eapply Hnext; exact H|];
         destruct (true && _); [eapply Hnext; exact H|];
         cbn [f_code] in H; rewrite Ev in H;
         eapply (Hcall true _ (mkFr _ _ _ _ _ _ _)); [| |exact H]; [intro x; rewrite !get_add_balance_0; reflexivity|reflexivity]).
    + (* CALLCODE *)
      destruct (mmax _ _) eqn:Em; try (injection H as <- _; apply wsame_refl);
        (destruct (is_precompile _); [injection H as <- _; apply wsame_refl|];
         destruct (Nat.ltb 1024 _); [eapply Hnext; exact H|];
         destruct (true && _); [eapply Hnext; exact H|];
         cbn [f_code] in H;
         eapply (Hcall true _ (mkFr _ _ _ _ _ _ _)); [| |exact H]; [reflexivity|reflexivity]).
    + (* DELEGATECALL *)
      destruct (mmax _ _) eqn:Em; try (injection H as <- _; apply wsame_refl);
        (destruct (is_precompile _); [injection H as <- _; apply wsame_refl|];
         destruct (Nat.ltb 1024 _); [eapply Hnext; exact H|];
         cbn [andb f_code] in H;
         eapply (Hcall true _ (mkFr _ _ _ _ _ _ _)); [| |exact H]; [reflexivity|reflexivity]).
    + (* STATICCALL *)
      destruct (mmax _ _) eqn:Em; try (injection H as <- _; apply wsame_refl);
        (destruct (is_precompile _); [injection H as <- _; apply wsame_refl|];
         destruct (Nat.ltb 1024 _); [eapply Hnext; exact H|];
         cbn [andb f_code] in H;
         eapply (Hcall true _ (mkFr _ _ _ _ _ _ _)); [| |exact H]; [reflexivity|reflexivity]).
    + discriminate Ev.
    + discriminate Ev.
    + discriminate Ev.
Qed.
End Static.
