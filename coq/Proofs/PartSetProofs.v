(* Proofs about Model.PartSet: exact reassembly for any arrival sequence (junk included),
   acceptance iff genuine, rejected parts leave the set unchanged. *)
From Coq Require Import List NArith ZArith Lia Bool Arith.
From AnnVerif Require Import Base.Res Base.Bytes Model.Merkle Model.PartSet Proofs.BytesProofs Proofs.MerkleProofs.
Import ListNotations.

(* ---------- chunks ---------- *)
Lemma chunks_f_concat p : (0 < p)%nat -> forall fuel data, (length data <= fuel)%nat ->
  concat (chunks_f fuel p data) = data.
Proof.
  intros Hp. induction fuel as [|f IH]; intros data Hl.
  - destruct data; [reflexivity|simpl in Hl; lia].
  - destruct data as [|x d]; [reflexivity|].
    cbn [chunks_f]. cbn [concat]. rewrite IH.
    + apply firstn_skipn.
    + rewrite skipn_length. cbn [length] in *. lia.
Qed.

Lemma chunks_concat p data : (0 < p)%nat -> concat (chunks p data) = data.
Proof. intro Hp. apply chunks_f_concat; auto. Qed.

Lemma chunks_nonempty p data : data <> [] -> chunks p data <> [].
Proof. unfold chunks. destruct data; [congruence|]. simpl. discriminate. Qed.

(* ---------- set_nth ---------- *)
Lemma set_nth_length {A} (l : list A) i x : length (set_nth l i x) = length l.
Proof. revert i; induction l as [|h t IH]; intros [|i]; simpl; auto. Qed.

Lemma nth_set_nth_eq {A} (l : list A) i x d : (i < length l)%nat -> nth i (set_nth l i x) d = x.
Proof. revert i; induction l as [|h t IH]; intros [|i] H; simpl in *; try lia; auto. apply IH; lia. Qed.

Lemma nth_set_nth_neq {A} (l : list A) i j x d : i <> j -> nth j (set_nth l i x) d = nth j l d.
Proof. revert i j; induction l as [|h t IH]; intros [|i] [|j] H; simpl; auto; try lia. Qed.

Fixpoint count_some {A} (l : list (option A)) : nat :=
  match l with [] => O | Some _ :: t => S (count_some t) | None :: t => count_some t end.

Lemma count_some_set_nth {A} (l : list (option A)) i x :
  nth i l None = None -> (i < length l)%nat -> count_some (set_nth l i (Some x)) = S (count_some l).
Proof.
  revert i; induction l as [|h t IH]; intros [|i] Hn Hl; simpl in *; try lia.
  - subst h. reflexivity.
  - destruct h; simpl; rewrite IH; auto; lia.
Qed.

Lemma count_some_le {A} (l : list (option A)) : (count_some l <= length l)%nat.
Proof. induction l as [|[a|] t IH]; simpl; lia. Qed.

Lemma count_some_full {A} (l : list (option A)) :
  count_some l = length l -> forall i, (i < length l)%nat -> nth i l None <> None.
Proof.
  induction l as [|h t IH]; simpl; intros Hc i Hi; [lia|].
  destruct h as [a|].
  - destruct i; [discriminate|]. apply IH; lia.
  - pose proof (count_some_le t). lia.
Qed.

Lemma count_some_all {A} (l : list (option A)) :
  (forall i, (i < length l)%nat -> nth i l None <> None) -> count_some l = length l.
Proof.
  induction l as [|h t IH]; simpl; intro H; [reflexivity|].
  destruct h as [a|].
  - f_equal. apply IH. intros i Hi. apply (H (S i)). lia.
  - exfalso. apply (H 0%nat); [lia|reflexivity].
Qed.

Lemma count_some_repeat_none {A} k : count_some (repeat (@None A) k) = 0%nat.
Proof. induction k; simpl; auto. Qed.

Lemma nth_map_seq {A} (f : nat -> A) n i d : (i < n)%nat -> nth i (map f (seq 0 n)) d = f i.
Proof.
  intro H. rewrite (nth_indep _ d (f 0%nat)) by (rewrite map_length, seq_length; exact H).
  rewrite map_nth, seq_nth by assumption. reflexivity.
Qed.

Section PartSetProofs.
Variable hash : bytes -> bytes.
Hypothesis hash_inj : forall x y, hash x = hash y -> x = y.

Variable data : bytes.
Variable psize : nat.
Hypothesis psize_pos : (0 < psize)%nat.

Let cs := chunks psize data.
Let leaves := map hash cs.
Let n := length cs.
Hypothesis n_bound : (Z.of_nat n < 4611686018427387904)%Z.
Let root := simple_root hash leaves.

Definition genuine (i : nat) : part := mkPart (Z.of_nat i) (nth i cs []) (aunts_of hash leaves i).

Lemma leaves_length : length leaves = n.
Proof. unfold leaves, n. apply map_length. Qed.

Lemma nth_leaves i : (i < n)%nat -> nth i leaves [] = hash (nth i cs []).
Proof.
  intro H. unfold leaves. rewrite (nth_indep _ [] (hash [])) by (rewrite map_length; exact H).
  apply map_nth.
Qed.

Lemma mk_parts_genuine : mk_parts hash cs = map genuine (seq 0 n).
Proof.
  unfold mk_parts. fold leaves. fold n.
  assert (H : forall (l : list bytes) k, (forall j, (j < length l)%nat -> nth j l [] = nth (k + j) cs []) ->
     map (fun ic : nat * bytes => mkPart (Z.of_nat (fst ic)) (snd ic) (aunts_of hash leaves (fst ic)))
         (combine (seq k (length l)) l) = map genuine (seq k (length l))).
  { induction l as [|x l IH]; intros k Hk; [reflexivity|].
    cbn [length seq combine map]. f_equal.
    - unfold genuine. cbn [fst snd]. f_equal. specialize (Hk 0%nat). cbn [nth] in Hk. rewrite Hk; [f_equal; lia|simpl; lia].
    - apply IH. intros j Hj. specialize (Hk (S j)). cbn [nth] in Hk. rewrite Hk; [f_equal; lia|simpl; lia]. }
  apply (H cs 0%nat). intros j Hj. reflexivity.
Qed.

(* the sender's part set is what the invariant below calls "all genuine parts present" *)
Lemma from_data_spec :
  from_data hash data psize = mkPS (Z.of_nat n) root (map (fun i => Some (genuine i)) (seq 0 n)) (Z.of_nat n).
Proof. unfold from_data. fold cs. rewrite mk_parts_genuine, map_map. reflexivity. Qed.

Definition Inv (s : partset) : Prop :=
  ps_total s = Z.of_nat n /\ ps_hash s = root /\ length (ps_parts s) = n /\
  (forall i, (i < n)%nat -> nth i (ps_parts s) None = None \/ nth i (ps_parts s) None = Some (genuine i)) /\
  ps_count s = Z.of_nat (count_some (ps_parts s)).

Lemma Inv_init : forall s, from_header (Z.of_nat n) root = Ok s -> Inv s.
Proof.
  intros s. unfold from_header.
  destruct (Z.of_nat n <? 0)%Z eqn:E; [discriminate|]. intro H; injection H as <-.
  unfold Inv. cbn [ps_total ps_hash ps_parts ps_count]. rewrite Nat2Z.id.
  split; [reflexivity|]. split; [reflexivity|]. split; [apply repeat_length|]. split.
  - intros i Hi. left. apply nth_repeat.
  - rewrite count_some_repeat_none. reflexivity.
Qed.

Lemma from_header_ok : exists s, from_header (Z.of_nat n) root = Ok s.
Proof. unfold from_header. destruct (Z.of_nat n <? 0)%Z eqn:E; [apply Z.ltb_lt in E; lia|]. eauto. Qed.

(* a part that verifies against the genuine header is the genuine part at its index *)
Lemma verify_genuine p :
  verify hash (p_index p) (Z.of_nat n) (part_hash hash p) root (p_aunts p) = true ->
  exists i, (i < n)%nat /\ p = genuine i.
Proof.
  unfold verify, compute_from_aunts.
  destruct (compute_rev hash (rev (p_aunts p)) (p_index p) (Z.of_nat n) (part_hash hash p)) as [r|] eqn:Hc; [|discriminate].
  intro Hb. apply bytes_eqb_eq in Hb. subst r.
  unfold root, simple_root in Hc. rewrite <- leaves_length in Hc at 1.
  apply (sound_f hash hash_inj) in Hc; [|lia|rewrite leaves_length; exact n_bound].
  destruct Hc as [Hi [Hleaf Haunts]]. rewrite leaves_length in Hi.
  exists (Z.to_nat (p_index p)). split; [lia|].
  rewrite rev_involutive in Haunts.
  unfold part_hash in Hleaf. rewrite nth_leaves in Hleaf by lia. apply hash_inj in Hleaf.
  destruct p as [pi pb pa]. cbn [p_index p_bytes p_aunts] in *. unfold genuine.
  rewrite Z2Nat.id by lia. subst pb pa. reflexivity.
Qed.

Lemma genuine_verifies i : (i < n)%nat ->
  verify hash (p_index (genuine i)) (Z.of_nat n) (part_hash hash (genuine i)) root (p_aunts (genuine i)) = true.
Proof.
  intro Hi. unfold verify, compute_from_aunts, genuine, part_hash. cbn [p_index p_bytes p_aunts].
  unfold aunts_of. rewrite <- nth_leaves by assumption.
  unfold root, simple_root.
  replace (Z.of_nat n) with (Z.of_nat (length leaves)) by (rewrite leaves_length; reflexivity).
  rewrite (complete_f hash); [apply bytes_eqb_refl | lia | rewrite leaves_length; lia | rewrite leaves_length; exact n_bound].
Qed.

(* ---------- one step ---------- *)
Lemma add_part_rejected_unchanged s p v : snd (add_part hash s p v) <> Added -> fst (add_part hash s p v) = s.
Proof.
  unfold add_part.
  destruct ((p_index p <? 0)%Z || (ps_total s <=? p_index p)%Z); [reflexivity|].
  destruct (nth (Z.to_nat (p_index p)) (ps_parts s) None); [reflexivity|].
  destruct (v && negb _); [reflexivity|]. simpl. congruence.
Qed.

Lemma add_part_added_genuine s p : Inv s ->
  snd (add_part hash s p true) = Added ->
  exists i, (i < n)%nat /\ p = genuine i /\ nth i (ps_parts s) None = None /\
            fst (add_part hash s p true) =
              mkPS (ps_total s) (ps_hash s) (set_nth (ps_parts s) i (Some p)) (ps_count s + 1).
Proof.
  intros (Ht & Hh & Hlen & Hslots & Hc). unfold add_part.
  destruct ((p_index p <? 0)%Z || (ps_total s <=? p_index p)%Z) eqn:Eg; [discriminate|].
  destruct (nth (Z.to_nat (p_index p)) (ps_parts s) None) eqn:Eslot; [discriminate|].
  cbn [andb].
  destruct (verify hash (p_index p) (ps_total s) (part_hash hash p) (ps_hash s) (p_aunts p)) eqn:Ev; [|discriminate].
  cbn [negb snd fst]. intros _.
  rewrite Ht, Hh in Ev. apply verify_genuine in Ev as (i & Hi & ->).
  exists i. cbn [genuine p_index] in *. rewrite Nat2Z.id in *. auto.
Qed.

Lemma add_part_genuine_spec s i : Inv s -> (i < n)%nat ->
  (nth i (ps_parts s) None = None /\ snd (add_part hash s (genuine i) true) = Added) \/
  (nth i (ps_parts s) None = Some (genuine i) /\ add_part hash s (genuine i) true = (s, Dup)).
Proof.
  intros (Ht & Hh & Hlen & Hslots & Hc) Hi. unfold add_part.
  replace ((p_index (genuine i) <? 0)%Z || (ps_total s <=? p_index (genuine i))%Z) with false.
  2:{ symmetry. apply orb_false_iff. cbn [genuine p_index]. split; [apply Z.ltb_ge|apply Z.leb_gt]; lia. }
  cbn [genuine p_index]. rewrite Nat2Z.id.
  destruct (Hslots i Hi) as [Hs|Hs]; rewrite Hs.
  - left. split; [reflexivity|]. cbn [andb]. rewrite Ht, Hh.
    pose proof (genuine_verifies i Hi) as Hv. cbn [genuine p_index] in Hv. unfold genuine in Hv |- *. rewrite Hv. reflexivity.
  - right. split; reflexivity.
Qed.

Lemma add_part_Inv s p : Inv s -> Inv (fst (add_part hash s p true)).
Proof.
  intro HI. destruct (snd (add_part hash s p true)) eqn:Eo.
  - destruct (add_part_added_genuine s p HI Eo) as (i & Hi & -> & Hslot & ->).
    destruct HI as (Ht & Hh & Hlen & Hslots & Hc).
    unfold Inv. cbn [ps_total ps_hash ps_parts ps_count].
    split; [assumption|]. split; [assumption|]. split; [rewrite set_nth_length; assumption|]. split.
    + intros j Hj. destruct (Nat.eq_dec i j) as [<-|Hne].
      * right. apply nth_set_nth_eq. lia.
      * rewrite nth_set_nth_neq by assumption. auto.
    + rewrite count_some_set_nth by (auto; lia). lia.
  - rewrite add_part_rejected_unchanged by (rewrite Eo; discriminate). assumption.
  - rewrite add_part_rejected_unchanged by (rewrite Eo; discriminate). assumption.
  - rewrite add_part_rejected_unchanged by (rewrite Eo; discriminate). assumption.
Qed.

(* a filled slot stays filled with the same part *)
Lemma add_part_keeps s p i : Inv s -> nth i (ps_parts s) None = Some (genuine i) ->
  nth i (ps_parts (fst (add_part hash s p true))) None = Some (genuine i).
Proof.
  intros HI Hs. destruct (snd (add_part hash s p true)) eqn:Eo.
  - destruct (add_part_added_genuine s p HI Eo) as (j & Hj & -> & Hslot & ->). cbn [ps_parts].
    destruct (Nat.eq_dec j i) as [->|Hne]; [congruence|]. rewrite nth_set_nth_neq; assumption.
  - rewrite add_part_rejected_unchanged by (rewrite Eo; discriminate). assumption.
  - rewrite add_part_rejected_unchanged by (rewrite Eo; discriminate). assumption.
  - rewrite add_part_rejected_unchanged by (rewrite Eo; discriminate). assumption.
Qed.

Lemma add_part_genuine_fills s i : Inv s -> (i < n)%nat ->
  nth i (ps_parts (fst (add_part hash s (genuine i) true))) None = Some (genuine i).
Proof.
  intros HI Hi. destruct (add_part_genuine_spec s i HI Hi) as [[Hs Ha]|[Hs Ha]].
  - destruct (add_part_added_genuine s _ HI Ha) as (j & Hj & Hg & Hslot & ->). cbn [ps_parts].
    assert (j = i).
    { apply (f_equal p_index) in Hg. cbn [genuine p_index] in Hg. lia. }
    subst j. apply nth_set_nth_eq. destruct HI as (_ & _ & Hlen & _). lia.
  - rewrite Ha. exact Hs.
Qed.

(* ---------- any arrival sequence ---------- *)
Lemma add_parts_cons s p l : add_parts hash s (p :: l) = add_parts hash (fst (add_part hash s p true)) l.
Proof. reflexivity. Qed.
Lemma add_parts_Inv l : forall s, Inv s -> Inv (add_parts hash s l).
Proof.
  induction l as [|p l IH]; intros s HI; [exact HI|]. rewrite add_parts_cons.
  apply IH. apply add_part_Inv. exact HI.
Qed.

Lemma add_parts_keeps l i : forall s, Inv s -> nth i (ps_parts s) None = Some (genuine i) ->
  nth i (ps_parts (add_parts hash s l)) None = Some (genuine i).
Proof.
  induction l as [|p l IH]; intros s HI Hs; [exact Hs|]. rewrite add_parts_cons.
  apply IH; [apply add_part_Inv; exact HI | apply add_part_keeps; assumption].
Qed.

Lemma add_parts_fills l i : (i < n)%nat -> In (genuine i) l -> forall s, Inv s ->
  nth i (ps_parts (add_parts hash s l)) None = Some (genuine i).
Proof.
  intros Hi. induction l as [|p l IH]; intros Hin s HI; [contradiction|].
  rewrite add_parts_cons. destruct Hin as [->|Hin].
  - apply add_parts_keeps; [apply add_part_Inv; exact HI | apply add_part_genuine_fills; assumption].
  - apply IH; [assumption | apply add_part_Inv; exact HI].
Qed.

Lemma full_parts s : Inv s -> (forall i, (i < n)%nat -> nth i (ps_parts s) None = Some (genuine i)) ->
  ps_parts s = map (fun i => Some (genuine i)) (seq 0 n).
Proof.
  intros (_ & _ & Hlen & _ & _) Hall.
  apply (nth_ext _ _ None None).
  - rewrite map_length, seq_length. exact Hlen.
  - intros i Hi. rewrite Hlen in Hi. rewrite Hall by assumption.
    rewrite nth_map_seq by assumption. reflexivity.
Qed.

Lemma concat_genuine_bytes :
  concat_bytes (map (fun o : option part => match o with Some p => p_bytes p | None => [] end)
                    (map (fun i => Some (genuine i)) (seq 0 n))) = data.
Proof.
  rewrite map_map. cbn [genuine p_bytes].
  replace (map (fun x : nat => nth x cs []) (seq 0 n)) with cs.
  - apply chunks_concat. exact psize_pos.
  - unfold n. clear. induction cs as [|c l IH] using rev_ind; [reflexivity|].
    rewrite app_length. cbn [length]. rewrite Nat.add_1_r, seq_S, map_app. cbn [map Nat.add].
    rewrite app_nth2, Nat.sub_diag by lia. cbn [nth]. f_equal.
    rewrite IH at 1. apply map_ext_in. intros a Ha. apply in_seq in Ha. rewrite app_nth1 by lia. reflexivity.
Qed.

Theorem reassembly_any_order (arrivals : list part) s0 :
  data <> [] ->
  from_header (Z.of_nat n) root = Ok s0 ->
  (forall i, (i < n)%nat -> In (genuine i) arrivals) ->
  let s := add_parts hash s0 arrivals in
  is_complete s = true /\ read_all s = Ok data /\ ps_hash s = root.
Proof.
  intros Hne H0 Hall s.
  assert (HI0 : Inv s0) by (apply Inv_init; exact H0).
  assert (HI : Inv s) by (apply add_parts_Inv; exact HI0).
  assert (Hfull : forall i, (i < n)%nat -> nth i (ps_parts s) None = Some (genuine i)).
  { intros i Hi. apply add_parts_fills; auto. }
  pose proof (full_parts s HI Hfull) as Hparts.
  destruct HI as (Ht & Hh & Hlen & Hslots & Hc).
  assert (Hcomplete : is_complete s = true).
  { unfold is_complete. rewrite Hc, Ht. apply Z.eqb_eq. f_equal.
    rewrite <- Hlen. apply count_some_all. intros i Hi. rewrite Hlen in Hi. rewrite Hfull by assumption. discriminate. }
  split; [exact Hcomplete|]. split; [|exact Hh].
  unfold read_all. rewrite Hcomplete. cbn [negb].
  assert (Hn : n <> 0%nat).
  { unfold n. intro Hz. apply length_zero_iff_nil in Hz. exact (chunks_nonempty _ _ Hne Hz). }
  destruct (ps_parts s) as [|o l] eqn:Ep; [simpl in Hlen; congruence|].
  rewrite Hparts. f_equal. apply concat_genuine_bytes.
Qed.

(* what a receiver holding only the genuine header accepts, in any reachable state *)
Theorem accept_iff_genuine (arrivals : list part) s0 p :
  from_header (Z.of_nat n) root = Ok s0 ->
  let s := add_parts hash s0 arrivals in
  (snd (add_part hash s p true) = Added <->
   exists i, (i < n)%nat /\ p = genuine i /\ nth i (ps_parts s) None = None).
Proof.
  intros H0 s.
  assert (HI : Inv s) by (apply add_parts_Inv, Inv_init; exact H0).
  split.
  - intro Ha. destruct (add_part_added_genuine s p HI Ha) as (i & Hi & Hp & Hs & _). eauto.
  - intros (i & Hi & -> & Hs). destruct (add_part_genuine_spec s i HI Hi) as [[_ Ha]|[Hs' _]]; [exact Ha|congruence].
Qed.

End PartSetProofs.
