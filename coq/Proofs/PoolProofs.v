(* Proofs about Model.TxPool. *)
From Coq Require Import List NArith ZArith Lia Bool Arith.
From AnnVerif Require Import Base.Res Model.TxPool.
Import ListNotations.
Open Scope N_scope.

(* ---------- runs of consecutive nonces ---------- *)
Fixpoint is_run (n : N) (m : smap) : Prop :=
  match m with [] => True | t :: r => t_nonce t = n /\ is_run (n + 1) r end.

Definition all_ge (n : N) (m : smap) : Prop := forall t, In t m -> n <= t_nonce t.

Lemma is_run_ge n m : is_run n m -> all_ge n m.
Proof.
  revert n; induction m as [|t r IH]; intros n H u Hu; [contradiction|].
  destruct H as [H1 H2]. destruct Hu as [<-|Hu]; [lia|]. specialize (IH _ H2 u Hu). lia.
Qed.

Lemma is_run_app n a b : is_run n a -> is_run (n + N.of_nat (length a)) b -> is_run n (a ++ b).
Proof.
  revert n; induction a as [|t r IH]; intros n Ha Hb; cbn in *; [rewrite N.add_0_r in Hb; exact Hb|].
  destruct Ha as [H1 H2]. split; [exact H1|]. apply IH; [exact H2|].
  replace (n + 1 + N.of_nat (length r)) with (n + N.pos (Pos.of_succ_nat (length r))) by lia. exact Hb.
Qed.

Lemma sm_get_run n m k : is_run n m -> (sm_get m k <> None <-> n <= k < n + N.of_nat (length m)).
Proof.
  revert n; induction m as [|t r IH]; intros n H; cbn [sm_get length].
  - split; [congruence|lia].
  - destruct H as [H1 H2]. destruct (N.eqb_spec (t_nonce t) k).
    + split; [intros _; lia|discriminate].
    + rewrite (IH _ H2). lia.
Qed.

(* inserting the next nonce at the end of a run *)
Lemma sm_insert_run_end n m t : is_run n m -> t_nonce t = n + N.of_nat (length m) ->
  sm_insert m t = m ++ [t].
Proof.
  revert n; induction m as [|h r IH]; intros n H Ht; cbn [sm_insert length app]; [reflexivity|].
  destruct H as [H1 H2]. destruct (N.ltb_spec (t_nonce t) (t_nonce h)); [lia|].
  f_equal. apply (IH (n + 1)); [exact H2|]. cbn [length] in Ht. lia.
Qed.

(* adding a run that starts inside (or right after) a run extends it to a run *)
Lemma fold_add_run ready : forall n pm s,
  is_run n pm -> is_run s ready -> n <= s <= n + N.of_nat (length pm) ->
  is_run n (fold_left (fun m t => match sm_add m t with Some m' => m' | None => m end) ready pm) /\
  (length pm <= length (fold_left (fun m t => match sm_add m t with Some m' => m' | None => m end) ready pm))%nat.
Proof.
  induction ready as [|t r IH]; intros n pm s Hp Hr Hs; cbn [fold_left]; [split; [exact Hp|lia]|].
  destruct Hr as [Ht Hr'].
  assert (Hadd : (sm_get pm (t_nonce t) <> None /\ sm_add pm t = None) \/
                 (sm_get pm (t_nonce t) = None /\ sm_add pm t = Some (sm_insert pm t))).
  { unfold sm_add. destruct (sm_get pm (t_nonce t)); [left; split; [discriminate|reflexivity]|right; auto]. }
  destruct Hadd as [[Eg Ea]|[Eg Ea]]; rewrite Ea.
  - (* nonce already there *)
    assert (Hin : n <= t_nonce t < n + N.of_nat (length pm)) by (apply (sm_get_run n pm); [exact Hp|exact Eg]).
    apply (IH n pm (s + 1)); auto; lia.
  - assert (Hout : ~ (n <= t_nonce t < n + N.of_nat (length pm))).
    { intro Hx. apply (sm_get_run n pm (t_nonce t) Hp) in Hx. congruence. }
    assert (Heq : t_nonce t = n + N.of_nat (length pm)) by lia.
    rewrite (sm_insert_run_end n pm t Hp Heq).
    destruct (IH n (pm ++ [t]) (s + 1)) as [I1 I2].
    + apply is_run_app; [exact Hp|]. cbn. split; [lia|exact I].
    + exact Hr'.
    + rewrite app_length. cbn [length]. lia.
    + split; [exact I1|]. rewrite app_length in I2. cbn [length] in I2. lia.
Qed.

(* Forward keeps a suffix: of a run, a run *)
Lemma forward_run n m th : is_run n m ->
  snd (sm_forward m th) = [] \/ is_run (N.max n th) (snd (sm_forward m th)).
Proof.
  unfold sm_forward. cbn [snd]. revert n; induction m as [|t r IH]; intros n H; [left; reflexivity|].
  destruct H as [H1 H2]. cbn [filter]. destruct (N.ltb_spec (t_nonce t) th) as [Hlt|Hge]; cbn [negb].
  - destruct (IH _ H2) as [E|E]; [left; exact E|right]. replace (N.max n th) with (N.max (n + 1) th) by lia. exact E.
  - right. replace (N.max n th) with n by lia. cbn [is_run]. split; [exact H1|].
    assert (Hall : filter (fun t0 => negb (t_nonce t0 <? th)) r = r).
    { pose proof (is_run_ge _ _ H2) as Hg. clear -Hg Hge H1. induction r as [|u r IHr]; [reflexivity|]. cbn [filter].
      assert (n + 1 <= t_nonce u) by (apply Hg; left; reflexivity).
      destruct (N.ltb_spec (t_nonce u) th); [lia|]. cbn [negb]. f_equal. apply IHr. intros x Hx. apply Hg. right. exact Hx. }
    rewrite Hall. exact H2.
Qed.

Lemma filter_length_le {A} (f : A -> bool) l : (length (filter f l) <= length l)%nat.
Proof. induction l as [|x l IH]; cbn; [lia|]. destruct (f x); cbn; lia. Qed.

(* the run taken by ReadyN *)
Lemma sm_run_spec m : forall next count a b, sm_run m next count = (a, b) ->
  is_run next a /\ m = a ++ b /\ (length a <= count)%nat.
Proof.
  induction m as [|t r IH]; intros next count a b; destruct count as [|c]; cbn [sm_run];
    try (intro E; injection E as <- <-; repeat split; auto; cbn; lia).
  destruct (N.eqb_spec (t_nonce t) next) as [E1|E1].
  - destruct (sm_run r (next + 1) c) as [a' b'] eqn:Er. intro E; injection E as <- <-.
    destruct (IH _ _ _ _ Er) as (I1 & I2 & I3). repeat split; auto; [cbn; rewrite <- I2; reflexivity|cbn; lia].
  - intro E; injection E as <- <-. repeat split; auto. cbn. lia.
Qed.

Lemma sm_ready_spec m start count a b : sm_ready m start count = (a, b) ->
  m = a ++ b /\ (length a <= count)%nat /\
  (a = [] \/ exists s, s <= start /\ is_run s a /\ sm_min m = Some s).
Proof.
  unfold sm_ready. destruct m as [|t r]; [intro E; injection E as <- <-; repeat split; auto; cbn; lia|].
  destruct ((start <? t_nonce t) || Nat.eqb count 0) eqn:Ec.
  - intro E; injection E as <- <-. repeat split; auto. cbn. lia.
  - apply orb_false_iff in Ec as [Ec1 Ec2]. apply N.ltb_ge in Ec1. intro E.
    destruct (sm_run_spec _ _ _ _ _ E) as (I1 & I2 & I3). repeat split; auto.
    right. exists (t_nonce t). repeat split; auto.
Qed.

(* ---------- address maps ---------- *)
Lemma am_get_set_eq a k v : am_get (am_set a k v) k = Some v.
Proof.
  induction a as [|[k' v'] r IH]; cbn [am_set am_get]; [rewrite N.eqb_refl; reflexivity|].
  destruct (N.eqb_spec k' k); cbn [am_get]; [rewrite N.eqb_refl; reflexivity|].
  destruct (k <? k'); cbn [am_get]; [rewrite N.eqb_refl; reflexivity|].
  destruct (N.eqb_spec k' k); [contradiction|exact IH].
Qed.
Lemma am_get_set_neq a k v k2 : k <> k2 -> am_get (am_set a k v) k2 = am_get a k2.
Proof.
  intro Hne. induction a as [|[k' v'] r IH]; cbn [am_set am_get].
  - destruct (N.eqb_spec k k2); [contradiction|reflexivity].
  - destruct (N.eqb_spec k' k) as [->|E1]; cbn [am_get].
    + destruct (N.eqb_spec k k2); [contradiction|reflexivity].
    + destruct (k <? k'); cbn [am_get].
      * destruct (N.eqb_spec k k2); [contradiction|reflexivity].
      * destruct (N.eqb_spec k' k2); [reflexivity|exact IH].
Qed.
Lemma am_get_del_eq a k : am_get (am_del a k) k = None.
Proof.
  induction a as [|[k' v'] r IH]; cbn [am_del filter am_get fst]; [reflexivity|].
  destruct (N.eqb_spec k' k); cbn [negb]; [exact IH|]. cbn [am_get]. destruct (N.eqb_spec k' k); [contradiction|exact IH].
Qed.
Lemma am_get_del_neq a k k2 : k <> k2 -> am_get (am_del a k) k2 = am_get a k2.
Proof.
  intro Hne. induction a as [|[k' v'] r IH]; cbn [am_del filter am_get fst]; [reflexivity|].
  destruct (N.eqb_spec k' k) as [->|E]; cbn [negb].
  - destruct (N.eqb_spec k k2); [contradiction|exact IH].
  - cbn [am_get]. destruct (N.eqb_spec k' k2); [reflexivity|exact IH].
Qed.
Lemma am_get_in a k m : am_get a k = Some m -> In k (map fst a).
Proof.
  induction a as [|[k' v'] r IH]; cbn [am_get map fst]; [discriminate|].
  destruct (N.eqb_spec k' k); [intros _; left; assumption|intro H; right; apply IH; exact H].
Qed.

(* ---------- the pending queues ---------- *)
(* account a's pending queue, if any, is a non-empty run of consecutive nonces starting at the
   account's state nonce *)
Definition ok_at (ns : nonces) (p : pool) (a : N) : Prop :=
  match am_get (p_pending p) a with
  | None => True
  | Some m => m <> [] /\ is_run (nonce_of ns a) m
  end.
Definition pending_ok (ns : nonces) (p : pool) : Prop := forall a, ok_at ns p a.

(* every pending queue is a non-empty run (from wherever) *)
Definition runs (p : pool) : Prop :=
  forall a m, am_get (p_pending p) a = Some m -> m <> [] /\ exists s, is_run s m.

Lemma pending_ok_runs ns p : pending_ok ns p -> runs p.
Proof. intros H a m Hm. specialize (H a). unfold ok_at in H. rewrite Hm in H. destruct H; eauto. Qed.

Lemma add_waiting_pending p t : p_pending (fst (add_waiting p t)) = p_pending p.
Proof.
  unfold add_waiting. destruct (Nat.leb (p_wlimit p) (am_count (p_waiting p))).
  - destruct (am_get (p_waiting p) (t_from t)); [|reflexivity]. destruct (sm_try_replace s t). reflexivity.
  - destruct (sm_add _ t); reflexivity.
Qed.

Lemma kept_ge m th : all_ge th (snd (sm_forward m th)).
Proof.
  unfold sm_forward, all_ge. cbn [snd]. intros t Ht. apply filter_In in Ht as [_ Ht].
  apply negb_true_iff in Ht. apply N.ltb_ge in Ht. exact Ht.
Qed.

Lemma promote_one_ok ns p a : pending_ok ns p -> pending_ok ns (promote_one ns p a).
Proof.
  intro Hok. unfold promote_one.
  destruct (Nat.leb (p_plimit p) (am_count (p_pending p))); [exact Hok|].
  destruct (am_get (p_waiting p) a) as [w|]; [|exact Hok].
  destruct (sm_forward w (nonce_of ns a)) as [old w1] eqn:Ef.
  destruct (sm_ready w1 (nonce_of ns a) (p_plimit p - am_count (p_pending p))) as [ready w2] eqn:Er.
  destruct ready as [|t r].
  - intro b. unfold ok_at. cbn [p_pending]. apply Hok.
  - destruct (sm_ready_spec _ _ _ _ _ Er) as (Hsplit & _ & [Hnil|(s & Hs & Hrun & Hmin)]); [discriminate|].
    assert (Hw1 : w1 = snd (sm_forward w (nonce_of ns a))) by (rewrite Ef; reflexivity).
    assert (Hs2 : nonce_of ns a <= s).
    { pose proof (kept_ge w (nonce_of ns a)) as Hg. rewrite <- Hw1 in Hg.
      destruct w1 as [|h w1']; [discriminate|]. cbn in Hmin. injection Hmin as <-. apply Hg. left. reflexivity. }
    assert (Hseq : s = nonce_of ns a) by lia. subst s.
    intro b. unfold ok_at. cbn [p_pending]. destruct (N.eq_dec a b) as [<-|Hne].
    + rewrite am_get_set_eq.
      specialize (Hok a). unfold ok_at in Hok.
      destruct (am_get (p_pending p) a) as [pm0|] eqn:Ep.
      * destruct Hok as [Hne0 Hrun0].
        destruct (fold_add_run (t :: r) (nonce_of ns a) pm0 (nonce_of ns a) Hrun0 Hrun ltac:(lia)) as [I1 I2].
        split; [|exact I1]. intro E. rewrite E in I2. destruct pm0; [congruence|cbn in I2; lia].
      * cbn [fold_left]. destruct Hrun as [Ht Hr]. change (sm_add [] t) with (Some [t]). cbv iota.
        destruct (fold_add_run r (nonce_of ns a) [t] (nonce_of ns a + 1)) as [I1 I2].
        -- cbn. split; [exact Ht|exact I].
        -- exact Hr.
        -- cbn. lia.
        -- split; [|exact I1]. intro E. rewrite E in I2. cbn in I2. lia.
    + rewrite am_get_set_neq by exact Hne. apply Hok.
Qed.

Lemma promote_ok ns addrs : forall p, pending_ok ns p -> pending_ok ns (promote ns p addrs).
Proof.
  unfold promote. induction addrs as [|a t IH]; intros p H; [exact H|]. cbn [fold_left]. apply IH. apply promote_one_ok. exact H.
Qed.

(* demotion of one account *)
Lemma demote_fold_pending l : forall q,
  p_pending (fold_left (fun q t => let '(q', c) := add_waiting q t in
                          if c =? 0 then q'
                          else mkPool (p_pending q') (p_waiting q') (all_del (p_all q') [t_id t]) (p_ext q') (p_plimit q') (p_wlimit q')) l q)
  = p_pending q.
Proof.
  induction l as [|t r IH]; intro q; [reflexivity|]. cbn [fold_left].
  pose proof (add_waiting_pending q t) as Hp. destruct (add_waiting q t) as [q' c]. cbn [fst] in Hp.
  destruct (c =? 0); rewrite IH; [exact Hp|exact Hp].
Qed.

Lemma demote_one_spec ns p a : runs p ->
  runs (demote_one ns p a) /\ ok_at ns (demote_one ns p a) a /\
  (forall b, b <> a -> am_get (p_pending (demote_one ns p a)) b = am_get (p_pending p) b).
Proof.
  intro Hr. unfold demote_one.
  destruct (am_get (p_pending p) a) as [m|] eqn:Em.
  2:{ split; [exact Hr|]. split; [unfold ok_at; rewrite Em; exact I|auto]. }
  destruct (Hr a m Em) as [Hne (s & Hrun)].
  destruct (sm_forward m (nonce_of ns a)) as [old m1] eqn:Ef.
  assert (Hm1 : m1 = snd (sm_forward m (nonce_of ns a))) by (rewrite Ef; reflexivity).
  destruct m1 as [|h m1'].
  - cbn [p_pending]. split; [|split].
    + intros b mb Hb. cbn [p_pending] in Hb. destruct (N.eq_dec a b) as [<-|Hnb]; [rewrite am_get_del_eq in Hb; discriminate|].
      rewrite am_get_del_neq in Hb by exact Hnb. exact (Hr b mb Hb).
    + unfold ok_at. cbn [p_pending]. rewrite am_get_del_eq. exact I.
    + intros b Hb. cbn [p_pending]. apply am_get_del_neq. congruence.
  - destruct (sm_get (h :: m1') (nonce_of ns a)) as [u|] eqn:Eg.
    + cbn [p_pending].
      destruct (forward_run s m (nonce_of ns a) Hrun) as [E|Hrun1]; [rewrite <- Hm1 in E; discriminate|].
      rewrite <- Hm1 in Hrun1.
      (* the kept suffix is a run from max s n and contains n, so it starts at n *)
      assert (Hstart : N.max s (nonce_of ns a) = nonce_of ns a).
      { assert (Hin : sm_get (h :: m1') (nonce_of ns a) <> None) by congruence.
        apply (sm_get_run _ _ _ Hrun1) in Hin. lia. }
      rewrite Hstart in Hrun1.
      split; [|split].
      * intros b mb Hb. cbn [p_pending] in Hb. destruct (N.eq_dec a b) as [<-|Hnb].
        -- rewrite am_get_set_eq in Hb. injection Hb as <-. split; [discriminate|eauto].
        -- rewrite am_get_set_neq in Hb by exact Hnb. exact (Hr b mb Hb).
      * unfold ok_at. cbn [p_pending]. rewrite am_get_set_eq. split; [discriminate|exact Hrun1].
      * intros b Hb. cbn [p_pending]. apply am_get_set_neq. congruence.
    + split; [|split].
      * intros b mb Hb. rewrite demote_fold_pending in Hb. cbn [p_pending] in Hb.
        destruct (N.eq_dec a b) as [<-|Hnb]; [rewrite am_get_del_eq in Hb; discriminate|].
        rewrite am_get_del_neq in Hb by exact Hnb. exact (Hr b mb Hb).
      * unfold ok_at. rewrite demote_fold_pending. cbn [p_pending]. rewrite am_get_del_eq. exact I.
      * intros b Hb. rewrite demote_fold_pending. cbn [p_pending]. apply am_get_del_neq. congruence.
Qed.

Lemma demote_all ns keys : forall p, runs p ->
  let p' := fold_left (demote_one ns) keys p in
  runs p' /\ (forall a, In a keys -> ok_at ns p' a) /\
  (forall a, ~ In a keys -> am_get (p_pending p') a = am_get (p_pending p) a).
Proof.
  induction keys as [|k t IH]; intros p Hr; cbn [fold_left]; [split; [exact Hr|split; [contradiction|auto]]|].
  destruct (demote_one_spec ns p k Hr) as (D1 & D2 & D3).
  destruct (IH (demote_one ns p k) D1) as (I1 & I2 & I3).
  split; [exact I1|]. split.
  - intros a [<-|Ha].
    + destruct (in_dec N.eq_dec k t) as [Hin|Hnin]; [apply I2; exact Hin|].
      unfold ok_at. rewrite (I3 k Hnin). exact D2.
    + apply I2. exact Ha.
  - intros a Ha. rewrite I3 by (intro; apply Ha; right; assumption). apply D3. intro E. apply Ha. left. congruence.
Qed.

(* after updateToState every pending queue is a non-empty run starting at its account's state
   nonce - whatever the nonces were before *)
Theorem update_to_state_ok ns p : runs p -> pending_ok ns (update_to_state ns p).
Proof.
  intro Hr. unfold update_to_state. apply promote_ok.
  destruct (demote_all ns (map fst (p_pending p)) p Hr) as (D1 & D2 & D3).
  intro a. destruct (in_dec N.eq_dec a (map fst (p_pending p))) as [Hin|Hnin]; [apply D2; exact Hin|].
  unfold ok_at. rewrite (D3 a Hnin).
  destruct (am_get (p_pending p) a) as [m|] eqn:Em; [|exact I].
  exfalso. apply Hnin. eapply am_get_in; eauto.
Qed.

(* a submission keeps the property (for the nonces it was checked against) *)
Theorem receive_ok ns p t : pending_ok ns p -> pending_ok ns (fst (receive ns p t)).
Proof.
  intro Hok. unfold receive.
  destruct (existsb (N.eqb (t_id t)) (p_all p)); [exact Hok|].
  destruct (t_nonce t <? nonce_of ns (t_from t)); [exact Hok|].
  pose proof (add_waiting_pending p t) as Hp. destruct (add_waiting p t) as [p1 c]. cbn [fst] in Hp.
  assert (Hok1 : pending_ok ns p1) by (intro a; unfold ok_at; rewrite Hp; apply Hok).
  destruct (c =? 1); [exact Hok1|]. destruct (c =? 2); [exact Hok1|].
  destruct (nonce_of ns (t_from t) =? t_nonce t); cbn [fst].
  - apply promote_ok. intro a. unfold ok_at. cbn [p_pending]. apply Hok1.
  - intro a. unfold ok_at. cbn [p_pending]. apply Hok1.
Qed.

(* ---------- size bounds ---------- *)
Fixpoint keys_sorted (a : amap) : Prop :=
  match a with
  | [] => True
  | (k, _) :: r => (forall k', In k' (map fst r) -> k < k') /\ keys_sorted r
  end.

Lemma am_set_keys a k v : forall x, In x (map fst (am_set a k v)) -> x = k \/ In x (map fst a).
Proof.
  induction a as [|[k' v'] r IH]; intros x; cbn [am_set]; [cbn; intuition congruence|].
  destruct (N.eqb_spec k' k) as [->|E]; [cbn; intuition congruence|].
  destruct (k <? k'); [cbn; intuition congruence|]. cbn [map fst In]. intros [H|H]; [auto|]. destruct (IH x H); auto.
Qed.

Lemma am_set_sorted a k v : keys_sorted a -> keys_sorted (am_set a k v).
Proof.
  induction a as [|[k' v'] r IH]; intro Hs; cbn [am_set]; [cbn; split; [contradiction|exact I]|].
  destruct Hs as [H1 H2]. destruct (N.eqb_spec k' k) as [->|E]; [split; assumption|].
  destruct (N.ltb_spec k k').
  - split; [|split; assumption]. intros x [<-|Hx]; [assumption|]. specialize (H1 x Hx). lia.
  - split; [|apply IH; exact H2]. intros x Hx. destruct (am_set_keys r k v x Hx) as [->|Hx']; [lia|auto].
Qed.

Lemma am_del_sorted a k : keys_sorted a -> keys_sorted (am_del a k).
Proof.
  induction a as [|[k' v'] r IH]; intro Hs; cbn [am_del filter fst]; [exact I|].
  destruct Hs as [H1 H2]. destruct (negb (k' =? k)); [|apply IH; exact H2].
  split; [|apply IH; exact H2]. intros x Hx. apply H1.
  unfold am_del in Hx. apply in_map_iff in Hx as ([kx vx] & <- & Hin). apply filter_In in Hin as [Hin _]. apply in_map_iff. exists (kx, vx). auto.
Qed.

Definition len_at (a : amap) (k : N) : nat := match am_get a k with Some m => length m | None => O end.

Lemma am_get_none_sorted r k : keys_sorted r -> (forall k', In k' (map fst r) -> k < k') -> am_get r k = None.
Proof.
  induction r as [|[k' v'] r IH]; intros Hs Hlt; [reflexivity|]. cbn [am_get].
  assert (k < k') by (apply Hlt; left; reflexivity). destruct (N.eqb_spec k' k); [lia|].
  destruct Hs as [H1 H2]. apply IH; [exact H2|]. intros x Hx. specialize (H1 x Hx). lia.
Qed.

Lemma am_count_set a k v : keys_sorted a ->
  (am_count (am_set a k v) + len_at a k = am_count a + length v)%nat.
Proof.
  unfold len_at. induction a as [|[k' v'] r IH]; intro Hs; cbn [am_set am_get am_count fold_right snd]; [lia|].
  destruct Hs as [H1 H2]. destruct (N.eqb_spec k' k) as [->|E].
  - cbn [am_count fold_right snd]. fold (am_count r). lia.
  - destruct (N.ltb_spec k k').
    + cbn [am_count fold_right snd]. fold (am_count r).
      rewrite (am_get_none_sorted r k H2); [lia|]. intros x Hx. specialize (H1 x Hx). lia.
    + cbn [am_count fold_right snd]. fold (am_count r) (am_count (am_set r k v)). specialize (IH H2). lia.
Qed.

Lemma am_count_del a k : keys_sorted a -> (am_count (am_del a k) + len_at a k = am_count a)%nat.
Proof.
  unfold len_at. induction a as [|[k' v'] r IH]; intro Hs; cbn [am_del filter fst am_get am_count fold_right snd]; [lia|].
  destruct Hs as [H1 H2]. destruct (N.eqb_spec k' k) as [->|E]; cbn [negb].
  - fold (am_del r k) (am_count r). 
    assert (Hn : am_get r k = None) by (apply am_get_none_sorted; assumption).
    specialize (IH H2). rewrite Hn in IH. fold (am_count (am_del r k)). lia.
  - cbn [am_count fold_right snd]. fold (am_del r k) (am_count r) (am_count (am_del r k)). specialize (IH H2). lia.
Qed.

Lemma fold_add_length ready : forall pm,
  (length (fold_left (fun m t => match sm_add m t with Some m' => m' | None => m end) ready pm) <= length pm + length ready)%nat.
Proof.
  induction ready as [|t r IH]; intro pm; cbn [fold_left length]; [lia|].
  unfold sm_add at 2. destruct (sm_get pm (t_nonce t)).
  - specialize (IH pm). lia.
  - specialize (IH (sm_insert pm t)).
    assert (Hl : forall m, length (sm_insert m t) = S (length m)).
    { induction m as [|h m' IHm]; cbn [sm_insert length]; [reflexivity|]. destruct (t_nonce t <? t_nonce h); cbn [length]; [reflexivity|]. rewrite IHm. reflexivity. }
    rewrite Hl in IH. lia.
Qed.

(* the structural invariant: keys ascending, pending within its limit *)
Definition sized (p : pool) : Prop :=
  keys_sorted (p_pending p) /\ keys_sorted (p_waiting p) /\ (am_count (p_pending p) <= p_plimit p)%nat.

Lemma add_waiting_sized p t : sized p -> sized (fst (add_waiting p t)) /\ p_plimit (fst (add_waiting p t)) = p_plimit p.
Proof.
  intros (S1 & S2 & S3). unfold add_waiting.
  destruct (Nat.leb (p_wlimit p) (am_count (p_waiting p))).
  - destruct (am_get (p_waiting p) (t_from t)) as [m|]; [|split; [split; auto|reflexivity]].
    destruct (sm_try_replace m t) as [ok m']. cbn [fst]. split; [|reflexivity].
    unfold sized. cbn [p_pending p_waiting p_plimit]. split; [exact S1|]. split; [apply am_set_sorted; exact S2|exact S3].
  - destruct (sm_add _ t) as [m'|]; cbn [fst]; [|split; [split; auto|reflexivity]]. split; [|reflexivity].
    unfold sized. cbn [p_pending p_waiting p_plimit]. split; [exact S1|]. split; [apply am_set_sorted; exact S2|exact S3].
Qed.

Lemma promote_one_sized ns p a : sized p -> sized (promote_one ns p a) /\ p_plimit (promote_one ns p a) = p_plimit p.
Proof.
  intros (S1 & S2 & S3). unfold promote_one.
  destruct (Nat.leb_spec (p_plimit p) (am_count (p_pending p))) as [Hfull|Hroom]; [split; [split; auto|reflexivity]|].
  destruct (am_get (p_waiting p) a) as [w|]; [|split; [split; auto|reflexivity]].
  destruct (sm_forward w (nonce_of ns a)) as [old w1].
  destruct (sm_ready w1 (nonce_of ns a) (p_plimit p - am_count (p_pending p))) as [ready w2] eqn:Er.
  destruct (sm_ready_spec _ _ _ _ _ Er) as (_ & Hlen & _).
  assert (Hw : keys_sorted (match w2 with [] => am_del (p_waiting p) a | _ :: _ => am_set (p_waiting p) a w2 end)).
  { destruct w2; [apply am_del_sorted|apply am_set_sorted]; exact S2. }
  destruct ready as [|t r].
  - split; [|reflexivity]. unfold sized. cbn [p_pending p_waiting p_plimit]. auto.
  - split; [|reflexivity]. unfold sized. cbn [p_pending p_waiting p_plimit]. split; [apply am_set_sorted; exact S1|]. split; [exact Hw|].
    set (pm0 := match am_get (p_pending p) a with Some m => m | None => [] end).
    pose proof (fold_add_length (t :: r) pm0) as Hfl.
    pose proof (am_count_set (p_pending p) a (fold_left (fun m t0 => match sm_add m t0 with Some m' => m' | None => m end) (t :: r) pm0) S1) as Hc.
    assert (Hl0 : len_at (p_pending p) a = length pm0) by (unfold len_at, pm0; destruct (am_get (p_pending p) a); reflexivity).
    lia.
Qed.

Lemma promote_sized ns addrs : forall p, sized p -> sized (promote ns p addrs) /\ p_plimit (promote ns p addrs) = p_plimit p.
Proof.
  unfold promote. induction addrs as [|a t IH]; intros p H; [split; [exact H|reflexivity]|]. cbn [fold_left].
  destruct (promote_one_sized ns p a H) as [H1 H2]. destruct (IH _ H1) as [I1 I2]. split; [exact I1|congruence].
Qed.

(* a submission never pushes the pending queues over their limit *)
Theorem receive_sized ns p t : sized p -> sized (fst (receive ns p t)).
Proof.
  intro Hs. unfold receive.
  destruct (existsb (N.eqb (t_id t)) (p_all p)); [exact Hs|].
  destruct (t_nonce t <? nonce_of ns (t_from t)); [exact Hs|].
  destruct (add_waiting_sized p t Hs) as [H1 H2]. destruct (add_waiting p t) as [p1 c]. cbn [fst] in *.
  destruct (c =? 1); [exact H1|]. destruct (c =? 2); [exact H1|].
  assert (H3 : sized (mkPool (p_pending p1) (p_waiting p1) (p_all p1 ++ [t_id t]) (p_ext p1) (p_plimit p1) (p_wlimit p1))) by exact H1.
  destruct (nonce_of ns (t_from t) =? t_nonce t); cbn [fst]; [apply promote_sized; exact H3|exact H3].
Qed.

(* exact duplicates are rejected and change nothing *)
Theorem duplicate_rejected ns p t : existsb (N.eqb (t_id t)) (p_all p) = true -> receive ns p t = (p, 1).
Proof. intro H. unfold receive. rewrite H. reflexivity. Qed.

Lemma demote_fold_sized l : forall q, sized q ->
  let q' := fold_left (fun q t => let '(q', c) := add_waiting q t in
                          if c =? 0 then q'
                          else mkPool (p_pending q') (p_waiting q') (all_del (p_all q') [t_id t]) (p_ext q') (p_plimit q') (p_wlimit q')) l q in
  sized q' /\ p_plimit q' = p_plimit q.
Proof.
  induction l as [|t r IH]; intros q Hs; [split; [exact Hs|reflexivity]|]. cbn [fold_left].
  destruct (add_waiting_sized q t Hs) as [H1 H2]. destruct (add_waiting q t) as [q1 c]. cbn [fst] in *.
  destruct (c =? 0).
  - destruct (IH q1 H1) as [I1 I2]. split; [exact I1|congruence].
  - assert (H3 : sized (mkPool (p_pending q1) (p_waiting q1) (all_del (p_all q1) [t_id t]) (p_ext q1) (p_plimit q1) (p_wlimit q1))) by exact H1.
    destruct (IH _ H3) as [I1 I2]. split; [exact I1|]. cbn [p_plimit] in I2. congruence.
Qed.

Lemma demote_one_sized ns p a : sized p -> sized (demote_one ns p a) /\ p_plimit (demote_one ns p a) = p_plimit p.
Proof.
  intros (S1 & S2 & S3). unfold demote_one.
  destruct (am_get (p_pending p) a) as [m|] eqn:Em; [|split; [split; auto|reflexivity]].
  destruct (sm_forward m (nonce_of ns a)) as [old m1] eqn:Ef.
  assert (Hlen : (length m1 <= length m)%nat).
  { assert (m1 = snd (sm_forward m (nonce_of ns a))) by (rewrite Ef; reflexivity). subst m1. unfold sm_forward. cbn [snd]. apply filter_length_le. }
  assert (Hla : len_at (p_pending p) a = length m) by (unfold len_at; rewrite Em; reflexivity).
  pose proof (am_count_del (p_pending p) a S1) as Hdel.
  assert (Hdelsized : forall al, sized (mkPool (am_del (p_pending p) a) (p_waiting p) al (p_ext p) (p_plimit p) (p_wlimit p))).
  { intro al. unfold sized. cbn [p_pending p_waiting p_plimit]. split; [apply am_del_sorted; exact S1|]. split; [exact S2|lia]. }
  destruct m1 as [|h m1'].
  - split; [apply Hdelsized|reflexivity].
  - destruct (sm_get (h :: m1') (nonce_of ns a)).
    + split; [|reflexivity]. unfold sized. cbn [p_pending p_waiting p_plimit]. split; [apply am_set_sorted; exact S1|]. split; [exact S2|].
      pose proof (am_count_set (p_pending p) a (h :: m1') S1). lia.
    + destruct (demote_fold_sized (h :: m1') _ (Hdelsized (all_del (p_all p) (map t_id old)))) as [I1 I2].
      split; [exact I1|]. rewrite I2. reflexivity.
Qed.

Theorem update_to_state_sized ns p : sized p -> sized (update_to_state ns p).
Proof.
  intro Hs. unfold update_to_state.
  assert (H : forall keys q, sized q -> sized (fold_left (demote_one ns) keys q)).
  { induction keys as [|k t IH]; intros q Hq; [exact Hq|]. cbn [fold_left]. apply IH. apply demote_one_sized. exact Hq. }
  apply promote_sized. apply H. exact Hs.
Qed.

(* ---------- what a reap offers ---------- *)
Lemma is_run_nodup n m : is_run n m -> NoDup (map t_nonce m).
Proof.
  revert n; induction m as [|t r IH]; intros n H; cbn; [constructor|].
  destruct H as [H1 H2]. constructor; [|eapply IH; eauto].
  intro Hin. apply in_map_iff in Hin as (u & Hu & Hin). pose proof (is_run_ge _ _ H2 u Hin). lia.
Qed.

(* every account's offered transactions carry strictly consecutive nonces starting at the
   account's state nonce (hence no two with the same account and nonce) *)
Theorem reap_order ns p a m : pending_ok ns p -> In (a, m) (snd (reap_all p)) -> keys_sorted (p_pending p) ->
  m <> [] /\ is_run (nonce_of ns a) m /\ NoDup (map t_nonce m).
Proof.
  intros Hok Hin Hs. cbn [reap_all snd] in Hin.
  assert (Hg : am_get (p_pending p) a = Some m).
  { clear Hok. induction (p_pending p) as [|[k v] r IH]; [contradiction|]. destruct Hs as [H1 H2]. cbn [am_get].
    destruct Hin as [E|Hin]; [injection E as -> ->; rewrite N.eqb_refl; reflexivity|].
    destruct (N.eqb_spec k a) as [->|E].
    - exfalso. assert (a < a); [|lia]. apply H1. apply in_map_iff. exists (a, m). auto.
    - apply IH; assumption. }
  specialize (Hok a). unfold ok_at in Hok. rewrite Hg in Hok. destruct Hok as [H1 H2].
  split; [exact H1|]. split; [exact H2|]. eapply is_run_nodup; eauto.
Qed.

(* ---------- reachable pools ---------- *)
Inductive pop :=
| PSubmit (t : tx) | PAdmin (id : N) | PUpdate (ids : list N) | PCommit (ns' : nonces) | PFlush.

(* the nonces in force: they change only at a commit, which is followed by updateToState *)
Definition pstep (st : nonces * pool) (o : pop) : nonces * pool :=
  let '(ns, p) := st in
  match o with
  | PSubmit t => (ns, fst (receive ns p t))
  | PAdmin id => (ns, fst (receive_admin p id))
  | PUpdate ids => (ns, update p ids)
  | PCommit ns' => (ns', update_to_state ns' p)
  | PFlush => (ns, flush p)
  end.
Definition prun (pl wl : nat) (ns0 : nonces) (ops : list pop) : nonces * pool := fold_left pstep ops (ns0, new_pool pl wl).

Theorem reachable_pool pl wl ns0 ops :
  let '(ns, p) := prun pl wl ns0 ops in pending_ok ns p /\ sized p.
Proof.
  unfold prun.
  assert (H : forall ops st, (pending_ok (fst st) (snd st) /\ sized (snd st)) ->
              pending_ok (fst (fold_left pstep ops st)) (snd (fold_left pstep ops st)) /\ sized (snd (fold_left pstep ops st))).
  { induction ops0 as [|o t IH]; intros st Hst; [exact Hst|]. cbn [fold_left]. apply IH.
    destruct st as [ns p]. destruct Hst as [H1 H2]. cbn [fst snd] in *. destruct o; cbn [pstep fst snd].
    - split; [apply receive_ok; exact H1|apply receive_sized; exact H2].
    - unfold receive_admin. destruct (existsb _ _); cbn [fst]; [split; assumption|]. split; [exact H1|exact H2].
    - split; [exact H1|exact H2].
    - split; [apply update_to_state_ok; eapply pending_ok_runs; eauto|apply update_to_state_sized; exact H2].
    - split; [intro a; exact I|]. unfold sized. cbn. auto using Nat.le_0_l. }
  specialize (H ops (ns0, new_pool pl wl)). cbn [fst snd] in H.
  destruct (fold_left pstep ops (ns0, new_pool pl wl)) as [ns p]. apply H.
  split; [intro a; exact I|]. unfold sized. cbn. auto using Nat.le_0_l.
Qed.

(* ---------- gemmill/mempool ---------- *)
Definition mem_inv (m : mempool) : Prop := NoDup (m_txs m) /\ (forall x, In x (m_txs m) -> In x (m_cache m)).

Lemma existsb_in x l : existsb (N.eqb x) l = true <-> In x l.
Proof. rewrite existsb_exists. split; [intros (y & Hy & E); apply N.eqb_eq in E; subst; exact Hy|intro H; exists x; split; [exact H|apply N.eqb_refl]]. Qed.

Lemma all_del_in l ids x : In x (all_del l ids) <-> In x l /\ ~ In x ids.
Proof.
  unfold all_del. rewrite filter_In. split; intros [H1 H2]; split; auto.
  - intro Hi. apply existsb_in in Hi. rewrite Hi in H2. discriminate.
  - destruct (existsb (N.eqb x) ids) eqn:E; [apply existsb_in in E; contradiction|reflexivity].
Qed.

Lemma NoDup_snoc {A} (l : list A) x : NoDup l -> ~ In x l -> NoDup (l ++ [x]).
Proof.
  induction 1 as [|y l Hy Hn IH]; intro Hx; cbn; [repeat constructor; auto|].
  constructor; [|apply IH; intro; apply Hx; right; assumption].
  intro Hin. apply in_app_or in Hin as [Hin|[<-|[]]]; [contradiction|apply Hx; left; reflexivity].
Qed.

Lemma mem_receive_inv m id : mem_inv m -> mem_inv (fst (mem_receive m id)).
Proof.
  intros [H1 H2]. unfold mem_receive. destruct (existsb (N.eqb id) (m_cache m)) eqn:E; [split; assumption|].
  cbn [fst m_txs m_cache]. split.
  - apply NoDup_snoc; [exact H1|]. intro Hx. apply H2 in Hx. apply existsb_in in Hx. congruence.
  - intros x Hx. apply in_app_or in Hx as [Hx|Hx]; apply in_or_app; [left; auto|right; exact Hx].
Qed.

Lemma NoDup_filter {A} (f : A -> bool) l : NoDup l -> NoDup (filter f l).
Proof.
  induction 1 as [|x l Hx Hn IH]; cbn; [constructor|]. destruct (f x); [|exact IH].
  constructor; [|exact IH]. intro Hin. apply filter_In in Hin as [Hin _]. contradiction.
Qed.

Lemma mem_update_inv m ids : mem_inv m -> mem_inv (mem_update m ids).
Proof.
  intros [H1 H2]. unfold mem_update. cbn [m_txs m_cache]. split.
  - unfold all_del. apply NoDup_filter. exact H1.
  - intros x Hx. apply all_del_in in Hx as [Hx Hn]. apply all_del_in. split; auto.
Qed.

(* a reap offers transactions in submission order without repetition, and a committed
   transaction leaves the list *)
Theorem mem_reap_nodup m n : mem_inv m -> NoDup (mem_reap m n).
Proof.
  intros [H1 _]. unfold mem_reap. destruct (n =? 0)%Z; [constructor|]. destruct (n <? 0)%Z; [exact H1|].
  clear -H1. revert H1. generalize (Z.to_nat n) as k. intros k. revert k. induction (m_txs m) as [|x l IH]; intros [|k] Hn; cbn; try constructor.
  - inversion Hn; subst. intro Hin. apply H1. clear -Hin. revert k Hin. induction l as [|y l IHl]; intros [|k] Hin; cbn in *; try contradiction. destruct Hin; [left; auto|right; eauto].
  - inversion Hn; subst. apply IH. assumption.
Qed.
Theorem mem_committed_removed m ids x : In x ids -> ~ In x (m_txs (mem_update m ids)).
Proof. intros Hi Hx. cbn in Hx. apply all_del_in in Hx as [_ Hn]. contradiction. Qed.
