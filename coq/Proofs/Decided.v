(* A decided node stays decided (repair F-12a).  Once a node of Model/Node.v is in the commit step -
   it holds +2/3 precommits for a block and may still wait for the block - no input takes it out
   of that step within the height: proposals, parts and votes of any round, and the timeouts of
   rounds it has reached.  Before the repair +2/3 of any prevotes (or precommits, or nil
   precommits) of a later round did, and the part set of the decided block was lost. *)
From Coq Require Import List NArith ZArith Bool Lia.
From AnnVerif Require Import Base.Res Base.Bytes Model.VoteSet Model.ValSet Model.Node
  Proofs.NodeProofs Proofs.Emit.
Import ListNotations.
Open Scope Z_scope.

Lemma finalize_same c h n n' o : finalize_commit c h n = Ok (n', o) -> height n' = height n -> n' = n.
Proof.
  unfold finalize_commit. destruct (_ || _) eqn:Eg; [intro E; injection E as <- _; auto|].
  destruct (maj23 _) as [b|]; [|discriminate].
  destruct (negb (has_header _ _ _)); [discriminate|]. destruct (negb (hashes_to _ _)); [discriminate|].
  destruct (pblock n) as [pb|]; [|discriminate]. destruct (negb (bk_valid pb)); [discriminate|].
  destruct (increment (st_vals n) 1) as [nv| |]; try discriminate.
  destruct (new_hvs (h + 1) (vals_of nv)) as [hv| |]; try discriminate.
  intro E. injection E as <- _. apply orb_false_elim in Eg as [Eh _]. apply negb_false_iff, Z.eqb_eq in Eh.
  cbn. lia.
Qed.

Lemma try_finalize_same c h n n' o : try_finalize_commit c h n = Ok (n', o) -> height n' = height n -> n' = n.
Proof.
  unfold try_finalize_commit. destruct (negb _); [discriminate|].
  destruct (maj23 _) as [b|]; [|intro E; injection E as <- _; auto].
  destruct (b_hash b); [intro E; injection E as <- _; auto|].
  destruct (hashes_to _ _); [apply finalize_same|intro E; injection E as <- _; auto].
Qed.

Lemma enter_commit_decided c h cr n n' o : enter_commit c h cr n = Ok (n', o) -> height n = h -> height n' = height n ->
  8 <= step n'.
Proof.
  unfold enter_commit. intros E Hn. revert E. destruct (_ || _) eqn:Eg.
  - intros E _. injection E as <- _. rewrite Hn, Z.eqb_refl in Eg. cbn [negb orb] in Eg. apply Z.leb_le in Eg. exact Eg.
  - destruct (maj23 _) as [b|]; [|discriminate].
    set (n1 := if hashes_to (lblock n) (b_hash b) then set_prop n (proposal n) (lblock n) (option_map pset_of_blk (lblock n)) else n).
    destruct (if hashes_to (pblock n1) (b_hash b) then Ok n1
              else if has_header (pparts n1) (b_total b) (b_phash b) then Ok n1
              else match new_pset (b_total b) (b_phash b) with
                   | Ok ps => Ok (set_prop n1 (proposal n1) None (Some ps)) | Err e => Err e | Panic w => Panic w end) as [n2| |] eqn:E2; try discriminate.
    intros E Hh.
    assert (H2 : height n2 = height n).
    { assert (H1 : height n1 = height n) by (unfold n1; destruct (hashes_to _ _); reflexivity).
      destruct (hashes_to (pblock n1) (b_hash b)); [injection E2 as <-; exact H1|].
      destruct (has_header _ _ _); [injection E2 as <-; exact H1|].
      destruct (new_pset _ _) as [ps| |]; try discriminate. injection E2 as <-. exact H1. }
    apply try_finalize_same in E; [|cbn; congruence]. subst n'. cbn. lia.
Qed.

Lemma enr_noop h r n n' o : enter_new_round h r n = Ok (n', o) -> r <= round n -> 8 <= step n -> n' = n.
Proof.
  unfold enter_new_round. intros E Hr Hs.
  replace (negb (height n =? h) || (r <? round n) || ((round n =? r) && negb (step n =? 1))) with true in E;
    [injection E as <- _; reflexivity|].
  symmetry. destruct (height n =? h); [|reflexivity]. cbn [negb orb].
  destruct (Z.ltb_spec r (round n)); [reflexivity|]. cbn [orb].
  replace (round n =? r) with true by (symmetry; apply Z.eqb_eq; lia).
  replace (step n =? 1) with false by (symmetry; apply Z.eqb_neq; lia). reflexivity.
Qed.

Lemma enter_prevote_noop h n n' o : enter_prevote h (round n) n = Ok (n', o) -> 8 <= step n -> n' = n.
Proof.
  unfold enter_prevote. intros E Hs.
  replace (negb (height n =? h) || (round n <? round n) || ((round n =? round n) && (4 <=? step n))) with true in E;
    [injection E as <- _; reflexivity|].
  symmetry. rewrite Z.eqb_refl. replace (4 <=? step n) with true by (symmetry; apply Z.leb_le; lia).
  cbn [andb]. rewrite orb_true_r. reflexivity.
Qed.

Definition decided (n : node) : Prop := 8 <= step n.

Lemma decided_add_vote_cs c v peer n n' o : c_skip_commit c = false -> decided n ->
  add_vote_cs c v peer n = Ok (n', o) -> height n' = height n -> decided n'.
Proof.
  unfold decided. intros Hskip Hd. unfold add_vote_cs.
  destruct (v_height v + 1 =? height n).
  { destruct (negb _); [intros E _; injection E as <- _; exact Hd|].
    destruct (last_commit n) as [lc|]; [|intros E _; injection E as <- _; exact Hd].
    destruct (add_vote lc v) as [[[lc' added] code]| |]; try discriminate.
    replace (added && c_skip_commit c && has_all lc') with false by (rewrite Hskip; destruct added; reflexivity).
    intros E _. apply bind_ok in E as (n2 & o1 & o2 & E1 & E2 & _). injection E1 as <- _.
    destruct (N.eqb code 0); injection E2 as <- _; exact Hd. }
  destruct (v_height v =? height n); [|intros E _; injection E as <- _; exact Hd].
  destruct (hv_add_vote (votes n) v peer) as [[[hv added] code]| |]; try discriminate.
  intros E Hh. apply bind_ok in E as (n5 & o1 & o2 & E1 & E2 & _).
  assert (Hlast : n' = n5) by (destruct (N.eqb code 0); injection E2 as <- _; reflexivity).
  subst n'. clear E2.
  set (n1 := set_votes n hv) in *.
  revert E1. destruct (negb added); [intro E1; injection E1 as <- _; exact Hd|intro E1].
  assert (Hopen : (step n <? 8) = false) by (apply Z.ltb_ge; exact Hd).
  revert E1. destruct (N.eqb (v_type v) 1); intro E1.
  - match type of E1 with context [enter_new_round _ _ ?m] => set (n2 := m) in * end.
    assert (H2 : step n2 = step n /\ round n2 = round n).
    { unfold n2. destruct (lblock n1); [|auto]. destruct (_ && _); [|auto]. destruct (maj23 _); [|auto]. destruct (negb _); auto. }
    destruct H2 as [Hs2 Hr2]. clearbody n2.
    unfold any23_open in E1. rewrite Hs2, Hopen in E1. cbn [andb] in E1. rewrite andb_false_r in E1. lazy iota in E1.
    revert E1. destruct (proposal n2) as [p|]; [|intro E1; injection E1 as <- _; lia].
    destruct (_ && _); [|intro E1; injection E1 as <- _; lia].
    destruct (is_proposal_complete n2) as [[|]| |]; try discriminate; intro E1; [|injection E1 as <- _; lia].
    apply enter_prevote_noop in E1; [subst n5; lia|lia].
  - revert E1. unfold any23_open, enter_new_round_open. change (step n1) with (step n). rewrite Hopen. cbn [andb].
    rewrite andb_false_r. lazy iota.
    destruct (N.eqb (v_type v) 2); [|discriminate].
    destruct (maj23 (hv_precommits (votes n1) (v_round v))) as [b|]; [|intro E1; injection E1 as <- _; exact Hd].
    destruct (b_hash b); [intro E1; injection E1 as <- _; exact Hd|].
    intro E1. apply bind_ok in E1 as (n4 & oa & ob & Ea1 & Ea2 & _).
    rewrite Hskip in Ea2. cbn [andb] in Ea2. injection Ea2 as <- _.
    apply bind_ok in Ea1 as (n3 & oc & od & Eb1 & Eb2 & _).
    apply bind_ok in Eb1 as (n2 & oe & of & Ec1 & Ec2 & _).
    pose proof (kh_enter_new_round _ _ _ _ _ Ec1) as K2. pose proof (kh_enter_precommit _ _ _ _ _ Ec2) as K3.
    assert (H3 : height n3 = height n) by (rewrite K3, K2; reflexivity).
    apply (enter_commit_decided _ _ _ _ _ _ Eb2); [exact H3|rewrite H3; exact Hh].
Qed.

Theorem decided_stays c i n n' o : c_skip_commit c = false -> decided n ->
  (forall h r s, i = ITimeout h r s -> r <= round n) ->
  handle c i n = Ok (n', o) -> height n' = height n -> decided n'.
Proof.
  unfold decided. intros Hskip Hd Ht. destruct i as [p sgn peer|h r idx b ok peer|v peer|h r s]; cbn [handle].
  - unfold set_proposal. destruct (proposal n); [intros E _; injection E as <- _; exact Hd|].
    destruct (_ || _); [intros E _; injection E as <- _; exact Hd|].
    replace (8 <=? step n) with true by (symmetry; apply Z.leb_le; exact Hd).
    intros E _. injection E as <- _. exact Hd.
  - unfold add_part. destruct (negb _); [intros E _; injection E as <- _; exact Hd|].
    destruct (pparts n) as [ps|]; [|intros E _; injection E as <- _; exact Hd].
    destruct (_ || _); [intros E _; injection E as <- _; exact Hd|].
    destruct (existsb _ _); [intros E _; injection E as <- _; exact Hd|].
    destruct (_ && _); [intros E _; injection E as <- _; exact Hd|].
    destruct (_ =? _); [|intros E _; injection E as <- _; exact Hd].
    intros E Hh. apply bind_ok in E as (n3 & o1 & o2 & E1 & E2 & _).
    assert (Hn3 : n' = n3) by (destruct ok; injection E2 as <- _; reflexivity). subst n'. clear E2.
    revert E1. cbn [step set_prop].
    replace (step n =? 3) with false by (symmetry; apply Z.eqb_neq; lia).
    destruct (step n =? 8); [|intro E1; injection E1 as <- _; exact Hd].
    intro E1. apply try_finalize_same in E1; [subst n3; exact Hd|exact Hh].
  - apply decided_add_vote_cs; assumption.
  - specialize (Ht h r s eq_refl). unfold handle_timeout.
    destruct (negb (h =? height n) || (r <? round n) || ((r =? round n) && (s <? step n))) eqn:Eg;
      [intros E _; injection E as <- _; exact Hd|].
    (* not ignored: a timeout of the node's own round that names a step from the commit step on - no such timeout exists *)
    apply orb_false_elim in Eg as [Eg1 Eg2]. apply orb_false_elim in Eg1 as [_ Eg1]. apply Z.ltb_ge in Eg1.
    assert (Hr : r = round n) by lia. subst r. rewrite Z.eqb_refl in Eg2. cbn [andb] in Eg2. apply Z.ltb_ge in Eg2.
    replace (s =? 1) with false by (symmetry; apply Z.eqb_neq; lia).
    replace (s =? 3) with false by (symmetry; apply Z.eqb_neq; lia).
    replace (s =? 5) with false by (symmetry; apply Z.eqb_neq; lia).
    replace (s =? 7) with false by (symmetry; apply Z.eqb_neq; lia). discriminate.
Qed.

