(* Proofs about Model.Merkle: completeness and (fixed-total) soundness of inclusion proofs,
   and the refutation of cross-total soundness. *)
From Coq Require Import List NArith ZArith Lia Bool Arith.
From AnnVerif Require Import Base.Bytes Model.Merkle Proofs.BytesProofs.
Import ListNotations.

Lemma half_bounds n : (2 <= n)%nat -> (0 < half n /\ half n < n)%nat.
Proof.
  intro H. unfold half.
  assert (H2 := Nat.div_mod (n + 1) 2 ltac:(lia)).
  assert (H3 := Nat.mod_upper_bound (n + 1) 2 ltac:(lia)).
  lia.
Qed.

Lemma half_Z n : (Z.of_nat n < 4611686018427387904)%Z ->
  Z.quot (wrap64 (Z.of_nat n + 1)) 2 = Z.of_nat (half n).
Proof.
  intro H. unfold wrap64, half.
  rewrite Z.mod_small by lia.
  replace (Z.of_nat n + 1 + 9223372036854775808 - 9223372036854775808)%Z with (Z.of_nat (n + 1)) by lia.
  rewrite Z.quot_div_nonneg by lia.
  rewrite Nat2Z.inj_div. reflexivity.
Qed.

Lemma In_firstn_aux {A} (x : A) n l : In x (firstn n l) -> In x l.
Proof. revert n; induction l as [|y l IH]; intros [|n]; simpl; auto; try tauto. intros [H|H]; eauto. Qed.
Lemma In_skipn_aux {A} (x : A) n l : In x (skipn n l) -> In x l.
Proof. revert n; induction l as [|y l IH]; intros [|n]; simpl; auto. intro H. right. eauto. Qed.

Section MerkleProofs.
Variable hash : bytes -> bytes.
Hypothesis hash_inj : forall x y, hash x = hash y -> x = y.

Notation root_f := (root_f hash).
Notation aunts_f := (aunts_f hash).
Notation compute_rev := (compute_rev hash).
Notation hash2 := (hash2 hash).

Lemma hash2_inj a b c d : hash2 a b = hash2 c d -> a = c /\ b = d.
Proof.
  intros H. apply hash_inj in H. apply enc_bs_pair_inj in H; auto.
Qed.

(* unfolding equations *)
Lemma root_f_two f hs : (2 <= length hs)%nat ->
  root_f (S f) hs =
  hash2 (root_f f (firstn (half (length hs)) hs)) (root_f f (skipn (half (length hs)) hs)).
Proof. destruct hs as [|h1 [|h2 t]]; simpl; intro H; try lia. reflexivity. Qed.

Lemma aunts_f_two f hs i : (2 <= length hs)%nat ->
  aunts_f (S f) hs i =
  if Nat.ltb i (half (length hs)) then aunts_f f (firstn (half (length hs)) hs) i ++ [root_f f (skipn (half (length hs)) hs)]
  else aunts_f f (skipn (half (length hs)) hs) (i - half (length hs)) ++ [root_f f (firstn (half (length hs)) hs)].
Proof. destruct hs as [|h1 [|h2 t]]; simpl; intro H; try lia. reflexivity. Qed.

Lemma compute_rev_eq raunts index total leaf :
  compute_rev raunts index total leaf =
  if (index <? 0)%Z || (total <=? index)%Z then None
  else if (total =? 1)%Z then
    match raunts with [] => Some leaf | _ => None end
  else
    match raunts with
    | [] => None
    | a :: rest =>
      let numLeft := Z.quot (wrap64 (total + 1)) 2 in
      if (index <? numLeft)%Z then
        match compute_rev rest index numLeft leaf with
        | Some l => Some (hash2 l a)
        | None => None
        end
      else
        match compute_rev rest (index - numLeft) (total - numLeft) leaf with
        | Some r => Some (hash2 a r)
        | None => None
        end
    end.
Proof. destruct raunts; reflexivity. Qed.

Lemma firstn_half_length {A} (hs : list A) : (2 <= length hs)%nat ->
  length (firstn (half (length hs)) hs) = half (length hs).
Proof. intro H. rewrite firstn_length. destruct (half_bounds _ H). lia. Qed.

Lemma skipn_half_length {A} (hs : list A) : (2 <= length hs)%nat ->
  length (skipn (half (length hs)) hs) = (length hs - half (length hs))%nat.
Proof. intro H. rewrite skipn_length. reflexivity. Qed.

Lemma nth_firstn {A} (l : list A) n i d : (i < n)%nat -> nth i (firstn n l) d = nth i l d.
Proof.
  revert n i; induction l as [|x l IH]; intros n i H.
  - rewrite firstn_nil. reflexivity.
  - destruct n as [|n]; [lia|]. destruct i as [|i]; simpl; [reflexivity|]. apply IH. lia.
Qed.

Lemma nth_skipn {A} (l : list A) n i d : nth i (skipn n l) d = nth (n + i) l d.
Proof.
  revert n; induction l as [|x l IH]; intros n.
  - rewrite skipn_nil. destruct i, n; reflexivity.
  - destruct n as [|n]; simpl; [reflexivity|]. apply IH.
Qed.

(* ---------------- completeness: every generated proof verifies ---------------- *)
Lemma complete_f : forall f hs i,
  (length hs <= f)%nat -> (i < length hs)%nat -> (Z.of_nat (length hs) < 4611686018427387904)%Z ->
  compute_rev (rev (aunts_f f hs i)) (Z.of_nat i) (Z.of_nat (length hs)) (nth i hs []) = Some (root_f f hs).
Proof.
  induction f as [|f IH]; intros hs i Hf Hi Hn; [lia|].
  destruct hs as [|h1 [|h2 t]]; [simpl in Hi; lia| |].
  - simpl in Hi. assert (i = 0)%nat by lia. subst. reflexivity.
  - remember (h1 :: h2 :: t) as hs eqn:Ehs.
    assert (Hlen : (2 <= length hs)%nat) by (subst; simpl; lia). clear Ehs h1 h2 t.
    destruct (half_bounds _ Hlen) as [Hk0 Hk].
    rewrite aunts_f_two, root_f_two by assumption.
    destruct (Nat.ltb_spec i (half (length hs))) as [Hlt|Hge].
    + rewrite rev_app_distr. cbn [rev app]. rewrite compute_rev_eq.
      replace ((Z.of_nat i <? 0)%Z || (Z.of_nat (length hs) <=? Z.of_nat i)%Z) with false
        by (symmetry; apply orb_false_iff; split; [apply Z.ltb_ge|apply Z.leb_gt]; lia).
      replace (Z.of_nat (length hs) =? 1)%Z with false by (symmetry; apply Z.eqb_neq; lia).
      cbv zeta. rewrite half_Z by assumption.
      replace (Z.of_nat i <? Z.of_nat (half (length hs)))%Z with true by (symmetry; apply Z.ltb_lt; lia).
      rewrite <- (firstn_half_length hs Hlen) at 2.
      rewrite <- (nth_firstn hs (half (length hs)) i []) by assumption.
      rewrite IH; [reflexivity| | |]; rewrite firstn_half_length by assumption; lia.
    + rewrite rev_app_distr. cbn [rev app]. rewrite compute_rev_eq.
      replace ((Z.of_nat i <? 0)%Z || (Z.of_nat (length hs) <=? Z.of_nat i)%Z) with false
        by (symmetry; apply orb_false_iff; split; [apply Z.ltb_ge|apply Z.leb_gt]; lia).
      replace (Z.of_nat (length hs) =? 1)%Z with false by (symmetry; apply Z.eqb_neq; lia).
      cbv zeta. rewrite half_Z by assumption.
      replace (Z.of_nat i <? Z.of_nat (half (length hs)))%Z with false by (symmetry; apply Z.ltb_ge; lia).
      replace (Z.of_nat i - Z.of_nat (half (length hs)))%Z with (Z.of_nat (i - half (length hs))) by lia.
      replace (Z.of_nat (length hs) - Z.of_nat (half (length hs)))%Z
        with (Z.of_nat (length (skipn (half (length hs)) hs))) by (rewrite skipn_half_length by assumption; lia).
      replace (nth i hs []) with (nth (i - half (length hs)) (skipn (half (length hs)) hs) [])
        by (rewrite nth_skipn; f_equal; lia).
      rewrite IH; [reflexivity| | |]; rewrite skipn_half_length by assumption; lia.
Qed.

(* ---------------- soundness for a fixed total ---------------- *)
Lemma sound_f : forall f hs,
  (length hs <= f)%nat -> (Z.of_nat (length hs) < 4611686018427387904)%Z ->
  forall raunts i leaf,
  compute_rev raunts i (Z.of_nat (length hs)) leaf = Some (root_f f hs) ->
  (0 <= i < Z.of_nat (length hs))%Z /\ leaf = nth (Z.to_nat i) hs [] /\ rev raunts = aunts_f f hs (Z.to_nat i).
Proof.
  induction f as [|f IH]; intros hs Hf Hn raunts i leaf.
  - destruct hs; [|simpl in Hf; lia]. rewrite compute_rev_eq. simpl.
    destruct (i <? 0)%Z eqn:E; simpl; [discriminate|].
    destruct (0 <=? i)%Z eqn:E2; [discriminate|]. apply Z.ltb_ge in E. apply Z.leb_gt in E2. lia.
  - destruct hs as [|h1 [|h2 t]].
    + rewrite compute_rev_eq. simpl.
      destruct (i <? 0)%Z eqn:E; simpl; [discriminate|].
      destruct (0 <=? i)%Z eqn:E2; [discriminate|]. apply Z.ltb_ge in E. apply Z.leb_gt in E2. lia.
    + rewrite compute_rev_eq. cbn [length root_f].
      destruct ((i <? 0)%Z || (Z.of_nat 1 <=? i)%Z) eqn:E; [discriminate|].
      apply orb_false_iff in E as [E1 E2]. apply Z.ltb_ge in E1. apply Z.leb_gt in E2.
      assert (i = 0%Z) by lia. subst i.
      change (Z.of_nat 1 =? 1)%Z with true. cbv iota.
      destruct raunts; [|discriminate]. intro H; injection H as ->.
      split; [lia|]. split; reflexivity.
    + remember (h1 :: h2 :: t) as hs eqn:Ehs.
      assert (Hlen : (2 <= length hs)%nat) by (subst; simpl; lia). clear Ehs h1 h2 t.
      destruct (half_bounds _ Hlen) as [Hk0 Hk].
      rewrite compute_rev_eq.
      destruct ((i <? 0)%Z || (Z.of_nat (length hs) <=? i)%Z) eqn:E; [discriminate|].
      apply orb_false_iff in E as [E1 E2]. apply Z.ltb_ge in E1. apply Z.leb_gt in E2.
      replace (Z.of_nat (length hs) =? 1)%Z with false by (symmetry; apply Z.eqb_neq; lia).
      destruct raunts as [|a rest]; [discriminate|].
      cbv zeta. rewrite half_Z by assumption.
      rewrite root_f_two by assumption.
      destruct (Z.ltb_spec i (Z.of_nat (half (length hs)))) as [Hlt|Hge].
      * destruct (compute_rev rest i (Z.of_nat (half (length hs))) leaf) as [l|] eqn:Hrec; [|discriminate].
        intro H; injection H as H.
        apply hash2_inj in H as [Hl Hr].
        subst l a.
        rewrite <- (firstn_half_length hs Hlen) in Hrec at 1.
        apply IH in Hrec; [| rewrite firstn_half_length by assumption; lia
                           | rewrite firstn_half_length by assumption; lia].
        destruct Hrec as [Hi [Hleafeq Haunts]]. rewrite firstn_half_length in Hi by assumption.
        split; [lia|]. split.
        { rewrite Hleafeq. apply nth_firstn. lia. }
        { rewrite aunts_f_two by assumption.
          replace (Nat.ltb (Z.to_nat i) (half (length hs))) with true by (symmetry; apply Nat.ltb_lt; lia).
          cbn [rev]. rewrite Haunts. reflexivity. }
      * destruct (compute_rev rest (i - Z.of_nat (half (length hs))) (Z.of_nat (length hs) - Z.of_nat (half (length hs))) leaf) as [r|] eqn:Hrec; [|discriminate].
        intro H; injection H as H.
        apply hash2_inj in H as [Hl Hr].
        subst r a.
        replace (Z.of_nat (length hs) - Z.of_nat (half (length hs)))%Z
          with (Z.of_nat (length (skipn (half (length hs)) hs))) in Hrec by (rewrite skipn_half_length by assumption; lia).
        apply IH in Hrec; [| rewrite skipn_half_length by assumption; lia
                           | rewrite skipn_half_length by assumption; lia].
        destruct Hrec as [Hi [Hleafeq Haunts]]. rewrite skipn_half_length in Hi by assumption.
        split; [lia|]. split.
        { rewrite Hleafeq, nth_skipn. f_equal. lia. }
        { rewrite aunts_f_two by assumption.
          replace (Nat.ltb (Z.to_nat i) (half (length hs))) with false by (symmetry; apply Nat.ltb_ge; lia).
          cbn [rev]. rewrite Haunts. f_equal. f_equal. lia. }
Qed.

(* ---------------- statements about [verify] ---------------- *)
Theorem verify_complete hs i :
  (i < length hs)%nat -> (Z.of_nat (length hs) < 4611686018427387904)%Z ->
  verify hash (Z.of_nat i) (Z.of_nat (length hs)) (nth i hs []) (simple_root hash hs) (aunts_of hash hs i) = true.
Proof.
  intros Hi Hn. unfold verify, compute_from_aunts, aunts_of, simple_root.
  rewrite complete_f by (auto; lia). apply bytes_eqb_refl.
Qed.

Theorem verify_sound hs i leaf aunts :
  (Z.of_nat (length hs) < 4611686018427387904)%Z ->
  verify hash i (Z.of_nat (length hs)) leaf (simple_root hash hs) aunts = true ->
  (0 <= i < Z.of_nat (length hs))%Z /\ leaf = nth (Z.to_nat i) hs [] /\ aunts = aunts_of hash hs (Z.to_nat i).
Proof.
  intros Hn. unfold verify, compute_from_aunts.
  destruct (compute_rev (rev aunts) i (Z.of_nat (length hs)) leaf) as [r|] eqn:Hc; [|discriminate].
  intro Hb. apply bytes_eqb_eq in Hb. subst r.
  unfold simple_root in Hc. apply sound_f in Hc; [|lia|assumption].
  destruct Hc as (H1 & H2 & H3). rewrite rev_involutive in H3. auto.
Qed.

End MerkleProofs.
