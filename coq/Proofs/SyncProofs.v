(* Proofs about Model/Sync.v: whatever peers send, in whatever order, and whenever the sync loop
   runs, the applied blocks are exactly heights 1, 2, .. in order and each of them is justified by
   a commit that VerifyCommit accepts under the validator set - hence (C15) by validly signed
   precommits for exactly that block from more than two thirds of the voting power. *)
From Coq Require Import List NArith ZArith Bool Lia.
From AnnVerif Require Import Base.Res Base.Bytes Model.VoteSet Model.Sync Proofs.PowerSum Proofs.VoteSetProofs.
Import ListNotations.
Open Scope Z_scope.

Fixpoint store_ok (vals : list validator) (st : list sblock) (h : Z) : Prop :=
  match st with
  | [] => h = 1
  | b :: t => sb_height b = h - 1 /\ (exists c, verify_commit vals (sb_id b) (h - 1) c = Ok tt) /\
              store_ok vals t (h - 1)
  end.

Definition pool_ok (p : list (Z * (N * sblock))) : Prop :=
  forall k x, In (k, x) p -> sb_height (snd x) = k.

Definition inv (s : sync) : Prop := pool_ok (s_pool s) /\ store_ok (s_vals s) (s_store s) (s_height s).

Lemma pool_get_in p h x : pool_get p h = Some x -> In (h, x) p.
Proof.
  induction p as [|[k y] t IH]; cbn [pool_get]; [discriminate|].
  destruct (k =? h) eqn:E.
  - intros H. inversion H; subst. apply Z.eqb_eq in E. subst. now left.
  - intros H. right. now apply IH.
Qed.

Lemma pool_ok_filter p f : pool_ok p -> pool_ok (filter f p).
Proof. intros H k x Hin. apply filter_In in Hin. destruct Hin as [Hin _]. exact (H k x Hin). Qed.

Lemma step_inv s e : inv s -> inv (sync_step s e) /\ s_vals (sync_step s e) = s_vals s.
Proof.
  intros [Hp Hs]. destruct e as [peer b|peer|]; cbn [sync_step].
  - destruct (sb_height b <? s_height s); [split; [split|]; auto|].
    destruct (pool_get (s_pool s) (sb_height b)); [split; [split|]; auto|].
    split; [split|]; cbn; auto.
    intros k x [H|H]; [inversion H; subst; reflexivity | exact (Hp k x H)].
  - split; [split|]; cbn; auto. now apply pool_ok_filter.
  - destruct (pool_get (s_pool s) (s_height s)) as [[p1 first]|] eqn:G1; [|split; [split|]; auto].
    destruct (pool_get (s_pool s) (s_height s + 1)) as [[p2 second]|] eqn:G2; [|split; [split|]; auto].
    destruct (verify_commit (s_vals s) (sb_id first) (s_height s) (sb_last second)) as [[]|e|w] eqn:V.
    + split; [split|]; cbn; auto.
      * now apply pool_ok_filter.
      * apply pool_get_in in G1. apply Hp in G1. cbn in G1.
        replace (s_height s + 1 - 1) with (s_height s) by lia.
        repeat split; auto. exists (sb_last second). exact V.
    + split; [split|]; cbn; auto. now apply pool_ok_filter, pool_ok_filter.
    + split; [split|]; cbn; auto. now apply pool_ok_filter, pool_ok_filter.
Qed.

Lemma run_inv es : forall s, inv s -> inv (sync_run s es) /\ s_vals (sync_run s es) = s_vals s.
Proof.
  induction es as [|e r IH]; intros s H; cbn [sync_run fold_left]; [auto|].
  destruct (step_inv s e H) as [H1 E1]. destruct (IH _ H1) as [H2 E2]. unfold sync_run in *.
  split; [exact H2 | congruence].
Qed.

(* every applied block is justified, and the applied heights are 1, 2, .., height-1 *)
Theorem sync_sound vals es :
  let s := sync_run (sync0 vals) es in
  store_ok vals (s_store s) (s_height s).
Proof.
  cbv zeta. assert (H : inv (sync0 vals)) by (split; [intros k x [] | reflexivity]).
  destruct (run_inv es _ H) as [[_ Hs] Ev]. cbn in Ev. rewrite Ev in Hs. exact Hs.
Qed.

Lemma store_ok_nth vals st h : store_ok vals st h ->
  forall i b, nth_error st i = Some b ->
  sb_height b = h - 1 - Z.of_nat i /\ exists c, verify_commit vals (sb_id b) (sb_height b) c = Ok tt.
Proof.
  revert h. induction st as [|x t IH]; intros h H i b Hi; [destruct i; discriminate|].
  destruct H as (Hh & Hc & Ht). destruct i as [|i]; cbn in Hi.
  - inversion Hi; subst. split; [lia|]. rewrite Hh. exact Hc.
  - destruct (IH _ Ht i b Hi) as [E C]. split; [lia | exact C].
Qed.

(* ... that is: more than two thirds of the voting power signed precommits for exactly that block,
   at that height, in one round *)
Theorem applied_block_has_two_thirds vals es b :
  bounded vals -> In b (s_store (sync_run (sync0 vals) es)) ->
  exists c, length (c_pre c) = length vals /\
            two_thirds vals <
            pow_of vals (fun i => match nth i (c_pre c) None with
                                  | Some v => good_full (sb_id b) (sb_height b) (commit_round c) v
                                  | None => false end).
Proof.
  intros Hb Hin. apply In_nth_error in Hin. destruct Hin as [i Hi].
  destruct (store_ok_nth _ _ _ (sync_sound vals es) i b Hi) as [_ [c Hc]].
  exists c. now apply verify_commit_sound.
Qed.

(* if at each height at most one block id can gather such a commit (agreement, C01), the applied
   chain is the canonical one *)
Theorem applied_chain_is_canonical vals es (canon : Z -> block_id) :
  (forall h id c, verify_commit vals id h c = Ok tt -> id = canon h) ->
  forall b, In b (s_store (sync_run (sync0 vals) es)) -> sb_id b = canon (sb_height b).
Proof.
  intros Hu b Hin. apply In_nth_error in Hin. destruct Hin as [i Hi].
  destruct (store_ok_nth _ _ _ (sync_sound vals es) i b Hi) as [_ [c Hc]].
  exact (Hu _ _ _ Hc).
Qed.

(* a block is never applied on the strength of a commit that does not verify: if no block on offer
   for height h+1 carries a verifying commit for the block on offer at h, the height does not move *)
Lemma tick_needs_commit s :
  (forall p1 f p2 sd, pool_get (s_pool s) (s_height s) = Some (p1, f) ->
                      pool_get (s_pool s) (s_height s + 1) = Some (p2, sd) ->
                      verify_commit (s_vals s) (sb_id f) (s_height s) (sb_last sd) <> Ok tt) ->
  s_height (sync_step s ETick) = s_height s /\ s_store (sync_step s ETick) = s_store s.
Proof.
  intros H. cbn [sync_step].
  destruct (pool_get (s_pool s) (s_height s)) as [[p1 f]|] eqn:G1; [|auto].
  destruct (pool_get (s_pool s) (s_height s + 1)) as [[p2 sd]|] eqn:G2; [|auto].
  specialize (H p1 f p2 sd eq_refl eq_refl).
  destruct (verify_commit (s_vals s) (sb_id f) (s_height s) (sb_last sd)) as [[]|e|w]; [contradiction| |]; auto.
Qed.

(* ---------- the check and the pop as separate steps ---------- *)
Definition inv2 (t : sync2) : Prop :=
  inv (s2_s t) /\
  match s2_checked t with
  | None => True
  | Some first => sb_height first = s_height (s2_s t) /\
                  exists c, verify_commit (s_vals (s2_s t)) (sb_id first) (s_height (s2_s t)) c = Ok tt
  end.

Lemma resp_keeps s e : (match e with ETick => False | _ => True end) ->
  s_height (sync_step s e) = s_height s /\ s_store (sync_step s e) = s_store s.
Proof.
  destruct e as [peer b|peer|]; cbn [sync_step]; intro H; [|auto|contradiction].
  destruct (sb_height b <? s_height s); [auto|]. destruct (pool_get _ _); auto.
Qed.

Lemma step2_inv t e : inv2 t -> inv2 (sync2_step t e) /\ s_vals (s2_s (sync2_step t e)) = s_vals (s2_s t).
Proof.
  intros [Hi Hc]. destruct e as [peer b|peer| |]; cbn [sync2_step s2_s s2_checked].
  - destruct (step_inv _ (EResp peer b) Hi) as [Hi' Ev]. destruct (resp_keeps (s2_s t) (EResp peer b) I) as [Eh _].
    split; [split; [exact Hi'|]|exact Ev]. destruct (s2_checked t); [|exact I]. cbn [s2_s s2_checked]. rewrite Eh, Ev. exact Hc.
  - destruct (step_inv _ (ERemove peer) Hi) as [Hi' Ev]. destruct (resp_keeps (s2_s t) (ERemove peer) I) as [Eh _].
    split; [split; [exact Hi'|]|exact Ev]. destruct (s2_checked t); [|exact I]. cbn [s2_s s2_checked]. rewrite Eh, Ev. exact Hc.
  - destruct (s2_checked t) eqn:Ec; [split; [split; [exact Hi|rewrite Ec; exact Hc]|reflexivity]|].
    destruct (pool_get (s_pool (s2_s t)) (s_height (s2_s t))) as [[p1 first]|] eqn:G1; [|split; [split; [exact Hi|rewrite Ec; exact I]|reflexivity]].
    destruct (pool_get (s_pool (s2_s t)) (s_height (s2_s t) + 1)) as [[p2 second]|] eqn:G2; [|split; [split; [exact Hi|rewrite Ec; exact I]|reflexivity]].
    destruct Hi as [Hp Hs].
    destruct (verify_commit (s_vals (s2_s t)) (sb_id first) (s_height (s2_s t)) (sb_last second)) as [[]|e|w] eqn:V; cbn [s2_s s2_checked].
    + split; [split; [split; assumption|]|reflexivity]. split; [|exists (sb_last second); exact V].
      apply pool_get_in in G1. apply Hp in G1. exact G1.
    + split; [split; [split; cbn; [now apply pool_ok_filter, pool_ok_filter|exact Hs]|exact I]|reflexivity].
    + split; [split; [split; cbn; [now apply pool_ok_filter, pool_ok_filter|exact Hs]|exact I]|reflexivity].
  - destruct (s2_checked t) as [first|] eqn:Ec; [|split; [split; [exact Hi|rewrite Ec; exact I]|reflexivity]].
    destruct Hi as [Hp Hs]. destruct Hc as [Hh Hv]. cbn [s2_s s2_checked].
    split; [split; [split; cbn|exact I]|reflexivity].
    + now apply pool_ok_filter.
    + replace (s_height (s2_s t) + 1 - 1) with (s_height (s2_s t)) by lia. repeat split; assumption.
Qed.

Lemma run2_inv es : forall t, inv2 t -> inv2 (sync2_run t es) /\ s_vals (s2_s (sync2_run t es)) = s_vals (s2_s t).
Proof.
  induction es as [|e r IH]; intros t H; cbn [sync2_run fold_left]; [auto|].
  destruct (step2_inv t e H) as [H1 E1]. destruct (IH _ H1) as [H2 E2]. unfold sync2_run in *.
  split; [exact H2|congruence].
Qed.

(* every interleaving of responses, removals, checks and pops applies justified blocks only *)
Theorem sync2_sound vals es :
  let s := s2_s (sync2_run (sync2_0 vals) es) in
  store_ok vals (s_store s) (s_height s).
Proof.
  cbv zeta. assert (H : inv2 (sync2_0 vals)) by (split; [split; [intros k x []|reflexivity]|exact I]).
  destruct (run2_inv es _ H) as [[[_ Hs] _] Ev]. cbn in Ev. rewrite Ev in Hs. exact Hs.
Qed.

(* the label a commit carries for itself plays no part in its verification: only the precommits do *)
Theorem commit_label_irrelevant vals b h l1 l2 pre :
  verify_commit vals b h (mkCommit l1 pre) = verify_commit vals b h (mkCommit l2 pre).
Proof. reflexivity. Qed.
