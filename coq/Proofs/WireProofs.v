(* Proofs about Model.Wire: the decoder inverts the encoder on every value a Go variable of the
   type can hold (under any limit that admits the encoding), consumes exactly the bytes it
   accounts for, never takes the Panic outcome, and reaches an allocation only for lengths within
   the caller's limit. *)
From Coq Require Import List NArith ZArith Bool Lia ZifyBool ZifyNat ZifyN.
From AnnVerif Require Import Base.Res Base.Bytes Model.Wire Proofs.BytesProofs Proofs.RlpProofs.
Import ListNotations.
Open Scope Z_scope.

(* ---------- induction principle for the nested type ---------- *)
Section TyInd.
  Variable P : ty -> Prop.
  Hypothesis Hfix : forall k s, P (TFix k s).
  Hypothesis Hvar : forall s, P (TVar s).
  Hypothesis Hbool : P TBool.
  Hypothesis Hbytes : P TBytes.
  Hypothesis Htime : P TTime.
  Hypothesis Harr : forall k, P (TArr k).
  Hypothesis Hlist : forall t, P t -> P (TList t).
  Hypothesis Harrof : forall k t, P t -> P (TArrOf k t).
  Hypothesis Hstruct : forall fs, Forall P fs -> P (TStruct fs).
  Hypothesis Hptr : forall t, P t -> P (TPtr t).
  Hypothesis Hiface : forall alts, Forall (fun kt => P (snd kt)) alts -> P (TIface alts).

  Fixpoint ty_ind2 (t : ty) : P t :=
    match t with
    | TFix k s => Hfix k s
    | TVar s => Hvar s
    | TBool => Hbool
    | TBytes => Hbytes
    | TTime => Htime
    | TArr k => Harr k
    | TList t' => Hlist t' (ty_ind2 t')
    | TArrOf k t' => Harrof k t' (ty_ind2 t')
    | TStruct fs =>
      Hstruct fs ((fix go (l : list ty) : Forall P l :=
                     match l with [] => Forall_nil _ | x :: r => Forall_cons x (ty_ind2 x) (go r) end) fs)
    | TPtr t' => Hptr t' (ty_ind2 t')
    | TIface alts =>
      Hiface alts ((fix go (l : list (N * ty)) : Forall (fun kt => P (snd kt)) l :=
                      match l with [] => Forall_nil _ | x :: r => Forall_cons x (ty_ind2 (snd x)) (go r) end) alts)
    end.
End TyInd.

(* ---------- varints ---------- *)
Lemma usize_zero a : usize a = 0%nat -> a = 0%N.
Proof. intro H. pose proof (usize_bound a) as B. rewrite H in B. cbn in B. lia. Qed.

Lemma marker_small neg s : (s <= 8)%nat ->
  marker neg s = (if neg then N.of_nat s + 240 else N.of_nat s)%N.
Proof. intro H. unfold marker. destruct (Nat.leb_spec s 8); [reflexivity|lia]. Qed.

Lemma marker_decode neg s : (s <= 8)%nat ->
  N.eqb (marker neg s / 16) 15 = neg /\
  (if neg then N.land (marker neg s) 15 else marker neg s) = N.of_nat s.
Proof.
  intro H. rewrite marker_small by exact H.
  destruct s as [|[|[|[|[|[|[|[|[|s]]]]]]]]]; try lia; destruct neg; split; reflexivity.
Qed.

Lemma wrap64_small z : -9223372036854775808 <= z < 9223372036854775808 -> wrap64 z = z.
Proof. intro H. unfold wrap64. rewrite Z.mod_small by lia. lia. Qed.

Lemma wrap64_min : wrap64 9223372036854775808 = -9223372036854775808.
Proof. reflexivity. Qed.

Lemma firstn_exact {A} (a b : list A) k : length a = k -> firstn k (a ++ b) = a.
Proof. intros <-. apply firstn_app_exact. Qed.
Lemma skipn_exact {A} (a b : list A) k : length a = k -> skipn k (a ++ b) = b.
Proof. intros <-. apply skipn_app_exact. Qed.

Lemma dec_varint_raw neg a rest : (a < 18446744073709551616)%N -> (neg = true -> a <> 0%N) ->
  dec_varint ((marker neg (usize a) :: be_bytes (usize a) a) ++ rest) =
  Some (let v := wrap64 (Z.of_N a) in if neg then wrap64 (- v) else v, rest).
Proof.
  intros Ha Hn. pose proof (usize_le8 a Ha) as H8.
  destruct (marker_decode neg (usize a) H8) as [Hneg Hsize].
  cbn [List.app dec_varint]. rewrite Hneg, Hsize.
  replace (8 <? N.of_nat (usize a))%N with false by lia.
  destruct (N.eqb_spec (N.of_nat (usize a)) 0) as [E0|E0].
  - assert (usize a = 0%nat) as Hu by lia. pose proof (usize_zero a Hu) as ->.
    destruct neg; [exfalso; apply Hn; reflexivity|]. rewrite Hu. cbn. reflexivity.
  - rewrite Nat2N.id. rewrite app_length, be_bytes_length.
    replace (usize a + length rest <? usize a)%nat with false by lia.
    rewrite firstn_exact by apply be_bytes_length. rewrite skipn_exact by apply be_bytes_length.
    rewrite be_val_be_bytes. rewrite N.mod_small by apply usize_bound. reflexivity.
Qed.

Lemma dec_enc_varint z rest : -9223372036854775808 <= z < 9223372036854775808 ->
  dec_varint (enc_varint z ++ rest) = Some (z, rest).
Proof.
  intro Hz. unfold enc_varint. rewrite dec_varint_raw; [|lia|intros Hn; lia].
  f_equal. f_equal. cbn zeta.
  destruct (Z.ltb_spec z 0) as [Hneg|Hpos].
  - destruct (Z.eq_dec z (-9223372036854775808)) as [->|Hne]; [reflexivity|].
    rewrite (wrap64_small (Z.of_N (Z.abs_N z))) by lia. rewrite wrap64_small by lia. lia.
  - rewrite wrap64_small by lia. lia.
Qed.

Lemma dec_enc_uvarint a rest : (a < 18446744073709551616)%N ->
  dec_varint (enc_uvarint a ++ rest) = Some (wrap64 (Z.of_N a), rest).
Proof. intro Ha. unfold enc_uvarint. rewrite dec_varint_raw; [reflexivity|exact Ha|discriminate]. Qed.

Lemma wrap64_mod a : (a < 18446744073709551616)%N -> wrap64 (Z.of_N a) mod pow256 8 = Z.of_N a.
Proof.
  intro Ha. change (pow256 8) with 18446744073709551616. unfold wrap64.
  rewrite Zminus_mod_idemp_l.
  replace (Z.of_N a + 9223372036854775808 - 9223372036854775808) with (Z.of_N a) by lia.
  apply Z.mod_small. lia.
Qed.

Lemma read_varint_enc n z rest : -9223372036854775808 <= z < 9223372036854775808 ->
  read_varint n (enc_varint z ++ rest) = Ok (z, n + Z.of_nat (length (enc_varint z)), rest).
Proof.
  intro Hz. unfold read_varint. rewrite dec_enc_varint by exact Hz. rewrite app_length.
  do 3 f_equal. lia.
Qed.

Lemma take_exact k n b rest : length b = k -> take k n (b ++ rest) = Ok (b, n + Z.of_nat k, rest).
Proof.
  intro H. unfold take. rewrite app_length.
  replace (length b + length rest <? k)%nat with false by lia.
  rewrite firstn_exact, skipn_exact by exact H. reflexivity.
Qed.

(* ---------- fixed-width integers ---------- *)
Lemma pow256_N k : Z.of_N (256 ^ N.of_nat k) = pow256 k.
Proof. unfold pow256. rewrite N2Z.inj_pow, nat_N_Z. reflexivity. Qed.
Lemma pow256_pos k : 0 < pow256 k.
Proof. unfold pow256. apply Z.pow_pos_nonneg; lia. Qed.

Lemma be_fix k z : Z.of_N (be_val (be_bytes k (Z.to_N (z mod pow256 k)))) = z mod pow256 k.
Proof.
  pose proof (pow256_pos k) as Hp. pose proof (Z.mod_pos_bound z (pow256 k) Hp) as Hb.
  rewrite be_val_be_bytes. rewrite N.mod_small.
  - rewrite Z2N.id by lia. reflexivity.
  - apply N2Z.inj_lt. rewrite Z2N.id by lia. rewrite pow256_N. lia.
Qed.

Lemma signed_roundtrip k z : - pow256 k <= 2 * z < pow256 k -> signed_of k (z mod pow256 k) = z.
Proof.
  intro H. pose proof (pow256_pos k) as Hp. unfold signed_of.
  destruct (Z.leb_spec (pow256 k) (2 * (z mod pow256 k))) as [L|L].
  - assert (z < 0). { destruct (Z.lt_ge_cases z 0); [assumption|]. rewrite Z.mod_small in L by lia. lia. }
    replace z with ((z + pow256 k) - 1 * pow256 k) at 1 by lia.
    rewrite Zminus_mod, Z_mod_mult, Z.sub_0_r, Z.mod_mod by lia. rewrite Z.mod_small by lia. lia.
  - destruct (Z.lt_ge_cases z 0) as [Hn|Hn]; [|rewrite Z.mod_small by lia; reflexivity].
    exfalso. replace z with ((z + pow256 k) - 1 * pow256 k) in L at 1 by lia.
    rewrite Zminus_mod, Z_mod_mult, Z.sub_0_r, Z.mod_mod in L by lia. rewrite Z.mod_small in L by lia. lia.
Qed.

(* ---------- sizes ---------- *)
Lemma enc_varint_length z : (1 <= length (enc_varint z))%nat.
Proof. unfold enc_varint. cbn [length]. lia. Qed.

Lemma opt_app_some a b r : opt_app a b = Some r -> exists x y, a = Some x /\ b = Some y /\ r = x ++ y.
Proof. destruct a, b; cbn; intro H; try discriminate. injection H as <-. eauto. Qed.
Lemma opt_pre_some p a r : opt_pre p a = Some r -> exists x, a = Some x /\ r = p ++ x.
Proof. destruct a; cbn; intro H; try discriminate. injection H as <-. eauto. Qed.

Definition POS (t : ty) : Prop := forall v b, pos_size t = true -> encode t v = Some b -> (1 <= length b)%nat.

Lemma enc_list_first enc x l r : enc_list enc (x :: l) = Some r -> exists bx br, enc x = Some bx /\ enc_list enc l = Some br /\ r = bx ++ br.
Proof. cbn [enc_list]. apply opt_app_some. Qed.

Lemma pos_all : forall t, POS t.
Proof.
  induction t using ty_ind2; unfold POS; intros v b Hp He.
  - destruct v; try discriminate. cbn [encode] in He. injection He as <-. rewrite be_bytes_length. cbn [pos_size] in Hp. apply Nat.ltb_lt in Hp. lia.
  - destruct v; try (destruct s; discriminate). destruct s; cbn [encode] in He; injection He as <-; cbn [length enc_uvarint]; try apply enc_varint_length; lia.
  - destruct v; try discriminate. cbn [encode] in He. injection He as <-. cbn. lia.
  - destruct v; try discriminate. cbn [encode] in He. injection He as <-. unfold enc_bs. rewrite app_length. pose proof (enc_varint_length (Z.of_nat (length b0))). lia.
  - destruct v; try discriminate. cbn [encode] in He. injection He as <-. cbn [length]. lia.
  - destruct v; try discriminate. cbn [encode] in He. destruct (Nat.eqb_spec (length b0) k); [|discriminate]. injection He as <-. cbn [pos_size] in Hp. apply Nat.ltb_lt in Hp. lia.
  - destruct v; try discriminate. cbn [encode] in He. apply opt_pre_some in He as (x & _ & ->). rewrite app_length. pose proof (enc_varint_length (Z.of_nat (length l))). lia.
  - destruct v; try discriminate. cbn [encode] in He. destruct (Nat.eqb_spec (length l) k) as [El|]; [|discriminate].
    cbn [pos_size] in Hp. apply andb_prop in Hp as [Hk Hp']. destruct l as [|x l]; [cbn in El; lia|].
    apply enc_list_first in He as (bx & br & Ex & _ & ->). rewrite app_length. pose proof (IHt x bx Hp' Ex). lia.
  - destruct v; try discriminate. cbn [encode pos_size] in *.
    revert l b He Hp. induction H as [|f fs Hf Hfs IH]; intros l b He Hp; [cbn in Hp; discriminate|].
    cbn [map enc_fields existsb] in *. destruct l as [|x l]; [discriminate|].
    apply opt_app_some in He as (bx & br & Ex & Er & ->). rewrite app_length.
    apply orb_prop in Hp as [Hp|Hp].
    + pose proof (Hf x bx Hp Ex). lia.
    + pose proof (IH l br Er Hp). lia.
  - destruct v; try discriminate; cbn [encode] in He.
    + injection He as <-. cbn. lia.
    + apply opt_pre_some in He as (x & _ & ->). cbn. lia.
  - destruct v; try discriminate; cbn [encode] in He.
    + injection He as <-. cbn. lia.
    + clear Hp. induction H as [|[k t'] alts _ _ IH]; cbn [map enc_alts fst snd] in He; [discriminate|].
      destruct (N.eqb k tag); [|exact (IH He)]. apply opt_pre_some in He as (x & _ & ->). cbn. lia.
Qed.

Lemma enc_list_len enc l : forall body,
  (forall x bx, In x l -> enc x = Some bx -> (1 <= length bx)%nat) ->
  enc_list enc l = Some body -> (length l <= length body)%nat.
Proof.
  induction l as [|x l IH]; intros body Hpos He; [cbn; lia|].
  apply enc_list_first in He as (bx & br & Ex & Er & ->). rewrite app_length. cbn [length].
  pose proof (Hpos x bx (or_introl eq_refl) Ex). pose proof (IH br (fun y by_ Hy => Hpos y by_ (or_intror Hy)) Er). lia.
Qed.

(* ---------- loops ---------- *)
Definition fits (lmt n : Z) (b : bytes) : Prop := lmt = 0 \/ n + Z.of_nat (length b) <= lmt.

Lemma over_false lmt n : lmt = 0 \/ n <= lmt -> over lmt n = false.
Proof. unfold over. intros [->|H]; [reflexivity|]. destruct (Z.eqb_spec lmt 0); cbn; lia. Qed.

Lemma dec_loop_enc (dec : decoder) (enc : val -> option bytes) lmt l :
  (forall x bx n rest, In x l -> enc x = Some bx -> 0 <= n -> fits lmt n bx -> dec n (bx ++ rest) = Ok (x, n + Z.of_nat (length bx), rest)) ->
  forall acc n body rest, enc_list enc l = Some body -> 0 <= n -> fits lmt n body ->
  dec_loop dec lmt (length l) n (body ++ rest) acc = Ok (VL (rev acc ++ l), n + Z.of_nat (length body), rest).
Proof.
  induction l as [|x l IH]; intros Hdec acc n body rest He Hn Hfit.
  - cbn in He. injection He as <-. cbn. rewrite app_nil_r. do 3 f_equal. lia.
  - apply enc_list_first in He as (bx & br & Ex & Er & ->). cbn [length dec_loop]. rewrite <- app_assoc.
    assert (Hfx : fits lmt n bx). { destruct Hfit as [->|Hf]; [left; reflexivity|right]. rewrite app_length in Hf. lia. }
    rewrite (Hdec x bx n (br ++ rest) (or_introl eq_refl) Ex Hn Hfx).
    rewrite over_false by (destruct Hfx; [left; assumption|right; lia]).
    rewrite IH; [|intros; apply Hdec; auto; right; assumption|exact Er|lia|].
    + cbn [rev]. rewrite <- app_assoc. cbn [List.app]. rewrite app_length. do 3 f_equal. lia.
    + destruct Hfit as [->|Hf]; [left; reflexivity|right]. rewrite app_length in Hf. lia.
Qed.

(* ---------- round trip ---------- *)
Lemma Some_inj {A} (a b : A) : Some a = Some b -> a = b.
Proof. congruence. Qed.
Definition RT (t : ty) : Prop := forall v b lmt n rest,
  wf_ty t = true -> wf_val t v = true -> encode t v = Some b -> 0 <= n -> fits lmt n b ->
  decode t lmt n (b ++ rest) = Ok (v, n + Z.of_nat (length b), rest).

Fixpoint wf_fields (fs : list ty) (l : list val) : bool :=
  match fs, l with
  | [], [] => true
  | f :: fr, x :: r => wf_val f x && wf_fields fr r
  | _, _ => false
  end.
Lemma wf_struct fs l : wf_val (TStruct fs) (VL l) = wf_fields fs l.
Proof. revert l. induction fs as [|f fs IH]; intros [|x l]; reflexivity. Qed.

Fixpoint wf_alts (alts : list (N * ty)) (tag : N) (x : val) : bool :=
  match alts with
  | [] => false
  | kt :: r => if N.eqb (fst kt) tag then wf_val (snd kt) x else wf_alts r tag x
  end.
Lemma wf_iface alts tag x : wf_val (TIface alts) (VI tag x) = wf_alts alts tag x.
Proof. induction alts as [|kt r IH]; [reflexivity|]. cbn [wf_val wf_alts] in *. destruct (N.eqb (fst kt) tag); [reflexivity|apply IH]. Qed.

Lemma fits_app_l lmt n a b : 0 <= n -> fits lmt n (a ++ b) -> fits lmt n a.
Proof. intros Hn [->|H]; [left; reflexivity|right]. rewrite app_length in H. lia. Qed.
Lemma fits_app_r lmt n a b : fits lmt n (a ++ b) -> fits lmt (n + Z.of_nat (length a)) b.
Proof. intros [->|H]; [left; reflexivity|right]. rewrite app_length in H. lia. Qed.

Lemma dec_fields_enc lmt fs : Forall RT fs ->
  forall l acc n body rest, forallb wf_ty fs = true -> wf_fields fs l = true ->
  enc_fields (map encode fs) l = Some body -> 0 <= n -> fits lmt n body ->
  dec_fields (map (fun f => decode f lmt) fs) n (body ++ rest) acc = Ok (VL (rev acc ++ l), n + Z.of_nat (length body), rest).
Proof.
  induction 1 as [|f fs Hf _ IH]; intros l acc n body rest Hty Hwf He Hn Hfit.
  - destruct l; [|discriminate]. cbn in He. injection He as <-. cbn. rewrite app_nil_r. do 3 f_equal. lia.
  - destruct l as [|x l]; [discriminate|]. cbn [map enc_fields] in He. apply opt_app_some in He as (bx & br & Ex & Er & ->).
    cbn [forallb] in Hty. apply andb_prop in Hty as [Hty1 Hty2]. cbn [wf_fields] in Hwf. apply andb_prop in Hwf as [Hw1 Hw2].
    cbn [map dec_fields]. rewrite <- app_assoc.
    rewrite (Hf x bx lmt n (br ++ rest) Hty1 Hw1 Ex Hn (fits_app_l _ _ _ _ Hn Hfit)).
    rewrite (IH l (x :: acc) (n + Z.of_nat (length bx)) br rest Hty2 Hw2 Er ltac:(lia) (fits_app_r _ _ _ _ Hfit)).
    cbn [rev]. rewrite <- app_assoc. cbn [List.app]. rewrite app_length. do 3 f_equal. lia.
Qed.

Lemma dec_alts_enc lmt alts : Forall (fun kt => RT (snd kt)) alts ->
  forall tag x n bx rest,
  forallb (fun kt => (0 <? fst kt)%N && (fst kt <? 256)%N && wf_ty (snd kt)) alts = true ->
  wf_alts alts tag x = true ->
  enc_alts (map (fun kt => (fst kt, encode (snd kt))) alts) tag x = Some ([tag] ++ bx) -> 0 <= n -> fits lmt n bx ->
  dec_alts (map (fun kt => (fst kt, decode (snd kt) lmt)) alts) tag n (bx ++ rest) = Ok (VI tag x, n + Z.of_nat (length bx), rest) /\ (0 < tag)%N.
Proof.
  induction 1 as [|[k t'] alts Hk _ IH]; intros tag x n bx rest Hty Hwf He Hn Hfit; [discriminate|].
  cbn [map enc_alts dec_alts wf_alts forallb fst snd] in *. apply andb_prop in Hty as [Hty1 Hty2].
  destruct (N.eqb_spec k tag) as [->|Hne].
  - apply opt_pre_some in He as (b' & Ex & Eb). cbn [List.app] in Eb. injection Eb as ->.
    apply andb_prop in Hty1 as [Hrange Hty1]. apply andb_prop in Hrange as [Hpos _].
    split; [|lia]. rewrite (Hk x b' lmt n rest Hty1 Hwf Ex Hn Hfit). reflexivity.
  - apply IH; assumption.
Qed.

Lemma enc_alts_tag alts tag x b : enc_alts alts tag x = Some b -> exists bx, b = [tag] ++ bx.
Proof.
  induction alts as [|[k e] r IH]; cbn [enc_alts]; [discriminate|]. destruct (N.eqb k tag); [|exact IH].
  intro H. apply opt_pre_some in H as (y & _ & ->). eauto.
Qed.

Lemma Forall_forallb {A} (f : A -> bool) l : forallb f l = true -> Forall (fun x => f x = true) l.
Proof. induction l; cbn; intro H; constructor; apply andb_prop in H; tauto. Qed.

Ltac ok_eq := cbn [length]; match goal with |- Ok (?v, ?a, ?r) = Ok (?v, ?b, ?r) => replace a with b by lia; reflexivity end.

Theorem roundtrip_all : forall t, RT t.
Proof.
  induction t using ty_ind2; unfold RT; intros v b lmt n rest Hty Hwf He Hn Hfit.
  - (* fixed *)
    destruct v; try (destruct s; discriminate). cbn [encode] in He. injection He as <-.
    cbn [decode]. rewrite take_exact by apply be_bytes_length. rewrite be_bytes_length, be_fix.
    destruct s; cbn [wf_val] in Hwf.
    + rewrite signed_roundtrip by lia. reflexivity.
    + rewrite Z.mod_small by lia. reflexivity.
  - (* varint *)
    destruct v; try (destruct s; discriminate). destruct s; cbn [encode wf_val] in *; injection He as <-; cbn [decode].
    + rewrite read_varint_enc by lia. reflexivity.
    + unfold read_varint. rewrite dec_enc_uvarint by lia. rewrite app_length. rewrite wrap64_mod by lia.
      rewrite Z2N.id by lia. ok_eq.
  - (* bool *)
    destruct v; try discriminate. cbn [encode] in He. injection He as <-. cbn [decode].
    rewrite take_exact by reflexivity. destruct b0; reflexivity.
  - (* bytes *)
    destruct v; try discriminate. cbn [encode wf_val] in *. injection He as <-. apply andb_prop in Hwf as [_ Hs].
    unfold Wire.small_len in Hs. cbn [decode]. unfold read_bytes, enc_bs. rewrite <- app_assoc.
    rewrite read_varint_enc by lia.
    replace (Z.of_nat (length b0) <? 0) with false by lia.
    assert (Hlim : negb (lmt =? 0) && (lmt <? Z.max (Z.of_nat (length b0)) (n + Z.of_nat (length (enc_varint (Z.of_nat (length b0)))) + Z.of_nat (length b0))) = false).
    { destruct Hfit as [->|Hf]; [reflexivity|]. unfold enc_bs in Hf. rewrite app_length in Hf. destruct (Z.eqb_spec lmt 0); cbn [negb andb]; lia. }
    rewrite Hlim. rewrite app_length.
    replace (Z.of_nat (length b0 + length rest) <? Z.of_nat (length b0)) with false by lia.
    rewrite Nat2Z.id. rewrite take_exact by reflexivity. rewrite app_length. ok_eq.
  - (* time *)
    destruct v; try discriminate. cbn [encode wf_val] in *. apply Some_inj in He. subst b.
    apply andb_prop in Hwf as [Hr Hrem]. apply Z.eqb_eq in Hrem.
    assert (Hq : z ÷ 1000000 * 1000000 = z). { pose proof (Z.quot_rem' z 1000000). lia. }
    rewrite Hq. cbn [decode]. rewrite take_exact by apply be_bytes_length. rewrite be_bytes_length, be_fix.
    change (pow256 8) with 18446744073709551616 in *.
    assert (Hs : signed_of 8 (z mod 18446744073709551616) = z).
    { change 18446744073709551616 with (pow256 8). apply signed_roundtrip. change (pow256 8) with 18446744073709551616. lia. }
    rewrite Hs, Hrem. reflexivity.
  - (* byte array *)
    destruct v; try discriminate. cbn [encode] in He. destruct (Nat.eqb_spec (length b0) k) as [El|]; [|discriminate].
    injection He as <-. cbn [decode]. rewrite take_exact by exact El. rewrite El. reflexivity.
  - (* slice *)
    destruct v; try discriminate. cbn [encode wf_val wf_ty] in *. apply opt_pre_some in He as (body & Eb & ->).
    apply andb_prop in Hty as [Hpos Hty']. apply andb_prop in Hwf as [Hs Hall]. unfold Wire.small_len in Hs.
    cbn [decode]. rewrite <- app_assoc. rewrite read_varint_enc by lia.
    assert (Hlen : (length l <= length body)%nat).
    { apply (enc_list_len (encode t)); [|exact Eb]. intros x bx _ Ex. exact (pos_all t x bx Hpos Ex). }
    unfold loop_count. rewrite app_length.
    replace (Z.of_nat (length l) <=? Z.of_nat (length body + length rest)) with true by lia.
    rewrite Nat2Z.id.
    rewrite (dec_loop_enc (decode t lmt) (encode t) lmt l); [| |exact Eb|lia|apply fits_app_r; exact Hfit].
    + cbn [rev List.app]. rewrite app_length. ok_eq.
    + intros x bx n0 rest0 Hin Ex Hn0 Hf0. apply IHt; auto.
      rewrite forallb_forall in Hall. apply Hall. exact Hin.
  - (* array *)
    destruct v; try discriminate. cbn [encode wf_val wf_ty] in *. destruct (Nat.eqb_spec (length l) k) as [El|]; [|discriminate].
    apply andb_prop in Hwf as [_ Hall]. cbn [decode]. rewrite <- El.
    rewrite (dec_loop_enc (decode t lmt) (encode t) lmt l); [reflexivity| |exact He|exact Hn|exact Hfit].
    intros x bx n0 rest0 Hin Ex Hn0 Hf0. apply IHt; auto. rewrite forallb_forall in Hall. apply Hall. exact Hin.
  - (* struct *)
    destruct v; try discriminate. rewrite wf_struct in Hwf. cbn [encode wf_ty decode] in *.
    rewrite (dec_fields_enc lmt fs H l [] n b rest Hty Hwf He Hn Hfit). reflexivity.
  - (* pointer *)
    destruct v; try discriminate; cbn [encode wf_val wf_ty] in *.
    + injection He as <-. cbn [decode List.app]. unfold take. cbn [length Nat.ltb Nat.leb firstn skipn]. cbn. reflexivity.
    + apply opt_pre_some in He as (bx & Ex & ->). cbn [decode List.app]. unfold take. cbn [length Nat.ltb Nat.leb firstn skipn].
      cbn [N.eqb]. rewrite (IHt v bx lmt (n + Z.of_nat 1) rest Hty Hwf Ex ltac:(lia) (fits_app_r lmt n [1%N] bx Hfit)).
      cbn [Pos.eqb]. ok_eq.
  - (* registered interface *)
    destruct v; try discriminate; cbn [encode wf_ty] in *.
    + injection He as <-. cbn [decode List.app]. unfold take. cbn. reflexivity.
    + rewrite wf_iface in Hwf. destruct (enc_alts_tag _ _ _ _ He) as (bx & ->).
      destruct (dec_alts_enc lmt alts H tag v (n + Z.of_nat 1) bx rest Hty Hwf He ltac:(lia) (fits_app_r lmt n [tag] bx Hfit)) as [Hd Htag].
      cbn [decode List.app]. unfold take. cbn [length Nat.ltb Nat.leb firstn skipn].
      replace (tag =? 0)%N with false by lia. rewrite Hd. ok_eq.
Qed.

(* ---------- the decoder never takes the Panic outcome ---------- *)
Definition np {A} (r : res A) : Prop := forall w, r <> Panic w.

Lemma np_take k n bs : np (take k n bs).
Proof. unfold np, take. intros w. destruct (Nat.ltb _ _); discriminate. Qed.
Lemma np_read_varint n bs : np (read_varint n bs).
Proof. unfold np, read_varint. intros w. destruct (dec_varint bs) as [[? ?]|]; discriminate. Qed.
Lemma np_read_bytes lmt n bs : np (read_bytes lmt n bs).
Proof.
  unfold np, read_bytes. intros w. pose proof (np_read_varint n bs) as H.
  destruct (read_varint n bs) as [[[len n1] r1]|e|w']; [|discriminate|exfalso; exact (H w' eq_refl)].
  destruct (len <? 0); [discriminate|]. destruct (_ && _); [discriminate|]. destruct (_ <? _); [discriminate|]. apply np_take.
Qed.

Lemma np_loop (dec : decoder) lmt : (forall n bs, np (dec n bs)) -> forall count n bs acc, np (dec_loop dec lmt count n bs acc).
Proof.
  intros Hd count. induction count as [|c IH]; intros n bs acc w; cbn [dec_loop]; [discriminate|].
  pose proof (Hd n bs) as H. destruct (dec n bs) as [[[v n2] r2]|e|w']; [|discriminate|exfalso; exact (H w' eq_refl)].
  destruct (over lmt n2); [discriminate|apply IH].
Qed.
Lemma np_fields (decs : list decoder) : Forall (fun d => forall n bs, np (d n bs)) decs -> forall n bs acc, np (dec_fields decs n bs acc).
Proof.
  induction 1 as [|d dr Hd _ IH]; intros n bs acc w; cbn [dec_fields]; [discriminate|].
  pose proof (Hd n bs) as H. destruct (d n bs) as [[[v n2] r2]|e|w']; [apply IH|discriminate|exfalso; exact (H w' eq_refl)].
Qed.
Lemma np_alts (alts : list (N * decoder)) x : Forall (fun kd => forall n bs, np (snd kd n bs)) alts -> forall n bs, np (dec_alts alts x n bs).
Proof.
  induction 1 as [|[k d] ar Hd _ IH]; intros n bs w; cbn [dec_alts]; [discriminate|].
  destruct (N.eqb k x); [|apply IH]. cbn [snd] in Hd. pose proof (Hd n bs) as H.
  destruct (d n bs) as [[[v n2] r2]|e|w']; [discriminate|discriminate|exfalso; exact (H w' eq_refl)].
Qed.

Theorem decode_never_panics : forall t lmt n bs, np (decode t lmt n bs).
Proof.
  induction t using ty_ind2; intros lmt n bs w; cbn [decode].
  - pose proof (np_take k n bs) as H. destruct (take k n bs) as [[[b n1] r]|e|w']; [discriminate|discriminate|exfalso; exact (H w' eq_refl)].
  - pose proof (np_read_varint n bs) as H. destruct (read_varint n bs) as [[[z n1] r]|e|w']; [discriminate|discriminate|exfalso; exact (H w' eq_refl)].
  - pose proof (np_take 1 n bs) as H. destruct (take 1 n bs) as [[[b n1] r]|e|w']; [discriminate|discriminate|exfalso; exact (H w' eq_refl)].
  - pose proof (np_read_bytes lmt n bs) as H. destruct (read_bytes lmt n bs) as [[[b n1] r]|e|w']; [discriminate|discriminate|exfalso; exact (H w' eq_refl)].
  - pose proof (np_take 8 n bs) as H. destruct (take 8 n bs) as [[[b n1] r]|e|w']; [|discriminate|exfalso; exact (H w' eq_refl)].
    destruct (_ =? 0); discriminate.
  - pose proof (np_take k n bs) as H. destruct (take k n bs) as [[[b n1] r]|e|w']; [discriminate|discriminate|exfalso; exact (H w' eq_refl)].
  - pose proof (np_read_varint n bs) as H. destruct (read_varint n bs) as [[[z n1] r]|e|w']; [|discriminate|exfalso; exact (H w' eq_refl)].
    apply np_loop. intros n' bs'. apply IHt.
  - apply np_loop. intros n' bs'. apply IHt.
  - apply np_fields. induction H as [|f fs Hf _ IH]; cbn [map]; [constructor|]. constructor; [intros n' bs'; apply Hf|exact IH].
  - pose proof (np_take 1 n bs) as H. destruct (take 1 n bs) as [[[b n1] r]|e|w']; [|discriminate|exfalso; exact (H w' eq_refl)].
    destruct b as [|x [|y b]]; try discriminate. destruct (x =? 0)%N; [discriminate|]. destruct (x =? 1)%N; [|discriminate].
    pose proof (IHt lmt n1 r) as H2. destruct (decode t lmt n1 r) as [[[v n2] r2]|e|w']; [discriminate|discriminate|exfalso; exact (H2 w' eq_refl)].
  - pose proof (np_take 1 n bs) as H0. destruct (take 1 n bs) as [[[b n1] r]|e|w']; [|discriminate|exfalso; exact (H0 w' eq_refl)].
    destruct b as [|x [|y b]]; try discriminate. destruct (x =? 0)%N; [discriminate|].
    apply np_alts. induction H as [|kt alts Hk _ IH]; cbn [map]; [constructor|]. constructor; [cbn [snd]; intros n' bs'; apply Hk|exact IH].
Qed.

(* ---------- accounting: the count grows by exactly the bytes consumed ---------- *)
Definition consumed (n : Z) (bs : bytes) (n' : Z) (r : bytes) : Prop :=
  exists c, bs = c ++ r /\ n' = n + Z.of_nat (length c).

Lemma consumed_refl n bs : consumed n bs n bs.
Proof. exists []. split; [reflexivity|cbn; lia]. Qed.
Lemma consumed_trans n bs n1 r1 n2 r2 : consumed n bs n1 r1 -> consumed n1 r1 n2 r2 -> consumed n bs n2 r2.
Proof. intros (c1 & -> & ->) (c2 & -> & ->). exists (c1 ++ c2). rewrite app_assoc, app_length. split; [reflexivity|lia]. Qed.

Lemma take_consumed k n bs b n1 r : take k n bs = Ok (b, n1, r) -> consumed n bs n1 r /\ length b = k.
Proof.
  unfold take. destruct (Nat.ltb_spec (length bs) k) as [|Hk]; [discriminate|]. intro H. injection H as <- <- <-.
  split; [|rewrite firstn_length; lia]. exists (firstn k bs). rewrite firstn_skipn, firstn_length. split; [reflexivity|lia].
Qed.

Lemma dec_varint_suffix bs z rest : dec_varint bs = Some (z, rest) -> exists c, bs = c ++ rest.
Proof.
  destruct bs as [|b0 r]; [discriminate|]. cbn [dec_varint].
  destruct (8 <? _)%N; [discriminate|]. destruct (_ =? 0)%N.
  - destruct (N.eqb (b0 / 16) 15); [discriminate|]. intro H. injection H as _ <-. exists [b0]. reflexivity.
  - destruct (Nat.ltb _ _); [discriminate|]. intro H. injection H as _ <-.
    match goal with |- context [skipn ?k r] => exists (b0 :: firstn k r); cbn [List.app]; rewrite firstn_skipn; reflexivity end.
Qed.
Lemma read_varint_consumed n bs z n1 r : read_varint n bs = Ok (z, n1, r) -> consumed n bs n1 r.
Proof.
  unfold read_varint. destruct (dec_varint bs) as [[z' rest]|] eqn:E; [|discriminate]. intro H. injection H as _ <- <-.
  destruct (dec_varint_suffix _ _ _ E) as (c & ->). exists c. rewrite app_length. split; [reflexivity|lia].
Qed.
Lemma read_bytes_consumed lmt n bs b n1 r : read_bytes lmt n bs = Ok (b, n1, r) -> consumed n bs n1 r.
Proof.
  unfold read_bytes. destruct (read_varint n bs) as [[[len n0] r0]|e|w] eqn:E; try discriminate.
  destruct (len <? 0); [discriminate|]. destruct (_ && _); [discriminate|]. destruct (_ <? _); [discriminate|].
  intro H. apply take_consumed in H as [H _]. eapply consumed_trans; [eapply read_varint_consumed; exact E|exact H].
Qed.

Lemma loop_consumed (dec : decoder) lmt :
  (forall n bs v n' r, dec n bs = Ok (v, n', r) -> consumed n bs n' r) ->
  forall count n bs acc v n' r, dec_loop dec lmt count n bs acc = Ok (v, n', r) -> consumed n bs n' r.
Proof.
  intros Hd count. induction count as [|c IH]; intros n bs acc v n' r; cbn [dec_loop].
  - intro H. injection H as _ <- <-. apply consumed_refl.
  - destruct (dec n bs) as [[[x n2] r2]|e|w] eqn:E; try discriminate. destruct (over lmt n2); [discriminate|].
    intro H. eapply consumed_trans; [eapply Hd; exact E|eapply IH; exact H].
Qed.
Lemma fields_consumed (decs : list decoder) :
  Forall (fun d => forall n bs v n' r, d n bs = Ok (v, n', r) -> consumed n bs n' r) decs ->
  forall n bs acc v n' r, dec_fields decs n bs acc = Ok (v, n', r) -> consumed n bs n' r.
Proof.
  induction 1 as [|d dr Hd _ IH]; intros n bs acc v n' r; cbn [dec_fields].
  - intro H. injection H as _ <- <-. apply consumed_refl.
  - destruct (d n bs) as [[[x n2] r2]|e|w] eqn:E; try discriminate.
    intro H. eapply consumed_trans; [eapply Hd; exact E|eapply IH; exact H].
Qed.
Lemma alts_consumed (alts : list (N * decoder)) x :
  Forall (fun kd => forall n bs v n' r, snd kd n bs = Ok (v, n', r) -> consumed n bs n' r) alts ->
  forall n bs v n' r, dec_alts alts x n bs = Ok (v, n', r) -> consumed n bs n' r.
Proof.
  induction 1 as [|[k d] ar Hd _ IH]; intros n bs v n' r; cbn [dec_alts]; [discriminate|].
  destruct (N.eqb k x); [|apply IH]. cbn [snd] in Hd.
  destruct (d n bs) as [[[y n2] r2]|e|w] eqn:E; try discriminate. intro H. injection H as _ <- <-. eapply Hd. exact E.
Qed.

Theorem decode_consumed : forall t lmt n bs v n' r, decode t lmt n bs = Ok (v, n', r) -> consumed n bs n' r.
Proof.
  induction t using ty_ind2; intros lmt n bs v n' r; cbn [decode].
  - destruct (take k n bs) as [[[b n1] r1]|e|w] eqn:E; try discriminate. intro H. injection H as _ <- <-. apply (take_consumed _ _ _ _ _ _ E).
  - destruct (read_varint n bs) as [[[z n1] r1]|e|w] eqn:E; try discriminate. intro H. injection H as _ <- <-. apply (read_varint_consumed _ _ _ _ _ E).
  - destruct (take 1 n bs) as [[[b n1] r1]|e|w] eqn:E; try discriminate. intro H. injection H as _ <- <-. apply (take_consumed _ _ _ _ _ _ E).
  - destruct (read_bytes lmt n bs) as [[[b n1] r1]|e|w] eqn:E; try discriminate. intro H. injection H as _ <- <-. apply (read_bytes_consumed _ _ _ _ _ _ E).
  - destruct (take 8 n bs) as [[[b n1] r1]|e|w] eqn:E; try discriminate. destruct (_ =? 0); [|discriminate]. intro H. injection H as _ <- <-. apply (take_consumed _ _ _ _ _ _ E).
  - destruct (take k n bs) as [[[b n1] r1]|e|w] eqn:E; try discriminate. intro H. injection H as _ <- <-. apply (take_consumed _ _ _ _ _ _ E).
  - destruct (read_varint n bs) as [[[z n1] r1]|e|w] eqn:E; try discriminate. intro H.
    eapply consumed_trans; [eapply read_varint_consumed; exact E|]. eapply loop_consumed; [|exact H]. intros; eapply IHt; eassumption.
  - intro H. eapply loop_consumed; [|exact H]. intros; eapply IHt; eassumption.
  - assert (HF : Forall (fun d : decoder => forall n bs v n' r, d n bs = Ok (v, n', r) -> consumed n bs n' r) (map (fun f => decode f lmt) fs)).
    { induction H as [|f fs Hf _ IH]; cbn [map]; [constructor|]. constructor; [intros; eapply Hf; eassumption|exact IH]. }
    intro H0. eapply fields_consumed; [exact HF|exact H0].
  - destruct (take 1 n bs) as [[[b n1] r1]|e|w] eqn:E; try discriminate. apply take_consumed in E as [E _].
    destruct b as [|x [|y b]]; try discriminate. destruct (x =? 0)%N; [intro H; injection H as _ <- <-; exact E|].
    destruct (x =? 1)%N; [|discriminate]. destruct (decode t lmt n1 r1) as [[[y n2] r2]|e|w] eqn:E2; try discriminate.
    intro H. injection H as _ <- <-. eapply consumed_trans; [exact E|eapply IHt; exact E2].
  - destruct (take 1 n bs) as [[[b n1] r1]|e|w] eqn:E; try discriminate. apply take_consumed in E as [E _].
    destruct b as [|x [|y b]]; try discriminate. destruct (x =? 0)%N; [intro H0; injection H0 as _ <- <-; exact E|].
    assert (HF : Forall (fun kd : N * decoder => forall n bs v n' r, snd kd n bs = Ok (v, n', r) -> consumed n bs n' r) (map (fun kt => (fst kt, decode (snd kt) lmt)) alts)).
    { induction H as [|kt alts Hk _ IH]; cbn [map]; [constructor|]. constructor; [cbn [snd]; intros; eapply Hk; eassumption|exact IH]. }
    intro H0. eapply consumed_trans; [exact E|]. eapply alts_consumed; [exact HF|exact H0].
Qed.

(* ---------- the caller's limit ---------- *)
(* a successful ReadBinary under a limit consumed a prefix no longer than the limit *)
Theorem read_binary_within_limit t lmt bs v n : lmt <> 0 ->
  read_binary t lmt bs = Ok (v, n) -> n <= lmt /\ exists c r, bs = c ++ r /\ n = Z.of_nat (length c).
Proof.
  intros Hl. unfold read_binary. destruct (decode t lmt 0 bs) as [[[v' n'] r]|e|w] eqn:E; try discriminate.
  destruct (over lmt n') eqn:Ho; [discriminate|]. intro H. injection H as <- <-.
  destruct (decode_consumed _ _ _ _ _ _ _ E) as (c & -> & ->).
  split; [|exists c, r; split; [reflexivity|lia]].
  unfold over in Ho. destruct (Z.eqb_spec lmt 0); [contradiction|]. cbn [negb andb] in Ho. lia.
Qed.

(* the byte-slice decoder reaches its allocation only for a length within the limit, and only
   for a length the input prefix announced; with no limit the model allocates nothing the input
   does not hold (the implementation reads such lengths piecewise) *)
Theorem alloc_within_limit lmt n bs len : lmt <> 0 -> read_bytes_alloc lmt n bs = Some len -> 0 <= len <= lmt.
Proof.
  intros Hl. unfold read_bytes_alloc. destruct (read_varint n bs) as [[[l n1] r1]|e|w]; try discriminate.
  destruct (Z.ltb_spec l 0); [discriminate|]. destruct (Z.eqb_spec lmt 0); [contradiction|]. cbn [negb andb].
  destruct (Z.ltb_spec lmt (Z.max l (n1 + l))); [discriminate|]. intro Hs. injection Hs as <-. lia.
Qed.
Theorem read_bytes_ok_alloc lmt n bs b n1 r : read_bytes lmt n bs = Ok (b, n1, r) ->
  read_bytes_alloc lmt n bs = Some (Z.of_nat (length b)).
Proof.
  unfold read_bytes, read_bytes_alloc. destruct (read_varint n bs) as [[[l n0] r0]|e|w]; try discriminate.
  destruct (Z.ltb_spec l 0); [discriminate|]. destruct (_ && _); [discriminate|]. destruct (_ <? _); [discriminate|].
  intro Ht. apply take_consumed in Ht as [_ Ht]. rewrite Ht. rewrite Z2Nat.id by lia. reflexivity.
Qed.

(* ---------- corollaries ---------- *)
Theorem read_binary_roundtrip t v b lmt :
  wf_ty t = true -> wf_val t v = true -> encode t v = Some b ->
  (lmt = 0 \/ Z.of_nat (length b) <= lmt) -> read_binary t lmt b = Ok (v, Z.of_nat (length b)).
Proof.
  intros Hty Hwf He Hl. unfold read_binary.
  pose proof (roundtrip_all t v b lmt 0 [] Hty Hwf He ltac:(lia)) as H. rewrite app_nil_r in H.
  rewrite H by (destruct Hl; [left; assumption|right; lia]).
  rewrite over_false by (destruct Hl; [left; assumption|right; lia]). reflexivity.
Qed.

(* two values of a type with one encoding are the same value *)
Theorem encode_injective t v1 v2 b :
  wf_ty t = true -> wf_val t v1 = true -> wf_val t v2 = true -> encode t v1 = Some b -> encode t v2 = Some b -> v1 = v2.
Proof.
  intros Hty H1 H2 E1 E2.
  pose proof (read_binary_roundtrip t v1 b 0 Hty H1 E1 (or_introl eq_refl)) as R1.
  pose proof (read_binary_roundtrip t v2 b 0 Hty H2 E2 (or_introl eq_refl)) as R2.
  congruence.
Qed.
