(* Admission over histories (Model/AdmitHist.v): whatever validator-set changes and handshakes came
   before, a peer is admitted only if - at the moment of its handshake - it is not refused, announced
   the key it authenticated with, is not the node itself and, where certificate-authority admission
   is on, either is a validator exempt from it or holds a certificate made by a key that is a
   certificate authority in the validator set in force at that moment. *)
From Coq Require Import List NArith Bool.
From AnnVerif Require Import Base.Bytes Proofs.BytesProofs Model.Admission Model.AdmitHist.
Import ListNotations.

Definition admitted_rightly (c : acfg) (vs : list cval) (h : hshake) : Prop :=
  refused c (h_auth h) = false /\ h_announced h = h_auth h /\ h_announced h <> ac_self c /\
  (ac_auth_by_ca c = true ->
     (is_val vs (h_announced h) = true /\ ac_nonval_auth c = false) \/
     (exists s, h_cert h = CertBy s /\ is_ca vs s = true)).

Lemma admit1_sound c vs h : admit1 c vs h = PeerAdmitted -> admitted_rightly c vs h.
Proof.
  unfold admit1, admitted_rightly, ca_check.
  destruct (refused c (h_auth h)); [discriminate|].
  destruct (ac_auth_by_ca c) eqn:Ea; cbn [andb].
  - destruct (is_val vs (h_announced h) && negb (ac_nonval_auth c)) eqn:Ev.
    + cbn [negb]. destruct (bytes_eqb (h_announced h) (h_auth h)) eqn:Ek; cbn [negb]; [|discriminate].
      destruct (bytes_eqb (h_announced h) (ac_self c)) eqn:Es; [discriminate|]. intros _.
      apply andb_true_iff in Ev as [E1 E2]. apply negb_true_iff in E2.
      split; [reflexivity|]. split; [apply bytes_eqb_eq; exact Ek|]. split.
      * intro H. rewrite H, bytes_eqb_refl in Es. discriminate.
      * intros _. left. auto.
    + destruct (h_cert h) as [s| |] eqn:Ec; try (cbn [negb]; discriminate).
      destruct (is_ca vs s) eqn:Eca; cbn [negb]; [|discriminate].
      destruct (bytes_eqb (h_announced h) (h_auth h)) eqn:Ek; cbn [negb]; [|discriminate].
      destruct (bytes_eqb (h_announced h) (ac_self c)) eqn:Es; [discriminate|]. intros _.
      split; [reflexivity|]. split; [apply bytes_eqb_eq; exact Ek|]. split.
      * intro H. rewrite H, bytes_eqb_refl in Es. discriminate.
      * intros _. right. exists s. auto.
  - destruct (bytes_eqb (h_announced h) (h_auth h)) eqn:Ek; cbn [negb]; [|discriminate].
    destruct (bytes_eqb (h_announced h) (ac_self c)) eqn:Es; [discriminate|]. intros _.
    split; [reflexivity|]. split; [apply bytes_eqb_eq; exact Ek|]. split.
    + intro H. rewrite H, bytes_eqb_refl in Es. discriminate.
    + discriminate.
Qed.

(* every decision of a run was taken under the set in force after the events before it *)
Lemma arun_in_force c : forall evs vs0 vs h o, In (vs, h, o) (arun c vs0 evs) ->
  exists pre post, evs = pre ++ AHandshake h :: post /\ vs = vals_after vs0 pre /\ o = admit1 c vs h.
Proof.
  induction evs as [|e t IH]; intros vs0 vs h o Hin; [destruct Hin|].
  destruct e as [vs'|h']; cbn [arun] in Hin.
  - destruct (IH _ _ _ _ Hin) as (pre & post & E & Ev & Eo).
    exists (ASetVals vs' :: pre), post. subst t. auto.
  - destruct Hin as [Hin|Hin].
    + injection Hin as <- <- <-. exists [], t. auto.
    + destruct (IH _ _ _ _ Hin) as (pre & post & E & Ev & Eo).
      exists (AHandshake h' :: pre), post. subst t. auto.
Qed.

Theorem history_admission_sound c evs vs0 vs h :
  In (vs, h, PeerAdmitted) (arun c vs0 evs) ->
  (exists pre post, evs = pre ++ AHandshake h :: post /\ vs = vals_after vs0 pre) /\ admitted_rightly c vs h.
Proof.
  intro Hin. destruct (arun_in_force _ _ _ _ _ _ Hin) as (pre & post & E & Ev & Eo).
  split; [exists pre, post; auto|]. apply admit1_sound. symmetry. exact Eo.
Qed.

(* what was decided earlier has no bearing: a run after a prefix is the run from the set in force *)
Theorem history_is_forgotten c pre evs vs0 :
  arun c vs0 (pre ++ evs) = arun c vs0 pre ++ arun c (vals_after vs0 pre) evs.
Proof.
  revert vs0. induction pre as [|e t IH]; intro vs0; [reflexivity|].
  destruct e as [vs'|h']; cbn [arun vals_after app]; rewrite IH; reflexivity.
Qed.
