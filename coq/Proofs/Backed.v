(* Every +2/3 majority a node sees in any of its vote sets is backed by votes that were delivered
   to it: valid votes (right height, round, type, signature verifying under the key of the index)
   of distinct validators holding more than two thirds of the power.  This lifts the vote-set
   invariant of C15 through HeightVoteSet (rounds added on demand, peer catch-up rounds, votes
   routed by round and type) - the link between what a node believes and what was sent. *)
From Coq Require Import List NArith ZArith Lia Bool.
From AnnVerif Require Import Base.Res Base.Bytes Model.VoteSet Model.ValSet Model.Node
  Proofs.PowerSum Proofs.VoteSetProofs Proofs.NodeProofs.
Import ListNotations.
Open Scope Z_scope.

Section Backed.
Variable vals : list validator.
Hypothesis Hbounded : bounded vals.

(* soundness from the invariant itself *)
Lemma Inv_maj23_sound H R T offered vs b :
  Inv vals H R T offered vs -> vs_maj23 vs = Some b ->
  two_thirds vals < pow_of vals (voted_for vals H R T offered b).
Proof.
  intros [A B C D E F G I J K L] Hm.
  destruct (J b Hm) as (bv & Hl & Hq & _).
  destruct (I _ _ Hl) as (I1 & I2 & I3 & _).
  rewrite quorum_spec in Hq by assumption.
  assert (Hle : bv_sum bv <= pow_of vals (voted_for vals H R T offered b)).
  { rewrite I3. unfold psum. apply pow_from_mono; [apply Hbounded|].
    intros i _ Hs. specialize (I2 i). destruct (nth i (bv_votes bv) None) as [v|]; [|discriminate].
    simpl in I2. destruct I2 as (Hv & Hi & Hin & Hk).
    unfold voted_for. apply existsb_exists. exists v. split; [exact Hin|].
    rewrite (valid_b_of_valid _ _ _ _ _ Hv). rewrite Hi, Nat.eqb_refl. cbn [andb].
    apply bid_eqb_eq. apply bid_key_inj. exact Hk. }
  lia.
Qed.

Lemma voted_for_incl H R T off off' b i : incl off off' ->
  voted_for vals H R T off b i = true -> voted_for vals H R T off' b i = true.
Proof.
  intros Hi. unfold voted_for. rewrite !existsb_exists. intros (v & Hin & Hv). exists v. split; [apply Hi; exact Hin|exact Hv].
Qed.

(* a vote set whose content comes from votes among [offered] *)
Definition set_ok (offered : list vote) (H R : Z) (T : N) (vs : voteset) : Prop :=
  exists off, Inv vals H R T off vs /\ incl off offered.

Lemma set_ok_mono off off' H R T vs : incl off off' -> set_ok off H R T vs -> set_ok off' H R T vs.
Proof. intros Hi (o & HI & Ho). exists o. split; [exact HI|]. intros x Hx. apply Hi, Ho, Hx. Qed.

Lemma set_ok_maj off H R T vs b : set_ok off H R T vs -> vs_maj23 vs = Some b ->
  two_thirds vals < pow_of vals (voted_for vals H R T off b).
Proof.
  intros (o & HI & Ho) Hm. pose proof (Inv_maj23_sound H R T o vs b HI Hm) as Hs.
  eapply Z.lt_le_trans; [exact Hs|]. apply pow_from_mono; [apply Hbounded|].
  intros i _. now apply voted_for_incl.
Qed.

Definition hvs_ok (offered : list vote) (h : hvs) : Prop :=
  hv_vals h = vals /\
  forall r rv, zlookup r (hv_sets h) = Some rv ->
    set_ok offered (hv_height h) r 1%N (rv_pre rv) /\ set_ok offered (hv_height h) r 2%N (rv_cmt rv).

Lemma hvs_ok_mono off off' h : incl off off' -> hvs_ok off h -> hvs_ok off' h.
Proof.
  intros Hi (Hv & Hs). split; [exact Hv|]. intros r rv Hl. destruct (Hs r rv Hl) as [A B].
  split; eapply set_ok_mono; eauto.
Qed.

Lemma zlookup_app_new {A} k (l : list (Z * A)) k' v x :
  zlookup k (l ++ [(k', v)]) = Some x -> zlookup k l = Some x \/ (zlookup k l = None /\ k' = k /\ x = v).
Proof.
  induction l as [|[j w] t IH]; cbn.
  - destruct (Z.eqb_spec k' k); [intro E; injection E as <-; right; auto|discriminate].
  - destruct (j =? k); [intro E; left; exact E|exact IH].
Qed.

Lemma hv_add_round_ok off h r h' : hvs_ok off h -> hv_add_round h r = Ok h' ->
  hvs_ok off h' /\ hv_height h' = hv_height h.
Proof.
  intros (Hv & Hs). unfold hv_add_round. destruct (zlookup r (hv_sets h)); [discriminate|].
  destruct (new_voteset (hv_height h) r 1 (hv_vals h)) as [a|e1|w1] eqn:Ea;
    destruct (new_voteset (hv_height h) r 2 (hv_vals h)) as [b|e2|w2] eqn:Eb; try discriminate.
  intro E. injection E as <-. cbn [hv_height hv_vals hv_sets]. split; [|reflexivity]. split; [exact Hv|].
  intros r0 rv Hl. apply zlookup_app_new in Hl. destruct Hl as [Hl|(_ & -> & ->)]; [exact (Hs r0 rv Hl)|].
  cbn [rv_pre rv_cmt]. rewrite Hv in Ea, Eb.
  split; (eexists []; split; [apply Inv_new; assumption|intros x []]).
Qed.

Lemma hv_add_rounds_ok off count : forall h from h', hvs_ok off h -> hv_add_rounds h from count = Ok h' ->
  hvs_ok off h' /\ hv_height h' = hv_height h.
Proof.
  induction count as [|c IH]; intros h from h' Hok; cbn [hv_add_rounds].
  - intro E. injection E as <-. auto.
  - destruct (zlookup from (hv_sets h)); [now apply IH|].
    destruct (hv_add_round h from) as [h1| |] eqn:E1; try discriminate. intro E2.
    destruct (hv_add_round_ok _ _ _ _ Hok E1) as [O1 H1]. destruct (IH _ _ _ O1 E2) as [O2 H2]. split; [exact O2|congruence].
Qed.

Lemma hv_set_round_ok off h r h' : hvs_ok off h -> hv_set_round h r = Ok h' -> hvs_ok off h' /\ hv_height h' = hv_height h.
Proof.
  intros Hok. unfold hv_set_round. destruct (_ && _); [discriminate|].
  destruct (hv_add_rounds _ _ _) as [h1| |] eqn:E; try discriminate. intro E2. injection E2 as <-.
  destruct (hv_add_rounds_ok _ _ _ _ _ Hok E) as [(Hv & Hs) Hh]. split; [split; [exact Hv|exact Hs]|exact Hh].
Qed.

Lemma new_hvs_ok h0 hv : new_hvs h0 vals = Ok hv -> hvs_ok [] hv /\ hv_height hv = h0.
Proof.
  unfold new_hvs. intro E.
  assert (H0 : hvs_ok [] (mkHvs h0 vals 0 [] [])) by (split; [reflexivity|intros r rv Hl; discriminate]).
  destruct (hv_add_round_ok _ _ _ _ H0 E) as [A B]. split; [exact A|exact B].
Qed.

Lemma hv_get_ok off h r t vs : hvs_ok off h -> (t = 1%N \/ t = 2%N) -> hv_get h r t = Some vs -> set_ok off (hv_height h) r t vs.
Proof.
  intros (Hv & Hs) Ht. unfold hv_get, hv_prevotes, hv_precommits.
  destruct Ht as [-> | ->]; cbn [N.eqb Pos.eqb]; destruct (zlookup r (hv_sets h)) as [rv|] eqn:El; cbn; try discriminate;
    intro E; injection E as <-; apply (Hs r rv El).
Qed.

Lemma hv_put_ok off h r t vs : hvs_ok off h -> (t = 1%N \/ t = 2%N) -> set_ok off (hv_height h) r t vs -> hvs_ok off (hv_put h r t vs).
Proof.
  intros (Hv & Hs) Ht Hvs. unfold hv_put. destruct (zlookup r (hv_sets h)) as [rv|] eqn:El; [|split; assumption].
  split; [exact Hv|]. cbn [hv_sets hv_height]. intros r0 rv0 Hl.
  destruct (Z.eq_dec r r0) as [<-|Hne].
  - rewrite zlookup_zupdate_eq in Hl. injection Hl as <-. destruct (Hs r rv El) as [A B].
    destruct Ht as [-> | ->]; cbn [N.eqb Pos.eqb rv_pre rv_cmt]; split; assumption.
  - rewrite zlookup_zupdate_neq in Hl by exact Hne. exact (Hs r0 rv0 Hl).
Qed.

Lemma hv_put_height h r t vs : hv_height (hv_put h r t vs) = hv_height h.
Proof. unfold hv_put. destruct (zlookup r (hv_sets h)); reflexivity. Qed.

Lemma hv_add_vote_ok off h v peer h' a c : hvs_ok off h -> hv_add_vote h v peer = Ok (h', a, c) ->
  hvs_ok (v :: off) h' /\ hv_height h' = hv_height h.
Proof.
  intros Hok. unfold hv_add_vote.
  destruct (N.eqb (v_type v) 1 || N.eqb (v_type v) 2) eqn:Et; cbn [negb].
  2:{ intro E. injection E as <- _ _. split; [eapply hvs_ok_mono; [|exact Hok]; intros x Hx; right; exact Hx|reflexivity]. }
  assert (Ht : v_type v = 1%N \/ v_type v = 2%N).
  { apply orb_true_iff in Et. destruct Et as [E|E]; apply N.eqb_eq in E; auto. }
  assert (Go : forall h1, hvs_ok off h1 ->
            match hv_get h1 (v_round v) (v_type v) with
            | None => Panic 34
            | Some vs => match add_vote vs v with
                         | Ok (vs', added, code) => Ok (hv_put h1 (v_round v) (v_type v) vs', added, code)
                         | Err e => Err e | Panic w => Panic w end
            end = Ok (h', a, c) -> hvs_ok (v :: off) h' /\ hv_height h' = hv_height h1).
  { intros h1 Hok1. destruct (hv_get h1 (v_round v) (v_type v)) as [vs|] eqn:Eg; [|discriminate].
    destruct (hv_get_ok _ _ _ _ _ Hok1 Ht Eg) as (o & HI & Ho).
    destruct (add_vote_Inv vals _ _ _ Hbounded o vs v HI) as (vs' & a' & c' & Hav & HI' & _).
    rewrite Hav. intro E. injection E as <- _ _. split; [|apply hv_put_height].
    apply hv_put_ok; [eapply hvs_ok_mono; [|exact Hok1]; intros x Hx; right; exact Hx|exact Ht|].
    exists (v :: o). split; [exact HI'|]. intros x [<-|Hx]; [left; reflexivity|right; apply Ho; exact Hx]. }
  cbv zeta. destruct (hv_get h (v_round v) (v_type v)) as [vs0|] eqn:Eg0.
  - intro E. apply (Go h Hok). rewrite Eg0. exact E.
  - destruct (Nat.ltb _ 2); [|intro E; injection E as <- _ _; split; [eapply hvs_ok_mono; [|exact Hok]; intros x Hx; right; exact Hx|reflexivity]].
    destruct (hv_add_round h (v_round v)) as [h1| |] eqn:E1; try discriminate.
    destruct (hv_add_round_ok _ _ _ _ Hok E1) as [(Hv1 & Hs1) Hh1]. intro E.
    destruct (Go (mkHvs (hv_height h1) (hv_vals h1) (hv_round h1) (hv_sets h1) _) (conj Hv1 Hs1) E) as [A B].
    split; [exact A|]. rewrite B. exact Hh1.
Qed.

Lemma hv_set_peer_ok off h r t peer b : hvs_ok off h -> hvs_ok off (hv_set_peer_maj23 h r t peer b).
Proof.
  intros Hok. unfold hv_set_peer_maj23. destruct (N.eqb t 1 || N.eqb t 2) eqn:Et; cbn [negb]; [|exact Hok].
  assert (Ht : t = 1%N \/ t = 2%N) by (apply orb_true_iff in Et; destruct Et as [E|E]; apply N.eqb_eq in E; auto).
  destruct (hv_get h r t) as [vs|] eqn:Eg; [|exact Hok].
  apply hv_put_ok; [exact Hok|exact Ht|]. destruct (hv_get_ok _ _ _ _ _ Hok Ht Eg) as (o & HI & Ho).
  exists o. split; [apply Inv_set_peer; assumption|exact Ho].
Qed.

(* what a node's majority means *)
Lemma polka_backed off h r b : hvs_ok off h -> maj23 (hv_prevotes h r) = Some b ->
  two_thirds vals < pow_of vals (voted_for vals (hv_height h) r 1%N off b).
Proof.
  intros Hok Hm. destruct (hv_prevotes h r) as [vs|] eqn:E; [|discriminate]. cbn in Hm.
  eapply set_ok_maj; [|exact Hm]. apply (hv_get_ok off h r 1%N vs Hok (or_introl eq_refl)). exact E.
Qed.
Lemma commit_backed off h r b : hvs_ok off h -> maj23 (hv_precommits h r) = Some b ->
  two_thirds vals < pow_of vals (voted_for vals (hv_height h) r 2%N off b).
Proof.
  intros Hok Hm. destruct (hv_precommits h r) as [vs|] eqn:E; [|discriminate]. cbn in Hm.
  eapply set_ok_maj; [|exact Hm]. apply (hv_get_ok off h r 2%N vs Hok (or_intror eq_refl)). exact E.
Qed.

End Backed.
