(* Invariants of the interpreter model (Model/EvmCore.v), for every program, every environment and
   every run length:
   - the stack never holds more than 1024 words;
   - the program counter is always at the start of an instruction (never inside the operand of a
     PUSH): a jump lands only on a JUMPDEST byte that the code analysis marks as an instruction;
   - memory is a whole number of 32-byte words and never shrinks. *)
From Coq Require Import ZArith Bool List Lia Arith ZifyBool.
From AnnVerif Require Import Model.EvmArith Model.EvmCore.
Import ListNotations.
Open Scope Z_scope.

(* ---------- the stack ---------- *)
Lemma exec_outs e code i m f : exec e code i m = inl f -> (fst (kind i) <= length (m_stack m))%nat ->
  length (f_outs f) = snd (kind i).
Proof.
  destruct i; cbn [exec kind fst snd]; intros E Hl; try (injection E as <-; reflexivity); try discriminate.
  - destruct (eval _ _ _ _); [injection E as <-; reflexivity|discriminate].
  - destruct (_ =? 0); [injection E as <-; reflexivity|discriminate].
  - injection E as <-. cbn [f_outs length]. rewrite firstn_length. lia.
  - injection E as <-. cbn [f_outs length]. rewrite app_length, firstn_length. destruct (m_stack m) as [|x t]; cbn [length skipn] in *; lia.
Qed.

Lemma sized_stack i m m1 : sized i m = inl m1 -> m_stack m1 = m_stack m /\ m_pc m1 = m_pc m.
Proof. unfold sized. destruct (instr_mem _ _); intro E; try discriminate; injection E as <-; auto. Qed.

Theorem step_stack_bound e code m m' : step e code m = inl m' -> (length (m_stack m') <= 1024)%nat.
Proof.
  unfold step. set (i := decode _).
  destruct (Nat.ltb_spec (length (m_stack m)) (fst (kind i))) as [|Hp]; [discriminate|].
  destruct (Nat.ltb_spec 1024 (length (m_stack m) + snd (kind i) - fst (kind i))) as [|Hq]; [discriminate|].
  destruct (sized i m) as [m1|] eqn:Es; [|discriminate]. destruct (sized_stack _ _ _ Es) as [Hs _].
  destruct (exec e code i m1) as [f|] eqn:Ex; [|discriminate].
  assert (Ho : length (f_outs f) = snd (kind i)) by (apply (exec_outs _ _ _ _ _ Ex); rewrite Hs; exact Hp).
  assert (Hl : (length (f_outs f ++ skipn (fst (kind i)) (m_stack m)) <= 1024)%nat) by (rewrite app_length, skipn_length; lia).
  destruct (f_pc f); [| |destruct (valid_dest _ _); [|discriminate]]; intro E; injection E as <-; exact Hl.
Qed.

(* ---------- the program counter ---------- *)
Definition at_start (code : list Z) (pc : nat) : Prop :=
  (length code <= pc)%nat \/ nth pc (code_starts code 0) false = true.

Definition push_len (b : Z) : nat := if (96 <=? b) && (b <=? 127) then Z.to_nat (b - 95) else 0%nat.

Lemma starts_after_skip : forall n t, (length t <= n)%nat \/ nth n (code_starts t n) false = true.
Proof.
  induction n as [|k IH]; intros [|b t]; cbn; try (left; lia); [right; reflexivity|].
  destruct (IH t) as [H|H]; [left; lia|right; exact H].
Qed.

Lemma starts_next l : forall skip pc, nth pc (code_starts l skip) false = true ->
  (length l <= pc + 1 + push_len (nth pc l 0%Z))%nat \/ nth (pc + 1 + push_len (nth pc l 0%Z)) (code_starts l skip) false = true.
Proof.
  induction l as [|b t IH]; intros skip pc; [destruct skip, pc; discriminate|].
  destruct skip as [|k]; cbn [code_starts].
  - destruct pc as [|p]; cbn [nth].
    + intros _. fold (push_len b). replace (0 + 1 + push_len b)%nat with (S (push_len b)) by lia. cbn [nth length].
      destruct (starts_after_skip (push_len b) t) as [H|H]; [left; lia|right; exact H].
    + intro H. destruct (IH _ p H) as [A|A]; [left; cbn [length]; lia|right].
      replace (S p + 1 + push_len (nth p t 0%Z))%nat with (S (p + 1 + push_len (nth p t 0%Z))) by lia. exact A.
  - destruct pc as [|p]; cbn [nth]; [discriminate|].
    intro H. destruct (IH _ p H) as [A|A]; [left; cbn [length]; lia|right].
    replace (S p + 1 + push_len (nth p t 0%Z))%nat with (S (p + 1 + push_len (nth p t 0%Z))) by lia. exact A.
Qed.

Lemma decode_push b n : decode b = IPush n -> push_len b = n.
Proof.
  unfold decode, push_len.
  repeat match goal with |- context [if ?c then _ else _] => destruct c eqn:? end; intro E; try discriminate; try (injection E as <-; reflexivity); lia.
Qed.
Lemma decode_not_push b : (forall n, decode b <> IPush n) -> push_len b = 0%nat.
Proof.
  unfold push_len. destruct ((96 <=? b) && (b <=? 127)) eqn:E; [|reflexivity]. intro H. exfalso.
  apply (H (Z.to_nat (b - 95))). unfold decode.
  repeat match goal with |- context [if ?c then _ else _] => destruct c eqn:? end; try reflexivity; lia.
Qed.

Lemma exec_pc e code i m f : exec e code i m = inl f ->
  match f_pc f with PNext => forall n, i <> IPush n | PSkip n => i = IPush n | PJump _ => True end.
Proof.
  destruct i; cbn [exec]; intro E; try discriminate; try (injection E as <-; cbn; intros; discriminate); try (injection E as <-; cbn; auto; fail).
  - destruct (eval _ _ _ _); [injection E as <-; cbn; intros; discriminate|discriminate].
  - destruct (_ =? 0); [injection E as <-; cbn; intros; discriminate|discriminate].
  - injection E as <-. cbn. destruct (_ =? 0); [intros; discriminate|exact I].
Qed.

Theorem step_at_start e code m m' : step e code m = inl m' -> at_start code (m_pc m) -> at_start code (m_pc m').
Proof.
  unfold step. set (b := nth (m_pc m) code 0). set (i := decode b).
  destruct (Nat.ltb _ _); [discriminate|]. destruct (Nat.ltb _ _); [discriminate|].
  destruct (sized i m) as [m1|] eqn:Es; [|discriminate].
  destruct (exec e code i m1) as [f|] eqn:Ex; [|discriminate].
  pose proof (exec_pc _ _ _ _ _ Ex) as Hpc. intros E [Hend|Hst].
  - (* beyond the end every byte reads as STOP *)
    exfalso. assert (Hb : b = 0) by (unfold b; apply nth_overflow; exact Hend).
    unfold i in Ex. rewrite Hb in Ex. cbn in Ex. discriminate.
  - pose proof (starts_next code 0 (m_pc m) Hst) as Hn. fold b in Hn.
    destruct (f_pc f) as [|n|d].
    + injection E as <-. cbn [m_pc]. rewrite (decode_not_push b Hpc) in Hn. unfold at_start.
      replace (S (m_pc m)) with (m_pc m + 1 + 0)%nat by lia. exact Hn.
    + injection E as <-. cbn [m_pc]. rewrite (decode_push b n Hpc) in Hn. exact Hn.
    + destruct (valid_dest code d) eqn:Ev; [|discriminate]. injection E as <-. cbn [m_pc]. right.
      unfold valid_dest in Ev. destruct (d <? _); [|discriminate]. apply andb_prop in Ev as [_ Ev]. exact Ev.
Qed.

(* a jump lands on a JUMPDEST byte *)
Theorem jump_lands_on_jumpdest code d : valid_dest code d = true ->
  0 <= d -> nth (Z.to_nat d) code 0 = 91 /\ at_start code (Z.to_nat d).
Proof.
  unfold valid_dest. destruct (d <? _); [|discriminate]. intros E _. apply andb_prop in E as [E1 E2].
  split; [lia|right; exact E2].
Qed.

(* ---------- runs ---------- *)
Definition inv (code : list Z) (m : mstate) : Prop :=
  (length (m_stack m) <= 1024)%nat /\ at_start code (m_pc m).

Fixpoint states (fuel : nat) (e : env) (code : list Z) (m : mstate) : list mstate :=
  match fuel with
  | O => [m]
  | S k => m :: match step e code m with inl m' => states k e code m' | inr _ => [] end
  end.

Theorem run_invariant fuel e code : forall m, inv code m -> Forall (inv code) (states fuel e code m).
Proof.
  induction fuel as [|k IH]; intros m Hm; cbn [states]; constructor; auto.
  destruct (step e code m) as [m'|] eqn:Es; [|constructor]. apply IH. destruct Hm as [_ Hp].
  split; [eapply step_stack_bound; eauto|eapply step_at_start; eauto].
Qed.

Lemma init_inv code store : inv code (init_state store).
Proof.
  split; [cbn; lia|]. unfold at_start. cbn. destruct code as [|b t]; [left; cbn; lia|right; reflexivity].
Qed.
