(* Agreement for one height from the causal honest-validator rules R0-R3, for weighted validators
   with Byzantine power below one third.  The trace is the global, ordered history of signed
   votes; every rule refers to the prefix before the event it constrains.  The rules are what
   Model.Node guarantees of an honest validator (Proofs/NodeProofs.v, Proofs/SignerProofs.v):
   R0/R1 from the signer, R2 from the precommit rule, R3 from the lock invariant, and a commit
   needs +2/3 precommits in one round (the commit rule). *)
From Coq Require Import List ZArith Lia Bool.
Import ListNotations.
Open Scope Z_scope.

Section Protocol.
Variable val : Type.
Variable val_eqb : val -> val -> bool.
Hypothesis val_eqb_spec : forall a b, reflect (a = b) (val_eqb a b).
Variable blk : Type.
Variable blk_eqb : blk -> blk -> bool.
Hypothesis blk_eqb_spec : forall a b, reflect (a = b) (blk_eqb a b).

Variable vals : list val.
Hypothesis vals_nodup : NoDup vals.
Variable power : val -> Z.
Hypothesis power_nonneg : forall v, 0 <= power v.
Variable byz : val -> bool.

Fixpoint pow (P : val -> bool) (l : list val) : Z :=
  match l with [] => 0 | v :: l' => (if P v then power v else 0) + pow P l' end.
Definition powS (P : val -> bool) := pow P vals.
Definition total := powS (fun _ => true).
Hypothesis byz_bound : 3 * powS byz < total.

Inductive vtype := Prevote | Precommit.
Definition vtype_eqb a b := match a, b with Prevote, Prevote | Precommit, Precommit => true | _, _ => false end.
Record vote := { voter : val; vround : nat; vty : vtype; vval : option blk }.
Definition trace := list vote.

Definition oeqb (a b : option blk) : bool :=
  match a, b with Some x, Some y => blk_eqb x y | None, None => true | _, _ => false end.
Lemma oeqb_spec a b : reflect (a = b) (oeqb a b).
Proof.
  destruct a as [x|], b as [y|]; simpl; try (constructor; congruence).
  destruct (blk_eqb_spec x y); constructor; congruence.
Qed.

Definition is_vote (v : val) (r : nat) (t : vtype) (x : option blk) (e : vote) : bool :=
  val_eqb (voter e) v && Nat.eqb (vround e) r && vtype_eqb (vty e) t && oeqb (vval e) x.
Definition voted (tr : trace) (r : nat) (t : vtype) (x : option blk) (v : val) : bool :=
  existsb (is_vote v r t x) tr.
Definition quorum (P : val -> bool) : Prop := 2 * total < 3 * powS P.
Definition polka (tr : trace) (r : nat) (x : option blk) := quorum (voted tr r Prevote x).
Definition commitq (tr : trace) (r : nat) (b : blk) := quorum (voted tr r Precommit (Some b)).

Definition honest (v : val) := byz v = false.

(* lexicographic (round, step) *)
Definition step_le (r1 : nat) (t1 : vtype) (r2 : nat) (t2 : vtype) : Prop :=
  (r1 < r2)%nat \/ (r1 = r2 /\ (t1 = Prevote \/ t2 = Precommit)).

Definition R0 (tr : trace) := forall pre e post, tr = pre ++ e :: post -> honest (voter e) ->
  forall e0, In e0 pre -> voter e0 = voter e -> step_le (vround e0) (vty e0) (vround e) (vty e).
Definition R1 (tr : trace) := forall pre e post, tr = pre ++ e :: post -> honest (voter e) ->
  forall e0, In e0 pre -> voter e0 = voter e -> vround e0 = vround e -> vty e0 = vty e -> False.
Definition R2 (tr : trace) := forall pre e post b, tr = pre ++ e :: post -> honest (voter e) ->
  vty e = Precommit -> vval e = Some b -> polka pre (vround e) (Some b).
Definition R3 (tr : trace) := forall pre e post e0 b, tr = pre ++ e :: post -> honest (voter e) ->
  vty e = Prevote -> In e0 pre -> voter e0 = voter e -> vty e0 = Precommit -> vval e0 = Some b ->
  (vround e0 < vround e)%nat -> vval e <> Some b ->
  exists r'' y, (vround e0 < r'' <= vround e)%nat /\ y <> Some b /\ polka pre r'' y.

(* ---------- arithmetic on weighted sets ---------- *)
Lemma pow_nonneg P l : 0 <= pow P l.
Proof. induction l as [|v l IH]; simpl; [lia|]. destruct (P v); specialize (power_nonneg v); lia. Qed.

Lemma pow_inter P Q l : pow P l + pow Q l <= pow (fun _ => true) l + pow (fun v => P v && Q v) l.
Proof.
  induction l as [|v l IH]; cbn [pow]; [lia|].
  pose proof (power_nonneg v) as Hn. destruct (P v), (Q v); cbn [andb]; lia.
Qed.

Lemma pow_pos_ex P l : 0 < pow P l -> exists v, In v l /\ P v = true.
Proof.
  induction l as [|v l IH]; simpl; [lia|]. intros H.
  destruct (P v) eqn:E; [exists v; auto|]. destruct IH as [w [Hw Hp]]; [lia|]. exists w; auto.
Qed.

Lemma pow_mono P Q l : (forall v, In v l -> P v = true -> Q v = true) -> pow P l <= pow Q l.
Proof.
  induction l as [|v l IH]; simpl; intros H; [lia|].
  specialize (power_nonneg v).
  assert (pow P l <= pow Q l) by (apply IH; intros; apply H; auto).
  destruct (P v) eqn:E; [rewrite (H v (or_introl eq_refl) E); lia|]. destruct (Q v); lia.
Qed.

Lemma pow_split P l : pow P l = pow (fun v => P v && byz v) l + pow (fun v => P v && negb (byz v)) l.
Proof. induction l as [|v l IH]; simpl; [lia|]. destruct (P v), (byz v); simpl; lia. Qed.

(* a quorum and a set of honest validators with more than a third of the power meet *)
Lemma quorum_meets P S : quorum P -> total < 3 * powS S -> exists v, In v vals /\ P v = true /\ S v = true.
Proof.
  unfold quorum, total, powS. intros HP HS.
  pose proof (pow_inter P S vals) as Hi.
  destruct (pow_pos_ex (fun v => P v && S v) vals) as [v [Hv Hb]]; [lia|].
  apply andb_true_iff in Hb. exists v; tauto.
Qed.

(* the honest part of a quorum has more than a third *)
Lemma quorum_honest_third P : quorum P -> total < 3 * powS (fun v => P v && negb (byz v)).
Proof.
  unfold quorum, powS. intros HP. rewrite (pow_split P vals) in HP.
  assert (pow (fun v => P v && byz v) vals <= pow byz vals).
  { apply pow_mono. intros v _ H. apply andb_true_iff in H; tauto. }
  unfold powS in byz_bound. lia.
Qed.

(* ---------- trace facts ---------- *)
Lemma voted_In tr r t x v : voted tr r t x v = true ->
  exists e, In e tr /\ voter e = v /\ vround e = r /\ vty e = t /\ vval e = x.
Proof.
  unfold voted. rewrite existsb_exists. intros [e [Hin He]]. exists e. split; [exact Hin|].
  unfold is_vote in He. repeat (apply andb_true_iff in He; destruct He as [He ?]).
  destruct (val_eqb_spec (voter e) v); [|discriminate].
  apply Nat.eqb_eq in H1.
  destruct (oeqb_spec (vval e) x); [|discriminate].
  destruct (vty e), t; simpl in *; try discriminate; auto.
Qed.

Lemma In_voted tr e : In e tr -> voted tr (vround e) (vty e) (vval e) (voter e) = true.
Proof.
  intros H. unfold voted. rewrite existsb_exists. exists e. split; [exact H|].
  unfold is_vote. destruct (val_eqb_spec (voter e) (voter e)); [|congruence].
  rewrite Nat.eqb_refl. destruct (oeqb_spec (vval e) (vval e)); [|congruence].
  destruct (vty e); reflexivity.
Qed.

Lemma voted_app_l pre post r t x v : voted pre r t x v = true -> voted (pre ++ post) r t x v = true.
Proof. unfold voted. rewrite existsb_app. intros ->. reflexivity. Qed.

Lemma quorum_mono P Q : (forall v, In v vals -> P v = true -> Q v = true) -> quorum P -> quorum Q.
Proof. unfold quorum, powS. intros H HP. pose proof (pow_mono P Q vals H). lia. Qed.

Lemma polka_app_l pre post r x : polka pre r x -> polka (pre ++ post) r x.
Proof. apply quorum_mono. intros v _. apply voted_app_l. Qed.

(* two events of one honest validator in the same slot are the same event position-wise:
   we only need: equal values *)
Lemma slot_unique tr : R1 tr -> forall e1 e2, In e1 tr -> In e2 tr -> honest (voter e1) ->
  voter e1 = voter e2 -> vround e1 = vround e2 -> vty e1 = vty e2 -> vval e1 = vval e2.
Proof.
  intros HR1. induction tr as [|a tr IH] using rev_ind; [simpl; tauto|].
  intros e1 e2 H1 H2 Hh Hv Hr Ht.
  assert (HR1' : R1 tr).
  { intros pre e post Heq. apply (HR1 pre e (post ++ [a])). rewrite Heq, <- app_assoc. reflexivity. }
  apply in_app_or in H1. apply in_app_or in H2.
  destruct H1 as [H1|[H1|[]]], H2 as [H2|[H2|[]]].
  - eapply IH; eauto.
  - subst a. exfalso. apply (HR1 tr e2 [] eq_refl) with (e0 := e1); unfold honest in *; congruence.
  - subst a. exfalso. apply (HR1 tr e1 [] eq_refl Hh) with (e0 := e2); congruence.
  - congruence.
Qed.

Section Main.
Variable tr : trace.
Hypothesis HR0 : R0 tr.
Hypothesis HR1 : R1 tr.
Hypothesis HR2 : R2 tr.
Hypothesis HR3 : R3 tr.

Variable r1 : nat.
Variable b1 : blk.
Hypothesis Hcommit : commitq tr r1 b1.

Definition S (v : val) : bool := voted tr r1 Precommit (Some b1) v && negb (byz v).
Lemma S_third : total < 3 * powS S.
Proof. apply quorum_honest_third. exact Hcommit. Qed.

(* a "foreign prevote by a member of S in round r" occurs in the prefix l *)
Definition foreign_in (l : trace) (r : nat) : Prop :=
  exists e, In e l /\ S (voter e) = true /\ vround e = r /\ vty e = Prevote /\ vval e <> Some b1.

Lemma polka_foreign l r y : y <> Some b1 -> polka l r y -> foreign_in l r.
Proof.
  intros Hy Hp. destruct (quorum_meets _ S Hp S_third) as [v [_ [Hv HS]]].
  destruct (voted_In _ _ _ _ _ Hv) as [e [Hin [He1 [He2 [He3 He4]]]]].
  exists e. rewrite He1. repeat split; try assumption; congruence.
Qed.

(* key lemma, by strong induction on the round and then on the prefix *)
Lemma no_foreign_prevote_prefix : forall r, (r1 < r)%nat ->
  forall pre post, tr = pre ++ post -> ~ foreign_in pre r.
Proof.
  intros r. induction r as [r IHr] using lt_wf_ind. intros Hr pre.
  induction pre as [|a pre IHpre] using rev_ind; intros post Heq.
  - intros [e [[] _]].
  - rewrite <- app_assoc in Heq. simpl in Heq.
    specialize (IHpre (a :: post) Heq).
    intros [e [Hin [HS [Hre [Hte Hve]]]]].
    apply in_app_or in Hin. destruct Hin as [Hin|[Hin|[]]].
    + apply IHpre. exists e. tauto.
    + subst a.
      (* e is the earliest foreign prevote of round r by a member of S *)
      unfold S in HS. apply andb_true_iff in HS. destruct HS as [Hpc Hhon].
      apply negb_true_iff in Hhon.
      destruct (voted_In _ _ _ _ _ Hpc) as [e0 [Hin0 [Hv0 [Hr0 [Ht0 Hx0]]]]].
      (* e0 is before e by R0 *)
      assert (Hpre0 : In e0 pre).
      { rewrite Heq in Hin0. apply in_app_or in Hin0. destruct Hin0 as [H|[H|H]]; [exact H| |].
        - subst e0. rewrite Ht0 in Hte. discriminate.
        - exfalso.
          apply in_split in H. destruct H as [p1 [p2 Hp]].
          assert (Hd : tr = (pre ++ e :: p1) ++ e0 :: p2).
          { rewrite Heq, Hp, <- app_assoc. reflexivity. }
          assert (Hh0 : honest (voter e0)) by (unfold honest; rewrite Hv0; exact Hhon).
          assert (Hine : In e (pre ++ e :: p1)) by (apply in_or_app; right; left; reflexivity).
          pose proof (HR0 _ _ _ Hd Hh0 e Hine (eq_sym Hv0)) as Hle.
          unfold step_le in Hle. rewrite Hr0, Hre, Ht0, Hte in Hle.
          destruct Hle as [Hlt|[Heqr _]]; lia. }
      destruct (HR3 pre e post e0 b1 Heq Hhon Hte Hpre0 Hv0 Ht0 Hx0) as [r'' [y [Hrr [Hy Hpk]]]];
        [rewrite Hr0, Hre; exact Hr | exact Hve |].
      rewrite Hr0, Hre in Hrr.
      destruct (polka_foreign pre r'' y Hy Hpk) as [e' He'].
      destruct (Nat.eq_dec r'' r) as [->|Hne].
      * apply IHpre. exact (ex_intro _ e' He').
      * assert (Hlt : (r'' < r)%nat) by lia.
        apply (IHr r'' Hlt (proj1 Hrr) pre (e :: post) Heq). exact (ex_intro _ e' He').
Qed.

Lemma no_foreign_polka r y : (r1 < r)%nat -> y <> Some b1 -> ~ polka tr r y.
Proof.
  intros Hr Hy Hp. apply (no_foreign_prevote_prefix r Hr tr [] (eq_sym (app_nil_r tr))).
  eapply polka_foreign; eauto.
Qed.

Theorem agreement_later r2 b2 : (r1 < r2)%nat -> commitq tr r2 b2 -> b2 = b1.
Proof.
  intros Hr Hc.
  (* some honest validator precommitted b2 at r2, hence a polka for b2 at r2 *)
  pose proof (quorum_honest_third _ Hc) as Hth.
  assert (Hex : exists v, In v vals /\ (voted tr r2 Precommit (Some b2) v && negb (byz v)) = true).
  { apply pow_pos_ex. unfold powS in Hth. pose proof (pow_nonneg (fun _ => true) vals). unfold total, powS in *. lia. }
  destruct Hex as [v [_ Hv]]. apply andb_true_iff in Hv. destruct Hv as [Hv Hh]. apply negb_true_iff in Hh.
  destruct (voted_In _ _ _ _ _ Hv) as [e [Hin [He1 [He2 [He3 He4]]]]].
  apply in_split in Hin. destruct Hin as [pre [post Heq]].
  assert (Hhe : honest (voter e)) by (unfold honest; rewrite He1; exact Hh).
  pose proof (HR2 pre e post b2 Heq Hhe He3 He4) as Hp. rewrite He2 in Hp.
  destruct (blk_eqb_spec b2 b1) as [->|Hne]; [reflexivity|].
  exfalso. apply (no_foreign_polka r2 (Some b2) Hr); [congruence|].
  rewrite Heq. apply polka_app_l. exact Hp.
Qed.
End Main.

Theorem agreement_same_round tr r b1 b2 : R1 tr -> commitq tr r b1 -> commitq tr r b2 -> b1 = b2.
Proof.
  intros HR1 H1 H2.
  destruct (quorum_meets _ _ H1 (quorum_honest_third _ H2)) as [v [_ [Hv1 Hv2]]].
  apply andb_true_iff in Hv2. destruct Hv2 as [Hv2 Hh]. apply negb_true_iff in Hh.
  destruct (voted_In _ _ _ _ _ Hv1) as [e1 [Hi1 [Ha1 [Hb1 [Hc1 Hd1]]]]].
  destruct (voted_In _ _ _ _ _ Hv2) as [e2 [Hi2 [Ha2 [Hb2 [Hc2 Hd2]]]]].
  assert (vval e1 = vval e2).
  { eapply slot_unique; eauto; unfold honest; congruence. }
  congruence.
Qed.

Theorem agreement tr ra a rb b : R0 tr -> R1 tr -> R2 tr -> R3 tr ->
  commitq tr ra a -> commitq tr rb b -> a = b.
Proof.
  intros H0 H1 H2 H3 Ha Hb.
  destruct (Nat.lt_trichotomy ra rb) as [Hlt|[->|Hgt]].
  - symmetry. eapply agreement_later; eauto.
  - eapply agreement_same_round; eauto.
  - eapply agreement_later; eauto.
Qed.
End Protocol.
