(* Proofs about Model.SecretConn: exact stream delivery for any write and read sizes over an
   honest wire; any dropped, reordered, replayed, garbled or truncated frame ends the connection
   with only a prefix of the genuine stream delivered. *)
From Coq Require Import List NArith ZArith Lia Bool Arith.
From Coq Require Import ZifyN ZifyNat ZifyBool.
From AnnVerif Require Import Base.Res Base.Bytes Model.SecretConn.
Import ListNotations.

Ltac Zify.zify_post_hook ::= Z.div_mod_to_equations.

Lemma parse_mk_plain c : (length c <= data_max)%nat -> parse_plain (mk_plain c) = Some c.
Proof.
  intro H. unfold mk_plain, parse_plain. cbn [app].
  assert (E : N.to_nat (N.of_nat (length c) / 256 * 256 + N.of_nat (length c) mod 256) = length c).
  { rewrite N.mul_comm, <- N.div_mod by lia. apply Nat2N.id. }
  rewrite E. unfold data_max in *.
  replace (Nat.ltb 1024 (length c)) with false by (symmetry; apply Nat.ltb_ge; exact H).
  rewrite firstn_app, Nat.sub_diag, firstn_all. cbn [firstn]. rewrite app_nil_r. reflexivity.
Qed.

Lemma chunks_max_f_spec fuel : forall data, (length data <= fuel)%nat ->
  concat (chunks_max_f fuel data) = data /\
  Forall (fun c => (0 < length c <= data_max)%nat) (chunks_max_f fuel data).
Proof.
  induction fuel as [|f IH]; intros data Hl.
  - destruct data; [split; [reflexivity|constructor]|simpl in Hl; lia].
  - destruct data as [|x d]; [split; [reflexivity|constructor]|].
    cbn [chunks_max_f]. destruct (IH (skipn data_max (x :: d))) as [I1 I2].
    { rewrite skipn_length. unfold data_max. cbn [length] in *. lia. }
    split.
    + cbn [concat]. rewrite I1. apply firstn_skipn.
    + constructor; [|exact I2]. rewrite firstn_length. unfold data_max. cbn [length]. lia.
Qed.

Lemma chunks_max_spec data :
  concat (chunks_max data) = data /\ Forall (fun c => (0 < length c <= data_max)%nat) (chunks_max data).
Proof. apply chunks_max_f_spec. lia. Qed.

(* the chunks carried by a list of sealed frames, and the frames of a chunk list *)
Definition ok_chunks (cs : list bytes) : Prop := Forall (fun c => (0 < length c <= data_max)%nat) cs.

Lemma seal_chunks_app n cs1 cs2 :
  fst (seal_chunks n (cs1 ++ cs2)) =
    fst (seal_chunks n cs1) ++ fst (seal_chunks (snd (seal_chunks n cs1)) cs2) /\
  snd (seal_chunks n (cs1 ++ cs2)) = snd (seal_chunks (snd (seal_chunks n cs1)) cs2).
Proof.
  revert n; induction cs1 as [|c t IH]; intro n; [split; reflexivity|].
  cbn [app seal_chunks]. destruct (IH (n + 2)%N) as [I1 I2].
  destruct (seal_chunks (n + 2) (t ++ cs2)) as [f1 n1]. destruct (seal_chunks (n + 2) t) as [f2 n2].
  cbn [fst snd] in *. subst. split; reflexivity.
Qed.

(* all writes together are the sealing of the concatenated chunk lists *)
Lemma sc_writes_chunks n ws :
  sc_writes n ws = seal_chunks n (concat (map chunks_max ws)).
Proof.
  revert n; induction ws as [|w t IH]; intro n; [reflexivity|].
  cbn [sc_writes map concat]. unfold sc_write.
  destruct (seal_chunks n (chunks_max w)) as [f1 n1] eqn:E1. rewrite IH.
  destruct (seal_chunks n1 (concat (map chunks_max t))) as [f2 n2] eqn:E2.
  destruct (seal_chunks_app n (chunks_max w) (concat (map chunks_max t))) as [A1 A2].
  rewrite E1 in A1, A2. cbn [fst snd] in A1, A2. rewrite E2 in A1, A2. cbn [fst snd] in A1, A2.
  destruct (seal_chunks n (chunks_max w ++ concat (map chunks_max t))) as [f3 n3].
  cbn [fst snd] in A1, A2. subst. reflexivity.
Qed.

Lemma concat_chunks_writes ws : concat (concat (map chunks_max ws)) = concat ws.
Proof.
  induction ws as [|w t IH]; [reflexivity|]. cbn [map concat]. rewrite concat_app, IH.
  f_equal. apply chunks_max_spec.
Qed.

Lemma ok_chunks_writes ws : ok_chunks (concat (map chunks_max ws)).
Proof.
  unfold ok_chunks. induction ws as [|w t IH]; [constructor|]. cbn [map concat].
  apply Forall_app. split; [apply chunks_max_spec|exact IH].
Qed.

Lemma firstn_In_aux {A} (x : A) n l : In x (firstn n l) -> In x l.
Proof. revert n; induction l as [|y l IH]; intros [|n]; simpl; auto; try tauto. intros [H|H]; eauto. Qed.

(* ---------- honest wire ---------- *)
(* the receiver is in step with a sender that still has chunks [cs] in flight *)
Definition in_step (st : receiver) (cs : list bytes) : Prop :=
  r_in st = map WFrame (fst (seal_chunks (r_nonce st) cs)) /\ ok_chunks cs.

Definition pending (st : receiver) (cs : list bytes) : bytes := r_buf st ++ concat cs.

Lemma sc_read_honest st cs n : in_step st cs -> (0 < n)%nat ->
  (pending st cs = [] /\ sc_read st n = (st, REof)) \/
  (exists st' cs' b, sc_read st n = (st', RData b) /\ in_step st' cs' /\ b <> [] /\
                     b ++ pending st' cs' = pending st cs).
Proof.
  intros [Hin Hok] Hn. unfold sc_read, pending.
  destruct (r_buf st) as [|x buf] eqn:Eb.
  - destruct cs as [|c t].
    + cbn in Hin. rewrite Hin. left. split; reflexivity.
    + right. cbn [seal_chunks] in Hin. destruct (seal_chunks (r_nonce st + 2) t) as [fs n'] eqn:Es. cbn [fst map] in Hin.
      rewrite Hin. cbn [sl_nonce sl_plain]. rewrite N.eqb_refl.
      inversion Hok as [|? ? Hc Ht]; subst. rewrite parse_mk_plain by lia.
      eexists. exists t. eexists. split; [reflexivity|]. split; [|split].
      * unfold in_step. cbn [r_in r_nonce]. rewrite Es. split; [reflexivity|exact Ht].
      * destruct c as [|y c']; [simpl in Hc; lia|]. destruct n; [lia|]. discriminate.
      * cbn [r_buf concat]. rewrite app_assoc, firstn_skipn. reflexivity.
  - right. exists (mkRecv (r_nonce st) (skipn n (x :: buf)) (r_in st)), cs. eexists. split; [reflexivity|]. split; [|split].
    + unfold in_step. cbn [r_in r_nonce]. split; assumption.
    + destruct n; [lia|]. discriminate.
    + cbn [r_buf]. rewrite app_assoc, firstn_skipn. reflexivity.
Qed.

(* reading with any positive buffer sizes over an honest wire: never an error; what was
   delivered plus what is still pending is the whole stream *)
Lemma sc_reads_honest ns : forall st cs, in_step st cs -> Forall (fun n => (0 < n)%nat) ns ->
  ~ In RErr (sc_reads st ns) /\
  exists rest, delivered (sc_reads st ns) ++ rest = pending st cs /\
               (In REof (sc_reads st ns) -> rest = []).
Proof.
  induction ns as [|n t IH]; intros st cs Hst Hpos.
  - cbn. split; [tauto|]. exists (pending st cs). split; [reflexivity|tauto].
  - inversion Hpos as [|? ? Hn Ht]; subst. cbn [sc_reads].
    destruct (sc_read_honest st cs n Hst Hn) as [[Hp ->]|(st' & cs' & b & -> & Hst' & Hb & Hsplit)].
    + cbn. split; [intros [H|[]]; discriminate|]. exists []. rewrite Hp. split; [reflexivity|auto].
    + destruct (IH st' cs' Hst' Ht) as [I1 (rest & I2 & I3)].
      split; [cbn; intros [H|H]; [discriminate|exact (I1 H)]|].
      exists rest. cbn [delivered]. rewrite <- app_assoc, I2. split; [exact Hsplit|].
      intros [H|H]; [discriminate|exact (I3 H)].
Qed.

Theorem stream_exact n0 ws ns :
  Forall (fun n => (0 < n)%nat) ns ->
  let st0 := mkRecv n0 [] (map WFrame (fst (sc_writes n0 ws))) in
  let outs := sc_reads st0 ns in
  ~ In RErr outs /\
  exists rest, delivered outs ++ rest = concat ws /\ (In REof outs -> rest = []).
Proof.
  intros Hpos st0 outs.
  assert (Hst : in_step st0 (concat (map chunks_max ws))).
  { unfold in_step, st0. cbn [r_in r_nonce]. rewrite sc_writes_chunks. split; [reflexivity|apply ok_chunks_writes]. }
  destruct (sc_reads_honest ns st0 _ Hst Hpos) as [H1 (rest & H2 & H3)].
  split; [exact H1|]. exists rest. unfold pending, st0 in H2. cbn [r_buf app] in H2.
  rewrite concat_chunks_writes in H2. auto.
Qed.

(* ---------- tampered wire ---------- *)
(* nonces of sealed chunks are n, n+2, n+4, ... *)
Lemma seal_chunks_nonces cs : forall n f, In f (fst (seal_chunks n cs)) -> (n <= sl_nonce f)%N.
Proof.
  induction cs as [|c t IH]; intros n f; cbn [seal_chunks]; [contradiction|].
  destruct (seal_chunks (n + 2) t) as [fs n'] eqn:Es. cbn [fst In]. intros [<-|Hin]; [cbn; lia|].
  pose proof (IH (n + 2)%N f) as Hx. rewrite Es in Hx. specialize (Hx Hin). lia.
Qed.

(* a wire item is "wrong here" if it is not the frame the sender made for this position *)
Definition wrong_here (st : receiver) (cs : list bytes) (w : wire) : Prop :=
  match w with
  | WFrame f => (exists n cs0, In f (fst (seal_chunks n cs0)) /\ sl_nonce f <> r_nonce st)  (* an old or future genuine frame *)
  | WGarbled => True
  | WTruncated => True
  end.

(* the receiver meets a wrong item right away: error, nothing delivered from it *)
Lemma sc_read_wrong st n w rest : r_buf st = [] -> r_in st = w :: rest ->
  (match w with WFrame f => sl_nonce f <> r_nonce st | _ => True end) ->
  snd (sc_read st n) = RErr.
Proof.
  intros Hb Hin Hw. unfold sc_read. rewrite Hb, Hin. destruct w as [f| |]; [|reflexivity|reflexivity].
  destruct (N.eqb_spec (sl_nonce f) (r_nonce st)); [contradiction|reflexivity].
Qed.

(* Tampering theorem.  The wire carries the sender's first j frames untouched and then an item
   that is not frame j (a replayed or out-of-order genuine frame, a garbled one, a cut).  Whatever
   the read sizes: no end-of-stream is ever reported, everything delivered is a prefix of the
   data of those first j frames, and if the reads go on long enough the connection ends in error. *)
Lemma sc_reads_tampered ns : forall st cs1 w tail,
  r_in st = map WFrame (fst (seal_chunks (r_nonce st) cs1)) ++ w :: tail -> ok_chunks cs1 ->
  (match w with WFrame f => (r_nonce st + 2 * N.of_nat (length cs1))%N <> sl_nonce f | _ => True end) ->
  Forall (fun n => (0 < n)%nat) ns ->
  ~ In REof (sc_reads st ns) /\
  exists rest, delivered (sc_reads st ns) ++ rest = r_buf st ++ concat cs1.
Proof.
  induction ns as [|n t IH]; intros st cs1 w tail Hin Hok Hw Hpos.
  - cbn. split; [tauto|]. eauto.
  - inversion Hpos as [|? ? Hn Ht]; subst. cbn [sc_reads]. unfold sc_read.
    destruct (r_buf st) as [|x buf] eqn:Eb.
    + destruct cs1 as [|c t1].
      * cbn in Hin. rewrite Hin.
        assert (Herr : forall X, (let '(st', o) := X in match o with RData _ => o :: sc_reads st' t | _ => [o] end) = [RErr] ->
                  ~ In REof [RErr] /\ exists rest, delivered [RErr] ++ rest = [] ++ concat []).
        { intros _ _. split; [intros [H|[]]; discriminate|]. exists []. reflexivity. }
        destruct w as [f| |].
        -- cbn [length N.of_nat] in Hw. rewrite N.mul_0_r, N.add_0_r in Hw.
           destruct (N.eqb_spec (sl_nonce f) (r_nonce st)); [congruence|].
           split; [intros [H|[]]; discriminate|]. exists []. reflexivity.
        -- split; [intros [H|[]]; discriminate|]. exists []. reflexivity.
        -- split; [intros [H|[]]; discriminate|]. exists []. reflexivity.
      * cbn [seal_chunks] in Hin. destruct (seal_chunks (r_nonce st + 2) t1) as [fs n'] eqn:Es. cbn [fst map app] in Hin.
        rewrite Hin. cbn [sl_nonce sl_plain]. rewrite N.eqb_refl.
        inversion Hok as [|? ? Hc Htk]; subst. rewrite parse_mk_plain by lia.
        specialize (IH (mkRecv (r_nonce st + 2)%N (skipn n c) (map WFrame fs ++ w :: tail)) t1 w tail).
        cbn [r_in r_nonce r_buf] in IH. rewrite Es in IH. cbn [fst] in IH.
        destruct IH as [I1 (rest & I2)]; auto.
        { destruct w; auto. cbn [length] in Hw. lia. }
        split; [cbn; intros [H|H]; [discriminate|exact (I1 H)]|].
        exists rest. cbn [delivered concat]. rewrite <- app_assoc, I2, app_assoc, firstn_skipn. reflexivity.
    + specialize (IH (mkRecv (r_nonce st) (skipn n (x :: buf)) (r_in st)) cs1 w tail).
      cbn [r_in r_nonce r_buf] in IH. destruct IH as [I1 (rest & I2)]; auto.
      split; [cbn; intros [H|H]; [discriminate|exact (I1 H)]|].
      exists rest. cbn [delivered]. rewrite <- app_assoc, I2, app_assoc, firstn_skipn. reflexivity.
Qed.

Theorem tamper_detected n0 ws j w tail ns :
  let frames := fst (sc_writes n0 ws) in
  (j <= length frames)%nat ->
  (match w with WFrame f => In f frames /\ f <> nth j frames (mkSealed 0 []) | _ => True end) ->
  Forall (fun n => (0 < n)%nat) ns ->
  let st0 := mkRecv n0 [] (map WFrame (firstn j frames) ++ w :: tail) in
  let outs := sc_reads st0 ns in
  ~ In REof outs /\ exists rest, delivered outs ++ rest = concat (firstn j (concat (map chunks_max ws))).
Proof.
  cbv zeta. rewrite sc_writes_chunks. intros Hj Hw Hpos.
  set (cs := concat (map chunks_max ws)) in *.
  set (st0 := mkRecv n0 [] (map WFrame (firstn j (fst (seal_chunks n0 cs))) ++ w :: tail)).
  assert (Hok : ok_chunks cs) by apply ok_chunks_writes.
  (* the first j frames are the sealing of the first j chunks *)
  assert (Hlen : forall cs0 n, length (fst (seal_chunks n cs0)) = length cs0).
  { induction cs0 as [|c t IH]; intro n; cbn [seal_chunks]; [reflexivity|].
    specialize (IH (n + 2)%N). destruct (seal_chunks (n + 2) t). cbn [fst length] in *. lia. }
  assert (Hfirst : firstn j (fst (seal_chunks n0 cs)) = fst (seal_chunks n0 (firstn j cs))).
  { clear -Hlen. revert n0 j. induction cs as [|c t IH]; intros n0 j; [destruct j; reflexivity|].
    destruct j as [|j]; [reflexivity|]. cbn [firstn seal_chunks].
    specialize (IH (n0 + 2)%N j). destruct (seal_chunks (n0 + 2) t) as [fs n1]. destruct (seal_chunks (n0 + 2) (firstn j t)) as [fs2 n2].
    cbn [fst firstn] in *. rewrite IH. reflexivity. }
  (* nonce of the k-th frame *)
  assert (Hnth : forall cs0 n k, (k < length cs0)%nat -> sl_nonce (nth k (fst (seal_chunks n cs0)) (mkSealed 0 [])) = (n + 2 * N.of_nat k)%N).
  { induction cs0 as [|c t IH]; intros n k Hk; [simpl in Hk; lia|]. cbn [seal_chunks].
    specialize (IH (n + 2)%N). destruct (seal_chunks (n + 2) t) as [fs n1]. cbn [fst] in *.
    destruct k as [|k]; [cbn; lia|]. cbn [nth]. rewrite IH by (simpl in Hk; lia). lia. }
  assert (Hinj : forall cs0 n f, In f (fst (seal_chunks n cs0)) -> exists k, (k < length cs0)%nat /\ f = nth k (fst (seal_chunks n cs0)) (mkSealed 0 [])).
  { intros cs0 n f Hin. apply In_nth with (d := mkSealed 0 []) in Hin as (k & Hk & <-). rewrite Hlen in Hk. eauto. }
  rewrite Hlen in Hj.
  apply (sc_reads_tampered ns st0 (firstn j cs) w tail); auto.
  - unfold st0. cbn [r_in r_nonce]. rewrite Hfirst. reflexivity.
  - unfold ok_chunks in *. apply Forall_forall. intros c Hc. eapply Forall_forall in Hok; [exact Hok|]. eapply firstn_In_aux; eauto.
  - destruct w as [f| |]; auto. destruct Hw as [Hin Hne]. unfold st0. cbn [r_nonce].
    rewrite firstn_length, Nat.min_l by lia.
    destruct (Hinj cs n0 f Hin) as (k & Hk & ->). rewrite Hnth by exact Hk.
    intro E. assert (k = j) by lia. subst k. apply Hne. reflexivity.
Qed.
