(* The lock-release rule of addVote (gemmill/consensus/pbft/state.go, "unlock if prevotes is a valid
   POL"), which termination rests on in this version: the node prevotes its locked block whatever
   is proposed, so a height can only terminate once a node that is locked on a block the others have
   left lets go of it.  Proved for every state of Model/Node.v: when a prevote completes +2/3
   prevotes for something else than the locked block in a round R after the lock round and not
   after the node's round - in particular in a round the node has already left - the step leaves
   the node either unlocked or locked from round R on (it can only have locked again through a
   +2/3 prevote of round R or later). *)
From Coq Require Import List NArith ZArith Bool Lia.
From AnnVerif Require Import Base.Res Base.Bytes Model.VoteSet Model.ValSet Model.Node
  Proofs.BytesProofs Proofs.VoteSetProofs Proofs.NodeProofs.
Import ListNotations.
Open Scope Z_scope.

(* no lock older than round R *)
Definition fresh_lock (R : Z) (n : node) : Prop :=
  match lblock n with None => True | Some _ => R <= lround n end.

Lemma fresh_frame R n n' : frame n n' -> fresh_lock R n -> fresh_lock R n'.
Proof. intros (_ & _ & Hl & Hr & _). unfold fresh_lock. rewrite Hl, Hr. auto. Qed.

Lemma fresh_set_votes R n hv : fresh_lock R n -> fresh_lock R (set_votes n hv).
Proof. unfold fresh_lock. cbn. auto. Qed.

Lemma fresh_enter_new_round R h r n n' o :
  enter_new_round h r n = Ok (n', o) -> fresh_lock R n -> fresh_lock R n'.
Proof.
  unfold enter_new_round. destruct (_ || _) eqn:Eg; [intro E; injection E as <- _; auto|].
  apply guard_round in Eg as [Hr _].
  destruct (if round n <? r then increment (vals n) (r - round n) else Ok (vals n)) as [vs| |]; try discriminate.
  set (n1 := set_vals (set_step n r 2) vs).
  set (n2 := if r =? 0 then n1 else set_prop n1 None None None).
  destruct (hv_set_round (votes n2) (r + 1)) as [hv| |] eqn:Eh; try discriminate. intros E Hf.
  assert (F2 : frame n n2).
  { unfold n2, n1. destruct (r =? 0); repeat split; cbn; lia. }
  eapply fresh_frame; [eapply fsat_enter_propose; exact E|].
  apply fresh_set_votes. eapply fresh_frame; [exact F2|exact Hf].
Qed.

Lemma fresh_enter_precommit R h r n n' o :
  enter_precommit h r n = Ok (n', o) -> R <= r -> fresh_lock R n -> fresh_lock R n'.
Proof.
  unfold enter_precommit. destruct (_ || _) eqn:Eg; [intro E; injection E as <- _; auto|].
  intros E HR Hf. apply bind_ok in E as (n2 & o1 & o2 & E1 & E2 & _). injection E2 as <- _.
  (* the state the vote is signed in decides the lock of the result *)
  assert (Hgo : forall m vb, sign_add_vote 2 vb m = Ok (n2, o1) -> fresh_lock R m -> fresh_lock R (set_step n2 r 6)).
  { intros m vb Em Hm. destruct (fsat_sign_add_vote _ _ _ _ _ Em) as (_ & _ & C & D & _).
    unfold fresh_lock in *. cbn. rewrite C, D. exact Hm. }
  assert (Hnone : forall m, lblock m = None -> fresh_lock R m) by (intros m Hm; unfold fresh_lock; rewrite Hm; exact I).
  assert (Hat : forall m, lround m = r -> fresh_lock R m).
  { intros m Hm. unfold fresh_lock. destruct (lblock m); [lia|exact I]. }
  destruct (maj23 (hv_prevotes (votes n) r)) as [b|]; [|eapply Hgo; [exact E1|exact Hf]].
  destruct (pol_info (votes n)) as [[polr polb]| |]; try discriminate.
  destruct (polr <? r); [discriminate|].
  destruct (b_hash b) as [|hb0 hbt] eqn:Ehb.
  - eapply Hgo; [exact E1|]. destruct (lblock n) eqn:El; [apply Hnone; reflexivity|exact Hf].
  - rewrite <- Ehb in *. destruct (hashes_to (lblock n) (b_hash b)).
    + eapply Hgo; [exact E1|]. apply Hat. reflexivity.
    + destruct (hashes_to (pblock n) (b_hash b)).
      * destruct (pblock n) as [pb|]; [|discriminate]. destruct (negb (bk_valid pb)); [discriminate|].
        eapply Hgo; [exact E1|]. apply Hat. reflexivity.
      * destruct (has_header (pparts (set_lock n 0 None)) (b_total b) (b_phash b)).
        -- eapply Hgo; [exact E1|]. apply Hnone. reflexivity.
        -- destruct (new_pset (b_total b) (b_phash b)) as [ps| |]; try discriminate.
           eapply Hgo; [exact E1|]. apply Hnone. reflexivity.
Qed.

Theorem late_polka_releases_lock c v peer n n' o hv code lb b :
  v_height v = height n -> v_type v = 1%N ->
  hv_add_vote (votes n) v peer = Ok (hv, true, code) ->
  lblock n = Some lb -> lround n < v_round v -> v_round v <= round n ->
  maj23 (hv_prevotes hv (v_round v)) = Some b -> hashes_to (Some lb) (b_hash b) = false ->
  add_vote_cs c v peer n = Ok (n', o) ->
  fresh_lock (v_round v) n'.
Proof.
  intros Hh Ht Ea El Hlr Hrd Hm Hother. unfold add_vote_cs.
  replace (v_height v + 1 =? height n) with false by (symmetry; apply Z.eqb_neq; lia).
  replace (v_height v =? height n) with true by (symmetry; apply Z.eqb_eq; exact Hh).
  rewrite Ea. intro E. apply bind_ok in E as (n5 & o1 & o2 & E1 & E2 & _).
  assert (Hlast : fresh_lock (v_round v) n5 -> fresh_lock (v_round v) n').
  { destruct (N.eqb code 0); injection E2 as <- _; auto. }
  apply Hlast. clear Hlast E2.
  set (n1 := set_votes n hv) in *. cbn [negb] in E1. rewrite Ht in E1. cbn [N.eqb Pos.eqb] in E1.
  (* the rule fires: the lock is dropped *)
  assert (Hn2 : (match lblock n1 with
           | Some lb =>
             if (lround n1 <? v_round v) && (v_round v <=? round n1) then
               match maj23 (hv_prevotes (votes n1) (v_round v)) with
               | Some b => if negb (hashes_to (lblock n1) (b_hash b)) then set_lock n1 0 None else n1
               | None => n1
               end
             else n1
           | None => n1
           end) = set_lock n1 0 None).
  { unfold n1. cbn [lblock lround round votes set_votes]. rewrite El.
    replace (lround n <? v_round v) with true by (symmetry; apply Z.ltb_lt; exact Hlr).
    replace (v_round v <=? round n) with true by (symmetry; apply Z.leb_le; exact Hrd).
    cbn [andb]. rewrite Hm, Hother. reflexivity. }
  rewrite Hn2 in E1. clear Hn2.
  set (n2 := set_lock n1 0 None) in *.
  assert (F2 : fresh_lock (v_round v) n2) by (unfold fresh_lock; reflexivity).
  revert E1. destruct (_ && any23_open _ _); intro E1.
  - apply bind_ok in E1 as (n3 & oa & ob & Ea1 & Ea2 & _).
    pose proof (fresh_enter_new_round _ _ _ _ _ _ Ea1 F2) as F3.
    revert Ea2. destruct (maj23 (hv_prevotes (votes n3) (v_round v))); intro Ea2.
    + eapply fresh_enter_precommit; [exact Ea2|lia|exact F3].
    + apply bind_ok in Ea2 as (n4 & oc & od & Eb1 & Eb2 & _).
      eapply fresh_frame; [eapply fsat_enter_prevote_wait; exact Eb2|].
      eapply fresh_frame; [eapply fsat_enter_prevote; exact Eb1|exact F3].
  - revert E1. destruct (proposal n2) as [p|]; [|intro E1; injection E1 as <- _; exact F2].
    destruct ((0 <=? p_polround p) && (p_polround p =? v_round v)); [|intro E1; injection E1 as <- _; exact F2].
    destruct (is_proposal_complete n2) as [[|]| |]; try discriminate; intro E1.
    + eapply fresh_frame; [eapply fsat_enter_prevote; exact E1|exact F2].
    + injection E1 as <- _. exact F2.
Qed.
