(* Facts about big-endian encodings, go-wire varints and length-prefixed slices. *)
From Coq Require Import List NArith ZArith Lia Bool.
From AnnVerif Require Import Base.Bytes.
Import ListNotations.
Open Scope N_scope.

Lemma bytes_eqb_eq a b : bytes_eqb a b = true <-> a = b.
Proof.
  revert b; induction a as [|x a IH]; intros [|y b]; simpl; split; intro H; try congruence; auto.
  - apply andb_true_iff in H as [H1 H2]. apply N.eqb_eq in H1. apply IH in H2. congruence.
  - inversion H; subst. rewrite N.eqb_refl. simpl. apply IH. reflexivity.
Qed.

Lemma bytes_eqb_refl a : bytes_eqb a a = true.
Proof. apply bytes_eqb_eq. reflexivity. Qed.

Lemma be_bytes_length k v : length (be_bytes k v) = k.
Proof. revert v; induction k as [|k IH]; intro v; simpl; [reflexivity|]. rewrite app_length, IH. simpl. lia. Qed.

Lemma be_val_aux_app acc l b : be_val_aux acc (l ++ [b]) = be_val_aux acc l * 256 + b.
Proof. revert acc; induction l as [|x l IH]; intro acc; simpl; [reflexivity|]. apply IH. Qed.

Lemma be_val_be_bytes k v : be_val (be_bytes k v) = v mod 256 ^ N.of_nat k.
Proof.
  unfold be_val. revert v; induction k as [|k IH]; intro v.
  - simpl. rewrite N.mod_1_r. reflexivity.
  - cbn [be_bytes]. rewrite be_val_aux_app, IH.
    rewrite Nat2N.inj_succ, N.pow_succ_r'.
    assert (Hp : 256 ^ N.of_nat k <> 0) by (apply N.pow_nonzero; lia).
    rewrite N.mod_mul_r by lia.
    rewrite N.add_comm, N.mul_comm. reflexivity.
Qed.

Lemma usize_bound v : v < 256 ^ N.of_nat (usize v).
Proof.
  unfold usize. destruct (N.ltb_spec v 18446744073709551616) as [Hv|Hv].
  - unfold usize_go.
    destruct (v =? 0) eqn:E0; [apply N.eqb_eq in E0; subst; simpl; lia|].
    repeat match goal with
    | |- context [if ?a <? ?b then _ else _] => destruct (N.ltb_spec a b); [simpl; lia|]
    end.
    simpl. lia.
  - rewrite N2Nat.id.
    assert (Hpos : 0 < v) by lia.
    destruct (N.log2_spec v Hpos) as [_ Hlt].
    eapply N.lt_le_trans; [exact Hlt|].
    change 256 with (2 ^ 8). rewrite <- N.pow_mul_r.
    apply N.pow_le_mono_r; [lia|].
    assert (H := N.div_mod (N.log2 v) 8 ltac:(lia)).
    assert (H2 := N.mod_upper_bound (N.log2 v) 8 ltac:(lia)).
    lia.
Qed.

(* the varint of a non-negative length, followed by anything, determines the length *)
Lemma enc_varint_nonneg_inj n m r1 r2 :
  (0 <= n)%Z -> (0 <= m)%Z ->
  enc_varint n ++ r1 = enc_varint m ++ r2 -> n = m /\ r1 = r2.
Proof.
  intros Hn Hm. unfold enc_varint.
  destruct (n <? 0)%Z eqn:En; [apply Z.ltb_lt in En; lia|].
  destruct (m <? 0)%Z eqn:Em; [apply Z.ltb_lt in Em; lia|].
  cbn [app]. intro H. injection H as Hs Hrest.
  apply Nat2N.inj in Hs.
  assert (Hl : length (be_bytes (usize (Z.abs_N n)) (Z.abs_N n)) = length (be_bytes (usize (Z.abs_N m)) (Z.abs_N m)))
    by (rewrite !be_bytes_length; exact Hs).
  assert (Hsplit := app_inv_head_iff).
  assert (Heq : be_bytes (usize (Z.abs_N n)) (Z.abs_N n) = be_bytes (usize (Z.abs_N m)) (Z.abs_N m) /\ r1 = r2).
  { clear Hsplit. revert Hrest Hl.
    generalize (be_bytes (usize (Z.abs_N n)) (Z.abs_N n)) (be_bytes (usize (Z.abs_N m)) (Z.abs_N m)).
    intros l1; induction l1 as [|x l1 IH]; intros [|y l2]; simpl; intros Hr Hlen; try discriminate; auto.
    injection Hr as -> Hr. injection Hlen as Hlen. destruct (IH _ Hr Hlen) as [-> ->]. auto. }
  destruct Heq as [Hb ->]. split; [|reflexivity].
  apply (f_equal be_val) in Hb. rewrite !be_val_be_bytes in Hb.
  rewrite Hs in Hb.
  assert (Ha : Z.abs_N n < 256 ^ N.of_nat (usize (Z.abs_N n))) by apply usize_bound.
  assert (Hc : Z.abs_N m < 256 ^ N.of_nat (usize (Z.abs_N m))) by apply usize_bound.
  rewrite Hs in Ha.
  rewrite !N.mod_small in Hb by assumption.
  lia.
Qed.

Lemma enc_bs_inj a b r1 r2 : enc_bs a ++ r1 = enc_bs b ++ r2 -> a = b /\ r1 = r2.
Proof.
  unfold enc_bs. rewrite <- !app_assoc. intro H.
  apply enc_varint_nonneg_inj in H as [Hlen H]; [|lia|lia].
  apply Nat2Z.inj in Hlen.
  revert b Hlen H. induction a as [|x a IH]; intros [|y b]; simpl; intros Hlen H; try discriminate; auto.
  injection H as -> H. injection Hlen as Hlen.
  destruct (IH b Hlen H) as [-> ->]; auto.
Qed.

Lemma enc_bs_pair_inj a b c d :
  enc_bs a ++ enc_bs b = enc_bs c ++ enc_bs d -> a = c /\ b = d.
Proof.
  intros H.
  apply enc_bs_inj in H as [-> H].
  rewrite <- (app_nil_r (enc_bs b)), <- (app_nil_r (enc_bs d)) in H.
  apply enc_bs_inj in H as [-> _]; auto.
Qed.

(* the model's size function is the Go function wherever a Go value exists *)
Lemma usize_is_go v : v < 18446744073709551616 -> usize v = usize_go v.
Proof. intro H. unfold usize. apply N.ltb_lt in H. rewrite H. reflexivity. Qed.
