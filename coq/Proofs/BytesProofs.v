(* Facts about big-endian encodings, go-wire varints and length-prefixed slices. *)
From Coq Require Import List NArith ZArith Lia Bool.
From AnnVerif Require Import Base.Bytes.
Import ListNotations.
Open Scope N_scope.

Lemma bytes_eqb_eq a b : bytes_eqb a b = true <-> a = b.
Proof.
  revert b; induction a as [|x a IH]; intros [|y b]; simpl; split; intro H; try congruence; auto.
  - apply andb_true_iff in H as [H1 H2]. apply N.eqb_eq in H1. apply IH in H2. congruence.
  - inversion H; subst. rewrite N.eqb_refl. simpl. apply IH. reflexivity.
Qed.

Lemma bytes_eqb_refl a : bytes_eqb a a = true.
Proof. apply bytes_eqb_eq. reflexivity. Qed.

Lemma be_bytes_length k v : length (be_bytes k v) = k.
Proof. revert v; induction k as [|k IH]; intro v; simpl; [reflexivity|]. rewrite app_length, IH. simpl. lia. Qed.

Lemma be_val_aux_app acc l b : be_val_aux acc (l ++ [b]) = be_val_aux acc l * 256 + b.
Proof. revert acc; induction l as [|x l IH]; intro acc; simpl; [reflexivity|]. apply IH. Qed.

Lemma be_val_be_bytes k v : be_val (be_bytes k v) = v mod 256 ^ N.of_nat k.
Proof.
  unfold be_val. revert v; induction k as [|k IH]; intro v.
  - simpl. rewrite N.mod_1_r. reflexivity.
  - cbn [be_bytes]. rewrite be_val_aux_app, IH.
    rewrite Nat2N.inj_succ, N.pow_succ_r'.
    assert (Hp : 256 ^ N.of_nat k <> 0) by (apply N.pow_nonzero; lia).
    rewrite N.mod_mul_r by lia.
    rewrite N.add_comm, N.mul_comm. reflexivity.
Qed.

Lemma usize_bound v : v < 256 ^ N.of_nat (usize v).
Proof.
  unfold usize. destruct (N.ltb_spec v 18446744073709551616) as [Hv|Hv].
  - unfold usize_go.
    destruct (v =? 0) eqn:E0; [apply N.eqb_eq in E0; subst; simpl; lia|].
    repeat match goal with
    | |- context [if ?a <? ?b then _ else _] => destruct (N.ltb_spec a b); [simpl; lia|]
    end.
    simpl. lia.
  - rewrite N2Nat.id.
    assert (Hpos : 0 < v) by lia.
    destruct (N.log2_spec v Hpos) as [_ Hlt].
    eapply N.lt_le_trans; [exact Hlt|].
    change 256 with (2 ^ 8). rewrite <- N.pow_mul_r.
    apply N.pow_le_mono_r; [lia|].
    assert (H := N.div_mod (N.log2 v) 8 ltac:(lia)).
    assert (H2 := N.mod_upper_bound (N.log2 v) 8 ltac:(lia)).
    lia.
Qed.

Lemma marker_inj n1 s1 n2 s2 : marker n1 s1 = marker n2 s2 -> n1 = n2 /\ s1 = s2.
Proof.
  unfold marker.
  destruct (Nat.leb_spec s1 8) as [L1|L1], (Nat.leb_spec s2 8) as [L2|L2], n1, n2; intro Hm; split; try reflexivity; try lia.
Qed.

Lemma app_inv_length {A} (l1 l2 r1 r2 : list A) :
  length l1 = length l2 -> l1 ++ r1 = l2 ++ r2 -> l1 = l2 /\ r1 = r2.
Proof.
  revert l2; induction l1 as [|x l1 IH]; intros [|y l2] Hl H; simpl in *; try discriminate; auto.
  injection H as -> H. injection Hl as Hl. destruct (IH l2 Hl H) as [-> ->]. auto.
Qed.

(* a varint followed by anything determines the number and the rest *)
Lemma enc_varint_inj n m r1 r2 : enc_varint n ++ r1 = enc_varint m ++ r2 -> n = m /\ r1 = r2.
Proof.
  unfold enc_varint. cbn [app]. intro H. injection H as Hm Hrest.
  apply marker_inj in Hm as [Hneg Hs].
  apply app_inv_length in Hrest as [Hb Hr]; [|rewrite !be_bytes_length; exact Hs].
  split; [|exact Hr].
  apply (f_equal be_val) in Hb. rewrite !be_val_be_bytes in Hb.
  pose proof (usize_bound (Z.abs_N n)) as B1. pose proof (usize_bound (Z.abs_N m)) as B2.
  rewrite Hs in Hb, B1. rewrite !N.mod_small in Hb by assumption.
  destruct (Z.ltb_spec n 0), (Z.ltb_spec m 0); try discriminate; lia.
Qed.

Lemma enc_varint_nonneg_inj n m r1 r2 :
  (0 <= n)%Z -> (0 <= m)%Z ->
  enc_varint n ++ r1 = enc_varint m ++ r2 -> n = m /\ r1 = r2.
Proof. intros _ _. apply enc_varint_inj. Qed.

Lemma enc_bs_inj a b r1 r2 : enc_bs a ++ r1 = enc_bs b ++ r2 -> a = b /\ r1 = r2.
Proof.
  unfold enc_bs. rewrite <- !app_assoc. intro H.
  apply enc_varint_nonneg_inj in H as [Hlen H]; [|lia|lia].
  apply Nat2Z.inj in Hlen.
  revert b Hlen H. induction a as [|x a IH]; intros [|y b]; simpl; intros Hlen H; try discriminate; auto.
  injection H as -> H. injection Hlen as Hlen.
  destruct (IH b Hlen H) as [-> ->]; auto.
Qed.

Lemma enc_bs_pair_inj a b c d :
  enc_bs a ++ enc_bs b = enc_bs c ++ enc_bs d -> a = c /\ b = d.
Proof.
  intros H.
  apply enc_bs_inj in H as [-> H].
  rewrite <- (app_nil_r (enc_bs b)), <- (app_nil_r (enc_bs d)) in H.
  apply enc_bs_inj in H as [-> _]; auto.
Qed.

(* the model's size function is the Go function wherever a Go value exists *)
Lemma usize_is_go v : v < 18446744073709551616 -> usize v = usize_go v.
Proof. intro H. unfold usize. apply N.ltb_lt in H. rewrite H. reflexivity. Qed.
