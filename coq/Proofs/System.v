(* A system of honest validator nodes (each the Model.Node state machine, driven by its own inputs)
   and Byzantine validators, over one height.  Signatures are idealised by an assumption on the
   network ([admissible]): a vote that verifies under an honest validator's key and is delivered to
   a node was emitted by that validator's node.  Nothing else is assumed of the network: any order,
   loss, duplication and delay, any Byzantine vote at any time.

   The global trace records the distinct prevotes/precommits signed so far, in order.  The theorems
   show that every reachable trace satisfies the local forms of the rules R0-R3 of
   Proofs/Protocol.v, so that two commits of one height are for the same block hash. *)
From Coq Require Import List NArith ZArith Lia Bool Arith ZifyBool.
From AnnVerif Require Import Base.Res Base.Bytes Model.VoteSet Model.ValSet Model.Node
  Proofs.BytesProofs Proofs.PowerSum Proofs.VoteSetProofs Proofs.NodeProofs Proofs.Backed Proofs.NodeBacked
  Proofs.Emit Proofs.SgWalk Proofs.CommitWalk Proofs.SignerDom.
Require AnnVerif.Proofs.Protocol.
Import ListNotations.
Open Scope Z_scope.

(* ---------- signed votes, globally ---------- *)
Record gv := mkGv { g_idx : nat; g_round : Z; g_type : N; g_bid : block_id }.
Definition gv_eqb (a b : gv) : bool :=
  Nat.eqb (g_idx a) (g_idx b) && Z.eqb (g_round a) (g_round b) && N.eqb (g_type a) (g_type b) && bid_eqb (g_bid a) (g_bid b).
Lemma gv_eqb_eq a b : gv_eqb a b = true <-> a = b.
Proof.
  destruct a as [i r t x], b as [i' r' t' x']. unfold gv_eqb. cbn.
  rewrite !andb_true_iff, Nat.eqb_eq, Z.eqb_eq, N.eqb_eq, bid_eqb_eq. split; [intros [[[-> ->] ->] ->]; reflexivity|intro E; injection E; auto].
Qed.

Definition typ12 (t : N) : bool := N.eqb t 1 || N.eqb t 2.

Definition add_new (e : gv) (G : list gv) : list gv := if existsb (gv_eqb e) G then G else G ++ [e].
Lemma add_new_in e G : In e G -> add_new e G = G.
Proof.
  intro H. unfold add_new. replace (existsb (gv_eqb e) G) with true; [reflexivity|].
  symmetry. apply existsb_exists. exists e. split; [exact H|apply gv_eqb_eq; reflexivity].
Qed.
Lemma add_new_notin e G : ~ In e G -> add_new e G = G ++ [e].
Proof.
  intro H. unfold add_new. destruct (existsb (gv_eqb e) G) eqn:E; [|reflexivity].
  apply existsb_exists in E as (x & Hx & Ex). apply gv_eqb_eq in Ex. subst x. contradiction.
Qed.
Lemma in_add_new x e G : In x (add_new e G) <-> In x G \/ x = e.
Proof.
  unfold add_new. destruct (existsb (gv_eqb e) G) eqn:E.
  - split; [auto|]. intros [H| ->]; [exact H|]. apply existsb_exists in E as (y & Hy & Ey). apply gv_eqb_eq in Ey. now subst y.
  - rewrite in_app_iff. cbn. intuition.
Qed.

Definition rec_out (i : nat) (x : out) (G : list gv) : list gv :=
  match x with OVote t r b => if typ12 t then add_new (mkGv i r t b) G else G | _ => G end.
Fixpoint emit_all (i : nat) (o : list out) (G : list gv) : list gv :=
  match o with [] => G | x :: t => emit_all i t (rec_out i x G) end.

Definition gv_of (v : vote) : gv := mkGv (Z.to_nat (v_index v)) (v_round v) (v_type v) (v_bid v).

Definition votedG (G : list gv) (r : Z) (t : N) (b : block_id) (idx : nat) : bool :=
  existsb (fun e => Nat.eqb (g_idx e) idx && Z.eqb (g_round e) r && N.eqb (g_type e) t && bid_eqb (g_bid e) b) G.
Lemma votedG_incl G G' r t b idx : incl G G' -> votedG G r t b idx = true -> votedG G' r t b idx = true.
Proof. intros Hi. unfold votedG. rewrite !existsb_exists. intros (e & He & H). exists e. split; [apply Hi; exact He|exact H]. Qed.

(* signer positions *)
Lemma hrs_chain a1 a2 a3 h r0 s0 r s :
  hrs_lt a1 a2 a3 h r0 s0 = false -> hrs_lt a1 a2 a3 h r s = true -> hrs_lt h r0 s0 h r s = true.
Proof. unfold hrs_lt. lia. Qed.
Lemma hrs_chain2 a1 a2 a3 h r0 s0 r s :
  hrs_lt a1 a2 a3 h r0 s0 = false -> hrs_lt a1 a2 a3 h r s = true -> hrs_lt h r s h r0 s0 = false.
Proof. unfold hrs_lt. lia. Qed.
Lemma hrs_irrefl h r s : hrs_lt h r s h r s = false.
Proof. unfold hrs_lt. lia. Qed.

Section System.
Variable VS : list validator.
Hypothesis Hbounded : bounded VS.
Variable h0 : Z.
Variable c : cfg.
Hypothesis Hskip : c_skip_commit c = false.
Variable byz : nat -> bool.

Definition vb (v : vote) : bool := valid_b VS h0 (v_round v) (v_type v) v.
Definition vidx (v : vote) : nat := Z.to_nat (v_index v).

Definition deliver_tr (inp : input) (G : list gv) : list gv :=
  match inp with
  | IVote v _ => if vb v && typ12 (v_type v) && byz (vidx v) then add_new (gv_of v) G else G
  | _ => G
  end.
(* the idealisation of signatures *)
Definition admissible (inp : input) (G : list gv) : Prop :=
  match inp with
  | IVote v _ => vb v = true -> typ12 (v_type v) = true -> byz (vidx v) = false -> In (gv_of v) G
  | _ => True
  end.

Definition Bsub (off : list vote) (G : list gv) : Prop :=
  forall v, In v off -> vb v = true -> typ12 (v_type v) = true -> In (gv_of v) G.
Lemma Bsub_incl off G G' : incl G G' -> Bsub off G -> Bsub off G'.
Proof. intros Hi H v Hv A B. apply Hi. apply H; assumption. Qed.

Lemma voted_for_G off G r t b idx : Bsub off G -> typ12 t = true ->
  voted_for VS h0 r t off b idx = true -> votedG G r t b idx = true.
Proof.
  intros HB Ht. unfold voted_for, votedG. rewrite !existsb_exists. intros (v & Hv & H).
  apply andb_prop in H as [H Hb]. apply andb_prop in H as [Hval Hi].
  assert (Er : v_round v = r /\ v_type v = t).
  { unfold valid_b in Hval. repeat (apply andb_prop in Hval as [Hval ?]). split; [lia|]. apply N.eqb_eq. assumption. }
  destruct Er as [Er Et].
  exists (gv_of v). split.
  - apply HB; [exact Hv|unfold vb; rewrite Er, Et; exact Hval|rewrite Et; exact Ht].
  - unfold gv_of. cbn. rewrite Er, Et, Z.eqb_refl, N.eqb_refl, Hi, Hb. reflexivity.
Qed.

Lemma Qr_mono P Q : (forall i, P i = true -> Q i = true) -> Qr VS P -> Qr VS Q.
Proof.
  intros H. unfold Qr, pow_of. intro A. eapply Z.lt_le_trans; [exact A|]. apply pow_from_mono; [apply Hbounded|]. intros i _. apply H.
Qed.

(* ---------- the local rules, on the model's own terms ---------- *)
Definition Loc (pre : list gv) (e : gv) : Prop :=
  typ12 (g_type e) = true /\
  (forall e0, In e0 pre -> g_idx e0 = g_idx e ->
     hrs_lt h0 (g_round e0) (st_of (g_type e0)) h0 (g_round e) (st_of (g_type e)) = true) /\
  (g_type e = 2%N -> b_hash (g_bid e) <> [] -> Qr VS (votedG pre (g_round e) 1%N (g_bid e))) /\
  (g_type e = 1%N -> forall e0, In e0 pre -> g_idx e0 = g_idx e -> g_type e0 = 2%N -> b_hash (g_bid e0) <> [] ->
     g_round e0 < g_round e -> b_hash (g_bid e) <> b_hash (g_bid e0) ->
     exists r' x', g_round e0 < r' <= g_round e /\ b_hash x' <> b_hash (g_bid e0) /\ Qr VS (votedG pre r' 1%N x')).

Definition Rules (G : list gv) : Prop :=
  forall pre e post, G = pre ++ e :: post -> byz (g_idx e) = false -> Loc pre e.

Lemma Rules_nil : Rules []. Proof. intros pre e post E. destruct pre; discriminate. Qed.
Lemma Rules_snoc G e : Rules G -> (byz (g_idx e) = false -> Loc G e) -> Rules (G ++ [e]).
Proof.
  intros HR He pre e1 post Heq Hh.
  destruct (exists_last (l := e1 :: post) ltac:(discriminate)) as (l' & a & El).
  destruct post as [|p0 post'].
  - apply app_inj_tail in Heq as [<- <-]. apply He. exact Hh.
  - assert (El' : exists q, e1 :: p0 :: post' = e1 :: q ++ [a]).
    { destruct l' as [|z l'']; [discriminate|]. cbn in El. injection El as -> El. exists l''. rewrite El. reflexivity. }
    destruct El' as (q & Eq). rewrite Eq in Heq. change (e1 :: q ++ [a]) with ((e1 :: q) ++ [a]) in Heq.
    rewrite app_assoc in Heq. apply app_inj_tail in Heq as [EG _]. apply (HR pre e1 q); [exact EG|exact Hh].
Qed.

Lemma add_new_Rules G e : Rules G -> (~ In e G -> byz (g_idx e) = false -> Loc G e) -> Rules (add_new e G).
Proof.
  intros HR He. unfold add_new. destruct (existsb (gv_eqb e) G) eqn:E; [exact HR|].
  apply Rules_snoc; [exact HR|]. apply He. intro Hin. assert (existsb (gv_eqb e) G = true); [|congruence].
  apply existsb_exists. exists e. split; [exact Hin|apply gv_eqb_eq; reflexivity].
Qed.

(* ---------- one node's outputs appended to the trace ---------- *)
Definition Csub (i : nat) (G : list gv) (pcs : list (Z * block_id)) : Prop :=
  forall r b, In (mkGv i r 2%N b) G -> b_hash b <> [] -> In (r, b) pcs.
Definition SInv (i : nat) (s : signer) (G : list gv) : Prop :=
  (forall e, In e G -> g_idx e = i -> hrs_lt (sg_h s) (sg_r s) (sg_s s) h0 (g_round e) (st_of (g_type e)) = false) /\
  (sg_h s = h0 -> forall w, sg_what s = Some w -> typ12 (fst w) = true -> In (mkGv i (sg_r s) (fst w) (snd w)) G).
Lemma Csub_more i G pcs extra : Csub i G pcs -> Csub i G (extra ++ pcs).
Proof. intros H r b A B. apply in_or_app. right. apply H; assumption. Qed.

Lemma emit_step i off : byz i = false ->
  forall s o s', sgrel h0 s o s' -> forall pcs G, goods VS h0 off pcs o ->
    Rules G -> Bsub off G -> Csub i G pcs -> SInv i s G ->
    Rules (emit_all i o G) /\ Csub i (emit_all i o G) (pcs_after o pcs) /\ SInv i s' (emit_all i o G) /\
    incl G (emit_all i o G) /\ (forall e, In e (emit_all i o G) -> In e G \/ g_idx e = i).
Proof.
  intros Hi s o s' H. induction H as [s|s x o s' Hx H IH|s r o s' Hlt H IH|s t r b o s' Hlt H IH|s t r b o s' Hh Hr Hs Hw H IH];
    intros pcs G Hg HR HB HC HS.
  - cbn. split; [exact HR|]. split; [exact HC|]. split; [exact HS|]. split; [apply incl_refl|auto].
  - cbn [emit_all pcs_after goods] in *. destruct Hg as [_ Hg].
    assert (E1 : rec_out i x G = G) by (destruct x; try reflexivity; exfalso; eapply Hx; reflexivity).
    rewrite E1. apply IH; [exact Hg|exact HR|exact HB|apply Csub_more; exact HC|exact HS].
  - apply IH; try assumption. destruct HS as [D _]. split.
    + intros e He Hidx. cbn. eapply hrs_chain2; [apply D; assumption|exact Hlt].
    + cbn. discriminate.
  - cbn [emit_all pcs_after goods rec_out] in *. destruct Hg as [Hgood Hg].
    assert (SI' : forall G', (forall e, In e G' -> In e G \/ e = mkGv i r t b) -> (typ12 t = true -> In (mkGv i r t b) G') ->
                   SInv i (mkSg h0 r (st_of t) (Some (t, b))) G').
    { intros G' Hsub Hin. destruct HS as [D _]. split.
      - intros e He Hidx. cbn. destruct (Hsub e He) as [HG| ->]; [eapply hrs_chain2; [apply D; assumption|exact Hlt]|apply hrs_irrefl].
      - cbn. intros _ w Ew Ht. injection Ew as <-. cbn in *. auto. }
    destruct (typ12 t) eqn:Et.
    + set (e := mkGv i r t b).
      assert (Hnin : ~ In e G).
      { intro Hin. destruct HS as [D _]. specialize (D e Hin eq_refl). cbn in D. congruence. }
      rewrite (add_new_notin e G Hnin).
      destruct (IH (pc_of (OVote t r b) ++ pcs) (G ++ [e])) as (A1 & A2 & A3 & A4 & A5).
      * exact Hg.
      * apply Rules_snoc; [exact HR|]. intros _. split; [exact Et|]. split; [|split].
        -- intros e0 He0 Hidx. destruct HS as [D _]. eapply hrs_chain; [apply D; assumption|exact Hlt].
        -- cbn. intros -> Hb. cbn in Hgood. eapply Qr_mono; [|apply Hgood; exact Hb]. intro j. apply voted_for_G; [exact HB|reflexivity].
        -- cbn. intros -> e0 He0 Hidx Ht0 Hb0 Hlt0 Hne. cbn in Hgood.
           destruct e0 as [i0 r0 t0 b0]. cbn in *. subst i0 t0.
           destruct (Hgood r0 b0 (HC r0 b0 He0 Hb0) Hlt0 Hne) as (r' & x' & Hr' & Hx' & HQ).
           exists r', x'. split; [exact Hr'|]. split; [exact Hx'|]. eapply Qr_mono; [|exact HQ]. intro j. apply voted_for_G; [exact HB|reflexivity].
      * eapply Bsub_incl; [|exact HB]. apply incl_appl, incl_refl.
      * intros r1 b1 Hin Hb1. apply in_app_or in Hin as [Hin|[Hin|[]]].
        -- apply in_or_app. right. apply HC; assumption.
        -- unfold e in Hin. injection Hin as Q1 Q2 Q3. subst r1 t b1. apply in_or_app. left. cbn. destruct (b_hash b); [contradiction|left; reflexivity].
      * apply SI'; [|intros _; apply in_or_app; right; left; reflexivity].
        intros e1 He1. apply in_app_or in He1 as [He1|[He1|[]]]; auto.
      * split; [exact A1|]. split; [exact A2|]. split; [exact A3|]. split; [eapply incl_tran; [|exact A4]; apply incl_appl, incl_refl|].
        intros e1 He1. destruct (A5 e1 He1) as [B|B]; [|right; exact B]. apply in_app_or in B as [B|[B|[]]]; [left; exact B|right; subst e1; reflexivity].
    + apply IH; [exact Hg|exact HR|exact HB|apply Csub_more; exact HC|]. apply SI'; [auto|discriminate].
  - cbn [emit_all pcs_after goods rec_out] in *. destruct Hg as [_ Hg]. destruct Hw as (w & Ew & Eq).
    assert (EG : (if typ12 t then add_new (mkGv i r t b) G else G) = G).
    { destruct (typ12 t) eqn:Et; [|reflexivity]. apply add_new_in.
      unfold what_eqb in Eq. cbn in Eq. apply andb_prop in Eq as [Q1 Q2]. apply N.eqb_eq in Q1. apply bid_eqb_eq in Q2.
      destruct HS as [_ E]. specialize (E Hh w Ew). rewrite <- Q1, <- Q2, Hr in E. apply E. exact Et. }
    rewrite EG. apply IH; [exact Hg|exact HR|exact HB|apply Csub_more; exact HC|exact HS].
Qed.

(* ---------- the system ---------- *)
Record sys := mkSys {
  st : nat -> node;                       (* the honest validators' nodes, by validator index *)
  offs : nat -> list vote;                (* ghost: what was delivered to each *)
  pcss : nat -> list (Z * block_id);      (* ghost: the block precommits each has emitted *)
  tr : list gv;                           (* the distinct votes signed so far, oldest first *)
  cms : list (nat * bytes);               (* the commits observed: (validator, block hash) *)
  dur : nat -> valset * option voteset * option bytes;   (* what each node starts the height from *)
  logs : nat -> option (list input)       (* each node's write-ahead log of the height, newest first;
                                             None once a peer's majority claim - which the code does
                                             not log - has changed the node's state *)
}.
Definition upd {A} (f : nat -> A) (i : nat) (x : A) : nat -> A := fun j => if Nat.eqb j i then x else f j.
Lemma upd_same {A} (f : nat -> A) i x : upd f i x i = x. Proof. unfold upd. now rewrite Nat.eqb_refl. Qed.
Lemma upd_other {A} (f : nat -> A) i x j : j <> i -> upd f i x j = f j.
Proof. intro H. unfold upd. destruct (Nat.eqb_spec j i); [contradiction|reflexivity]. Qed.

Definition commits_of (i : nat) (o : list out) : list (nat * bytes) :=
  flat_map (fun x => match x with OCommit _ hash => [(i, hash)] | _ => [] end) o.

(* one step: an honest node still at the height handles one input *)
Inductive sstep (S S' : sys) : Prop :=
| sstep_intro i inp n' o :
    byz i = false -> height (st S i) = h0 ->
    input_ok inp (st S i) -> admissible inp (tr S) ->
    handle c inp (st S i) = Ok (n', o) ->
    S' = mkSys (upd (st S) i n') (upd (offs S) i (delivered_of inp ++ offs S i))
               (upd (pcss S) i (pcs_after o (pcss S i)))
               (emit_all i o (deliver_tr inp (tr S))) (commits_of i o ++ cms S)
               (dur S) (upd (logs S) i (option_map (cons inp) (logs S i))) ->
    sstep S S'
(* a peer's claim of a +2/3 majority (VoteSetMaj23Message): recorded in the node's vote sets *)
| sstep_maj i r t peer b :
    byz i = false -> height (st S i) = h0 ->
    S' = mkSys (upd (st S) i (set_votes (st S i) (hv_set_peer_maj23 (votes (st S i)) r t peer b)))
               (offs S) (pcss S) (tr S) (cms S) (dur S) (upd (logs S) i None) ->
    sstep S S'
(* crash and restart: the node is re-initialised from its durable parts, with the signer file as the
   crash left it, and replays its log *)
| sstep_restart i l n0' nr :
    byz i = false -> height (st S i) = h0 -> logs S i = Some l ->
    init_node h0 (fst (fst (dur S i))) (snd (fst (dur S i))) (snd (dur S i)) (sg (st S i)) = Ok n0' ->
    run c (rev l) n0' = Ok nr ->
    S' = mkSys (upd (st S) i nr) (offs S) (pcss S) (tr S) (cms S) (dur S) (logs S) ->
    sstep S S'.

Definition init_sys (S : sys) : Prop :=
  tr S = [] /\ cms S = [] /\
  forall i, byz i = false ->
    offs S i = [] /\ pcss S i = [] /\ logs S i = Some [] /\
    exists vs lc me s, dur S i = (vs, lc, me) /\ init_node h0 vs lc me s = Ok (st S i) /\ vals_of vs = VS /\ sg_h s < h0.

Inductive reachable : sys -> Prop :=
| reach_init S : init_sys S -> reachable S
| reach_step S S' : reachable S -> sstep S S' -> reachable S'.

Definition NI (i : nat) (S : sys) : Prop :=
  J VS h0 (offs S i) (pcss S i) (st S i) /\ Bsub (offs S i) (tr S) /\ Csub i (tr S) (pcss S i) /\ SInv i (sg (st S i)) (tr S).
Definition commit_backed_in (G : list gv) (a : bytes) : Prop :=
  a <> [] /\ exists r b, b_hash b = a /\ Qr VS (votedG G r 2%N b).
(* the log determines the state: replaying it from the durable parts gives the node's state *)
Definition LogInv (i : nat) (S : sys) : Prop :=
  forall l, logs S i = Some l ->
    exists s0 n0, init_node h0 (fst (fst (dur S i))) (snd (fst (dur S i))) (snd (dur S i)) s0 = Ok n0 /\ run c (rev l) n0 = Ok (st S i).
Definition SysInv (S : sys) : Prop :=
  Rules (tr S) /\ (forall i, byz i = false -> NI i S /\ LogInv i S) /\ (forall i a, In (i, a) (cms S) -> commit_backed_in (tr S) a).

Lemma init_SysInv S : init_sys S -> SysInv S.
Proof.
  intros (Et & Ec & Hn). split; [rewrite Et; apply Rules_nil|]. split; [|rewrite Ec; intros i a []].
  intros i Hi. destruct (Hn i Hi) as (Eo & Ep & El & vs & lc & me & s & Ed & Ei & Ev & Hs). split.
  - unfold NI. rewrite Eo, Ep, Et.
    split; [|split; [intros v []|split; [intros r b []|split; [intros e []|]]]].
    + split; [apply (init_ok VS h0 vs lc me s _ Ev Ei)|]. split; [apply (init_inv _ _ _ _ _ _ Ei)|]. intros _ r0 b [].
    + unfold init_node in Ei. destruct (new_hvs _ _); try discriminate. injection Ei as <-. cbn. lia.
  - intros l Hl. rewrite El in Hl. injection Hl as <-. rewrite Ed. cbn [fst snd rev run]. exists s, (st S i). auto.
Qed.

Lemma commit_backed_incl G G' a : incl G G' -> commit_backed_in G a -> commit_backed_in G' a.
Proof.
  intros Hi (Ha & r & b & Hb & HQ). split; [exact Ha|]. exists r, b. split; [exact Hb|].
  eapply Qr_mono; [|exact HQ]. intro j. apply votedG_incl. exact Hi.
Qed.

Lemma deliver_tr_spec inp G :
  incl G (deliver_tr inp G) /\ (forall e, In e (deliver_tr inp G) -> In e G \/ byz (g_idx e) = true).
Proof.
  destruct inp as [| |v peer|]; cbn [deliver_tr]; try (split; [apply incl_refl|auto]).
  destruct (vb v && typ12 (v_type v) && byz (vidx v)) eqn:E; [|split; [apply incl_refl|auto]].
  apply andb_prop in E as [_ Eb]. split.
  - intros x Hx. apply in_add_new. left. exact Hx.
  - intros e He. apply in_add_new in He as [He| ->]; [left; exact He|right; exact Eb].
Qed.

Lemma in_commits_of i o j a : In (j, a) (commits_of i o) -> j = i /\ exists hc, In (OCommit hc a) o.
Proof.
  unfold commits_of. rewrite in_flat_map. intros (x & Hx & Hin). destruct x; try (destruct Hin; fail).
  destruct Hin as [E|[]]. injection E as <- <-. split; [reflexivity|]. eexists. exact Hx.
Qed.

Lemma LogInv_other i j S S' : j <> i -> dur S' = dur S -> st S' j = st S j -> logs S' j = logs S j -> LogInv j S -> LogInv j S'.
Proof. intros _ Ed Es El H l Hl. rewrite Ed, Es. apply H. rewrite <- El. exact Hl. Qed.

Theorem sstep_SysInv S S' : SysInv S -> sstep S S' -> SysInv S'.
Proof.
  intros (HR & HN & HCm) [i inp n' o Hi Hh Hin Hadm Eh ->|i r t peer b Hi Hh ->|i l n0' nr Hi Hh Hl Ei Er ->].
  3:{ (* restart: the replay of the log with the signer file of the crash is the state before it *)
      destruct (HN i Hi) as (HNi & HLi). destruct (HLi l Hl) as (s0 & n0 & E0 & Erun).
      destruct (restart_is_identity c Hskip _ _ _ _ _ _ _ _ E0 Erun) as (n0'' & E0' & Erun').
      rewrite Ei in E0'. injection E0' as <-. rewrite Er in Erun'. injection Erun' as ->.
      split; [exact HR|]. split; [|exact HCm]. intros j Hj. destruct (HN j Hj) as (HNj & HLj).
      unfold NI, LogInv. cbn [st offs pcss tr dur logs].
      destruct (Nat.eq_dec j i) as [->|Hne]; [rewrite upd_same|rewrite upd_other by exact Hne]; split; assumption. }
  2:{ split; [exact HR|]. split; [|exact HCm]. intros j Hj. destruct (HN j Hj) as (HNj & HLj).
      unfold NI, LogInv. cbn [st offs pcss tr dur logs].
      destruct (Nat.eq_dec j i) as [->|Hne]; [|rewrite !upd_other by exact Hne; split; assumption].
      rewrite !upd_same. split; [|intros l Hl; discriminate Hl].
      destruct HNj as (HJ & HB & HC & HS). split; [|split; [exact HB|split; [exact HC|exact HS]]].
      apply (J_of_G VS h0 _ _ (st S i)); [exact HJ|apply votes_G; apply hv_set_peer_le|].
      destruct HJ as ((L & Hok) & _). split; [exact L|]. cbn [height votes set_votes]. intro E. destruct (Hok E) as [A B].
      split; [apply hv_set_peer_ok; [exact Hbounded|exact A]|]. rewrite <- B. unfold hv_set_peer_maj23. destruct (negb _); [reflexivity|].
      destruct (hv_get _ _ _); [|reflexivity]. unfold hv_put. destruct (zlookup _ _); reflexivity. }
  destruct (HN i Hi) as ((HJ & HB & HC & HS) & HLi).
  destruct (deliver_tr_spec inp (tr S)) as [D1 D2].
  set (G1 := deliver_tr inp (tr S)) in *.
  set (off' := delivered_of inp ++ offs S i).
  (* the trace after delivery *)
  assert (R1 : Rules G1).
  { unfold G1. destruct inp as [| |v peer|]; cbn [deliver_tr]; try exact HR.
    destruct (vb v && typ12 (v_type v) && byz (vidx v)) eqn:E; [|exact HR]. apply andb_prop in E as [_ Eb].
    apply add_new_Rules; [exact HR|]. intros _ Hb. cbn in Hb. unfold vidx in Eb. congruence. }
  assert (B1 : Bsub off' G1).
  { intros v Hv Hval Ht. unfold off' in Hv. apply in_app_or in Hv as [Hv|Hv]; [|apply D1; apply HB; assumption].
    destruct inp as [| |v0 peer|]; try (destruct Hv; fail). destruct Hv as [<-|[]]. unfold G1. cbn [deliver_tr]. rewrite Hval, Ht. cbn [andb].
    destruct (byz (vidx v0)) eqn:Eb; [apply in_add_new; right; reflexivity|]. apply Hadm; assumption. }
  assert (own : forall j e, byz j = false -> In e G1 -> g_idx e = j -> In e (tr S)).
  { intros j e Hj He Hidx. destruct (D2 e He) as [A|A]; [exact A|]. congruence. }
  assert (C1 : Csub i G1 (pcss S i)) by (intros r b Hg Hb; apply HC; [apply (own i _ Hi Hg eq_refl)|exact Hb]).
  assert (S1 : SInv i (sg (st S i)) G1).
  { destruct HS as [A B]. split; [intros e He Hidx; apply A; [apply (own i _ Hi He Hidx)|exact Hidx]|].
    intros E w Ew Ht. apply D1. apply B; assumption. }
  destruct (T_handle VS Hbounded h0 c inp Hskip _ _ _ _ _ HJ Hh Hin Eh) as [HJ' Hgoods].
  pose proof (SG_handle c inp Hskip _ _ _ Eh) as Hsg. rewrite Hh in Hsg.
  destruct (emit_step i off' Hi _ _ _ Hsg _ _ Hgoods R1 B1 C1 S1) as (R2 & C2 & S2 & I2 & O2).
  set (G2 := emit_all i o G1) in *.
  assert (I02 : incl (tr S) G2) by (eapply incl_tran; [exact D1|exact I2]).
  assert (own2 : forall j e, byz j = false -> j <> i -> In e G2 -> g_idx e = j -> In e (tr S)).
  { intros j e Hj Hne He Hidx. destruct (O2 e He) as [A|A]; [apply (own j e Hj A Hidx)|congruence]. }
  split; [exact R2|]. split.
  - intros j Hj. unfold NI, LogInv. cbn [st offs pcss tr dur logs]. destruct (Nat.eq_dec j i) as [->|Hne].
    + rewrite !upd_same. split; [split; [exact HJ'|]; split; [eapply Bsub_incl; [exact I2|exact B1]|]; split; [exact C2|exact S2]|].
      intros l Hl. destruct (logs S i) as [l0|] eqn:El0; [|discriminate]. cbn in Hl. injection Hl as <-.
      destruct (HLi l0 El0) as (s0 & n0 & E0 & Erun). exists s0, n0. split; [exact E0|].
      cbn [rev]. rewrite run_app, Erun. cbn [run]. rewrite Eh. reflexivity.
    + rewrite !upd_other by exact Hne. destruct (HN j Hj) as ((Jj & Bj & Cj & Sj) & HLj).
      split; [|exact HLj].
      split; [exact Jj|]. split; [eapply Bsub_incl; [exact I02|exact Bj]|]. split.
      * intros r b Hg Hb. apply Cj; [apply (own2 j _ Hj Hne Hg eq_refl)|exact Hb].
      * destruct Sj as [A B]. split; [intros e He Hidx; apply A; [apply (own2 j _ Hj Hne He Hidx)|exact Hidx]|].
        intros E w Ew Ht. apply I02. apply B; assumption.
  - cbn [cms tr]. intros j a Hja. apply in_app_or in Hja as [Hja|Hja].
    + apply in_commits_of in Hja as [-> (hc & Hoc)].
      destruct HJ as (Hok & _).
      destruct (CW_handle VS Hbounded h0 c inp Hskip _ _ _ _ _ _ Hok Hh Eh Hoc) as (_ & Ha & r & b & Hb & HQ).
      split; [exact Ha|]. exists r, b. split; [exact Hb|]. eapply Qr_mono; [|exact HQ].
      intro k. apply voted_for_G; [|reflexivity]. eapply Bsub_incl; [exact I2|exact B1].
    + eapply commit_backed_incl; [exact I02|]. eapply HCm. exact Hja.
Qed.

Theorem reachable_SysInv S : reachable S -> SysInv S.
Proof. induction 1 as [S Hi|S S' _ IH Hs]; [apply init_SysInv; exact Hi|eapply sstep_SysInv; eauto]. Qed.


(* ---------- an executable scheduler: scripts of (validator, input) build reachable states ---------- *)
Definition admissible_b (inp : input) (G : list gv) : bool :=
  match inp with
  | IVote v _ => negb (vb v && typ12 (v_type v) && negb (byz (vidx v))) || existsb (gv_eqb (gv_of v)) G
  | _ => true
  end.
Definition input_ok_b (inp : input) (n : node) : bool := match inp with ITimeout _ r _ => r <=? round n | _ => true end.
Definition exec1 (S : sys) (i : nat) (inp : input) : option sys :=
  if negb (byz i) && (height (st S i) =? h0) && input_ok_b inp (st S i) && admissible_b inp (tr S) then
    match handle c inp (st S i) with
    | Ok (n', o) => Some (mkSys (upd (st S) i n') (upd (offs S) i (delivered_of inp ++ offs S i))
                                (upd (pcss S) i (pcs_after o (pcss S i)))
                                (emit_all i o (deliver_tr inp (tr S))) (commits_of i o ++ cms S)
                                (dur S) (upd (logs S) i (option_map (cons inp) (logs S i))))
    | _ => None
    end
  else None.
Inductive sevent := EIn (i : nat) (inp : input) | EMaj (i : nat) (r : Z) (t : N) (peer : bytes) (b : block_id)
                 | ERestart (i : nat).
Definition exec_ev (S : sys) (e : sevent) : option sys :=
  match e with
  | EIn i inp => exec1 S i inp
  | EMaj i r t peer b =>
    if negb (byz i) && (height (st S i) =? h0) then
      Some (mkSys (upd (st S) i (set_votes (st S i) (hv_set_peer_maj23 (votes (st S i)) r t peer b)))
                  (offs S) (pcss S) (tr S) (cms S) (dur S) (upd (logs S) i None))
    else None
  | ERestart i =>
    if negb (byz i) && (height (st S i) =? h0) then
      match logs S i with
      | Some l =>
        match init_node h0 (fst (fst (dur S i))) (snd (fst (dur S i))) (snd (dur S i)) (sg (st S i)) with
        | Ok n0' => match run c (rev l) n0' with
                    | Ok nr => Some (mkSys (upd (st S) i nr) (offs S) (pcss S) (tr S) (cms S) (dur S) (logs S))
                    | _ => None
                    end
        | _ => None
        end
      | None => None
      end
    else None
  end.
Fixpoint exec (S : sys) (script : list sevent) : option sys :=
  match script with
  | [] => Some S
  | e :: t => match exec_ev S e with Some S' => exec S' t | None => None end
  end.

Lemma exec1_step S i inp S' : exec1 S i inp = Some S' -> sstep S S'.
Proof.
  unfold exec1. destruct (negb (byz i) && _ && _ && _) eqn:E; [|discriminate].
  apply andb_prop in E as [E Ea]. apply andb_prop in E as [E Ei]. apply andb_prop in E as [Eb Eh].
  destruct (handle c inp (st S i)) as [[n' o]| |] eqn:Hd; try discriminate. intro H. injection H as <-.
  apply (sstep_intro S _ i inp n' o); [now apply negb_true_iff in Eb|lia| | |exact Hd|reflexivity].
  - destruct inp; cbn in *; try exact I. lia.
  - destruct inp as [| |v peer|]; cbn in *; try exact I. intros A B C. rewrite A, B, C in Ea. cbn in Ea.
    apply existsb_exists in Ea as (x & Hx & Ex). apply gv_eqb_eq in Ex. now subst x.
Qed.
Lemma exec_ev_step S e S' : exec_ev S e = Some S' -> sstep S S'.
Proof.
  destruct e as [i inp|i r t peer b|i]; cbn [exec_ev]; [apply exec1_step| |].
  - destruct (negb (byz i) && _) eqn:E; [|discriminate]. apply andb_prop in E as [Eb Eh]. intro H. injection H as <-.
    apply (sstep_maj S _ i r t peer b); [now apply negb_true_iff in Eb|lia|reflexivity].
  - destruct (negb (byz i) && _) eqn:E; [|discriminate]. apply andb_prop in E as [Eb Eh].
    destruct (logs S i) as [l|] eqn:El; [|discriminate].
    destruct (init_node _ _ _ _ _) as [n0'| |] eqn:Ei; try discriminate.
    destruct (run c (rev l) n0') as [nr| |] eqn:Er; try discriminate. intro H. injection H as <-.
    apply (sstep_restart S _ i l n0' nr); [now apply negb_true_iff in Eb|lia|exact El|exact Ei|exact Er|reflexivity].
Qed.
Lemma exec_reachable script : forall S S', reachable S -> exec S script = Some S' -> reachable S'.
Proof.
  induction script as [|e t IH]; intros S S' HS; cbn [exec]; [intro E; injection E as <-; exact HS|].
  destruct (exec_ev S e) as [S1|] eqn:E1; [|discriminate]. apply IH. eapply reach_step; [exact HS|apply (exec_ev_step S e S1 E1)].
Qed.

(* ---------- from the local rules to the rules of Proofs/Protocol.v ---------- *)
Hypothesis byz_bound : 3 * pow_of VS byz < pow_of VS (fun _ => true).

Definition power (i : nat) : Z := snd (nth i VS (([] : bytes), 0)).
Definition pvals : list nat := seq 0 (length VS).

Lemma ppow_ext (f1 f2 : nat -> Z) P l : (forall v, In v l -> f1 v = f2 v) -> Protocol.pow nat f1 P l = Protocol.pow nat f2 P l.
Proof.
  induction l as [|x l IH]; intro H; cbn; [reflexivity|]. rewrite (H x (or_introl eq_refl)), IH; [reflexivity|].
  intros v Hv. apply H. right. exact Hv.
Qed.
Lemma pow_bridge_gen vals : forall k P,
  Protocol.pow nat (fun i => snd (nth (i - k) vals (([] : bytes), 0))) P (seq k (length vals)) = pow_from k vals P.
Proof.
  induction vals as [|[a p] t IH]; intros k P; cbn [length seq Protocol.pow pow_from]; [reflexivity|].
  rewrite Nat.sub_diag. cbn [nth snd]. f_equal. rewrite <- IH. apply ppow_ext.
  intros v Hv. apply in_seq in Hv. replace (v - k)%nat with (S (v - S k)) by lia. reflexivity.
Qed.
Lemma pow_bridge P : Protocol.pow nat power P pvals = pow_of VS P.
Proof.
  unfold pvals, pow_of. rewrite <- pow_bridge_gen. apply ppow_ext. intros v _. unfold power. now rewrite Nat.sub_0_r.
Qed.
Lemma power_nonneg i : 0 <= power i.
Proof.
  unfold power. destruct (nth_in_or_default i VS (([] : bytes), 0)) as [H|H]; [|rewrite H; cbn; lia].
  destruct Hbounded as [Hn _]. unfold nonneg in Hn. rewrite Forall_forall in Hn. apply Hn. exact H.
Qed.

Lemma quorum_bridge P Q : (forall i, P i = true -> Q i = true) -> Qr VS P -> Protocol.quorum nat pvals power Q.
Proof.
  intros H HQ. apply (Qr_mono P Q H) in HQ. unfold Qr in HQ. rewrite (two_thirds_spec VS Hbounded) in HQ.
  unfold Protocol.quorum, Protocol.total, Protocol.powS. rewrite !pow_bridge.
  assert (H0 := pow_from_nonneg 0 VS (fun _ => true) (proj1 Hbounded)). unfold pow_of in *.
  set (T := pow_from 0 VS (fun _ => true)) in *. set (X := pow_from 0 VS Q) in *.
  assert (T * 2 / 3 * 3 <= T * 2 < T * 2 / 3 * 3 + 3); [|lia].
  pose proof (Z.div_mod (T * 2) 3 ltac:(lia)). pose proof (Z.mod_pos_bound (T * 2) 3 ltac:(lia)). lia.
Qed.

Definition pty (t : N) : Protocol.vtype := if N.eqb t 1 then Protocol.Prevote else Protocol.Precommit.
Definition cval (b : block_id) : option bytes := match b_hash b with [] => None | _ => Some (b_hash b) end.
Lemma cval_some b a : cval b = Some a <-> (b_hash b = a /\ a <> []).
Proof.
  unfold cval. destruct (b_hash b) eqn:E; split; try discriminate.
  - intros [<- H]. contradiction.
  - intro H. injection H as <-. split; [reflexivity|discriminate].
  - intros [<- _]. reflexivity.
Qed.

Section Conv.
Variable rmin : Z.
Definition conv (e : gv) : Protocol.vote nat bytes :=
  Protocol.Build_vote nat bytes (g_idx e) (Z.to_nat (g_round e - rmin)) (pty (g_type e)) (cval (g_bid e)).

Lemma bytes_eqb_reflect (a b : bytes) : reflect (a = b) (bytes_eqb a b).
Proof. apply iff_reflect. symmetry. apply bytes_eqb_eq. Qed.

Lemma voted_bridge G r t b idx : votedG G r t b idx = true ->
  Protocol.voted nat Nat.eqb bytes bytes_eqb (map conv G) (Z.to_nat (r - rmin)) (pty t) (cval b) idx = true.
Proof.
  unfold votedG, Protocol.voted. rewrite !existsb_exists. intros (e & He & H).
  apply andb_prop in H as [H Hb]. apply andb_prop in H as [H Ht]. apply andb_prop in H as [Hi Hr].
  apply Nat.eqb_eq in Hi. apply Z.eqb_eq in Hr. apply N.eqb_eq in Ht. apply bid_eqb_eq in Hb.
  exists (conv e). split; [apply in_map; exact He|]. unfold Protocol.is_vote, conv. cbn.
  rewrite Hi, Hr, Ht, Hb, !Nat.eqb_refl. cbn [andb].
  replace (Protocol.vtype_eqb (pty t) (pty t)) with true by (destruct (pty t); reflexivity). cbn [andb].
  destruct (Protocol.oeqb_spec bytes bytes_eqb bytes_eqb_reflect (cval b) (cval b)); [reflexivity|congruence].
Qed.

Lemma q_bridge G r t b : Qr VS (votedG G r t b) ->
  Protocol.quorum nat pvals power (Protocol.voted nat Nat.eqb bytes bytes_eqb (map conv G) (Z.to_nat (r - rmin)) (pty t) (cval b)).
Proof. apply quorum_bridge. intro i. apply voted_bridge. Qed.

Lemma map_split_inv {A B} (f : A -> B) l pre' e' post' : map f l = pre' ++ e' :: post' ->
  exists pre e post, l = pre ++ e :: post /\ pre' = map f pre /\ e' = f e /\ post' = map f post.
Proof.
  revert pre'. induction l as [|x l IH]; intros pre' H; [destruct pre'; discriminate|].
  destruct pre' as [|p pre']; cbn in H.
  - injection H as <- <-. exists [], x, l. auto.
  - injection H as <- H. destruct (IH pre' H) as (pre & e & post & -> & -> & -> & ->). exists (x :: pre), e, post. auto.
Qed.

Lemma Rules_typ G e : Rules G -> In e G -> byz (g_idx e) = false -> typ12 (g_type e) = true.
Proof. intros HR Hin Hb. apply in_split in Hin as (l1 & l2 & ->). apply (HR l1 e l2 eq_refl Hb). Qed.

Variable G : list gv.
Hypothesis HRules : Rules G.
Hypothesis Hmin : forall e, In e G -> rmin <= g_round e.

Lemma st_of_pty t : typ12 t = true -> (pty t = Protocol.Prevote /\ t = 1%N /\ st_of t = 2) \/ (pty t = Protocol.Precommit /\ t = 2%N /\ st_of t = 3).
Proof.
  unfold typ12, pty, st_of. destruct (N.eqb_spec t 1) as [->|H1]; [left; auto|]. cbn. intro H. apply N.eqb_eq in H. subst t. right. auto.
Qed.

Lemma R0_conv : Protocol.R0 nat bytes byz (map conv G).
Proof.
  intros pre' e' post' Heq Hh e0' Hin0 Hv.
  apply map_split_inv in Heq as (pre & e & post & EG & -> & -> & ->).
  apply in_map_iff in Hin0 as (e0 & <- & Hin0). cbn in Hv, Hh. unfold Protocol.honest in Hh. cbn in Hh.
  destruct (HRules pre e post EG Hh) as (Ht & L0 & _). specialize (L0 e0 Hin0 Hv).
  assert (M0 : rmin <= g_round e0) by (apply Hmin; rewrite EG; apply in_or_app; left; exact Hin0).
  assert (M1 : rmin <= g_round e) by (apply Hmin; rewrite EG; apply in_or_app; right; left; reflexivity).
  assert (Ht0 : typ12 (g_type e0) = true).
  { apply (Rules_typ G e0 HRules); [rewrite EG; apply in_or_app; left; exact Hin0|congruence]. }
  unfold Protocol.step_le. cbn. unfold hrs_lt in L0.
  destruct (st_of_pty _ Ht) as [(P1 & _ & S1)|(P1 & _ & S1)], (st_of_pty _ Ht0) as [(P0 & _ & S0)|(P0 & _ & S0)]; rewrite P1, P0, S1, S0 in *;
    destruct (Z.lt_trichotomy (g_round e0) (g_round e)) as [Hl|[He|Hg]]; try (left; lia); try (right; split; [lia|auto]); exfalso; lia.
Qed.

Lemma R1_conv : Protocol.R1 nat bytes byz (map conv G).
Proof.
  intros pre' e' post' Heq Hh e0' Hin0 Hv Hr Hty.
  apply map_split_inv in Heq as (pre & e & post & EG & -> & -> & ->).
  apply in_map_iff in Hin0 as (e0 & <- & Hin0). cbn in Hv, Hh, Hr, Hty. unfold Protocol.honest in Hh. cbn in Hh.
  destruct (HRules pre e post EG Hh) as (Ht & L0 & _). specialize (L0 e0 Hin0 Hv).
  assert (M0 : rmin <= g_round e0) by (apply Hmin; rewrite EG; apply in_or_app; left; exact Hin0).
  assert (M1 : rmin <= g_round e) by (apply Hmin; rewrite EG; apply in_or_app; right; left; reflexivity).
  assert (Ht0 : typ12 (g_type e0) = true).
  { apply (Rules_typ G e0 HRules); [rewrite EG; apply in_or_app; left; exact Hin0|congruence]. }
  unfold hrs_lt in L0.
  destruct (st_of_pty _ Ht) as [(P1 & _ & S1)|(P1 & _ & S1)], (st_of_pty _ Ht0) as [(P0 & _ & S0)|(P0 & _ & S0)]; rewrite P1, P0, S1, S0 in *;
    try discriminate; lia.
Qed.

Lemma R2_conv : Protocol.R2 nat Nat.eqb bytes bytes_eqb pvals power byz (map conv G).
Proof.
  intros pre' e' post' b Heq Hh Hty Hval.
  apply map_split_inv in Heq as (pre & e & post & EG & -> & -> & ->).
  cbn in Hh, Hty, Hval. unfold Protocol.honest in Hh. cbn in Hh.
  destruct (HRules pre e post EG Hh) as (Ht & _ & L2 & _).
  destruct (st_of_pty _ Ht) as [(P1 & _)|(_ & T2 & _)]; [congruence|].
  apply cval_some in Hval as [Hb Hne]. unfold Protocol.polka. cbn.
  replace (Some b) with (cval (g_bid e)) by (apply cval_some; auto).
  apply (q_bridge pre (g_round e) 1%N (g_bid e)). apply L2; [exact T2|congruence].
Qed.

Lemma R3_conv : Protocol.R3 nat Nat.eqb bytes bytes_eqb pvals power byz (map conv G).
Proof.
  intros pre' e' post' e0' b Heq Hh Hty Hin0 Hv Hty0 Hval0 Hlt Hne.
  apply map_split_inv in Heq as (pre & e & post & EG & -> & -> & ->).
  apply in_map_iff in Hin0 as (e0 & <- & Hin0). cbn in Hh, Hty, Hv, Hty0, Hval0, Hlt, Hne. unfold Protocol.honest in Hh. cbn in Hh.
  destruct (HRules pre e post EG Hh) as (Ht & _ & _ & L3).
  assert (M0 : rmin <= g_round e0) by (apply Hmin; rewrite EG; apply in_or_app; left; exact Hin0).
  assert (M1 : rmin <= g_round e) by (apply Hmin; rewrite EG; apply in_or_app; right; left; reflexivity).
  assert (Ht0 : typ12 (g_type e0) = true).
  { apply (Rules_typ G e0 HRules); [rewrite EG; apply in_or_app; left; exact Hin0|congruence]. }
  destruct (st_of_pty _ Ht) as [(_ & T1 & _)|(P1 & _)]; [|congruence].
  destruct (st_of_pty _ Ht0) as [(P0 & _)|(_ & T0 & _)]; [congruence|].
  apply cval_some in Hval0 as [Hb0 Hb0ne].
  assert (Hne' : b_hash (g_bid e) <> b_hash (g_bid e0)).
  { intro E. apply Hne. apply cval_some. split; congruence. }
  destruct (L3 T1 e0 Hin0 Hv T0 ltac:(congruence) ltac:(lia) Hne') as (r' & x' & Hr' & Hx' & HQ).
  exists (Z.to_nat (r' - rmin)), (cval x'). split; [cbn; lia|]. split.
  - intro E. apply cval_some in E as [E _]. apply Hx'. congruence.
  - apply (q_bridge pre r' 1%N x'). exact HQ.
Qed.
End Conv.

Definition round_floor (G : list gv) : Z := fold_right Z.min 0 (map g_round G).
Lemma round_floor_le G e : In e G -> round_floor G <= g_round e.
Proof.
  unfold round_floor. induction G as [|x G IH]; intros []; cbn.
  - subst x. lia.
  - specialize (IH H). lia.
Qed.

Lemma byz_bound' : 3 * Protocol.powS nat pvals power byz < Protocol.total nat pvals power.
Proof. unfold Protocol.total, Protocol.powS. rewrite !pow_bridge. exact byz_bound. Qed.

(* two blocks backed by commits in a trace that obeys the local rules are the same block *)
Theorem rules_agreement G a b : Rules G -> commit_backed_in G a -> commit_backed_in G b -> a = b.
Proof.
  intros HR (Ha & ra & xa & Hxa & Qa) (Hb & rb & xb & Hxb & Qb).
  set (rmin := round_floor G).
  assert (Hmin : forall e, In e G -> rmin <= g_round e) by (intros e He; apply round_floor_le; exact He).
  apply (Protocol.agreement nat Nat.eqb Nat.eqb_spec bytes bytes_eqb bytes_eqb_reflect pvals power power_nonneg byz byz_bound'
           (map (conv rmin) G) (Z.to_nat (ra - rmin)) a (Z.to_nat (rb - rmin)) b).
  - apply R0_conv; assumption.
  - apply R1_conv; assumption.
  - apply R2_conv; assumption.
  - apply R3_conv; assumption.
  - unfold Protocol.commitq. replace (Some a) with (cval xa) by (apply cval_some; auto). apply (q_bridge rmin G ra 2%N xa Qa).
  - unfold Protocol.commitq. replace (Some b) with (cval xb) by (apply cval_some; auto). apply (q_bridge rmin G rb 2%N xb Qb).
Qed.

(* Agreement: in every reachable state of the system, any two commits of the height - by whichever
   honest validators - are for the same block hash. *)
Theorem system_agreement S i a j b : reachable S -> In (i, a) (cms S) -> In (j, b) (cms S) -> a = b.
Proof.
  intros HS Ha Hb. destruct (reachable_SysInv S HS) as (HR & _ & HC).
  apply (rules_agreement (tr S) a b HR (HC i a Ha) (HC j b Hb)).
Qed.
End System.
