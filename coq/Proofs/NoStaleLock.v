(* No node stays locked against a later polka it holds (C12; the Go monitor
   "lock-kept-against-later-polka" checks the same on the real code).  For every state a node of
   Model/Node.v reaches from the start of a height, in the configuration without skip-commit:
     I1  if the node is locked on a block since round lr, every +2/3 prevote majority it holds for a
         round in (lr, its round] is for that block;
     I2  no vote set of a round after the node's own holds +2/3 of any prevotes (it would have
         moved the node there).
   I1 is what lets a height terminate in this version, whose nodes prevote their locked block
   whatever is proposed: once +2/3 have prevoted something else in a later round, nobody who learns
   of it stays behind on the old lock. *)
From Coq Require Import List NArith ZArith Bool Lia.
From AnnVerif Require Import Base.Res Base.Bytes Model.VoteSet Model.ValSet Model.Node
  Proofs.BytesProofs Proofs.PowerSum Proofs.VoteSetProofs Proofs.NodeProofs Proofs.Backed Proofs.NodeBacked.
Import ListNotations.
Open Scope Z_scope.

Section NoStaleLock.
Variable VS : list validator.
Hypothesis Hbounded : bounded VS.
Variable h0 : Z.

(* ---------- vote sets ---------- *)
Definition fresh (h : hvs) (q : Z) : Prop :=
  any23 (hv_prevotes h q) = false /\ maj23 (hv_prevotes h q) = None.
(* the prevotes of round q are what they were, or a set nobody has voted in *)
Definition same_or_fresh (h h' : hvs) (q : Z) : Prop :=
  (maj23 (hv_prevotes h' q) = maj23 (hv_prevotes h q) /\ any23 (hv_prevotes h' q) = any23 (hv_prevotes h q)) \/ fresh h' q.
Lemma sf_eq h h' q : hv_prevotes h' q = hv_prevotes h q -> same_or_fresh h h' q.
Proof. intro E. left. rewrite E. split; reflexivity. Qed.
(* a majority needs +2/3 of any *)
Definition MA (h : hvs) : Prop := forall r b, maj23 (hv_prevotes h r) = Some b -> any23 (hv_prevotes h r) = true.

Lemma two_thirds_nonneg : 0 <= two_thirds VS.
Proof.
  rewrite two_thirds_spec by exact Hbounded. destruct Hbounded as [Hn _].
  pose proof (pow_from_nonneg 0 VS (fun _ => true) Hn). unfold pow_of. apply Z.div_pos; lia.
Qed.

Lemma Inv_maj_any H R T off vs b : Inv VS H R T off vs -> vs_maj23 vs = Some b -> has_two_thirds_any vs = true.
Proof.
  intros [A B C D E F G I J K L] Hm.
  destruct (J b Hm) as (bv & Hl & Hq & _).
  destruct (I _ _ Hl) as (I1 & I2 & I3 & I4).
  rewrite quorum_spec in Hq by assumption.
  unfold has_two_thirds_any. rewrite A, G. apply Z.ltb_lt.
  assert (Hle : bv_sum bv <= psum VS (vs_votes vs)).
  { rewrite I3. unfold psum. apply pow_from_mono; [apply Hbounded|].
    intros i _ Hs. specialize (I4 i). destruct (nth i (bv_votes bv) None) as [v|]; [|discriminate].
    destruct (nth i (vs_votes vs) None); [reflexivity|]. exfalso. apply I4; [discriminate|reflexivity]. }
  lia.
Qed.

Lemma hvs_ok_MA off h : hvs_ok VS off h -> MA h.
Proof.
  intros [_ Hs] r b. unfold hv_prevotes. destruct (zlookup r (hv_sets h)) as [rv|] eqn:El; cbn; [|discriminate].
  intro Hm. destruct (Hs _ _ El) as [(o & HI & _) _]. eapply Inv_maj_any; eauto.
Qed.

Lemma new_voteset_fresh H R T a : new_voteset H R T VS = Ok a -> has_two_thirds_any a = false /\ vs_maj23 a = None.
Proof.
  unfold new_voteset. destruct (H =? 0); [discriminate|]. intro E. injection E as <-. cbn.
  split; [|reflexivity]. unfold has_two_thirds_any. cbn. apply Z.ltb_ge. apply two_thirds_nonneg.
Qed.

Lemma add_round_sf h r h' : hv_vals h = VS -> hv_add_round h r = Ok h' ->
  hv_vals h' = VS /\ forall q, same_or_fresh h h' q.
Proof.
  intros Hv. unfold hv_add_round. destruct (zlookup r (hv_sets h)) eqn:El; [discriminate|].
  rewrite Hv.
  destruct (new_voteset (hv_height h) r 1 VS) as [a|e1|w1] eqn:Ea; destruct (new_voteset (hv_height h) r 2 VS) as [b|e2|w2]; try discriminate.
  intro E. injection E as <-. cbn. split; [reflexivity|]. intro q. unfold same_or_fresh, fresh, hv_prevotes. cbn.
  destruct (zlookup q (hv_sets h)) as [rv|] eqn:Eq.
  - left. erewrite zlookup_app_some by exact Eq. split; reflexivity.
  - destruct (Z.eq_dec q r) as [->|Hne].
    + right. assert (Hz : zlookup r (hv_sets h ++ [(r, mkRvs a b)]) = Some (mkRvs a b)).
      { clear -El. induction (hv_sets h) as [|[k x] t IH]; cbn in *; [rewrite Z.eqb_refl; reflexivity|].
        destruct (k =? r); [discriminate|]. apply IH. exact El. }
      rewrite Hz. cbn. apply (new_voteset_fresh _ _ _ _ Ea).
    + left. assert (Hz : zlookup q (hv_sets h ++ [(r, mkRvs a b)]) = None).
      { clear -Eq Hne. induction (hv_sets h) as [|[k x] t IH]; cbn in *.
        - destruct (Z.eqb_spec r q); [congruence|reflexivity].
        - destruct (k =? q); [discriminate|]. apply IH. exact Eq. }
      rewrite Hz. split; reflexivity.
Qed.

Lemma sf_refl h q : same_or_fresh h h q. Proof. left. split; reflexivity. Qed.
Lemma sf_trans a b c q : same_or_fresh a b q -> same_or_fresh b c q -> same_or_fresh a c q.
Proof.
  intros [[E1 E1']|F1] [[E2 E2']|F2]; unfold same_or_fresh.
  - left. split; congruence.
  - right. exact F2.
  - right. unfold fresh in *. rewrite E2, E2'. exact F1.
  - right. exact F2.
Qed.

Lemma add_rounds_sf count : forall h from h', hv_vals h = VS -> hv_add_rounds h from count = Ok h' ->
  hv_vals h' = VS /\ forall q, same_or_fresh h h' q.
Proof.
  induction count as [|c IH]; intros h from h' Hv; cbn [hv_add_rounds].
  - intro E. injection E as <-. split; [exact Hv|intro q; apply sf_refl].
  - destruct (zlookup from (hv_sets h)); [apply IH; exact Hv|].
    destruct (hv_add_round h from) as [h1| |] eqn:E1; try discriminate. intro E2.
    destruct (add_round_sf _ _ _ Hv E1) as (V1 & S1). destruct (IH _ _ _ V1 E2) as (V2 & S2).
    split; [exact V2|]. intro q. eapply sf_trans; [apply S1|apply S2].
Qed.

Lemma set_round_sf h r h' : hv_vals h = VS -> hv_set_round h r = Ok h' ->
  hv_vals h' = VS /\ forall q, same_or_fresh h h' q.
Proof.
  intro Hv. unfold hv_set_round. destruct (_ && _); [discriminate|].
  destruct (hv_add_rounds _ _ _) as [h1| |] eqn:E; try discriminate. intro E2. injection E2 as <-.
  destruct (add_rounds_sf _ _ _ _ Hv E) as (V & S). split; [exact V|]. intro q. exact (S q).
Qed.

(* a vote that is not added leaves the majority and the sum as they were *)
Lemma add_verified_notadded vs v i key pow vs' cf : add_verified vs v i key pow = Ok (vs', false, cf) ->
  vs_maj23 vs' = vs_maj23 vs /\ has_two_thirds_any vs' = has_two_thirds_any vs.
Proof.
  unfold add_verified. destruct (nth_vote (vs_votes vs) i) as [ex|].
  - destruct (bid_eqb (v_bid ex) (v_bid v)); [discriminate|].
    destruct (lookup key (vs_byblock vs)) as [bv|].
    + destruct (bv_peer bv).
      * cbv zeta. match goal with |- context [let '(maj, votes2) := ?x in _] => destruct x as [maj votes2] end.
        intro E. discriminate E.
      * intro E. injection E as <- _. split; reflexivity.
    + intro E. injection E as <- _. split; reflexivity.
  - destruct (lookup key (vs_byblock vs)) as [bv|];
      cbv zeta; match goal with |- context [let '(maj, votes2) := ?x in _] => destruct x as [maj votes2] end;
      intro E; discriminate E.
Qed.

Lemma add_vote_notadded vs v vs' c : add_vote vs v = Ok (vs', false, c) ->
  vs_maj23 vs' = vs_maj23 vs /\ has_two_thirds_any vs' = has_two_thirds_any vs.
Proof.
  unfold add_vote.
  destruct (v_index v <? 0); [intro E; injection E as <- _; auto|].
  destruct (v_addr v); [intro E; injection E as <- _; auto|].
  destruct (negb _); [intro E; injection E as <- _; auto|].
  destruct (_ <=? _); [intro E; injection E as <- _; auto|].
  destruct (nth_error _ _) as [[addr pow]|]; [|intro E; injection E as <- _; auto].
  destruct (negb (bytes_eqb _ addr)); [intro E; injection E as <- _; auto|].
  destruct (get_vote _ _ _) as [ex|]; [destruct (bytes_eqb _ _); intro E; injection E as <- _; auto|].
  destruct (negb (v_sigok v)); [intro E; injection E as <- _; auto|].
  destruct (add_verified _ _ _ _ _) as [[[vs1 ad] [cf|]]| |] eqn:Ea; try discriminate.
  - intro E. injection E as <- -> _. eapply add_verified_notadded; exact Ea.
  - destruct ad; intro E; discriminate E.
Qed.

Lemma put_vals h r t vs : hv_vals (hv_put h r t vs) = hv_vals h.
Proof. unfold hv_put. destruct (zlookup r (hv_sets h)); reflexivity. Qed.
Lemma put_cmt h r t vs : N.eqb t 1 = false -> hv_prevotes (hv_put h r t vs) r = hv_prevotes h r.
Proof.
  intro Ht. unfold hv_put, hv_prevotes. destruct (zlookup r (hv_sets h)) as [rv|] eqn:El; [|rewrite El; reflexivity].
  cbn. rewrite zlookup_zupdate_eq. rewrite Ht. reflexivity.
Qed.

Lemma add_vote_sf h v peer h' a c : hv_vals h = VS -> hv_add_vote h v peer = Ok (h', a, c) ->
  hv_vals h' = VS /\ forall q, (q = v_round v /\ v_type v = 1%N) \/ same_or_fresh h h' q.
Proof.
  intro Hv. unfold hv_add_vote. destruct (negb _); [intro E; injection E as <- _ _; split; [exact Hv|intro q; right; apply sf_refl]|].
  assert (Hgo : forall h1, hv_vals h1 = VS ->
            (match hv_get h1 (v_round v) (v_type v) with
             | None => Panic 34
             | Some vs => match add_vote vs v with
                          | Ok (vs', added, code) => Ok (hv_put h1 (v_round v) (v_type v) vs', added, code)
                          | Err e => Err e | Panic w => Panic w end
             end) = Ok (h', a, c) ->
            hv_vals h' = VS /\ forall q, (q = v_round v /\ v_type v = 1%N) \/ hv_prevotes h' q = hv_prevotes h1 q).
  { intros h1 Hv1. destruct (hv_get h1 (v_round v) (v_type v)) as [vs|]; [|discriminate].
    destruct (add_vote vs v) as [[[vs' ad] cd]| |]; try discriminate. intro E. injection E as <- _ _.
    split; [rewrite put_vals; exact Hv1|]. intro q.
    destruct (Z.eq_dec q (v_round v)) as [->|Hne].
    - destruct (N.eqb (v_type v) 1) eqn:Et; [left; split; [reflexivity|apply N.eqb_eq; exact Et]|right; apply put_cmt; exact Et].
    - right. apply (hv_put_get_other h1 (v_round v) (v_type v) vs' q). congruence. }
  destruct (hv_get h (v_round v) (v_type v)) eqn:Eg0.
  - intro E. destruct (Hgo h Hv) as (V & S); [rewrite Eg0; exact E|]. split; [exact V|].
    intro q. destruct (S q) as [L|R]; [left; exact L|right; apply sf_eq; exact R].
  - destruct (Nat.ltb _ 2); [|intro E; injection E as <- _ _; split; [exact Hv|intro q; right; apply sf_refl]].
    destruct (hv_add_round h (v_round v)) as [h1| |] eqn:E1; try discriminate. intro E.
    destruct (add_round_sf _ _ _ Hv E1) as (V1 & S1).
    apply Hgo in E; [|exact V1]. destruct E as (V & S). split; [exact V|].
    intro q. destruct (S q) as [L|R]; [left; exact L|right].
    cbn in R. assert (R' : hv_prevotes h' q = hv_prevotes h1 q) by (unfold hv_prevotes in *; cbn in *; exact R).
    eapply sf_trans; [apply S1|apply sf_eq; exact R'].
Qed.

Lemma put_notadded h1 r t vs vs' : hv_get h1 r t = Some vs ->
  vs_maj23 vs' = vs_maj23 vs -> has_two_thirds_any vs' = has_two_thirds_any vs ->
  forall q, same_or_fresh h1 (hv_put h1 r t vs') q.
Proof.
  intros Hg Hm Ha q. destruct (Z.eq_dec q r) as [->|Hne].
  2:{ apply sf_eq. apply (hv_put_get_other h1 r t vs' q). congruence. }
  destruct (N.eqb t 1) eqn:Et; [|apply sf_eq; apply put_cmt; exact Et].
  unfold hv_get in Hg. rewrite Et in Hg. left.
  unfold hv_put, hv_prevotes in *. destruct (zlookup r (hv_sets h1)) as [rv|] eqn:El; [|discriminate].
  cbn in Hg. injection Hg as Hg. cbn. rewrite zlookup_zupdate_eq, Et. cbn. rewrite Hg. auto.
Qed.

Lemma add_vote_sf_notadded h v peer h' c : hv_vals h = VS -> hv_add_vote h v peer = Ok (h', false, c) ->
  forall q, same_or_fresh h h' q.
Proof.
  intro Hv. unfold hv_add_vote. destruct (negb _); [intro E; injection E as <- _; intro q; apply sf_refl|].
  assert (Hgo : forall h1,
            (match hv_get h1 (v_round v) (v_type v) with
             | None => Panic 34
             | Some vs => match add_vote vs v with
                          | Ok (vs', added, code) => Ok (hv_put h1 (v_round v) (v_type v) vs', added, code)
                          | Err e => Err e | Panic w => Panic w end
             end) = Ok (h', false, c) -> forall q, same_or_fresh h1 h' q).
  { intros h1. destruct (hv_get h1 (v_round v) (v_type v)) as [vs|] eqn:Eg; [|discriminate].
    destruct (add_vote vs v) as [[[vs' ad] cd]| |] eqn:Ea; try discriminate. intro E. injection E as <- -> _.
    destruct (add_vote_notadded _ _ _ _ Ea) as [Hm Ha]. apply (put_notadded _ _ _ _ _ Eg Hm Ha). }
  destruct (hv_get h (v_round v) (v_type v)) eqn:Eg0.
  - intro E. apply Hgo. rewrite Eg0. exact E.
  - destruct (Nat.ltb _ 2); [|intro E; injection E as <- _; intro q; apply sf_refl].
    destruct (hv_add_round h (v_round v)) as [h1| |] eqn:E1; try discriminate. intro E.
    destruct (add_round_sf _ _ _ Hv E1) as (V1 & S1).
    pose proof (Hgo _ E) as E'. intro q. eapply sf_trans; [apply S1|].
    specialize (E' q). unfold same_or_fresh, fresh, hv_prevotes in *. cbn in *. exact E'.
Qed.

(* ---------- the node ---------- *)
Section Exempt.
(* rounds left out of the two statements (while a vote just inserted has not been acted on yet) *)
Variable X : Z -> Prop.
Definition I1 (n : node) : Prop := forall lb r b, lblock n = Some lb -> ~ X r -> lround n < r -> r <= round n ->
  maj23 (hv_prevotes (votes n) r) = Some b -> hashes_to (Some lb) (b_hash b) = true.
Definition I2 (n : node) : Prop := forall r, ~ X r -> round n < r -> any23 (hv_prevotes (votes n) r) = false.
Record K (n : node) : Prop := mkK { k_vals : hv_vals (votes n) = VS; k1 : I1 n; k2 : I2 n; k_ma : MA (votes n) }.

(* a step within the height: vote sets as they were or new and empty, the round not lower, and the
   lock as it was, or dropped, or taken in the round the node is now in *)
Definition stepS (n n' : node) : Prop :=
  hv_vals (votes n') = VS /\ (forall q, same_or_fresh (votes n) (votes n') q) /\ round n <= round n' /\
  ((lblock n' = lblock n /\ lround n' = lround n) \/ lblock n' = None \/ lround n' = round n').

Lemma K_step n n' : K n -> stepS n n' -> K n'.
Proof.
  intros [Kv K1 K2 Kma] (Hv & Hsf & Hr & Hl).
  assert (Hma : MA (votes n')).
  { intros r b Hm. destruct (Hsf r) as [[Em Ea]|[_ F]]; [rewrite Ea; rewrite Em in Hm; apply (Kma r b Hm)|congruence]. }
  assert (H2 : I2 n').
  { intros q Hx Hq. destruct (Hsf q) as [[_ Ea]|[F _]]; [rewrite Ea; apply K2; [exact Hx|lia]|exact F]. }
  split; [exact Hv| |exact H2|exact Hma].
  intros lb r b El Hx Hlr Hrd Hm.
  destruct Hl as [[Hl1 Hl2]|[Hl|Hl]]; [|congruence|lia].
  destruct (Hsf r) as [[Em _]|[_ F]]; [|congruence]. rewrite Em in Hm.
  destruct (Z_le_gt_dec r (round n)) as [Hle|Hgt].
  - apply (K1 lb r b); [congruence|exact Hx|lia|exact Hle|exact Hm].
  - pose proof (K2 r Hx ltac:(lia)) as Hany. rewrite (Kma r b Hm) in Hany. discriminate.
Qed.

Lemma frame_stepS n n' : hv_vals (votes n) = VS -> frame n n' -> stepS n n'.
Proof.
  intros Hv (_ & Hvo & Hl & Hr & Hrd). split; [rewrite Hvo; exact Hv|]. split; [intro q; apply sf_eq; rewrite Hvo; reflexivity|].
  split; [exact Hrd|]. left. auto.
Qed.
Lemma K_frame n n' : K n -> frame n n' -> K n'.
Proof. intros Hk F. eapply K_step; [exact Hk|]. apply frame_stepS; [apply Hk|exact F]. Qed.

(* the result of a step taken at height h0: still there with the invariant, or at the next height *)
Definition Out (n' : node) : Prop := (height n' = h0 /\ K n') \/ height n' = h0 + 1.
Definition presK (f : node -> M) : Prop := forall n n' o, height n = h0 -> K n -> f n = Ok (n', o) -> Out n'.

Definition presK0 (f : node -> M) : Prop := forall n n' o, height n = h0 -> K n -> f n = Ok (n', o) -> height n' = h0 /\ K n'.
Lemma presK0_presK f : presK0 f -> presK f.
Proof. intros H n n' o Hh Hk E. left. eapply H; eauto. Qed.

Lemma presK0_frame f : fsat f -> presK0 f.
Proof.
  intros Hf n n' o Hh Hk E. pose proof (Hf _ _ _ E) as F. split; [destruct F as (A & _); congruence|].
  eapply K_frame; eauto.
Qed.
Lemma presK_frame f : fsat f -> presK f.
Proof. intro Hf. apply presK0_presK, presK0_frame, Hf. Qed.

Lemma presK0_enter_new_round h r : presK0 (enter_new_round h r).
Proof.
  intros n n' o Hh Hk. unfold enter_new_round. destruct (_ || _) eqn:Eg; [intro E; injection E as <- _; auto|].
  apply guard_round in Eg as [Hr _].
  destruct (if round n <? r then increment (vals n) (r - round n) else Ok (vals n)) as [vs| |]; try discriminate.
  set (n1 := set_vals (set_step n r 2) vs).
  set (n2 := if r =? 0 then n1 else set_prop n1 None None None).
  destruct (hv_set_round (votes n2) (r + 1)) as [hv| |] eqn:Eh; try discriminate. intro E.
  assert (F2 : frame n n2) by (unfold n2, n1; destruct (r =? 0); repeat split; cbn; lia).
  pose proof (K_frame _ _ Hk F2) as K2'.
  destruct (set_round_sf _ _ _ (k_vals _ K2') Eh) as (V & S).
  assert (K3 : K (set_votes n2 hv)).
  { eapply K_step; [exact K2'|]. split; [exact V|]. split; [exact S|]. split; [cbn; lia|]. left. split; reflexivity. }
  pose proof (fsat_enter_propose _ _ _ _ _ E) as F3. split.
  - destruct F3 as (A & _). destruct F2 as (B & _). cbn in A. congruence.
  - eapply K_frame; eauto.
Qed.
Lemma presK_enter_new_round h r : presK (enter_new_round h r).
Proof. apply presK0_presK, presK0_enter_new_round. Qed.

Lemma presK0_enter_precommit h r : presK0 (enter_precommit h r).
Proof.
  intros n n' o Hh Hk. unfold enter_precommit. destruct (_ || _) eqn:Eg; [intro E; injection E as <- _; auto|].
  apply guard_round in Eg as [Hrn _].
  intro E. apply bind_ok in E as (n2 & o1 & o2 & E1 & E2 & _). injection E2 as <- _.
  assert (Hgo : forall m vb, sign_add_vote 2 vb m = Ok (n2, o1) ->
            height m = height n -> votes m = votes n -> round m = round n ->
            ((lblock m = lblock n /\ lround m = lround n) \/ lblock m = None \/ lround m = r) ->
            height (set_step n2 r 6) = h0 /\ K (set_step n2 r 6)).
  { intros m vb Em A B C D. destruct (fsat_sign_add_vote _ _ _ _ _ Em) as (F1 & F2 & F3 & F4 & _).
    split; [cbn; congruence|]. eapply K_step; [exact Hk|].
    split; [cbn; rewrite F2, B; apply Hk|]. split; [intro q; apply sf_eq; cbn; rewrite F2, B; reflexivity|].
    split; [cbn; lia|]. cbn. rewrite F3, F4. exact D. }
  destruct (maj23 (hv_prevotes (votes n) r)) as [b|]; [|eapply Hgo; [exact E1|auto..]].
  destruct (pol_info (votes n)) as [[polr polb]| |]; try discriminate.
  destruct (polr <? r); [discriminate|].
  destruct (b_hash b) as [|hb0 hbt] eqn:Ehb.
  - destruct (lblock n) eqn:El; (eapply Hgo; [exact E1|cbn; auto..]).
  - rewrite <- Ehb in *. destruct (hashes_to (lblock n) (b_hash b)).
    + eapply Hgo; [exact E1|cbn; auto..].
    + destruct (hashes_to (pblock n) (b_hash b)).
      * destruct (pblock n) as [pb|]; [|discriminate]. destruct (negb (bk_valid pb)); [discriminate|].
        eapply Hgo; [exact E1|cbn; auto..].
      * destruct (has_header (pparts (set_lock n 0 None)) (b_total b) (b_phash b)).
        -- eapply Hgo; [exact E1|cbn; auto..].
        -- destruct (new_pset (b_total b) (b_phash b)) as [ps| |]; try discriminate.
           eapply Hgo; [exact E1|cbn; auto..].
Qed.
Lemma presK_enter_precommit h r : presK (enter_precommit h r).
Proof. apply presK0_presK, presK0_enter_precommit. Qed.

Lemma Out_same n : height n = h0 -> K n -> Out n. Proof. left. auto. Qed.

Lemma presK_finalize_commit c h : presK (finalize_commit c h).
Proof.
  intros n n' o Hh Hk. unfold finalize_commit. destruct (_ || _) eqn:Eg; [intro E; injection E as <- _; apply Out_same; auto|].
  destruct (maj23 _) as [b|]; [|discriminate].
  destruct (negb (has_header _ _ _)); [discriminate|]. destruct (negb (hashes_to _ _)); [discriminate|].
  destruct (pblock n) as [pb|]; [|discriminate]. destruct (negb (bk_valid pb)); [discriminate|].
  destruct (increment (st_vals n) 1) as [nv| |]; try discriminate.
  destruct (new_hvs (h + 1) (vals_of nv)) as [hv| |]; try discriminate.
  intro E. injection E as <- _. apply orb_false_elim in Eg as [Eh _]. apply negb_false_iff, Z.eqb_eq in Eh.
  right. cbn. lia.
Qed.
Lemma presK_try_finalize_commit c h : presK (try_finalize_commit c h).
Proof.
  intros n n' o Hh Hk. unfold try_finalize_commit. destruct (negb _); [discriminate|].
  destruct (maj23 _) as [b|]; [|intro E; injection E as <- _; apply Out_same; auto].
  destruct (b_hash b); [intro E; injection E as <- _; apply Out_same; auto|].
  destruct (hashes_to _ _); [apply presK_finalize_commit; auto|intro E; injection E as <- _; apply Out_same; auto].
Qed.
Lemma presK_enter_commit c h cr : presK (enter_commit c h cr).
Proof.
  intros n n' o Hh Hk. unfold enter_commit. destruct (_ || _); [intro E; injection E as <- _; apply Out_same; auto|].
  destruct (maj23 _) as [b|]; [|discriminate].
  set (n1 := if hashes_to (lblock n) (b_hash b) then set_prop n (proposal n) (lblock n) (option_map pset_of_blk (lblock n)) else n).
  assert (F1 : frame n n1) by (unfold n1; destruct (hashes_to _ _); [apply frame_set_prop|apply frame_refl]).
  destruct (if hashes_to (pblock n1) (b_hash b) then Ok n1
            else if has_header (pparts n1) (b_total b) (b_phash b) then Ok n1
            else match new_pset (b_total b) (b_phash b) with
                 | Ok ps => Ok (set_prop n1 (proposal n1) None (Some ps)) | Err e => Err e | Panic w => Panic w end) as [n2| |] eqn:E2; try discriminate.
  assert (F2 : frame n1 n2).
  { destruct (hashes_to (pblock n1) (b_hash b)); [injection E2 as <-; apply frame_refl|].
    destruct (has_header _ _ _); [injection E2 as <-; apply frame_refl|].
    destruct (new_pset _ _) as [ps| |]; try discriminate. injection E2 as <-. apply frame_set_prop. }
  intro E.
  assert (F3 : frame n (set_commit_round (set_step n2 (round n2) 8) cr)).
  { eapply frame_trans; [exact F1|]. eapply frame_trans; [exact F2|].
    eapply frame_trans; [apply (frame_set_step n2 (round n2) 8); lia|apply frame_set_commit_round]. }
  eapply presK_try_finalize_commit; [|eapply K_frame; [exact Hk|exact F3]|exact E].
  destruct F3 as (A & _). congruence.
Qed.

Lemma presK_add_part c h idx b ok verify : presK (add_part c h idx b ok verify).
Proof.
  intros n n' o Hh Hk. unfold add_part. destruct (negb _); [intro E; injection E as <- _; apply Out_same; auto|].
  destruct (pparts n) as [ps|]; [|intro E; injection E as <- _; apply Out_same; auto].
  destruct (_ || _); [intro E; injection E as <- _; apply Out_same; auto|].
  destruct (existsb _ _); [intro E; injection E as <- _; apply Out_same; auto|].
  destruct (_ && _); [intro E; injection E as <- _; apply Out_same; auto|].
  match goal with |- context [set_prop n (proposal n) (pblock n) (Some ?p)] => set (ps' := p) end.
  set (n1 := set_prop n (proposal n) (pblock n) (Some ps')).
  destruct (_ =? _); [|intro E; injection E as <- _; apply Out_same; [exact Hh|eapply K_frame; [exact Hk|apply frame_set_prop]]].
  set (n2 := set_prop n1 (proposal n1) (Some b) (Some ps')).
  intro E. apply bind_ok in E as (n3 & o1 & o2 & E1 & E2 & _).
  assert (F2 : frame n n2) by (eapply frame_trans; [apply (frame_set_prop n)|apply (frame_set_prop n1)]).
  assert (K2' : K n2) by (eapply K_frame; eauto).
  assert (H2 : height n2 = h0) by (destruct F2 as (A & _); congruence).
  assert (O3 : Out n3).
  { destruct (step n2 =? 3).
    - destruct (is_proposal_complete n2) as [[|]| |]; try discriminate.
      + eapply presK_frame; [apply fsat_enter_prevote|exact H2|exact K2'|exact E1].
      + injection E1 as <- _. apply Out_same; auto.
    - destruct (step n2 =? 8); [eapply presK_try_finalize_commit; eauto|injection E1 as <- _; apply Out_same; auto]. }
  destruct ok; injection E2 as <- _; exact O3.
Qed.

Lemma presK_handle_timeout h r s : presK (handle_timeout h r s).
Proof.
  intros n n' o Hh Hk. unfold handle_timeout. destruct (_ || _); [intro E; injection E as <- _; apply Out_same; auto|].
  destruct (s =? 1); [apply presK_enter_new_round; auto|].
  destruct (s =? 3); [apply (presK_frame _ (fsat_enter_prevote h r)); auto|].
  destruct (s =? 5); [apply presK_enter_precommit; auto|].
  destruct (s =? 7); [apply presK_enter_new_round; auto|discriminate].
Qed.

End Exempt.

Notation K0 := (K (fun _ => False)).
Notation Out0 := (Out (fun _ => False)).

Lemma enter_propose_step h r n n' o : enter_propose h r n = Ok (n', o) ->
  negb (height n =? h) || (r <? round n) || ((round n =? r) && (3 <=? step n)) = false ->
  3 <= step n' <= 4 /\ round n' = r.
Proof.
  unfold enter_propose. intros E Eg. rewrite Eg in E.
  apply bind_ok in E as (n3 & o1 & o2 & E1 & E2 & ->).
  destruct (is_proposal_complete (set_step n3 r 3)) as [[|]| |]; try discriminate.
  - unfold enter_prevote in E2. cbn [height round step set_step] in E2.
    destruct (_ || _) eqn:Eg2; [injection E2 as <- _; cbn; lia|].
    apply bind_ok in E2 as (n4 & oc & od & Ec & Ed & _). injection Ed as <- _. cbn. lia.
  - injection E2 as <- _. cbn. lia.
Qed.

Lemma enr_round h r n n' o : enter_new_round h r n = Ok (n', o) -> height n = h -> round n <= r ->
  round n' = r /\ (round n < r -> step n' <= 4).
Proof.
  unfold enter_new_round. intros E Hh Hr. destruct (_ || _) eqn:Eg.
  - injection E as <- _. rewrite Hh, Z.eqb_refl in Eg. cbn [negb orb] in Eg.
    apply orb_true_iff in Eg as [Eg|Eg]; [apply Z.ltb_lt in Eg; lia|].
    apply andb_true_iff in Eg as [Eg _]. apply Z.eqb_eq in Eg. split; [exact Eg|lia].
  - destruct (if round n <? r then increment (vals n) (r - round n) else Ok (vals n)) as [vs| |]; try discriminate.
    destruct (hv_set_round _ _) as [hv| |]; try discriminate.
    destruct (enter_propose_step _ _ _ _ _ E) as (Hs & Hrd).
    + destruct (r =? 0); cbn; rewrite Hh, Z.eqb_refl, Z.ltb_irrefl, Z.eqb_refl; reflexivity.
    + split; [exact Hrd|intros _; lia].
Qed.

Lemma enter_precommit_lock h r n n' o b : enter_precommit h r n = Ok (n', o) ->
  negb (height n =? h) || (r <? round n) || ((round n =? r) && (6 <=? step n)) = false ->
  maj23 (hv_prevotes (votes n) r) = Some b -> round n' = r /\ (lblock n' = None \/ lround n' = r).
Proof.
  unfold enter_precommit. intros E Eg Hm. rewrite Eg, Hm in E.
  apply bind_ok in E as (n2 & o1 & o2 & E1 & E2 & _). injection E2 as <- _.
  assert (Hgo : forall m vb, sign_add_vote 2 vb m = Ok (n2, o1) -> (lblock m = None \/ lround m = r) ->
            round (set_step n2 r 6) = r /\ (lblock (set_step n2 r 6) = None \/ lround (set_step n2 r 6) = r)).
  { intros m vb Em D. destruct (fsat_sign_add_vote _ _ _ _ _ Em) as (_ & _ & F3 & F4 & _).
    split; [reflexivity|]. cbn. rewrite F3, F4. exact D. }
  destruct (pol_info (votes n)) as [[polr polb]| |]; try discriminate.
  destruct (polr <? r); [discriminate|].
  destruct (b_hash b) as [|hb0 hbt] eqn:Ehb.
  - destruct (lblock n) eqn:El; (eapply Hgo; [exact E1|cbn; auto]).
  - rewrite <- Ehb in *. destruct (hashes_to (lblock n) (b_hash b)).
    + eapply Hgo; [exact E1|cbn; auto].
    + destruct (hashes_to (pblock n) (b_hash b)).
      * destruct (pblock n) as [pb|]; [|discriminate]. destruct (negb (bk_valid pb)); [discriminate|].
        eapply Hgo; [exact E1|cbn; auto].
      * destruct (has_header (pparts (set_lock n 0 None)) (b_total b) (b_phash b)).
        -- eapply Hgo; [exact E1|cbn; auto].
        -- destruct (new_pset (b_total b) (b_phash b)) as [ps| |]; try discriminate.
           eapply Hgo; [exact E1|cbn; auto].
Qed.

(* inserting a vote of round R: everything but round R is as it was *)
Lemma Kx_insert n hv R : K0 n -> hv_vals hv = VS -> MA hv ->
  (forall q, q <> R -> same_or_fresh (votes n) hv q) -> K (eq R) (set_votes n hv).
Proof.
  intros [Kv K1 K2 Kma] Hv Hma Hsf. split; [exact Hv| | |exact Hma].
  - intros lb r b El Hx Hlr Hrd Hm. cbn in *.
    destruct (Hsf r ltac:(congruence)) as [[Em _]|[_ F]]; [|congruence]. rewrite Em in Hm.
    apply (K1 lb r b); auto.
  - intros q Hx Hq. cbn in *. destruct (Hsf q ltac:(congruence)) as [[_ Ea]|[F _]]; [rewrite Ea; apply K2; auto|exact F].
Qed.

(* closing the exemption *)
Lemma Kx_close R n : K (eq R) n -> R <= round n ->
  (forall lb b, lblock n = Some lb -> lround n < R -> maj23 (hv_prevotes (votes n) R) = Some b -> hashes_to (Some lb) (b_hash b) = true) ->
  K0 n.
Proof.
  intros [Kv K1 K2 Kma] Hr HR. split; [exact Kv| | |exact Kma].
  - intros lb r b El _ Hlr Hrd Hm. destruct (Z.eq_dec R r) as [<-|Hne]; [eapply HR; eauto|apply (K1 lb r b); auto].
  - intros q _ Hq. apply K2; [intro; lia|exact Hq].
Qed.
Lemma Kx_close2 R n : K (eq R) n -> round n < R -> any23 (hv_prevotes (votes n) R) = false -> K0 n.
Proof.
  intros [Kv K1 K2 Kma] Hr Ha. split; [exact Kv| | |exact Kma].
  - intros lb r b El _ Hlr Hrd Hm. apply (K1 lb r b); auto. intro; lia.
  - intros q _ Hq. destruct (Z.eq_dec R q) as [<-|Hne]; [exact Ha|apply K2; auto].
Qed.

(* addVote's release rule *)
Definition unlock_rule (n1 : node) (R : Z) : node :=
  match lblock n1 with
  | Some lb =>
    if (lround n1 <? R) && (R <=? round n1) then
      match maj23 (hv_prevotes (votes n1) R) with
      | Some b => if negb (hashes_to (lblock n1) (b_hash b)) then set_lock n1 0 None else n1
      | None => n1
      end
    else n1
  | None => n1
  end.

Lemma rule_K n1 R : K (eq R) n1 -> R <= round n1 -> K0 (unlock_rule n1 R).
Proof.
  intros Hk Hr. unfold unlock_rule. destruct (lblock n1) as [lb|] eqn:El.
  2:{ apply (Kx_close R); [exact Hk|exact Hr|]. intros lb b E. congruence. }
  destruct ((lround n1 <? R) && (R <=? round n1)) eqn:Ec.
  2:{ apply (Kx_close R); [exact Hk|exact Hr|]. intros lb0 b _ Hlt _. exfalso.
      apply andb_false_iff in Ec as [Ec|Ec]; [apply Z.ltb_ge in Ec; lia|apply Z.leb_gt in Ec; lia]. }
  destruct (maj23 (hv_prevotes (votes n1) R)) as [b|] eqn:Em.
  2:{ apply (Kx_close R); [exact Hk|exact Hr|]. intros lb0 b _ _ E. congruence. }
  destruct (negb (hashes_to (Some lb) (b_hash b))) eqn:Eh.
  - apply (Kx_close R); [|exact Hr|intros lb0 b0 E; cbn in E; discriminate].
    eapply K_step; [exact Hk|]. split; [apply Hk|]. split; [intro q; apply sf_refl|]. split; [cbn; lia|]. right. left. reflexivity.
  - apply (Kx_close R); [exact Hk|exact Hr|]. intros lb0 b0 E _ E2. apply negb_false_iff in Eh. rewrite El in E. injection E as <-. rewrite Em in E2. injection E2 as <-. exact Eh.
Qed.

Lemma rule_same n1 R : height (unlock_rule n1 R) = height n1 /\ votes (unlock_rule n1 R) = votes n1 /\ round (unlock_rule n1 R) = round n1 /\ step (unlock_rule n1 R) = step n1.
Proof.
  unfold unlock_rule. destruct (lblock n1); [|auto]. destruct (_ && _); [|auto].
  destruct (maj23 _); [|auto]. destruct (negb _); auto.
Qed.

Lemma rule_noop n1 R : round n1 < R -> unlock_rule n1 R = n1.
Proof.
  intro H. unfold unlock_rule. destruct (lblock n1); [|reflexivity].
  replace (R <=? round n1) with false by (symmetry; apply Z.leb_gt; exact H). rewrite andb_false_r. reflexivity.
Qed.

Lemma presK_add_vote_cs off c v peer n n' o : c_skip_commit c = false -> node_ok VS h0 off n ->
  height n = h0 -> step n < 8 -> K0 n -> add_vote_cs c v peer n = Ok (n', o) -> Out0 n'.
Proof.
  intros Hskip Hok Hh Hu Hk. unfold add_vote_cs.
  assert (Hu' : (step n <? 8) = true) by (apply Z.ltb_lt; exact Hu).
  destruct (v_height v + 1 =? height n).
  { destruct (negb _); [intro E; injection E as <- _; apply Out_same; auto|].
    destruct (last_commit n) as [lc|]; [|intro E; injection E as <- _; apply Out_same; auto].
    destruct (add_vote lc v) as [[[lc' added] code]| |]; try discriminate.
    replace (added && c_skip_commit c && has_all lc') with false by (rewrite Hskip; destruct added; reflexivity).
    intro E. apply bind_ok in E as (n2 & o1 & o2 & E1 & E2 & _). injection E1 as <- _.
    assert (O2 : Out0 (set_last_commit n (Some lc'))).
    { apply Out_same; [exact Hh|]. eapply K_frame; [exact Hk|apply frame_set_last_commit]. }
    destruct (N.eqb code 0); injection E2 as <- _; exact O2. }
  destruct (v_height v =? height n); [|intro E; injection E as <- _; apply Out_same; auto].
  destruct (hv_add_vote (votes n) v peer) as [[[hv added] code]| |] eqn:Ea; try discriminate.
  intro E. apply bind_ok in E as (n5 & o1 & o2 & E1 & E2 & _).
  assert (Hlast : Out0 n5 -> Out0 n') by (destruct (N.eqb code 0); injection E2 as <- _; auto).
  apply Hlast. clear Hlast E2.
  destruct (add_vote_sf _ _ _ _ _ _ (k_vals _ _ Hk) Ea) as (Hv1 & Hsf).
  assert (Hma1 : MA hv).
  { destruct Hok as [_ Hok]. destruct (Hok Hh) as [Hok1 _].
    destruct (hv_add_vote_ok VS Hbounded _ _ _ _ _ _ _ Hok1 Ea) as [Hok2 _]. eapply hvs_ok_MA; exact Hok2. }
  set (n1 := set_votes n hv) in *.
  destruct added; cbn [negb] in E1.
  2:{ injection E1 as <- _. apply Out_same; [exact Hh|]. eapply K_step; [exact Hk|]. split; [exact Hv1|].
      split; [apply (add_vote_sf_notadded _ _ _ _ _ (k_vals _ _ Hk) Ea)|]. split; [cbn; lia|left; split; reflexivity]. }
  destruct (N.eqb (v_type v) 1) eqn:Et.
  - (* a prevote of round R *)
    set (R := v_round v) in *.
    assert (Hsf' : forall q, q <> R -> same_or_fresh (votes n) hv q).
    { intros q Hq. destruct (Hsf q) as [[E _]|S]; [contradiction|exact S]. }
    pose proof (Kx_insert n hv R Hk Hv1 Hma1 Hsf') as Kx1. fold n1 in Kx1.
    change (match lblock n1 with
            | Some _ => if (lround n1 <? R) && (R <=? round n1)
                        then match maj23 (hv_prevotes (votes n1) R) with
                             | Some b => if negb (hashes_to (lblock n1) (b_hash b)) then set_lock n1 0 None else n1
                             | None => n1 end
                        else n1
            | None => n1 end) with (unlock_rule n1 R) in E1.
    set (n2 := unlock_rule n1 R) in *.
    destruct (rule_same n1 R) as (H2 & Hv2 & Hr2 & Hs2). fold n2 in H2, Hv2, Hr2, Hs2.
    change (height n1) with (height n) in H2. rewrite Hh in H2. change (votes n1) with hv in Hv2.
    change (step n1) with (step n) in Hs2.
    unfold any23_open in E1. rewrite Hs2, Hu' in E1. cbn [andb] in E1.
    (* once the invariant holds in full after the rule, the rest is routine *)
    assert (Hcont : K0 n2 -> Out0 n5).
    { intro K2'. revert E1. destruct ((round n2 <=? R) && any23 (hv_prevotes (votes n1) R)); intro E1.
      + apply bind_ok in E1 as (n3 & oa & ob & Ea1 & Ea2 & _).
        destruct (presK0_enter_new_round _ _ _ _ _ _ H2 K2' Ea1) as (H3 & K3).
        revert Ea2. destruct (maj23 (hv_prevotes (votes n3) R)); intro Ea2.
        * eapply presK_enter_precommit; eauto.
        * apply bind_ok in Ea2 as (n4 & oc & od & Eb1 & Eb2 & _).
          destruct (presK0_frame _ _ (fsat_enter_prevote _ _) _ _ _ H3 K3 Eb1) as (H4 & K4).
          eapply presK_frame; [apply fsat_enter_prevote_wait|exact H4|exact K4|exact Eb2].
      + revert E1. destruct (proposal n2) as [p|]; [|intro E1; injection E1 as <- _; apply Out_same; auto].
        destruct ((0 <=? p_polround p) && (p_polround p =? R)); [|intro E1; injection E1 as <- _; apply Out_same; auto].
        destruct (is_proposal_complete n2) as [[|]| |]; try discriminate; intro E1.
        * eapply presK_frame; [apply fsat_enter_prevote|exact H2|exact K2'|exact E1].
        * injection E1 as <- _. apply Out_same; auto. }
    destruct (Z_le_gt_dec R (round n)) as [Hle|Hgt].
    { apply Hcont. apply rule_K; [exact Kx1|exact Hle]. }
    assert (En2 : n2 = n1) by (apply rule_noop; cbn; lia).
    destruct (any23 (hv_prevotes hv R)) eqn:Eany.
    2:{ apply Hcont. rewrite En2. apply (Kx_close2 R); [exact Kx1|cbn; lia|exact Eany]. }
    (* +2/3 of any prevotes in a round ahead: the node moves there and acts on what it finds *)
    revert E1. rewrite En2 in *. replace (round n1 <=? R) with true by (symmetry; apply Z.leb_le; cbn; lia).
    change (votes n1) with hv. rewrite Eany. cbn [andb]. intro E1.
    apply bind_ok in E1 as (n3 & oa & ob & Ea1 & Ea2 & _).
    destruct (presK0_enter_new_round _ _ _ _ _ _ H2 Kx1 Ea1) as (H3 & K3).
    destruct (enr_round _ _ _ _ _ Ea1 eq_refl ltac:(cbn; lia)) as (Hr3 & Hs3). specialize (Hs3 ltac:(cbn; lia)).
    revert Ea2. destruct (maj23 (hv_prevotes (votes n3) R)) as [b|] eqn:Em3; intro Ea2.
    + destruct (presK0_enter_precommit _ _ _ _ _ _ H3 K3 Ea2) as (H4 & K4).
      destruct (enter_precommit_lock _ _ _ _ _ b Ea2) as (Hr4 & Hl4); [|exact Em3|].
      { rewrite H3, Hr3. change (height n1) with (height n). rewrite Hh, Z.eqb_refl, Z.ltb_irrefl, Z.eqb_refl.
        cbn. apply Z.leb_gt. lia. }
      apply Out_same; [exact H4|]. apply (Kx_close R); [exact K4|lia|].
      intros lb b0 El Hlt _. destruct Hl4 as [Hl4|Hl4]; [congruence|lia].
    + apply bind_ok in Ea2 as (n4 & oc & od & Eb1 & Eb2 & _).
      destruct (presK0_frame _ _ (fsat_enter_prevote _ _) _ _ _ H3 K3 Eb1) as (H4 & K4).
      destruct (presK0_frame _ _ (fsat_enter_prevote_wait _ _) _ _ _ H4 K4 Eb2) as (H5 & K5).
      pose proof (fsat_enter_prevote _ _ _ _ _ Eb1) as (_ & Fv4 & _ & _ & Fr4).
      pose proof (fsat_enter_prevote_wait _ _ _ _ _ Eb2) as (_ & Fv5 & _ & _ & Fr5).
      apply Out_same; [exact H5|]. apply (Kx_close R); [exact K5|lia|].
      intros lb b0 _ _ Hm. rewrite Fv5, Fv4, Em3 in Hm. discriminate.
  - (* a precommit: the prevotes are as they were *)
    assert (K1' : K0 n1).
    { eapply K_step; [exact Hk|]. split; [exact Hv1|]. split; [|split; [cbn; lia|left; split; reflexivity]].
      intro q. destruct (Hsf q) as [[_ E]|S]; [rewrite E in Et; discriminate|exact S]. }
    revert E1. unfold any23_open, enter_new_round_open. change (step n1) with (step n). rewrite Hu'. cbn [andb].
    destruct (N.eqb (v_type v) 2); [|discriminate].
    destruct (maj23 (hv_precommits (votes n1) (v_round v))) as [b|].
    + destruct (b_hash b); intro E1.
      * exact (presK_enter_new_round _ _ _ n1 _ _ Hh K1' E1).
      * apply bind_ok in E1 as (n4 & oa & ob & Ea1 & Ea2 & _).
        apply bind_ok in Ea1 as (n3 & oc & od & Eb1 & Eb2 & _).
        apply bind_ok in Eb1 as (n2 & oe & of & Ec1 & Ec2 & _).
        destruct (presK0_enter_new_round _ _ _ n1 _ _ Hh K1' Ec1) as (H2 & K2').
        destruct (presK0_enter_precommit _ _ _ _ _ _ H2 K2' Ec2) as (H3 & K3).
        pose proof (presK_enter_commit _ _ _ _ _ _ _ H3 K3 Eb2) as O4.
        revert Ea2. rewrite Hskip. cbn [andb]. intro Ea2. injection Ea2 as <- _. exact O4.
    + destruct ((round n1 <=? v_round v) && any23 (hv_precommits (votes n1) (v_round v))); intro E1; [|injection E1 as <- _; apply Out_same; auto].
      apply bind_ok in E1 as (n3 & oa & ob & Ea1 & Ea2 & _).
      apply bind_ok in Ea1 as (n2 & oc & od & Eb1 & Eb2 & _).
      destruct (presK0_enter_new_round _ _ _ n1 _ _ Hh K1' Eb1) as (H2 & K2').
      destruct (presK0_enter_precommit _ _ _ _ _ _ H2 K2' Eb2) as (H3 & K3).
      eapply presK_frame; [apply fsat_enter_precommit_wait|exact H3|exact K3|exact Ea2].
Qed.

Lemma presK_handle off c i n n' o : c_skip_commit c = false -> node_ok VS h0 off n ->
  height n = h0 -> step n < 8 -> K0 n -> handle c i n = Ok (n', o) -> Out0 n'.
Proof.
  intros Hskip Hok Hh Hu Hk. destruct i as [p sgn peer|h r idx b ok peer|v peer|h r s]; cbn [handle].
  - apply (presK_frame _ _ (fsat_set_proposal p sgn)); auto.
  - apply presK_add_part; auto.
  - eapply presK_add_vote_cs; eauto.
  - apply presK_handle_timeout; auto.
Qed.

(* the run, as long as the node has not decided: before every input it is below the commit step
   (a node in the commit step has +2/3 precommits for a block and only waits for the block; after
   repair F-12a it no longer follows later rounds, so what holds of its lock and of rounds ahead of
   it is of no interest) *)
Fixpoint undecided_run (c : cfg) (ins : list input) (n : node) : Prop :=
  match ins with
  | [] => True
  | i :: t => step n < 8 /\ match handle c i n with Ok (n1, _) => undecided_run c t n1 | _ => True end
  end.

Lemma run_K c ins : c_skip_commit c = false -> forall off n n', inv n -> node_ok VS h0 off n ->
  (height n = h0 -> K0 n) -> run c ins n = Ok n' -> undecided_run c ins n -> height n' = h0 -> K0 n'.
Proof.
  intro Hskip. induction ins as [|i t IH]; intros off n n' Hi Hok Hk; cbn [run undecided_run].
  - intros E _ Hh. injection E as <-. auto.
  - destruct (handle c i n) as [[n1 o1]| |] eqn:E1; try discriminate. intros E [Hu Hrest] Hh.
    destruct (sat_handle c i n n1 o1 E1 Hi) as (Hi1 & Hmono & _).
    pose proof (handle_ok VS Hbounded h0 off c i n n1 o1 Hok E1) as Hok1.
    eapply IH; [exact Hi1|exact Hok1| |exact E|exact Hrest|exact Hh].
    intro Hh1. destruct Hok as [Hlow Hok']. destruct (Z.eq_dec (height n) h0) as [Heq|Hne]; [|lia].
    destruct (presK_handle off c i n n1 o1 Hskip (conj Hlow Hok') Heq Hu (Hk Heq) E1) as [[_ K1']|Hn]; [exact K1'|lia].
Qed.

Lemma init_K vs lc me s n0 : vals_of vs = VS -> init_node h0 vs lc me s = Ok n0 -> K0 n0.
Proof.
  intros Hv. unfold init_node. rewrite Hv. destruct (new_hvs h0 VS) as [hv| |] eqn:E; try discriminate.
  intro E0. injection E0 as <-. unfold new_hvs in E.
  destruct (add_round_sf (mkHvs h0 VS 0 [] []) 0 hv eq_refl E) as (V & S).
  assert (Hnone : forall q, any23 (hv_prevotes hv q) = false /\ maj23 (hv_prevotes hv q) = None).
  { intro q. destruct (S q) as [[Em Ea]|[Fa Fm]]; [|auto]. rewrite Em, Ea. split; reflexivity. }
  split; cbn [votes lblock lround round].
  - exact V.
  - intros lb r b El. discriminate.
  - intros q _ _. apply Hnone.
  - intros r b Hm. rewrite (proj2 (Hnone r)) in Hm. discriminate.
Qed.

(* every state reached from the start of a height, while the node is in that height *)
Theorem no_stale_lock c vs lc me s ins n0 n : c_skip_commit c = false -> vals_of vs = VS ->
  init_node h0 vs lc me s = Ok n0 -> run c ins n0 = Ok n -> undecided_run c ins n0 -> height n = h0 ->
  (forall lb r b, lblock n = Some lb -> lround n < r -> r <= round n ->
     maj23 (hv_prevotes (votes n) r) = Some b -> hashes_to (Some lb) (b_hash b) = true) /\
  (forall r, round n < r -> any23 (hv_prevotes (votes n) r) = false).
Proof.
  intros Hskip Hv E0 Er Hu Hh.
  assert (Hk : K0 n).
  { eapply (run_K c ins Hskip [] n0 n); [eapply init_inv; exact E0|eapply init_ok; eauto| |exact Er|exact Hu|exact Hh].
    intros _. eapply init_K; eauto. }
  destruct Hk as [_ K1 K2 _]. split.
  - intros lb r b El Hlr Hrd Hm. apply (K1 lb r b); auto.
  - intros r Hr. apply K2; auto.
Qed.

End NoStaleLock.
