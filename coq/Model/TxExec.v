(* Executable model of block execution in the EVM application (chain/app/evm): the parallel
   signature verifier (verifycpuparallel.go), the per-transaction snapshot/revert wrapper
   (evm.go genExecFun), the nonce rule shared by state_transition.go preCheck and executeKVTx, the
   per-block accumulators that feed the receipts hash, OnExecute / OnCommit and a process restart.

   A transaction is what the application sees of it: whether its bytes decode and a sender can be
   recovered, the sender, the nonce, and whether everything apart from the nonce is in order (the
   key-value payload decodes, the value can be paid).  The rest of the application state is the
   log of applied transactions ("effects"): applying a transaction appends its identity, so the
   state after a block determines which transactions took effect, in which order.
   No proofs in this file. *)
From Coq Require Import List NArith Bool.
Import ListNotations.
Open Scope N_scope.

Record tx := mkTx {
  t_id : N;                 (* identity of the byte string *)
  t_sender : option N;      (* Some a: decodes and the signature recovers account a *)
  t_nonce : N;
  t_ok : bool               (* everything but the nonce is in order *)
}.

Record st := mkSt { nonces : list (N * N); effects : list N }.

Fixpoint nonce_of (l : list (N * N)) (a : N) : N :=
  match l with
  | [] => 0
  | (b, n) :: t => if b =? a then n else nonce_of t a
  end.
Fixpoint set_nonce (l : list (N * N)) (a n : N) : list (N * N) :=
  match l with
  | [] => [(a, n)]
  | (b, m) :: t => if b =? a then (a, n) :: t else (b, m) :: set_nonce t a n
  end.

(* ---- one transaction between Snapshot and endFunc ---- *)
(* what the execution function does to the working state before it reports an error or success *)
Definition run_tx (s : st) (a : N) (t : tx) : st * bool :=
  if negb (nonce_of (nonces s) a =? t_nonce t) then (s, false)        (* ErrNonceTooHigh / TooLow *)
  else
    (* the nonce is raised first (TransitionDb, executeKVTx); a later failure leaves it raised in
       the working state - only the revert to the snapshot undoes it *)
    let s1 := mkSt (set_nonce (nonces s) a (t_nonce t + 1)) (effects s) in
    if t_ok t then (mkSt (nonces s1) (effects s1 ++ [t_id t]), true) else (s1, false).

(* genExecFun: snapshot, run, revert on error *)
Definition exec_checked (s : st) (t : tx) : st * bool :=
  match t_sender t with
  | None => (s, false)
  | Some a =>
    let snapshot := s in
    let '(s', ok) := run_tx s a t in
    if ok then (s', true) else (snapshot, false)
  end.

(* ---- the parallel verifier ---- *)
Inductive status := StInit | StChecked | StFailed.
Definition verify (t : tx) : status := match t_sender t with Some _ => StChecked | None => StFailed end.

(* one worker event: some routine wins the compare-and-swap on slot i (if it is still Init) and
   settles it *)
Fixpoint claim (slots : list (tx * status)) (i : nat) : list (tx * status) :=
  match slots, i with
  | [], _ => []
  | (t, StInit) :: r, O => (t, verify t) :: r
  | x :: r, O => x :: r
  | x :: r, S j => x :: claim r j
  end.
Definition run_sched (sched : list nat) (txs : list tx) : list (tx * status) :=
  fold_left claim sched (map (fun t => (t, StInit)) txs).

(* the executor walks the slots in block order; a slot nobody settled would make it wait *)
Fixpoint exec_slots (s : st) (slots : list (tx * status)) : option (st * list bool) :=
  match slots with
  | [] => Some (s, [])
  | (t, StInit) :: _ => None
  | (t, StFailed) :: r =>
    match exec_slots s r with Some (s', vs) => Some (s', false :: vs) | None => None end
  | (t, StChecked) :: r =>
    let '(s1, v) := exec_checked s t in
    match exec_slots s1 r with Some (s', vs) => Some (s', v :: vs) | None => None end
  end.
Definition exec_block_par (sched : list nat) (s : st) (txs : list tx) : option (st * list bool) :=
  exec_slots s (run_sched sched txs).

(* ---- sequential reference: the block as a fold ---- *)
Fixpoint exec_block (s : st) (txs : list tx) : st * list bool :=
  match txs with
  | [] => (s, [])
  | t :: r => let '(s1, v) := exec_checked s t in
              let '(s2, vs) := exec_block s1 r in (s2, v :: vs)
  end.

Fixpoint applied (txs : list tx) (vs : list bool) : list tx :=
  match txs, vs with
  | t :: r, v :: vr => if v then t :: applied r vr else applied r vr
  | _, _ => []
  end.

(* ---- the application across blocks and process lifetimes ---- *)
Record app := mkApp {
  committed : st;          (* what the persisted last app hash names *)
  current : st;            (* currentState *)
  acc : list N             (* receipts, kvs: this block's records for the receipts hash *)
}.
Definition app0 : app := mkApp (mkSt [] []) (mkSt [] []) [].

(* OnExecute with the verifier schedule of that block; None = the executor waits for ever on a slot
   no routine settled (excluded by every routine walking all slots) *)
Definition on_execute (a : app) (sched : list nat) (txs : list tx) : option (app * list bool) :=
  match exec_block_par sched (committed a) txs with   (* state rebuilt from the last app hash *)
  | Some (s', vs) => Some (mkApp (committed a) s' (acc a ++ map t_id (applied txs vs)), vs)
  | None => None
  end.
(* returns (app hash, receipts hash) as the data they commit to *)
Definition on_commit (a : app) : app * (st * list N) :=
  (mkApp (current a) (current a) [], (current a, acc a)).
Definition restart (a : app) : app := mkApp (committed a) (committed a) [].

Inductive ev := EBlock (txs : list tx) (sched : list nat) | ERestart.
Definition out := (list bool * (st * list N))%type.
Fixpoint run_app (a : app) (h : list ev) : option (app * list out) :=
  match h with
  | [] => Some (a, [])
  | ERestart :: r => run_app (restart a) r
  | EBlock txs sched :: r =>
    match on_execute a sched txs with
    | None => None
    | Some (a1, vs) =>
      let '(a2, hashes) := on_commit a1 in
      match run_app a2 r with
      | Some (a3, outs) => Some (a3, (vs, hashes) :: outs)
      | None => None
      end
    end
  end.

(* the chain alone: what blocks 1..h determine *)
Fixpoint run_chain (s : st) (blocks : list (list tx)) : list out :=
  match blocks with
  | [] => []
  | txs :: r =>
    let '(s', vs) := exec_block s txs in
    (vs, (s', map t_id (applied txs vs))) :: run_chain s' r
  end.
Fixpoint blocks_of (h : list ev) : list (list tx) :=
  match h with
  | [] => []
  | ERestart :: r => blocks_of r
  | EBlock txs _ :: r => txs :: blocks_of r
  end.
(* every slot is claimed by some routine *)
Definition fair_sched (n : nat) (sched : list nat) : bool :=
  forallb (fun i => existsb (Nat.eqb i) sched) (seq 0 n).
Fixpoint fair (h : list ev) : bool :=
  match h with
  | [] => true
  | ERestart :: r => fair r
  | EBlock txs sched :: r => fair_sched (length txs) sched && fair r
  end.
