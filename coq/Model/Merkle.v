(* Executable model of gemmill/modules/go-merkle/simple_tree.go:
   SimpleHashFromTwoHashes, SimpleHashFromHashes, SimpleProofsFromHashables
   (trailsFromHashables + FlattenAunts), computeHashFromAunts, SimpleProof.Verify.
   Parametric in the hash function (go-hash.DoHash).  No proofs in this file. *)
From Coq Require Import List NArith ZArith Bool.
From AnnVerif Require Import Base.Res Base.Bytes.
Import ListNotations.

Section Merkle.
Variable hash : bytes -> bytes.

Definition hash2 (l r : bytes) : bytes := hash (enc_bs l ++ enc_bs r).

Definition half (n : nat) : nat := Nat.div (n + 1) 2.

(* SimpleHashFromHashes; the empty list hashes to Go nil, modelled as [] *)
Fixpoint root_f (fuel : nat) (hs : list bytes) : bytes :=
  match fuel with
  | O => []
  | S f =>
    match hs with
    | [] => []
    | [h] => h
    | _ => let k := half (length hs) in
           hash2 (root_f f (firstn k hs)) (root_f f (skipn k hs))
    end
  end.
Definition simple_root (hs : list bytes) : bytes := root_f (length hs) hs.

(* aunts of item i: sibling hashes from the leaf's sibling up to a child of the root
   (FlattenAunts order) *)
Fixpoint aunts_f (fuel : nat) (hs : list bytes) (i : nat) : list bytes :=
  match fuel with
  | O => []
  | S f =>
    match hs with
    | [] => []
    | [_] => []
    | _ => let k := half (length hs) in
           if Nat.ltb i k
           then aunts_f f (firstn k hs) i ++ [root_f f (skipn k hs)]
           else aunts_f f (skipn k hs) (i - k) ++ [root_f f (firstn k hs)]
    end
  end.
Definition aunts_of (hs : list bytes) (i : nat) : list bytes := aunts_f (length hs) hs i.

(* computeHashFromAunts(index,total,leaf,aunts); recursion consumes the LAST aunt first,
   so the model recurses on the reversed list.  None = Go nil ("does not verify").
   After the guard the Go code's "total == 0" sanity panic is unreachable (total = 0 implies
   index >= total), so it has no arm here.
   The guard [index < 0] is the repaired behaviour (fix: commit in /repo); see DESIGN F-17b. *)
Fixpoint compute_rev (raunts : list bytes) (index total : Z) (leaf : bytes) : option bytes :=
  if (index <? 0)%Z || (total <=? index)%Z then None
  else if (total =? 1)%Z then
    match raunts with [] => Some leaf | _ => None end
  else
    match raunts with
    | [] => None
    | a :: rest =>
      let numLeft := Z.quot (wrap64 (total + 1)) 2 in
      if (index <? numLeft)%Z then
        match compute_rev rest index numLeft leaf with
        | Some l => Some (hash2 l a)
        | None => None
        end
      else
        match compute_rev rest (index - numLeft) (total - numLeft) leaf with
        | Some r => Some (hash2 a r)
        | None => None
        end
    end.
Definition compute_from_aunts (index total : Z) (leaf : bytes) (aunts : list bytes) :=
  compute_rev (rev aunts) index total leaf.

(* SimpleProof.Verify *)
Definition verify (index total : Z) (leaf root : bytes) (aunts : list bytes) : bool :=
  match compute_from_aunts index total leaf aunts with
  | Some h => bytes_eqb h root
  | None => false
  end.

End Merkle.
