(* Executable model of the EVM's pure instructions on 256-bit words (eth/core/vm/instructions.go:
   opAdd ... opSAR), as functions on Z in [0, 2^256).  No proofs in this file. *)
From Coq Require Import ZArith Bool List.
Import ListNotations.
Open Scope Z_scope.

Definition W : Z := 2 ^ 256.
Definition wrap (x : Z) : Z := x mod W.
(* two's complement reading of a word *)
Definition sgn (x : Z) : Z := if x <? 2 ^ 255 then x else x - W.
Definition b2w (b : bool) : Z := if b then 1 else 0.

Definition op_add (a b : Z) := wrap (a + b).
Definition op_mul (a b : Z) := wrap (a * b).
Definition op_sub (a b : Z) := wrap (a - b).
Definition op_div (a b : Z) := if b =? 0 then 0 else a / b.
Definition op_sdiv (a b : Z) := if b =? 0 then 0 else wrap (Z.quot (sgn a) (sgn b)).
Definition op_mod (a b : Z) := if b =? 0 then 0 else a mod b.
Definition op_smod (a b : Z) := if b =? 0 then 0 else wrap (Z.rem (sgn a) (sgn b)).
Definition op_addmod (a b n : Z) := if n =? 0 then 0 else (a + b) mod n.
Definition op_mulmod (a b n : Z) := if n =? 0 then 0 else (a * b) mod n.
(* exponentiation by squaring over the bits of the exponent, as math.Exp does *)
Fixpoint exp_pos (base : Z) (e : positive) : Z :=
  match e with
  | xH => wrap base
  | xO e' => let h := exp_pos base e' in wrap (h * h)
  | xI e' => let h := exp_pos base e' in wrap (wrap (h * h) * base)
  end.
Definition op_exp (base e : Z) := match e with Z0 => 1 | Zpos p => exp_pos base p | Zneg _ => 1 end.
(* SIGNEXTEND(back, num): back is the first operand *)
Definition op_signextend (back num : Z) :=
  if back <? 31 then
    let bit := back * 8 + 7 in
    let mask := 2 ^ bit - 1 in
    if Z.testbit num bit then Z.lor num (W - 1 - mask) else Z.land num mask
  else num.
Definition op_lt (a b : Z) := b2w (a <? b).
Definition op_gt (a b : Z) := b2w (b <? a).
Definition op_slt (a b : Z) := b2w (sgn a <? sgn b).
Definition op_sgt (a b : Z) := b2w (sgn b <? sgn a).
Definition op_eq (a b : Z) := b2w (a =? b).
Definition op_iszero (a : Z) := b2w (a =? 0).
Definition op_and (a b : Z) := Z.land a b.
Definition op_or (a b : Z) := Z.lor a b.
Definition op_xor (a b : Z) := Z.lxor a b.
Definition op_not (a : Z) := W - 1 - a.
(* BYTE(th, val): byte th of val counted from the most significant *)
Definition op_byte (th val : Z) := if th <? 32 then (val / 2 ^ (8 * (31 - th))) mod 256 else 0.
(* shifts: the shift amount is the first operand *)
Definition op_shl (s v : Z) := if s <? 256 then wrap (v * 2 ^ s) else 0.
Definition op_shr (s v : Z) := if s <? 256 then v / 2 ^ s else 0.
Definition op_sar (s v : Z) :=
  if s <? 256 then wrap (sgn v / 2 ^ s)
  else if sgn v <? 0 then W - 1 else 0.

(* opcode -> function; operands in the order they are popped (top of stack first) *)
Definition eval (op : Z) (a b c : Z) : option Z :=
  match op with
  | 1 => Some (op_add a b) | 2 => Some (op_mul a b) | 3 => Some (op_sub a b) | 4 => Some (op_div a b)
  | 5 => Some (op_sdiv a b) | 6 => Some (op_mod a b) | 7 => Some (op_smod a b)
  | 8 => Some (op_addmod a b c) | 9 => Some (op_mulmod a b c) | 10 => Some (op_exp a b)
  | 11 => Some (op_signextend a b)
  | 16 => Some (op_lt a b) | 17 => Some (op_gt a b) | 18 => Some (op_slt a b) | 19 => Some (op_sgt a b)
  | 20 => Some (op_eq a b) | 21 => Some (op_iszero a)
  | 22 => Some (op_and a b) | 23 => Some (op_or a b) | 24 => Some (op_xor a b) | 25 => Some (op_not a)
  | 26 => Some (op_byte a b) | 27 => Some (op_shl a b) | 28 => Some (op_shr a b) | 29 => Some (op_sar a b)
  | _ => None
  end.
