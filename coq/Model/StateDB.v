(* Executable models of eth/core/state (statedb.go, state_object.go, journal.go) above the trie:
   accounts with nonce, balance, self-destruct mark and storage; get-or-create on write;
   CreateAccount carrying the balance over; Suicide; Snapshot / RevertToSnapshot; Finalise deleting
   self-destructed and (touched) empty accounts and invalidating the snapshots.

   Two semantics of the same operations:
   - [c_*]: snapshots are copies of the whole state (the specification: "reverting restores
     exactly the state at the snapshot" holds by construction);
   - [j_*]: the journal of undo entries the code keeps, replayed backwards on revert.
   Proofs/StateProofs.v shows they agree on every operation sequence.  No proofs in this file. *)
From Coq Require Import List NArith Bool.
Import ListNotations.
Open Scope N_scope.

Record acct := mkAcct { a_nonce : N; a_bal : N; a_sui : bool; a_store : list (N * N) }.
Definition fresh : acct := mkAcct 0 0 false [].
Definition world := list (N * option acct).     (* association list; the first binding counts; None = deleted *)

Fixpoint wget (w : world) (a : N) : option acct :=
  match w with
  | [] => None
  | (b, x) :: t => if b =? a then x else wget t a
  end.
Definition wset (w : world) (a : N) (x : option acct) : world := (a, x) :: w.

Fixpoint sget (s : list (N * N)) (k : N) : N :=
  match s with
  | [] => 0
  | (j, v) :: t => if j =? k then v else sget t k
  end.
Definition empty (x : acct) : bool := (a_nonce x =? 0) && (a_bal x =? 0).

Inductive op :=
| OSetNonce (a n : N) | OAddBal (a amt : N) | OSetState (a k v : N) | OSuicide (a : N) | OCreate (a : N)
| OSnap | ORevert (id : nat)
| OFinalise (del : bool).   (* Finalise / IntermediateRoot / Commit with deleteEmptyObjects = del *)

(* ---------- copy semantics ---------- *)
Record cstate := mkC { c_w : world; c_dirty : list N; c_snaps : list (nat * (world * list N)); c_next : nat }.
Definition c0 : cstate := mkC [] [] [] 0.

Definition get_or_new (w : world) (d : list N) (a : N) : world * list N * acct :=
  match wget w a with
  | Some x => (w, d, x)
  | None => (wset w a (Some fresh), a :: d, fresh)
  end.

Fixpoint drop_snaps {A} (l : list (nat * A)) (id : nat) : list (nat * A) :=
  match l with
  | [] => []
  | (j, x) :: t => if Nat.leb id j then drop_snaps t id else l
  end.
Fixpoint find_snap {A} (l : list (nat * A)) (id : nat) : option A :=
  match l with
  | [] => None
  | (j, x) :: t => if Nat.eqb j id then Some x else find_snap t id
  end.

Definition finalise_world (del : bool) (w : world) (d : list N) : world :=
  fold_left (fun w a => match wget w a with
                        | Some x => if a_sui x || (del && empty x) then wset w a None else w
                        | None => w
                        end) d w.

Definition c_step (s : cstate) (o : op) : cstate :=
  match o with
  | OSetNonce a n =>
    let '(w, d, x) := get_or_new (c_w s) (c_dirty s) a in
    mkC (wset w a (Some (mkAcct n (a_bal x) (a_sui x) (a_store x)))) (a :: d) (c_snaps s) (c_next s)
  | OAddBal a amt =>
    let '(w, d, x) := get_or_new (c_w s) (c_dirty s) a in
    if amt =? 0 then mkC w (if empty x then a :: d else d) (c_snaps s) (c_next s)
    else mkC (wset w a (Some (mkAcct (a_nonce x) (a_bal x + amt) (a_sui x) (a_store x)))) (a :: d) (c_snaps s) (c_next s)
  | OSetState a k v =>
    let '(w, d, x) := get_or_new (c_w s) (c_dirty s) a in
    if sget (a_store x) k =? v then mkC w d (c_snaps s) (c_next s)
    else mkC (wset w a (Some (mkAcct (a_nonce x) (a_bal x) (a_sui x) ((k, v) :: a_store x)))) (a :: d) (c_snaps s) (c_next s)
  | OSuicide a =>
    match wget (c_w s) a with
    | None => s
    | Some x => mkC (wset (c_w s) a (Some (mkAcct (a_nonce x) 0 true (a_store x)))) (a :: c_dirty s) (c_snaps s) (c_next s)
    end
  | OCreate a =>
    (* resetObjectChange does not mark the address dirty, createObjectChange does *)
    let bal := match wget (c_w s) a with Some x => a_bal x | None => 0 end in
    let d := match wget (c_w s) a with Some _ => c_dirty s | None => a :: c_dirty s end in
    mkC (wset (c_w s) a (Some (mkAcct 0 bal false []))) d (c_snaps s) (c_next s)
  | OSnap => mkC (c_w s) (c_dirty s) ((c_next s, (c_w s, c_dirty s)) :: c_snaps s) (S (c_next s))
  | ORevert id =>
    match find_snap (c_snaps s) id with
    | Some (w, d) => mkC w d (drop_snaps (c_snaps s) id) (c_next s)
    | None => s                                  (* the code panics: excluded by the harness *)
    end
  | OFinalise del => mkC (finalise_world del (c_w s) (c_dirty s)) [] [] (c_next s)
  end.
Definition c_run (ops : list op) : cstate := fold_left c_step ops c0.

(* ---------- journal semantics ---------- *)
Inductive jentry :=
| JObject (a : N) (prev : option acct)     (* createObjectChange / resetObjectChange *)
| JNonce (a prev : N) | JBal (a prev : N) | JStore (a k prev : N)
| JSuicide (a : N) (prev : bool) (prevbal : N)
| JTouch (a : N).

Definition jaddr (e : jentry) : N :=
  match e with JObject a _ | JNonce a _ | JBal a _ | JStore a _ _ | JSuicide a _ _ | JTouch a => a end.

(* journal.dirties: the addresses of the entries that dirty an account *)
Definition jdirt (e : jentry) : list N :=
  match e with JObject a (Some _) => [] | _ => [jaddr e] end.
Definition dirties (jl : list jentry) : list N := flat_map jdirt jl.

Definition upd_acct (w : world) (a : N) (f : acct -> acct) : world :=
  match wget w a with Some x => wset w a (Some (f x)) | None => w end.

Definition undo (w : world) (e : jentry) : world :=
  match e with
  | JObject a prev => wset w a prev
  | JNonce a p => upd_acct w a (fun x => mkAcct p (a_bal x) (a_sui x) (a_store x))
  | JBal a p => upd_acct w a (fun x => mkAcct (a_nonce x) p (a_sui x) (a_store x))
  | JStore a k p => upd_acct w a (fun x => mkAcct (a_nonce x) (a_bal x) (a_sui x) ((k, p) :: a_store x))
  | JSuicide a p pb => upd_acct w a (fun x => mkAcct (a_nonce x) pb p (a_store x))
  | JTouch _ => w
  end.

(* the journal grows at the head *)
Record jstate := mkJ { j_w : world; j_journal : list jentry; j_revs : list (nat * nat); j_next : nat }.
Definition j0 : jstate := mkJ [] [] [] 0.

Definition j_get_or_new (w : world) (jl : list jentry) (a : N) : world * list jentry * acct :=
  match wget w a with
  | Some x => (w, jl, x)
  | None => (wset w a (Some fresh), JObject a None :: jl, fresh)
  end.

(* undo the entries above journal length n *)
Fixpoint revert_to (w : world) (jl : list jentry) (n : nat) : world * list jentry :=
  if Nat.leb (length jl) n then (w, jl)
  else match jl with
       | [] => (w, [])
       | e :: t => revert_to (undo w e) t n
       end.

Definition j_step (s : jstate) (o : op) : jstate :=
  match o with
  | OSetNonce a n =>
    let '(w, jl, x) := j_get_or_new (j_w s) (j_journal s) a in
    mkJ (wset w a (Some (mkAcct n (a_bal x) (a_sui x) (a_store x)))) (JNonce a (a_nonce x) :: jl) (j_revs s) (j_next s)
  | OAddBal a amt =>
    let '(w, jl, x) := j_get_or_new (j_w s) (j_journal s) a in
    if amt =? 0 then mkJ w (if empty x then JTouch a :: jl else jl) (j_revs s) (j_next s)
    else mkJ (wset w a (Some (mkAcct (a_nonce x) (a_bal x + amt) (a_sui x) (a_store x)))) (JBal a (a_bal x) :: jl) (j_revs s) (j_next s)
  | OSetState a k v =>
    let '(w, jl, x) := j_get_or_new (j_w s) (j_journal s) a in
    if sget (a_store x) k =? v then mkJ w jl (j_revs s) (j_next s)
    else mkJ (wset w a (Some (mkAcct (a_nonce x) (a_bal x) (a_sui x) ((k, v) :: a_store x))))
             (JStore a k (sget (a_store x) k) :: jl) (j_revs s) (j_next s)
  | OSuicide a =>
    match wget (j_w s) a with
    | None => s
    | Some x => mkJ (wset (j_w s) a (Some (mkAcct (a_nonce x) 0 true (a_store x))))
                    (JSuicide a (a_sui x) (a_bal x) :: j_journal s) (j_revs s) (j_next s)
    end
  | OCreate a =>
    let prev := wget (j_w s) a in
    let bal := match prev with Some x => a_bal x | None => 0 end in
    mkJ (wset (j_w s) a (Some (mkAcct 0 bal false []))) (JObject a prev :: j_journal s) (j_revs s) (j_next s)
  | OSnap => mkJ (j_w s) (j_journal s) ((j_next s, length (j_journal s)) :: j_revs s) (S (j_next s))
  | ORevert id =>
    match find_snap (j_revs s) id with
    | Some n => let '(w, jl) := revert_to (j_w s) (j_journal s) n in mkJ w jl (drop_snaps (j_revs s) id) (j_next s)
    | None => s
    end
  | OFinalise del => mkJ (finalise_world del (j_w s) (dirties (j_journal s))) [] [] (j_next s)
  end.
Definition j_run (ops : list op) : jstate := fold_left j_step ops j0.

(* ---------- what a reader sees ---------- *)
Definition exists_ (w : world) (a : N) : bool := match wget w a with Some _ => true | None => false end.
Definition nonce_ (w : world) (a : N) : N := match wget w a with Some x => a_nonce x | None => 0 end.
Definition bal_ (w : world) (a : N) : N := match wget w a with Some x => a_bal x | None => 0 end.
Definition state_ (w : world) (a k : N) : N := match wget w a with Some x => sget (a_store x) k | None => 0 end.
