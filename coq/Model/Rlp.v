(* Executable model of RLP (eth/rlp/encode.go, decode.go) on item trees: canonical encoding and
   a decoder with the canonical-form checks of Stream.readKind / readUint / Bytes.  No proofs. *)
From Coq Require Import List NArith ZArith Bool.
From AnnVerif Require Import Base.Bytes.
Import ListNotations.
Open Scope N_scope.

Inductive item := IStr (b : bytes) | IList (l : list item).

(* minimal big-endian bytes of a positive number *)
Definition be_min (n : N) : bytes := be_bytes (usize n) n.

Definition enc_len (off : N) (n : nat) : bytes :=
  if Nat.ltb n 56 then [off + N.of_nat n]
  else let lb := be_min (N.of_nat n) in (off + 55 + N.of_nat (length lb)) :: lb.

Definition enc_str (b : bytes) : bytes :=
  match b with
  | [x] => if x <? 128 then [x] else [129; x]
  | _ => enc_len 128 (length b) ++ b
  end.

Fixpoint enc (it : item) : bytes :=
  match it with
  | IStr b => enc_str b
  | IList l => let p := concat (map enc l) in enc_len 192 (length p) ++ p
  end.

(* header: (is_list, payload size, rest after the header) ; None = error *)
Definition read_size (ll : nat) (rest : bytes) : option (nat * bytes) :=
  if Nat.ltb (length rest) ll then None
  else
    let lb := firstn ll rest in
    match lb with
    | [] => None
    | b0 :: _ =>
      if (Nat.ltb 1 ll) && (b0 =? 0) then None           (* leading zero *)
      else let v := be_val lb in
           if v <? 56 then None                            (* should have used the short form *)
           else if N.of_nat (length (skipn ll rest)) <? v then None   (* more than the input holds *)
           else Some (N.to_nat v, skipn ll rest)
    end.

(* decode items until the payload is used up; each item must decode *)
Fixpoint dec_items (decf : bytes -> option (item * bytes)) (k : nat) (p : bytes) : option (list item) :=
  match p with
  | [] => Some []
  | _ => match k with
         | O => None
         | S k' => match decf p with
                   | Some (it, p') => match dec_items decf k' p' with Some l => Some (it :: l) | None => None end
                   | None => None
                   end
         end
  end.

Fixpoint dec_f (fuel : nat) (bs : bytes) : option (item * bytes) :=
  match fuel with
  | O => None
  | S f =>
    match bs with
    | [] => None
    | b0 :: rest =>
      if b0 <? 128 then Some (IStr [b0], rest)
      else if b0 <? 184 then
        let n := N.to_nat (b0 - 128) in
        if Nat.ltb (length rest) n then None
        else let s := firstn n rest in
             match s with
             | [x] => if x <? 128 then None else Some (IStr s, skipn n rest)   (* non-canonical single byte *)
             | _ => Some (IStr s, skipn n rest)
             end
      else if b0 <? 192 then
        match read_size (N.to_nat (b0 - 183)) rest with
        | None => None
        | Some (n, rest') => if Nat.ltb (length rest') n then None else Some (IStr (firstn n rest'), skipn n rest')
        end
      else
        let hdr := if b0 <? 248 then Some (N.to_nat (b0 - 192), rest) else read_size (N.to_nat (b0 - 247)) rest in
        match hdr with
        | None => None
        | Some (n, rest') =>
          if Nat.ltb (length rest') n then None
          else
            let payload := firstn n rest' in
            (* the items must fill the payload exactly *)
            match dec_items (dec_f f) (length payload) payload with
            | Some l => Some (IList l, skipn n rest')
            | None => None
            end
        end
    end
  end.

(* DecodeBytes: exactly one value, nothing after it *)
Definition decode (bs : bytes) : option item :=
  match dec_f (S (length bs)) bs with
  | Some (it, []) => Some it
  | _ => None
  end.
