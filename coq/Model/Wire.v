(* Executable model of go-wire's binary codec (gemmill/go-wire/reflect.go writeReflectBinary /
   readReflectBinary, int.go, byteslice.go, time.go after the F-18b repair) over a universe of
   type descriptors.  The harness obtains the descriptor of every real Go type by reflection
   (wire.GetTypeInfo) on each run, so the model is run against the types as they are now.
   Values are untyped trees; [decode] tracks the number of bytes consumed against the caller's
   limit exactly where the Go code does.  No proofs in this file. *)
From Coq Require Import List NArith ZArith Bool.
From AnnVerif Require Import Base.Res Base.Bytes.
Import ListNotations.
Open Scope Z_scope.

Inductive ty :=
| TFix (k : nat) (signed : bool)   (* int8..int64 / uint8..uint64: k bytes big endian *)
| TVar (signed : bool)             (* int, uint (and 64-bit fields tagged varint) *)
| TBool
| TBytes                           (* []byte and string *)
| TTime                            (* int64 nanoseconds, whole milliseconds *)
| TArr (n : nat)                   (* [n]byte *)
| TList (t : ty)                   (* slice of anything but bytes *)
| TArrOf (n : nat) (t : ty)        (* array of anything but bytes *)
| TStruct (fs : list ty)
| TPtr (t : ty)
| TIface (alts : list (N * ty)).   (* registered interface: type byte -> concrete type *)

Inductive val :=
| VZ (z : Z) | VB (b : bool) | VBs (b : bytes) | VL (l : list val)
| VNone | VSome (v : val) | VI (tag : N) (v : val).

Fixpoint lookup_alt (alts : list (N * ty)) (tag : N) : option ty :=
  match alts with [] => None | (k, t) :: r => if N.eqb k tag then Some t else lookup_alt r tag end.

Definition pow256 (k : nat) : Z := Z.pow 256 (Z.of_nat k).

(* ---------- encoding ---------- *)
Definition opt_app (a b : option bytes) : option bytes :=
  match a, b with Some x, Some y => Some (x ++ y) | _, _ => None end.
Definition opt_pre (p : bytes) (a : option bytes) : option bytes :=
  match a with Some x => Some (p ++ x) | None => None end.

Fixpoint enc_list (enc : val -> option bytes) (l : list val) : option bytes :=
  match l with [] => Some [] | x :: r => opt_app (enc x) (enc_list enc r) end.
Fixpoint enc_fields (encs : list (val -> option bytes)) (l : list val) : option bytes :=
  match encs, l with
  | [], [] => Some []
  | e :: er, x :: r => opt_app (e x) (enc_fields er r)
  | _, _ => None
  end.
Fixpoint enc_alts (alts : list (N * (val -> option bytes))) (tag : N) (x : val) : option bytes :=
  match alts with
  | [] => None
  | (k, e) :: r => if N.eqb k tag then opt_pre [tag] (e x) else enc_alts r tag x
  end.

Fixpoint encode (t : ty) (v : val) {struct t} : option bytes :=
  match t, v with
  | TFix k _, VZ z => Some (be_bytes k (Z.to_N (z mod pow256 k)))
  | TVar true, VZ z => Some (enc_varint z)
  | TVar false, VZ z => Some (enc_uvarint (Z.to_N z))
  | TBool, VB b => Some [if b then 1%N else 0%N]
  | TBytes, VBs b => Some (enc_bs b)
  | TTime, VZ z => Some (be_bytes 8 (Z.to_N ((Z.quot z 1000000 * 1000000) mod pow256 8)))
  | TArr n, VBs b => if Nat.eqb (length b) n then Some b else None
  | TList t', VL l => opt_pre (enc_varint (Z.of_nat (length l))) (enc_list (encode t') l)
  | TArrOf n t', VL l => if Nat.eqb (length l) n then enc_list (encode t') l else None
  | TStruct fs, VL l => enc_fields (map encode fs) l
  | TPtr _, VNone => Some [0%N]
  | TPtr t', VSome x => opt_pre [1%N] (encode t' x)
  | TIface _, VNone => Some [0%N]
  | TIface alts, VI tag x => enc_alts (map (fun kt => (fst kt, encode (snd kt))) alts) tag x
  | _, _ => None
  end.

(* ---------- decoding ---------- *)
(* state: bytes consumed so far (Go's *n) and the remaining input *)
Definition dres := res (val * Z * bytes).
Definition decoder := Z -> bytes -> dres.

Definition take (k : nat) (n : Z) (bs : bytes) : res (bytes * Z * bytes) :=
  if Nat.ltb (length bs) k then Err 1   (* EOF *)
  else Ok (firstn k bs, n + Z.of_nat k, skipn k bs).

Definition read_varint (n : Z) (bs : bytes) : res (Z * Z * bytes) :=
  match dec_varint bs with
  | Some (z, rest) => Ok (z, n + Z.of_nat (length bs - length rest), rest)
  | None => Err 2
  end.

Definition over (lmt n : Z) : bool := negb (lmt =? 0) && (lmt <? n).

(* ReadByteSlice: [Some len] when the guards pass and make([]byte, len) is reached *)
Definition read_bytes_alloc (lmt n : Z) (bs : bytes) : option Z :=
  match read_varint n bs with
  | Ok (len, n1, _) =>
    if len <? 0 then None
    else if negb (lmt =? 0) && (lmt <? Z.max len (n1 + len)) then None
    else Some len
  | _ => None
  end.
Definition read_bytes (lmt n : Z) (bs : bytes) : res (bytes * Z * bytes) :=
  match read_varint n bs with
  | Ok (len, n1, r1) =>
    if len <? 0 then Err 3
    else if negb (lmt =? 0) && (lmt <? Z.max len (n1 + len)) then Err 4
    else if Z.of_nat (length r1) <? len then Err 1   (* EOF while filling the buffer *)
    else take (Z.to_nat len) n1 r1
  | Err e => Err e
  | Panic w => Panic w
  end.

Definition signed_of (k : nat) (u : Z) : Z := if pow256 k <=? 2 * u then u - pow256 k else u.

(* element loop of slices and arrays: the running count is checked against the limit after
   every element *)
Fixpoint dec_loop (dec : decoder) (lmt : Z) (count : nat) (n : Z) (bs : bytes) (acc : list val) : dres :=
  match count with
  | O => Ok (VL (rev acc), n, bs)
  | S c =>
    match dec n bs with
    | Ok (v, n2, r2) => if over lmt n2 then Err 4 else dec_loop dec lmt c n2 r2 (v :: acc)
    | Err e => Err e | Panic w => Panic w
    end
  end.
(* struct fields: no check between fields *)
Fixpoint dec_fields (decs : list decoder) (n : Z) (bs : bytes) (acc : list val) : dres :=
  match decs with
  | [] => Ok (VL (rev acc), n, bs)
  | d :: dr =>
    match d n bs with
    | Ok (v, n2, r2) => dec_fields dr n2 r2 (v :: acc)
    | Err e => Err e | Panic w => Panic w
    end
  end.
Fixpoint dec_alts (alts : list (N * decoder)) (x : N) (n : Z) (bs : bytes) : dres :=
  match alts with
  | [] => Err 7
  | (k, d) :: ar =>
    if N.eqb k x then
      match d n bs with
      | Ok (v, n2, r2) => Ok (VI x v, n2, r2)
      | Err e => Err e | Panic w => Panic w
      end
    else dec_alts ar x n bs
  end.

(* the number of elements a slice decoder will attempt: the announced length, but never more
   than the remaining input could hold when every element occupies at least one byte *)
Definition loop_count (len : Z) (r : bytes) : nat :=
  if len <=? Z.of_nat (length r) then Z.to_nat len else S (length r).

Fixpoint decode (t : ty) (lmt n : Z) (bs : bytes) {struct t} : dres :=
  match t with
  | TFix k signed =>
    match take k n bs with
    | Ok (b, n1, r) =>
      let u := Z.of_N (be_val b) in Ok (VZ (if signed then signed_of k u else u), n1, r)
    | Err e => Err e | Panic w => Panic w
    end
  | TVar signed =>
    match read_varint n bs with
    | Ok (z, n1, r) => Ok (VZ (if signed then z else z mod pow256 8), n1, r)
    | Err e => Err e | Panic w => Panic w
    end
  | TBool =>
    match take 1 n bs with
    | Ok (b, n1, r) => Ok (VB (match b with x :: _ => (0 <? x)%N | [] => false end), n1, r)
    | Err e => Err e | Panic w => Panic w
    end
  | TBytes =>
    match read_bytes lmt n bs with
    | Ok (b, n1, r) => Ok (VBs b, n1, r)
    | Err e => Err e | Panic w => Panic w
    end
  | TTime =>
    match take 8 n bs with
    | Ok (b, n1, r) =>
      let z := signed_of 8 (Z.of_N (be_val b)) in
      if Z.rem z 1000000 =? 0 then Ok (VZ z, n1, r) else Err 5
    | Err e => Err e | Panic w => Panic w
    end
  | TArr k =>
    match take k n bs with
    | Ok (b, n1, r) => Ok (VBs b, n1, r)
    | Err e => Err e | Panic w => Panic w
    end
  | TList t' =>
    match read_varint n bs with
    | Ok (len, n1, r1) => dec_loop (decode t' lmt) lmt (loop_count len r1) n1 r1 []
    | Err e => Err e | Panic w => Panic w
    end
  | TArrOf k t' => dec_loop (decode t' lmt) lmt k n bs []
  | TStruct fs => dec_fields (map (fun f => decode f lmt) fs) n bs []
  | TPtr t' =>
    match take 1 n bs with
    | Ok ([x], n1, r) =>
      if (x =? 0)%N then Ok (VNone, n1, r)
      else if (x =? 1)%N then
        match decode t' lmt n1 r with
        | Ok (v, n2, r2) => Ok (VSome v, n2, r2)
        | Err e => Err e | Panic w => Panic w
        end
      else Err 6
    | Ok _ => Err 1
    | Err e => Err e | Panic w => Panic w
    end
  | TIface alts =>
    match take 1 n bs with
    | Ok ([x], n1, r) =>
      if (x =? 0)%N then Ok (VNone, n1, r)
      else dec_alts (map (fun kt => (fst kt, decode (snd kt) lmt)) alts) x n1 r
    | Ok _ => Err 1
    | Err e => Err e | Panic w => Panic w
    end
  end.

(* ReadBinary: decode from the start; the whole read must stay within the limit *)
Definition read_binary (t : ty) (lmt : Z) (bs : bytes) : res (val * Z) :=
  match decode t lmt 0 bs with
  | Ok (v, n, _) => if over lmt n then Err 4 else Ok (v, n)
  | Err e => Err e
  | Panic w => Panic w
  end.

(* ---------- well-formedness (executable, checked by the harness on every real type) ---------- *)
Fixpoint pos_size (t : ty) : bool :=
  match t with
  | TFix k _ => Nat.ltb 0 k
  | TArr k => Nat.ltb 0 k
  | TArrOf k t' => Nat.ltb 0 k && pos_size t'
  | TStruct fs => existsb pos_size fs
  | _ => true
  end.

Fixpoint wf_ty (t : ty) : bool :=
  match t with
  | TList t' => pos_size t' && wf_ty t'
  | TArrOf _ t' => wf_ty t'
  | TStruct fs => forallb wf_ty fs
  | TPtr t' => wf_ty t'
  | TIface alts => forallb (fun kt => (0 <? fst kt)%N && (fst kt <? 256)%N && wf_ty (snd kt)) alts
  | _ => true
  end.

Definition all_bytes (b : bytes) : bool := forallb (fun x => (x <? 256)%N) b.
Definition small_len {A} (l : list A) : bool := Z.of_nat (length l) <? 9223372036854775808.

(* values a Go variable of the type can hold *)
Fixpoint wf_val (t : ty) (v : val) {struct t} : bool :=
  match t, v with
  | TFix k true, VZ z => (- pow256 k <=? 2 * z) && (2 * z <? pow256 k)
  | TFix k false, VZ z => (0 <=? z) && (z <? pow256 k)
  | TVar true, VZ z => (- 9223372036854775808 <=? z) && (z <? 9223372036854775808)
  | TVar false, VZ z => (0 <=? z) && (z <? 18446744073709551616)
  | TBool, VB _ => true
  | TBytes, VBs b => all_bytes b && small_len b
  | TTime, VZ z => (- 9223372036854775808 <=? z) && (z <? 9223372036854775808) && (Z.rem z 1000000 =? 0)
  | TArr k, VBs b => all_bytes b && Nat.eqb (length b) k
  | TList t', VL l => small_len l && forallb (wf_val t') l
  | TArrOf k t', VL l => Nat.eqb (length l) k && forallb (wf_val t') l
  | TStruct fs, VL l =>
    (fix go (fs : list ty) (l : list val) : bool :=
       match fs, l with
       | [], [] => true
       | f :: fr, x :: r => wf_val f x && go fr r
       | _, _ => false
       end) fs l
  | TPtr _, VNone => true
  | TPtr t', VSome x => wf_val t' x
  | TIface _, VNone => true
  | TIface alts, VI tag x =>
    (fix find (alts : list (N * ty)) : bool :=
       match alts with
       | [] => false
       | kt :: r => if N.eqb (fst kt) tag then wf_val (snd kt) x else find r
       end) alts
  | _, _ => false
  end.
