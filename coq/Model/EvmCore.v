(* Executable model of the EVM interpreter loop for one contract frame (eth/core/vm/interpreter.go
   Run with the Constantinople jump table, instructions.go, memory.go, stack.go, analysis.go,
   memory_table.go): program counter, stack with its limit, byte memory growing in words, storage,
   logs, jump-destination analysis, PUSH/DUP/SWAP, call data / code copies, environment and block
   instructions, RETURN/REVERT/STOP/INVALID, on top of the pure instructions of Model/EvmArith.v.
   SHA3 is Model/Keccak.v.  Not modelled (the model answers [OUnsup] when it meets them): BALANCE, EXTCODE*,
   GAS, every call and create instruction, SELFDESTRUCT; gas is not metered - memory requests beyond
   64 KiB are classified as the real interpreter classifies them when it cannot pay (overflow of the
   size computation: failure; beyond the gas table's limit: out of gas) or left undecided.
   No proofs in this file. *)
From Coq Require Import ZArith Bool List.
From AnnVerif Require Import Model.EvmArith Model.Keccak.
Import ListNotations.
Open Scope Z_scope.

Record env := mkEnv {
  e_address : Z; e_origin : Z; e_caller : Z; e_value : Z; e_gasprice : Z;
  e_coinbase : Z; e_time : Z; e_number : Z; e_difficulty : Z; e_gaslimit : Z;
  e_data : list Z;
  e_blockhash : Z -> Z }.          (* the hash of an earlier block, as the node's chain reader gives it *)

Record mstate := mkM {
  m_pc : nat; m_stack : list Z; m_mem : list Z;
  m_store : list (Z * Z);                 (* association list, latest binding first *)
  m_logs : list (list Z * list Z) }.      (* topics, data; latest first *)

Inductive outcome :=
| OStop (ret : list Z) (store : list (Z * Z)) (logs : list (list Z * list Z))
| ORevert (ret : list Z)
| OFail | OOog | OUnsup.

(* ---------- bytes ---------- *)
Fixpoint word_of_bytes_acc (l : list Z) (acc : Z) : Z :=
  match l with [] => acc | b :: t => word_of_bytes_acc t (acc * 256 + b) end.
Definition word_of_bytes (l : list Z) : Z := word_of_bytes_acc l 0.
Fixpoint bytes_of_word (n : nat) (w : Z) : list Z :=
  match n with
  | O => []
  | S k => bytes_of_word k (w / 256) ++ [w mod 256]
  end.
(* [len] bytes of [l] from [off], zero-padded on the right *)
Definition slice (l : list Z) (off len : nat) : list Z := firstn len (skipn off l ++ repeat 0 len).
(* getDataBig: offsets beyond the data give zeros *)
Definition get_data (data : list Z) (off : Z) (len : nat) : list Z :=
  if Z.of_nat (length data) <=? off then repeat 0 len else slice data (Z.to_nat off) len.

(* ---------- memory ---------- *)
Definition mem_resize (m : list Z) (size : nat) : list Z :=
  if Nat.ltb (length m) size then m ++ repeat 0 (size - length m) else m.
Definition mem_write (m : list Z) (off : nat) (bs : list Z) : list Z :=
  firstn off m ++ bs ++ skipn (off + length bs) m.

Inductive mneed := MNone | MSize (n : nat) | MFail | MOog | MUnsup.
(* calcMemSize, bigUint64, toWordSize * 32, memoryGasCost's limit *)
Definition mem_need (off len : Z) : mneed :=
  if len =? 0 then MNone
  else
    let e := off + len in
    if 18446744073709551616 <=? e then MFail
    else if 18446744073709551584 <? e then MFail
    else
      let size := (e + 31) / 32 * 32 in
      if 1099511627744 <? size then MOog
      else if 65536 <? size then MUnsup
      else MSize (Z.to_nat size).

(* ---------- storage ---------- *)
Fixpoint sload (s : list (Z * Z)) (k : Z) : Z :=
  match s with [] => 0 | (k', v) :: t => if k' =? k then v else sload t k end.

(* ---------- code analysis (analysis.go codeBitmap): true = an instruction starts here ---------- *)
Fixpoint code_starts (l : list Z) (skip : nat) : list bool :=
  match l with
  | [] => []
  | b :: t =>
    match skip with
    | S k => false :: code_starts t k
    | O => true :: code_starts t (if (96 <=? b) && (b <=? 127) then Z.to_nat (b - 95) else 0%nat)
    end
  end.
Definition valid_dest (code : list Z) (d : Z) : bool :=
  if d <? Z.of_nat (length code)
  then (nth (Z.to_nat d) code 0 =? 91) && nth (Z.to_nat d) (code_starts code 0) false
  else false.

(* ---------- instructions ---------- *)
Inductive envk := EAddress | EOrigin | ECaller | ECallvalue | ECalldatasize | ECodesize | EGasprice | EReturndatasize
                | ECoinbase | ETimestamp | ENumber | EDifficulty | EGaslimit | EPc | EMsize.
Inductive instr :=
| IStop | IJumpdest | IPure (arity : nat) (op : Z) | IEnv (k : envk) | ISha3 | IBlockhash
| ICalldataload | ICalldatacopy | ICodecopy | IReturndatacopy
| IPop | IMload | IMstore | IMstore8 | ISload | ISstore | IJump | IJumpi
| IPush (n : nat) | IDup (n : nat) | ISwap (k : nat) (* SWAP(k+1) *) | ILog (n : nat)
| IReturn | IRevert | IUnsup | IInvalid.

(* the Constantinople jump table *)
Definition decode (op : Z) : instr :=
  if op =? 0 then IStop
  else if op =? 91 then IJumpdest
  else if ((1 <=? op) && (op <=? 7)) || (op =? 10) || (op =? 11) || ((16 <=? op) && (op <=? 20))
          || ((22 <=? op) && (op <=? 24)) || ((26 <=? op) && (op <=? 29)) then IPure 2 op
  else if (op =? 8) || (op =? 9) then IPure 3 op
  else if (op =? 21) || (op =? 25) then IPure 1 op
  else if op =? 32 then ISha3
  else if op =? 48 then IEnv EAddress else if op =? 50 then IEnv EOrigin else if op =? 51 then IEnv ECaller
  else if op =? 52 then IEnv ECallvalue else if op =? 53 then ICalldataload else if op =? 54 then IEnv ECalldatasize
  else if op =? 55 then ICalldatacopy else if op =? 56 then IEnv ECodesize else if op =? 57 then ICodecopy
  else if op =? 58 then IEnv EGasprice else if op =? 61 then IEnv EReturndatasize else if op =? 62 then IReturndatacopy
  else if op =? 64 then IBlockhash
  else if op =? 65 then IEnv ECoinbase else if op =? 66 then IEnv ETimestamp else if op =? 67 then IEnv ENumber
  else if op =? 68 then IEnv EDifficulty else if op =? 69 then IEnv EGaslimit
  else if op =? 80 then IPop else if op =? 81 then IMload else if op =? 82 then IMstore else if op =? 83 then IMstore8
  else if op =? 84 then ISload else if op =? 85 then ISstore else if op =? 86 then IJump else if op =? 87 then IJumpi
  else if op =? 88 then IEnv EPc else if op =? 89 then IEnv EMsize
  else if (96 <=? op) && (op <=? 127) then IPush (Z.to_nat (op - 95))
  else if (128 <=? op) && (op <=? 143) then IDup (Z.to_nat (op - 127))
  else if (144 <=? op) && (op <=? 159) then ISwap (Z.to_nat (op - 144))
  else if (160 <=? op) && (op <=? 164) then ILog (Z.to_nat (op - 160))
  else if op =? 243 then IReturn else if op =? 253 then IRevert
  else if (op =? 49) || (op =? 59) || (op =? 60) || (op =? 63) || (op =? 90)
          || ((240 <=? op) && (op <=? 242)) || (op =? 244) || (op =? 245) || (op =? 250) || (op =? 255) then IUnsup
  else IInvalid.

(* what an instruction pops and pushes *)
Definition kind (i : instr) : nat * nat :=
  match i with
  | IStop | IJumpdest => (0, 0)
  | IPure ar _ => (ar, 1)
  | IEnv _ => (0, 1)
  | ICalldataload | IMload | ISload | IBlockhash => (1, 1)
  | ICalldatacopy | ICodecopy | IReturndatacopy => (3, 0)
  | IPop | IJump => (1, 0)
  | IMstore | IMstore8 | ISstore | IJumpi | IReturn | IRevert => (2, 0)
  | ISha3 => (2, 1)
  | IPush _ => (0, 1)
  | IDup n => (n, S n)
  | ISwap k => (k + 2, k + 2)        (* SWAP(k+1) *)
  | ILog n => (n + 2, 0)
  | IUnsup | IInvalid => (0, 0)
  end%nat.

(* the memory an instruction needs, from the stack before it runs *)
Definition st (s : list Z) (i : nat) : Z := nth i s 0.
Definition instr_mem (i : instr) (s : list Z) : mneed :=
  match i with
  | IMload | IMstore => mem_need (st s 0) 32
  | IMstore8 => mem_need (st s 0) 1
  | ICalldatacopy | ICodecopy | IReturndatacopy => mem_need (st s 0) (st s 2)
  | ILog _ | IReturn | IRevert | ISha3 => mem_need (st s 0) (st s 1)
  | _ => MNone
  end.

(* ---------- one instruction: what it pushes, the new memory, storage and logs, where it goes ---------- *)
Inductive pcm := PNext | PSkip (n : nat) | PJump (d : Z).
Record eff := mkEff { f_outs : list Z; f_mem : list Z; f_store : list (Z * Z); f_logs : list (list Z * list Z); f_pc : pcm }.

Definition mslice (mem : list Z) (off len : Z) : list Z := if len =? 0 then [] else slice mem (Z.to_nat off) (Z.to_nat len).

Definition env_val (e : env) (code : list Z) (m : mstate) (k : envk) : Z :=
  match k with
  | EAddress => e_address e | EOrigin => e_origin e | ECaller => e_caller e | ECallvalue => e_value e
  | ECalldatasize => Z.of_nat (length (e_data e)) | ECodesize => Z.of_nat (length code) | EGasprice => e_gasprice e
  | EReturndatasize => 0 | ECoinbase => e_coinbase e | ETimestamp => e_time e | ENumber => e_number e
  | EDifficulty => e_difficulty e | EGaslimit => e_gaslimit e | EPc => Z.of_nat (m_pc m) | EMsize => Z.of_nat (length (m_mem m))
  end.

Definition exec (e : env) (code : list Z) (i : instr) (m : mstate) : eff + outcome :=
  let s := m_stack m in
  let mem := m_mem m in
  let keep outs := inl (mkEff outs mem (m_store m) (m_logs m) PNext) in
  let withmem mem' := inl (mkEff [] mem' (m_store m) (m_logs m) PNext) in
  match i with
  | IStop => inr (OStop [] (m_store m) (m_logs m))
  | IJumpdest => keep []
  | IPure _ op => match eval op (st s 0) (st s 1) (st s 2) with Some r => keep [r] | None => inr OFail end
  | IEnv k => keep [env_val e code m k]
  | ISha3 => keep [keccak_word (mslice mem (st s 0) (st s 1))]
  | IBlockhash =>
    (* the 256 most recent blocks, the current one excluded *)
    let n := st s 0 in
    keep [if (Z.max 0 (e_number e - 257) <? n) && (n <? e_number e) then e_blockhash e n else 0]
  | ICalldataload => keep [word_of_bytes (get_data (e_data e) (st s 0) 32)]
  | ICalldatacopy => withmem (if st s 2 =? 0 then mem else mem_write mem (Z.to_nat (st s 0)) (get_data (e_data e) (st s 1) (Z.to_nat (st s 2))))
  | ICodecopy => withmem (if st s 2 =? 0 then mem else mem_write mem (Z.to_nat (st s 0)) (get_data code (st s 1) (Z.to_nat (st s 2))))
  | IReturndatacopy =>
    (* with no return data only the empty copy from offset 0 is in bounds *)
    if st s 1 + st s 2 =? 0 then withmem mem else inr OFail
  | IPop => keep []
  | IMload => keep [word_of_bytes (slice mem (Z.to_nat (st s 0)) 32)]
  | IMstore => withmem (mem_write mem (Z.to_nat (st s 0)) (bytes_of_word 32 (st s 1)))
  | IMstore8 => withmem (mem_write mem (Z.to_nat (st s 0)) [st s 1 mod 256])
  | ISload => keep [sload (m_store m) (st s 0)]
  | ISstore => inl (mkEff [] mem ((st s 0, st s 1) :: m_store m) (m_logs m) PNext)
  | IJump => inl (mkEff [] mem (m_store m) (m_logs m) (PJump (st s 0)))
  | IJumpi => inl (mkEff [] mem (m_store m) (m_logs m) (if st s 1 =? 0 then PNext else PJump (st s 0)))
  | IPush n => inl (mkEff [word_of_bytes (slice code (S (m_pc m)) n)] mem (m_store m) (m_logs m) (PSkip n))
  | IDup n => keep (st s (n - 1) :: firstn n s)
  | ISwap k => keep (st s (S k) :: firstn k (skipn 1 s) ++ [st s 0])
  | ILog n => inl (mkEff [] mem (m_store m) ((firstn n (skipn 2 s), mslice mem (st s 0) (st s 1)) :: m_logs m) PNext)
  | IReturn => inr (OStop (mslice mem (st s 0) (st s 1)) (m_store m) (m_logs m))
  | IRevert => inr (ORevert (mslice mem (st s 0) (st s 1)))
  | IUnsup => inr OUnsup
  | IInvalid => inr OFail
  end.

(* one turn of the interpreter loop: fetch, validate the stack, size the memory, execute, move *)
Definition sized (i : instr) (m : mstate) : mstate + outcome :=
  match instr_mem i (m_stack m) with
  | MFail => inr OFail
  | MOog => inr OOog
  | MUnsup => inr OUnsup
  | MNone => inl m
  | MSize n => inl (mkM (m_pc m) (m_stack m) (mem_resize (m_mem m) n) (m_store m) (m_logs m))
  end.

Definition step (e : env) (code : list Z) (m : mstate) : mstate + outcome :=
  let i := decode (nth (m_pc m) code 0) in
  let len := length (m_stack m) in
  if Nat.ltb len (fst (kind i)) then inr OFail
  else if Nat.ltb 1024 (len + snd (kind i) - fst (kind i)) then inr OFail
  else
    match sized i m with
    | inr o => inr o
    | inl m1 =>
      match exec e code i m1 with
      | inr o => inr o
      | inl f =>
        let stack := f_outs f ++ skipn (fst (kind i)) (m_stack m) in
        match f_pc f with
        | PNext => inl (mkM (S (m_pc m)) stack (f_mem f) (f_store f) (f_logs f))
        | PSkip n => inl (mkM (m_pc m + 1 + n) stack (f_mem f) (f_store f) (f_logs f))
        | PJump d => if valid_dest code d then inl (mkM (Z.to_nat d) stack (f_mem f) (f_store f) (f_logs f)) else inr OFail
        end
      end
    end.

Fixpoint run (fuel : nat) (e : env) (code : list Z) (m : mstate) : outcome :=
  match fuel with
  | O => OUnsup
  | S k => match step e code m with inl m' => run k e code m' | inr o => o end
  end.

Definition init_state (store : list (Z * Z)) : mstate := mkM 0 [] [] store [].
Definition call (fuel : nat) (e : env) (code : list Z) (store : list (Z * Z)) : outcome :=
  match code with [] => OStop [] store [] | _ => run fuel e code (init_state store) end.
